/-
Lemma library for the Go-faithful UTF-8 prelude `ElvModel/Go/Utf8.lean`.
Core Lean only (no Mathlib).
-/
import ElvModel.Go.Utf8
namespace Go

/-! ## 0. Bytes ↔ Nat bridges -/

theorem toNat_ofNat_of_lt {n : Nat} (h : n < 256) : (UInt8.ofNat n).toNat = n := by
  rw [UInt8.toNat_ofNat']; omega

theorem byte_toNat_lt (b : UInt8) : b.toNat < 256 := UInt8.toNat_lt b

theorem isCont_iff {b : Nat} : isCont b = true ↔ 0x80 ≤ b ∧ b ≤ 0xBF := by
  simp [isCont]

theorem isCont_eq_false_iff {b : Nat} : isCont b = false ↔ b < 0x80 ∨ 0xBF < b := by
  simp [isCont]; omega

theorem validRune_iff {r : Nat} : validRune r = true ↔ r < 0xD800 ∨ (0xDFFF < r ∧ r ≤ 0x10FFFF) := by
  simp [validRune]

theorem validRune_RuneError : validRune RuneError = true := by decide

/-! ## 1. `decodeRune`: equation lemmas per encoding length -/

@[simp] theorem decodeRune_nil : decodeRune [] = (RuneError, 0) := rfl

theorem decodeRune_one (b0 : UInt8) (t : Bytes) (h : b0.toNat < 0x80) :
    decodeRune (b0 :: t) = (b0.toNat, 1) := by
  simp [decodeRune, h]

theorem decodeRune_two (b0 b1 : UInt8) (t : Bytes)
    (h0 : 0xC2 ≤ b0.toNat) (h0' : b0.toNat < 0xE0)
    (h1 : 0x80 ≤ b1.toNat) (h1' : b1.toNat ≤ 0xBF) :
    decodeRune (b0 :: b1 :: t) = ((b0.toNat - 0xC0) * 64 + (b1.toNat - 0x80), 2) := by
  have a1 : ¬ b0.toNat < 0x80 := by omega
  have a2 : ¬ b0.toNat < 0xC2 := by omega
  simp [decodeRune, a1, a2, h0', isCont, h1, h1']

theorem decodeRune_three (b0 b1 b2 : UInt8) (t : Bytes)
    (h0 : 0xE0 ≤ b0.toNat) (h0' : b0.toNat < 0xF0)
    (h1 : 0x80 ≤ b1.toNat) (h1' : b1.toNat ≤ 0xBF)
    (hlo : b0.toNat = 0xE0 → 0xA0 ≤ b1.toNat) (hhi : b0.toNat = 0xED → b1.toNat ≤ 0x9F)
    (h2 : 0x80 ≤ b2.toNat) (h2' : b2.toNat ≤ 0xBF) :
    decodeRune (b0 :: b1 :: b2 :: t) =
      ((b0.toNat - 0xE0) * 4096 + (b1.toNat - 0x80) * 64 + (b2.toNat - 0x80), 3) := by
  have a1 : ¬ b0.toNat < 0x80 := by omega
  have a2 : ¬ b0.toNat < 0xC2 := by omega
  have a3 : ¬ b0.toNat < 0xE0 := by omega
  have l : (if b0.toNat = 0xE0 then 0xA0 else 0x80) ≤ b1.toNat := by split <;> omega
  have u : b1.toNat ≤ (if b0.toNat = 0xED then 0x9F else 0xBF) := by split <;> omega
  simp [decodeRune, a1, a2, a3, h0', isCont, h2, h2', l, u]

theorem decodeRune_four (b0 b1 b2 b3 : UInt8) (t : Bytes)
    (h0 : 0xF0 ≤ b0.toNat) (h0' : b0.toNat < 0xF5)
    (h1 : 0x80 ≤ b1.toNat) (h1' : b1.toNat ≤ 0xBF)
    (hlo : b0.toNat = 0xF0 → 0x90 ≤ b1.toNat) (hhi : b0.toNat = 0xF4 → b1.toNat ≤ 0x8F)
    (h2 : 0x80 ≤ b2.toNat) (h2' : b2.toNat ≤ 0xBF)
    (h3 : 0x80 ≤ b3.toNat) (h3' : b3.toNat ≤ 0xBF) :
    decodeRune (b0 :: b1 :: b2 :: b3 :: t) =
      ((b0.toNat - 0xF0) * 262144 + (b1.toNat - 0x80) * 4096 + (b2.toNat - 0x80) * 64
        + (b3.toNat - 0x80), 4) := by
  have a1 : ¬ b0.toNat < 0x80 := by omega
  have a2 : ¬ b0.toNat < 0xC2 := by omega
  have a3 : ¬ b0.toNat < 0xE0 := by omega
  have a4 : ¬ b0.toNat < 0xF0 := by omega
  have l : (if b0.toNat = 0xF0 then 0x90 else 0x80) ≤ b1.toNat := by split <;> omega
  have u : b1.toNat ≤ (if b0.toNat = 0xF4 then 0x8F else 0xBF) := by split <;> omega
  simp [decodeRune, a1, a2, a3, a4, h0', isCont, h2, h2', h3, h3', l, u]

/-- A leading continuation byte (or `0xC0`, `0xC1`) is an error of width 1. -/
theorem decodeRune_cont (b0 : UInt8) (t : Bytes) (h : isCont b0.toNat = true) :
    decodeRune (b0 :: t) = (RuneError, 1) := by
  obtain ⟨h1, h2⟩ := isCont_iff.1 h
  have a1 : ¬ b0.toNat < 0x80 := by omega
  have a2 : b0.toNat < 0xC2 := by omega
  simp [decodeRune, a1, a2]

/-- Complete case analysis of `decodeRune` (inversion principle). -/
inductive DecodeCase : Bytes → Rune → Nat → Prop
  | empty : DecodeCase [] RuneError 0
  | one (b0 : UInt8) (t : Bytes) (h : b0.toNat < 0x80) : DecodeCase (b0 :: t) b0.toNat 1
  | two (b0 b1 : UInt8) (t : Bytes)
      (h0 : 0xC2 ≤ b0.toNat) (h0' : b0.toNat < 0xE0)
      (h1 : 0x80 ≤ b1.toNat) (h1' : b1.toNat ≤ 0xBF) :
      DecodeCase (b0 :: b1 :: t) ((b0.toNat - 0xC0) * 64 + (b1.toNat - 0x80)) 2
  | three (b0 b1 b2 : UInt8) (t : Bytes)
      (h0 : 0xE0 ≤ b0.toNat) (h0' : b0.toNat < 0xF0)
      (h1 : 0x80 ≤ b1.toNat) (h1' : b1.toNat ≤ 0xBF)
      (hlo : b0.toNat = 0xE0 → 0xA0 ≤ b1.toNat) (hhi : b0.toNat = 0xED → b1.toNat ≤ 0x9F)
      (h2 : 0x80 ≤ b2.toNat) (h2' : b2.toNat ≤ 0xBF) :
      DecodeCase (b0 :: b1 :: b2 :: t)
        ((b0.toNat - 0xE0) * 4096 + (b1.toNat - 0x80) * 64 + (b2.toNat - 0x80)) 3
  | four (b0 b1 b2 b3 : UInt8) (t : Bytes)
      (h0 : 0xF0 ≤ b0.toNat) (h0' : b0.toNat < 0xF5)
      (h1 : 0x80 ≤ b1.toNat) (h1' : b1.toNat ≤ 0xBF)
      (hlo : b0.toNat = 0xF0 → 0x90 ≤ b1.toNat) (hhi : b0.toNat = 0xF4 → b1.toNat ≤ 0x8F)
      (h2 : 0x80 ≤ b2.toNat) (h2' : b2.toNat ≤ 0xBF)
      (h3 : 0x80 ≤ b3.toNat) (h3' : b3.toNat ≤ 0xBF) :
      DecodeCase (b0 :: b1 :: b2 :: b3 :: t)
        ((b0.toNat - 0xF0) * 262144 + (b1.toNat - 0x80) * 4096 + (b2.toNat - 0x80) * 64
          + (b3.toNat - 0x80)) 4
  | invalid (b0 : UInt8) (t : Bytes) (h : 0x80 ≤ b0.toNat) : DecodeCase (b0 :: t) RuneError 1

theorem decodeRune_case (s : Bytes) : DecodeCase s (decodeRune s).1 (decodeRune s).2 := by
  match s with
  | [] => exact .empty
  | b0 :: rest =>
    by_cases c1 : b0.toNat < 0x80
    · rw [decodeRune_one _ _ c1]; exact .one _ _ c1
    have inv : DecodeCase (b0 :: rest) RuneError 1 := .invalid _ _ (by omega)
    by_cases c2 : b0.toNat < 0xC2
    · simp only [decodeRune, c1, c2, if_true, if_false]; exact inv
    by_cases c3 : b0.toNat < 0xE0
    · match rest with
      | [] => simp only [decodeRune, c1, c2, c3, if_true, if_false]; exact inv
      | b1 :: t =>
        by_cases k1 : isCont b1.toNat = true
        · have ⟨k, k'⟩ := isCont_iff.1 k1
          rw [decodeRune_two _ _ _ (by omega) c3 k k']
          exact .two _ _ _ (by omega) c3 k k'
        · simp only [decodeRune, c1, c2, c3, k1, if_true, if_false]; exact inv
    by_cases c4 : b0.toNat < 0xF0
    · match rest with
      | [] => simp only [decodeRune, c1, c2, c3, c4, if_true, if_false]; exact inv
      | [_] => simp only [decodeRune, c1, c2, c3, c4, if_true, if_false]; exact inv
      | b1 :: b2 :: t =>
        by_cases h : ((if b0.toNat = 0xE0 then 0xA0 else 0x80) ≤ b1.toNat ∧
            b1.toNat ≤ (if b0.toNat = 0xED then 0x9F else 0xBF)) ∧ isCont b2.toNat = true
        · obtain ⟨⟨hl, hu⟩, h2⟩ := h
          obtain ⟨h2, h2'⟩ := isCont_iff.1 h2
          have g1 : 0x80 ≤ b1.toNat := by split at hl <;> omega
          have g2 : b1.toNat ≤ 0xBF := by split at hu <;> omega
          have g3 : b0.toNat = 0xE0 → 0xA0 ≤ b1.toNat := by intro e; simpa [e] using hl
          have g4 : b0.toNat = 0xED → b1.toNat ≤ 0x9F := by intro e; simpa [e] using hu
          rw [decodeRune_three _ _ _ _ (by omega) c4 g1 g2 g3 g4 h2 h2']
          exact .three _ _ _ _ (by omega) c4 g1 g2 g3 g4 h2 h2'
        · simp only [decodeRune, c1, c2, c3, c4, if_true, if_false]
          rw [if_neg (by simpa only [Bool.and_eq_true, decide_eq_true_eq] using h)]
          exact inv
    by_cases c5 : b0.toNat < 0xF5
    · match rest with
      | [] => simp only [decodeRune, c1, c2, c3, c4, c5, if_true, if_false]; exact inv
      | [_] => simp only [decodeRune, c1, c2, c3, c4, c5, if_true, if_false]; exact inv
      | [_, _] => simp only [decodeRune, c1, c2, c3, c4, c5, if_true, if_false]; exact inv
      | b1 :: b2 :: b3 :: t =>
        by_cases h : (((if b0.toNat = 0xF0 then 0x90 else 0x80) ≤ b1.toNat ∧
            b1.toNat ≤ (if b0.toNat = 0xF4 then 0x8F else 0xBF)) ∧ isCont b2.toNat = true) ∧
            isCont b3.toNat = true
        · obtain ⟨⟨⟨hl, hu⟩, h2⟩, h3⟩ := h
          obtain ⟨h2, h2'⟩ := isCont_iff.1 h2
          obtain ⟨h3, h3'⟩ := isCont_iff.1 h3
          have g1 : 0x80 ≤ b1.toNat := by split at hl <;> omega
          have g2 : b1.toNat ≤ 0xBF := by split at hu <;> omega
          have g3 : b0.toNat = 0xF0 → 0x90 ≤ b1.toNat := by intro e; simpa [e] using hl
          have g4 : b0.toNat = 0xF4 → b1.toNat ≤ 0x8F := by intro e; simpa [e] using hu
          rw [decodeRune_four _ _ _ _ _ (by omega) c5 g1 g2 g3 g4 h2 h2' h3 h3']
          exact .four _ _ _ _ _ (by omega) c5 g1 g2 g3 g4 h2 h2' h3 h3'
        · simp only [decodeRune, c1, c2, c3, c4, c5, if_true, if_false]
          rw [if_neg (by simpa only [Bool.and_eq_true, decide_eq_true_eq] using h)]
          exact inv
    simp only [decodeRune, c1, c2, c3, c4, c5, if_false]; exact inv

/-- Inversion in equational form. -/
theorem decodeRune_case_of_eq {s : Bytes} {r : Nat} {n : Nat} (h : decodeRune s = (r, n)) :
    DecodeCase s r n := by
  have := decodeRune_case s
  rwa [h] at this

theorem DecodeCase.size_le {s r n} (h : DecodeCase s r n) : n ≤ s.length := by
  cases h <;> simp

theorem DecodeCase.size_pos {s r n} (h : DecodeCase s r n) (hs : s ≠ []) : 0 < n := by
  cases h <;> simp at hs ⊢

theorem DecodeCase.size_le_four {s r n} (h : DecodeCase s r n) : n ≤ 4 := by
  cases h <;> simp

theorem decodeRune_size_le (s : Bytes) : (decodeRune s).2 ≤ s.length :=
  (decodeRune_case s).size_le

theorem decodeRune_size_pos {s : Bytes} (h : s ≠ []) : 0 < (decodeRune s).2 :=
  (decodeRune_case s).size_pos h

theorem decodeRune_size_le_four (s : Bytes) : (decodeRune s).2 ≤ 4 :=
  (decodeRune_case s).size_le_four

theorem decodeRune_size_eq_zero_iff (s : Bytes) : (decodeRune s).2 = 0 ↔ s = [] := by
  constructor
  · intro h
    by_cases hs : s = []
    · exact hs
    · have := decodeRune_size_pos hs; omega
  · rintro rfl; rfl

/-- The decoded rune is always at most `MaxRune`. -/
theorem DecodeCase.rune_le {s : Bytes} {r n : Nat} (h : DecodeCase s r n) : r ≤ 0x10FFFF := by
  cases h <;> first | omega | decide

theorem decodeRune_rune_le (s : Bytes) : (decodeRune s).1 ≤ MaxRune :=
  (decodeRune_case s).rune_le

/-! ## 2. `encodeRune`: equation lemmas and lengths -/

theorem encodeRune_one {r : Nat} (h : r < 0x80) : encodeRune r = [UInt8.ofNat r] := by
  simp [encodeRune, h]

theorem encodeRune_two {r : Nat} (h1 : 0x80 ≤ r) (h2 : r < 0x800) :
    encodeRune r = [UInt8.ofNat (0xC0 + r / 64), UInt8.ofNat (0x80 + r % 64)] := by
  have a : ¬ r < 0x80 := by omega
  simp [encodeRune, a, h2]

theorem encodeRune_three {r : Nat} (h1 : 0x800 ≤ r) (h2 : r < 0x10000) (hv : validRune r = true) :
    encodeRune r = [UInt8.ofNat (0xE0 + r / 4096), UInt8.ofNat (0x80 + r / 64 % 64),
      UInt8.ofNat (0x80 + r % 64)] := by
  have a : ¬ r < 0x80 := by omega
  have b : ¬ r < 0x800 := by omega
  simp [encodeRune, a, b, h2, hv]

theorem encodeRune_four {r : Nat} (h1 : 0x10000 ≤ r) (hv : validRune r = true) :
    encodeRune r = [UInt8.ofNat (0xF0 + r / 262144), UInt8.ofNat (0x80 + r / 4096 % 64),
      UInt8.ofNat (0x80 + r / 64 % 64), UInt8.ofNat (0x80 + r % 64)] := by
  have a : ¬ r < 0x80 := by omega
  have b : ¬ r < 0x800 := by omega
  have c : ¬ r < 0x10000 := by omega
  simp [encodeRune, a, b, c, hv]

theorem encodeRune_invalid {r : Nat} (hv : validRune r = false) :
    encodeRune r = [0xEF, 0xBF, 0xBD] := by
  have hv' : ¬ (r < 0xD800 ∨ (0xDFFF < r ∧ r ≤ 0x10FFFF)) := by
    rw [← validRune_iff]; simp [hv]
  have a : ¬ r < 0x80 := by omega
  have b : ¬ r < 0x800 := by omega
  simp [encodeRune, a, b, hv]

theorem encodeRune_RuneError : encodeRune RuneError = [0xEF, 0xBF, 0xBD] := by decide

theorem encodeRune_invalid_eq {r : Nat} (hv : validRune r = false) :
    encodeRune r = encodeRune RuneError := by
  rw [encodeRune_invalid hv, encodeRune_RuneError]

/-- Length of the encoding, by range. -/
theorem encodeRune_length (r : Nat) :
    (encodeRune r).length =
      if r < 0x80 then 1 else if r < 0x800 then 2
      else if validRune r = false then 3 else if r < 0x10000 then 3 else 4 := by
  unfold encodeRune
  repeat' split
  all_goals simp_all

theorem encodeRune_length_pos (r : Nat) : 0 < (encodeRune r).length := by
  rw [encodeRune_length]; repeat' split
  all_goals omega

theorem encodeRune_length_le_four (r : Nat) : (encodeRune r).length ≤ 4 := by
  rw [encodeRune_length]; repeat' split
  all_goals omega

theorem encodeRune_ne_nil (r : Nat) : encodeRune r ≠ [] := by
  intro h; have := encodeRune_length_pos r; rw [h] at this; simp at this

theorem runeLen_eq_encodeRune_length {r : Nat} (h : validRune r = true) :
    runeLen r = some (encodeRune r).length := by
  have hv := validRune_iff.1 h
  by_cases c1 : r < 0x80
  · simp [runeLen, encodeRune_length, c1]
  by_cases c2 : r < 0x800
  · simp [runeLen, encodeRune_length, c1, c2]
  have c3 : ¬ (0xD800 ≤ r ∧ r ≤ 0xDFFF) := by omega
  by_cases c4 : r < 0x10000
  · simp [runeLen, encodeRune_length, c1, c2, c3, c4, h]
  have c5 : r ≤ 0x10FFFF := by omega
  simp [runeLen, encodeRune_length, c1, c2, c3, c4, c5, h]

/-- `runeLen` is `none` exactly on non-scalar values. -/
theorem runeLen_eq_none_iff {r : Nat} : runeLen r = none ↔ validRune r = false := by
  by_cases h : validRune r = true
  · rw [runeLen_eq_encodeRune_length h]; simp [h]
  · have hv : ¬ (r < 0xD800 ∨ (0xDFFF < r ∧ r ≤ 0x10FFFF)) := by rwa [← validRune_iff]
    have c1 : ¬ r < 0x80 := by omega
    have c2 : ¬ r < 0x800 := by omega
    by_cases c3 : (0xD800 ≤ r ∧ r ≤ 0xDFFF)
    · simp [runeLen, c1, c2, c3, h]
    · have c4 : ¬ r < 0x10000 := by omega
      have c5 : ¬ r ≤ 0x10FFFF := by omega
      simp [runeLen, c1, c2, c3, c4, c5, h]

/-! ## 3. Round trip `decodeRune (encodeRune r ++ t)` -/

theorem decodeRune_encodeRune_append (r : Nat) (h : validRune r = true) (t : Bytes) :
    decodeRune (encodeRune r ++ t) = (r, (encodeRune r).length) := by
  have hv := validRune_iff.1 h
  by_cases c1 : r < 0x80
  · rw [encodeRune_one c1]
    have e0 : (UInt8.ofNat r).toNat = r := toNat_ofNat_of_lt (by omega)
    simp only [List.cons_append, List.nil_append, List.length_cons, List.length_nil]
    rw [decodeRune_one _ _ (by omega), e0]
  by_cases c2 : r < 0x800
  · rw [encodeRune_two (by omega) c2]
    have e0 : (UInt8.ofNat (0xC0 + r / 64)).toNat = 0xC0 + r / 64 := toNat_ofNat_of_lt (by omega)
    have e1 : (UInt8.ofNat (0x80 + r % 64)).toNat = 0x80 + r % 64 := toNat_ofNat_of_lt (by omega)
    simp only [List.cons_append, List.nil_append, List.length_cons, List.length_nil]
    rw [decodeRune_two _ _ _ (by omega) (by omega) (by omega) (by omega), e0, e1]
    simp only [Prod.mk.injEq, and_true]; omega
  by_cases c3 : r < 0x10000
  · rw [encodeRune_three (by omega) c3 h]
    have e0 : (UInt8.ofNat (0xE0 + r / 4096)).toNat = 0xE0 + r / 4096 :=
      toNat_ofNat_of_lt (by omega)
    have e1 : (UInt8.ofNat (0x80 + r / 64 % 64)).toNat = 0x80 + r / 64 % 64 :=
      toNat_ofNat_of_lt (by omega)
    have e2 : (UInt8.ofNat (0x80 + r % 64)).toNat = 0x80 + r % 64 := toNat_ofNat_of_lt (by omega)
    simp only [List.cons_append, List.nil_append, List.length_cons, List.length_nil]
    rw [decodeRune_three _ _ _ _ (by omega) (by omega) (by omega) (by omega) (by omega) (by omega)
      (by omega) (by omega), e0, e1, e2]
    simp only [Prod.mk.injEq, and_true]; omega
  · rw [encodeRune_four (by omega) h]
    have e0 : (UInt8.ofNat (0xF0 + r / 262144)).toNat = 0xF0 + r / 262144 :=
      toNat_ofNat_of_lt (by omega)
    have e1 : (UInt8.ofNat (0x80 + r / 4096 % 64)).toNat = 0x80 + r / 4096 % 64 :=
      toNat_ofNat_of_lt (by omega)
    have e2 : (UInt8.ofNat (0x80 + r / 64 % 64)).toNat = 0x80 + r / 64 % 64 :=
      toNat_ofNat_of_lt (by omega)
    have e3 : (UInt8.ofNat (0x80 + r % 64)).toNat = 0x80 + r % 64 := toNat_ofNat_of_lt (by omega)
    simp only [List.cons_append, List.nil_append, List.length_cons, List.length_nil]
    rw [decodeRune_four _ _ _ _ _ (by omega) (by omega) (by omega) (by omega) (by omega) (by omega)
      (by omega) (by omega) (by omega) (by omega), e0, e1, e2, e3]
    simp only [Prod.mk.injEq, and_true]; omega

theorem decodeRune_encodeRune (r : Nat) (h : validRune r = true) :
    decodeRune (encodeRune r) = (r, (encodeRune r).length) := by
  simpa using decodeRune_encodeRune_append r h []

/-- For arbitrary (possibly invalid) `r`, decoding the encoding yields either `r` or U+FFFD,
never the error *signal* `(RuneError, 1)`. -/
theorem decodeRune_encodeRune_append_any (r : Nat) (t : Bytes) :
    decodeRune (encodeRune r ++ t) =
      ((if validRune r then r else RuneError), (encodeRune r).length) := by
  by_cases h : validRune r = true
  · simp [h, decodeRune_encodeRune_append r h t]
  · have h' : validRune r = false := by simpa using h
    rw [encodeRune_invalid_eq h', decodeRune_encodeRune_append _ validRune_RuneError t]
    simp [h']

/-! ## 4. Converse: a successfully decoded prefix is the canonical encoding -/

theorem DecodeCase.valid_take {s : Bytes} {r n : Nat} (hc : DecodeCase s r n) (hs : s ≠ [])
    (herr : ¬ (r = RuneError ∧ n = 1)) : validRune r = true ∧ s.take n = encodeRune r := by
  cases hc with
  | empty => exact absurd rfl hs
  | one b0 t h =>
    refine ⟨validRune_iff.2 (by omega), ?_⟩
    rw [encodeRune_one h, UInt8.ofNat_toNat]; simp
  | two b0 b1 t h0 h0' h1 h1' =>
    refine ⟨validRune_iff.2 (by omega), ?_⟩
    rw [encodeRune_two (by omega) (by omega)]
    have e0 : 0xC0 + ((b0.toNat - 0xC0) * 64 + (b1.toNat - 0x80)) / 64 = b0.toNat := by omega
    have e1 : 0x80 + ((b0.toNat - 0xC0) * 64 + (b1.toNat - 0x80)) % 64 = b1.toNat := by omega
    rw [e0, e1, UInt8.ofNat_toNat, UInt8.ofNat_toNat]; simp
  | three b0 b1 b2 t h0 h0' h1 h1' hlo hhi h2 h2' =>
    have hv : validRune ((b0.toNat - 0xE0) * 4096 + (b1.toNat - 0x80) * 64 + (b2.toNat - 0x80))
        = true := validRune_iff.2 (by omega)
    refine ⟨hv, ?_⟩
    rw [encodeRune_three (by omega) (by omega) hv]
    have e0 : 0xE0 + ((b0.toNat - 0xE0) * 4096 + (b1.toNat - 0x80) * 64 + (b2.toNat - 0x80)) / 4096
        = b0.toNat := by omega
    have e1 : 0x80 + ((b0.toNat - 0xE0) * 4096 + (b1.toNat - 0x80) * 64 + (b2.toNat - 0x80)) / 64 % 64
        = b1.toNat := by omega
    have e2 : 0x80 + ((b0.toNat - 0xE0) * 4096 + (b1.toNat - 0x80) * 64 + (b2.toNat - 0x80)) % 64
        = b2.toNat := by omega
    rw [e0, e1, e2, UInt8.ofNat_toNat, UInt8.ofNat_toNat, UInt8.ofNat_toNat]; simp
  | four b0 b1 b2 b3 t h0 h0' h1 h1' hlo hhi h2 h2' h3 h3' =>
    have hv : validRune ((b0.toNat - 0xF0) * 262144 + (b1.toNat - 0x80) * 4096
        + (b2.toNat - 0x80) * 64 + (b3.toNat - 0x80)) = true := validRune_iff.2 (by omega)
    refine ⟨hv, ?_⟩
    rw [encodeRune_four (by omega) hv]
    have e0 : 0xF0 + ((b0.toNat - 0xF0) * 262144 + (b1.toNat - 0x80) * 4096
        + (b2.toNat - 0x80) * 64 + (b3.toNat - 0x80)) / 262144 = b0.toNat := by omega
    have e1 : 0x80 + ((b0.toNat - 0xF0) * 262144 + (b1.toNat - 0x80) * 4096
        + (b2.toNat - 0x80) * 64 + (b3.toNat - 0x80)) / 4096 % 64 = b1.toNat := by omega
    have e2 : 0x80 + ((b0.toNat - 0xF0) * 262144 + (b1.toNat - 0x80) * 4096
        + (b2.toNat - 0x80) * 64 + (b3.toNat - 0x80)) / 64 % 64 = b2.toNat := by omega
    have e3 : 0x80 + ((b0.toNat - 0xF0) * 262144 + (b1.toNat - 0x80) * 4096
        + (b2.toNat - 0x80) * 64 + (b3.toNat - 0x80)) % 64 = b3.toNat := by omega
    rw [e0, e1, e2, e3, UInt8.ofNat_toNat, UInt8.ofNat_toNat, UInt8.ofNat_toNat,
      UInt8.ofNat_toNat]; simp
  | invalid b0 t h => exact absurd ⟨rfl, rfl⟩ herr

/-- If `decodeRune s = (r, n)` is not the error signal `(RuneError, 1)` and `s` is non-empty,
`r` is a scalar value and the consumed prefix is exactly its canonical encoding. -/
theorem decodeRune_valid_take {s : Bytes} {r n : Nat} (h : decodeRune s = (r, n)) (hs : s ≠ [])
    (herr : ¬ (r = RuneError ∧ n = 1)) : validRune r = true ∧ s.take n = encodeRune r :=
  (decodeRune_case_of_eq h).valid_take hs herr

/-- Same, as a decomposition of `s`. -/
theorem decodeRune_eq_encodeRune_append {s : Bytes} {r n : Nat} (h : decodeRune s = (r, n))
    (hs : s ≠ []) (herr : ¬ (r = RuneError ∧ n = 1)) :
    validRune r = true ∧ s = encodeRune r ++ s.drop n ∧ n = (encodeRune r).length := by
  obtain ⟨hv, ht⟩ := decodeRune_valid_take h hs herr
  refine ⟨hv, ?_, ?_⟩
  · rw [← ht, List.take_append_drop]
  · have := decodeRune_size_le s
    rw [h] at this
    rw [← ht, List.length_take]; simp only at this; omega

/-- Every decoded rune is a scalar value (U+FFFD in the error case). -/
theorem decodeRune_validRune (s : Bytes) : validRune (decodeRune s).1 = true := by
  by_cases hs : s = []
  · subst hs; decide
  by_cases herr : (decodeRune s).1 = RuneError ∧ (decodeRune s).2 = 1
  · rw [herr.1]; decide
  · exact (decodeRune_valid_take (r := (decodeRune s).1) (n := (decodeRune s).2) rfl hs herr).1

end Go
