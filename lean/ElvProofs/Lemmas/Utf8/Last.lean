/-
`decodeLastRune` (lemma group 8).
-/
import ElvProofs.Lemmas.Utf8.Shape
import ElvProofs.Lemmas.Utf8.Runes
namespace Go

/-! ### The backward scan `decodeLastRune.back` -/

theorem back_zero (s : Bytes) (lim : Nat) (start : Int) :
    decodeLastRune.back s lim 0 start = start := by
  rw [decodeLastRune.back]

theorem back_lt_lim (s : Bytes) (lim fuel : Nat) (start : Int) (h : start < (lim : Int)) :
    decodeLastRune.back s lim fuel start = start := by
  cases fuel with
  | zero => exact back_zero ..
  | succ f => rw [decodeLastRune.back]; simp [h]

theorem back_hit (s : Bytes) (lim fuel : Nat) (start : Int) (b : UInt8)
    (hb : s[start.toNat]? = some b) (hs : runeStart b = true) :
    decodeLastRune.back s lim (fuel + 1) start = start := by
  rw [decodeLastRune.back]
  by_cases h : start < (lim : Int)
  · simp [h]
  · simp [h, hb, hs]

theorem back_skip (s : Bytes) (lim fuel : Nat) (start : Int) (b : UInt8)
    (hl : ¬ start < (lim : Int)) (hb : s[start.toNat]? = some b) (hs : runeStart b = false) :
    decodeLastRune.back s lim (fuel + 1) start = decodeLastRune.back s lim fuel (start - 1) := by
  rw [decodeLastRune.back]
  simp [hl, hb, hs]

/-! ### `decodeLastRune` on `p ++ [one complete encoding]` -/

theorem decodeLastRune_nil : decodeLastRune [] = (RuneError, 0) := by
  simp [decodeLastRune]

theorem decodeLastRune_append_ascii (p : Bytes) (b : UInt8) (h : b.toNat < 0x80) :
    decodeLastRune (p ++ [b]) = (b.toNat, 1) := by
  simp [decodeLastRune, h]

/-- Unfolding of `decodeLastRune` in the multi-byte branch once the scan result is known. -/
theorem decodeLastRune_of_back (s : Bytes) (last : UInt8) (start : Nat)
    (hlast : s[s.length - 1]? = some last) (hge : ¬ last.toNat < 0x80)
    (hback : decodeLastRune.back s (s.length - 4) 4 ((s.length : Int) - 2) = (start : Int)) :
    decodeLastRune s =
      if start + (decodeRune (s.drop start)).2 ≠ s.length then (RuneError, 1)
      else decodeRune (s.drop start) := by
  have hne : s.length ≠ 0 := by
    intro h0
    have : s = [] := List.eq_nil_of_length_eq_zero h0
    subst this; simp at hlast
  unfold decodeLastRune
  have hs : ¬ ((start : Int) < 0) := by omega
  simp only [hne, if_false, hlast, hge, UTFMax, hback]
  simp [hs]

/-- The scan stops at the first rune start when walking back over `j < fuel` continuation bytes. -/
theorem back_scan (s : Bytes) (lim k : Nat) (b0 : UInt8) (hk : s[k]? = some b0)
    (hb0 : runeStart b0 = true) (hlim : lim ≤ k) :
    ∀ (j fuel : Nat), j < fuel →
      (∀ i, 1 ≤ i → i ≤ j → ∃ c, s[k + i]? = some c ∧ runeStart c = false) →
      decodeLastRune.back s lim fuel ((k + j : Nat) : Int) = (k : Int) := by
  intro j
  induction j with
  | zero =>
    intro fuel hf _
    match fuel, hf with
    | f + 1, _ => exact back_hit s lim f _ b0 (by simpa using hk) hb0
  | succ j ih =>
    intro fuel hf hc
    match fuel, hf with
    | f + 1, hf =>
      obtain ⟨c, hc1, hc2⟩ := hc (j + 1) (by omega) (by omega)
      rw [back_skip s lim f _ c (by omega) (by rw [Int.toNat_natCast]; exact hc1) hc2]
      have : (((k + (j + 1) : Nat) : Int) - 1) = ((k + j : Nat) : Int) := by omega
      rw [this]
      exact ih f (by omega) (fun i h1 h2 => hc i h1 (by omega))

/-- Generic step: if `s = p ++ b0 :: cs` ends in a rune start followed by `1 ≤ |cs| ≤ 3`
continuation bytes, then `decodeLastRune` decodes `b0 :: cs` and checks that it is consumed
entirely.  Independent of `p`. -/
theorem decodeLastRune_append_start_conts (p : Bytes) (b0 : UInt8) (cs : Bytes)
    (hb0 : runeStart b0 = true) (hcs : ∀ c ∈ cs, isCont c.toNat = true)
    (hne : cs ≠ []) (hlen : cs.length ≤ 3) :
    decodeLastRune (p ++ b0 :: cs) =
      if (decodeRune (b0 :: cs)).2 ≠ cs.length + 1 then (RuneError, 1)
      else decodeRune (b0 :: cs) := by
  have hpos : 0 < cs.length := List.length_pos_iff.2 hne
  have hL : (p ++ b0 :: cs).length = p.length + cs.length + 1 := by
    simp only [List.length_append, List.length_cons]; omega
  -- last byte
  have hlast : (p ++ b0 :: cs)[(p ++ b0 :: cs).length - 1]? = some (cs.getLast hne) := by
    rw [hL, List.getElem?_append_right (by omega)]
    have : p.length + cs.length + 1 - 1 - p.length = (cs.length - 1) + 1 := by omega
    rw [this, List.getElem?_cons_succ, List.getLast_eq_getElem, List.getElem?_eq_getElem]
  have hge : ¬ (cs.getLast hne).toNat < 0x80 := by
    have := isCont_iff.1 (hcs _ (List.getLast_mem hne)); omega
  -- scan
  have hback : decodeLastRune.back (p ++ b0 :: cs) ((p ++ b0 :: cs).length - 4) 4
      (((p ++ b0 :: cs).length : Int) - 2) = (p.length : Int) := by
    have e1 : (((p ++ b0 :: cs).length : Int) - 2) = ((p.length + (cs.length - 1) : Nat) : Int) := by
      rw [hL]; omega
    rw [e1]
    apply back_scan _ _ _ b0 (by simp) hb0 (by rw [hL]; omega) _ _ (by omega)
    intro i h1 h2
    have hi : i - 1 < cs.length := by omega
    refine ⟨cs[i - 1], ?_, ?_⟩
    · rw [List.getElem?_append_right (by omega)]
      have : p.length + i - p.length = (i - 1) + 1 := by omega
      rw [this, List.getElem?_cons_succ, List.getElem?_eq_getElem]
    · simp [runeStart, hcs _ (List.getElem_mem hi)]
  rw [decodeLastRune_of_back _ _ _ hlast hge hback, List.drop_left, hL]
  have : (p.length + (decodeRune (b0 :: cs)).2 ≠ p.length + cs.length + 1) ↔
      ((decodeRune (b0 :: cs)).2 ≠ cs.length + 1) := by omega
  simp only [this]

/-! ### Group 8 -/

/-- `decodeLastRune` after a complete encoding returns that rune, for *any* prefix `p`
(valid UTF-8 or not): the backward scan stops at the start byte of `encodeRune r`, because it is
the first non-continuation byte met and lies within `UTFMax` bytes of the end. -/
theorem decodeLastRune_append_encodeRune {r : Nat} (h : validRune r = true) (p : Bytes) :
    decodeLastRune (p ++ encodeRune r) = (r, (encodeRune r).length) := by
  by_cases c1 : r < 0x80
  · obtain ⟨e, hb⟩ := encodeRune_ascii c1
    rw [e, decodeLastRune_append_ascii p _ (by omega), hb]; rfl
  · obtain ⟨b, cs, e, hb, hcs, hlen⟩ := encodeRune_eq_cons r
    have hne : cs ≠ [] := by
      intro h0
      have := (encodeRune_length_eq_one_iff r).1 (by rw [e, h0]; rfl)
      exact c1 this
    have hd := decodeRune_encodeRune r h
    rw [e] at hd ⊢
    rw [decodeLastRune_append_start_conts p b cs hb hcs hne hlen, hd]
    simp

/-- Version for arbitrary `r` (invalid ones read back as U+FFFD, size 3). -/
theorem decodeLastRune_append_encodeRune_any (r : Nat) (p : Bytes) :
    decodeLastRune (p ++ encodeRune r) =
      ((if validRune r then r else RuneError), (encodeRune r).length) := by
  by_cases h : validRune r = true
  · simp [h, decodeLastRune_append_encodeRune h p]
  · have h' : validRune r = false := by simpa using h
    rw [encodeRune_invalid_eq h', decodeLastRune_append_encodeRune validRune_RuneError p]
    simp [h']

theorem decodeLastRune_encodeRune {r : Nat} (h : validRune r = true) :
    decodeLastRune (encodeRune r) = (r, (encodeRune r).length) := by
  simpa using decodeLastRune_append_encodeRune h []

/-! ### General size facts for `decodeLastRune` -/

theorem back_le (s : Bytes) (lim : Nat) :
    ∀ (fuel : Nat) (start : Int), decodeLastRune.back s lim fuel start ≤ start := by
  intro fuel
  induction fuel with
  | zero => intro st; rw [back_zero]; exact Int.le_refl _
  | succ f ih =>
    intro st
    rw [decodeLastRune.back]
    split
    · exact Int.le_refl _
    · split
      · split
        · exact Int.le_refl _
        · have := ih (st - 1); omega
      · exact Int.le_refl _

/-- Size bounds for `decodeLastRune`, mirroring `decodeRune_size_*`. -/
theorem decodeLastRune_size (s : Bytes) :
    (decodeLastRune s).2 ≤ 4 ∧ (decodeLastRune s).2 ≤ s.length ∧
      (s ≠ [] → 0 < (decodeLastRune s).2) := by
  by_cases h0 : s.length = 0
  · have : s = [] := List.eq_nil_of_length_eq_zero h0
    subst this; simp [decodeLastRune]
  · have hpos : 0 < s.length := by omega
    have hlast : s[s.length - 1]? = some (s[s.length - 1]) := List.getElem?_eq_getElem _
    have hb := back_le s (s.length - UTFMax) 4 ((s.length : Int) - 2)
    unfold decodeLastRune
    simp only [h0, if_false, hlast]
    split
    · simp; omega
    · generalize hst : (if decodeLastRune.back s (s.length - UTFMax) 4 ((s.length : Int) - 2) < 0
          then 0
          else (decodeLastRune.back s (s.length - UTFMax) 4 ((s.length : Int) - 2)).toNat) = st
      have hlt : st < s.length := by
        subst hst; split <;> omega
      have h4 := decodeRune_size_le_four (List.drop st s)
      have hp := decodeRune_size_pos (s := List.drop st s) (by
        intro hd
        have hd' := congrArg List.length hd
        rw [List.length_drop, List.length_nil] at hd'
        omega)
      split
      · simp; omega
      · rename_i hh
        simp only [ne_eq, Decidable.not_not] at hh
        exact ⟨h4, by simp only; omega, fun _ => hp⟩

theorem decodeLastRune_size_le_four (s : Bytes) : (decodeLastRune s).2 ≤ 4 :=
  (decodeLastRune_size s).1

theorem decodeLastRune_size_le (s : Bytes) : (decodeLastRune s).2 ≤ s.length :=
  (decodeLastRune_size s).2.1

theorem decodeLastRune_size_pos {s : Bytes} (h : s ≠ []) : 0 < (decodeLastRune s).2 :=
  (decodeLastRune_size s).2.2 h

/-! ### `decodeLastRune` on valid UTF-8 -/

theorem decodeLastRune_encodeRunes_concat (rs : List Rune) {r : Nat} (h : validRune r = true) :
    decodeLastRune (encodeRunes (rs ++ [r])) = (r, (encodeRune r).length) := by
  rw [encodeRunes_append]
  simpa using decodeLastRune_append_encodeRune h (encodeRunes rs)

/-- A non-empty valid string splits as `p ++ encodeRune r` with `p` valid, and `decodeLastRune`
returns that last rune. -/
theorem decodeLastRune_of_validUtf8 {s : Bytes} (h : validUtf8 s = true) (hs : s ≠ []) :
    ∃ p r, s = p ++ encodeRune r ∧ validRune r = true ∧ validUtf8 p = true ∧
      toRunes s = toRunes p ++ [r] ∧ decodeLastRune s = (r, (encodeRune r).length) := by
  have e := encodeRunes_toRunes h
  have hv := toRunes_validRune s
  have hne : toRunes s ≠ [] := by
    intro h0; rw [h0] at e; exact hs e.symm
  obtain ⟨rs, r, hr⟩ : ∃ rs r, toRunes s = rs ++ [r] :=
    ⟨_, _, (List.dropLast_concat_getLast hne).symm⟩
  have hvr : validRune r = true := hv r (by rw [hr]; simp)
  have hvrs : ∀ x ∈ rs, validRune x = true := fun x hx => hv x (by rw [hr]; simp [hx])
  have es : s = encodeRunes rs ++ encodeRune r := by
    rw [← e, hr, encodeRunes_append]; simp
  refine ⟨encodeRunes rs, r, es, hvr, validUtf8_encodeRunes rs, ?_, ?_⟩
  · rw [toRunes_encodeRunes rs hvrs]; exact hr
  · rw [es]; exact decodeLastRune_append_encodeRune hvr _

end Go
