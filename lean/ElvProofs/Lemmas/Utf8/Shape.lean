/-
First-byte / continuation-byte facts about `encodeRune` (lemma group 7).
-/
import ElvProofs.Lemmas.Utf8.Basic
namespace Go

/-- Shape of `encodeRune r` for *any* `r` (invalid `r` gives the 3-byte U+FFFD encoding). -/
inductive EncodeShape (r : Nat) : Bytes → Prop
  | one (b0 : UInt8) (h : b0.toNat < 0x80) (hr : b0.toNat = r) : EncodeShape r [b0]
  | two (b0 b1 : UInt8) (h0 : 0xC2 ≤ b0.toNat) (h0' : b0.toNat < 0xE0)
      (h1 : 0x80 ≤ b1.toNat) (h1' : b1.toNat ≤ 0xBF) (hr : 0x80 ≤ r ∧ r < 0x800) :
      EncodeShape r [b0, b1]
  | three (b0 b1 b2 : UInt8) (h0 : 0xE0 ≤ b0.toNat) (h0' : b0.toNat < 0xF0)
      (h1 : 0x80 ≤ b1.toNat) (h1' : b1.toNat ≤ 0xBF)
      (h2 : 0x80 ≤ b2.toNat) (h2' : b2.toNat ≤ 0xBF)
      (hr : 0x800 ≤ r ∧ (r < 0x10000 ∨ validRune r = false)) : EncodeShape r [b0, b1, b2]
  | four (b0 b1 b2 b3 : UInt8) (h0 : 0xF0 ≤ b0.toNat) (h0' : b0.toNat < 0xF5)
      (h1 : 0x80 ≤ b1.toNat) (h1' : b1.toNat ≤ 0xBF)
      (h2 : 0x80 ≤ b2.toNat) (h2' : b2.toNat ≤ 0xBF)
      (h3 : 0x80 ≤ b3.toNat) (h3' : b3.toNat ≤ 0xBF)
      (hr : 0x10000 ≤ r ∧ r ≤ 0x10FFFF) : EncodeShape r [b0, b1, b2, b3]

theorem encodeRune_shape (r : Nat) : EncodeShape r (encodeRune r) := by
  by_cases c1 : r < 0x80
  · rw [encodeRune_one c1]
    have e0 : (UInt8.ofNat r).toNat = r := toNat_ofNat_of_lt (by omega)
    exact .one _ (by omega) e0
  by_cases c2 : r < 0x800
  · rw [encodeRune_two (by omega) c2]
    have e0 : (UInt8.ofNat (0xC0 + r / 64)).toNat = 0xC0 + r / 64 := toNat_ofNat_of_lt (by omega)
    have e1 : (UInt8.ofNat (0x80 + r % 64)).toNat = 0x80 + r % 64 := toNat_ofNat_of_lt (by omega)
    exact .two _ _ (by omega) (by omega) (by omega) (by omega) (by omega)
  by_cases h : validRune r = true
  · have hv := validRune_iff.1 h
    by_cases c3 : r < 0x10000
    · rw [encodeRune_three (by omega) c3 h]
      have e0 : (UInt8.ofNat (0xE0 + r / 4096)).toNat = 0xE0 + r / 4096 :=
        toNat_ofNat_of_lt (by omega)
      have e1 : (UInt8.ofNat (0x80 + r / 64 % 64)).toNat = 0x80 + r / 64 % 64 :=
        toNat_ofNat_of_lt (by omega)
      have e2 : (UInt8.ofNat (0x80 + r % 64)).toNat = 0x80 + r % 64 :=
        toNat_ofNat_of_lt (by omega)
      exact .three _ _ _ (by omega) (by omega) (by omega) (by omega) (by omega) (by omega)
        ⟨by omega, .inl (by omega)⟩
    · rw [encodeRune_four (by omega) h]
      have e0 : (UInt8.ofNat (0xF0 + r / 262144)).toNat = 0xF0 + r / 262144 :=
        toNat_ofNat_of_lt (by omega)
      have e1 : (UInt8.ofNat (0x80 + r / 4096 % 64)).toNat = 0x80 + r / 4096 % 64 :=
        toNat_ofNat_of_lt (by omega)
      have e2 : (UInt8.ofNat (0x80 + r / 64 % 64)).toNat = 0x80 + r / 64 % 64 :=
        toNat_ofNat_of_lt (by omega)
      have e3 : (UInt8.ofNat (0x80 + r % 64)).toNat = 0x80 + r % 64 :=
        toNat_ofNat_of_lt (by omega)
      exact .four _ _ _ _ (by omega) (by omega) (by omega) (by omega) (by omega) (by omega)
        (by omega) (by omega) (by omega)
  · have h' : validRune r = false := by simpa using h
    rw [encodeRune_invalid h']
    exact .three 0xEF 0xBF 0xBD (by decide) (by decide) (by decide) (by decide) (by decide)
      (by decide) ⟨by omega, .inr h'⟩

/-- Form convenient for `obtain ⟨e, he, hs⟩ := …; cases hs`. -/
theorem encodeRune_shape' (r : Nat) : ∃ e, encodeRune r = e ∧ EncodeShape r e :=
  ⟨_, rfl, encodeRune_shape r⟩

theorem runeStart_iff {b : UInt8} : runeStart b = true ↔ b.toNat < 0x80 ∨ 0xBF < b.toNat := by
  simp [runeStart, isCont] <;> omega

theorem runeStart_eq_false_iff {b : UInt8} :
    runeStart b = false ↔ 0x80 ≤ b.toNat ∧ b.toNat ≤ 0xBF := by
  simp [runeStart, isCont]

/-- `encodeRune r = b :: cs` where `b` is a rune start and all of `cs` are continuation bytes. -/
theorem encodeRune_eq_cons (r : Nat) :
    ∃ b cs, encodeRune r = b :: cs ∧ runeStart b = true ∧
      (∀ c ∈ cs, isCont c.toNat = true) ∧ cs.length ≤ 3 := by
  obtain ⟨e, he, hs⟩ := encodeRune_shape' r
  rw [he]
  cases hs with
  | one b0 h hr => exact ⟨b0, [], rfl, runeStart_iff.2 (.inl h), by simp, by simp⟩
  | two b0 b1 h0 h0' h1 h1' hr =>
    exact ⟨b0, [b1], rfl, runeStart_iff.2 (.inr (by omega)), by simp [isCont, h1, h1'], by simp⟩
  | three b0 b1 b2 h0 h0' h1 h1' h2 h2' hr =>
    exact ⟨b0, [b1, b2], rfl, runeStart_iff.2 (.inr (by omega)),
      by simp [isCont, h1, h1', h2, h2'], by simp⟩
  | four b0 b1 b2 b3 h0 h0' h1 h1' h2 h2' h3 h3' hr =>
    exact ⟨b0, [b1, b2, b3], rfl, runeStart_iff.2 (.inr (by omega)),
      by simp [isCont, h1, h1', h2, h2', h3, h3'], by simp⟩

/-- The first byte of an encoding is a rune start (not a continuation byte). -/
theorem encodeRune_head_runeStart (r : Nat) :
    runeStart ((encodeRune r).head (encodeRune_ne_nil r)) = true := by
  obtain ⟨b, cs, e, hb, -, -⟩ := encodeRune_eq_cons r
  simp only [e, List.head_cons]; exact hb

theorem encodeRune_head?_runeStart (r : Nat) :
    ∃ b, (encodeRune r).head? = some b ∧ runeStart b = true := by
  obtain ⟨b, cs, e, hb, -, -⟩ := encodeRune_eq_cons r
  exact ⟨b, by simp [e], hb⟩

/-- All bytes after the first are continuation bytes. -/
theorem encodeRune_tail_isCont (r : Nat) : ∀ c ∈ (encodeRune r).tail, isCont c.toNat = true := by
  obtain ⟨b, cs, e, -, hc, -⟩ := encodeRune_eq_cons r
  simpa [e] using hc

theorem encodeRune_tail_not_runeStart (r : Nat) :
    ∀ c ∈ (encodeRune r).tail, runeStart c = false := by
  intro c hc; simp [runeStart, encodeRune_tail_isCont r c hc]

/-- Indexed form: byte `i > 0` of an encoding is a continuation byte. -/
theorem encodeRune_getElem_isCont (r : Nat) (i : Nat) (hi : 0 < i) (h : i < (encodeRune r).length) :
    isCont ((encodeRune r)[i]).toNat = true := by
  apply encodeRune_tail_isCont r
  obtain ⟨b, cs, e, -, -, -⟩ := encodeRune_eq_cons r
  match i, hi with
  | j + 1, _ =>
    simp only [e, List.tail_cons, List.getElem_cons_succ]
    exact List.getElem_mem _

/-- ASCII iff the encoding has length 1. -/
theorem encodeRune_length_eq_one_iff (r : Nat) : (encodeRune r).length = 1 ↔ r < 0x80 := by
  obtain ⟨e, he, hs⟩ := encodeRune_shape' r
  rw [he]
  cases hs <;> simp <;> omega

theorem encodeRune_ascii_iff (r : Nat) (b : UInt8) (hb : (encodeRune r).head? = some b) :
    b.toNat < 0x80 ↔ r < 0x80 := by
  obtain ⟨e, he, hs⟩ := encodeRune_shape' r
  rw [he] at hb
  cases hs <;> simp at hb <;> subst hb <;> omega

/-- For ASCII `r`, the encoding is the single byte `r`. -/
theorem encodeRune_ascii {r : Nat} (h : r < 0x80) :
    encodeRune r = [UInt8.ofNat r] ∧ (UInt8.ofNat r).toNat = r :=
  ⟨encodeRune_one h, toNat_ofNat_of_lt (by omega)⟩

/-- Every byte of a non-ASCII encoding is ≥ 0x80. -/
theorem encodeRune_bytes_ge {r : Nat} (h : 0x80 ≤ r) : ∀ c ∈ encodeRune r, 0x80 ≤ c.toNat := by
  obtain ⟨e, he, hs⟩ := encodeRune_shape' r
  rw [he]
  cases hs <;> simp <;> omega

/-- The last byte of a non-ASCII encoding is a continuation byte; of an ASCII encoding, `r`. -/
theorem encodeRune_getLast? (r : Nat) (l : UInt8) (hl : (encodeRune r).getLast? = some l) :
    if r < 0x80 then l.toNat = r else isCont l.toNat = true := by
  obtain ⟨e, he, hs⟩ := encodeRune_shape' r
  rw [he] at hl
  cases hs <;> simp at hl <;> subst hl
  · rename_i h hr; simp [show r < 128 by omega, hr]
  · rename_i h1 h1' hr; simp [show ¬ r < 128 by omega, isCont, h1, h1']
  · rename_i h2 h2' hr; simp [show ¬ r < 128 by omega, isCont, h2, h2']
  · rename_i h3 h3' hr; simp [show ¬ r < 128 by omega, isCont, h3, h3']

end Go
