/-
Structure of `runes` / `toRunes` / `validUtf8` / `encodeRunes` (lemma groups 5 and 6).
-/
import ElvProofs.Lemmas.Utf8.Basic
namespace Go

/-- Shift all byte offsets of a `runes` result by `k`. -/
def shiftRunes (k : Nat) (l : List (Nat × Rune × Nat)) : List (Nat × Rune × Nat) :=
  l.map fun x => (k + x.1, x.2)

@[simp] theorem shiftRunes_nil (k : Nat) : shiftRunes k [] = [] := rfl
@[simp] theorem shiftRunes_cons (k : Nat) (x) (l) :
    shiftRunes k (x :: l) = (k + x.1, x.2) :: shiftRunes k l := rfl
@[simp] theorem shiftRunes_zero (l) : shiftRunes 0 l = l := by
  simp [shiftRunes]
theorem shiftRunes_shiftRunes (a b : Nat) (l) :
    shiftRunes a (shiftRunes b l) = shiftRunes (a + b) l := by
  simp [shiftRunes, Nat.add_assoc]
@[simp] theorem length_shiftRunes (k l) : (shiftRunes k l).length = l.length := by
  simp [shiftRunes]
@[simp] theorem shiftRunes_append (k l₁ l₂) :
    shiftRunes k (l₁ ++ l₂) = shiftRunes k l₁ ++ shiftRunes k l₂ := by
  simp [shiftRunes]
theorem map_rune_shiftRunes (k l) : (shiftRunes k l).map (·.2.1) = l.map (·.2.1) := by
  simp [shiftRunes, Function.comp_def]
theorem map_size_shiftRunes (k l) : (shiftRunes k l).map (·.2.2) = l.map (·.2.2) := by
  simp [shiftRunes, Function.comp_def]
theorem mem_shiftRunes {k l} {x : Nat × Rune × Nat} :
    x ∈ shiftRunes k l ↔ ∃ y ∈ l, x = (k + y.1, y.2) := by
  simp [shiftRunes, eq_comm]

/-! ### `runesFrom` -/

@[simp] theorem runesFrom_nil (fuel off : Nat) : runesFrom fuel off [] = [] := by
  cases fuel <;> rfl

theorem runesFrom_cons (fuel off : Nat) (b : UInt8) (t : Bytes) :
    runesFrom (fuel + 1) off (b :: t) =
      (off, (decodeRune (b :: t)).1, (decodeRune (b :: t)).2) ::
        runesFrom fuel (off + (decodeRune (b :: t)).2)
          ((b :: t).drop (decodeRune (b :: t)).2) := by
  rw [runesFrom]

/-- Any fuel ≥ the length gives the same result. -/
theorem runesFrom_fuel_irrel (f1 f2 off : Nat) (s : Bytes) (h1 : s.length ≤ f1)
    (h2 : s.length ≤ f2) : runesFrom f1 off s = runesFrom f2 off s := by
  induction f1 generalizing f2 off s with
  | zero =>
    have : s = [] := List.eq_nil_of_length_eq_zero (by omega)
    subst this; simp
  | succ f1 ih =>
    match s, f2 with
    | [], _ => simp
    | b :: t, 0 => simp at h2
    | b :: t, f2 + 1 =>
      rw [runesFrom_cons, runesFrom_cons]
      have hp := decodeRune_size_pos (s := b :: t) (by simp)
      congr 1
      apply ih
      · simp only [List.length_drop, List.length_cons] at h1 ⊢; omega
      · simp only [List.length_drop, List.length_cons] at h2 ⊢; omega

theorem runesFrom_off (fuel off : Nat) (s : Bytes) :
    runesFrom fuel off s = shiftRunes off (runesFrom fuel 0 s) := by
  induction fuel generalizing off s with
  | zero => simp [runesFrom]
  | succ f ih =>
    match s with
    | [] => simp
    | b :: t =>
      rw [runesFrom_cons, runesFrom_cons, ih, ih (0 + _)]
      simp [shiftRunes_shiftRunes]

/-! ### `runes`: recursion equations -/

@[simp] theorem runes_nil : runes [] = [] := rfl

/-- The recursion equation for `runes`. -/
theorem runes_of_ne_nil {s : Bytes} (h : s ≠ []) :
    runes s = (0, (decodeRune s).1, (decodeRune s).2) ::
      shiftRunes (decodeRune s).2 (runes (s.drop (decodeRune s).2)) := by
  match s, h with
  | b :: t, _ =>
    have hp := decodeRune_size_pos (s := b :: t) (by simp)
    unfold runes
    rw [List.length_cons, runesFrom_cons, runesFrom_off, Nat.zero_add]
    congr 2
    apply runesFrom_fuel_irrel
    · simp only [List.length_drop, List.length_cons]; omega
    · exact Nat.le_refl _

theorem runes_eq_of_decodeRune {s : Bytes} {r n : Nat} (hs : s ≠ []) (h : decodeRune s = (r, n)) :
    runes s = (0, r, n) :: shiftRunes n (runes (s.drop n)) := by
  rw [runes_of_ne_nil hs, h]

/-- Induction principle following the `for i, r := range s` iteration. -/
theorem runes_induction {P : Bytes → Prop} (nil : P [])
    (step : ∀ s, s ≠ [] → P (s.drop (decodeRune s).2) → P s) : ∀ s, P s := by
  intro s
  generalize hn : s.length = n
  induction n using Nat.strongRecOn generalizing s with
  | _ n ih =>
    by_cases hs : s = []
    · subst hs; exact nil
    · apply step s hs
      have hp := decodeRune_size_pos hs
      have hl : s.length ≠ 0 := by
        intro h0; exact hs (List.eq_nil_of_length_eq_zero h0)
      exact ih (s.drop (decodeRune s).2).length (by rw [List.length_drop]; omega) _ rfl

/-- `runes (encodeRune r ++ t)` for a scalar value `r`. -/
theorem runes_encodeRune_append (r : Nat) (h : validRune r = true) (t : Bytes) :
    runes (encodeRune r ++ t) =
      (0, r, (encodeRune r).length) :: shiftRunes (encodeRune r).length (runes t) := by
  have hne : encodeRune r ++ t ≠ [] := by simp [encodeRune_ne_nil r]
  rw [runes_eq_of_decodeRune hne (decodeRune_encodeRune_append r h t), List.drop_left]

/-- Alias of `runes_encodeRune_append`. -/
theorem runes_append_encode (r : Nat) (h : validRune r = true) (t : Bytes) :
    runes (encodeRune r ++ t) =
      (0, r, (encodeRune r).length) :: shiftRunes (encodeRune r).length (runes t) :=
  runes_encodeRune_append r h t

/-- Same for arbitrary `r`: invalid `r` show up as U+FFFD of size 3. -/
theorem runes_encodeRune_append_any (r : Nat) (t : Bytes) :
    runes (encodeRune r ++ t) =
      (0, (if validRune r then r else RuneError), (encodeRune r).length) ::
        shiftRunes (encodeRune r).length (runes t) := by
  have hne : encodeRune r ++ t ≠ [] := by simp [encodeRune_ne_nil r]
  rw [runes_eq_of_decodeRune hne (decodeRune_encodeRune_append_any r t), List.drop_left]

/-! ### `runes` tiles the string -/

/-- Each triple of `runes s` is a `decodeRune` at its offset, within bounds. -/
theorem runes_mem {s : Bytes} {x : Nat × Rune × Nat} (hx : x ∈ runes s) :
    decodeRune (s.drop x.1) = (x.2.1, x.2.2) ∧ x.1 < s.length ∧ x.1 + x.2.2 ≤ s.length ∧
      0 < x.2.2 := by
  induction s using runes_induction generalizing x with
  | nil => simp at hx
  | step s hs ih =>
    have hp := decodeRune_size_pos hs
    have hle := decodeRune_size_le s
    have hl : 0 < s.length := List.length_pos_iff.2 hs
    rw [runes_of_ne_nil hs, List.mem_cons] at hx
    rcases hx with rfl | hx
    · exact ⟨by simp, hl, by simp only; omega, hp⟩
    · obtain ⟨y, hy, rfl⟩ := mem_shiftRunes.1 hx
      obtain ⟨h1, h2, h3, h4⟩ := ih hy
      rw [List.length_drop] at h2 h3
      refine ⟨?_, by simp only; omega, by simp only; omega, h4⟩
      simp only
      rw [← h1, List.drop_drop]

theorem runes_mem' {s : Bytes} {off r n : Nat} (hx : (off, r, n) ∈ runes s) :
    decodeRune (s.drop off) = (r, n) ∧ off < s.length ∧ off + n ≤ s.length ∧ 0 < n :=
  runes_mem hx

/-- The sizes sum to the length. -/
theorem runes_sizes_sum (s : Bytes) : ((runes s).map (·.2.2)).sum = s.length := by
  induction s using runes_induction with
  | nil => rfl
  | step s hs ih =>
    have hle := decodeRune_size_le s
    rw [runes_of_ne_nil hs, List.map_cons, List.sum_cons, map_size_shiftRunes, ih,
      List.length_drop]
    simp only; omega

/-- The first offset is `0`, and every next offset is the previous offset plus size: the offset of
the `i`-th triple is the sum of the sizes before it. -/
theorem runes_offset_eq (s : Bytes) (i : Nat) (h : i < (runes s).length) :
    ((runes s)[i]).1 = (((runes s).take i).map (·.2.2)).sum := by
  induction s using runes_induction generalizing i with
  | nil => simp at h
  | step s hs ih =>
    have e := runes_of_ne_nil hs
    revert h
    rw [e]
    intro h
    match i with
    | 0 => simp
    | j + 1 =>
      simp only [List.getElem_cons_succ, List.take_succ_cons, List.map_cons, List.sum_cons]
      simp only [List.length_cons, length_shiftRunes] at h
      have hj : j < (runes (s.drop (decodeRune s).2)).length := by omega
      have := ih j hj
      simp only [shiftRunes, List.getElem_map, List.map_take, List.map_map]
      rw [this]
      simp [Function.comp_def, List.map_take]

/-- Consecutive triples abut, so later offsets are ≥ earlier offset + size. -/
theorem runes_pairwise (s : Bytes) :
    (runes s).Pairwise (fun a b => a.1 + a.2.2 ≤ b.1) := by
  induction s using runes_induction with
  | nil => simp
  | step s hs ih =>
    rw [runes_of_ne_nil hs, List.pairwise_cons]
    refine ⟨?_, ?_⟩
    · intro b hb
      obtain ⟨y, -, rfl⟩ := mem_shiftRunes.1 hb
      simp
    · unfold shiftRunes
      rw [List.pairwise_map]
      exact ih.imp (by intro a b h; simp only; omega)

/-- Offsets are strictly increasing. -/
theorem runes_offsets_increasing (s : Bytes) : (runes s).Pairwise (fun a b => a.1 < b.1) := by
  have h := runes_pairwise s
  have hm : ∀ x ∈ runes s, 0 < x.2.2 := fun x hx => (runes_mem hx).2.2.2
  revert hm h
  generalize runes s = l
  intro h hm
  induction h with
  | nil => exact .nil
  | cons hab _ ih =>
    refine .cons ?_ (ih fun x hx => hm x (List.mem_cons_of_mem _ hx))
    intro b hb
    have := hab b hb
    have := hm _ (List.mem_cons_self)
    omega

theorem runes_length_le (s : Bytes) : (runes s).length ≤ s.length := by
  have h := runes_sizes_sum s
  have hm : ∀ x ∈ runes s, 0 < x.2.2 := fun x hx => (runes_mem hx).2.2.2
  revert hm h
  generalize runes s = l
  generalize s.length = n
  intro h hm
  induction l generalizing n with
  | nil => simp
  | cons a l ih =>
    simp only [List.map_cons, List.sum_cons] at h
    have := hm a List.mem_cons_self
    have := ih _ rfl (fun x hx => hm x (List.mem_cons_of_mem _ hx))
    simp only [List.length_cons]; omega

theorem runes_eq_nil_iff (s : Bytes) : runes s = [] ↔ s = [] := by
  constructor
  · intro h
    by_cases hs : s = []
    · exact hs
    · rw [runes_of_ne_nil hs] at h; simp at h
  · rintro rfl; rfl

/-! ### `toRunes`, `validUtf8` recursion equations -/

@[simp] theorem toRunes_nil : toRunes [] = [] := rfl
@[simp] theorem validUtf8_nil : validUtf8 [] = true := rfl
@[simp] theorem encodeRunes_nil : encodeRunes [] = [] := rfl
@[simp] theorem encodeRunes_cons (r : Nat) (rs : List Rune) :
    encodeRunes (r :: rs) = encodeRune r ++ encodeRunes rs := rfl
theorem encodeRunes_append (a b : List Rune) :
    encodeRunes (a ++ b) = encodeRunes a ++ encodeRunes b := by
  simp [encodeRunes]

theorem toRunes_of_ne_nil {s : Bytes} (h : s ≠ []) :
    toRunes s = (decodeRune s).1 :: toRunes (s.drop (decodeRune s).2) := by
  unfold toRunes
  rw [runes_of_ne_nil h, List.map_cons, map_rune_shiftRunes]

theorem validUtf8_shiftRunes (k : Nat) (l : List (Nat × Rune × Nat)) :
    ((shiftRunes k l).all fun (_, r, n) => !(r == RuneError && n == 1)) =
      (l.all fun (_, r, n) => !(r == RuneError && n == 1)) := by
  simp [shiftRunes, List.all_map, Function.comp_def]

theorem validUtf8_of_ne_nil {s : Bytes} (h : s ≠ []) :
    validUtf8 s = (!((decodeRune s).1 == RuneError && (decodeRune s).2 == 1) &&
      validUtf8 (s.drop (decodeRune s).2)) := by
  unfold validUtf8
  rw [runes_of_ne_nil h, List.all_cons, validUtf8_shiftRunes]

theorem toRunes_length_le (s : Bytes) : (toRunes s).length ≤ s.length := by
  unfold toRunes; rw [List.length_map]; exact runes_length_le s

/-- All runes produced by `toRunes` are scalar values. -/
theorem toRunes_validRune (s : Bytes) : ∀ r ∈ toRunes s, validRune r = true := by
  induction s using runes_induction with
  | nil => simp
  | step s hs ih =>
    rw [toRunes_of_ne_nil hs]
    intro r hr
    rcases List.mem_cons.1 hr with rfl | hr
    · exact decodeRune_validRune s
    · exact ih r hr

/-! ### Group 5: `encodeRunes` round trips -/

theorem toRunes_encodeRune_append (r : Nat) (h : validRune r = true) (t : Bytes) :
    toRunes (encodeRune r ++ t) = r :: toRunes t := by
  unfold toRunes
  rw [runes_encodeRune_append r h t, List.map_cons, map_rune_shiftRunes]

theorem validUtf8_encodeRune_append (r : Nat) (t : Bytes) :
    validUtf8 (encodeRune r ++ t) = validUtf8 t := by
  unfold validUtf8
  rw [runes_encodeRune_append_any r t, List.all_cons, validUtf8_shiftRunes]
  have h2 : 1 < (encodeRune r).length ∨ (r < 0x80 ∧ validRune r = true) := by
    rw [encodeRune_length]
    by_cases c : r < 0x80
    · exact .inr ⟨c, validRune_iff.2 (by omega)⟩
    · left; simp only [c, if_false]; repeat' split
      all_goals omega
  rcases h2 with h2 | ⟨c, hv⟩
  · have : ((encodeRune r).length == 1) = false := by simp; omega
    simp [this]
  · have : ((if validRune r then r else RuneError) == RuneError) = false := by
      have : r ≠ RuneError := by simp only [RuneError]; omega
      simp [hv, this]
    simp [this]

theorem toRunes_encodeRunes_append (rs : List Rune) (h : ∀ r ∈ rs, validRune r = true)
    (t : Bytes) : toRunes (encodeRunes rs ++ t) = rs ++ toRunes t := by
  induction rs with
  | nil => simp
  | cons r rs ih =>
    rw [encodeRunes_cons, List.append_assoc,
      toRunes_encodeRune_append r (h r List.mem_cons_self),
      ih (fun x hx => h x (List.mem_cons_of_mem _ hx))]
    rfl

theorem toRunes_encodeRunes (rs : List Rune) (h : ∀ r ∈ rs, validRune r = true) :
    toRunes (encodeRunes rs) = rs := by
  simpa using toRunes_encodeRunes_append rs h []

/-- Holds for *any* runes: invalid ones are encoded as U+FFFD (3 bytes), which is valid UTF-8. -/
theorem validUtf8_encodeRunes_append (rs : List Rune) (t : Bytes) :
    validUtf8 (encodeRunes rs ++ t) = validUtf8 t := by
  induction rs with
  | nil => simp
  | cons r rs ih => rw [encodeRunes_cons, List.append_assoc, validUtf8_encodeRune_append, ih]

theorem validUtf8_encodeRunes (rs : List Rune) : validUtf8 (encodeRunes rs) = true := by
  simpa using validUtf8_encodeRunes_append rs []

/-- The form asked for (hypothesis not needed, kept for symmetry with `toRunes_encodeRunes`). -/
theorem validUtf8_encodeRunes' (rs : List Rune) (_h : ∀ r ∈ rs, validRune r = true) :
    validUtf8 (encodeRunes rs) = true := validUtf8_encodeRunes rs

/-- Converse: valid UTF-8 is the encoding of its runes. -/
theorem encodeRunes_toRunes {s : Bytes} (h : validUtf8 s = true) : encodeRunes (toRunes s) = s := by
  induction s using runes_induction with
  | nil => rfl
  | step s hs ih =>
    rw [validUtf8_of_ne_nil hs, Bool.and_eq_true] at h
    obtain ⟨h1, h2⟩ := h
    have herr : ¬ ((decodeRune s).1 = RuneError ∧ (decodeRune s).2 = 1) := by
      intro ⟨ha, hb⟩; simp [ha, hb] at h1
    obtain ⟨-, e, -⟩ := decodeRune_eq_encodeRune_append (s := s) rfl hs herr
    rw [toRunes_of_ne_nil hs, encodeRunes_cons, ih h2]
    exact e.symm

theorem validUtf8_iff_exists_encodeRunes (s : Bytes) :
    validUtf8 s = true ↔ ∃ rs, s = encodeRunes rs :=
  ⟨fun h => ⟨_, (encodeRunes_toRunes h).symm⟩, fun ⟨rs, e⟩ => e ▸ validUtf8_encodeRunes rs⟩

/-- Valid prefixes can be split off. -/
theorem validUtf8_append {p : Bytes} (hp : validUtf8 p = true) (q : Bytes) :
    validUtf8 (p ++ q) = validUtf8 q := by
  rw [← encodeRunes_toRunes hp, validUtf8_encodeRunes_append]

theorem toRunes_append {p : Bytes} (hp : validUtf8 p = true) (q : Bytes) :
    toRunes (p ++ q) = toRunes p ++ toRunes q := by
  conv => lhs; rw [← encodeRunes_toRunes hp]
  rw [toRunes_encodeRunes_append _ (toRunes_validRune p)]

end Go
