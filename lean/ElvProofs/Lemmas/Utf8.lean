/-
Lemma library for the Go-faithful UTF-8 prelude `ElvModel/Go/Utf8.lean`.

* `Utf8/Basic.lean` — `decodeRune` equation/inversion lemmas (`DecodeCase`), size bounds,
  `encodeRune` equations and lengths, `runeLen`, round trip and its converse (groups 1–4).
* `Utf8/Shape.lean` — first byte / continuation byte facts (`EncodeShape`, group 7).
* `Utf8/Runes.lean` — `runes` recursion, tiling, `toRunes`/`validUtf8`/`encodeRunes`
  (groups 5–6).
* `Utf8/Last.lean`  — `decodeLastRune` (group 8).

Note for users: `Rune` is an `abbrev` for `Nat`, but `omega` does not see through it; state
rune variables as `(r : Nat)` (as done here) when arithmetic is needed.
-/
import ElvProofs.Lemmas.Utf8.Basic
import ElvProofs.Lemmas.Utf8.Shape
import ElvProofs.Lemmas.Utf8.Runes
import ElvProofs.Lemmas.Utf8.Last
namespace Go

/-! ## Concrete instances: é = U+00E9, 世 = U+4E16, 😀 = U+1F600 -/

example : encodeRune 0xE9 = [0xC3, 0xA9] := by decide
example : encodeRune 0x4E16 = [0xE4, 0xB8, 0x96] := by decide
example : encodeRune 0x1F600 = [0xF0, 0x9F, 0x98, 0x80] := by decide

example : runeLen 0xE9 = some 2 := runeLen_eq_encodeRune_length (r := 0xE9) (by decide)
example : runeLen 0x4E16 = some 3 := runeLen_eq_encodeRune_length (r := 0x4E16) (by decide)
example : runeLen 0x1F600 = some 4 := runeLen_eq_encodeRune_length (r := 0x1F600) (by decide)

example (t : Bytes) : decodeRune ([0xC3, 0xA9] ++ t) = (0xE9, 2) :=
  decodeRune_encodeRune_append 0xE9 (by decide) t
example (t : Bytes) : decodeRune ([0xE4, 0xB8, 0x96] ++ t) = (0x4E16, 3) :=
  decodeRune_encodeRune_append 0x4E16 (by decide) t
example (t : Bytes) : decodeRune ([0xF0, 0x9F, 0x98, 0x80] ++ t) = (0x1F600, 4) :=
  decodeRune_encodeRune_append 0x1F600 (by decide) t

/-- Converse on a concrete string: "世x". -/
example : validRune 0x4E16 = true ∧ ([0xE4, 0xB8, 0x96, 0x78] : Bytes).take 3 = encodeRune 0x4E16 :=
  decodeRune_valid_take (s := [0xE4, 0xB8, 0x96, 0x78]) (r := 0x4E16) (n := 3)
    (decodeRune_encodeRune_append 0x4E16 (by decide) [0x78]) (by simp) (by decide)

example : toRunes (encodeRunes [0xE9, 0x4E16, 0x1F600]) = [0xE9, 0x4E16, 0x1F600] :=
  toRunes_encodeRunes _ (by decide)
example : validUtf8 (encodeRunes [0xE9, 0x4E16, 0x1F600, 0xFFFD]) = true :=
  validUtf8_encodeRunes _

example (t : Bytes) : runes ([0xE4, 0xB8, 0x96] ++ t) = (0, 0x4E16, 3) :: shiftRunes 3 (runes t) :=
  runes_encodeRune_append 0x4E16 (by decide) t
example (t : Bytes) :
    runes ([0xF0, 0x9F, 0x98, 0x80] ++ t) = (0, 0x1F600, 4) :: shiftRunes 4 (runes t) :=
  runes_encodeRune_append 0x1F600 (by decide) t

example : runeStart 0xC3 = true ∧ runeStart 0xA9 = false := by decide
example : ∀ c ∈ (encodeRune 0x1F600).tail, isCont c.toNat = true := encodeRune_tail_isCont _
example : (encodeRune 0xE9).length = 1 ↔ 0xE9 < 0x80 := encodeRune_length_eq_one_iff _

/-- `decodeLastRune` after *any* prefix, even an invalid one (`0xFF`, stray continuation). -/
example (p : Bytes) : decodeLastRune (p ++ [0xC3, 0xA9]) = (0xE9, 2) :=
  decodeLastRune_append_encodeRune (r := 0xE9) (by decide) p
example (p : Bytes) : decodeLastRune (p ++ [0xE4, 0xB8, 0x96]) = (0x4E16, 3) :=
  decodeLastRune_append_encodeRune (r := 0x4E16) (by decide) p
example (p : Bytes) : decodeLastRune (p ++ [0xF0, 0x9F, 0x98, 0x80]) = (0x1F600, 4) :=
  decodeLastRune_append_encodeRune (r := 0x1F600) (by decide) p
example : decodeLastRune ([0xFF, 0x80] ++ [0xE4, 0xB8, 0x96]) = (0x4E16, 3) :=
  decodeLastRune_append_encodeRune (r := 0x4E16) (by decide) [0xFF, 0x80]

end Go
