import ElvProofs.C20.Basic
/-! Invariants of the `run-parallel` transition system. -/
namespace C20

inductive RStep : RState → RLabel → RState → Prop where
  | rspawn (s i) : s.panicked = false → s.returned = false → i = s.next → i < s.ws.length →
      RStep s (.rspawn i) { s with ws := s.ws.set i .spawned, next := s.next + 1 }
  | rstart (s i) : s.panicked = false → s.returned = false → s.ws[i]? = some .spawned →
      RStep s (.rstart i) { s with ws := s.ws.set i .running }
  | rfinish (s i o) : s.panicked = false → s.returned = false → s.ws[i]? = some .running →
      RStep s (.rfinish i o) { s with ws := s.ws.set i (.fin o) }
  | rdonePanic (s i o) : s.panicked = false → s.returned = false → s.ws[i]? = some (.fin o) → s.wg = 0 →
      RStep s (.rdone i) { s with panicked := true }
  | rdone (s i o) : s.panicked = false → s.returned = false → s.ws[i]? = some (.fin o) → s.wg ≠ 0 →
      RStep s (.rdone i) { s with ws := s.ws.set i (.doneW o), wg := s.wg - 1 }
  | rwait (s) : s.panicked = false → s.returned = false → s.next = s.ws.length → s.wg = 0 →
      RStep s .rwait { s with returned := true }

theorem rstep_spec {s s' : RState} {l : RLabel} (h : rstep s l = some s') : RStep s l s' := by
  have hp : s.panicked = false ∧ s.returned = false := by
    cases hq : s.panicked <;> cases hr : s.returned <;> simp [rstep, hq, hr] at h ⊢
  obtain ⟨hp, hr⟩ := hp
  cases l with
  | rspawn i =>
    simp only [rstep, hp, hr, Bool.false_eq_true, or_self, ↓reduceIte] at h
    split at h
    · rename_i hg; injection h with h; subst h
      have := RStep.rspawn s i hp hr hg.1 hg.2; simpa [hp, hr] using this
    · simp at h
  | rstart i =>
    simp only [rstep, hp, hr, Bool.false_eq_true, or_self, ↓reduceIte] at h
    split at h
    · rename_i hg; injection h with h; subst h
      have := RStep.rstart s i hp hr hg; simpa [hp, hr] using this
    · simp at h
  | rfinish i o =>
    simp only [rstep, hp, hr, Bool.false_eq_true, or_self, ↓reduceIte] at h
    split at h
    · rename_i hg; injection h with h; subst h
      have := RStep.rfinish s i o hp hr hg; simpa [hp, hr] using this
    · simp at h
  | rdone i =>
    simp only [rstep, hp, hr, Bool.false_eq_true, or_self, ↓reduceIte] at h
    split at h
    · rename_i o hg
      split at h
      · rename_i h0; injection h with h; subst h
        have := RStep.rdonePanic s i o hp hr hg h0; simpa [hp, hr] using this
      · rename_i h0; injection h with h; subst h
        have := RStep.rdone s i o hp hr hg h0; simpa [hp, hr] using this
    · simp at h
  | rwait =>
    simp only [rstep, hp, hr, Bool.false_eq_true, or_self, ↓reduceIte] at h
    split at h
    · rename_i hg; injection h with h; subst h
      have := RStep.rwait s hp hr hg.1 hg.2; simpa [hp, hr] using this
    · simp at h

theorem RRun.inv {n : Nat} {P : List RLabel → RState → Prop} (h0 : P [] (rinit n))
    (hs : ∀ tr s l s', RRun n tr s → P tr s → RStep s l s' → P (tr ++ [l]) s') :
    ∀ {tr s}, RRun n tr s → P tr s := by
  intro tr s h
  induction h with
  | init => exact h0
  | step hr hst ih => exact hs _ _ _ _ hr ih (rstep_spec hst)

def RPc.isDone : RPc → Bool
  | .doneW _ => true
  | _ => false

def RPc.isIdle : RPc → Bool
  | .idle => true
  | _ => false

def RPc.started : RPc → Bool
  | .idle => false
  | .spawned => false
  | _ => true

def RPc.hasOutcome (o : Outcome) : RPc → Bool
  | .fin o' => decide (o' = o)
  | .doneW o' => decide (o' = o)
  | _ => false

/-- `f` holds of function `i` -/
def ratL (ws : List RPc) (i : Nat) (f : RPc → Bool) : Bool :=
  match ws[i]? with
  | some p => f p
  | none => false

theorem ratL_set (ws : List RPc) (j : Nat) (a x : RPc) (i : Nat) (f : RPc → Bool) (hw : ws[j]? = some x) :
    ratL (ws.set j a) i f = if j = i then f a else ratL ws i f := by
  unfold ratL
  have hlt : j < ws.length := by
    rcases Nat.lt_or_ge j ws.length with h | h
    · exact h
    · have : ws[j]? = none := List.getElem?_eq_none h
      simp [this] at hw
  rw [List.getElem?_set]
  by_cases hji : j = i
  · subst hji; simp [hlt]
  · simp [hji]

theorem ratL_of_getElem? (ws : List RPc) (i : Nat) (x : RPc) (f : RPc → Bool) (hw : ws[i]? = some x) :
    ratL ws i f = f x := by
  unfold ratL; rw [hw]

theorem ratL_set_same (ws : List RPc) (j : Nat) (a x : RPc) (i : Nat) (f : RPc → Bool) (hw : ws[j]? = some x)
    (hf : f a = f x) : ratL (ws.set j a) i f = ratL ws i f := by
  rw [ratL_set ws j a x i f hw]
  by_cases hji : j = i
  · subst hji; simp [ratL_of_getElem? ws j x f hw, hf]
  · simp [hji]

/-- counters: the WaitGroup counts the functions that have not called `Done`; the loop index
separates spawned from idle functions -/
theorem rinv_counts {n : Nat} {tr s} (h : RRun n tr s) :
    s.ws.length = n ∧ s.wg + s.ws.countP RPc.isDone = n ∧ s.next + s.ws.countP RPc.isIdle = n ∧
      (∀ i, s.next ≤ i → i < n → s.ws[i]? = some .idle) := by
  refine RRun.inv (P := fun _ s => s.ws.length = n ∧ s.wg + s.ws.countP RPc.isDone = n ∧
      s.next + s.ws.countP RPc.isIdle = n ∧ (∀ i, s.next ≤ i → i < n → s.ws[i]? = some .idle)) ?_ ?_ h
  · simp [rinit, List.countP_replicate, RPc.isDone, RPc.isIdle]
    intro i hi; simp [hi]
  · intro tr s l s' hr ih hst
    obtain ⟨ih1, ih2, ih3, ih4⟩ := ih
    cases hst with
    | rspawn i hp hr hi hlt =>
      subst hi
      have hw := ih4 s.next (Nat.le_refl _) (by omega)
      have h1 := countP_set_add RPc.isDone s.ws s.next .spawned _ hw
      have h2 := countP_set_add RPc.isIdle s.ws s.next .spawned _ hw
      simp [RPc.isDone, RPc.isIdle] at h1 h2
      refine ⟨by simpa using ih1, by simp; omega, by simp; omega, ?_⟩
      intro i hi hin
      simp only [List.getElem?_set]
      have : s.next ≠ i := by simp at hi; omega
      simp [this]; exact ih4 i (by simp at hi; omega) hin
    | rstart i hp hr hw =>
      have h1 := countP_set_add RPc.isDone s.ws i .running _ hw
      have h2 := countP_set_add RPc.isIdle s.ws i .running _ hw
      simp [RPc.isDone, RPc.isIdle] at h1 h2
      refine ⟨by simpa using ih1, by simp; omega, by simp; omega, ?_⟩
      intro j hj hjn
      have := ih4 j hj hjn
      simp only [List.getElem?_set]
      by_cases hij : i = j
      · subst hij; simp_all
      · simp [hij, this]
    | rfinish i o hp hr hw =>
      have h1 := countP_set_add RPc.isDone s.ws i (.fin o) _ hw
      have h2 := countP_set_add RPc.isIdle s.ws i (.fin o) _ hw
      simp [RPc.isDone, RPc.isIdle] at h1 h2
      refine ⟨by simpa using ih1, by simp; omega, by simp; omega, ?_⟩
      intro j hj hjn
      have := ih4 j hj hjn
      simp only [List.getElem?_set]
      by_cases hij : i = j
      · subst hij; simp_all
      · simp [hij, this]
    | rdonePanic i o hp hr hw h0 => exact ⟨ih1, ih2, ih3, ih4⟩
    | rdone i o hp hr hw h0 =>
      have h1 := countP_set_add RPc.isDone s.ws i (.doneW o) _ hw
      have h2 := countP_set_add RPc.isIdle s.ws i (.doneW o) _ hw
      simp [RPc.isDone, RPc.isIdle] at h1 h2
      refine ⟨by simpa using ih1, by simp; omega, by simp; omega, ?_⟩
      intro j hj hjn
      have := ih4 j hj hjn
      simp only [List.getElem?_set]
      by_cases hij : i = j
      · subst hij; simp_all
      · simp [hij, this]
    | rwait hp hr hn h0 => exact ⟨ih1, ih2, ih3, ih4⟩

theorem rinv_nopanic {n : Nat} {tr s} (h : RRun n tr s) : s.panicked = false := by
  refine RRun.inv (P := fun _ s => s.panicked = false) (by simp [rinit]) ?_ h
  intro tr s l s' hr ih hst
  obtain ⟨h1, h2, _, _⟩ := rinv_counts hr
  cases hst with
  | rdonePanic i o hp hr hw h0 =>
    have hall := (List.countP_eq_length (p := RPc.isDone) (l := s.ws)).mp (by omega)
    have := hall _ (List.mem_of_getElem? hw)
    simp [RPc.isDone] at this
  | _ => simp_all

theorem rinv_start_count {n : Nat} {tr s} (h : RRun n tr s) (i : Nat) :
    tr.count (.rstart i) = (ratL s.ws i RPc.started).toNat := by
  refine RRun.inv (P := fun tr s => tr.count (.rstart i) = (ratL s.ws i RPc.started).toNat) ?_ ?_ h
  · unfold ratL rinit
    by_cases hi : i < n <;> simp [hi, RPc.started]
  · intro tr s l s' hr ih hst
    rw [List.count_append, ih]
    obtain ⟨_, _, _, hidle⟩ := rinv_counts hr
    cases hst with
    | rstart j hp hr hw =>
      simp only
      rw [ratL_set s.ws j .running _ i _ hw]
      by_cases hji : j = i
      · subst hji; simp [ratL_of_getElem? s.ws j _ _ hw, RPc.started]
      · simp [hji]
    | rspawn j hp hr hj hlt =>
      have hw := hidle j (by omega) (by omega)
      simp [ratL_set_same s.ws j .spawned _ i RPc.started hw (by simp [RPc.started])]
    | rfinish j o hp hr hw => simp [ratL_set_same s.ws j (.fin o) _ i RPc.started hw (by simp [RPc.started])]
    | rdone j o hp hr hw h0 => simp [ratL_set_same s.ws j (.doneW o) _ i RPc.started hw (by simp [RPc.started])]
    | _ => simp

theorem rinv_finish_count {n : Nat} {tr s} (h : RRun n tr s) (i : Nat) (o : Outcome) :
    tr.count (.rfinish i o) = (ratL s.ws i (RPc.hasOutcome o)).toNat := by
  refine RRun.inv (P := fun tr s => tr.count (.rfinish i o) = (ratL s.ws i (RPc.hasOutcome o)).toNat) ?_ ?_ h
  · unfold ratL rinit
    by_cases hi : i < n <;> simp [hi, RPc.hasOutcome]
  · intro tr s l s' hr ih hst
    rw [List.count_append, ih]
    obtain ⟨_, _, _, hidle⟩ := rinv_counts hr
    cases hst with
    | rfinish j o' hp hr hw =>
      simp only
      rw [ratL_set s.ws j (.fin o') _ i _ hw]
      by_cases hji : j = i
      · subst hji
        by_cases hoo : o' = o
        · subst hoo; simp [ratL_of_getElem? s.ws j _ _ hw, RPc.hasOutcome]
        · simp [ratL_of_getElem? s.ws j _ _ hw, RPc.hasOutcome, hoo]
      · simp [hji]
    | rspawn j hp hr hj hlt =>
      have hw := hidle j (by omega) (by omega)
      simp [ratL_set_same s.ws j .spawned _ i (RPc.hasOutcome o) hw (by simp [RPc.hasOutcome])]
    | rstart j hp hr hw => simp [ratL_set_same s.ws j .running _ i (RPc.hasOutcome o) hw (by simp [RPc.hasOutcome])]
    | rdone j o' hp hr hw h0 => simp [ratL_set_same s.ws j (.doneW o') _ i (RPc.hasOutcome o) hw (by simp [RPc.hasOutcome])]
    | _ => simp

theorem result_go_mem (l : List RPc) (k i : Nat) (o : Outcome) :
    (i, o) ∈ RState.result.go k l ↔ k ≤ i ∧ l[i - k]? = some (.doneW o) ∧ o ≠ .ok := by
  induction l generalizing k with
  | nil => simp [RState.result.go]
  | cons a t ih =>
    have key : ∀ (rest : Prop), (rest ↔ k + 1 ≤ i ∧ t[i - (k + 1)]? = some (.doneW o) ∧ o ≠ .ok) →
        (¬ (i = k) → (rest ↔ k ≤ i ∧ (a :: t)[i - k]? = some (.doneW o) ∧ o ≠ .ok)) := by
      intro rest hrest hne
      rw [hrest]
      constructor
      · rintro ⟨h1, h2, h3⟩
        refine ⟨by omega, ?_, h3⟩
        have : i - k = (i - (k + 1)) + 1 := by omega
        rw [this]; simpa using h2
      · rintro ⟨h1, h2, h3⟩
        have hlt : k + 1 ≤ i := by omega
        refine ⟨hlt, ?_, h3⟩
        have : i - k = (i - (k + 1)) + 1 := by omega
        rw [this] at h2; simpa using h2
    cases a with
    | doneW o' =>
      simp only [RState.result.go]
      by_cases hik : i = k
      · subst hik
        split
        · rename_i hok
          rw [ih]; simp
          constructor
          · rintro ⟨h, _⟩; omega
          · rintro ⟨h1, h2⟩; subst h1; exact absurd hok h2
        · rename_i hok
          simp only [List.mem_cons, Prod.mk.injEq, true_and]
          rw [ih]; simp
          constructor
          · rintro (h | h)
            · subst h; exact ⟨rfl, hok⟩
            · omega
          · rintro ⟨h, _⟩; exact Or.inl h.symm
      · split
        · exact key _ (ih (k + 1)) hik
        · simp only [List.mem_cons, Prod.mk.injEq]
          have := key _ (ih (k + 1)) hik
          constructor
          · rintro (⟨h, _⟩ | h)
            · exact absurd h hik
            · exact this.mp h
          · intro h; exact Or.inr (this.mpr h)
    | idle =>
      simp only [RState.result.go]
      by_cases hik : i = k
      · subst hik; rw [ih]; simp; intro h; omega
      · exact key _ (ih (k + 1)) hik
    | spawned =>
      simp only [RState.result.go]
      by_cases hik : i = k
      · subst hik; rw [ih]; simp; intro h; omega
      · exact key _ (ih (k + 1)) hik
    | running =>
      simp only [RState.result.go]
      by_cases hik : i = k
      · subst hik; rw [ih]; simp; intro h; omega
      · exact key _ (ih (k + 1)) hik
    | fin o' =>
      simp only [RState.result.go]
      by_cases hik : i = k
      · subst hik; rw [ih]; simp; intro h; omega
      · exact key _ (ih (k + 1)) hik

theorem result_mem (s : RState) (i : Nat) (o : Outcome) :
    (i, o) ∈ s.result ↔ s.ws[i]? = some (.doneW o) ∧ o ≠ .ok := by
  unfold RState.result
  rw [result_go_mem]; simp

end C20
