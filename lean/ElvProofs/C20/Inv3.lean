import ElvProofs.C20.Inv2
/-! Invariants about `broken`, skipped inputs, and the one-worker case. -/
namespace C20

/-- the worker has set `broken` -/
def WPc.badMarked : WPc → Bool
  | .marked o => o.bad
  | .doneW o => o.bad
  | .exited o => o.bad
  | _ => false

def WPc.isSkipped : WPc → Bool
  | .skipped => true
  | _ => false

def WPc.isSpawned : WPc → Bool
  | .spawned => true
  | _ => false

/-- spawned or running: a callback that is about to run or running -/
def WPc.pending : WPc → Bool
  | .spawned => true
  | .running => true
  | _ => false

/-- callback ended with `break` or a failure -/
def WPc.badOutcome : WPc → Bool
  | .fin o => o.bad
  | .marked o => o.bad
  | .doneW o => o.bad
  | .exited o => o.bad
  | _ => false

theorem badMarked_done {p : WPc} {o : Outcome} (h : p.doneOutcome = some o) :
    WPc.badMarked (.doneW o) = p.badMarked := by
  cases p with
  | fin o' => cases o' <;> simp [WPc.doneOutcome] at h <;> subst h <;> rfl
  | marked o' => simp [WPc.doneOutcome] at h; subst h; rfl
  | _ => simp [WPc.doneOutcome] at h

theorem badOutcome_done {p : WPc} {o : Outcome} (h : p.doneOutcome = some o) :
    WPc.badOutcome (.doneW o) = p.badOutcome := by
  cases p with
  | fin o' => cases o' <;> simp [WPc.doneOutcome] at h <;> subst h <;> rfl
  | marked o' => simp [WPc.doneOutcome] at h; subst h; rfl
  | _ => simp [WPc.doneOutcome] at h

/-- `List.countP` under a name `simp` does not rewrite into quantifiers -/
def cnt (p : WPc → Bool) (l : List WPc) : Nat := l.countP p

theorem cnt_nil (p : WPc → Bool) : cnt p [] = 0 := rfl

theorem cnt_append_one (p : WPc → Bool) (l : List WPc) (x : WPc) :
    cnt p (l ++ [x]) = cnt p l + (if p x then 1 else 0) := by
  simp [cnt, List.countP_append, List.countP_cons]

theorem cnt_set (p : WPc → Bool) (l : List WPc) (i : Nat) (a x : WPc) (h : l[i]? = some x) :
    cnt p (l.set i a) + (if p x then 1 else 0) = cnt p l + (if p a then 1 else 0) :=
  countP_set_add p l i a x h

theorem cnt_pos (p : WPc → Bool) (l : List WPc) (i : Nat) (x : WPc) (h : l[i]? = some x) (hp : p x = true) :
    0 < cnt p l := countP_pos_of_getElem? p l i x h hp

theorem cnt_le_of_imp (p q : WPc → Bool) (l : List WPc) (h : ∀ x, p x = true → q x = true) :
    cnt p l ≤ cnt q l := countP_le_of_imp p q l h

theorem cnt_le_add (p q r : WPc → Bool) (l : List WPc) (h : ∀ x, p x = true → q x = true ∨ r x = true) :
    cnt p l ≤ cnt q l + cnt r l := by
  unfold cnt
  induction l with
  | nil => simp
  | cons a t ih =>
    simp only [List.countP_cons]
    have := h a
    cases hp : p a <;> cases hq : q a <;> cases hr : r a <;> simp_all <;> omega

theorem cnt_add_le (p q r : WPc → Bool) (l : List WPc) (hp : ∀ x, p x = true → r x = true)
    (hq : ∀ x, q x = true → r x = true) (hd : ∀ x, p x = true → q x = true → False) :
    cnt p l + cnt q l ≤ cnt r l := by
  unfold cnt
  induction l with
  | nil => simp
  | cons a t ih =>
    simp only [List.countP_cons]
    have := hp a; have := hq a; have := hd a
    cases h1 : p a <;> cases h2 : q a <;> cases h3 : r a <;> simp_all <;> omega

theorem inv_broken {c : Cfg} {tr s} (h : Run c tr s) :
    (s.broken = true → 0 < cnt WPc.badMarked s.ws) ∧ (s.broken = false → cnt WPc.badMarked s.ws = 0) ∧
      (s.fpc = .frel → s.broken = true) := by
  refine Run.inv (P := fun _ s => (s.broken = true → 0 < cnt WPc.badMarked s.ws) ∧
      (s.broken = false → cnt WPc.badMarked s.ws = 0) ∧ (s.fpc = .frel → s.broken = true))
    (by simp [C20.init, cnt_nil]) ?_ h
  intro tr s l s' hr ih hst
  obtain ⟨ih1, ih2, ih3⟩ := ih
  cases hb : s.broken <;> simp only [hb, forall_const, reduceCtorEq, false_implies, imp_false] at ih1 ih2 ih3
  all_goals cases hst with
    | start i hp hw => have := cnt_set WPc.badMarked s.ws i .running _ hw; simp_all [WPc.badMarked] <;> try omega
    | finish i o hp hw => have := cnt_set WPc.badMarked s.ws i (.fin o) _ hw; simp_all [WPc.badMarked] <;> try omega
    | markBrk i hp hw =>
      have := cnt_set WPc.badMarked s.ws i (.marked .brk) _ hw
      simp_all [WPc.badMarked, Outcome.bad] <;> try omega
    | markExc i hp hw =>
      have := cnt_set WPc.badMarked s.ws i (.marked .exc) _ hw
      simp_all [WPc.badMarked, Outcome.bad] <;> try omega
    | done i p o hp hw ho h0 =>
      have := cnt_set WPc.badMarked s.ws i (.doneW o) _ hw
      rw [badMarked_done ho] at this
      cases hob : p.badMarked <;> simp_all <;> try omega
    | release i o K hp hk hw h0 =>
      have := cnt_set WPc.badMarked s.ws i (.exited o) _ hw
      cases hob : o.bad <;> simp_all [WPc.badMarked] <;> try omega
    | acqOk K hp hk hpc hlt => cases hr : c.recheck <;> simp_all
    | chk2 b hp hpc hb => cases b <;> simp_all
    | _ => simp_all [cnt_append_one, WPc.badMarked]

/-! ### no input is skipped unless a callback broke/failed or `Acquire` failed -/

theorem mem_finish_of_at {c : Cfg} {tr s} (h : Run c tr s) (i : Nat) (o : Outcome) (x : WPc)
    (hw : s.ws[i]? = some x) (hx : x.outcome = some o) : Label.finish i o ∈ tr := by
  have := inv_finish_count h i o
  rw [show s.at i (WPc.hasOutcome o) = true by
    simp [State.at, atL_of_getElem? s.ws i x _ hw, WPc.hasOutcome, hx]] at this
  exact List.count_pos_iff.mp (by simp at this; omega)

theorem inv_noskip {c : Cfg} {tr s} (h : Run c tr s) :
    (∀ i o, Label.finish i o ∈ tr → o.bad = false) → Label.acqErr ∉ tr →
      (s.broken = false ∧ cnt WPc.isSkipped s.ws = 0) := by
  refine Run.inv (P := fun tr s => (∀ i o, Label.finish i o ∈ tr → o.bad = false) → Label.acqErr ∉ tr →
      (s.broken = false ∧ cnt WPc.isSkipped s.ws = 0)) (by simp [C20.init, cnt_nil]) ?_ h
  intro tr s l s' hr ih hst hfin hacq
  have hfin' : ∀ i o, Label.finish i o ∈ tr → o.bad = false := fun i o hm => hfin i o (by simp [hm])
  have hacq' : Label.acqErr ∉ tr := fun hm => hacq (by simp [hm])
  obtain ⟨ih1, ih2⟩ := ih hfin' hacq'
  have hfrel := (inv_broken hr).2.2
  cases hst with
  | start i hp hw => have := cnt_set WPc.isSkipped s.ws i .running _ hw; simp_all [WPc.isSkipped]
  | finish i o hp hw => have := cnt_set WPc.isSkipped s.ws i (.fin o) _ hw; simp_all [WPc.isSkipped]
  | markBrk i hp hw =>
    have := hfin' i .brk (mem_finish_of_at hr i .brk _ hw rfl)
    simp [Outcome.bad] at this
  | markExc i hp hw =>
    have := hfin' i .exc (mem_finish_of_at hr i .exc _ hw rfl)
    simp [Outcome.bad] at this
  | done i p o hp hw ho h0 =>
    have := cnt_set WPc.isSkipped s.ws i (.doneW o) _ hw
    have hps : p.isSkipped = false := by
      cases p <;> simp_all [WPc.doneOutcome, WPc.isSkipped]
    simp_all [WPc.isSkipped]
  | release i o K hp hk hw h0 => have := cnt_set WPc.isSkipped s.ws i (.exited o) _ hw; simp_all [WPc.isSkipped]
  | acqErrSkip => simp at hacq
  | acqErrGo => simp at hacq
  | _ => simp_all [cnt_append_one, WPc.isSkipped]

end C20
