import ElvModel.C20.Model
/-! A successful `replay` is a `Run` (used to build concrete witnesses by evaluation). -/
namespace C20

theorem run_of_replay_aux (c : Cfg) (ls : List Label) : ∀ (pre : List Label) (s0 s : State) (i : Nat),
    Run c pre s0 → replay c s0 i ls = .inl s → Run c (pre ++ ls) s := by
  induction ls with
  | nil => intro pre s0 s i h hr; simp [replay] at hr; subst hr; simpa using h
  | cons l t ih =>
    intro pre s0 s i h hr
    unfold replay at hr
    split at hr
    · rename_i s1 hs1
      have := ih (pre ++ [l]) s1 s (i + 1) (Run.step h hs1) hr
      simpa using this
    · simp at hr

theorem run_of_replay {c : Cfg} {ls : List Label} {s : State} (h : replay c init 0 ls = .inl s) :
    Run c ls s := by
  simpa using run_of_replay_aux c ls [] init s 0 Run.init h

theorem rrun_of_replay_aux (n : Nat) (ls : List RLabel) : ∀ (pre : List RLabel) (s0 s : RState) (i : Nat),
    RRun n pre s0 → rreplay s0 i ls = .inl s → RRun n (pre ++ ls) s := by
  induction ls with
  | nil => intro pre s0 s i h hr; simp [rreplay] at hr; subst hr; simpa using h
  | cons l t ih =>
    intro pre s0 s i h hr
    unfold rreplay at hr
    split at hr
    · rename_i s1 hs1
      have := ih (pre ++ [l]) s1 s (i + 1) (RRun.step h hs1) hr
      simpa using this
    · simp at hr

theorem rrun_of_replay {n : Nat} {ls : List RLabel} {s : RState} (h : rreplay (rinit n) 0 ls = .inl s) :
    RRun n ls s := by
  simpa using rrun_of_replay_aux n ls [] (rinit n) s 0 RRun.init h

end C20
