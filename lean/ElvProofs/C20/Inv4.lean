import ElvProofs.C20.Inv3
/-! The one-worker case (`&num-workers=1`, fixed code): callbacks run one at a time, in input
order, and none starts after one has broken or failed. -/
namespace C20

def WPc.isFin : WPc → Bool
  | .fin _ => true
  | _ => false

theorem permits_cnt {c : Cfg} {K : Nat} {tr s} (h : Run c tr s) (hk : c.k = some K) (hg : Good c s) :
    s.held = cnt WPc.holding s.ws + s.fpc.perm ∧ s.held ≤ K ∧ s.fpc ≠ .spawning false ∧ s.panicked = false :=
  inv_permits h hk hg

theorem pending_le_holding (l : List WPc) : cnt WPc.pending l ≤ cnt WPc.holding l :=
  cnt_le_of_imp _ _ _ (by intro x hx; cases x <;> simp_all [WPc.pending, WPc.holding])

theorem pending_fin_le_holding (l : List WPc) : cnt WPc.pending l + cnt WPc.isFin l ≤ cnt WPc.holding l :=
  cnt_add_le _ _ _ l (by intro x hx; cases x <;> simp_all [WPc.pending, WPc.holding])
    (by intro x hx; cases x <;> simp_all [WPc.isFin, WPc.holding])
    (by intro x h1 h2; cases x <;> simp_all [WPc.pending, WPc.isFin])

theorem badOutcome_le (l : List WPc) : cnt WPc.badOutcome l ≤ cnt WPc.badMarked l + cnt WPc.holding l :=
  cnt_le_add _ _ _ l (by intro x hx; cases x <;> simp_all [WPc.badOutcome, WPc.badMarked, WPc.holding])

/-- With one worker: while a callback is about to run or running (or the feeder is about to spawn
one), no callback has ended with `break` or a failure. -/
theorem inv_one_quiet {c : Cfg} {tr s} (h : Run c tr s) (hk : c.k = some 1) (hre : c.recheck = true) :
    Good c s → (0 < cnt WPc.pending s.ws ∨ s.fpc = .spawning true) → cnt WPc.badOutcome s.ws = 0 := by
  refine Run.inv' (P := fun _ s => Good c s → (0 < cnt WPc.pending s.ws ∨ s.fpc = .spawning true) →
      cnt WPc.badOutcome s.ws = 0) (by simp [C20.init, cnt_nil]) ?_ h
  intro tr s l s' hr hr' ih hst hg' hprem
  have hg := Good.of_step hst hg'
  have ih := ih hg
  obtain ⟨hp1, hp2, hp3, hp4⟩ := permits_cnt hr hk hg
  obtain ⟨hq1, hq2, hq3, hq4⟩ := permits_cnt hr' hk hg'
  have hbr := inv_broken hr
  have hpl := pending_le_holding s.ws
  have hpl' := pending_le_holding s'.ws
  cases hst with
  | start j hp hw =>
    have h1 := cnt_set WPc.badOutcome s.ws j .running _ hw
    have h2 := cnt_set WPc.pending s.ws j .running _ hw
    simp [WPc.badOutcome, WPc.pending, Outcome.bad] at h1 h2
    simp only at hprem ⊢
    rw [h1]; apply ih
    rcases hprem with hprem | hprem
    · left; omega
    · right; exact hprem
  | finish j o hp hw =>
    exfalso
    have h3 := pending_fin_le_holding (s.ws.set j (.fin o))
    have hlt : j < s.ws.length := by
      rcases Nat.lt_or_ge j s.ws.length with h | h
      · exact h
      · simp [List.getElem?_eq_none h] at hw
    have h4 : 0 < cnt WPc.isFin (s.ws.set j (.fin o)) :=
      cnt_pos WPc.isFin _ j (.fin o) (by simp [hlt]) rfl
    simp only at hprem hq1 hq2
    rcases hprem with hprem | hprem
    · omega
    · rw [hprem] at hq1; simp [FPc.perm] at hq1; omega
  | markBrk j hp hw =>
    have h1 := cnt_set WPc.badOutcome s.ws j (.marked .brk) _ hw
    have h2 := cnt_set WPc.pending s.ws j (.marked .brk) _ hw
    simp [WPc.badOutcome, WPc.pending, Outcome.bad] at h1 h2
    simp only at hprem ⊢
    rw [h1]; apply ih; rw [h2] at hprem; exact hprem
  | markExc j hp hw =>
    have h1 := cnt_set WPc.badOutcome s.ws j (.marked .exc) _ hw
    have h2 := cnt_set WPc.pending s.ws j (.marked .exc) _ hw
    simp [WPc.badOutcome, WPc.pending, Outcome.bad] at h1 h2
    simp only at hprem ⊢
    rw [h1]; apply ih; rw [h2] at hprem; exact hprem
  | done j p o hp hw ho h0 =>
    have h1 := cnt_set WPc.badOutcome s.ws j (.doneW o) _ hw
    have h2 := cnt_set WPc.pending s.ws j (.doneW o) _ hw
    rw [badOutcome_done ho] at h1
    have hpp : p.pending = false := by cases p <;> simp_all [WPc.doneOutcome, WPc.pending]
    rw [hpp] at h2
    simp [WPc.pending] at h2
    simp only at hprem ⊢
    have h1' : cnt WPc.badOutcome (s.ws.set j (.doneW o)) = cnt WPc.badOutcome s.ws := by
      cases hb : p.badOutcome <;> simp [hb] at h1 <;> omega
    rw [h1']; apply ih; rw [h2] at hprem; exact hprem
  | release j o K hp hk' hw h0 =>
    have h1 := cnt_set WPc.badOutcome s.ws j (.exited o) _ hw
    have h2 := cnt_set WPc.pending s.ws j (.exited o) _ hw
    simp [WPc.pending] at h2
    simp only at hprem ⊢
    have h1' : cnt WPc.badOutcome (s.ws.set j (.exited o)) = cnt WPc.badOutcome s.ws := by
      cases hb : o.bad <;> simp [WPc.badOutcome, hb] at h1 <;> omega
    rw [h1']; apply ih; rw [h2] at hprem; exact hprem
  | skip1 hp hpc hn hb =>
    simp only [cnt_append_one, WPc.badOutcome, WPc.pending] at hprem ⊢
    simp at hprem ⊢
    apply ih; left; simpa [hpc] using hprem
  | acqErrSkip hp hpc hcan hca =>
    simp only [cnt_append_one, WPc.badOutcome, WPc.pending] at hprem ⊢
    simp at hprem ⊢
    apply ih; left; exact hprem
  | frel hp hpc h0 =>
    simp only [cnt_append_one, WPc.badOutcome, WPc.pending] at hprem ⊢
    simp at hprem ⊢
    apply ih; left; exact hprem
  | spawn p hp hpc =>
    simp only [cnt_append_one, WPc.badOutcome] at ⊢
    simp
    apply ih; right
    cases p with
    | true => exact hpc
    | false => exact absurd hpc hp3
  | chk2 b hp hpc hb =>
    simp only at hprem ⊢
    rw [hpc] at hp1; simp [FPc.perm] at hp1
    have hh : cnt WPc.holding s.ws = 0 := by omega
    cases b with
    | false =>
      have := hbr.2.1 hb.symm
      have := badOutcome_le s.ws
      omega
    | true =>
      simp at hprem; omega
  | acqOk K hp hk' hpc hlt =>
    simp only at hprem hq1 hq2
    simp [hre, FPc.perm] at hprem hq1
    omega
  | pass1u hp hpc hn hb hku => simp [hk] at hku
  | acqErrGo hp hpc hcan hca => simp_all [Good]
  | pass1b K hp hpc hn hb hk' =>
    simp only at hprem ⊢
    apply ih; left; simpa using hprem
  | cancel hp => exact ih hprem
  | eof hp hpc hn =>
    simp only at hprem ⊢
    apply ih; left; simpa using hprem
  | waitRet hp hpc h0 =>
    simp only at hprem ⊢
    apply ih; left; simpa using hprem
  | out j v hp hw => exact ih hprem
  | frelPanic hp hpc h0 => exact ih hprem
  | donePanic j p o hp hw ho h0 => exact ih hprem
  | relPanic j o K hp hk' hw h0 => exact ih hprem

theorem getElem?_lt {α} {l : List α} {i : Nat} {x : α} (h : l[i]? = some x) : i < l.length := by
  rcases Nat.lt_or_ge i l.length with h' | h'
  · exact h'
  · simp [List.getElem?_eq_none h'] at h

/-- two different workers satisfying `p` count twice -/
theorem cnt_two (p : WPc → Bool) (l : List WPc) (i j : Nat) (x y : WPc) (hi : l[i]? = some x)
    (hj : l[j]? = some y) (hij : i ≠ j) (hx : p x = true) (hy : p y = true) (hs : p .skipped = false) :
    2 ≤ cnt p l := by
  have h1 := cnt_set p l i .skipped x hi
  have h2 : (l.set i .skipped)[j]? = some y := by
    rw [List.getElem?_set]; simp [hij, hj]
  have h3 := cnt_pos p _ j y h2 hy
  simp [hx, hs] at h1
  omega

theorem finish_at {c : Cfg} {tr s} (h : Run c tr s) (j : Nat) (o : Outcome) (hm : Label.finish j o ∈ tr) :
    ∃ x, s.ws[j]? = some x ∧ x.outcome = some o := by
  have hc := inv_finish_count h j o
  have hpos : 0 < tr.count (.finish j o) := List.count_pos_iff.mpr hm
  rw [hc] at hpos
  unfold State.at atL at hpos
  cases hg : s.ws[j]? with
  | none => simp [hg] at hpos
  | some x =>
    simp only [hg, WPc.hasOutcome] at hpos
    refine ⟨x, rfl, ?_⟩
    by_cases hx : x.outcome = some o
    · exact hx
    · simp [hx] at hpos

theorem start_at {c : Cfg} {tr s} (h : Run c tr s) (j : Nat) (hm : Label.start j ∈ tr) :
    atL s.ws j WPc.started = true := by
  have hc := inv_start_count h j
  have hpos : 0 < tr.count (.start j) := List.count_pos_iff.mpr hm
  rw [hc] at hpos
  cases hb : atL s.ws j WPc.started <;> simp_all [State.at]

/-- With one worker, a spawned (not yet started) callback has a larger index than every callback
started so far. -/
theorem inv_one_order {c : Cfg} {tr s} (h : Run c tr s) (hk : c.k = some 1) :
    Good c s → ∀ i j, s.ws[i]? = some .spawned → atL s.ws j WPc.started = true → j < i := by
  refine Run.inv (P := fun _ s => Good c s → ∀ i j, s.ws[i]? = some .spawned →
      atL s.ws j WPc.started = true → j < i) (by simp [C20.init]) ?_ h
  intro tr s l s' hr ih hst hg' i j hi hj
  have hg := Good.of_step hst hg'
  have ih := ih hg
  obtain ⟨hp1, hp2, hp3, hp4⟩ := permits_cnt hr hk hg
  have happ : ∀ x, x ≠ WPc.spawned → (s.ws ++ [x])[i]? = some .spawned → s.ws[i]? = some .spawned := by
    intro x hx hi
    by_cases hlt : i < s.ws.length
    · rwa [List.getElem?_append_left hlt] at hi
    · rw [List.getElem?_append_right (by omega)] at hi
      cases hd : i - s.ws.length with
      | zero => simp [hd] at hi; exact absurd hi hx
      | succ n => simp [hd] at hi
  have hset : ∀ j0 a x, s.ws[j0]? = some x → a ≠ WPc.spawned → (s.ws.set j0 a)[i]? = some .spawned →
      s.ws[i]? = some .spawned ∧ j0 ≠ i := by
    intro j0 a x hw ha hi
    rw [List.getElem?_set] at hi
    by_cases hji : j0 = i
    · subst hji; simp [getElem?_lt hw] at hi; exact absurd hi ha
    · simp [hji] at hi; exact ⟨hi, hji⟩
  cases hst with
  | start j0 hp hw =>
    obtain ⟨hi', hne⟩ := hset j0 .running _ hw (by simp) hi
    have := cnt_two WPc.holding s.ws j0 i _ _ hw hi' hne rfl rfl rfl
    omega
  | finish j0 o hp hw =>
    obtain ⟨hi', hne⟩ := hset j0 (.fin o) _ hw (by simp) hi
    rw [atL_set_same s.ws j0 (.fin o) _ j WPc.started hw (by simp [WPc.started])] at hj
    exact ih i j hi' hj
  | markBrk j0 hp hw =>
    obtain ⟨hi', hne⟩ := hset j0 (.marked .brk) _ hw (by simp) hi
    rw [atL_set_same s.ws j0 (.marked .brk) _ j WPc.started hw (by simp [WPc.started])] at hj
    exact ih i j hi' hj
  | markExc j0 hp hw =>
    obtain ⟨hi', hne⟩ := hset j0 (.marked .exc) _ hw (by simp) hi
    rw [atL_set_same s.ws j0 (.marked .exc) _ j WPc.started hw (by simp [WPc.started])] at hj
    exact ih i j hi' hj
  | done j0 p o hp hw ho h0 =>
    obtain ⟨hi', hne⟩ := hset j0 (.doneW o) _ hw (by simp) hi
    rw [atL_set_same s.ws j0 (.doneW o) _ j WPc.started hw (by rw [(doneOutcome_facts ho).2.2.2.1]; rfl)] at hj
    exact ih i j hi' hj
  | release j0 o K hp hk' hw h0 =>
    obtain ⟨hi', hne⟩ := hset j0 (.exited o) _ hw (by simp) hi
    rw [atL_set_same s.ws j0 (.exited o) _ j WPc.started hw (by simp [WPc.started])] at hj
    exact ih i j hi' hj
  | skip1 hp hpc hn hb =>
    rw [atL_append s.ws .skipped j WPc.started rfl] at hj
    exact ih i j (happ _ (by simp) hi) hj
  | acqErrSkip hp hpc hcan hca =>
    rw [atL_append s.ws .skipped j WPc.started rfl] at hj
    exact ih i j (happ _ (by simp) hi) hj
  | frel hp hpc h0 =>
    rw [atL_append s.ws .skipped j WPc.started rfl] at hj
    exact ih i j (happ _ (by simp) hi) hj
  | spawn p hp hpc =>
    rw [atL_append s.ws .spawned j WPc.started rfl] at hj
    have hjl : j < s.ws.length := by
      rcases Nat.lt_or_ge j s.ws.length with h | h
      · exact h
      · rw [atL_ge s.ws j _ h] at hj; simp at hj
    by_cases hlt : i < s.ws.length
    · rw [List.getElem?_append_left hlt] at hi
      exact ih i j hi hj
    · omega
  | _ => exact ih i j hi hj

/-- how the number of callbacks that ended badly changes in one step -/
theorem badOutcome_step {c : Cfg} {s s' : State} {l} (hst : Step c s l s') :
    cnt WPc.badOutcome s'.ws = cnt WPc.badOutcome s.ws ∨
      (∃ j : Nat, s.ws[j]? = some WPc.running ∧ cnt WPc.badOutcome s'.ws ≤ cnt WPc.badOutcome s.ws + 1) := by
  cases hst with
  | start j hp hw =>
    have h1 := cnt_set WPc.badOutcome s.ws j .running _ hw
    simp [WPc.badOutcome] at h1; exact Or.inl h1
  | finish j o hp hw =>
    have h1 := cnt_set WPc.badOutcome s.ws j (.fin o) _ hw
    right; refine ⟨j, hw, ?_⟩
    cases hb : o.bad <;> simp [WPc.badOutcome, hb] at h1 <;> simp only <;> omega
  | markBrk j hp hw =>
    have h1 := cnt_set WPc.badOutcome s.ws j (.marked .brk) _ hw
    simp [WPc.badOutcome, Outcome.bad] at h1; exact Or.inl h1
  | markExc j hp hw =>
    have h1 := cnt_set WPc.badOutcome s.ws j (.marked .exc) _ hw
    simp [WPc.badOutcome, Outcome.bad] at h1; exact Or.inl h1
  | done j p o hp hw ho h0 =>
    have h1 := cnt_set WPc.badOutcome s.ws j (.doneW o) _ hw
    rw [badOutcome_done ho] at h1
    left; cases hb : p.badOutcome <;> simp [hb] at h1 <;> simp only <;> omega
  | release j o K hp hk' hw h0 =>
    have h1 := cnt_set WPc.badOutcome s.ws j (.exited o) _ hw
    left; cases hb : o.bad <;> simp [WPc.badOutcome, hb] at h1 <;> simp only <;> omega
  | skip1 => left; simp [cnt_append_one, WPc.badOutcome]
  | acqErrSkip => left; simp [cnt_append_one, WPc.badOutcome]
  | frel => left; simp [cnt_append_one, WPc.badOutcome]
  | spawn => left; simp [cnt_append_one, WPc.badOutcome]
  | _ => exact Or.inl rfl

/-- With one worker at most one callback ever ends with `break` or a failure. -/
theorem inv_one_bad {c : Cfg} {tr s} (h : Run c tr s) (hk : c.k = some 1) (hre : c.recheck = true) :
    Good c s → cnt WPc.badOutcome s.ws ≤ 1 := by
  refine Run.inv (P := fun _ s => Good c s → cnt WPc.badOutcome s.ws ≤ 1) (by simp [C20.init, cnt_nil]) ?_ h
  intro tr s l s' hr ih hst hg'
  have hg := Good.of_step hst hg'
  have ih := ih hg
  rcases badOutcome_step hst with h1 | ⟨j, hw, h1⟩
  · omega
  · have := inv_one_quiet hr hk hre hg (Or.inl (cnt_pos WPc.pending s.ws j _ hw rfl))
    omega

theorem inv_err_length {c : Cfg} {tr s} (h : Run c tr s) : s.err.length = cnt WPc.erred s.ws := by
  refine Run.inv (P := fun _ s => s.err.length = cnt WPc.erred s.ws) (by simp [C20.init, cnt_nil]) ?_ h
  intro tr s l s' hr ih hst
  cases hst with
  | start j hp hw => have h1 := cnt_set WPc.erred s.ws j .running _ hw; simp [WPc.erred] at h1; simp [ih, h1]
  | finish j o hp hw => have h1 := cnt_set WPc.erred s.ws j (.fin o) _ hw; simp [WPc.erred] at h1; simp [ih, h1]
  | markBrk j hp hw => have h1 := cnt_set WPc.erred s.ws j (.marked .brk) _ hw; simp [WPc.erred] at h1; simp [ih, h1]
  | markExc j hp hw => have h1 := cnt_set WPc.erred s.ws j (.marked .exc) _ hw; simp [WPc.erred] at h1; simp [ih, h1]
  | done j p o hp hw ho h0 =>
    have h1 := cnt_set WPc.erred s.ws j (.doneW o) _ hw
    rw [erred_done ho] at h1
    have : cnt WPc.erred (s.ws.set j (.doneW o)) = cnt WPc.erred s.ws := by
      cases hb : p.erred <;> simp [hb] at h1 <;> omega
    simp [ih, this]
  | release j o K hp hk' hw h0 =>
    have h1 := cnt_set WPc.erred s.ws j (.exited o) _ hw
    have : cnt WPc.erred (s.ws.set j (.exited o)) = cnt WPc.erred s.ws := by
      cases o <;> simp [WPc.erred] at h1 <;> omega
    simp [ih, this]
  | skip1 => simp [cnt_append_one, WPc.erred, ih]
  | acqErrSkip => simp [cnt_append_one, WPc.erred, ih]
  | frel => simp [cnt_append_one, WPc.erred, ih]
  | spawn => simp [cnt_append_one, WPc.erred, ih]
  | _ => simp [ih]

end C20
