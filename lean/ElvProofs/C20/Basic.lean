import ElvModel.C20.Model
/-! Helper lemmas for C20: counting under `List.set`, and the case analysis of
`step` as an inductive relation (`Step`), proved once (`step_spec`). -/
namespace C20

theorem countP_set_add {α} (p : α → Bool) (l : List α) (i : Nat) (a x : α) (h : l[i]? = some x) :
    (l.set i a).countP p + (if p x then 1 else 0) = l.countP p + (if p a then 1 else 0) := by
  induction l generalizing i with
  | nil => simp at h
  | cons b t ih =>
    cases i with
    | zero =>
      simp at h; subst h
      simp [List.countP_cons]; omega
    | succ j =>
      simp at h
      have := ih j h
      simp [List.countP_cons]; omega

/-- worker counted by the WaitGroup -/
def WPc.undone : WPc → Bool
  | .spawned => true
  | .running => true
  | .fin _ => true
  | .marked _ => true
  | _ => false

/-- worker holding a semaphore permit (bounded peach, fixed code) -/
def WPc.holding : WPc → Bool
  | .spawned => true
  | .running => true
  | .fin _ => true
  | .marked _ => true
  | .doneW _ => true
  | _ => false

/-- The enabled steps, one constructor per branch of `step`. -/
inductive Step (c : Cfg) : State → Label → State → Prop where
  | cancel (s) : s.panicked = false → Step c s .cancel { s with cancelled := true }
  | skip1 (s) : s.panicked = false → s.fpc = .top → s.ws.length < c.n → s.broken = true →
      Step c s (.chk1 true) { s with ws := s.ws ++ [.skipped] }
  | pass1u (s) : s.panicked = false → s.fpc = .top → s.ws.length < c.n → s.broken = false → c.k = none →
      Step c s (.chk1 false) { s with fpc := .spawning false }
  | pass1b (s K) : s.panicked = false → s.fpc = .top → s.ws.length < c.n → s.broken = false → c.k = some K →
      Step c s (.chk1 false) { s with fpc := .acq }
  | acqOk (s K) : s.panicked = false → c.k = some K → s.fpc = .acq → s.held < K →
      Step c s .acqOk { s with held := s.held + 1, fpc := if c.recheck then .chk2 else .spawning true }
  | acqErrSkip (s) : s.panicked = false → s.fpc = .acq → s.cancelled = true → c.checkAcq = true →
      Step c s .acqErr { s with fpc := .top, ws := s.ws ++ [.skipped] }
  | acqErrGo (s) : s.panicked = false → s.fpc = .acq → s.cancelled = true → c.checkAcq = false →
      Step c s .acqErr { s with fpc := .spawning false }
  | chk2 (s b) : s.panicked = false → s.fpc = .chk2 → b = s.broken →
      Step c s (.chk2 b) { s with fpc := if b then .frel else .spawning true }
  | frelPanic (s) : s.panicked = false → s.fpc = .frel → s.held = 0 →
      Step c s .frel { s with panicked := true }
  | frel (s) : s.panicked = false → s.fpc = .frel → s.held ≠ 0 →
      Step c s .frel { s with fpc := .top, held := s.held - 1, ws := s.ws ++ [.skipped] }
  | spawn (s p) : s.panicked = false → s.fpc = .spawning p →
      Step c s .spawn { s with fpc := .top, wg := s.wg + 1, ws := s.ws ++ [.spawned] }
  | eof (s) : s.panicked = false → s.fpc = .top → s.ws.length = c.n →
      Step c s .eof { s with fpc := .waiting }
  | waitRet (s) : s.panicked = false → s.fpc = .waiting → s.wg = 0 →
      Step c s .waitRet { s with fpc := .ret }
  | start (s i) : s.panicked = false → s.ws[i]? = some .spawned →
      Step c s (.start i) { s with ws := s.ws.set i .running }
  | out (s i v) : s.panicked = false → s.ws[i]? = some .running →
      Step c s (.out i v) { s with outs := s.outs ++ [(i, v)] }
  | finish (s i o) : s.panicked = false → s.ws[i]? = some .running →
      Step c s (.finish i o) { s with ws := s.ws.set i (.fin o) }
  | markBrk (s i) : s.panicked = false → s.ws[i]? = some (.fin .brk) →
      Step c s (.mark i) { s with ws := s.ws.set i (.marked .brk), broken := true }
  | markExc (s i) : s.panicked = false → s.ws[i]? = some (.fin .exc) →
      Step c s (.mark i) { s with ws := s.ws.set i (.marked .exc), broken := true, err := s.err ++ [i] }
  | donePanic (s i p o) : s.panicked = false → s.ws[i]? = some p → p.doneOutcome = some o → s.wg = 0 →
      Step c s (.done i) { s with panicked := true }
  | done (s i p o) : s.panicked = false → s.ws[i]? = some p → p.doneOutcome = some o → s.wg ≠ 0 →
      Step c s (.done i) { s with ws := s.ws.set i (.doneW o), wg := s.wg - 1 }
  | relPanic (s i o K) : s.panicked = false → c.k = some K → s.ws[i]? = some (.doneW o) → s.held = 0 →
      Step c s (.release i) { s with panicked := true }
  | release (s i o K) : s.panicked = false → c.k = some K → s.ws[i]? = some (.doneW o) → s.held ≠ 0 →
      Step c s (.release i) { s with ws := s.ws.set i (.exited o), held := s.held - 1 }

theorem step_spec {c : Cfg} {s s' : State} {l : Label} (h : step c s l = some s') : Step c s l s' := by
  have hp : s.panicked = false := by
    cases hq : s.panicked with
    | false => rfl
    | true => simp [step, hq] at h
  cases l with
  | cancel =>
    simp [step, hp] at h; subst h; have := Step.cancel (c := c) s hp; simpa [hp] using this
  | chk1 b =>
    simp only [step, hp, Bool.false_eq_true, ↓reduceIte] at h
    split at h
    · rename_i hg; obtain ⟨h1, h2, h3⟩ := hg
      split at h
      · rename_i hb; subst hb; injection h with h; subst h; have := Step.skip1 (c := c) s hp h1 h2 h3.symm; simpa [hp] using this
      · rename_i hb
        have hb : b = false := by simpa using hb
        subst hb
        split at h
        · rename_i hk; injection h with h; subst h; have := Step.pass1u (c := c) s hp h1 h2 h3.symm hk; simpa [hp] using this
        · rename_i K hk; injection h with h; subst h; have := Step.pass1b (c := c) s K hp h1 h2 h3.symm hk; simpa [hp] using this
    · simp at h
  | acqOk =>
    simp only [step, hp, Bool.false_eq_true, ↓reduceIte] at h
    split at h
    · rename_i K hk
      split at h
      · rename_i hg; injection h with h; subst h; have := Step.acqOk (c := c) s K hp hk hg.1 hg.2; simpa [hp] using this
      · simp at h
    · simp at h
  | acqErr =>
    simp only [step, hp, Bool.false_eq_true, ↓reduceIte] at h
    split at h
    · rename_i hg
      split at h
      · rename_i hc; injection h with h; subst h; have := Step.acqErrSkip (c := c) s hp hg.1 hg.2 hc; simpa [hp] using this
      · rename_i hc; injection h with h; subst h
        have := Step.acqErrGo (c := c) s hp hg.1 hg.2 (by simpa using hc); simpa [hp] using this
    · simp at h
  | chk2 b =>
    simp only [step, hp, Bool.false_eq_true, ↓reduceIte] at h
    split at h
    · rename_i hg; injection h with h; subst h; have := Step.chk2 (c := c) s b hp hg.1 hg.2; simpa [hp] using this
    · simp at h
  | frel =>
    simp only [step, hp, Bool.false_eq_true, ↓reduceIte] at h
    split at h
    · rename_i hg
      split at h
      · rename_i h0; injection h with h; subst h; have := Step.frelPanic (c := c) s hp hg h0; simpa [hp] using this
      · rename_i h0; injection h with h; subst h; have := Step.frel (c := c) s hp hg h0; simpa [hp] using this
    · simp at h
  | spawn =>
    simp only [step, hp, Bool.false_eq_true, ↓reduceIte] at h
    split at h
    · rename_i p hg; injection h with h; subst h; have := Step.spawn (c := c) s p hp hg; simpa [hp] using this
    · simp at h
  | eof =>
    simp only [step, hp, Bool.false_eq_true, ↓reduceIte] at h
    split at h
    · rename_i hg; injection h with h; subst h; have := Step.eof (c := c) s hp hg.1 hg.2; simpa [hp] using this
    · simp at h
  | waitRet =>
    simp only [step, hp, Bool.false_eq_true, ↓reduceIte] at h
    split at h
    · rename_i hg; injection h with h; subst h; have := Step.waitRet (c := c) s hp hg.1 hg.2; simpa [hp] using this
    · simp at h
  | start i =>
    simp only [step, hp, Bool.false_eq_true, ↓reduceIte] at h
    split at h
    · rename_i hg; injection h with h; subst h; have := Step.start (c := c) s i hp hg; simpa [hp] using this
    · simp at h
  | out i v =>
    simp only [step, hp, Bool.false_eq_true, ↓reduceIte] at h
    split at h
    · rename_i hg; injection h with h; subst h; have := Step.out (c := c) s i v hp hg; simpa [hp] using this
    · simp at h
  | finish i o =>
    simp only [step, hp, Bool.false_eq_true, ↓reduceIte] at h
    split at h
    · rename_i hg; injection h with h; subst h; have := Step.finish (c := c) s i o hp hg; simpa [hp] using this
    · simp at h
  | mark i =>
    simp only [step, hp, Bool.false_eq_true, ↓reduceIte] at h
    split at h
    · rename_i hg; injection h with h; subst h; have := Step.markBrk (c := c) s i hp hg; simpa [hp] using this
    · rename_i hg; injection h with h; subst h; have := Step.markExc (c := c) s i hp hg; simpa [hp] using this
    · simp at h
  | done i =>
    simp only [step, hp, Bool.false_eq_true, ↓reduceIte] at h
    split at h
    · rename_i p hg
      split at h
      · rename_i o ho
        split at h
        · rename_i h0; injection h with h; subst h; have := Step.donePanic (c := c) s i p o hp hg ho h0; simpa [hp] using this
        · rename_i h0; injection h with h; subst h; have := Step.done (c := c) s i p o hp hg ho h0; simpa [hp] using this
      · simp at h
    · simp at h
  | release i =>
    simp only [step, hp, Bool.false_eq_true, ↓reduceIte] at h
    split at h
    · rename_i K o hk hg
      split at h
      · rename_i h0; injection h with h; subst h; have := Step.relPanic (c := c) s i o K hp hk hg h0; simpa [hp] using this
      · rename_i h0; injection h with h; subst h; have := Step.release (c := c) s i o K hp hk hg h0; simpa [hp] using this
    · simp at h

end C20
