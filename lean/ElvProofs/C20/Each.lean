import ElvProofs.C20.Inv5
/-! List lemmas and the closed form of `eachRun`, used to assemble the one-worker invariants into
the equality `peach &num-workers=1 = each`. -/
namespace C20

/-- strictly increasing lists with the same elements are equal -/
theorem sorted_ext : ∀ (l1 l2 : List Nat), l1.Pairwise (· < ·) → l2.Pairwise (· < ·) →
    (∀ i, i ∈ l1 ↔ i ∈ l2) → l1 = l2
  | [], [], _, _, _ => rfl
  | [], b :: u, _, _, h => by have := (h b).mpr (by simp); simp at this
  | a :: t, [], _, _, h => by have := (h a).mp (by simp); simp at this
  | a :: t, b :: u, h1, h2, h => by
    rw [List.pairwise_cons] at h1 h2
    have hab : a = b := by
      have ha := (h a).mp (by simp)
      have hb := (h b).mpr (by simp)
      simp only [List.mem_cons] at ha hb
      rcases ha with ha | ha
      · exact ha
      · rcases hb with hb | hb
        · exact hb.symm
        · have := h1.1 b hb; have := h2.1 a ha; omega
    subst hab
    congr 1
    apply sorted_ext t u h1.2 h2.2
    intro i
    constructor
    · intro hi
      have := (h i).mp (by simp [hi])
      simp only [List.mem_cons] at this
      rcases this with rfl | this
      · have := h1.1 i hi; omega
      · exact this
    · intro hi
      have := (h i).mpr (by simp [hi])
      simp only [List.mem_cons] at this
      rcases this with rfl | this
      · have := h2.1 i hi; omega
      · exact this

/-- a strictly increasing list whose element set is downward closed is an initial segment -/
theorem sorted_closed_eq_range (l : List Nat) (hs : l.Pairwise (· < ·))
    (hc : ∀ j, j ∈ l → ∀ i, i < j → i ∈ l) : l = List.range l.length := by
  apply sorted_ext l _ hs List.pairwise_lt_range
  have key : ∀ (l : List Nat) (a : Nat), l.Pairwise (· < ·) → (∀ j, j ∈ l → a ≤ j) →
      (∀ j, j ∈ l → ∀ i, a ≤ i → i < j → i ∈ l) → ∀ i, i ∈ l ↔ a ≤ i ∧ i < a + l.length := by
    intro l
    induction l with
    | nil => intro a _ _ _ i; simp
    | cons x t ih =>
      intro a hs hlo hc i
      rw [List.pairwise_cons] at hs
      have hxa : x = a := by
        have h1 := hlo x (by simp)
        rcases Nat.lt_or_ge a x with hlt | hge
        · have := hc x (by simp) a (Nat.le_refl a) hlt
          simp only [List.mem_cons] at this
          rcases this with h | h
          · omega
          · have := hs.1 a h; omega
        · omega
      subst hxa
      have iht := ih (x + 1) hs.2 (fun j hj => hs.1 j hj) (by
        intro j hj i hi hij
        have := hc j (by simp [hj]) i (by omega) hij
        simp only [List.mem_cons] at this
        rcases this with h | h
        · omega
        · exact h) i
      simp only [List.mem_cons, List.length_cons, iht]
      omega
  intro i
  rw [key l 0 hs (fun _ _ => Nat.zero_le _) (fun j hj i _ hij => hc j hj i hij) i, List.mem_range]
  omega

/-- a list sorted by key splits into the entries with the least key and the rest -/
theorem sorted_split (a : Nat) : ∀ (l : List (Nat × Nat)), l.Pairwise (fun x y => x.1 ≤ y.1) →
    (∀ x, x ∈ l → a ≤ x.1) →
    l = l.filter (fun x => decide (x.1 = a)) ++ l.filter (fun x => decide (a < x.1))
  | [], _, _ => rfl
  | x :: t, hs, hlo => by
    rw [List.pairwise_cons] at hs
    have ht := sorted_split a t hs.2 (fun y hy => hlo y (by simp [hy]))
    by_cases hx : x.1 = a
    · have h2 : ¬ a < x.1 := by omega
      simp only [List.filter_cons, hx, decide_true, ↓reduceIte, Nat.lt_irrefl, decide_false,
        Bool.false_eq_true, List.cons_append]
      rw [← hx] at ht ⊢
      exact congrArg _ ht
    · have h2 : a < x.1 := by have := hlo x (by simp); omega
      have h3 : t.filter (fun y => decide (y.1 = a)) = [] := by
        apply List.filter_eq_nil_iff.mpr
        intro y hy; have := hs.1 y hy; simp; omega
      have h4 : t.filter (fun y => decide (a < y.1)) = t := by
        apply List.filter_eq_self.mpr
        intro y hy; have := hs.1 y hy; simp; omega
      simp [hx, h2, h3, h4]

/-- a list sorted by key is the concatenation of its key classes -/
theorem sorted_eq_flatMap (f : Nat → List (Nat × Nat)) : ∀ (q a : Nat) (l : List (Nat × Nat)),
    l.Pairwise (fun x y => x.1 ≤ y.1) → (∀ x, x ∈ l → a ≤ x.1 ∧ x.1 < a + q) →
    (∀ i, a ≤ i → i < a + q → l.filter (fun x => decide (x.1 = i)) = f i) →
    l = (List.range' a q).flatMap f
  | 0, a, l, _, hb, _ => by
    cases l with
    | nil => rfl
    | cons x t => have := hb x (by simp); omega
  | q + 1, a, l, hs, hb, hf => by
    have hsp := sorted_split a l hs (fun x hx => (hb x hx).1)
    have ih := sorted_eq_flatMap f q (a + 1) (l.filter (fun x => decide (a < x.1)))
      (hs.filter _) (by
        intro x hx
        rw [List.mem_filter] at hx
        have := hb x hx.1
        have := hx.2
        simp at this; omega) (by
        intro i h1 h2
        rw [List.filter_filter, ← hf i (by omega) (by omega)]
        apply List.filter_congr
        intro x _
        by_cases hxi : x.1 = i <;> simp [hxi]; omega)
    rw [List.range'_succ, List.flatMap_cons, ← hf a (Nat.le_refl a) (by omega), ← ih]
    exact hsp

/-! ### the closed form of `each` -/

/-- `each` over `i, …, i+m-1` starts exactly the first `q` of them when none of the first `q-1`
breaks/fails and either `q = m` or the `q`-th does. -/
theorem eachFrom_eq (cb : Nat → List Nat × Outcome) : ∀ (m i q : Nat), q ≤ m →
    (∀ j, i ≤ j → j + 1 < i + q → (cb j).2.bad = false) →
    (q < m → 0 < q ∧ (cb (i + q - 1)).2.bad = true) →
    eachFrom cb i m =
      { starts := List.range' i q,
        outs := (List.range' i q).flatMap (fun j => (cb j).1.map (fun v => (j, v))),
        err := (List.range' i q).filter (fun j => decide ((cb j).2 = .exc)) }
  | 0, i, q, hq, _, _ => by
    have : q = 0 := by omega
    subst this; simp [eachFrom]
  | m + 1, i, q, hq, hgood, hlast => by
    cases q with
    | zero => have := (hlast (by omega)).1; omega
    | succ q' =>
      unfold eachFrom
      by_cases hb : (cb i).2.bad = true
      · have hq0 : q' = 0 := by
          rcases Nat.eq_zero_or_pos q' with h | h
          · exact h
          · have := hgood i (Nat.le_refl i) (by omega); simp [hb] at this
        subst hq0
        simp only [hb, ↓reduceIte]
        by_cases he : (cb i).2 = .exc <;> simp [he, List.range'_succ]
      · have hb' : (cb i).2.bad = false := by simpa using hb
        have ih := eachFrom_eq cb m (i + 1) q' (by omega)
          (fun j h1 h2 => hgood j (by omega) (by omega)) (by
            intro hlt
            have := hlast (by omega)
            have hpos : 0 < q' := by
              rcases Nat.eq_zero_or_pos q' with h | h
              · subst h; simp [hb'] at this
              · exact h
            refine ⟨hpos, ?_⟩
            have h2 := this.2
            have : i + (q' + 1) - 1 = i + 1 + q' - 1 := by omega
            rw [this] at h2; exact h2)
        simp only [hb', Bool.false_eq_true, ↓reduceIte, ih]
        have hne : (cb i).2 ≠ .exc := by intro h; rw [h] at hb'; simp [Outcome.bad] at hb'
        simp [hne, List.range'_succ]

end C20
