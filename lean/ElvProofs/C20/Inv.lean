import ElvProofs.C20.Basic
/-! Invariants of the `peach` transition system, each proved by induction over `Run`. -/
namespace C20

theorem Run.inv {c : Cfg} {P : List Label → State → Prop} (h0 : P [] C20.init)
    (hs : ∀ tr s l s', Run c tr s → P tr s → Step c s l s' → P (tr ++ [l]) s') :
    ∀ {tr s}, Run c tr s → P tr s := by
  intro tr s h
  induction h with
  | init => exact h0
  | step hr hst ih => exact hs _ _ _ _ hr ih (step_spec hst)

/-- like `Run.inv`, the step case also gets the run to the post-state -/
theorem Run.inv' {c : Cfg} {P : List Label → State → Prop} (h0 : P [] C20.init)
    (hs : ∀ tr s l s', Run c tr s → Run c (tr ++ [l]) s' → P tr s → Step c s l s' → P (tr ++ [l]) s') :
    ∀ {tr s}, Run c tr s → P tr s := by
  intro tr s h
  induction h with
  | init => exact h0
  | step hr hst ih => exact hs _ _ _ _ hr (Run.step hr hst) ih (step_spec hst)

theorem countP_pos_of_getElem? {α} (p : α → Bool) (l : List α) (i : Nat) (x : α)
    (h : l[i]? = some x) (hp : p x = true) : 0 < l.countP p := by
  have hm : x ∈ l := List.mem_of_getElem? h
  exact List.countP_pos_iff.mpr ⟨x, hm, hp⟩

/-- permits the feeder itself holds -/
def FPc.perm : FPc → Nat
  | .chk2 => 1
  | .frel => 1
  | .spawning true => 1
  | _ => 0

/-! ### the WaitGroup counter counts the workers that have not called `Done` -/

theorem doneOutcome_facts {p : WPc} {o : Outcome} (h : p.doneOutcome = some o) :
    p.undone = true ∧ p.holding = true ∧ p.isRunning = false ∧ p.started = true ∧ p.outcome = some o := by
  cases p with
  | fin o' => cases o' <;> simp_all [WPc.doneOutcome, WPc.undone, WPc.holding, WPc.isRunning, WPc.started, WPc.outcome]
  | marked o' => simp_all [WPc.doneOutcome, WPc.undone, WPc.holding, WPc.isRunning, WPc.started, WPc.outcome]
  | _ => simp [WPc.doneOutcome] at h

theorem inv_wg {c : Cfg} {tr s} (h : Run c tr s) : s.wg = s.ws.countP WPc.undone := by
  refine Run.inv (P := fun _ s => s.wg = s.ws.countP WPc.undone) (by simp [C20.init]) ?_ h
  intro tr s l s' _ ih hst
  cases hst with
  | start i hp hw => have := countP_set_add WPc.undone s.ws i .running _ hw; simp_all [WPc.undone]
  | finish i o hp hw => have := countP_set_add WPc.undone s.ws i (.fin o) _ hw; simp_all [WPc.undone]
  | markBrk i hp hw => have := countP_set_add WPc.undone s.ws i (.marked .brk) _ hw; simp_all [WPc.undone]
  | markExc i hp hw => have := countP_set_add WPc.undone s.ws i (.marked .exc) _ hw; simp_all [WPc.undone]
  | done i p o hp hw ho h0 =>
    have := countP_set_add WPc.undone s.ws i (.doneW o) _ hw
    have := doneOutcome_facts ho
    simp_all [WPc.undone]; omega
  | release i o K hp hk hw h0 => have := countP_set_add WPc.undone s.ws i (.exited o) _ hw; simp_all [WPc.undone]
  | _ => simp_all [List.countP_append, WPc.undone]

/-! ### permits: the semaphore count is the number of permit holders -/

/-- the configuration/state combinations in which `Acquire`'s error cannot be ignored:
the fix is in, or the context has not been cancelled -/
def Good (c : Cfg) (s : State) : Prop := c.checkAcq = true ∨ s.cancelled = false

theorem Good.of_step {c : Cfg} {s s' : State} {l} (hst : Step c s l s') (hg : Good c s') : Good c s := by
  cases hst <;> simp_all [Good]

theorem inv_permits {c : Cfg} {K : Nat} {tr s} (h : Run c tr s) (hk : c.k = some K) :
    Good c s → (s.held = s.ws.countP WPc.holding + s.fpc.perm ∧ s.held ≤ K ∧
      s.fpc ≠ .spawning false ∧ s.panicked = false) := by
  refine Run.inv (P := fun _ s => Good c s → (s.held = s.ws.countP WPc.holding + s.fpc.perm ∧ s.held ≤ K ∧
      s.fpc ≠ .spawning false ∧ s.panicked = false)) (by simp [C20.init, FPc.perm]) ?_ h
  intro tr s l s' hr ih hst hg'
  have hg := Good.of_step hst hg'
  obtain ⟨ih1, ih2, ih3, ih4⟩ := ih hg
  have hwg := inv_wg hr
  cases hst with
  | start i hp hw => have := countP_set_add WPc.holding s.ws i .running _ hw; simp_all [WPc.holding]
  | finish i o hp hw => have := countP_set_add WPc.holding s.ws i (.fin o) _ hw; simp_all [WPc.holding]
  | markBrk i hp hw => have := countP_set_add WPc.holding s.ws i (.marked .brk) _ hw; simp_all [WPc.holding]
  | markExc i hp hw => have := countP_set_add WPc.holding s.ws i (.marked .exc) _ hw; simp_all [WPc.holding]
  | done i p o hp hw ho h0 =>
    have := countP_set_add WPc.holding s.ws i (.doneW o) _ hw
    have := doneOutcome_facts ho
    simp_all [WPc.holding]
  | donePanic i p o hp hw ho h0 =>
    have := countP_pos_of_getElem? WPc.undone s.ws i p hw (doneOutcome_facts ho).1
    omega
  | release i o K' hp hk' hw h0 =>
    have := countP_set_add WPc.holding s.ws i (.exited o) _ hw
    simp_all [WPc.holding]; omega
  | relPanic i o K' hp hk' hw h0 =>
    have := countP_pos_of_getElem? WPc.holding s.ws i _ hw (by simp [WPc.holding])
    omega
  | acqOk K' hp hk' hpc hlt =>
    have : K' = K := by simp_all
    subst this
    cases hr : c.recheck <;> simp_all [FPc.perm] <;> omega
  | acqErrGo hp hpc hcan hca => simp_all [Good]
  | chk2 b hp hpc hb => cases b <;> simp_all [FPc.perm]
  | frelPanic hp hpc h0 => simp_all [FPc.perm]
  | frel hp hpc h0 => simp_all [FPc.perm, List.countP_append, WPc.holding]; omega
  | spawn p hp hpc =>
    cases p <;> simp_all [FPc.perm, List.countP_append, WPc.holding]
  | _ => simp_all [FPc.perm, List.countP_append, WPc.holding]

theorem countP_le_of_imp {α} (p q : α → Bool) (l : List α) (h : ∀ x, p x = true → q x = true) :
    l.countP p ≤ l.countP q := by
  induction l with
  | nil => simp
  | cons a t ih =>
    simp only [List.countP_cons]
    have := h a
    cases hp : p a <;> cases hq : q a <;> simp_all <;> omega

theorem inv_unbounded {c : Cfg} {tr s} (h : Run c tr s) (hk : c.k = none) :
    s.held = 0 ∧ s.panicked = false ∧
      (s.fpc = .top ∨ s.fpc = .spawning false ∨ s.fpc = .waiting ∨ s.fpc = .ret) := by
  refine Run.inv (P := fun _ s => s.held = 0 ∧ s.panicked = false ∧
      (s.fpc = .top ∨ s.fpc = .spawning false ∨ s.fpc = .waiting ∨ s.fpc = .ret)) (by simp [C20.init]) ?_ h
  intro tr s l s' hr ih hst
  have hwg := inv_wg hr
  cases hst with
  | donePanic i p o hp hw ho h0 =>
    have := countP_pos_of_getElem? WPc.undone s.ws i p hw (doneOutcome_facts ho).1
    omega
  | _ => simp_all

theorem inv_cancelled {c : Cfg} {tr s} (h : Run c tr s) : s.cancelled = true ↔ Label.cancel ∈ tr := by
  refine Run.inv (P := fun tr s => s.cancelled = true ↔ Label.cancel ∈ tr) (by simp [C20.init]) ?_ h
  intro tr s l s' hr ih hst
  cases hst <;> simp_all

/-- `f` holds of worker `i` (false when there is no such worker) -/
def atL (ws : List WPc) (i : Nat) (f : WPc → Bool) : Bool :=
  match ws[i]? with
  | some p => f p
  | none => false

abbrev State.at (s : State) (i : Nat) (f : WPc → Bool) : Bool := atL s.ws i f

theorem atL_append (ws : List WPc) (x : WPc) (i : Nat) (f : WPc → Bool) (hx : f x = false) :
    atL (ws ++ [x]) i f = atL ws i f := by
  unfold atL
  by_cases hlt : i < ws.length
  · rw [List.getElem?_append_left hlt]
  · have h1 : ws[i]? = none := List.getElem?_eq_none (by omega)
    rw [h1, List.getElem?_append_right (by omega)]
    cases hi : i - ws.length with
    | zero => simp [hx]
    | succ n => simp

theorem atL_append_new (ws : List WPc) (x : WPc) (f : WPc → Bool) :
    atL (ws ++ [x]) ws.length f = f x := by
  unfold atL
  simp

theorem atL_set (ws : List WPc) (j : Nat) (a x : WPc) (i : Nat) (f : WPc → Bool) (hw : ws[j]? = some x) :
    atL (ws.set j a) i f = if j = i then f a else atL ws i f := by
  unfold atL
  have hlt : j < ws.length := by
    rcases Nat.lt_or_ge j ws.length with h | h
    · exact h
    · have : ws[j]? = none := List.getElem?_eq_none h
      simp [this] at hw
  rw [List.getElem?_set]
  by_cases hji : j = i
  · subst hji; simp [hlt]
  · simp [hji]

theorem atL_of_getElem? (ws : List WPc) (i : Nat) (x : WPc) (f : WPc → Bool) (hw : ws[i]? = some x) :
    atL ws i f = f x := by
  unfold atL; rw [hw]

theorem atL_ge (ws : List WPc) (i : Nat) (f : WPc → Bool) (h : ws.length ≤ i) : atL ws i f = false := by
  unfold atL; rw [List.getElem?_eq_none h]

theorem atL_set_same (ws : List WPc) (j : Nat) (a x : WPc) (i : Nat) (f : WPc → Bool) (hw : ws[j]? = some x)
    (hf : f a = f x) : atL (ws.set j a) i f = atL ws i f := by
  rw [atL_set ws j a x i f hw]
  by_cases hji : j = i
  · subst hji; simp [atL_of_getElem? ws j x f hw, hf]
  · simp [hji]

/-! ### every input starts at most one callback -/

theorem inv_start_count {c : Cfg} {tr s} (h : Run c tr s) (i : Nat) :
    tr.count (.start i) = (s.at i WPc.started).toNat := by
  refine Run.inv (P := fun tr s => tr.count (.start i) = (s.at i WPc.started).toNat)
    (by simp [C20.init, atL]) ?_ h
  intro tr s l s' hr ih hst
  rw [List.count_append, ih]
  cases hst with
  | start j hp hw =>
    simp only [State.at]
    rw [atL_set s.ws j .running _ i _ hw]
    by_cases hji : j = i
    · subst hji; simp [atL_of_getElem? s.ws j _ _ hw, WPc.started]
    · simp [hji]
  | finish j o hp hw => simp [atL_set_same s.ws j (.fin o) _ i WPc.started hw (by simp [WPc.started])]
  | markBrk j hp hw => simp [atL_set_same s.ws j (.marked .brk) _ i WPc.started hw (by simp [WPc.started])]
  | markExc j hp hw => simp [atL_set_same s.ws j (.marked .exc) _ i WPc.started hw (by simp [WPc.started])]
  | done j p o hp hw ho h0 =>
    simp [atL_set_same s.ws j (.doneW o) _ i WPc.started hw (by rw [(doneOutcome_facts ho).2.2.2.1]; rfl)]
  | release j o K hp hk hw h0 => simp [atL_set_same s.ws j (.exited o) _ i WPc.started hw (by simp [WPc.started])]
  | skip1 => simp [atL_append s.ws .skipped i WPc.started rfl]
  | acqErrSkip => simp [atL_append s.ws .skipped i WPc.started rfl]
  | frel => simp [atL_append s.ws .skipped i WPc.started rfl]
  | spawn => simp [atL_append s.ws .spawned i WPc.started rfl]
  | _ => simp

/-! ### a finished callback's outcome is remembered by its worker -/

/-- worker's callback ended with outcome `o` -/
def WPc.hasOutcome (o : Outcome) (p : WPc) : Bool := decide (p.outcome = some o)

theorem inv_finish_count {c : Cfg} {tr s} (h : Run c tr s) (i : Nat) (o : Outcome) :
    tr.count (.finish i o) = (s.at i (WPc.hasOutcome o)).toNat := by
  refine Run.inv (P := fun tr s => tr.count (.finish i o) = (s.at i (WPc.hasOutcome o)).toNat)
    (by simp [C20.init, atL]) ?_ h
  intro tr s l s' hr ih hst
  rw [List.count_append, ih]
  cases hst with
  | finish j o' hp hw =>
    simp only [State.at]
    rw [atL_set s.ws j (.fin o') _ i _ hw]
    by_cases hji : j = i
    · subst hji
      by_cases hoo : o' = o
      · subst hoo; simp [atL_of_getElem? s.ws j _ _ hw, WPc.hasOutcome, WPc.outcome]
      · simp [atL_of_getElem? s.ws j _ _ hw, WPc.hasOutcome, WPc.outcome, hoo]
    · simp [hji]
  | start j hp hw => simp [atL_set_same s.ws j .running _ i (WPc.hasOutcome o) hw (by simp [WPc.hasOutcome, WPc.outcome])]
  | markBrk j hp hw => simp [atL_set_same s.ws j (.marked .brk) _ i (WPc.hasOutcome o) hw (by simp [WPc.hasOutcome, WPc.outcome])]
  | markExc j hp hw => simp [atL_set_same s.ws j (.marked .exc) _ i (WPc.hasOutcome o) hw (by simp [WPc.hasOutcome, WPc.outcome])]
  | done j p o' hp hw ho h0 =>
    simp [atL_set_same s.ws j (.doneW o') _ i (WPc.hasOutcome o) hw
      (by unfold WPc.hasOutcome; rw [(doneOutcome_facts ho).2.2.2.2]; rfl)]
  | release j o' K hp hk hw h0 => simp [atL_set_same s.ws j (.exited o') _ i (WPc.hasOutcome o) hw (by simp [WPc.hasOutcome, WPc.outcome])]
  | skip1 => simp [atL_append s.ws .skipped i (WPc.hasOutcome o) rfl]
  | acqErrSkip => simp [atL_append s.ws .skipped i (WPc.hasOutcome o) rfl]
  | frel => simp [atL_append s.ws .skipped i (WPc.hasOutcome o) rfl]
  | spawn => simp [atL_append s.ws .spawned i (WPc.hasOutcome o) rfl]
  | _ => simp

end C20
