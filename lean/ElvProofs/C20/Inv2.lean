import ElvProofs.C20.Inv
/-! More invariants of `peach`: exceptions, return, skipping, outputs. -/
namespace C20

/-- the worker's exception has been merged into `err` -/
def WPc.erred : WPc → Bool
  | .marked .exc => true
  | .doneW .exc => true
  | .exited .exc => true
  | _ => false

theorem erred_done {p : WPc} {o : Outcome} (h : p.doneOutcome = some o) : WPc.erred (.doneW o) = p.erred := by
  cases p with
  | fin o' => cases o' <;> simp [WPc.doneOutcome] at h <;> subst h <;> rfl
  | marked o' => simp [WPc.doneOutcome] at h; subst h; cases o' <;> rfl
  | _ => simp [WPc.doneOutcome] at h

theorem inv_err_count {c : Cfg} {tr s} (h : Run c tr s) (i : Nat) :
    s.err.count i = (s.at i WPc.erred).toNat := by
  refine Run.inv (P := fun _ s => s.err.count i = (s.at i WPc.erred).toNat)
    (by simp [C20.init, atL]) ?_ h
  intro tr s l s' hr ih hst
  cases hst with
  | markExc j hp hw =>
    simp only [State.at, List.count_append, ih]
    rw [atL_set s.ws j (.marked .exc) _ i _ hw]
    by_cases hji : j = i
    · subst hji; simp [atL_of_getElem? s.ws j _ _ hw, WPc.erred]
    · simp [hji]
  | finish j o' hp hw => simp [ih, atL_set_same s.ws j (.fin o') _ i WPc.erred hw (by simp [WPc.erred])]
  | start j hp hw => simp [ih, atL_set_same s.ws j .running _ i WPc.erred hw (by simp [WPc.erred])]
  | markBrk j hp hw => simp [ih, atL_set_same s.ws j (.marked .brk) _ i WPc.erred hw (by simp [WPc.erred])]
  | done j p o' hp hw ho h0 => simp [ih, atL_set_same s.ws j (.doneW o') _ i WPc.erred hw (erred_done ho)]
  | release j o' K hp hk hw h0 =>
    simp [ih, atL_set_same s.ws j (.exited o') _ i WPc.erred hw (by cases o' <;> simp [WPc.erred])]
  | skip1 => simp [ih, atL_append s.ws .skipped i WPc.erred rfl]
  | acqErrSkip => simp [ih, atL_append s.ws .skipped i WPc.erred rfl]
  | frel => simp [ih, atL_append s.ws .skipped i WPc.erred rfl]
  | spawn => simp [ih, atL_append s.ws .spawned i WPc.erred rfl]
  | _ => simp [ih]

/-! ### after `wg.Wait()` returned nothing is in flight; all inputs were consumed -/

theorem inv_ret {c : Cfg} {tr s} (h : Run c tr s) :
    (s.fpc = .ret → s.wg = 0) ∧ (s.fpc = .waiting ∨ s.fpc = .ret → s.ws.length = c.n) := by
  refine Run.inv (P := fun _ s => (s.fpc = .ret → s.wg = 0) ∧ (s.fpc = .waiting ∨ s.fpc = .ret → s.ws.length = c.n))
    (by simp [C20.init]) ?_ h
  intro tr s l s' hr ih hst
  have hwg := inv_wg hr
  cases hst with
  | done j p o' hp hw ho h0 =>
    refine ⟨fun hf => absurd (ih.1 hf) h0, fun hf => ?_⟩
    simpa using ih.2 hf
  | acqOk K hp hk hpc hlt => cases hr : c.recheck <;> simp_all
  | chk2 b hp hpc hb => cases b <;> simp_all
  | _ => simp_all

/-! ### outputs -/

theorem outsOf_append (a b : List Label) : outsOf (a ++ b) = outsOf a ++ outsOf b := by
  induction a with
  | nil => rfl
  | cons x t ih => cases x <;> simp [outsOf, ih]

theorem startsOf_append (a b : List Label) : startsOf (a ++ b) = startsOf a ++ startsOf b := by
  induction a with
  | nil => rfl
  | cons x t ih => cases x <;> simp [startsOf, ih]

theorem inv_outs {c : Cfg} {tr s} (h : Run c tr s) : s.outs = outsOf tr := by
  refine Run.inv (P := fun tr s => s.outs = outsOf tr) (by simp [C20.init, outsOf]) ?_ h
  intro tr s l s' hr ih hst
  rw [outsOf_append]
  cases hst <;> simp_all [outsOf]

theorem started_mono {c : Cfg} {s s' : State} {l} (hst : Step c s l s') (i : Nat)
    (h : s.at i WPc.started = true) : s'.at i WPc.started = true := by
  cases hst with
  | start j hp hw =>
    simp only [State.at]; rw [atL_set s.ws j .running _ i _ hw]; split <;> simp_all [WPc.started]
  | finish j o' hp hw => simpa [atL_set_same s.ws j (.fin o') _ i WPc.started hw (by simp [WPc.started])] using h
  | markBrk j hp hw => simpa [atL_set_same s.ws j (.marked .brk) _ i WPc.started hw (by simp [WPc.started])] using h
  | markExc j hp hw => simpa [atL_set_same s.ws j (.marked .exc) _ i WPc.started hw (by simp [WPc.started])] using h
  | done j p o' hp hw ho h0 =>
    simpa [atL_set_same s.ws j (.doneW o') _ i WPc.started hw (by rw [(doneOutcome_facts ho).2.2.2.1]; rfl)] using h
  | release j o' K hp hk hw h0 => simpa [atL_set_same s.ws j (.exited o') _ i WPc.started hw (by simp [WPc.started])] using h
  | skip1 => simpa [atL_append s.ws .skipped i WPc.started rfl] using h
  | acqErrSkip => simpa [atL_append s.ws .skipped i WPc.started rfl] using h
  | frel => simpa [atL_append s.ws .skipped i WPc.started rfl] using h
  | spawn => simpa [atL_append s.ws .spawned i WPc.started rfl] using h
  | _ => simpa using h

theorem outs_step {c : Cfg} {s s' : State} {l} (hst : Step c s l s') (i v : Nat) (hm : (i, v) ∈ s'.outs) :
    (i, v) ∈ s.outs ∨ s.ws[i]? = some .running := by
  cases hst <;> simp_all
  rename_i hw
  rcases hm with hm | ⟨rfl, rfl⟩
  · exact Or.inl hm
  · exact Or.inr hw

theorem inv_outs_started {c : Cfg} {tr s} (h : Run c tr s) :
    ∀ i v, (i, v) ∈ s.outs → s.at i WPc.started = true := by
  refine Run.inv (P := fun _ s => ∀ i v, (i, v) ∈ s.outs → s.at i WPc.started = true)
    (by simp [C20.init]) ?_ h
  intro tr s l s' hr ih hst i v hm
  rcases outs_step hst i v hm with h1 | h1
  · exact started_mono hst i (ih i v h1)
  · exact started_mono hst i (by simp [State.at, atL_of_getElem? s.ws i _ _ h1, WPc.started])

end C20
