import ElvProofs.C20.Inv4
/-! Positional invariants of the one-worker case without an interrupt: the workers form a prefix of
callbacks that ran to the end without break/failure, then at most one more worker, then only
skipped inputs.  These assemble the counting invariants of `Inv4` into the list equality with
`eachRun` (`ElvProofs/C20/Each.lean`). -/
namespace C20

theorem nc_of_step {c : Cfg} {s s' : State} {l} (hst : Step c s l s') (h : s'.cancelled = false) :
    s.cancelled = false := by
  cases hst <;> simp_all

theorem good_of_nc {c : Cfg} {s : State} (h : s.cancelled = false) : Good c s := Or.inr h

theorem cnt_eq_zero {p : WPc → Bool} {l : List WPc} (h : cnt p l = 0) {i : Nat} {x : WPc}
    (hx : l[i]? = some x) : p x = false := by
  cases hp : p x with
  | false => rfl
  | true => have := cnt_pos p l i x hx hp; omega

/-- Without an interrupt an input is skipped only when `broken` is set. -/
theorem inv_skip_broken {c : Cfg} {tr s} (h : Run c tr s) :
    s.cancelled = false → 0 < cnt WPc.isSkipped s.ws → s.broken = true := by
  refine Run.inv (P := fun _ s => s.cancelled = false → 0 < cnt WPc.isSkipped s.ws → s.broken = true)
    (by simp [C20.init, cnt_nil]) ?_ h
  intro tr s l s' hr ih hst hnc' hpos
  have hnc := nc_of_step hst hnc'
  have ih := ih hnc
  have hfrel := (inv_broken hr).2.2
  cases hst with
  | start i hp hw => have := cnt_set WPc.isSkipped s.ws i .running _ hw; simp_all [WPc.isSkipped]
  | finish i o hp hw => have := cnt_set WPc.isSkipped s.ws i (.fin o) _ hw; simp_all [WPc.isSkipped]
  | markBrk i hp hw => rfl
  | markExc i hp hw => rfl
  | done i p o hp hw ho h0 =>
    have := cnt_set WPc.isSkipped s.ws i (.doneW o) _ hw
    have hps : p.isSkipped = false := by
      cases p <;> simp_all [WPc.doneOutcome, WPc.isSkipped]
    simp_all [WPc.isSkipped]
  | release i o K hp hk hw h0 => have := cnt_set WPc.isSkipped s.ws i (.exited o) _ hw; simp_all [WPc.isSkipped]
  | skip1 hp hpc hn hb => exact hb
  | acqErrSkip hp hpc hcan hca => simp_all
  | frel hp hpc h0 => exact hfrel hpc
  | spawn p hp hpc => simp_all [cnt_append_one, WPc.isSkipped]
  | _ => simp_all

theorem badMarked_le_badOutcome (l : List WPc) : cnt WPc.badMarked l ≤ cnt WPc.badOutcome l :=
  cnt_le_of_imp _ _ _ (by intro x hx; cases x <;> simp_all [WPc.badMarked, WPc.badOutcome])

theorem getElem?_append_one {x y : WPc} {ws : List WPc} {j : Nat} (h : (ws ++ [x])[j]? = some y) :
    ws[j]? = some y ∨ (j = ws.length ∧ y = x) := by
  by_cases hlt : j < ws.length
  · rw [List.getElem?_append_left hlt] at h; exact Or.inl h
  · rw [List.getElem?_append_right (by omega)] at h
    cases hd : j - ws.length with
    | zero => simp [hd] at h; exact Or.inr ⟨by omega, h.symm⟩
    | succ n => simp [hd] at h

/-- `ws` has the "sequential" shape below index `j`: every earlier worker has exited after a
callback that ended without break/failure. -/
def SeqBefore (ws : List WPc) (j : Nat) : Prop :=
  ∀ i, i < j → ∃ o, ws[i]? = some (.exited o) ∧ o.bad = false

theorem SeqBefore.set {ws : List WPc} {j j0 : Nat} {a x : WPc} (h : SeqBefore ws j)
    (hw : ws[j0]? = some x) (hx : ∀ o, x ≠ .exited o) : SeqBefore (ws.set j0 a) j := by
  intro i hi
  obtain ⟨o, ho, hb⟩ := h i hi
  refine ⟨o, ?_, hb⟩
  rw [List.getElem?_set]
  by_cases hji : j0 = i
  · subst hji; rw [hw] at ho; cases ho; exact absurd rfl (hx o)
  · simp [hji, ho]

theorem SeqBefore.append {ws : List WPc} {j : Nat} {x : WPc} (h : SeqBefore ws j) :
    SeqBefore (ws ++ [x]) j := by
  intro i hi
  obtain ⟨o, ho, hb⟩ := h i hi
  refine ⟨o, ?_, hb⟩
  rw [List.getElem?_append_left (getElem?_lt ho)]; exact ho

/-- One worker, no interrupt: whenever the input `j` was not skipped, every earlier input's
callback has run to its end without break/failure and its worker has exited. -/
theorem inv_one_prefix {c : Cfg} {tr s} (h : Run c tr s) (hk : c.k = some 1) (hre : c.recheck = true) :
    s.cancelled = false → ∀ j x, s.ws[j]? = some x → x ≠ .skipped → SeqBefore s.ws j := by
  refine Run.inv (P := fun _ s => s.cancelled = false → ∀ j x, s.ws[j]? = some x → x ≠ .skipped →
    SeqBefore s.ws j) (by simp [C20.init]) ?_ h
  intro tr s l s' hr ih hst hnc' j x hj hx
  have hnc := nc_of_step hst hnc'
  have hg : Good c s := good_of_nc hnc
  have ih := ih hnc
  -- a `set` step: the replaced worker was neither skipped nor exited
  have hset : ∀ j0 a y, s.ws[j0]? = some y → y ≠ .skipped → (∀ o, y ≠ .exited o) →
      (s.ws.set j0 a)[j]? = some x → SeqBefore (s.ws.set j0 a) j := by
    intro j0 a y hw hy1 hy2 hj
    rw [List.getElem?_set] at hj
    by_cases hji : j0 = j
    · subst hji; exact (ih j0 y hw hy1).set hw hy2
    · simp [hji] at hj; exact (ih j x hj hx).set hw hy2
  have happ : ∀ y, y = WPc.skipped → (s.ws ++ [y])[j]? = some x → SeqBefore (s.ws ++ [y]) j := by
    intro y hy hj
    rcases getElem?_append_one hj with h1 | ⟨_, h2⟩
    · exact (ih j x h1 hx).append
    · exact absurd (h2.trans hy) hx
  cases hst with
  | start j0 hp hw => exact hset j0 _ _ hw (by simp) (by simp) hj
  | finish j0 o hp hw => exact hset j0 _ _ hw (by simp) (by simp) hj
  | markBrk j0 hp hw => exact hset j0 _ _ hw (by simp) (by simp) hj
  | markExc j0 hp hw => exact hset j0 _ _ hw (by simp) (by simp) hj
  | done j0 p o hp hw ho h0 =>
    exact hset j0 _ _ hw (by cases p <;> simp_all [WPc.doneOutcome])
      (by cases p <;> simp_all [WPc.doneOutcome]) hj
  | release j0 o K hp hk' hw h0 => exact hset j0 _ _ hw (by simp) (by simp) hj
  | skip1 hp hpc hn hb => exact happ _ rfl hj
  | acqErrSkip hp hpc hcan hca => exact happ _ rfl hj
  | frel hp hpc h0 => exact happ _ rfl hj
  | spawn p hp hpc =>
    rcases getElem?_append_one hj with h1 | ⟨h2, _⟩
    · exact (ih j x h1 hx).append
    · -- the new worker: the feeder holds the only permit, nothing has ended badly
      subst h2
      obtain ⟨hp1, hp2, hp3, hp4⟩ := permits_cnt hr hk hg
      have hpt : p = true := by
        cases p with
        | true => rfl
        | false => exact absurd hpc hp3
      subst hpt
      rw [hpc] at hp1; simp [FPc.perm] at hp1
      have hh : cnt WPc.holding s.ws = 0 := by omega
      have hq := inv_one_quiet hr hk hre hg (Or.inr hpc)
      have hbm : cnt WPc.badMarked s.ws = 0 := by have := badMarked_le_badOutcome s.ws; omega
      have hnb : s.broken = false := by
        cases hb : s.broken with
        | false => rfl
        | true => have := (inv_broken hr).1 hb; omega
      have hns : cnt WPc.isSkipped s.ws = 0 := by
        rcases Nat.eq_zero_or_pos (cnt WPc.isSkipped s.ws) with h0 | h0
        · exact h0
        · have := inv_skip_broken hr hnc h0; simp [hnb] at this
      intro i hi
      have hlt : i < s.ws.length := hi
      have hgi : s.ws[i]? = some s.ws[i] := List.getElem?_eq_getElem hlt
      have h1 := cnt_eq_zero hh hgi
      have h2 := cnt_eq_zero hq hgi
      have h3 := cnt_eq_zero hns hgi
      rw [List.getElem?_append_left hlt, hgi]
      cases hy : s.ws[i] with
      | exited o => exact ⟨o, rfl, by simpa [hy, WPc.badOutcome] using h2⟩
      | _ => simp_all [WPc.holding, WPc.isSkipped]
  | _ => exact ih j x hj hx

/-- One worker, no interrupt: the outputs arrive grouped by callback, in input order. -/
theorem inv_one_outs_sorted {c : Cfg} {tr s} (h : Run c tr s) (hk : c.k = some 1) (hre : c.recheck = true) :
    s.cancelled = false → s.outs.Pairwise (fun a b => a.1 ≤ b.1) := by
  refine Run.inv (P := fun _ s => s.cancelled = false → s.outs.Pairwise (fun a b => a.1 ≤ b.1))
    (by simp [C20.init]) ?_ h
  intro tr s l s' hr ih hst hnc'
  have hnc := nc_of_step hst hnc'
  have ih := ih hnc
  cases hst with
  | out i v hp hw =>
    simp only [List.pairwise_append, List.pairwise_cons, List.not_mem_nil, false_implies, implies_true,
      List.Pairwise.nil, and_self, List.mem_cons, or_false, true_and]
    refine ⟨ih, ?_⟩
    intro a ha b hb; subst hb
    rcases Nat.lt_or_ge i a.1 with hlt | hge
    · exfalso
      have hst := inv_outs_started hr a.1 a.2 ha
      unfold State.at atL at hst
      cases hg : s.ws[a.1]? with
      | none => simp [hg] at hst
      | some y =>
        simp [hg] at hst
        have hy : y ≠ .skipped := by intro h; subst h; simp [WPc.started] at hst
        obtain ⟨o, ho, _⟩ := inv_one_prefix hr hk hre hnc a.1 y hg hy i hlt
        rw [hw] at ho; cases ho
    · exact hge
  | _ => exact ih

end C20
