import ElvProofs.C20.Each
import ElvProofs.C20.RunParallel
import ElvProofs.C20.Replay
/-!
C20 — peach and run-parallel run each task once; one-worker peach equals each.

Every theorem quantifies over ALL executions `Run c tr s` of the transition
system `C20.step` (ElvModel/C20/Model.lean): any number of inputs, any bound,
any interleaving of feeder, workers and the interrupt, any callback behaviour.
-/
open C20

/-- Each input starts at most one callback. -/
theorem C20_start_at_most_once (c : Cfg) (tr : List Label) (s : State) (h : Run c tr s) (i : Nat) :
    tr.count (.start i) ≤ 1 := by
  rw [inv_start_count h i]; cases s.at i WPc.started <;> simp

/-- The code with the fix never hits the semaphore / WaitGroup panics; neither does the
unchanged code as long as the evaluation is not interrupted. -/
theorem C20_never_panics (c : Cfg) (tr : List Label) (s : State) (h : Run c tr s)
    (hg : c.checkAcq = true ∨ Label.cancel ∉ tr) : s.panicked = false := by
  have hgood : Good c s := by
    rcases hg with hg | hg
    · exact Or.inl hg
    · right
      cases hc : s.cancelled with
      | false => rfl
      | true => exact absurd ((inv_cancelled h).mp hc) hg
  cases hk : c.k with
  | none => exact (inv_unbounded h hk).2.1
  | some K => exact (inv_permits h hk hgood).2.2.2

/-- Never more callbacks at once than `&num-workers` (for the fixed code also while interrupted). -/
theorem C20_running_le_bound (c : Cfg) (K : Nat) (tr : List Label) (s : State) (h : Run c tr s)
    (hk : c.k = some K) (hg : c.checkAcq = true ∨ Label.cancel ∉ tr) : s.running ≤ K := by
  have hgood : Good c s := by
    rcases hg with hg | hg
    · exact Or.inl hg
    · right
      cases hc : s.cancelled with
      | false => rfl
      | true => exact absurd ((inv_cancelled h).mp hc) hg
  obtain ⟨h1, h2, _, _⟩ := inv_permits h hk hgood
  have h3 : s.ws.countP WPc.isRunning ≤ s.ws.countP WPc.holding :=
    countP_le_of_imp _ _ _ (by intro x hx; cases x <;> simp_all [WPc.isRunning, WPc.holding])
  unfold State.running
  omega

/-- Exactly one callback per input when no callback breaks or fails (and `Acquire` never failed,
which it cannot without an interrupt). -/
theorem C20_exactly_once (c : Cfg) (tr : List Label) (s : State) (h : Run c tr s) (hret : s.fpc = .ret)
    (hok : ∀ i o, Label.finish i o ∈ tr → o.bad = false) (hacq : Label.acqErr ∉ tr) :
    ∀ i, i < c.n → tr.count (.start i) = 1 := by
  intro i hi
  obtain ⟨_, hskip⟩ := inv_noskip h hok hacq
  have hlen := (inv_ret h).2 (Or.inr hret)
  have hwg0 := (inv_ret h).1 hret
  have hwg := inv_wg h
  have hlt : i < s.ws.length := by omega
  rw [inv_start_count h i]
  have hget : s.ws[i]? = some s.ws[i] := List.getElem?_eq_getElem hlt
  simp only [State.at, atL_of_getElem? s.ws i _ _ hget]
  have hm : s.ws[i] ∈ s.ws := List.getElem_mem hlt
  have h1 : WPc.isSkipped s.ws[i] = false := by
    have := (List.countP_eq_zero (p := WPc.isSkipped)).mp (by simpa [cnt] using hskip) _ hm
    simpa using this
  have h2 : WPc.undone s.ws[i] = false := by
    have := (List.countP_eq_zero (p := WPc.undone)).mp (by omega) _ hm
    simpa using this
  cases hp : s.ws[i] <;> simp_all [WPc.isSkipped, WPc.undone, WPc.started]

/-- The output is exactly what the callbacks wrote, and only started callbacks write. -/
theorem C20_outputs_union (c : Cfg) (tr : List Label) (s : State) (h : Run c tr s) :
    s.outs = outsOf tr ∧ ∀ i v, (i, v) ∈ s.outs → tr.count (.start i) = 1 := by
  refine ⟨inv_outs h, fun i v hm => ?_⟩
  rw [inv_start_count h i, inv_outs_started h i v hm]; rfl

/-- `peach` returns only after every started callback has finished: at return no callback is
running and every started callback has a `finish` in the trace. -/
theorem C20_return_after_all_finished (c : Cfg) (tr : List Label) (s : State) (h : Run c tr s)
    (hret : s.fpc = .ret) :
    s.running = 0 ∧ ∀ i, 0 < tr.count (.start i) → ∃ o, Label.finish i o ∈ tr := by
  have hwg0 := (inv_ret h).1 hret
  have hwg := inv_wg h
  have hund : ∀ x ∈ s.ws, WPc.undone x = false := by
    intro x hx
    have := (List.countP_eq_zero (p := WPc.undone)).mp (by omega) x hx
    simpa using this
  constructor
  · unfold State.running
    apply (List.countP_eq_zero).mpr
    intro x hx hr
    have := hund x hx
    cases x <;> simp_all [WPc.isRunning, WPc.undone]
  · intro i hpos
    rw [inv_start_count h i] at hpos
    unfold State.at atL at hpos
    cases hg : s.ws[i]? with
    | none => simp [hg] at hpos
    | some p =>
      simp [hg] at hpos
      have hu := hund p (List.mem_of_getElem? hg)
      cases p with
      | doneW o => exact ⟨o, mem_finish_of_at h i o _ hg rfl⟩
      | exited o => exact ⟨o, mem_finish_of_at h i o _ hg rfl⟩
      | _ => simp_all [WPc.started, WPc.undone]

/-- Every callback exception is in the returned error, exactly once, and nothing else is. -/
theorem C20_all_exceptions_reported (c : Cfg) (tr : List Label) (s : State) (h : Run c tr s)
    (hret : s.fpc = .ret) (i : Nat) :
    (Label.finish i .exc ∈ tr ↔ i ∈ s.err) ∧ s.err.count i ≤ 1 := by
  have hwg0 := (inv_ret h).1 hret
  have hwg := inv_wg h
  have hund : ∀ x ∈ s.ws, WPc.undone x = false := by
    intro x hx
    have := (List.countP_eq_zero (p := WPc.undone)).mp (by omega) x hx
    simpa using this
  have he := inv_err_count h i
  have hf := inv_finish_count h i .exc
  constructor
  · rw [← List.count_pos_iff, ← List.count_pos_iff, he, hf]
    unfold State.at atL
    cases hg : s.ws[i]? with
    | none => simp
    | some p =>
      have hu := hund p (List.mem_of_getElem? hg)
      cases p with
      | doneW o => cases o <;> simp [WPc.hasOutcome, WPc.outcome, WPc.erred]
      | exited o => cases o <;> simp [WPc.hasOutcome, WPc.outcome, WPc.erred]
      | skipped => simp [WPc.hasOutcome, WPc.outcome, WPc.erred]
      | _ => simp_all [WPc.undone]
  · rw [he]; cases s.at i WPc.erred <;> simp

/-! ### `&num-workers=1` behaves like `each` (fixed code) -/

private theorem good_of {c : Cfg} {tr s} (h : Run c tr s) (hg : c.checkAcq = true ∨ Label.cancel ∉ tr) :
    Good c s := by
  rcases hg with hg | hg
  · exact Or.inl hg
  · right
    cases hc : s.cancelled with
    | false => rfl
    | true => exact absurd ((inv_cancelled h).mp hc) hg

/-- One worker: whenever a callback is about to start, no callback has ended with `break` or a
failure — nothing is started after a break/failure, exactly as in `each`. -/
theorem C20_one_worker_stops_after_bad (c : Cfg) (tr : List Label) (s s' : State) (i : Nat)
    (h : Run c tr s) (hk : c.k = some 1) (hre : c.recheck = true)
    (hg : c.checkAcq = true ∨ Label.cancel ∉ tr) (hst : step c s (.start i) = some s') :
    ∀ j o, Label.finish j o ∈ tr → o.bad = false := by
  intro j o hm
  have hgood := good_of h hg
  cases step_spec hst with
  | start _ hp hw =>
    have hq := inv_one_quiet h hk hre hgood (Or.inl (cnt_pos WPc.pending s.ws i _ hw rfl))
    obtain ⟨x, hx, hxo⟩ := finish_at h j o hm
    cases hb : o.bad with
    | false => rfl
    | true =>
      have : WPc.badOutcome x = true := by cases x <;> simp_all [WPc.outcome, WPc.badOutcome]
      have := cnt_pos WPc.badOutcome s.ws j x hx this
      omega

/-- One worker: whenever a callback is about to start, nothing is running and every callback
started earlier has finished — callbacks never overlap, so outputs cannot interleave. -/
theorem C20_one_worker_no_overlap (c : Cfg) (tr : List Label) (s s' : State) (i : Nat)
    (h : Run c tr s) (hk : c.k = some 1) (hg : c.checkAcq = true ∨ Label.cancel ∉ tr)
    (hst : step c s (.start i) = some s') :
    s.running = 0 ∧ ∀ j, Label.start j ∈ tr → ∃ o, Label.finish j o ∈ tr := by
  have hgood := good_of h hg
  obtain ⟨hp1, hp2, hp3, hp4⟩ := permits_cnt h hk hgood
  cases step_spec hst with
  | start _ hp hw =>
    constructor
    · have h1 := cnt_add_le WPc.isSpawned WPc.isRunning WPc.holding s.ws
        (by intro x hx; cases x <;> simp_all [WPc.isSpawned, WPc.holding])
        (by intro x hx; cases x <;> simp_all [WPc.isRunning, WPc.holding])
        (by intro x h1 h2; cases x <;> simp_all [WPc.isSpawned, WPc.isRunning])
      have h2 := cnt_pos WPc.isSpawned s.ws i _ hw rfl
      unfold State.running
      have : cnt WPc.isRunning s.ws = 0 := by omega
      exact this
    · intro j hm
      have hj := start_at h j hm
      unfold atL at hj
      cases hgj : s.ws[j]? with
      | none => simp [hgj] at hj
      | some x =>
        simp [hgj] at hj
        have hne : i ≠ j := by
          intro hij; subst hij; rw [hw] at hgj; cases hgj; simp [WPc.started] at hj
        cases hh : WPc.holding x with
        | true =>
          have := cnt_two WPc.holding s.ws i j _ _ hw hgj hne rfl hh rfl
          omega
        | false =>
          cases x with
          | exited o => exact ⟨o, mem_finish_of_at h j o _ hgj rfl⟩
          | _ => simp_all [WPc.holding, WPc.started]

theorem mem_startsOf (tr : List Label) (j : Nat) : j ∈ startsOf tr ↔ Label.start j ∈ tr := by
  induction tr with
  | nil => simp [startsOf]
  | cons x t ih => cases x <;> simp [startsOf, ih]

/-- One worker: callbacks start in input order. -/
theorem C20_one_worker_in_order (c : Cfg) (tr : List Label) (s : State) (h : Run c tr s)
    (hk : c.k = some 1) (hg : c.checkAcq = true ∨ Label.cancel ∉ tr) :
    (startsOf tr).Pairwise (· < ·) := by
  have key : ∀ {tr s}, Run c tr s → Good c s → (startsOf tr).Pairwise (· < ·) := by
    intro tr s h
    refine Run.inv (P := fun tr s => Good c s → (startsOf tr).Pairwise (· < ·)) (by simp [startsOf]) ?_ h
    intro tr s l s' hr ih hst hg'
    have hgs := Good.of_step hst hg'
    have ih := ih hgs
    rw [startsOf_append]
    cases hst with
    | start i hp hw =>
      simp only [startsOf, List.pairwise_append, List.pairwise_cons, List.not_mem_nil, false_implies,
        implies_true, List.Pairwise.nil, and_self, List.mem_cons, or_false, true_and]
      refine ⟨ih, ?_⟩
      intro j hj b hb; rw [hb]
      exact inv_one_order hr hk hgs i j hw (start_at hr j ((mem_startsOf tr j).mp hj))
    | _ => simpa [startsOf] using ih
  exact key h (good_of h hg)

/-- One worker: at most one exception, like `each` (which stops at the first). -/
theorem C20_one_worker_single_exception (c : Cfg) (tr : List Label) (s : State) (h : Run c tr s)
    (hk : c.k = some 1) (hre : c.recheck = true) (hg : c.checkAcq = true ∨ Label.cancel ∉ tr) :
    s.err.length ≤ 1 := by
  have h1 := inv_one_bad h hk hre (good_of h hg)
  have h2 := inv_err_length h
  have h3 : cnt WPc.erred s.ws ≤ cnt WPc.badOutcome s.ws :=
    cnt_le_of_imp _ _ _ (by
      intro x hx
      cases x with
      | marked o => cases o <;> simp_all [WPc.erred, WPc.badOutcome, Outcome.bad]
      | doneW o => cases o <;> simp_all [WPc.erred, WPc.badOutcome, Outcome.bad]
      | exited o => cases o <;> simp_all [WPc.erred, WPc.badOutcome, Outcome.bad]
      | _ => simp [WPc.erred] at hx)
  omega

/-- The full one-worker statement: for a deterministic callback table `cb`, a completed
uninterrupted run of `peach &num-workers=1` whose callbacks behave as `cb` says has exactly the
observations of `each` (`eachRun`): same starts in the same order, same outputs in the same
order, same exceptions. -/
def C20_one_worker_eq_each_full : Prop :=
  ∀ (cb : Nat → List Nat × Outcome) (n : Nat) (tr : List Label) (s : State),
    Run { k := some 1, n := n } tr s → s.fpc = .ret → Label.cancel ∉ tr →
    (∀ i o, Label.finish i o ∈ tr → o = (cb i).2) →
    (∀ i, Label.start i ∈ tr → (outsOf tr).filter (·.1 = i) = (cb i).1.map (fun v => (i, v))) →
    ({ starts := startsOf tr, outs := s.outs, err := s.err } : EachObs) = eachRun cb n

/-- `peach &num-workers=1` IS `each`: over every interleaving of feeder and worker goroutines, a
completed uninterrupted one-worker run has exactly the observations of the sequential `each` —
the same callbacks started in the same order, the same outputs in the same order, the same
exception.  Assembled from the positional invariant `inv_one_prefix` (the workers are a prefix of
cleanly ended callbacks, at most one more, then only skipped inputs), `inv_one_outs_sorted`,
`inv_skip_broken`, `C20_one_worker_in_order` and the closed form `eachFrom_eq`. -/
theorem C20_one_worker_eq_each : C20_one_worker_eq_each_full := by
  intro cb n tr s h hret hnc hfin houts
  have hk : ({ k := some 1, n := n } : Cfg).k = some 1 := rfl
  have hre : ({ k := some 1, n := n } : Cfg).recheck = true := rfl
  have hcan : s.cancelled = false := by
    cases hc : s.cancelled with
    | false => rfl
    | true => exact absurd ((inv_cancelled h).mp hc) hnc
  have hlen : s.ws.length = n := (inv_ret h).2 (Or.inr hret)
  have hwg0 := (inv_ret h).1 hret
  have hwg := inv_wg h
  have hund : ∀ x ∈ s.ws, WPc.undone x = false := by
    intro x hx
    have := (List.countP_eq_zero (p := WPc.undone)).mp (by omega) x hx
    simpa using this
  have hpre := inv_one_prefix h hk hre hcan
  have hmemS : ∀ j, j ∈ startsOf tr ↔ atL s.ws j WPc.started = true := by
    intro j
    rw [mem_startsOf, ← List.count_pos_iff, inv_start_count h j]
    simp only [State.at]
    cases atL s.ws j WPc.started <;> simp
  have hord := C20_one_worker_in_order _ tr s h hk (Or.inl rfl)
  have hst_ns : ∀ j, atL s.ws j WPc.started = true →
      ∃ x, s.ws[j]? = some x ∧ x ≠ .skipped ∧ x.started = true := by
    intro j hj
    unfold atL at hj
    cases hg : s.ws[j]? with
    | none => simp [hg] at hj
    | some x =>
      simp [hg] at hj
      exact ⟨x, rfl, by intro hx; subst hx; simp [WPc.started] at hj, hj⟩
  have hclosed : ∀ j, j ∈ startsOf tr → ∀ i, i < j → i ∈ startsOf tr := by
    intro j hj i hij
    rw [hmemS] at hj ⊢
    obtain ⟨x, hx, hns, _⟩ := hst_ns j hj
    obtain ⟨o, ho, _⟩ := hpre j x hx hns i hij
    simp [atL, ho, WPc.started]
  have hrange := sorted_closed_eq_range (startsOf tr) hord hclosed
  generalize (startsOf tr).length = p at hrange
  have hmem : ∀ j, j < p ↔ atL s.ws j WPc.started = true := by
    intro j; rw [← hmemS, hrange, List.mem_range]
  -- every callback before the last started one ended without break/failure
  have hgoodpre : ∀ j, j + 1 < p → ∃ o, s.ws[j]? = some (.exited o) ∧ o.bad = false := by
    intro j hj
    obtain ⟨x, hx, hns, _⟩ := hst_ns (j + 1) ((hmem _).mp hj)
    exact hpre (j + 1) x hx hns j (by omega)
  have hF2 : ∀ j, 0 ≤ j → j + 1 < 0 + p → (cb j).2.bad = false := by
    intro j _ hj
    obtain ⟨o, ho, hb⟩ := hgoodpre j (by omega)
    rw [← hfin j o (mem_finish_of_at h j o _ ho rfl)]; exact hb
  have hF1 : p ≤ n := by
    rcases Nat.eq_zero_or_pos p with h0 | h0
    · omega
    · obtain ⟨x, hx, _, _⟩ := hst_ns (p - 1) ((hmem _).mp (by omega))
      have := getElem?_lt hx
      omega
  have hF3 : p < n → 0 < p ∧ (cb (0 + p - 1)).2.bad = true := by
    intro hpn
    have hlt : p < s.ws.length := by omega
    have hgp : s.ws[p]? = some s.ws[p] := List.getElem?_eq_getElem hlt
    have hnst : atL s.ws p WPc.started = false := by
      cases hb : atL s.ws p WPc.started with
      | false => rfl
      | true => have := (hmem p).mpr hb; omega
    have hu := hund _ (List.getElem_mem hlt)
    rw [atL_of_getElem? s.ws p _ _ hgp] at hnst
    have hsk : WPc.isSkipped s.ws[p] = true := by
      cases hy : s.ws[p] <;> simp_all [WPc.started, WPc.undone, WPc.isSkipped]
    have hbr := inv_skip_broken h hcan (cnt_pos WPc.isSkipped s.ws p _ hgp hsk)
    have hbm := (inv_broken h).1 hbr
    obtain ⟨x, hxm, hxb⟩ := List.countP_pos_iff.mp hbm
    obtain ⟨b, hb⟩ := List.mem_iff_getElem?.mp hxm
    have hxs : x.started = true := by cases x <;> simp_all [WPc.badMarked, WPc.started]
    have hbp : b < p := (hmem b).mpr (by rw [atL_of_getElem? s.ws b x _ hb]; exact hxs)
    have hbl : b = p - 1 := by
      rcases Nat.lt_or_ge (b + 1) p with h1 | h1
      · obtain ⟨o, ho, hob⟩ := hgoodpre b h1
        rw [hb] at ho; cases ho
        simp [WPc.badMarked, hob] at hxb
      · omega
    refine ⟨by omega, ?_⟩
    have hidx : 0 + p - 1 = b := by omega
    rw [hidx]
    cases x with
    | marked o => rw [← hfin b o (mem_finish_of_at h b o _ hb rfl)]; simpa [WPc.badMarked] using hxb
    | doneW o => rw [← hfin b o (mem_finish_of_at h b o _ hb rfl)]; simpa [WPc.badMarked] using hxb
    | exited o => rw [← hfin b o (mem_finish_of_at h b o _ hb rfl)]; simpa [WPc.badMarked] using hxb
    | _ => simp [WPc.badMarked] at hxb
  unfold eachRun
  rw [eachFrom_eq cb n 0 p hF1 hF2 hF3]
  have hstarts : startsOf tr = List.range' 0 p := by rw [hrange, List.range_eq_range']
  have houtsEq : s.outs = (List.range' 0 p).flatMap (fun j => (cb j).1.map (fun v => (j, v))) := by
    apply sorted_eq_flatMap _ p 0 s.outs (inv_one_outs_sorted h hk hre hcan)
    · intro x hx
      have := inv_outs_started h x.1 x.2 hx
      exact ⟨Nat.zero_le _, by have := (hmem x.1).mpr this; omega⟩
    · intro i _ hi
      have hsi : Label.start i ∈ tr := (mem_startsOf tr i).mp ((hmemS i).mpr ((hmem i).mp (by omega)))
      rw [inv_outs h]; exact houts i hsi
  have herrEq : s.err = (List.range' 0 p).filter (fun j => decide ((cb j).2 = .exc)) := by
    have hlen1 := C20_one_worker_single_exception _ tr s h hk hre (Or.inl rfl)
    apply sorted_ext
    · match hs : s.err, hlen1 with
      | [], _ => exact List.Pairwise.nil
      | [a], _ => simp
      | _ :: _ :: _, hl => simp at hl
    · rw [← List.range_eq_range']; exact List.pairwise_lt_range.filter _
    · intro i
      rw [← (C20_all_exceptions_reported _ tr s h hret i).1, List.mem_filter, ← List.range_eq_range',
        List.mem_range]
      constructor
      · intro hm
        obtain ⟨x, hx, hxo⟩ := finish_at h i .exc hm
        refine ⟨(hmem i).mpr ?_, by simp [← hfin i .exc hm]⟩
        rw [atL_of_getElem? s.ws i x _ hx]
        cases x <;> simp_all [WPc.outcome, WPc.started]
      · rintro ⟨hi, he⟩
        obtain ⟨x, hx, _, hxs⟩ := hst_ns i ((hmem i).mp hi)
        have hu := hund x (List.mem_of_getElem? hx)
        have he' : (cb i).2 = .exc := by simpa using he
        cases x with
        | doneW o => have := mem_finish_of_at h i o _ hx rfl; rw [hfin i o this, he'] at this; exact this
        | exited o => have := mem_finish_of_at h i o _ hx rfl; rw [hfin i o this, he'] at this; exact this
        | _ => simp_all [WPc.started, WPc.undone]
  rw [hstarts, houtsEq, herrEq]

/-! ### run-parallel -/

/-- `run-parallel` never trips the WaitGroup, and when it returns every function has been run
exactly once and has finished. -/
theorem C20_run_parallel_each_once (n : Nat) (tr : List RLabel) (s : RState) (h : RRun n tr s) :
    s.panicked = false ∧
      (s.returned = true → ∀ i, i < n → tr.count (.rstart i) = 1 ∧ ∃ o, RLabel.rfinish i o ∈ tr) := by
  refine ⟨rinv_nopanic h, fun hret i hi => ?_⟩
  have hinv : ∀ {tr s}, RRun n tr s → (s.returned = true → s.wg = 0) := by
    intro tr s h
    refine RRun.inv (P := fun _ s => s.returned = true → s.wg = 0) (by simp [rinit]) ?_ h
    intro tr s l s' hr ih hst
    cases hst <;> simp_all
  have hwg := hinv h hret
  obtain ⟨h1, h2, _, _⟩ := rinv_counts h
  have hall := (List.countP_eq_length (p := RPc.isDone) (l := s.ws)).mp (by omega)
  have hlt : i < s.ws.length := by omega
  have hget : s.ws[i]? = some s.ws[i] := List.getElem?_eq_getElem hlt
  have hd := hall _ (List.getElem_mem hlt)
  cases hp : s.ws[i] with
  | doneW o =>
    rw [hp] at hget
    constructor
    · rw [rinv_start_count h i, ratL_of_getElem? s.ws i _ _ hget]; rfl
    · refine ⟨o, List.count_pos_iff.mp ?_⟩
      rw [rinv_finish_count h i o, ratL_of_getElem? s.ws i _ _ hget]; simp [RPc.hasOutcome]
  | _ => simp [hp, RPc.isDone] at hd

/-- `run-parallel` reports all exceptions: the result (`MakePipelineError`) contains exactly the
(position, exception) pairs of the functions that did not end OK. -/
theorem C20_run_parallel_reports_all (n : Nat) (tr : List RLabel) (s : RState) (h : RRun n tr s)
    (hret : s.returned = true) (i : Nat) (o : Outcome) :
    (i, o) ∈ s.result ↔ (RLabel.rfinish i o ∈ tr ∧ o ≠ .ok) := by
  rw [result_mem]
  have hinv : ∀ {tr s}, RRun n tr s → (s.returned = true → s.wg = 0) := by
    intro tr s h
    refine RRun.inv (P := fun _ s => s.returned = true → s.wg = 0) (by simp [rinit]) ?_ h
    intro tr s l s' hr ih hst
    cases hst <;> simp_all
  have hwg := hinv h hret
  obtain ⟨h1, h2, _, _⟩ := rinv_counts h
  have hall := (List.countP_eq_length (p := RPc.isDone) (l := s.ws)).mp (by omega)
  constructor
  · rintro ⟨hw, hne⟩
    refine ⟨List.count_pos_iff.mp ?_, hne⟩
    rw [rinv_finish_count h i o, ratL_of_getElem? s.ws i _ _ hw]; simp [RPc.hasOutcome]
  · rintro ⟨hm, hne⟩
    refine ⟨?_, hne⟩
    have hpos : 0 < tr.count (.rfinish i o) := List.count_pos_iff.mpr hm
    rw [rinv_finish_count h i o] at hpos
    unfold ratL at hpos
    cases hg : s.ws[i]? with
    | none => simp [hg] at hpos
    | some x =>
      have hd := hall x (List.mem_of_getElem? hg)
      cases x with
      | doneW o' =>
        simp [hg, RPc.hasOutcome] at hpos
        by_cases hoo : o' = o
        · subst hoo; rfl
        · simp [hoo] at hpos
      | _ => simp [RPc.isDone] at hd

/-! ### the unchanged tree: `broken` is only tested before `Acquire` -/

/-- The unchanged code (no re-check after `Acquire`). -/
def C20.unfixed (k : Option Nat) (n : Nat) : Cfg := { k := k, n := n, recheck := false, checkAcq := false }

/-- Two inputs, one worker: the feeder passes the `broken` test for input 1 while callback 0 is
still running, blocks in `Acquire`, callback 0 breaks, the feeder gets the permit and callback 1
is started although a callback has broken.  (`harness/corpus/C20.txt` replays it on the real code.) -/
def C20.witness : List Label :=
  [.chk1 false, .acqOk, .spawn, .start 0, .chk1 false, .out 0 0, .finish 0 .brk, .mark 0, .done 0,
   .release 0, .acqOk, .spawn]

/-- Without the fix the one-worker guarantee fails: `C20_one_worker_stops_after_bad` does not hold
for `recheck := false` (no interrupt involved). -/
theorem C20_counterexample :
    ¬ (∀ (tr : List Label) (s s' : State) (i : Nat), Run (C20.unfixed (some 1) 2) tr s →
        Label.cancel ∉ tr → step (C20.unfixed (some 1) 2) s (.start i) = some s' →
        ∀ j o, Label.finish j o ∈ tr → o.bad = false) := by
  intro hall
  have hrun : Run (C20.unfixed (some 1) 2) C20.witness _ := run_of_replay rfl
  have := hall C20.witness _ _ 1 hrun (by decide) rfl 0 .brk (by decide)
  simp [Outcome.bad] at this

/-! ### non-vacuity: the hypotheses of the theorems are satisfiable by non-trivial runs -/

/-- a completed run of the fixed code: 3 inputs, 2 workers, overlapping callbacks, one failure,
one input skipped after the failure -/
def C20.sample : List Label :=
  [.chk1 false, .acqOk, .chk2 false, .spawn, .chk1 false, .acqOk, .chk2 false, .spawn,
   .start 1, .start 0, .out 1 0, .out 0 0, .finish 1 .exc, .chk1 false, .mark 1, .done 1, .release 1,
   .acqOk, .chk2 true, .frel, .eof, .finish 0 .ok, .done 0, .waitRet, .release 0]

example : ∃ s, Run { k := some 2, n := 3 } C20.sample s ∧ s.fpc = .ret ∧ s.err = [1] ∧
    s.outs = [(1, 0), (0, 0)] ∧ s.running = 0 :=
  ⟨_, run_of_replay rfl, rfl, rfl, rfl, rfl⟩

/-- a completed one-worker run without break/failure (hypotheses of `C20_exactly_once`,
`C20_one_worker_*`): 2 inputs -/
def C20.sample1 : List Label :=
  [.chk1 false, .acqOk, .chk2 false, .spawn, .chk1 false, .start 0, .out 0 0, .finish 0 .cont, .done 0,
   .release 0, .acqOk, .chk2 false, .spawn, .eof, .start 1, .finish 1 .ok, .done 1, .waitRet]

example : ∃ s, Run { k := some 1, n := 2 } C20.sample1 s ∧ s.fpc = .ret ∧
    (∀ i o, Label.finish i o ∈ C20.sample1 → o.bad = false) ∧ Label.acqErr ∉ C20.sample1 ∧
    startsOf C20.sample1 = [0, 1] :=
  ⟨_, run_of_replay rfl, rfl, by intro i o hm; simp [C20.sample1] at hm; rcases hm with ⟨_, rfl⟩ | ⟨_, rfl⟩ <;> rfl,
    by decide, rfl⟩

/-- a start step enabled in a one-worker run (hypothesis of `C20_one_worker_stops_after_bad` /
`_no_overlap`) -/
example : ∃ s s', Run { k := some 1, n := 2 } (C20.sample1.take 14) s ∧
    step { k := some 1, n := 2 } s (.start 1) = some s' :=
  ⟨_, _, run_of_replay rfl, rfl⟩

/-- a completed one-worker run in which callback 1 fails while the feeder waits for the permit for
input 2, which is then skipped (hypotheses of `C20_one_worker_eq_each`; both sides are the
non-trivial observation `starts = [0, 1]`, two outputs, `err = [1]`) -/
def C20.sample2 : List Label :=
  [.chk1 false, .acqOk, .chk2 false, .spawn, .chk1 false, .start 0, .out 0 0, .finish 0 .cont, .done 0,
   .release 0, .acqOk, .chk2 false, .spawn, .chk1 false, .start 1, .out 1 7, .finish 1 .exc, .mark 1,
   .done 1, .release 1, .acqOk, .chk2 true, .frel, .eof, .waitRet]

def C20.sampleCb : Nat → List Nat × Outcome
  | 0 => ([0], .cont)
  | 1 => ([7], .exc)
  | _ => ([], .ok)

example : ∃ s, Run { k := some 1, n := 3 } C20.sample2 s ∧ s.fpc = .ret ∧ Label.cancel ∉ C20.sample2 ∧
    (∀ i o, Label.finish i o ∈ C20.sample2 → o = (C20.sampleCb i).2) ∧
    (∀ i, Label.start i ∈ C20.sample2 →
      (outsOf C20.sample2).filter (·.1 = i) = (C20.sampleCb i).1.map (fun v => (i, v))) ∧
    ({ starts := startsOf C20.sample2, outs := s.outs, err := s.err } : EachObs) =
      { starts := [0, 1], outs := [(0, 0), (1, 7)], err := [1] } ∧
    eachRun C20.sampleCb 3 = { starts := [0, 1], outs := [(0, 0), (1, 7)], err := [1] } :=
  ⟨_, run_of_replay rfl, rfl, by decide,
    by intro i o hm; simp [C20.sample2] at hm; rcases hm with ⟨rfl, rfl⟩ | ⟨rfl, rfl⟩ <;> rfl,
    by intro i hm; simp [C20.sample2] at hm; rcases hm with rfl | rfl <;> rfl,
    rfl, rfl⟩

/-- an interrupted run of the fixed code: `Acquire` fails after `cancel`, the input is skipped -/
example : ∃ s, Run { k := some 1, n := 2 }
    [.chk1 false, .acqOk, .chk2 false, .spawn, .chk1 false, .start 0, .cancel, .acqErr, .eof,
     .finish 0 .exc, .mark 0, .done 0, .waitRet] s ∧ s.fpc = .ret ∧ s.running = 0 ∧ s.err = [0] :=
  ⟨_, run_of_replay rfl, rfl, rfl, rfl⟩

/-- run-parallel: two functions, one fails -/
example : ∃ s, RRun 2 [.rspawn 0, .rspawn 1, .rstart 1, .rfinish 1 .exc, .rstart 0, .rdone 1,
    .rfinish 0 .ok, .rdone 0, .rwait] s ∧ s.returned = true ∧ s.result = [(1, .exc)] :=
  ⟨_, rrun_of_replay rfl, rfl, rfl⟩
