/-
C09 helper: byte-string order laws, and a normal form of `cmpG` by "shape"
(nil / bool / number by value / string / list / anything else), so that the
order laws are proved on six shapes instead of ten constructors.
-/
import ElvProofs.C09.NumFacts
import ElvProofs.C08.MapLemmas

namespace C09
open C08 COrd Go

/-! ### Go string comparison -/

theorem bytesLt_irrefl : ∀ a : Bytes, bytesLt a a = false := by
  intro a
  induction a with
  | nil => rfl
  | cons x xs ih => simp [bytesLt, ih, UInt8.lt_irrefl]

theorem bytesLt_asymm : ∀ a b : Bytes, bytesLt a b = true → bytesLt b a = false := by
  intro a
  induction a with
  | nil => intro b h; cases b <;> simp [bytesLt] at h ⊢
  | cons x xs ih =>
    intro b h
    cases b with
    | nil => simp [bytesLt] at h
    | cons y ys =>
      simp only [bytesLt] at h ⊢
      by_cases h1 : x < y
      · have : ¬ y < x := by simp [UInt8.lt_iff_toNat_lt] at h1 ⊢; omega
        simp [this, h1]
      · by_cases h2 : y < x
        · simp [h1, h2] at h
        · simp [h1, h2] at h ⊢
          exact ih ys h

theorem bytesLt_trichotomy : ∀ a b : Bytes, bytesLt a b = true ∨ a = b ∨ bytesLt b a = true := by
  intro a
  induction a with
  | nil => intro b; cases b <;> simp [bytesLt]
  | cons x xs ih =>
    intro b
    cases b with
    | nil => simp [bytesLt]
    | cons y ys =>
      simp only [bytesLt]
      by_cases h1 : x < y
      · simp [h1]
      · by_cases h2 : y < x
        · simp [h1, h2]
        · have : x = y := by
            apply UInt8.toNat_inj.1
            simp [UInt8.lt_iff_toNat_lt] at h1 h2; omega
          subst this
          simp [h1]
          rcases ih ys with h | h | h
          · exact Or.inl h
          · exact Or.inr (Or.inl h)
          · exact Or.inr (Or.inr h)

theorem bytesLt_trans : ∀ a b c : Bytes, bytesLt a b = true → bytesLt b c = true → bytesLt a c = true := by
  intro a
  induction a with
  | nil => intro b c h1 h2; cases b <;> cases c <;> simp [bytesLt] at h1 h2 ⊢
  | cons x xs ih =>
    intro b c h1 h2
    cases b with
    | nil => simp [bytesLt] at h1
    | cons y ys =>
      cases c with
      | nil => simp [bytesLt] at h2
      | cons z zs =>
        simp only [bytesLt] at h1 h2 ⊢
        simp only [UInt8.lt_iff_toNat_lt] at h1 h2 ⊢
        by_cases a1 : x.toNat < y.toNat
        · by_cases b1 : y.toNat < z.toNat
          · have : x.toNat < z.toNat := by omega
            simp [this]
          · by_cases b2 : z.toNat < y.toNat
            · simp [b1, b2] at h2
            · have : x.toNat < z.toNat := by omega
              simp [this]
        · by_cases a2 : y.toNat < x.toNat
          · simp [a1, a2] at h1
          · simp [a1, a2] at h1
            by_cases b1 : y.toNat < z.toNat
            · have : x.toNat < z.toNat := by omega
              simp [this]
            · by_cases b2 : z.toNat < y.toNat
              · simp [b1, b2] at h2
              · simp [b1, b2] at h2
                have e1 : ¬ x.toNat < z.toNat := by omega
                have e2 : ¬ z.toNat < x.toNat := by omega
                simp [e1, e2]
                exact ih ys zs h1 h2

theorem compareBytes_of_lt {a b : Bytes} (h : bytesLt a b = true) : compareBytes a b = less := by
  simp [compareBytes, h]
theorem compareBytes_of_gt {a b : Bytes} (h : bytesLt b a = true) : compareBytes a b = more := by
  simp [compareBytes, h, bytesLt_asymm b a h]
theorem compareBytes_self (a : Bytes) : compareBytes a a = equal := by
  simp [compareBytes, bytesLt_irrefl]

theorem compareBytes_flip (a b : Bytes) : compareBytes b a = (compareBytes a b).flip := by
  rcases bytesLt_trichotomy a b with h | h | h
  · rw [compareBytes_of_lt h, compareBytes_of_gt h]; rfl
  · subst h; rw [compareBytes_self]; rfl
  · rw [compareBytes_of_gt h, compareBytes_of_lt h]; rfl

theorem compareBytes_trans (a b c : Bytes) (h1 : (compareBytes a b).isLE = true) (h2 : (compareBytes b c).isLE = true) :
    compareBytes a c = (compareBytes a b).seq (compareBytes b c) := by
  rcases bytesLt_trichotomy a b with h | h | h
  · rcases bytesLt_trichotomy b c with h' | h' | h'
    · rw [compareBytes_of_lt h, compareBytes_of_lt h', compareBytes_of_lt (bytesLt_trans a b c h h')]; rfl
    · subst h'; rw [compareBytes_of_lt h, compareBytes_self]; rfl
    · rw [compareBytes_of_gt h'] at h2; cases h2
  · subst h; rw [compareBytes_self]; rfl
  · rw [compareBytes_of_gt h] at h1; cases h1

theorem compareBytes_ne_uncomparable (a b : Bytes) : compareBytes a b ≠ uncomparable := by
  rcases bytesLt_trichotomy a b with h | h | h
  · rw [compareBytes_of_lt h]; simp
  · subst h; rw [compareBytes_self]; simp
  · rw [compareBytes_of_gt h]; simp

/-! ### shapes -/

/-- what `cmpInner` sees of a value. -/
inductive Shape where
  | nil
  | bool (b : Bool)
  | num (x : NumVal)
  | str (s : Bytes)
  | list (xs : List Val)
  | other

def shape : Val → Shape
  | .nil => .nil
  | .bool b => .bool b
  | .int i => .num (.fin (i : Rat))
  | .bigint i => .num (.fin (i : Rat))
  | .rat r => .num (.fin r)
  | .float b => .num (F64.val b)
  | .str s => .str s
  | .list xs => .list xs
  | .map _ _ => .other
  | .ref _ _ => .other

def compareBool (x y : Bool) : COrd := if x == y then equal else if x == false then less else more

/-- `cmpInner` on shapes; `rec` compares lists. -/
def innerS (rec : List Val → List Val → COrd) (a b : Val) : COrd :=
  match shape a, shape b with
  | .nil, .nil => equal
  | .bool x, .bool y => compareBool x y
  | .num x, .num y => NumVal.cmp x y
  | .str x, .str y => compareBytes x y
  | .list xs, .list ys => rec xs ys
  | .other, .other => if Equal a b then equal else uncomparable
  | _, _ => uncomparable

/-- `CmpUncomparable ↦ CmpEqual` at the end of `CmpTotal`. -/
def post (total : Bool) (o : COrd) : COrd := if total && o == uncomparable then equal else o

def tyCmp (rank : Nat → Nat) (a b : Val) : COrd := compareNat (rank (typeTag a)) (rank (typeTag b))

theorem numVal_shape {a : Val} {x : NumVal} (h : numVal a = some x) : shape a = .num x := by
  cases a <;> simp [numVal] at h <;> subst h <;> rfl

theorem cmpNum_int_int (p : Int) (q : Int) : cmpNum (.int p) (.int q) = some (NumVal.cmp (.fin (p : Rat)) (.fin (q : Rat))) :=
  cmpNum_by_value rfl rfl
theorem cmpNum_int_bigint (p : Int) (q : Int) : cmpNum (.int p) (.bigint q) = some (NumVal.cmp (.fin (p : Rat)) (.fin (q : Rat))) :=
  cmpNum_by_value rfl rfl
theorem cmpNum_int_rat (p : Int) (q : Rat) : cmpNum (.int p) (.rat q) = some (NumVal.cmp (.fin (p : Rat)) (.fin q)) :=
  cmpNum_by_value rfl rfl
theorem cmpNum_int_float (p : Int) (q : UInt64) : cmpNum (.int p) (.float q) = some (NumVal.cmp (.fin (p : Rat)) (F64.val q)) :=
  cmpNum_by_value rfl rfl
theorem cmpNum_bigint_int (p : Int) (q : Int) : cmpNum (.bigint p) (.int q) = some (NumVal.cmp (.fin (p : Rat)) (.fin (q : Rat))) :=
  cmpNum_by_value rfl rfl
theorem cmpNum_bigint_bigint (p : Int) (q : Int) : cmpNum (.bigint p) (.bigint q) = some (NumVal.cmp (.fin (p : Rat)) (.fin (q : Rat))) :=
  cmpNum_by_value rfl rfl
theorem cmpNum_bigint_rat (p : Int) (q : Rat) : cmpNum (.bigint p) (.rat q) = some (NumVal.cmp (.fin (p : Rat)) (.fin q)) :=
  cmpNum_by_value rfl rfl
theorem cmpNum_bigint_float (p : Int) (q : UInt64) : cmpNum (.bigint p) (.float q) = some (NumVal.cmp (.fin (p : Rat)) (F64.val q)) :=
  cmpNum_by_value rfl rfl
theorem cmpNum_rat_int (p : Rat) (q : Int) : cmpNum (.rat p) (.int q) = some (NumVal.cmp (.fin p) (.fin (q : Rat))) :=
  cmpNum_by_value rfl rfl
theorem cmpNum_rat_bigint (p : Rat) (q : Int) : cmpNum (.rat p) (.bigint q) = some (NumVal.cmp (.fin p) (.fin (q : Rat))) :=
  cmpNum_by_value rfl rfl
theorem cmpNum_rat_rat (p : Rat) (q : Rat) : cmpNum (.rat p) (.rat q) = some (NumVal.cmp (.fin p) (.fin q)) :=
  cmpNum_by_value rfl rfl
theorem cmpNum_rat_float (p : Rat) (q : UInt64) : cmpNum (.rat p) (.float q) = some (NumVal.cmp (.fin p) (F64.val q)) :=
  cmpNum_by_value rfl rfl
theorem cmpNum_float_int (p : UInt64) (q : Int) : cmpNum (.float p) (.int q) = some (NumVal.cmp (F64.val p) (.fin (q : Rat))) :=
  cmpNum_by_value rfl rfl
theorem cmpNum_float_bigint (p : UInt64) (q : Int) : cmpNum (.float p) (.bigint q) = some (NumVal.cmp (F64.val p) (.fin (q : Rat))) :=
  cmpNum_by_value rfl rfl
theorem cmpNum_float_rat (p : UInt64) (q : Rat) : cmpNum (.float p) (.rat q) = some (NumVal.cmp (F64.val p) (.fin q)) :=
  cmpNum_by_value rfl rfl
theorem cmpNum_float_float (p : UInt64) (q : UInt64) : cmpNum (.float p) (.float q) = some (NumVal.cmp (F64.val p) (F64.val q)) :=
  cmpNum_by_value rfl rfl

/-- normal form of `Cmp` / `CmpTotal`. -/
theorem cmpG_eq (rank : Nat → Nat) (total : Bool) (a b : Val) :
    cmpG rank total a b =
      if (total && tyCmp rank a b != equal) = true then tyCmp rank a b
      else post total (innerS (cmpListG rank total) a b) := by
  cases a <;> cases b <;> first
    | (simp [cmpG, tyCmp, post, innerS, shape, compareBool, cmpNum_int_int, cmpNum_int_bigint, cmpNum_int_rat, cmpNum_int_float, cmpNum_bigint_int, cmpNum_bigint_bigint, cmpNum_bigint_rat, cmpNum_bigint_float, cmpNum_rat_int, cmpNum_rat_bigint, cmpNum_rat_rat, cmpNum_rat_float, cmpNum_float_int, cmpNum_float_bigint, cmpNum_float_rat, cmpNum_float_float]; done)
    | (simp [cmpG, tyCmp, post, innerS, shape, compareBool,
        cmpNum, unifyNums2And, unifyNums2AndOld, numType, promoteToBigRat]; done)
    | (simp [cmpG, tyCmp, post, innerS, shape, compareBool, Equal]; done)

end C09
