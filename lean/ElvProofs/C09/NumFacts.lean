/-
C09 helper lemmas: numbers.  `NumVal.cmp` is a total preorder; `compareFloat`
on bit patterns agrees with it; `cmpNum` (fixed tree: UnifyNums2ForCmp)
compares by mathematical value; eq numbers compare equal; the builtins
`<`, `<=`, `==` agree with it.
-/
import ElvProofs.C09.FloatOrder

namespace C09
open C08 COrd

/-! ### the three-way comparisons -/

theorem rat_trichotomy (a b : Rat) : a < b ∨ a = b ∨ b < a := by grind


theorem compareNat_of_lt {a b : Nat} (h : a < b) : compareNat a b = less := by
  unfold compareNat; simp [h]
theorem compareNat_of_gt {a b : Nat} (h : b < a) : compareNat a b = more := by
  unfold compareNat
  have : ¬ a < b := by omega
  simp [this, h, GT.gt]
theorem compareNat_self (a : Nat) : compareNat a a = equal := by
  unfold compareNat
  have : ¬ a < a := by omega
  simp [this, GT.gt]

theorem compareNat_flip (a b : Nat) : compareNat b a = (compareNat a b).flip := by
  rcases Nat.lt_trichotomy a b with h | h | h
  · rw [compareNat_of_lt h, compareNat_of_gt h]; rfl
  · subst h; rw [compareNat_self]; rfl
  · rw [compareNat_of_gt h, compareNat_of_lt h]; rfl

theorem compareNat_trans (a b c : Nat) (h1 : (compareNat a b).isLE = true) (h2 : (compareNat b c).isLE = true) :
    compareNat a c = (compareNat a b).seq (compareNat b c) := by
  rcases Nat.lt_trichotomy a b with h | h | h
  · rcases Nat.lt_trichotomy b c with h' | h' | h'
    · have : a < c := by omega
      rw [compareNat_of_lt h, compareNat_of_lt h', compareNat_of_lt this]; rfl
    · subst h'; rw [compareNat_of_lt h, compareNat_self]; rfl
    · rw [compareNat_of_gt h'] at h2; cases h2
  · subst h; rw [compareNat_self]; rfl
  · rw [compareNat_of_gt h] at h1; cases h1

theorem compareNat_ne_uncomparable (a b : Nat) : compareNat a b ≠ uncomparable := by
  rcases Nat.lt_trichotomy a b with h | h | h
  · rw [compareNat_of_lt h]; simp
  · subst h; rw [compareNat_self]; simp
  · rw [compareNat_of_gt h]; simp

theorem compareNat_eq_equal {a b : Nat} : compareNat a b = equal ↔ a = b := by
  rcases Nat.lt_trichotomy a b with h | h | h
  · rw [compareNat_of_lt h]; constructor
    · intro h'; cases h'
    · intro h'; subst h'; exfalso; revert h; omega
  · subst h; rw [compareNat_self]; simp
  · rw [compareNat_of_gt h]; constructor
    · intro h'; cases h'
    · intro h'; subst h'; exfalso; revert h; omega

theorem compareNat_eq_less {a b : Nat} : compareNat a b = less ↔ a < b := by
  rcases Nat.lt_trichotomy a b with h | h | h
  · rw [compareNat_of_lt h]; simp [h]
  · subst h; rw [compareNat_self]; constructor
    · intro h'; cases h'
    · omega
  · rw [compareNat_of_gt h]; constructor
    · intro h'; cases h'
    · intro h'; exfalso; revert h h'; omega

theorem compareInt_of_lt {a b : Int} (h : a < b) : compareInt a b = less := by
  unfold compareInt; simp [h]
theorem compareInt_of_gt {a b : Int} (h : b < a) : compareInt a b = more := by
  unfold compareInt
  have : ¬ a < b := by omega
  simp [this, h, GT.gt]
theorem compareInt_self (a : Int) : compareInt a a = equal := by
  unfold compareInt
  have : ¬ a < a := by omega
  simp [this, GT.gt]

theorem compareInt_flip (a b : Int) : compareInt b a = (compareInt a b).flip := by
  rcases Int.lt_trichotomy a b with h | h | h
  · rw [compareInt_of_lt h, compareInt_of_gt h]; rfl
  · subst h; rw [compareInt_self]; rfl
  · rw [compareInt_of_gt h, compareInt_of_lt h]; rfl

theorem compareInt_trans (a b c : Int) (h1 : (compareInt a b).isLE = true) (h2 : (compareInt b c).isLE = true) :
    compareInt a c = (compareInt a b).seq (compareInt b c) := by
  rcases Int.lt_trichotomy a b with h | h | h
  · rcases Int.lt_trichotomy b c with h' | h' | h'
    · have : a < c := by omega
      rw [compareInt_of_lt h, compareInt_of_lt h', compareInt_of_lt this]; rfl
    · subst h'; rw [compareInt_of_lt h, compareInt_self]; rfl
    · rw [compareInt_of_gt h'] at h2; cases h2
  · subst h; rw [compareInt_self]; rfl
  · rw [compareInt_of_gt h] at h1; cases h1

theorem compareInt_ne_uncomparable (a b : Int) : compareInt a b ≠ uncomparable := by
  rcases Int.lt_trichotomy a b with h | h | h
  · rw [compareInt_of_lt h]; simp
  · subst h; rw [compareInt_self]; simp
  · rw [compareInt_of_gt h]; simp

theorem compareInt_eq_equal {a b : Int} : compareInt a b = equal ↔ a = b := by
  rcases Int.lt_trichotomy a b with h | h | h
  · rw [compareInt_of_lt h]; constructor
    · intro h'; cases h'
    · intro h'; subst h'; exfalso; revert h; omega
  · subst h; rw [compareInt_self]; simp
  · rw [compareInt_of_gt h]; constructor
    · intro h'; cases h'
    · intro h'; subst h'; exfalso; revert h; omega

theorem compareInt_eq_less {a b : Int} : compareInt a b = less ↔ a < b := by
  rcases Int.lt_trichotomy a b with h | h | h
  · rw [compareInt_of_lt h]; simp [h]
  · subst h; rw [compareInt_self]; constructor
    · intro h'; cases h'
    · omega
  · rw [compareInt_of_gt h]; constructor
    · intro h'; cases h'
    · intro h'; exfalso; revert h h'; omega

theorem compareRat_of_lt {a b : Rat} (h : a < b) : compareRat a b = less := by
  unfold compareRat; simp [h]
theorem compareRat_of_gt {a b : Rat} (h : b < a) : compareRat a b = more := by
  unfold compareRat
  have : ¬ a < b := by grind
  simp [this, h, GT.gt]
theorem compareRat_self (a : Rat) : compareRat a a = equal := by
  unfold compareRat
  have : ¬ a < a := by grind
  simp [this, GT.gt]

theorem compareRat_flip (a b : Rat) : compareRat b a = (compareRat a b).flip := by
  rcases rat_trichotomy a b with h | h | h
  · rw [compareRat_of_lt h, compareRat_of_gt h]; rfl
  · subst h; rw [compareRat_self]; rfl
  · rw [compareRat_of_gt h, compareRat_of_lt h]; rfl

theorem compareRat_trans (a b c : Rat) (h1 : (compareRat a b).isLE = true) (h2 : (compareRat b c).isLE = true) :
    compareRat a c = (compareRat a b).seq (compareRat b c) := by
  rcases rat_trichotomy a b with h | h | h
  · rcases rat_trichotomy b c with h' | h' | h'
    · have : a < c := by grind
      rw [compareRat_of_lt h, compareRat_of_lt h', compareRat_of_lt this]; rfl
    · subst h'; rw [compareRat_of_lt h, compareRat_self]; rfl
    · rw [compareRat_of_gt h'] at h2; cases h2
  · subst h; rw [compareRat_self]; rfl
  · rw [compareRat_of_gt h] at h1; cases h1

theorem compareRat_ne_uncomparable (a b : Rat) : compareRat a b ≠ uncomparable := by
  rcases rat_trichotomy a b with h | h | h
  · rw [compareRat_of_lt h]; simp
  · subst h; rw [compareRat_self]; simp
  · rw [compareRat_of_gt h]; simp

theorem compareRat_eq_equal {a b : Rat} : compareRat a b = equal ↔ a = b := by
  rcases rat_trichotomy a b with h | h | h
  · rw [compareRat_of_lt h]; constructor
    · intro h'; cases h'
    · intro h'; subst h'; exfalso; revert h; grind
  · subst h; rw [compareRat_self]; simp
  · rw [compareRat_of_gt h]; constructor
    · intro h'; cases h'
    · intro h'; subst h'; exfalso; revert h; grind

theorem compareRat_eq_less {a b : Rat} : compareRat a b = less ↔ a < b := by
  rcases rat_trichotomy a b with h | h | h
  · rw [compareRat_of_lt h]; simp [h]
  · subst h; rw [compareRat_self]; constructor
    · intro h'; cases h'
    · grind
  · rw [compareRat_of_gt h]; constructor
    · intro h'; cases h'
    · intro h'; exfalso; revert h h'; grind

theorem compareInt_eq_compareRat (i j : Int) : compareInt i j = compareRat (i : Rat) (j : Rat) := by
  unfold compareInt compareRat
  simp only [GT.gt, Rat.intCast_lt_intCast]

/-! ### NumVal.cmp is a total preorder -/

theorem NumVal.cmp_fin (p q : Rat) : NumVal.cmp (.fin p) (.fin q) = compareRat p q := rfl

theorem NumVal.cmp_of_cls {x y : NumVal} (h : x.cls ≠ 2 ∨ y.cls ≠ 2) : NumVal.cmp x y = compareNat x.cls y.cls := by
  cases x <;> cases y <;> simp [NumVal.cls] at h <;> rfl

theorem NumVal.cmp_cls_lt {x y : NumVal} (h : x.cls < y.cls) : NumVal.cmp x y = less := by
  cases x <;> cases y <;> simp [NumVal.cls] at h <;> exact compareNat_of_lt (by simp [NumVal.cls])

theorem NumVal.cmp_ne_uncomparable (x y : NumVal) : NumVal.cmp x y ≠ uncomparable := by
  cases x <;> cases y <;> simp only [NumVal.cmp] <;>
    first | exact compareRat_ne_uncomparable _ _ | exact compareNat_ne_uncomparable _ _

theorem NumVal.cmp_flip (x y : NumVal) : NumVal.cmp y x = (NumVal.cmp x y).flip := by
  cases x <;> cases y <;> simp only [NumVal.cmp] <;>
    first | exact compareRat_flip _ _ | exact compareNat_flip _ _

theorem NumVal.cmp_refl (x : NumVal) : NumVal.cmp x x = equal := by
  cases x <;> simp only [NumVal.cmp] <;> first | exact compareRat_self _ | exact compareNat_self _

/-- `cmp x y` is ≤ iff the classes are ordered, strictly or equal with the rationals ordered. -/
theorem NumVal.cmp_cls_le {x y : NumVal} (h : (NumVal.cmp x y).isLE = true) : x.cls ≤ y.cls := by
  rcases Nat.lt_or_ge y.cls x.cls with hlt | hge
  · have := NumVal.cmp_flip y x
    rw [NumVal.cmp_cls_lt hlt] at this
    rw [this] at h; cases h
  · exact hge

theorem NumVal.cmp_trans (x y z : NumVal) (h1 : (NumVal.cmp x y).isLE = true) (h2 : (NumVal.cmp y z).isLE = true) :
    NumVal.cmp x z = (NumVal.cmp x y).seq (NumVal.cmp y z) := by
  have c1 := NumVal.cmp_cls_le h1
  have c2 := NumVal.cmp_cls_le h2
  rcases Nat.lt_or_ge x.cls y.cls with hxy | hxy
  · rw [NumVal.cmp_cls_lt hxy, NumVal.cmp_cls_lt (by omega : x.cls < z.cls)]; rfl
  · have hxy : x.cls = y.cls := by omega
    rcases Nat.lt_or_ge y.cls z.cls with hyz | hyz
    · rw [NumVal.cmp_cls_lt hyz, NumVal.cmp_cls_lt (by omega : x.cls < z.cls)]
      revert h1; cases NumVal.cmp x y <;> simp [COrd.isLE, COrd.seq]
    · have hyz : y.cls = z.cls := by omega
      cases x <;> cases y <;> cases z <;> simp [NumVal.cls] at hxy hyz <;> simp only [NumVal.cmp] at * <;>
        first | exact compareRat_trans _ _ _ h1 h2 | exact compareNat_trans _ _ _ h1 h2

/-! ### floats -/

theorem compareRat_of_not_lt {a b : Rat} (h1 : ¬ a < b) (h2 : ¬ b < a) : compareRat a b = equal := by
  unfold compareRat; simp [h1, h2, GT.gt]

/-- the three kinds of non-NaN patterns, with their keys. -/
theorem F64.val_cases (b : UInt64) (h : F64.isNaN b = false) :
    (F64.val b = .negInf ∧ F64.key b = -(F64.expInf : Int) ∧ F64.mag b = F64.expInf) ∨
    (F64.val b = .fin (F64.toRat b) ∧ -(F64.expInf : Int) < F64.key b ∧ F64.key b < (F64.expInf : Int) ∧
      F64.mag b < F64.expInf) ∨
    (F64.val b = .posInf ∧ F64.key b = (F64.expInf : Int) ∧ F64.mag b = F64.expInf) := by
  have hm : F64.mag b ≤ F64.expInf := by
    unfold F64.isNaN at h; simpa using h
  by_cases hi : F64.isInf b = true
  · have hme : F64.mag b = F64.expInf := by simpa [F64.isInf] using hi
    by_cases hn : F64.neg b = true
    · left
      exact ⟨by simp [F64.val, h, hi, hn], by simp [F64.key, hn, hme], hme⟩
    · right; right
      exact ⟨by simp [F64.val, h, hi, hn], by simp [F64.key, hn, hme], hme⟩
  · have hme : F64.mag b ≠ F64.expInf := by simpa [F64.isInf] using hi
    right; left
    refine ⟨by simp [F64.val, h, hi], ?_, ?_, by omega⟩
    · unfold F64.key; split <;> omega
    · unfold F64.key; split <;> omega

theorem F64.val_cls_ne_zero (b : UInt64) : (F64.val b).cls ≠ 0 ↔ F64.isNaN b = false := by
  cases h : F64.isNaN b with
  | false =>
    simp only [iff_true]
    rcases F64.val_cases b h with ⟨v, _⟩ | ⟨v, _⟩ | ⟨v, _⟩ <;> rw [v] <;> simp [NumVal.cls]
  | true => simp [F64.val, h, NumVal.cls]

theorem compareFloat_nonNaN {x y : UInt64} (hx : F64.isNaN x = false) (hy : F64.isNaN y = false) :
    compareFloat x y = compareInt (F64.key x) (F64.key y) := by
  unfold compareFloat F64.lt compareInt
  simp [hx, hy, GT.gt]

/-- float64 comparison on bit patterns = comparison of the exact values. -/
theorem compareFloat_eq (x y : UInt64) : compareFloat x y = NumVal.cmp (F64.val x) (F64.val y) := by
  cases hx : F64.isNaN x with
  | true =>
    have vx : F64.val x = .nan := by simp [F64.val, hx]
    cases hy : F64.isNaN y with
    | true =>
      have vy : F64.val y = .nan := by simp [F64.val, hy]
      simp [compareFloat, hx, hy, vx, vy, NumVal.cmp_refl]
    | false =>
      have : (F64.val y).cls ≠ 0 := (F64.val_cls_ne_zero y).2 hy
      rw [vx, NumVal.cmp_cls_lt (x := .nan) (y := F64.val y) (Nat.pos_of_ne_zero this)]
      simp [compareFloat, hx, hy]
  | false =>
    cases hy : F64.isNaN y with
    | true =>
      have vy : F64.val y = .nan := by simp [F64.val, hy]
      have : (F64.val x).cls ≠ 0 := (F64.val_cls_ne_zero x).2 hx
      rw [NumVal.cmp_flip, vy, NumVal.cmp_cls_lt (x := .nan) (y := F64.val x) (Nat.pos_of_ne_zero this)]
      simp [compareFloat, hx, hy, COrd.flip]
    | false =>
      rw [compareFloat_nonNaN hx hy]
      rcases F64.val_cases x hx with ⟨vx, kx, _⟩ | ⟨vx, kx1, kx2, _⟩ | ⟨vx, kx, _⟩ <;>
      rcases F64.val_cases y hy with ⟨vy, ky, _⟩ | ⟨vy, ky1, ky2, _⟩ | ⟨vy, ky, _⟩ <;> rw [vx, vy]
      · rw [kx, ky, compareInt_self, NumVal.cmp_refl]
      · rw [compareInt_of_lt (by omega), NumVal.cmp_cls_lt (by simp [NumVal.cls])]
      · rw [compareInt_of_lt (by rw [kx, ky]; simp [F64.expInf]), NumVal.cmp_cls_lt (by simp [NumVal.cls])]
      · rw [compareInt_of_gt (by omega), NumVal.cmp_flip, NumVal.cmp_cls_lt (by simp [NumVal.cls])]; rfl
      · rw [NumVal.cmp_fin]
        rcases Int.lt_trichotomy (F64.key x) (F64.key y) with h | h | h
        · rw [compareInt_of_lt h, compareRat_of_lt ((toRat_lt_iff x y).2 h)]
        · rw [h, compareInt_self, compareRat_of_not_lt]
          · rw [toRat_lt_iff]; omega
          · rw [toRat_lt_iff]; omega
        · rw [compareInt_of_gt h, compareRat_of_gt ((toRat_lt_iff y x).2 h)]
      · rw [compareInt_of_lt (by omega), NumVal.cmp_cls_lt (by simp [NumVal.cls])]
      · rw [compareInt_of_gt (by rw [kx, ky]; simp [F64.expInf]), NumVal.cmp_flip, NumVal.cmp_cls_lt (by simp [NumVal.cls])]; rfl
      · rw [compareInt_of_gt (by omega), NumVal.cmp_flip, NumVal.cmp_cls_lt (by simp [NumVal.cls])]; rfl
      · rw [kx, ky, compareInt_self, NumVal.cmp_refl]

theorem F64.isFinite_iff (b : UInt64) : F64.isFinite b = true ↔ (F64.val b).cls = 2 := by
  cases h : F64.isNaN b with
  | false =>
    rcases F64.val_cases b h with ⟨v, _, m⟩ | ⟨v, _, _, m⟩ | ⟨v, _, m⟩ <;> rw [v] <;>
      simp [NumVal.cls, F64.isFinite, m]
  | true =>
    have : F64.expInf < F64.mag b := by simpa [F64.isNaN] using h
    simp [F64.val, h, NumVal.cls, F64.isFinite]
    omega

theorem F64.val_of_finite {b : UInt64} (h : F64.isFinite b = true) : F64.val b = .fin (F64.toRat b) := by
  have hm : F64.mag b < F64.expInf := by simpa [F64.isFinite] using h
  have h1 : F64.isNaN b = false := by simp [F64.isNaN]; omega
  have h2 : F64.isInf b = false := by simp [F64.isInf]; omega
  simp [F64.val, h1, h2]

theorem F64.val_zero : ∃ z : Rat, F64.val 0 = .fin z := ⟨_, F64.val_of_finite (by decide)⟩

/-! ### unification and dispatch -/

/-- what a number is, by cases. -/
theorem numVal_cases {a : Val} {x : NumVal} (h : numVal a = some x) :
    (∃ i, a = .int i ∧ x = .fin (i : Rat)) ∨ (∃ i, a = .bigint i ∧ x = .fin (i : Rat)) ∨
    (∃ r, a = .rat r ∧ x = .fin r) ∨ (∃ b, a = .float b ∧ x = F64.val b) := by
  cases a <;> simp [numVal] at h
  · exact Or.inl ⟨_, rfl, h.symm⟩
  · exact Or.inr (Or.inl ⟨_, rfl, h.symm⟩)
  · exact Or.inr (Or.inr (Or.inl ⟨_, rfl, h.symm⟩))
  · exact Or.inr (Or.inr (Or.inr ⟨_, rfl, h.symm⟩))

attribute [local irreducible] F64.toRat

/-- `UnifyNums2ForCmp` + dispatch computes any function of the two mathematical
values whose four per-type implementations agree with it. -/
theorem unifyNums2And_spec {α : Type} (G : NumVal → NumVal → α)
    (fInt fBigInt : Int → Int → α) (fRat : Rat → Rat → α) (fFloat : UInt64 → UInt64 → α)
    (hI : ∀ i j : Int, fInt i j = G (.fin (i : Rat)) (.fin (j : Rat)))
    (hB : ∀ i j : Int, fBigInt i j = G (.fin (i : Rat)) (.fin (j : Rat)))
    (hR : ∀ p q : Rat, fRat p q = G (.fin p) (.fin q))
    (hF : ∀ u v : UInt64, fFloat u v = G (F64.val u) (F64.val v))
    (hcl : ∀ (x : NumVal) (p q : Rat), x.cls ≠ 2 → G x (.fin p) = G x (.fin q) ∧ G (.fin p) x = G (.fin q) x)
    {a b : Val} {x y : NumVal} (ha : numVal a = some x) (hb : numVal b = some y) :
    unifyNums2And a b fInt fBigInt fRat fFloat = some (G x y) := by
  have mixL : ∀ (u : UInt64) (e : Val) (r : Rat), promoteToBigRat e = some r → (numType e).isSome = true →
      (if F64.isFinite u then (promoteToBigRat e).map fun r => fRat (F64.toRat u) r
        else (numType e).map fun _ => fFloat u 0) = some (G (F64.val u) (.fin r)) := by
    intro u e r hr hn
    by_cases hf : F64.isFinite u = true
    · simp [hf, hr, hR, F64.val_of_finite hf]
    · have hc : (F64.val u).cls ≠ 2 := fun h => hf ((F64.isFinite_iff u).2 h)
      obtain ⟨t, ht⟩ := Option.isSome_iff_exists.1 hn
      obtain ⟨z, hz⟩ := F64.val_zero
      simp [hf, ht, hF, hz, (hcl _ z r hc).1]
  have mixR : ∀ (u : UInt64) (e : Val) (r : Rat), promoteToBigRat e = some r → (numType e).isSome = true →
      (if F64.isFinite u then (promoteToBigRat e).map fun r => fRat r (F64.toRat u)
        else (numType e).map fun _ => fFloat 0 u) = some (G (.fin r) (F64.val u)) := by
    intro u e r hr hn
    by_cases hf : F64.isFinite u = true
    · simp [hf, hr, hR, F64.val_of_finite hf]
    · have hc : (F64.val u).cls ≠ 2 := fun h => hf ((F64.isFinite_iff u).2 h)
      obtain ⟨t, ht⟩ := Option.isSome_iff_exists.1 hn
      obtain ⟨z, hz⟩ := F64.val_zero
      simp [hf, ht, hF, hz, (hcl _ z r hc).2]
  rcases numVal_cases ha with ⟨i, rfl, rfl⟩ | ⟨i, rfl, rfl⟩ | ⟨r, rfl, rfl⟩ | ⟨u, rfl, rfl⟩ <;>
  rcases numVal_cases hb with ⟨j, rfl, rfl⟩ | ⟨j, rfl, rfl⟩ | ⟨q, rfl, rfl⟩ | ⟨v, rfl, rfl⟩
  all_goals first
    | (simp only [unifyNums2And]; exact mixR _ _ _ (by simp [promoteToBigRat]) (by simp [numType]))
    | (simp only [unifyNums2And]; exact mixL _ _ _ (by simp [promoteToBigRat]) (by simp [numType]))
    | (simp only [unifyNums2And]; rw [hF]; done)
    | (simp [unifyNums2And, unifyNums2AndOld, numType, promoteToBigInt, promoteToBigRat, hI, hB, hR]; done)

/-- The number branch of `cmpInner` compares by mathematical value (fixed tree). -/
theorem cmpNum_by_value {a b : Val} {x y : NumVal} (ha : numVal a = some x) (hb : numVal b = some y) :
    cmpNum a b = some (NumVal.cmp x y) := by
  unfold cmpNum
  refine unifyNums2And_spec NumVal.cmp _ _ _ _ ?_ ?_ ?_ compareFloat_eq ?_ ha hb
  · intro i j; rw [compareInt_eq_compareRat]; rfl
  · intro i j; rw [compareInt_eq_compareRat]; rfl
  · intro p q; rfl
  · intro x p q hx
    constructor
    · rw [NumVal.cmp_of_cls (Or.inl hx), NumVal.cmp_of_cls (Or.inl hx)]; rfl
    · rw [NumVal.cmp_of_cls (Or.inr hx), NumVal.cmp_of_cls (Or.inr hx)]; rfl

theorem numVal_isSome (a : Val) : (numVal a).isSome = isNum a := by
  cases a <;> rfl

theorem cmpNum_eq_none {a b : Val} (h : numVal a = none ∨ numVal b = none) : cmpNum a b = none := by
  rcases h with h | h
  · cases a <;> simp [numVal] at h <;> cases b <;>
      simp [cmpNum, unifyNums2And, unifyNums2AndOld, numType, promoteToBigRat]
  · cases b <;> simp [numVal] at h <;> cases a <;>
      simp [cmpNum, unifyNums2And, unifyNums2AndOld, numType, promoteToBigRat]

/-- eq numbers compare equal. -/
theorem equal_num_cmp {a b : Val} {x y : NumVal} (ha : numVal a = some x) (hb : numVal b = some y)
    (h : Equal a b = true) : NumVal.cmp x y = equal := by
  rcases numVal_cases ha with ⟨i, rfl, rfl⟩ | ⟨i, rfl, rfl⟩ | ⟨r, rfl, rfl⟩ | ⟨u, rfl, rfl⟩ <;>
  rcases numVal_cases hb with ⟨j, rfl, rfl⟩ | ⟨j, rfl, rfl⟩ | ⟨q, rfl, rfl⟩ | ⟨v, rfl, rfl⟩ <;>
  simp [Equal] at h
  · subst h; exact NumVal.cmp_refl _
  · subst h; exact NumVal.cmp_refl _
  · subst h; exact NumVal.cmp_refl _
  · rw [← compareFloat_eq]
    unfold F64.eq at h
    simp only [Bool.and_eq_true, Bool.not_eq_true', beq_iff_eq] at h
    rw [compareFloat_nonNaN h.1.1 h.1.2, h.2, compareInt_self]

/-! ### the builtins `<`, `<=`, `==` -/

theorem chain_pair (pInt : Int → Int → Bool) (pRat : Rat → Rat → Bool) (pF : UInt64 → UInt64 → Bool) (a b : Val) :
    chainCompareNums pInt pRat pF [a, b] = unifyNums2And a b pInt pInt pRat pF := by
  simp only [chainCompareNums]
  cases unifyNums2And a b pInt pInt pRat pF with
  | none => rfl
  | some r => cases r <;> rfl

/-- the result shape shared by the three builtins: false with a NaN operand,
otherwise a predicate of the comparison. -/
def numPred (g : COrd → Bool) (x y : NumVal) : Bool :=
  decide (x.cls ≠ 0) && decide (y.cls ≠ 0) && g (NumVal.cmp x y)

theorem numPred_cls (g : COrd → Bool) (x : NumVal) (p q : Rat) (hx : x.cls ≠ 2) :
    numPred g x (.fin p) = numPred g x (.fin q) ∧ numPred g (.fin p) x = numPred g (.fin q) x := by
  unfold numPred
  constructor
  · rw [NumVal.cmp_of_cls (Or.inl hx), NumVal.cmp_of_cls (Or.inl hx)]; rfl
  · rw [NumVal.cmp_of_cls (Or.inr hx), NumVal.cmp_of_cls (Or.inr hx)]; rfl

theorem numPred_float (g : COrd → Bool) (pF : UInt64 → UInt64 → Bool)
    (h : ∀ u v, pF u v = (!F64.isNaN u && !F64.isNaN v && g (compareInt (F64.key u) (F64.key v)))) (u v : UInt64) :
    pF u v = numPred g (F64.val u) (F64.val v) := by
  rw [h]
  unfold numPred
  cases hu : F64.isNaN u with
  | true =>
    have : (F64.val u).cls = 0 := by simp [F64.val, hu, NumVal.cls]
    simp [this]
  | false =>
    cases hv : F64.isNaN v with
    | true =>
      have : (F64.val v).cls = 0 := by simp [F64.val, hv, NumVal.cls]
      simp [this]
    | false =>
      have h1 := (F64.val_cls_ne_zero u).2 hu
      have h2 := (F64.val_cls_ne_zero v).2 hv
      simp [h1, h2, ← compareFloat_eq, compareFloat_nonNaN hu hv]

theorem numPred_fin (g : COrd → Bool) (p q : Rat) : numPred g (.fin p) (.fin q) = g (compareRat p q) := by
  simp [numPred, NumVal.cls, NumVal.cmp]

theorem builtin_pair (g : COrd → Bool) (pInt : Int → Int → Bool) (pRat : Rat → Rat → Bool) (pF : UInt64 → UInt64 → Bool)
    (hI : ∀ i j, pInt i j = g (compareInt i j)) (hR : ∀ p q, pRat p q = g (compareRat p q))
    (hF : ∀ u v, pF u v = (!F64.isNaN u && !F64.isNaN v && g (compareInt (F64.key u) (F64.key v))))
    {a b : Val} {x y : NumVal} (ha : numVal a = some x) (hb : numVal b = some y) :
    chainCompareNums pInt pRat pF [a, b] = some (numPred g x y) := by
  rw [chain_pair]
  refine unifyNums2And_spec (numPred g) _ _ _ _ ?_ ?_ ?_ (numPred_float g pF hF) (numPred_cls g) ha hb
  · intro i j; rw [numPred_fin, hI, compareInt_eq_compareRat]
  · intro i j; rw [numPred_fin, hI, compareInt_eq_compareRat]
  · intro p q; rw [numPred_fin, hR]

theorem builtinLt_pair {a b : Val} {x y : NumVal} (ha : numVal a = some x) (hb : numVal b = some y) :
    builtinLt [a, b] = some (decide (x.cls ≠ 0 ∧ y.cls ≠ 0 ∧ NumVal.cmp x y = less)) := by
  unfold builtinLt
  rw [builtin_pair (fun o => o == less) _ _ _ ?_ ?_ ?_ ha hb]
  · congr 1; rw [Bool.eq_iff_iff]; simp [numPred, and_assoc]
  · intro i j; rw [Bool.eq_iff_iff]; simp [compareInt_eq_less]
  · intro p q; rw [Bool.eq_iff_iff]; simp [compareRat_eq_less]
  · intro u v; rw [Bool.eq_iff_iff]; simp [F64.lt, compareInt_eq_less]

theorem builtinEqNum_pair {a b : Val} {x y : NumVal} (ha : numVal a = some x) (hb : numVal b = some y) :
    builtinEqNum [a, b] = some (decide (x.cls ≠ 0 ∧ y.cls ≠ 0 ∧ NumVal.cmp x y = equal)) := by
  unfold builtinEqNum
  rw [builtin_pair (fun o => o == equal) _ _ _ ?_ ?_ ?_ ha hb]
  · congr 1; rw [Bool.eq_iff_iff]; simp [numPred, and_assoc]
  · intro i j; rw [Bool.eq_iff_iff]; simp [compareInt_eq_equal]
  · intro p q; rw [Bool.eq_iff_iff]; simp [compareRat_eq_equal]
  · intro u v; rw [Bool.eq_iff_iff]; simp [F64.eq, compareInt_eq_equal]

theorem isLE_iff (o : COrd) : o.isLE = true ↔ o = less ∨ o = equal := by
  cases o <;> simp [COrd.isLE]

theorem builtinLe_pair {a b : Val} {x y : NumVal} (ha : numVal a = some x) (hb : numVal b = some y) :
    builtinLe [a, b] = some (decide (x.cls ≠ 0 ∧ y.cls ≠ 0 ∧ (NumVal.cmp x y).isLE = true)) := by
  unfold builtinLe
  rw [builtin_pair COrd.isLE _ _ _ ?_ ?_ ?_ ha hb]
  · congr 1; rw [Bool.eq_iff_iff]; simp [numPred, and_assoc]
  · intro i j
    rw [Bool.eq_iff_iff]; simp only [decide_eq_true_eq, isLE_iff, compareInt_eq_less, compareInt_eq_equal]; omega
  · intro p q
    rw [Bool.eq_iff_iff]; simp only [decide_eq_true_eq, isLE_iff, compareRat_eq_less, compareRat_eq_equal]; grind
  · intro u v
    rw [Bool.eq_iff_iff]
    simp only [f64le, F64.lt, F64.eq, Bool.or_eq_true, Bool.and_eq_true, Bool.not_eq_true', decide_eq_true_eq,
      beq_iff_eq, isLE_iff, compareInt_eq_less, compareInt_eq_equal]
    grind

end C09
