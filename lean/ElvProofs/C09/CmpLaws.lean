/-
C09 helper: order laws of `Cmp` / `CmpTotal` (antisymmetry, transitivity,
eq ⇒ equal, totality, agreement), by induction on a size bound (lists).
-/
import ElvProofs.C09.CmpNormal

namespace C09
open C08 COrd Go

def Shape.kind : Shape → Nat
  | .nil => 0 | .bool _ => 1 | .num _ => 2 | .str _ => 3 | .list _ => 4 | .other => 5

theorem typeTag_kind {a b : Val} (h : typeTag a = typeTag b) : (shape a).kind = (shape b).kind := by
  cases a <;> cases b <;> simp [typeTag, shape, Shape.kind] at h ⊢ <;> (split at h <;> omega)

theorem shape_list {a : Val} {xs : List Val} (h : shape a = .list xs) : a = .list xs := by
  cases a <;> simp [shape] at h; rw [h]

theorem flip_flip (o : COrd) : o.flip.flip = o := by cases o <;> rfl
theorem flip_eq_equal {o : COrd} : o.flip = equal ↔ o = equal := by cases o <;> simp [COrd.flip]
theorem flip_eq_unc {o : COrd} : o.flip = uncomparable ↔ o = uncomparable := by cases o <;> simp [COrd.flip]
theorem post_flip (t : Bool) (o : COrd) : post t o.flip = (post t o).flip := by
  cases t <;> cases o <;> rfl
theorem seq_less (o : COrd) : COrd.seq less o = less := rfl
theorem seq_equal (o : COrd) : COrd.seq equal o = o := rfl
theorem isLE_seq_less {o : COrd} (h : o.isLE = true) : COrd.seq o less = less := by
  cases o <;> simp [COrd.isLE] at h <;> rfl

theorem compareBool_flip (x y : Bool) : compareBool y x = (compareBool x y).flip := by
  cases x <;> cases y <;> rfl
theorem compareBool_trans (x y z : Bool) (h1 : (compareBool x y).isLE = true) (h2 : (compareBool y z).isLE = true) :
    compareBool x z = (compareBool x y).seq (compareBool y z) := by
  revert h1 h2; revert x y z; decide

/-- lexicographic step: from transitivity at the heads and at the tails. -/
theorem lex_trans (o1 o2 o3 r1 r2 r3 : COrd)
    (T : o1.isLE = true → o2.isLE = true → o3 = o1.seq o2)
    (IH : r1.isLE = true → r2.isLE = true → r3 = r1.seq r2)
    (h1 : (if (o1 != equal) = true then o1 else r1).isLE = true)
    (h2 : (if (o2 != equal) = true then o2 else r2).isLE = true) :
    (if (o3 != equal) = true then o3 else r3) =
      (if (o1 != equal) = true then o1 else r1).seq (if (o2 != equal) = true then o2 else r2) := by
  cases o1 with
  | less =>
    cases o2 with
    | less => have := T rfl rfl; subst this; rfl
    | equal => have := T rfl rfl; subst this; rfl
    | more => simp [COrd.isLE] at h2
    | uncomparable => simp [COrd.isLE] at h2
  | equal =>
    cases o2 with
    | less =>
      have := T rfl rfl; subst this
      have h1' : r1.isLE = true := by simpa using h1
      revert h1'; cases r1 <;> simp [COrd.seq, COrd.isLE]
    | equal =>
      have := T rfl rfl; subst this
      have h1' : r1.isLE = true := by simpa using h1
      have h2' : r2.isLE = true := by simpa using h2
      simpa [COrd.seq] using IH h1' h2'
    | more => simp [COrd.isLE] at h2
    | uncomparable => simp [COrd.isLE] at h2
  | more => simp [COrd.isLE] at h1
  | uncomparable => simp [COrd.isLE] at h1

/-- what `Cmp` calls comparable is of one type. -/
theorem innerS_tag {rec : List Val → List Val → COrd} {a b : Val} (h : innerS rec a b ≠ uncomparable) :
    typeTag a = typeTag b := by
  cases a <;> cases b <;> simp [innerS, shape, typeTag, Equal] at h ⊢
  case ref.ref => rw [h.1]

/-! ### element-level law bundle and its list-level consequences -/

structure Laws (rank : Nat → Nat) (total : Bool) (n : Nat) : Prop where
  flip : ∀ a b : Val, sizeOf a ≤ n → sizeOf b ≤ n → WF a → WF b →
    cmpG rank total b a = (cmpG rank total a b).flip
  trans : ∀ a b c : Val, sizeOf a ≤ n → sizeOf b ≤ n → sizeOf c ≤ n → WF a → WF b → WF c →
    (cmpG rank total a b).isLE = true → (cmpG rank total b c).isLE = true →
    cmpG rank total a c = (cmpG rank total a b).seq (cmpG rank total b c)
  eq : ∀ a b : Val, sizeOf a ≤ n → sizeOf b ≤ n → WF a → WF b → Equal a b = true →
    cmpG rank total a b = equal
  tot : total = true → ∀ a b : Val, sizeOf a ≤ n → sizeOf b ≤ n → cmpG rank total a b ≠ uncomparable

section lists
variable {rank : Nat → Nat} {total : Bool} {n : Nat}

theorem cmpList_flip (L : Laws rank total n) : ∀ xs ys : List Val, SmallL n xs → SmallL n ys →
    cmpListG rank total ys xs = (cmpListG rank total xs ys).flip := by
  intro xs
  induction xs with
  | nil => intro ys _ _; cases ys <;> rfl
  | cons x xs ih =>
    intro ys hx hy
    cases ys with
    | nil => rfl
    | cons y ys =>
      simp only [cmpListG]
      rw [L.flip x y (hx x (by simp)).1 (hy y (by simp)).1 (hx x (by simp)).2 (hy y (by simp)).2]
      rw [ih ys (fun a ha => hx a (by simp [ha])) (fun a ha => hy a (by simp [ha]))]
      cases cmpG rank total x y <;> simp [COrd.flip]

theorem cmpList_trans (L : Laws rank total n) : ∀ xs ys zs : List Val, SmallL n xs → SmallL n ys → SmallL n zs →
    (cmpListG rank total xs ys).isLE = true → (cmpListG rank total ys zs).isLE = true →
    cmpListG rank total xs zs = (cmpListG rank total xs ys).seq (cmpListG rank total ys zs) := by
  intro xs
  induction xs with
  | nil =>
    intro ys zs _ _ _ h1 h2
    cases ys <;> cases zs <;> simp [cmpListG, COrd.seq, COrd.isLE] at h1 h2 ⊢
  | cons x xs ih =>
    intro ys zs hx hy hz h1 h2
    cases ys with
    | nil => simp [cmpListG, COrd.isLE] at h1
    | cons y ys =>
      cases zs with
      | nil => simp [cmpListG, COrd.isLE] at h2
      | cons z zs =>
        obtain ⟨sx, wx⟩ := hx x (by simp)
        obtain ⟨sy, wy⟩ := hy y (by simp)
        obtain ⟨sz, wz⟩ := hz z (by simp)
        have T := L.trans x y z sx sy sz wx wy wz
        have IH := ih ys zs (fun a ha => hx a (by simp [ha])) (fun a ha => hy a (by simp [ha]))
          (fun a ha => hz a (by simp [ha]))
        simp only [cmpListG] at h1 h2 ⊢
        exact lex_trans _ _ _ _ _ _ T IH h1 h2

theorem cmpList_eq (L : Laws rank total n) : ∀ xs ys : List Val, SmallL n xs → SmallL n ys →
    xs.length = ys.length → equalList xs ys = true → cmpListG rank total xs ys = equal := by
  intro xs
  induction xs with
  | nil => intro ys _ _ hl _; cases ys with
    | nil => rfl
    | cons _ _ => simp at hl
  | cons x xs ih =>
    intro ys hx hy hl he
    cases ys with
    | nil => simp at hl
    | cons y ys =>
      rw [equalList_cons] at he
      simp only [Bool.and_eq_true] at he
      simp only [cmpListG]
      rw [L.eq x y (hx x (by simp)).1 (hy y (by simp)).1 (hx x (by simp)).2 (hy y (by simp)).2 he.1]
      simpa using ih ys (fun a ha => hx a (by simp [ha])) (fun a ha => hy a (by simp [ha])) (by simpa using hl) he.2

theorem cmpList_tot (ht : total = true) (L : Laws rank total n) : ∀ xs ys : List Val, SmallL n xs → SmallL n ys →
    cmpListG rank total xs ys ≠ uncomparable := by
  intro xs
  induction xs with
  | nil => intro ys _ _; cases ys <;> simp [cmpListG]
  | cons x xs ih =>
    intro ys hx hy
    cases ys with
    | nil => simp [cmpListG]
    | cons y ys =>
      simp only [cmpListG]
      split
      · exact L.tot ht x y (hx x (by simp)).1 (hy y (by simp)).1
      · exact ih ys (fun a ha => hx a (by simp [ha])) (fun a ha => hy a (by simp [ha]))

end lists

/-! ### the induction step -/

theorem post_of_ne {t : Bool} {o : COrd} (h : o ≠ uncomparable) : post t o = o := by
  cases t <;> cases o <;> simp [post] at h ⊢

theorem post_false (o : COrd) : post false o = o := rfl

theorem post_true_ne (o : COrd) : post true o ≠ uncomparable := by cases o <;> simp [post]

theorem compareBool_ne_unc (x y : Bool) : compareBool x y ≠ uncomparable := by
  cases x <;> cases y <;> simp [compareBool]

theorem post_compareBool (t : Bool) (x y : Bool) : post t (compareBool x y) = compareBool x y :=
  post_of_ne (compareBool_ne_unc _ _)
theorem post_numCmp (t : Bool) (x y : NumVal) : post t (NumVal.cmp x y) = NumVal.cmp x y :=
  post_of_ne (NumVal.cmp_ne_uncomparable _ _)
theorem post_compareBytes (t : Bool) (x y : Bytes) : post t (compareBytes x y) = compareBytes x y :=
  post_of_ne (compareBytes_ne_uncomparable _ _)

theorem equal_tag {a b : Val} (h : Equal a b = true) : typeTag a = typeTag b := by
  cases a <;> cases b <;> simp [Equal, typeTag] at h ⊢
  case ref.ref => rw [h.1]

section step
variable {rank : Nat → Nat} {total : Bool} {n : Nat}

theorem post_list (L : Laws rank total n) {xs ys : List Val} (hx : SmallL n xs) (hy : SmallL n ys) :
    post total (cmpListG rank total xs ys) = cmpListG rank total xs ys := by
  cases ht : total with
  | false => rfl
  | true => subst ht; exact post_of_ne (cmpList_tot rfl L xs ys hx hy)

theorem innerS_flip (L : Laws rank total n) {a b : Val} (sa : sizeOf a ≤ n + 1) (sb : sizeOf b ≤ n + 1)
    (wa : WF a) (wb : WF b) :
    innerS (cmpListG rank total) b a = (innerS (cmpListG rank total) a b).flip := by
  cases hsa : shape a <;> cases hsb : shape b <;> simp only [innerS, hsa, hsb] <;> try rfl
  · exact compareBool_flip _ _
  · exact NumVal.cmp_flip _ _
  · exact compareBytes_flip _ _
  · have ea := shape_list hsa
    have eb := shape_list hsb
    subst ea eb
    exact cmpList_flip L _ _ (small_of_list sa wa) (small_of_list sb wb)
  · rw [Equal_symm_eq wb wa]; split <;> rfl

theorem step_flip (L : Laws rank total n) (a b : Val) (sa : sizeOf a ≤ n + 1) (sb : sizeOf b ≤ n + 1)
    (wa : WF a) (wb : WF b) : cmpG rank total b a = (cmpG rank total a b).flip := by
  rw [cmpG_eq rank total b a, cmpG_eq rank total a b]
  have hty : tyCmp rank b a = (tyCmp rank a b).flip := compareNat_flip _ _
  rw [hty, innerS_flip L sa sb wa wb, post_flip]
  cases total <;> cases h : tyCmp rank a b <;> simp [COrd.flip]

theorem step_eq (L : Laws rank total n) (a b : Val) (sa : sizeOf a ≤ n + 1) (sb : sizeOf b ≤ n + 1)
    (wa : WF a) (wb : WF b) (h : Equal a b = true) : cmpG rank total a b = equal := by
  rw [cmpG_eq]
  have hty : tyCmp rank a b = equal := by
    unfold tyCmp; rw [equal_tag h]; exact compareNat_self _
  have hin : innerS (cmpListG rank total) a b = equal := by
    have h0 := h
    cases a <;> cases b <;> (try simp [Equal] at h) <;> simp only [innerS, shape]
    case bool.bool => subst h; cases ‹Bool› <;> rfl
    case int.int => subst h; exact NumVal.cmp_refl _
    case bigint.bigint => subst h; exact NumVal.cmp_refl _
    case rat.rat => subst h; exact NumVal.cmp_refl _
    case float.float x y => exact equal_num_cmp (a := .float x) (b := .float y) rfl rfl (by simpa [Equal] using h)
    case str.str => subst h; exact compareBytes_self _
    case list.list xs ys => exact cmpList_eq L xs ys (small_of_list sa wa) (small_of_list sb wb) h.1 h.2
    case ref.ref => rw [h0]; rfl
    case map.map f xs g ys => rw [h0]; rfl
  rw [hty, hin]
  cases total <;> rfl

theorem step_tot (ht : total = true) (a b : Val) : cmpG rank total a b ≠ uncomparable := by
  rw [cmpG_eq]
  subst ht
  split
  · exact compareNat_ne_uncomparable _ _
  · exact post_true_ne _

/-- transitivity below the type comparison. -/
theorem inner_trans (L : Laws rank total n) {a b c : Val}
    (sa : sizeOf a ≤ n + 1) (sb : sizeOf b ≤ n + 1) (sc : sizeOf c ≤ n + 1) (wa : WF a) (wb : WF b) (wc : WF c)
    (k1 : (shape a).kind = (shape b).kind) (k2 : (shape b).kind = (shape c).kind)
    (h1 : (post total (innerS (cmpListG rank total) a b)).isLE = true)
    (h2 : (post total (innerS (cmpListG rank total) b c)).isLE = true) :
    post total (innerS (cmpListG rank total) a c) =
      (post total (innerS (cmpListG rank total) a b)).seq (post total (innerS (cmpListG rank total) b c)) := by
  cases hsa : shape a <;> cases hsb : shape b <;> simp [hsa, hsb, Shape.kind] at k1 <;>
    cases hsc : shape c <;> simp [hsb, hsc, Shape.kind] at k2 <;>
    simp only [innerS, hsa, hsb, hsc] at h1 h2 ⊢
  · cases total <;> rfl
  · simp only [post_compareBool] at h1 h2 ⊢
    exact compareBool_trans _ _ _ h1 h2
  · simp only [post_numCmp] at h1 h2 ⊢
    exact NumVal.cmp_trans _ _ _ h1 h2
  · simp only [post_compareBytes] at h1 h2 ⊢
    exact compareBytes_trans _ _ _ h1 h2
  · have ea := shape_list hsa
    have eb := shape_list hsb
    have ec := shape_list hsc
    subst ea eb ec
    have xa := small_of_list sa wa
    have xb := small_of_list sb wb
    have xc := small_of_list sc wc
    rw [post_list L xa xb] at h1 ⊢
    rw [post_list L xb xc] at h2 ⊢
    rw [post_list L xa xc]
    exact cmpList_trans L _ _ _ xa xb xc h1 h2
  · cases total with
    | true => cases Equal a b <;> cases Equal b c <;> cases Equal a c <;> rfl
    | false =>
      simp only [post_false] at h1 h2 ⊢
      have e1 : Equal a b = true := by
        cases h : Equal a b with
        | true => rfl
        | false => simp [h, COrd.isLE] at h1
      have e2 : Equal b c = true := by
        cases h : Equal b c with
        | true => rfl
        | false => simp [h, COrd.isLE] at h2
      simp [e1, e2, Equal_trans wa wb wc e1 e2, COrd.seq]

theorem isLE_ne_unc {o : COrd} (h : o.isLE = true) : o ≠ uncomparable := by
  cases o <;> simp [COrd.isLE] at h ⊢

theorem step_trans (hinj : total = true → ∀ s t, rank s = rank t → s = t) (L : Laws rank total n) (a b c : Val)
    (sa : sizeOf a ≤ n + 1) (sb : sizeOf b ≤ n + 1) (sc : sizeOf c ≤ n + 1) (wa : WF a) (wb : WF b) (wc : WF c)
    (h1 : (cmpG rank total a b).isLE = true) (h2 : (cmpG rank total b c).isLE = true) :
    cmpG rank total a c = (cmpG rank total a b).seq (cmpG rank total b c) := by
  rw [cmpG_eq] at h1 h2 ⊢
  rw [cmpG_eq rank total a b, cmpG_eq rank total b c]
  cases ht : total with
  | false =>
    subst ht
    simp only [Bool.false_and, Bool.false_eq_true, if_false] at h1 h2 ⊢
    have k1 := typeTag_kind (innerS_tag (isLE_ne_unc h1))
    have k2 := typeTag_kind (innerS_tag (isLE_ne_unc h2))
    exact inner_trans L sa sb sc wa wb wc k1 k2 h1 h2
  | true =>
    subst ht
    simp only [Bool.true_and] at h1 h2 ⊢
    unfold tyCmp at h1 h2 ⊢
    generalize hra : rank (typeTag a) = ra at h1 h2 ⊢
    generalize hrb : rank (typeTag b) = rb at h1 h2 ⊢
    generalize hrc : rank (typeTag c) = rc at h1 h2 ⊢
    rcases Nat.lt_trichotomy ra rb with hab | hab | hab
    · rw [compareNat_of_lt hab] at h1 ⊢
      rcases Nat.lt_trichotomy rb rc with hbc | hbc | hbc
      · rw [compareNat_of_lt hbc, compareNat_of_lt (Nat.lt_trans hab hbc)]; rfl
      · subst hbc; rw [compareNat_of_lt hab]; simp [COrd.seq]
      · rw [compareNat_of_gt hbc] at h2; simp [COrd.isLE] at h2
    · subst hab
      rw [compareNat_self] at h1 ⊢
      rcases Nat.lt_trichotomy ra rc with hbc | hbc | hbc
      · rw [compareNat_of_lt hbc] at h2 ⊢
        simp only [bne_self_eq_false, Bool.false_eq_true, if_false] at h1 ⊢
        simp [isLE_seq_less h1]
      · subst hbc
        rw [compareNat_self] at h2 ⊢
        simp only [bne_self_eq_false, Bool.false_eq_true, if_false] at h1 h2 ⊢
        have t1 : typeTag a = typeTag b := hinj rfl _ _ (hra.trans hrb.symm)
        have t2 : typeTag b = typeTag c := hinj rfl _ _ (hrb.trans hrc.symm)
        exact inner_trans L sa sb sc wa wb wc (typeTag_kind t1) (typeTag_kind t2) h1 h2
      · rw [compareNat_of_gt hbc] at h2; simp [COrd.isLE] at h2
    · rw [compareNat_of_gt hab] at h1; simp [COrd.isLE] at h1

theorem laws_step (hinj : total = true → ∀ s t, rank s = rank t → s = t) (L : Laws rank total n) :
    Laws rank total (n + 1) where
  flip := step_flip L
  trans := step_trans hinj L
  eq := step_eq L
  tot := fun ht a b _ _ => step_tot ht a b

theorem laws_at (hinj : total = true → ∀ s t, rank s = rank t → s = t) : ∀ n, Laws rank total n := by
  intro n
  induction n with
  | zero =>
    refine ⟨?_, ?_, ?_, ?_⟩
    · intro a _ sa; cases a <;> simp at sa
    · intro a _ _ sa; cases a <;> simp at sa
    · intro a _ sa; cases a <;> simp at sa
    · intro _ a _ sa; cases a <;> simp at sa
  | succ n ih => exact laws_step hinj ih

end step

/-! ### `CmpTotal` agrees with `Cmp` wherever `Cmp` compares -/

def AgreeAt (r r' : Nat → Nat) (n : Nat) : Prop :=
  ∀ a b : Val, sizeOf a ≤ n → sizeOf b ≤ n → cmpG r' false a b ≠ uncomparable →
    cmpG r true a b = cmpG r' false a b

theorem cmpList_agree {r r' : Nat → Nat} {n : Nat} (A : AgreeAt r r' n) : ∀ xs ys : List Val,
    (∀ x ∈ xs, sizeOf x ≤ n) → (∀ y ∈ ys, sizeOf y ≤ n) →
    cmpListG r' false xs ys ≠ uncomparable → cmpListG r true xs ys = cmpListG r' false xs ys := by
  intro xs
  induction xs with
  | nil => intro ys _ _ _; cases ys <;> rfl
  | cons x xs ih =>
    intro ys hx hy h
    cases ys with
    | nil => rfl
    | cons y ys =>
      simp only [cmpListG] at h ⊢
      by_cases he : cmpG r' false x y = equal
      · have := A x y (hx x (by simp)) (hy y (by simp)) (by rw [he]; simp)
        rw [this, he]
        rw [he] at h
        simp only [bne_self_eq_false, Bool.false_eq_true, if_false] at h ⊢
        exact ih ys (fun a ha => hx a (by simp [ha])) (fun a ha => hy a (by simp [ha])) h
      · have hne : (cmpG r' false x y != equal) = true := by simpa using he
        simp only [hne, if_true] at h
        have := A x y (hx x (by simp)) (hy y (by simp)) h
        rw [this]
        simp [hne]

theorem agree_step {r r' : Nat → Nat} {n : Nat} (A : AgreeAt r r' n) : AgreeAt r r' (n + 1) := by
  intro a b sa sb h
  rw [cmpG_eq] at h ⊢
  rw [cmpG_eq r' false a b]
  simp only [Bool.false_and, Bool.false_eq_true, if_false, post_false] at h ⊢
  have htag := innerS_tag h
  have hty : tyCmp r a b = equal := by unfold tyCmp; rw [htag]; exact compareNat_self _
  simp only [hty, bne_self_eq_false, Bool.and_false, Bool.false_eq_true, if_false]
  have hin : innerS (cmpListG r true) a b = innerS (cmpListG r' false) a b := by
    cases hsa : shape a <;> cases hsb : shape b <;> simp only [innerS, hsa, hsb] at h ⊢
    have ea := shape_list hsa
    have eb := shape_list hsb
    subst ea eb
    refine cmpList_agree A _ _ ?_ ?_ h
    · intro x hx; have := sizeOf_mem_list hx; omega
    · intro y hy; have := sizeOf_mem_list hy; omega
  rw [hin]
  exact post_of_ne h

theorem agree_at (r r' : Nat → Nat) : ∀ n, AgreeAt r r' n := by
  intro n
  induction n with
  | zero => intro a _ sa; cases a <;> simp at sa
  | succ n ih => exact agree_step ih

/-- `Cmp` does not depend on the type order. -/
theorem cmpG_false_rank (r r' : Nat → Nat) : ∀ n (a b : Val), sizeOf a ≤ n → sizeOf b ≤ n →
    cmpG r false a b = cmpG r' false a b := by
  intro n
  induction n with
  | zero => intro a _ sa; cases a <;> simp at sa
  | succ n ih =>
    intro a b sa sb
    rw [cmpG_eq, cmpG_eq r' false a b]
    simp only [Bool.false_and, Bool.false_eq_true, if_false, post_false]
    cases hsa : shape a <;> cases hsb : shape b <;> simp only [innerS, hsa, hsb]
    have ea := shape_list hsa
    have eb := shape_list hsb
    subst ea eb
    rename_i xs ys
    have hx : ∀ x ∈ xs, sizeOf x ≤ n := fun x hx => by have := sizeOf_mem_list hx; omega
    have hy : ∀ y ∈ ys, sizeOf y ≤ n := fun y hy => by have := sizeOf_mem_list hy; omega
    clear sa sb hsa hsb
    induction xs generalizing ys with
    | nil => cases ys <;> rfl
    | cons x xs ihx =>
      cases ys with
      | nil => rfl
      | cons y ys =>
        simp only [cmpListG]
        rw [ih x y (hx x (by simp)) (hy y (by simp)),
          ihx ys (fun a ha => hx a (by simp [ha])) (fun a ha => hy a (by simp [ha]))]

end C09
