/-
C09 helper: the order of float64 bit patterns (sign-magnitude key) is the
order of their exact values.
-/
import ElvModel.C09.Spec

namespace C09
open C08 COrd

/-- value of a magnitude pattern, scaled by 2^1074. -/
def magVal (m : Nat) : Nat :=
  if m / 2 ^ 52 = 0 then m % 2 ^ 52 else (2 ^ 52 + m % 2 ^ 52) * 2 ^ (m / 2 ^ 52 - 1)

theorem magVal_zero : magVal 0 = 0 := by decide

theorem magVal_strictMono {m1 m2 : Nat} (h : m1 < m2) : magVal m1 < magVal m2 := by
  unfold magVal
  have hc : (2 : Nat) ^ 52 = 4503599627370496 := by decide
  rw [hc]
  generalize he1 : m1 / 4503599627370496 = e1
  generalize hf1 : m1 % 4503599627370496 = f1
  generalize he2 : m2 / 4503599627370496 = e2
  generalize hf2 : m2 % 4503599627370496 = f2
  have hf1lt : f1 < 4503599627370496 := by omega
  have hf2lt : f2 < 4503599627370496 := by omega
  have hcase : e1 < e2 ∨ (e1 = e2 ∧ f1 < f2) := by omega
  rcases hcase with hlt | ⟨rfl, hf⟩
  · have he2 : e2 ≠ 0 := by omega
    simp only [he2, if_false]
    have hQ : 4503599627370496 * 2 ^ (e2 - 1) ≤ (4503599627370496 + f2) * 2 ^ (e2 - 1) :=
      Nat.mul_le_mul_right _ (by omega)
    by_cases h1 : e1 = 0
    · simp only [h1, if_true]
      have : 1 ≤ 2 ^ (e2 - 1) := Nat.one_le_two_pow
      have : 4503599627370496 * 1 ≤ 4503599627370496 * 2 ^ (e2 - 1) := Nat.mul_le_mul_left _ this
      omega
    · simp only [h1, if_false]
      have hP : 2 ^ e1 ≤ 2 ^ (e2 - 1) := Nat.pow_le_pow_right (by decide) (by omega)
      have hP2 : 2 ^ e1 = 2 * 2 ^ (e1 - 1) := by
        have : e1 = (e1 - 1) + 1 := by omega
        rw [this, Nat.pow_succ]; simp; omega
      have hpos : 0 < 2 ^ (e1 - 1) := Nat.two_pow_pos _
      have a1 : (4503599627370496 + f1) * 2 ^ (e1 - 1) < (2 * 4503599627370496) * 2 ^ (e1 - 1) :=
        Nat.mul_lt_mul_of_pos_right (by omega) hpos
      have a2 : (2 * 4503599627370496) * 2 ^ (e1 - 1) = 4503599627370496 * 2 ^ e1 := by
        rw [hP2]; rw [Nat.mul_comm 2 4503599627370496, Nat.mul_assoc]
      have a3 : 4503599627370496 * 2 ^ e1 ≤ 4503599627370496 * 2 ^ (e2 - 1) := Nat.mul_le_mul_left _ hP
      omega
  · by_cases h1 : e1 = 0
    · simp only [h1, if_true]; exact hf
    · simp only [h1, if_false]
      exact Nat.mul_lt_mul_of_pos_right (by omega) (Nat.two_pow_pos _)

theorem magVal_pos {m : Nat} (h : 0 < m) : 0 < magVal m := by
  have := magVal_strictMono h
  rw [magVal_zero] at this
  exact this

/-- scaled value as a function of the order key. -/
def keyVal (k : Int) : Int := if k < 0 then - (magVal k.natAbs : Int) else (magVal k.natAbs : Int)

theorem keyVal_strictMono {k1 k2 : Int} (h : k1 < k2) : keyVal k1 < keyVal k2 := by
  unfold keyVal
  by_cases h1 : k1 < 0 <;> by_cases h2 : k2 < 0 <;> simp only [h1, h2, if_true, if_false]
  · have : k2.natAbs < k1.natAbs := by omega
    have := magVal_strictMono this
    omega
  · have : 0 < k1.natAbs := by omega
    have := magVal_pos this
    omega
  · omega
  · have : k1.natAbs < k2.natAbs := by omega
    have := magVal_strictMono this
    omega

theorem scaled_eq_keyVal (b : UInt64) : F64.scaled b = keyVal (F64.key b) := by
  unfold F64.scaled keyVal F64.key magVal
  by_cases hn : F64.neg b = true
  · simp only [hn, if_true]
    by_cases hz : F64.mag b = 0
    · simp [hz]
    · have : -(F64.mag b : Int) < 0 := by omega
      simp only [this, if_true, Int.natAbs_neg, Int.natAbs_natCast]
  · simp only [hn]
    have : ¬ ((F64.mag b : Int) < 0) := by omega
    simp only [Bool.false_eq_true, if_false, this, Int.natAbs_natCast]

theorem scaled_lt_iff (a b : UInt64) : F64.scaled a < F64.scaled b ↔ F64.key a < F64.key b := by
  rw [scaled_eq_keyVal, scaled_eq_keyVal]
  constructor
  · intro h
    rcases Int.lt_trichotomy (F64.key a) (F64.key b) with h1 | h1 | h1
    · exact h1
    · rw [h1] at h; omega
    · have := keyVal_strictMono h1; omega
  · exact keyVal_strictMono

theorem mkRat_lt_mkRat (a b : Int) {d : Nat} (hd : 0 < d) : mkRat a d < mkRat b d ↔ a < b := by
  rw [Rat.mkRat_eq_div, Rat.mkRat_eq_div, Rat.div_def, Rat.div_def]
  have hpos : (0 : Rat) < ((d : Rat))⁻¹ := by
    apply Rat.inv_pos.2
    exact_mod_cast hd
  rw [Rat.mul_lt_mul_right hpos]
  exact Rat.intCast_lt_intCast

theorem toRat_lt_iff (a b : UInt64) : F64.toRat a < F64.toRat b ↔ F64.key a < F64.key b := by
  unfold F64.toRat
  rw [mkRat_lt_mkRat _ _ (Nat.two_pow_pos _), scaled_lt_iff]

end C09
