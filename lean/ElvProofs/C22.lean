import ElvModel.C22.Model
import ElvModel.C22.Spec
import ElvProofs.C22.History
import ElvProofs.C22.Fuel
import ElvProofs.C22.Paths
open C22

/-!
# C22 — a module is evaluated at most once per interpreter and shared

All theorems are about the executable model `ElvModel/C22/Model.lean` of
`use` / `useFromFile` / `evalModule` and the `Evaler.modules` cache (tied to
pkg/eval by `./check C22`), for EVERY world `w` (file system, lib dirs, bundled
and pre-defined modules; module bodies are arbitrary lists of `use`, `try use`,
`var`, `fail`, `fail on the first n evaluations`) and EVERY sequential history
`ops` of top-level imports — any module graph, diamonds and cycles included.
`run w ops` is the state after the history; its `log` (newest first) is the
ghost history of events, `mods` the cache.  Vocabulary: `ElvModel/C22/Spec.lean`.
-/

/-! ## worked example used for non-vacuity (the cycle of the language reference, made to fail once) -/

/-- `a.elv`: `var d; use ./b; fail on the first evaluation; var d` — `b.elv`: `use ./a` -/
def C22.exW : World :=
  { files := [(["w", "a"], .code [.def_, .use [".", "b"], .failUntil 1, .def_]),
              (["w", "b"], .code [.use [".", "a"]])],
    libDirs := [["lib"]], bundled := [], predefined := [["pre"]] }
/-- `try { use ./a } catch { }` typed in directory `/w` -/
def C22.exTry : Op := { cwd := ["w"], base := none, acts := [.tryUse [".", "a"]] }
/-- `use ./a; use ./sub/../b` in a script file in `/w` -/
def C22.exUse : Op := { cwd := ["elsewhere"], base := some ["w"], acts := [.use [".", "a"], .use [".", "sub", "..", "b"]] }

/-! ## The invariant: the cache is exactly "started and not failed" -/

/-- `modules[k]` is present iff an evaluation of `k` started and has not failed,
and then holds the namespace of the latest such evaluation. -/
theorem C22_invariant (w : World) (ops : List Op) (k : Key) :
    mget (run w ops).mods k = live (run w ops).log k :=
  (run_inv w ops).coherent k

/-- Every event of every history is justified by the history before it: an
evaluation of `k` starts only when nothing is installed under `k`; every
namespace handed out by `use` (cache hit, completed evaluation, what the
importer received) is the one installed at that moment; an evaluation that
fails was installed and had not completed. -/
theorem C22_history_wf (w : World) (ops : List Op) : WF (run w ops).log :=
  (run_inv w ops).wf

example : (run exW [exTry, exUse]).log.length = 20 := by decide

/-! ## At most once -/

/-- Each module key is successfully evaluated at most once, however often and
from wherever it is imported. -/
theorem C22_at_most_once (w : World) (ops : List Op) (k : Key) :
    countDone (run w ops).log k ≤ 1 :=
  countDone_le_one (C22_history_wf w ops) k

example : countDone (run exW [exTry, exUse, exUse]).log ["", "w", "a"] = 1 := by decide

/-- No evaluation of `k` starts while a namespace for `k` is installed — be it
completed or still in progress (cycle). -/
theorem C22_no_reevaluation_while_cached (w : World) (ops : List Op) (k : Key) (t : Nat) (l : List Ev)
    (h : (Ev.start k t :: l) <:+ (run w ops).log) : live l k = none :=
  ((C22_history_wf w ops).suffix h).2

/-! ## All importers see the same namespace -/

/-- Two imports of the same key, in this order, with no failed evaluation of
that key in between, receive the same namespace object — whoever imports,
through whatever spelling of the spec. -/
theorem C22_shared (w : World) (ops : List Op) (k : Key)
    (b1 b2 : Option Nat) (sp1 sp2 : Str) (t1 t2 n1 n2 : Nat) (mid l : List Ev)
    (h : (Ev.got b2 sp2 k t2 n2 :: (mid ++ Ev.got b1 sp1 k t1 n1 :: l)) <:+ (run w ops).log)
    (hnf : ∀ t, Ev.failed k t ∉ mid) : t1 = t2 := by
  have hwf := (C22_history_wf w ops).suffix h
  have h2 : live (mid ++ Ev.got b1 sp1 k t1 n1 :: l) k = some t2 := hwf.2
  have hwf1 : WF (Ev.got b1 sp1 k t1 n1 :: l) := hwf.1.suffix ⟨mid, rfl⟩
  have h1 : live (Ev.got b1 sp1 k t1 n1 :: l) k = some t1 := hwf1.2
  have := live_stable k t1 _ mid hwf.1 hnf h1
  rw [this] at h2
  injection h2

/-- the script's `use ./sub/../b` and module `a`'s `use ./b` received the same namespace #2 -/
example : (Ev.got none [".", "sub", "..", "b"] ["", "w", "b"] 2 0 ::
      ([Ev.hit ["", "w", "b"] 2, Ev.got none [".", "a"] ["", "w", "a"] 3 2, Ev.done ["", "w", "a"] 3, Ev.def_ (some 3)]
        ++ Ev.got (some 3) [".", "b"] ["", "w", "b"] 2 0 :: (run exW [exTry, exUse]).log.drop 6))
      <:+ (run exW [exTry, exUse]).log :=
  ⟨[], by decide⟩

/-- In a history in which no evaluation of `k` fails, `k` is evaluated at most
once altogether and ALL importers receive one and the same namespace. -/
theorem C22_shared_failure_free (w : World) (ops : List Op) (k : Key)
    (hnf : ∀ t, Ev.failed k t ∉ (run w ops).log) :
    countStarts (run w ops).log k ≤ 1 ∧
    ∀ b1 b2 sp1 sp2 t1 t2 n1 n2, Ev.got b1 sp1 k t1 n1 ∈ (run w ops).log →
      Ev.got b2 sp2 k t2 n2 ∈ (run w ops).log → t1 = t2 := by
  refine ⟨countStarts_le_one (C22_history_wf w ops) k hnf, ?_⟩
  intro b1 b2 sp1 sp2 t1 t2 n1 n2 h1 h2
  have a := got_live_final (C22_history_wf w ops) k hnf b1 sp1 t1 n1 h1
  have b := got_live_final (C22_history_wf w ops) k hnf b2 sp2 t2 n2 h2
  rw [a] at b; injection b

/-- no evaluation of `b` fails in the example history (the hypothesis is satisfiable) -/
example : (run exW [exTry, exUse]).log.all (fun e => match e with
    | .failed k _ => decide (k ≠ ["", "w", "b"])
    | _ => true) = true := by decide

/-! ## Cycles: the partially initialised namespace, no re-evaluation -/

/-- While an evaluation of a file is in progress (on the stack of ANY state
reachable by the model), a `use` that resolves to that file returns the
installed, partially initialised namespace at once — a cache hit, no new
evaluation, no recursion. -/
theorem C22_cycle (w : World) (rec : Rec) (s : St) (hs : Steps St.empty s) (p : List Comp) (t : Nat)
    (h : (pathStr p, t) ∈ s.stack) :
    useFromFile w rec s p = (s.emit (.hit (pathStr p) t), .ok (pathStr p) t) := by
  have := (Inv.empty.steps hs).stackIn _ _ h
  unfold useFromFile
  simp [this]

/-- the same for a bundled module that is in progress -/
theorem C22_cycle_bundled (w : World) (cwd : List Comp) (rec : Rec) (cx : Cx) (s : St)
    (hs : Steps St.empty s) (sp : Str) (t : Nat) (hrel : isRel sp = false) (h : (sp, t) ∈ s.stack) :
    useStep w cwd rec cx s sp = (s.emit (.hit sp t), .ok sp t) := by
  have := (Inv.empty.steps hs).stackIn _ _ h
  unfold useStep
  simp [hrel, this]

/-- the importer in a cycle sees the namespace half-way: `b` imported `a` when 1 of `a`'s 2 variables was set -/
example : Ev.got (some 2) [".", "a"] ["", "w", "a"] 1 1 ∈ (run exW [exUse]).log := by decide

/-! ## Failure: not remembered, evaluated again -/

/-- When the body of a module fails, `evalModule` leaves its key absent. -/
theorem C22_failed_forgotten (rec : Rec) (key : Key) (base : Option (List Comp)) (body : List Act)
    (s : St) (d : Bool) (c : Cause) (h : (evalModule rec key base body s).2 = .err d c) :
    mget (evalModule rec key base body s).1.mods key = none := by
  unfold evalModule at h ⊢
  simp only at h ⊢
  split at h
  · cases h
  · exact mget_mdel_same _ _

/-- A later import of a key that is absent (never loaded, or its evaluation
failed) whose file has code evaluates it again, with a fresh namespace. -/
theorem C22_reevaluated_after_failure (w : World) (rec : Rec) (hrec : RecOK rec) (s : St) (p : List Comp)
    (body : List Act) (habs : mget s.mods (pathStr p) = none) (hf : assoc p w.files = some (.code body)) :
    Ev.start (pathStr p) s.next ∈ (useFromFile w rec s p).1.log := by
  unfold useFromFile
  simp only [habs, hf]
  unfold evalModule
  simp only
  have hb := runBody_good rec hrec { base := some (dirOf p), tok := some s.next, key := pathStr p } body
    ⟨mset s.mods (pathStr p) s.next, s.next + 1, (pathStr p, s.next) :: s.stack, .start (pathStr p) s.next :: s.log⟩ rfl
  revert hb
  generalize runBody rec { base := some (dirOf p), tok := some s.next, key := pathStr p } body
    ⟨mset s.mods (pathStr p) s.next, s.next + 1, (pathStr p, s.next) :: s.stack, .start (pathStr p) s.next :: s.log⟩ = q
  obtain ⟨s2, c⟩ := q
  intro hb
  have hmem : Ev.start (pathStr p) s.next ∈ s2.log := hb.1.log_suffix.subset List.mem_cons_self
  cases c with
  | none => exact List.mem_cons_of_mem _ hmem
  | some c => exact List.mem_cons_of_mem _ hmem

/-- the failed evaluation #1 of `a` and its re-evaluation #3 -/
example : Ev.failed ["", "w", "a"] 1 ∈ (run exW [exTry, exUse]).log ∧
    Ev.start ["", "w", "a"] 3 ∈ (run exW [exTry, exUse]).log := by decide

/-! ## Termination of the import recursion -/

/-- Measure: installing the key of a nested evaluation strictly decreases the
number of evaluable keys missing from the cache … -/
theorem C22_measure_decreases (w : World) (s s1 : St) (key : Key) (t : Nat) (hk : key ∈ allKeys w)
    (habs : mget s.mods key = none) (h1 : s1.mods = mset s.mods key t) : missing w s1 < missing w s :=
  missing_lt_of_install w s s1 key t hk habs h1

/-- … and nothing that a `use` does increases it (entries present before a call are present after). -/
theorem C22_measure_monotone (w : World) (cwd : List Comp) (f : Nat) (cx : Cx) (s : St) (sp : Str) :
    missing w (useSpec w cwd f cx s sp).1 ≤ missing w s :=
  missing_le_of_keeps w (useSpec_keeps w cwd f cx s sp)

/-- So `|files with code| + |bundled| + 1` levels of nesting always suffice:
no top-level import, from any state, runs out of fuel — cycles terminate. -/
theorem C22_terminates (w : World) (s : St) (o : Op) : (runOp w s o).2 ≠ some .fuel :=
  runBody_nf w _ (enough w) (useSpec_keeps w o.cwd _) (useSpec_nf w o.cwd _) (topCx o) o.acts s
    (missing_lt_enough w s)

example : (runOp exW (run exW [exTry]) exUse).2 = none := by decide

/-! ## Relative imports -/

/-- A relative spec is resolved against the directory of the importing file
if the code is from a file, else against the working directory; the result
(cleaned) is the cache key. -/
theorem C22_relative_resolution (w : World) (cwd : List Comp) (rec : Rec) (cx : Cx) (s : St) (sp : Str)
    (h : isRel sp = true) :
    useStep w cwd rec cx s sp =
      useFromFile w rec s (joinClean (match cx.base with | some d => d | none => cwd) sp) := by
  unfold useStep; rw [if_pos h]; rfl

/-- … in particular code from a file does not depend on the working directory. -/
theorem C22_relative_file_ignores_cwd (w : World) (cwd cwd' : List Comp) (rec : Rec) (cx : Cx) (s : St)
    (sp : Str) (d : List Comp) (h : isRel sp = true) (hb : cx.base = some d) :
    useStep w cwd rec cx s sp = useStep w cwd' rec cx s sp := by
  rw [C22_relative_resolution _ _ _ _ _ _ h, C22_relative_resolution _ _ _ _ _ _ h, hb]

/-- `Clean(dir + "/" + spec)` is the walk from `dir` along the spec (`.` and
empty elements stay, `..` goes to the parent, a name descends), and yields a clean path. -/
theorem C22_relative_is_walk (d : List Comp) (h : ∀ c ∈ d, Plain c) (sp : Str) :
    joinClean d sp = walk d sp ∧ ∀ c ∈ joinClean d sp, Plain c := by
  rw [joinClean_walk d h sp]
  exact ⟨rfl, walk_plain_result sp d h⟩

/-- Different spellings of the same file give the same key. -/
theorem C22_spellings (d : List Comp) (h : ∀ c ∈ d, Plain c) (a x : Comp) (ha : Plain a) (hx : Plain x) :
    joinClean d [".", a] = d ++ [a] ∧
    joinClean d [".", x, "..", a] = d ++ [a] ∧
    joinClean d [".", ".", "", a] = d ++ [a] ∧
    joinClean d ["..", x, "..", a] = d.dropLast ++ [a] := by
  obtain ⟨a1, a2, a3⟩ := ha
  obtain ⟨x1, x2, x3⟩ := hx
  simp only [joinClean_walk d h]
  simp [walk, a1, a2, a3, x1, x2, x3]

example : joinClean ["w"] [".", "sub", "..", "a"] = ["w", "a"] ∧ joinClean ["w", "sub"] ["..", "a"] = ["w", "a"] := by
  decide

/-! ## A discarded namespace can stay visible: the full sharing statement fails -/

/-- Full strength of "all importers see the same namespace" at the level of
states: no completed, cached module holds a namespace that the interpreter
has discarded.  FALSE on the unchanged tree (finding `failed-namespace-retained`). -/
def C22_full_no_stale : Prop := ∀ (w : World) (ops : List Op), ¬ Stale (run w ops).log

/-- Witness: `a` imports `b`, `b` imports `a` (cycle, receives `a`'s namespace
in progress), `b` completes, then `a` fails.  `a` is unloaded, `b` stays cached
holding the discarded namespace; the re-import of `a` makes a second one. -/
theorem C22_counterexample : ¬ C22_full_no_stale := by
  intro h
  apply h exW [exTry, exUse]
  exact ⟨2, [".", "a"], ["", "w", "a"], 1, 1, by decide, ⟨["", "w", "a"], by decide⟩, ⟨["", "w", "b"], by decide⟩⟩

/-- Proved part: in a history without cyclic imports (every `use` hands out a
namespace whose evaluation has completed) no namespace that was ever handed
out is discarded — in particular nothing is stale.  The gap to
`C22_full_no_stale` is exactly the histories with a cyclic import whose outer
evaluation later fails. -/
theorem C22_no_stale_partial (w : World) (ops : List Op) (hac : Acyclic (run w ops).log) :
    (∀ b sp k t n, Ev.got b sp k t n ∈ (run w ops).log → ¬ failedTok (run w ops).log t) ∧
    ¬ Stale (run w ops).log := by
  have key : ∀ b sp k t n, Ev.got b sp k t n ∈ (run w ops).log → ¬ failedTok (run w ops).log t := by
    intro b sp k t n hm ⟨k', hf⟩
    obtain ⟨pre, post, heq⟩ := List.append_of_mem hm
    have hd : Ev.done k t ∈ post := hac b sp k t n post ⟨pre, heq.symm⟩
    have hd' : Ev.done k t ∈ (run w ops).log := by
      rw [heq]; exact List.mem_append_right _ (List.mem_cons_of_mem _ hd)
    exact (run_invT w ops).excl k k' t hd' hf
  refine ⟨key, ?_⟩
  intro ⟨b, sp, k, t, n, hm, hf, _⟩
  exact key _ sp k t n hm hf

example : Acyclic (run exW [{ cwd := ["w"], base := none, acts := [.use ["pre"]] }]).log := by
  intro b sp k t n l h
  have hlog : (run exW [{ cwd := ["w"], base := none, acts := [.use ["pre"]] }]).log =
      [Ev.got none ["pre"] ["pre"] 0 0, .hit ["pre"] 0, .done ["pre"] 0, .start ["pre"] 0] := by decide
  rw [hlog] at h
  rcases List.suffix_cons_iff.mp h with h | h
  · injection h with h1 h2
    injection h1 with _ _ hk ht _
    subst hk; subst ht; subst h2; decide
  · rcases List.suffix_cons_iff.mp h with h | h
    · cases h
    · rcases List.suffix_cons_iff.mp h with h | h
      · cases h
      · rcases List.suffix_cons_iff.mp h with h | h
        · cases h
        · have := List.IsSuffix.length_le h
          simp at this

/-- Top-level code is never affected: whatever a top-level `use` receives is a
completed evaluation, and a completed evaluation is never discarded. -/
theorem C22_top_level_never_stale (w : World) (ops : List Op) (sp : Str) (k : Key) (t n : Nat)
    (h : Ev.got none sp k t n ∈ (run w ops).log) :
    Ev.done k t ∈ (run w ops).log ∧ ¬ failedTok (run w ops).log t := by
  obtain ⟨pre, post, heq⟩ := List.append_of_mem h
  have hd : Ev.done k t ∈ post := (run_invL w ops).topDone sp k t n post ⟨pre, heq.symm⟩
  have hd' : Ev.done k t ∈ (run w ops).log := by
    rw [heq]; exact List.mem_append_right _ (List.mem_cons_of_mem _ hd)
  exact ⟨hd', fun ⟨k', hf⟩ => (run_invT w ops).excl k k' t hd' hf⟩
