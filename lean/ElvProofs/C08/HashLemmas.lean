/-
`Equal a b → Hash a = Hash b` on well-formed values (fixed tree: float zeros
hash alike), and reflexivity of `Equal` on NaN-free values.
-/
import ElvProofs.C08.EqualEquiv

namespace C08
open Gen.C08Hash

/-- order-independent sum of a term over a list. -/
def sumT {α : Type} (t : α → UInt32) : List α → UInt32
  | [] => 0
  | x :: xs => t x + sumT t xs

theorem sumT_append_cons {α : Type} (t : α → UInt32) (s : List α) (q : α) (u : List α) :
    sumT t (s ++ q :: u) = t q + sumT t (s ++ u) := by
  induction s with
  | nil => rfl
  | cons x s ih =>
    simp only [List.cons_append, sumT, ih]
    rw [← UInt32.add_assoc, ← UInt32.add_assoc, UInt32.add_comm (t x)]

/-- equal sums from an injective matching between equally long lists. -/
theorem sumT_eq_of_matching {α : Type} (t : α → UInt32) (M : α → α → Prop) :
    ∀ (xs ys : List α), xs.length = ys.length →
      (∀ p ∈ xs, ∃ q ∈ ys, M p q ∧ t p = t q) →
      xs.Pairwise (fun p p' => ∀ q ∈ ys, ¬ (M p q ∧ M p' q)) →
      sumT t xs = sumT t ys := by
  intro xs
  induction xs with
  | nil =>
    intro ys hlen _ _
    cases ys with
    | nil => rfl
    | cons _ _ => simp at hlen
  | cons p xs ih =>
    intro ys hlen hm hinj
    obtain ⟨q0, hq0, hpq0, ht0⟩ := hm p (by simp)
    obtain ⟨s, u, rfl⟩ := List.append_of_mem hq0
    rw [List.pairwise_cons] at hinj
    obtain ⟨hhead, htail⟩ := hinj
    have hlen' : xs.length = (s ++ u).length := by
      simp at hlen ⊢; omega
    have hm' : ∀ p' ∈ xs, ∃ q' ∈ s ++ u, M p' q' ∧ t p' = t q' := by
      intro p' hp'
      obtain ⟨q', hq', hpq', ht'⟩ := hm p' (by simp [hp'])
      have : q' ∈ s ∨ q' = q0 ∨ q' ∈ u := by simpa using hq'
      rcases this with h | rfl | h
      · exact ⟨q', by simp [h], hpq', ht'⟩
      · exact absurd ⟨hpq0, hpq'⟩ (hhead p' hp' q' hq0)
      · exact ⟨q', by simp [h], hpq', ht'⟩
    have hinj' : xs.Pairwise (fun p p' => ∀ q ∈ s ++ u, ¬ (M p q ∧ M p' q)) := by
      refine htail.imp ?_
      intro a b hab q hq
      apply hab q
      have : q ∈ s ∨ q ∈ u := by simpa using hq
      rcases this with h | h <;> simp [h]
    rw [sumT_append_cons, sumT, ih (s ++ u) hlen' hm' hinj', ht0]

section
variable (rh : Nat → Nat → UInt32) (fh : UInt64 → UInt32)

theorem hashEntriesG_eq_sumT (kvs : List (Val × Val)) :
    hashEntriesG rh fh kvs = sumT (fun p => djb [HashG rh fh p.1, HashG rh fh p.2]) kvs := by
  induction kvs with
  | nil => rfl
  | cons p kvs ih => obtain ⟨k, v⟩ := p; simp [hashEntriesG, sumT, ih]

def HashAt (n : Nat) : Prop :=
  ∀ a b : Val, sizeOf a ≤ n → sizeOf b ≤ n → WF a → WF b → Equal a b = true →
    HashG rh fh a = HashG rh fh b

theorem hashList_eq {n : Nat} (hh : HashAt rh fh n) : ∀ (xs ys : List Val) (h : UInt32),
    xs.length = ys.length → SmallL n xs → SmallL n ys → equalList xs ys = true →
    hashListG rh fh h xs = hashListG rh fh h ys := by
  intro xs
  induction xs with
  | nil =>
    intro ys h hlen _ _ _
    cases ys with
    | nil => rfl
    | cons _ _ => simp at hlen
  | cons x xs ih =>
    intro ys h hlen hx hy he
    cases ys with
    | nil => simp at hlen
    | cons y ys =>
      rw [equalList_cons] at he
      simp only [Bool.and_eq_true] at he
      obtain ⟨sx, wx⟩ := hx x (by simp)
      obtain ⟨sy, wy⟩ := hy y (by simp)
      simp only [hashListG]
      rw [hh x y sx sy wx wy he.1]
      exact ih ys _ (by simpa using hlen) (fun a ha => hx a (by simp [ha])) (fun a ha => hy a (by simp [ha])) he.2

theorem hashEntries_eq {n : Nat} (hh : HashAt rh fh n) {xs ys : List (Val × Val)}
    (hx : Small n xs) (hy : Small n ys) (hlen : xs.length = ys.length) (hnd : NoDupKeys xs)
    (h : entriesEq xs ys = true) : hashEntriesG rh fh xs = hashEntriesG rh fh ys := by
  rw [hashEntriesG_eq_sumT, hashEntriesG_eq_sumT]
  have hs := (sym_trans_at n).1
  have ht := (sym_trans_at n).2
  refine sumT_eq_of_matching _ (fun p q => Equal p.1 q.1 = true ∧ Equal p.2 q.2 = true) xs ys hlen ?_ ?_
  · intro p hp
    obtain ⟨q, hq, hk, hv⟩ := lookupEq_partner ((entriesEq_iff xs ys).1 h p hp)
    obtain ⟨sp, sp2, wp, wp2⟩ := hx p hp
    obtain ⟨sq, sq2, wq, wq2⟩ := hy q hq
    refine ⟨q, hq, ⟨hk, hv⟩, ?_⟩
    show djb [HashG rh fh p.1, HashG rh fh p.2] = djb [HashG rh fh q.1, HashG rh fh q.2]
    rw [hh _ _ sp sq wp wq hk, hh _ _ sp2 sq2 wp2 wq2 hv]
  · refine List.Pairwise.imp_of_mem ?_ hnd
    intro p p' hp hp' hne q hq hMM
    obtain ⟨⟨h1, _⟩, ⟨h2, _⟩⟩ := hMM
    obtain ⟨sp, _, wp, _⟩ := hx p hp
    obtain ⟨sp', _, wp', _⟩ := hx p' hp'
    obtain ⟨sq, _, wq, _⟩ := hy q hq
    have h3 := hs _ _ sp' sq wp' wq h2
    have h4 := ht _ _ _ sp sq sp' wp wq wp' h1 h3
    simp [h4] at hne

end

/-! ### floats -/

theorem F64.toNat_eq (b : UInt64) : b.toNat = F64.mag b + (if F64.neg b then 2 ^ 63 else 0) := by
  unfold F64.mag F64.neg
  have := b.toNat_lt
  split <;> simp_all <;> omega

/-- Go `==` on non-NaN floats: same bit pattern, or both zero. -/
theorem F64.eq_cases {a b : UInt64} (h : F64.eq a b = true) :
    a = b ∨ (F64.isZero a = true ∧ F64.isZero b = true) := by
  unfold F64.eq at h
  simp only [Bool.and_eq_true, beq_iff_eq] at h
  have hk := h.2
  unfold F64.key at hk
  have ha := F64.toNat_eq a
  have hb := F64.toNat_eq b
  unfold F64.isZero
  by_cases hz : F64.mag a = 0 ∧ F64.mag b = 0
  · right; simp [hz.1, hz.2]
  · left
    apply UInt64.toNat_inj.1
    split at hk <;> split at hk <;> simp_all <;> omega

theorem hashFloat_eq {a b : UInt64} (h : F64.eq a b = true) : hashFloat a = hashFloat b := by
  rcases F64.eq_cases h with rfl | ⟨ha, hb⟩
  · rfl
  · simp [hashFloat, ha, hb]

theorem hash_step (rh : Nat → Nat → UInt32) {n : Nat} (hh : HashAt rh hashFloat n) :
    HashAt rh hashFloat (n + 1) := by
  intro a b sa sb wa wb h
  cases a <;> cases b <;> (try simp [Equal] at h) <;> (try simp only [HashG])
  case bool.bool => rw [h]
  case int.int => rw [h]
  case bigint.bigint => rw [h]
  case rat.rat => rw [h]
  case float.float => exact hashFloat_eq h
  case str.str => rw [h]
  case ref.ref => rw [h.1, h.2]
  case list.list xs ys =>
    exact hashList_eq rh hashFloat hh xs ys _ h.1 (small_of_list sa wa) (small_of_list sb wb) h.2
  case map.map f xs g ys =>
    obtain ⟨hx, ndx⟩ := small_of_map sa wa
    obtain ⟨hy, ndy⟩ := small_of_map sb wb
    obtain ⟨hlen, h1, _⟩ := map_equal_both (sym_trans_at n).1 (sym_trans_at n).2 hx hy ndx ndy h
    exact hashEntries_eq rh hashFloat hh hx hy hlen ndx h1

theorem hash_at (rh : Nat → Nat → UInt32) : ∀ n, HashAt rh hashFloat n := by
  intro n
  induction n with
  | zero => intro a _ sa; cases a <;> simp at sa
  | succ n ih => exact hash_step rh ih

/-- a non-negative int below 2^32 is its own hash (how the harness chooses
neighbour keys with prescribed hash bits). -/
theorem hash_small_nat (rh : Nat → Nat → UInt32) (n : Nat) (h : n < 2 ^ 32) :
    Hash rh (.int (n : Int)) = UInt32.ofNat n := by
  simp only [Hash, HashG, hashUIntPtr, hashU64, mul33]
  have h1 : UInt64.ofInt (n : Int) = UInt64.ofNat n := by
    unfold UInt64.ofInt
    congr 1
    omega
  rw [h1]
  have hn : n % 18446744073709551616 = n := Nat.mod_eq_of_lt (by omega)
  have h2 : (UInt64.ofNat n >>> 32).toUInt32 = 0 := by
    apply UInt32.toNat_inj.1
    simp [Nat.shiftRight_eq_div_pow, hn]
    omega
  have h3 : (UInt64.ofNat n &&& 4294967295).toUInt32 = UInt32.ofNat n := by
    apply UInt32.toNat_inj.1
    simp
    have : (4294967295 : Nat) = 2 ^ 32 - 1 := by decide
    rw [this, Nat.and_two_pow_sub_one_eq_mod]
    omega
  rw [h2, h3]; simp

/-- eq values hash identically (fixed tree). -/
theorem Equal_hash (rh : Nat → Nat → UInt32) {a b : Val} (wa : WF a) (wb : WF b)
    (h : Equal a b = true) : Hash rh a = Hash rh b :=
  hash_at rh (sizeOf a + sizeOf b) a b (by omega) (by omega) wa wb h

end C08
