/-
Consequences for maps (association list modulo `Equal` = the abstract map of
C07): eq keys are interchangeable in has-key / index / assoc / dissoc, and
assoc / dissoc never produce two eq keys.  Reflexivity of `Equal`.
-/
import ElvProofs.C08.HashLemmas

namespace C08

/-- eq values are eq to the same things. -/
theorem Equal_congr_left {a b c : Val} (wa : WF a) (wb : WF b) (wc : WF c) (h : Equal a b = true) :
    Equal a c = Equal b c := by
  cases h1 : Equal a c with
  | true => exact (Equal_trans wb wa wc (Equal_symm wa wb h) h1).symm
  | false =>
    cases h2 : Equal b c with
    | false => rfl
    | true => rw [Equal_trans wa wb wc h h2] at h1; cases h1

theorem mapIndex_congr {a b : Val} (wa : WF a) (wb : WF b) (h : Equal a b = true) :
    ∀ m : List (Val × Val), WFEntries m → mapIndex a m = mapIndex b m := by
  intro m
  induction m with
  | nil => intro _; rfl
  | cons p m ih =>
    obtain ⟨k, v⟩ := p
    intro wm
    simp only [WFEntries] at wm
    simp only [mapIndex, Equal_congr_left wa wb wm.1 h, ih wm.2.2]

theorem mapDissoc_congr {a b : Val} (wa : WF a) (wb : WF b) (h : Equal a b = true) :
    ∀ m : List (Val × Val), WFEntries m → mapDissoc a m = mapDissoc b m := by
  intro m
  induction m with
  | nil => intro _; rfl
  | cons p m ih =>
    obtain ⟨k, v⟩ := p
    intro wm
    simp only [WFEntries] at wm
    simp only [mapDissoc, Equal_congr_left wa wb wm.1 h, ih wm.2.2]

/-- after `assoc`, looking up any key gives the same result whichever of two eq
keys was used. -/
theorem mapAssoc_congr {a b : Val} (wa : WF a) (wb : WF b) (h : Equal a b = true) (v : Val) :
    ∀ m : List (Val × Val), WFEntries m →
      (mapAssoc a v m).length = (mapAssoc b v m).length ∧
      (mapAssoc a v m).map Prod.snd = (mapAssoc b v m).map Prod.snd ∧
      ∀ c, WF c → mapIndex c (mapAssoc a v m) = mapIndex c (mapAssoc b v m) := by
  intro m
  induction m with
  | nil =>
    intro _
    refine ⟨rfl, rfl, ?_⟩
    intro c wc
    simp only [mapAssoc, mapIndex, Equal_symm_eq wc wa, Equal_symm_eq wc wb, Equal_congr_left wa wb wc h]
  | cons p m ih =>
    obtain ⟨k, w⟩ := p
    intro wm
    simp only [WFEntries] at wm
    obtain ⟨ih1, ih2, ih3⟩ := ih wm.2.2
    simp only [mapAssoc, Equal_congr_left wa wb wm.1 h]
    split
    · refine ⟨rfl, rfl, ?_⟩
      intro c wc
      simp only [mapIndex, Equal_symm_eq wc wa, Equal_symm_eq wc wb, Equal_congr_left wa wb wc h]
    · refine ⟨by simp [ih1], by simp [ih2], ?_⟩
      intro c wc
      simp only [mapIndex, ih3 c wc]

theorem mem_mapAssoc {a v : Val} : ∀ {m : List (Val × Val)} {p : Val × Val},
    p ∈ mapAssoc a v m → p = (a, v) ∨ p ∈ m := by
  intro m
  induction m with
  | nil => intro p hp; simp [mapAssoc] at hp; exact Or.inl hp
  | cons q m ih =>
    obtain ⟨k, w⟩ := q
    intro p hp
    simp only [mapAssoc] at hp
    split at hp
    · simp at hp; rcases hp with rfl | hp
      · exact Or.inl rfl
      · exact Or.inr (by simp [hp])
    · simp at hp; rcases hp with rfl | hp
      · exact Or.inr (by simp)
      · rcases ih hp with h | h
        · exact Or.inl h
        · exact Or.inr (by simp [h])

theorem mem_mapDissoc {a : Val} : ∀ {m : List (Val × Val)} {p : Val × Val},
    p ∈ mapDissoc a m → p ∈ m := by
  intro m
  induction m with
  | nil => intro p hp; simp [mapDissoc] at hp
  | cons q m ih =>
    obtain ⟨k, w⟩ := q
    intro p hp
    simp only [mapDissoc] at hp
    split at hp
    · simp [hp]
    · simp at hp; rcases hp with rfl | hp
      · simp
      · simp [ih hp]

/-- `assoc` keeps the keys pairwise non-eq. -/
theorem mapAssoc_noDup {a v : Val} (wa : WF a) :
    ∀ m : List (Val × Val), WFEntries m → NoDupKeys m → NoDupKeys (mapAssoc a v m) := by
  intro m
  induction m with
  | nil => intro _ _; simp [mapAssoc, NoDupKeys]
  | cons q m ih =>
    obtain ⟨k, w⟩ := q
    intro wm nd
    simp only [WFEntries] at wm
    unfold NoDupKeys at nd ⊢
    rw [List.pairwise_cons] at nd
    simp only [mapAssoc]
    split
    next hk =>
      rw [List.pairwise_cons]
      refine ⟨?_, nd.2⟩
      intro p hp
      have wp := (WFEntries_mem wm.2.2 p hp).1
      have := nd.1 p hp
      simp only at this ⊢
      rw [Equal_congr_left wa wm.1 wp hk, Equal_symm_eq wp wa, Equal_congr_left wa wm.1 wp hk]
      exact ⟨this.1, this.1⟩
    next hk =>
      rw [List.pairwise_cons]
      refine ⟨?_, ih wm.2.2 nd.2⟩
      intro p hp
      rcases mem_mapAssoc hp with rfl | hp
      · simp only
        have hk' : Equal a k = false := by simpa using hk
        exact ⟨by rw [Equal_symm_eq wm.1 wa]; exact hk', hk'⟩
      · exact nd.1 p hp

/-- `dissoc` keeps the keys pairwise non-eq. -/
theorem mapDissoc_noDup {a : Val} :
    ∀ m : List (Val × Val), NoDupKeys m → NoDupKeys (mapDissoc a m) := by
  intro m
  induction m with
  | nil => intro _; simp [mapDissoc, NoDupKeys]
  | cons q m ih =>
    obtain ⟨k, w⟩ := q
    intro nd
    unfold NoDupKeys at nd ⊢
    rw [List.pairwise_cons] at nd
    simp only [mapDissoc]
    split
    · exact nd.2
    · rw [List.pairwise_cons]
      exact ⟨fun p hp => nd.1 p (mem_mapDissoc hp), ih nd.2⟩

theorem mapAssoc_wfEntries {a v : Val} (wa : WF a) (wv : WF v) {m : List (Val × Val)}
    (wm : WFEntries m) : WFEntries (mapAssoc a v m) := by
  apply WFEntries_of_mem
  intro p hp
  rcases mem_mapAssoc hp with rfl | hp
  · exact ⟨wa, wv⟩
  · exact WFEntries_mem wm p hp

/-- assoc with a key eq to one already present does not add an entry. -/
theorem mapAssoc_length_of_hasKey {a v : Val} : ∀ m : List (Val × Val),
    mapHasKey a m = true → (mapAssoc a v m).length = m.length := by
  intro m
  induction m with
  | nil => intro h; simp [mapHasKey, mapIndex] at h
  | cons q m ih =>
    obtain ⟨k, w⟩ := q
    intro h
    simp only [mapHasKey, mapIndex] at h
    simp only [mapAssoc]
    split
    · simp
    next hk =>
      simp only [hk] at h
      simp [ih (by simpa [mapHasKey] using h)]

theorem mapHasKey_mapAssoc_self {a v : Val} (haa : Equal a a = true) : ∀ m : List (Val × Val),
    mapHasKey a (mapAssoc a v m) = true := by
  intro m
  induction m with
  | nil => simp [mapAssoc, mapHasKey, mapIndex, haa]
  | cons q m ih =>
    obtain ⟨k, w⟩ := q
    simp only [mapAssoc]
    split
    · simp [mapHasKey, mapIndex, haa]
    next hk =>
      simp only [mapHasKey, mapIndex, hk]
      exact ih

/-- The HAMT only ever compares the probe with keys of the same hash: under
`Equal → Hash =` that finds the same entry as the plain lookup. -/
theorem mapIndexH_eq (rh : Nat → Nat → UInt32) {k : Val} (wk : WF k) :
    ∀ m : List (Val × Val), WFEntries m → mapIndexH (Hash rh) k m = mapIndex k m := by
  intro m
  induction m with
  | nil => intro _; rfl
  | cons q m ih =>
    obtain ⟨k', v'⟩ := q
    intro wm
    simp only [WFEntries] at wm
    simp only [mapIndexH, mapIndex, ih wm.2.2]
    cases h : Equal k k' with
    | false => simp
    | true => simp [Equal_hash rh wk wm.1 h]

/-! ### reflexivity -/

def ReflAt (n : Nat) : Prop :=
  ∀ a : Val, sizeOf a ≤ n → WF a → NaNFree a → Equal a a = true

theorem NaNFreeList_mem {xs : List Val} (h : NaNFreeList xs) : ∀ x ∈ xs, NaNFree x := by
  induction xs with
  | nil => simp
  | cons x xs ih =>
    simp only [NaNFreeList] at h
    intro y hy
    simp at hy
    rcases hy with rfl | hy
    · exact h.1
    · exact ih h.2 y hy

theorem NaNFreeEntries_mem {xs : List (Val × Val)} (h : NaNFreeEntries xs) :
    ∀ p ∈ xs, NaNFree p.1 ∧ NaNFree p.2 := by
  induction xs with
  | nil => simp
  | cons x xs ih =>
    obtain ⟨k, v⟩ := x
    simp only [NaNFreeEntries] at h
    intro y hy
    simp at hy
    rcases hy with rfl | hy
    · exact ⟨h.1, h.2.1⟩
    · exact ih h.2.2 y hy

theorem equalList_refl {n : Nat} (hr : ReflAt n) : ∀ xs : List Val, SmallL n xs →
    (∀ x ∈ xs, NaNFree x) → equalList xs xs = true := by
  intro xs
  induction xs with
  | nil => intro _ _; exact equalList_nil_left _
  | cons x xs ih =>
    intro hx hn
    rw [equalList_cons]
    simp only [Bool.and_eq_true]
    exact ⟨hr x (hx x (by simp)).1 (hx x (by simp)).2 (hn x (by simp)),
      ih (fun a ha => hx a (by simp [ha])) (fun a ha => hn a (by simp [ha]))⟩

theorem refl_step {n : Nat} (hr : ReflAt n) : ReflAt (n + 1) := by
  intro a sa wa na
  cases a <;> (try simp [Equal])
  case float b =>
    simp only [NaNFree] at na
    simp [F64.eq, na]
  case list xs =>
    simp only [NaNFree] at na
    exact equalList_refl hr xs (small_of_list sa wa) (NaNFreeList_mem na)
  case map f xs =>
    simp only [NaNFree] at na
    obtain ⟨hx, nd⟩ := small_of_map sa wa
    rw [entriesEq_iff]
    intro p hp
    obtain ⟨s, t, hst⟩ := List.append_of_mem hp
    rw [lookupEq_iff]
    obtain ⟨sp, sp2, wp, wp2⟩ := hx p hp
    obtain ⟨np, np2⟩ := NaNFreeEntries_mem na p hp
    refine ⟨s, p, t, hst, ?_, hr _ sp wp np, hr _ sp2 wp2 np2⟩
    intro r hrm
    unfold NoDupKeys at nd
    rw [hst, List.pairwise_append] at nd
    exact (nd.2.2 r hrm p (by simp)).2

theorem refl_at : ∀ n, ReflAt n := by
  intro n
  induction n with
  | zero => intro a sa; cases a <;> simp at sa
  | succ n ih => exact refl_step ih

/-- `Equal` is reflexive on well-formed values that hold no NaN. -/
theorem Equal_refl {a : Val} (wa : WF a) (na : NaNFree a) : Equal a a = true :=
  refl_at (sizeOf a) a (Nat.le_refl _) wa na

end C08
