/-
`Equal` is symmetric and transitive on well-formed values (maps without
eq-duplicate keys).  Both are proved together by induction on a bound for the
sizes: symmetry of map equality needs transitivity on the keys (pigeonhole on
the entry matching) and vice versa.
-/
import ElvProofs.C08.EqualBasic

namespace C08

/-- If every element of `xs` has a partner in `ys`, no two elements of `xs`
share a partner, and the lists are equally long, every element of `ys` is a
partner. -/
theorem pigeonhole {α : Type} (M : α → α → Prop) :
    ∀ (xs ys : List α), xs.length = ys.length →
      (∀ p ∈ xs, ∃ q ∈ ys, M p q) →
      xs.Pairwise (fun p p' => ∀ q ∈ ys, ¬ (M p q ∧ M p' q)) →
      ∀ q ∈ ys, ∃ p ∈ xs, M p q := by
  intro xs
  induction xs with
  | nil =>
    intro ys hlen _ _ q hq
    cases ys with
    | nil => simp at hq
    | cons _ _ => simp at hlen
  | cons p xs ih =>
    intro ys hlen hm hinj q hq
    obtain ⟨q0, hq0, hpq0⟩ := hm p (by simp)
    obtain ⟨s, t, rfl⟩ := List.append_of_mem hq0
    rw [List.pairwise_cons] at hinj
    obtain ⟨hhead, htail⟩ := hinj
    have hlen' : xs.length = (s ++ t).length := by
      simp at hlen ⊢; omega
    have hm' : ∀ p' ∈ xs, ∃ q' ∈ s ++ t, M p' q' := by
      intro p' hp'
      obtain ⟨q', hq', hpq'⟩ := hm p' (by simp [hp'])
      have : q' ∈ s ∨ q' = q0 ∨ q' ∈ t := by simpa using hq'
      rcases this with h | rfl | h
      · exact ⟨q', by simp [h], hpq'⟩
      · exact absurd ⟨hpq0, hpq'⟩ (hhead p' hp' q' hq0)
      · exact ⟨q', by simp [h], hpq'⟩
    have hinj' : xs.Pairwise (fun p p' => ∀ q ∈ s ++ t, ¬ (M p q ∧ M p' q)) := by
      refine htail.imp ?_
      intro a b hab q hq
      apply hab q
      have : q ∈ s ∨ q ∈ t := by simpa using hq
      rcases this with h | h <;> simp [h]
    have := ih (s ++ t) hlen' hm' hinj'
    have hq' : q ∈ s ∨ q = q0 ∨ q ∈ t := by simpa using hq
    rcases hq' with h | rfl | h
    · obtain ⟨p', hp', h'⟩ := this q (by simp [h]); exact ⟨p', by simp [hp'], h'⟩
    · exact ⟨p, by simp, hpq0⟩
    · obtain ⟨p', hp', h'⟩ := this q (by simp [h]); exact ⟨p', by simp [hp'], h'⟩

def SymAt (n : Nat) : Prop :=
  ∀ a b : Val, sizeOf a ≤ n → sizeOf b ≤ n → WF a → WF b → Equal a b = true → Equal b a = true

def TransAt (n : Nat) : Prop :=
  ∀ a b c : Val, sizeOf a ≤ n → sizeOf b ≤ n → sizeOf c ≤ n → WF a → WF b → WF c →
    Equal a b = true → Equal b c = true → Equal a c = true

/-- all keys and values are well-formed and of size ≤ n. -/
def Small (n : Nat) (xs : List (Val × Val)) : Prop :=
  ∀ p ∈ xs, sizeOf p.1 ≤ n ∧ sizeOf p.2 ≤ n ∧ WF p.1 ∧ WF p.2

def SmallL (n : Nat) (xs : List Val) : Prop := ∀ x ∈ xs, sizeOf x ≤ n ∧ WF x

theorem small_of_map {n : Nat} {f : Bool} {xs : List (Val × Val)} (hsz : sizeOf (Val.map f xs) ≤ n + 1)
    (hwf : WF (Val.map f xs)) : Small n xs ∧ NoDupKeys xs := by
  simp only [WF] at hwf
  refine ⟨?_, hwf.2⟩
  intro p hp
  have := sizeOf_mem_map (f := f) hp
  have hw := WFEntries_mem hwf.1 p hp
  exact ⟨by omega, by omega, hw.1, hw.2⟩

theorem small_of_list {n : Nat} {xs : List Val} (hsz : sizeOf (Val.list xs) ≤ n + 1)
    (hwf : WF (Val.list xs)) : SmallL n xs := by
  simp only [WF] at hwf
  intro x hx
  have := sizeOf_mem_list hx
  exact ⟨by omega, WFList_mem hwf x hx⟩

theorem entries_sym {n : Nat} (hs : SymAt n) (ht : TransAt n) {xs ys : List (Val × Val)}
    (hx : Small n xs) (hy : Small n ys) (hlen : xs.length = ys.length) (hnd : NoDupKeys xs)
    (h : entriesEq xs ys = true) : entriesEq ys xs = true := by
  let M : Val × Val → Val × Val → Prop := fun p q => Equal p.1 q.1 = true ∧ Equal p.2 q.2 = true
  have hmatch : ∀ p ∈ xs, ∃ q ∈ ys, M p q := by
    intro p hp
    exact lookupEq_partner ((entriesEq_iff xs ys).1 h p hp)
  have hinj : xs.Pairwise (fun p p' => ∀ q ∈ ys, ¬ (M p q ∧ M p' q)) := by
    refine List.Pairwise.imp_of_mem ?_ hnd
    intro p p' hp hp' hne q hq hMM
    obtain ⟨⟨h1, _⟩, ⟨h2, _⟩⟩ := hMM
    obtain ⟨sp, _, wp, _⟩ := hx p hp
    obtain ⟨sp', _, wp', _⟩ := hx p' hp'
    obtain ⟨sq, _, wq, _⟩ := hy q hq
    have h3 := hs _ _ sp' sq wp' wq h2
    have h4 := ht _ _ _ sp sq sp' wp wq wp' h1 h3
    simp [h4] at hne
  have surj := pigeonhole M xs ys hlen hmatch hinj
  rw [entriesEq_iff]
  intro q hq
  obtain ⟨p, hp, hk, hv⟩ := surj q hq
  obtain ⟨s, t, rfl⟩ := List.append_of_mem hp
  obtain ⟨sp, sp2, wp, wp2⟩ := hx p hp
  obtain ⟨sq, sq2, wq, wq2⟩ := hy q hq
  rw [lookupEq_iff]
  refine ⟨s, p, t, rfl, ?_, hs _ _ sp sq wp wq hk, hs _ _ sp2 sq2 wp2 wq2 hv⟩
  intro r hr
  cases hqr : Equal q.1 r.1 with
  | false => rfl
  | true =>
    obtain ⟨sr, _, wr, _⟩ := hx r (by simp [hr])
    have h4 := ht _ _ _ sp sq sr wp wq wr hk hqr
    unfold NoDupKeys at hnd
    rw [List.pairwise_append] at hnd
    have := hnd.2.2 r hr p (by simp)
    simp [h4] at this

theorem entries_trans {n : Nat} (hs : SymAt n) (ht : TransAt n) {xs ys zs : List (Val × Val)}
    (hx : Small n xs) (hy : Small n ys) (hz : Small n zs)
    (h1 : entriesEq xs ys = true) (h2 : entriesEq ys zs = true) : entriesEq xs zs = true := by
  rw [entriesEq_iff] at h1 h2 ⊢
  intro p hp
  obtain ⟨q, hq, hk, hv⟩ := lookupEq_partner (h1 p hp)
  obtain ⟨l1, r, l2, rfl, hno, hk2, hv2⟩ := (lookupEq_iff _ _ _).1 (h2 q hq)
  obtain ⟨sp, sp2, wp, wp2⟩ := hx p hp
  obtain ⟨sq, sq2, wq, wq2⟩ := hy q hq
  obtain ⟨sr, sr2, wr, wr2⟩ := hz r (by simp)
  rw [lookupEq_iff]
  refine ⟨l1, r, l2, rfl, ?_, ht _ _ _ sp sq sr wp wq wr hk hk2, ht _ _ _ sp2 sq2 sr2 wp2 wq2 wr2 hv hv2⟩
  intro s hsm
  cases hps : Equal p.1 s.1 with
  | false => rfl
  | true =>
    obtain ⟨ss, _, ws, _⟩ := hz s (by simp [hsm])
    have hqp := hs _ _ sp sq wp wq hk
    have := ht _ _ _ sq sp ss wq wp ws hqp hps
    simp [hno s hsm] at this

theorem equalList_sym {n : Nat} (hs : SymAt n) : ∀ xs ys : List Val, SmallL n xs → SmallL n ys →
    equalList xs ys = true → equalList ys xs = true := by
  intro xs
  induction xs with
  | nil => intro ys _ _ _; exact equalList_nil_right ys
  | cons x xs ih =>
    intro ys hx hy h
    cases ys with
    | nil => exact equalList_nil_left _
    | cons y ys =>
      rw [equalList_cons] at h ⊢
      simp only [Bool.and_eq_true] at h ⊢
      obtain ⟨sx, wx⟩ := hx x (by simp)
      obtain ⟨sy, wy⟩ := hy y (by simp)
      exact ⟨hs _ _ sx sy wx wy h.1,
        ih ys (fun a ha => hx a (by simp [ha])) (fun a ha => hy a (by simp [ha])) h.2⟩

theorem equalList_trans {n : Nat} (ht : TransAt n) : ∀ xs ys zs : List Val,
    xs.length = ys.length → SmallL n xs → SmallL n ys → SmallL n zs →
    equalList xs ys = true → equalList ys zs = true → equalList xs zs = true := by
  intro xs
  induction xs with
  | nil => intro ys zs _ _ _ _ _ _; exact equalList_nil_left zs
  | cons x xs ih =>
    intro ys zs hlen hx hy hz h1 h2
    cases ys with
    | nil => simp at hlen
    | cons y ys =>
      cases zs with
      | nil => exact equalList_nil_right _
      | cons z zs =>
        rw [equalList_cons] at h1 h2 ⊢
        simp only [Bool.and_eq_true] at h1 h2 ⊢
        obtain ⟨sx, wx⟩ := hx x (by simp)
        obtain ⟨sy, wy⟩ := hy y (by simp)
        obtain ⟨sz, wz⟩ := hz z (by simp)
        exact ⟨ht _ _ _ sx sy sz wx wy wz h1.1 h2.1,
          ih ys zs (by simpa using hlen) (fun a ha => hx a (by simp [ha])) (fun a ha => hy a (by simp [ha]))
            (fun a ha => hz a (by simp [ha])) h1.2 h2.2⟩

theorem F64.eq_symm (a b : UInt64) : F64.eq a b = F64.eq b a := by
  unfold F64.eq
  cases F64.isNaN a <;> cases F64.isNaN b <;> simp
  rw [Bool.eq_iff_iff]
  simp only [beq_iff_eq]
  exact ⟨Eq.symm, Eq.symm⟩

theorem F64.eq_trans {a b c : UInt64} (h1 : F64.eq a b = true) (h2 : F64.eq b c = true) :
    F64.eq a c = true := by
  unfold F64.eq at *
  simp only [Bool.and_eq_true, Bool.not_eq_true', beq_iff_eq] at *
  exact ⟨⟨h1.1.1, h2.1.2⟩, h1.2.trans h2.2⟩

/-- from `Equal (map f xs) (map g ys)`: both directions of the entry matching. -/
theorem map_equal_both {n : Nat} (hs : SymAt n) (ht : TransAt n) {f g : Bool} {xs ys : List (Val × Val)}
    (hx : Small n xs) (hy : Small n ys) (ndx : NoDupKeys xs) (ndy : NoDupKeys ys)
    (h : Equal (.map f xs) (.map g ys) = true) :
    xs.length = ys.length ∧ entriesEq xs ys = true ∧ entriesEq ys xs = true := by
  rw [Equal_map] at h
  simp only [Bool.and_eq_true, beq_iff_eq] at h
  obtain ⟨hlen, h⟩ := h
  refine ⟨hlen, ?_⟩
  split at h
  · exact ⟨entries_sym hs ht hy hx hlen.symm ndy h, h⟩
  · exact ⟨h, entries_sym hs ht hx hy hlen ndx h⟩

theorem map_equal_of {f g : Bool} {xs ys : List (Val × Val)} (hlen : xs.length = ys.length)
    (h1 : entriesEq xs ys = true) (h2 : entriesEq ys xs = true) :
    Equal (.map f xs) (.map g ys) = true := by
  rw [Equal_map]
  simp only [Bool.and_eq_true, beq_iff_eq]
  refine ⟨hlen, ?_⟩
  split <;> assumption

theorem sym_step {n : Nat} (hs : SymAt n) (ht : TransAt n) : SymAt (n + 1) := by
  intro a b sa sb wa wb h
  cases a <;> cases b <;> (try simp [Equal] at h ⊢)
  case bool.bool => exact h.symm
  case int.int => exact h.symm
  case bigint.bigint => exact h.symm
  case rat.rat => exact h.symm
  case float.float => rw [F64.eq_symm]; exact h
  case str.str => exact h.symm
  case ref.ref => exact ⟨h.1.symm, h.2.symm⟩
  case list.list xs ys =>
    exact ⟨h.1.symm, equalList_sym hs xs ys (small_of_list sa wa) (small_of_list sb wb) h.2⟩
  case map.map f xs g ys =>
    obtain ⟨hx, ndx⟩ := small_of_map sa wa
    obtain ⟨hy, ndy⟩ := small_of_map sb wb
    obtain ⟨hlen, h1, h2⟩ := map_equal_both hs ht hx hy ndx ndy h
    exact map_equal_of hlen.symm h2 h1

theorem trans_step {n : Nat} (hs : SymAt n) (ht : TransAt n) : TransAt (n + 1) := by
  intro a b c sa sb sc wa wb wc h1 h2
  cases a <;> cases b <;> (try simp [Equal] at h1) <;> cases c <;> (try simp [Equal] at h2 ⊢)
  case bool.bool.bool => exact h1.trans h2
  case int.int.int => exact h1.trans h2
  case bigint.bigint.bigint => exact h1.trans h2
  case rat.rat.rat => exact h1.trans h2
  case float.float.float => exact F64.eq_trans h1 h2
  case str.str.str => exact h1.trans h2
  case ref.ref.ref => exact ⟨h1.1.trans h2.1, h1.2.trans h2.2⟩
  case list.list.list xs ys zs =>
    exact ⟨h1.1.trans h2.1, equalList_trans ht xs ys zs h1.1 (small_of_list sa wa) (small_of_list sb wb)
      (small_of_list sc wc) h1.2 h2.2⟩
  case map.map.map f xs g ys k zs =>
    obtain ⟨hx, ndx⟩ := small_of_map sa wa
    obtain ⟨hy, ndy⟩ := small_of_map sb wb
    obtain ⟨hz, ndz⟩ := small_of_map sc wc
    obtain ⟨l1, a1, a2⟩ := map_equal_both hs ht hx hy ndx ndy h1
    obtain ⟨l2, b1, b2⟩ := map_equal_both hs ht hy hz ndy ndz h2
    exact map_equal_of (l1.trans l2) (entries_trans hs ht hx hy hz a1 b1) (entries_trans hs ht hz hy hx b2 a2)

theorem sym_trans_at : ∀ n, SymAt n ∧ TransAt n := by
  intro n
  induction n with
  | zero =>
    constructor
    · intro a _ sa; cases a <;> simp at sa
    · intro a _ _ sa; cases a <;> simp at sa
  | succ n ih => exact ⟨sym_step ih.1 ih.2, trans_step ih.1 ih.2⟩

/-- `Equal` is symmetric on well-formed values. -/
theorem Equal_symm {a b : Val} (wa : WF a) (wb : WF b) (h : Equal a b = true) : Equal b a = true :=
  (sym_trans_at (sizeOf a + sizeOf b)).1 a b (by omega) (by omega) wa wb h

/-- `Equal` is transitive on well-formed values. -/
theorem Equal_trans {a b c : Val} (wa : WF a) (wb : WF b) (wc : WF c)
    (h1 : Equal a b = true) (h2 : Equal b c = true) : Equal a c = true :=
  (sym_trans_at (sizeOf a + sizeOf b + sizeOf c)).2 a b c (by omega) (by omega) (by omega) wa wb wc h1 h2

theorem Equal_symm_eq {a b : Val} (wa : WF a) (wb : WF b) : Equal a b = Equal b a := by
  cases h : Equal a b with
  | true => exact (Equal_symm wa wb h).symm
  | false =>
    cases h' : Equal b a with
    | false => rfl
    | true => rw [Equal_symm wb wa h'] at h; cases h

end C08
