/-
Helper lemmas for C08/C09: unfolding and characterising `Equal`, `equalList`,
`entriesEq`, `lookupEq`; membership facts about `WF`.
-/
import ElvModel.C08.Spec

namespace C08

theorem Equal_map (f g : Bool) (xs ys : List (Val × Val)) :
    Equal (.map f xs) (.map g ys) =
      (xs.length == ys.length && if (!f && g) = true then entriesEq ys xs else entriesEq xs ys) := by
  cases f <;> cases g <;> simp [Equal]

theorem entriesEq_iff (xs ys : List (Val × Val)) :
    entriesEq xs ys = true ↔ ∀ p ∈ xs, lookupEq p.1 p.2 ys = true := by
  induction xs with
  | nil => simp [entriesEq]
  | cons p xs ih =>
    obtain ⟨k, v⟩ := p
    simp [entriesEq, ih]

/-- `lookupEq` succeeds iff the first entry with an eq key has an eq value. -/
theorem lookupEq_iff (k v : Val) (ys : List (Val × Val)) :
    lookupEq k v ys = true ↔
      ∃ l1 q l2, ys = l1 ++ q :: l2 ∧ (∀ r ∈ l1, Equal k r.1 = false) ∧
        Equal k q.1 = true ∧ Equal v q.2 = true := by
  induction ys with
  | nil => simp [lookupEq]
  | cons y ys ih =>
    obtain ⟨k', v'⟩ := y
    rw [lookupEq]
    by_cases h : Equal k k' = true
    · simp only [h, if_true]
      constructor
      · intro hv
        exact ⟨[], (k', v'), ys, rfl, by simp, h, hv⟩
      · rintro ⟨l1, q, l2, heq, hno, hk, hv⟩
        cases l1 with
        | nil =>
          simp at heq
          obtain ⟨rfl, _⟩ := heq
          exact hv
        | cons r l1 =>
          simp at heq
          obtain ⟨rfl, _⟩ := heq
          have := hno (k', v') (by simp)
          simp [h] at this
    · have h' : Equal k k' = false := by simpa using h
      simp only [h', Bool.false_eq_true, if_false]
      rw [ih]
      constructor
      · rintro ⟨l1, q, l2, rfl, hno, hk, hv⟩
        refine ⟨(k', v') :: l1, q, l2, rfl, ?_, hk, hv⟩
        intro r hr
        simp at hr
        rcases hr with rfl | hr
        · simpa using h
        · exact hno r hr
      · rintro ⟨l1, q, l2, heq, hno, hk, hv⟩
        cases l1 with
        | nil =>
          simp at heq
          obtain ⟨rfl, _⟩ := heq
          exact absurd hk h
        | cons r l1 =>
          simp at heq
          obtain ⟨rfl, rfl⟩ := heq
          exact ⟨l1, q, l2, rfl, fun r hr => hno r (by simp [hr]), hk, hv⟩

/-- a successful lookup yields a partner entry. -/
theorem lookupEq_partner {k v : Val} {ys : List (Val × Val)} (h : lookupEq k v ys = true) :
    ∃ q ∈ ys, Equal k q.1 = true ∧ Equal v q.2 = true := by
  obtain ⟨l1, q, l2, rfl, _, hk, hv⟩ := (lookupEq_iff k v _).1 h
  exact ⟨q, by simp, hk, hv⟩

theorem equalList_cons (x y : Val) (xs ys : List Val) :
    equalList (x :: xs) (y :: ys) = (Equal x y && equalList xs ys) := by
  rw [equalList]

theorem equalList_nil_left (ys : List Val) : equalList [] ys = true := by
  rw [equalList]; intros; simp_all

theorem equalList_nil_right (xs : List Val) : equalList xs [] = true := by
  rw [equalList]; intros; simp_all

/-! ### WF and membership -/

theorem WFList_mem {xs : List Val} (h : WFList xs) : ∀ x ∈ xs, WF x := by
  induction xs with
  | nil => simp
  | cons x xs ih =>
    simp only [WFList] at h
    intro y hy
    simp at hy
    rcases hy with rfl | hy
    · exact h.1
    · exact ih h.2 y hy

theorem WFEntries_mem {xs : List (Val × Val)} (h : WFEntries xs) : ∀ p ∈ xs, WF p.1 ∧ WF p.2 := by
  induction xs with
  | nil => simp
  | cons x xs ih =>
    obtain ⟨k, v⟩ := x
    simp only [WFEntries] at h
    intro y hy
    simp at hy
    rcases hy with rfl | hy
    · exact ⟨h.1, h.2.1⟩
    · exact ih h.2.2 y hy

theorem WFList_of_mem {xs : List Val} (h : ∀ x ∈ xs, WF x) : WFList xs := by
  induction xs with
  | nil => simp [WFList]
  | cons x xs ih =>
    simp only [WFList]
    exact ⟨h x (by simp), ih fun y hy => h y (by simp [hy])⟩

theorem WFEntries_of_mem {xs : List (Val × Val)} (h : ∀ p ∈ xs, WF p.1 ∧ WF p.2) : WFEntries xs := by
  induction xs with
  | nil => simp [WFEntries]
  | cons x xs ih =>
    obtain ⟨k, v⟩ := x
    simp only [WFEntries]
    exact ⟨(h (k, v) (by simp)).1, (h (k, v) (by simp)).2, ih fun y hy => h y (by simp [hy])⟩

theorem sizeOf_mem_list {xs : List Val} {x : Val} (h : x ∈ xs) : sizeOf x < sizeOf (Val.list xs) := by
  have := List.sizeOf_lt_of_mem h
  simp; omega

theorem sizeOf_mem_map {f : Bool} {xs : List (Val × Val)} {p : Val × Val} (h : p ∈ xs) :
    sizeOf p.1 < sizeOf (Val.map f xs) ∧ sizeOf p.2 < sizeOf (Val.map f xs) := by
  have := List.sizeOf_lt_of_mem h
  obtain ⟨k, v⟩ := p
  simp at this ⊢
  omega

end C08
