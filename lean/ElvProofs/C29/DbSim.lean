/-
C29 helper: simulation for the dbStore cursor.
-/
import ElvProofs.C29.Db
namespace C29
open Go C24 C24.Spec C29.Spec

def Rdb (p : Bytes) (base : List Entry) (upper : Nat) (c : DbCursor) (k : Int) : Prop :=
  c.pfx = p ∧ c.upper = (upper : Int) ∧
  ((c.cmd.seq = (upper : Int) ∧ c.err = some errEndOfHistory ∧ k = -1) ∨
   (c.cmd.seq = -1 ∧ c.err = some errEndOfHistory ∧ k = ((base.filter (mE p)).length : Int)) ∨
   (∃ e ∈ base, mE p e = true ∧ c.cmd = toCmd e ∧ c.err = none ∧
      k = ((base.filter (mE p)).length : Int) - (cntLt p base ((e.1 : Int) + 1) : Int)))

theorem toU64_nat (s : Nat) (h : s < two63) : toU64 (s : Int) = s := by
  have := two63_lt_two64
  rw [toU64_of_nonneg _ (by omega) (by omega)]
  simp

theorem frozen_mem {base : List Entry} {upper : Nat} {l : Log}
    (hf : l.entries.filter (fun e => decide (e.1 < upper)) = base) (e : Entry) :
    e ∈ base ↔ e ∈ l.entries ∧ e.1 < upper := by
  rw [← hf]; simp [List.mem_filter]

/-- what `PrevCmd(s, p)` yields on a frozen database, for `s ≤ upper` -/
theorem prev_result (p : Bytes) (base : List Entry) (upper : Nat) (db : Store)
    (hf : Frozen base upper db) (s : Nat) (hsu : s ≤ upper) (hu : upper < two63) :
    (∃ e ∈ base, mE p e = true ∧ prevCmd db (s : Int) p = .ok (toCmd e) ∧ e.1 < s ∧
        cntLt p base ((e.1 : Int) + 1) = cntLt p base (s : Int)) ∨
    (prevCmd db (s : Int) p = .exc errNoMatchingCmd ∧ cntLt p base (s : Int) = 0) := by
  obtain ⟨l, d, rfl, hwf, hc, hbase, _⟩ := hf
  rw [prevCmd_conc l d _ p hwf hc, toU64_nat s (by omega)]
  cases hp : l.prev s p with
  | some e =>
    left
    obtain ⟨h1, h2, h3⟩ := find_last hwf.1 _ e hp
    simp only [Bool.decide_and, Bool.and_eq_true, decide_eq_true_eq, Bool.decide_eq_true] at h2 h3
    have heb : e ∈ base := (frozen_mem hbase e).2 ⟨h1, by omega⟩
    refine ⟨e, heb, h2.2, rfl, h2.1, ?_⟩
    apply cntLt_eq_of_gap _ _ _ _ (by omega)
    intro x hx hm hge
    have hxl := ((frozen_mem hbase x).1 hx).1
    by_cases c : x.1 < s
    · have := h3 x hxl ⟨c, hm⟩
      omega
    · omega
  | none =>
    right
    refine ⟨rfl, ?_⟩
    unfold cntLt
    simp only [List.length_eq_zero_iff]
    apply List.filter_eq_nil_iff.2
    intro x hx
    have hxl := ((frozen_mem hbase x).1 hx).1
    have := List.find?_eq_none.1 hp x (by simpa using hxl)
    simp only [Bool.decide_and, Bool.and_eq_true, decide_eq_true_eq, Bool.decide_eq_true, not_and] at this
    intro hh
    simp only [Bool.and_eq_true, decide_eq_true_eq] at hh
    exact this (by omega) hh.2

/-- what `NextCmd(s+1, p)` yields on a frozen database, for `-1 ≤ s < upper` -/
theorem next_result (p : Bytes) (base : List Entry) (upper : Nat) (db : Store)
    (hf : Frozen base upper db) (hs : Snapshot base upper) (s : Int) (h0 : -1 ≤ s) (hsu : s < upper) :
    (∃ e ∈ base, mE p e = true ∧ nextCmd db (s + 1) p = .ok (toCmd e) ∧
        cntLt p base (e.1 : Int) = cntLt p base (s + 1)) ∨
    ((nextCmd db (s + 1) p = .exc errNoMatchingCmd ∨
       ∃ e, nextCmd db (s + 1) p = .ok (toCmd e) ∧ upper ≤ e.1) ∧
      cntLt p base (s + 1) = (base.filter (mE p)).length) := by
  obtain ⟨l, d, rfl, hwf, hc, hbase, _⟩ := hf
  have hu := hs.upper_lt
  have ht : toU64 (s + 1) = (s + 1).toNat := by
    have := two63_lt_two64
    exact toU64_of_nonneg _ (by omega) (by omega)
  rw [nextCmd_conc l d _ p hwf hc, ht]
  have hnomatch : (∀ x ∈ base, mE p x = true → s + 1 ≤ (x.1 : Int) → (upper : Int) ≤ (x.1 : Int)) →
      cntLt p base (s + 1) = (base.filter (mE p)).length := by
    intro h
    rw [cntLt_eq_of_gap p base (s + 1) upper (by omega) h, cntLt_all p base upper hs _ (Int.le_refl _)]
  cases hp : l.next (s + 1).toNat p with
  | some e =>
    obtain ⟨h1, h2, h3⟩ := find_first hwf.1 _ e hp
    simp only [Bool.decide_and, Bool.and_eq_true, decide_eq_true_eq, Bool.decide_eq_true] at h2 h3
    by_cases hlt : e.1 < upper
    · left
      have heb : e ∈ base := (frozen_mem hbase e).2 ⟨h1, hlt⟩
      refine ⟨e, heb, h2.2, rfl, ?_⟩
      symm
      apply cntLt_eq_of_gap _ _ _ _ (by omega)
      intro x hx hm hge
      have hxl := ((frozen_mem hbase x).1 hx).1
      have := h3 x hxl ⟨by omega, hm⟩
      omega
    · right
      refine ⟨Or.inr ⟨e, rfl, by omega⟩, hnomatch ?_⟩
      intro x hx hm hge
      have hxl := ((frozen_mem hbase x).1 hx).1
      have := h3 x hxl ⟨by omega, hm⟩
      omega
  | none =>
    right
    refine ⟨Or.inl rfl, hnomatch ?_⟩
    intro x hx hm hge
    have hxl := ((frozen_mem hbase x).1 hx).1
    have := List.find?_eq_none.1 hp x hxl
    simp only [Bool.decide_and, Bool.and_eq_true, decide_eq_true_eq, Bool.decide_eq_true, not_and] at this
    exact absurd hm (this (by omega))

theorem errNoMatching_ne_eoh : errNoMatchingCmd ≠ errEndOfHistory := by decide

theorem db_sim (p : Bytes) (base : List Entry) (upper : Nat) (hs : Snapshot base upper) (db : Store)
    (hf : Frozen base upper db) : Sim (dbOps db) (dbView p base) (Rdb p base upper) where
  range := by
    intro c k ⟨_, _, h⟩
    rw [dbView_length]
    rcases h with ⟨_, _, hk⟩ | ⟨_, _, hk⟩ | ⟨e, _, _, _, _, hk⟩
    · omega
    · omega
    · have := cntLt_le p base ((e.1 : Int) + 1)
      omega
  prev := by
    intro c k ⟨hp, hup, h⟩
    obtain ⟨cp, cu, ccmd, cerr⟩ := c
    simp only at hp hup h
    subst hp hup
    simp only [dbOps, dbPrev, walkPrev, dbView_length]
    have hF := cntLt_le cp base
    -- uniform: from a position numbered `s` (0 ≤ s ≤ upper) the new index is |V| - cntLt s
    have step : ∀ (s : Nat), s ≤ upper → ccmd.seq = (s : Int) →
        ∃ c', DbCursor.set ⟨cp, (upper : Int), ccmd, cerr⟩ (prevCmd db ccmd.seq cp) (-1) = .ok c' ∧
          Rdb cp base upper c' (((base.filter (mE cp)).length : Int) - (cntLt cp base (s : Int) : Int)) := by
      intro s hsu hseq
      rw [hseq]
      rcases prev_result cp base upper db hf s hsu hs.upper_lt with ⟨e, heb, hm, hr, _, hcnt⟩ | ⟨hr, hcnt⟩
      · refine ⟨⟨cp, upper, toCmd e, none⟩, by simp [hr, DbCursor.set], rfl, rfl, Or.inr (Or.inr ⟨e, heb, hm, rfl, rfl, ?_⟩)⟩
        rw [hcnt]
      · refine ⟨⟨cp, upper, ⟨[], -1⟩, some errEndOfHistory⟩, by simp [hr, DbCursor.set], rfl, rfl, Or.inr (Or.inl ⟨rfl, rfl, ?_⟩)⟩
        rw [hcnt]; simp
    rcases h with ⟨hseq, herr, hk⟩ | ⟨hseq, herr, hk⟩ | ⟨e, heb, hm, hcmd, herr, hk⟩
    · have hneg : ¬ ccmd.seq < 0 := by omega
      simp only [hneg, if_false]
      obtain ⟨c', h1, h2⟩ := step upper (Nat.le_refl _) hseq
      refine ⟨c', h1, ?_⟩
      rw [cntLt_all cp base upper hs _ (Int.le_refl _)] at h2
      have : min (k + 1) ((base.filter (mE cp)).length : Int) = ((base.filter (mE cp)).length : Int) - ((base.filter (mE cp)).length : Int) := by
        omega
      rw [this]; exact h2
    · have hneg : ccmd.seq < 0 := by omega
      simp only [hneg, if_true]
      refine ⟨_, rfl, rfl, rfl, Or.inr (Or.inl ⟨hseq, herr, ?_⟩)⟩
      omega
    · have hseq : ccmd.seq = (e.1 : Int) := by rw [hcmd]; rfl
      have hneg : ¬ ccmd.seq < 0 := by omega
      simp only [hneg, if_false]
      obtain ⟨c', h1, h2⟩ := step e.1 (Nat.le_of_lt (hs.below e heb)) hseq
      refine ⟨c', h1, ?_⟩
      have hsucc := cntLt_succ cp base upper hs e heb hm
      have hle := hF ((e.1 : Int) + 1)
      have : min (k + 1) ((base.filter (mE cp)).length : Int) = ((base.filter (mE cp)).length : Int) - (cntLt cp base (e.1 : Int) : Int) := by
        omega
      rw [this]; exact h2
  next := by
    intro c k ⟨hp, hup, h⟩
    obtain ⟨cp, cu, ccmd, cerr⟩ := c
    simp only at hp hup h
    subst hp hup
    simp only [dbOps, dbNext, walkNext]
    have hF := cntLt_le cp base
    -- uniform: from a position numbered `s` (-1 ≤ s < upper) with index |V| - cntLt (s+1)
    have step : ∀ (s : Int), -1 ≤ s → s < upper → ccmd.seq = s →
        k = ((base.filter (mE cp)).length : Int) - (cntLt cp base (s + 1) : Int) →
        ∃ c', dbNextWith ⟨cp, (upper : Int), ccmd, cerr⟩ (nextCmd db (ccmd.seq + 1) cp) = .ok c' ∧
          Rdb cp base upper c' (max (k - 1) (-1)) := by
      intro s h0 hsu hseq hk
      rw [hseq]
      rcases next_result cp base upper db hf hs s h0 hsu with ⟨e, heb, hm, hr, hcnt⟩ | ⟨hr, hcnt⟩
      · have hlt : (e.1 : Int) < upper := by have := hs.below e heb; omega
        have hrs : resSeq (nextCmd db (s + 1) cp) = (e.1 : Int) := by rw [hr]; rfl
        have hnge : ¬ (e.1 : Int) ≥ upper := by omega
        refine ⟨⟨cp, upper, toCmd e, none⟩, by rw [hr]; simp [dbNextWith, resSeq, toCmd, hlt, hnge, DbCursor.set], rfl, rfl,
          Or.inr (Or.inr ⟨e, heb, hm, rfl, rfl, ?_⟩)⟩
        have hsucc := cntLt_succ cp base upper hs e heb hm
        have hle := hF ((e.1 : Int) + 1)
        omega
      · have hk0 : max (k - 1) (-1) = -1 := by omega
        rw [hk0]
        rcases hr with hr | ⟨e, hr, hge⟩
        · have hrs : resSeq (nextCmd db (s + 1) cp) = 0 := by rw [hr]; rfl
          have h1 : (0 : Int) < upper := by have := hs.upper_pos; omega
          have h2 : ¬ (0 : Int) ≥ upper := by omega
          have h1' : 0 < upper := by omega
          have h2' : ¬ upper = 0 := by omega
          refine ⟨⟨cp, upper, ⟨[], upper⟩, some errEndOfHistory⟩, by rw [hr]; simp [dbNextWith, resSeq, h1', h2', DbCursor.set],
            rfl, rfl, Or.inl ⟨rfl, rfl, rfl⟩⟩
        · have hrs : resSeq (nextCmd db (s + 1) cp) = (e.1 : Int) := by rw [hr]; rfl
          have h1 : ¬ (e.1 : Int) < upper := by omega
          have h2 : (e.1 : Int) ≥ upper := by omega
          refine ⟨⟨cp, upper, ⟨[], upper⟩, some errEndOfHistory⟩, by rw [hr]; simp [dbNextWith, resSeq, toCmd, h1, h2],
            rfl, rfl, Or.inl ⟨rfl, rfl, rfl⟩⟩
    rcases h with ⟨hseq, herr, hk⟩ | ⟨hseq, herr, hk⟩ | ⟨e, heb, hm, hcmd, herr, hk⟩
    · have hge : ccmd.seq ≥ (upper : Int) := by omega
      simp only [hge, if_true]
      refine ⟨_, rfl, rfl, rfl, Or.inl ⟨hseq, herr, ?_⟩⟩
      omega
    · have hge : ¬ ccmd.seq ≥ (upper : Int) := by have := hs.upper_pos; omega
      simp only [hge, if_false]
      have := step (-1) (by omega) (by have := hs.upper_pos; omega) hseq (by
        rw [cntLt_zero cp base _ (by omega)]; simp [hk])
      exact this
    · have hseq : ccmd.seq = (e.1 : Int) := by rw [hcmd]; rfl
      have hlt := hs.below e heb
      have hge : ¬ ccmd.seq ≥ (upper : Int) := by omega
      simp only [hge, if_false]
      exact step (e.1 : Int) (by omega) (by omega) hseq hk
  get := by
    intro c k ⟨hp, hup, h⟩
    simp only [dbOps, dbGet]
    rcases h with ⟨_, herr, hk⟩ | ⟨_, herr, hk⟩ | ⟨e, heb, hm, hcmd, herr, hk⟩
    · simp [herr, hk, walkGet]
    · rw [herr, hk]
      unfold walkGet
      have h0 : (0 : Int) ≤ ((base.filter (mE p)).length : Int) := by omega
      simp only [h0, if_true]
      have : (dbView p base)[(((base.filter (mE p)).length : Int)).toNat]? = none := by
        apply List.getElem?_eq_none
        rw [dbView_length]; simp
      rw [this]
    · rw [herr, hcmd]
      have hle := cntLt_le p base ((e.1 : Int) + 1)
      have hsucc := cntLt_succ p base upper hs e heb hm
      have hv := dbView_index p base upper hs e heb hm
      unfold walkGet
      have h0 : 0 ≤ k := by omega
      simp only [h0, if_true]
      have : k.toNat = (base.filter (mE p)).length - cntLt p base ((e.1 : Int) + 1) := by omega
      rw [this, hv]

theorem db_init (p : Bytes) (base : List Entry) (upper : Nat) :
    Rdb p base upper ((⟨(upper : Int)⟩ : DbStore).cursor p) (-1) :=
  ⟨rfl, rfl, Or.inl ⟨rfl, rfl, rfl⟩⟩

end C29
