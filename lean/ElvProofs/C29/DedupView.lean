/-
C29 helper: facts about the first-occurrence filter `dedupFrom`.
-/
import ElvModel.C29.Spec
namespace C29
open Go C24 C29.Spec

def texts (l : List Cmd) : List Bytes := l.map (·.text)

/-- the texts seen once `A` has been scanned -/
def seenAfter : List Bytes → List Cmd → List Bytes
  | seen, [] => seen
  | seen, c :: r => if seen.contains c.text then seenAfter seen r else seenAfter (c.text :: seen) r

theorem dedupFrom_append (A B : List Cmd) : ∀ (seen : List Bytes),
    dedupFrom seen (A ++ B) = dedupFrom seen A ++ dedupFrom (seenAfter seen A) B := by
  induction A with
  | nil => intro seen; rfl
  | cons c r ih =>
    intro seen
    simp only [List.cons_append, dedupFrom, seenAfter]
    by_cases h : seen.contains c.text = true
    · simp only [h, if_true]; exact ih seen
    · simp only [h]; simp only [Bool.false_eq_true, if_false, List.cons_append]; rw [ih]

theorem mem_seenAfter (t : Bytes) (A : List Cmd) : ∀ (seen : List Bytes),
    t ∈ seenAfter seen A ↔ t ∈ seen ∨ t ∈ texts A := by
  induction A with
  | nil => intro seen; simp [seenAfter, texts]
  | cons c r ih =>
    intro seen
    simp only [seenAfter, texts, List.map_cons, List.mem_cons]
    by_cases h : seen.contains c.text = true
    · simp only [h, if_true]
      rw [ih seen]
      have hc : c.text ∈ seen := List.contains_iff_mem.1 h
      constructor
      · rintro (h1 | h1)
        · exact Or.inl h1
        · exact Or.inr (Or.inr h1)
      · rintro (h1 | h1 | h1)
        · exact Or.inl h1
        · exact Or.inl (h1 ▸ hc)
        · exact Or.inr h1
    · simp only [h]
      simp only [Bool.false_eq_true, if_false]
      rw [ih (c.text :: seen)]
      simp only [List.mem_cons]
      constructor
      · rintro ((h1 | h1) | h1)
        · exact Or.inr (Or.inl h1)
        · exact Or.inl h1
        · exact Or.inr (Or.inr h1)
      · rintro (h1 | h1 | h1)
        · exact Or.inl (Or.inr h1)
        · exact Or.inl (Or.inl h1)
        · exact Or.inr h1

theorem mem_texts_dedupFrom (t : Bytes) (A : List Cmd) : ∀ (seen : List Bytes),
    t ∈ texts (dedupFrom seen A) ↔ t ∈ texts A ∧ t ∉ seen := by
  induction A with
  | nil => intro seen; simp [dedupFrom, texts]
  | cons c r ih =>
    intro seen
    simp only [dedupFrom]
    by_cases h : seen.contains c.text = true
    · have hc : c.text ∈ seen := List.contains_iff_mem.1 h
      simp only [h, if_true]
      have ih' := ih seen
      simp only [texts] at ih' ⊢
      rw [ih']
      simp only [List.map_cons, List.mem_cons]
      constructor
      · rintro ⟨h1, h2⟩; exact ⟨Or.inr h1, h2⟩
      · rintro ⟨h1 | h1, h2⟩
        · exact absurd (h1 ▸ hc) h2
        · exact ⟨h1, h2⟩
    · have hc : c.text ∉ seen := fun hm => h (List.contains_iff_mem.2 hm)
      simp only [h]
      simp only [Bool.false_eq_true, if_false]
      have ih' := ih (c.text :: seen)
      simp only [texts] at ih' ⊢
      simp only [List.map_cons, List.mem_cons]
      rw [ih']
      simp only [List.mem_cons, not_or]
      constructor
      · rintro (h1 | ⟨h1, h2, h3⟩)
        · exact ⟨Or.inl h1, h1 ▸ hc⟩
        · exact ⟨Or.inr h1, h3⟩
      · rintro ⟨h1 | h1, h2⟩
        · exact Or.inl h1
        · by_cases e : t = c.text
          · exact Or.inl e
          · exact Or.inr ⟨h1, e, h2⟩

/-- scanning one more command: it is appended iff its text is new -/
theorem dedup_snoc (A : List Cmd) (c : Cmd) :
    dedupFrom [] (A ++ [c]) = dedupFrom [] A ++ (if (texts A).contains c.text then [] else [c]) := by
  rw [dedupFrom_append]
  congr 1
  simp only [dedupFrom]
  have : (seenAfter [] A).contains c.text = (texts A).contains c.text := by
    rw [List.contains_eq_mem, List.contains_eq_mem]
    congr 1
    have := mem_seenAfter c.text A []
    simp only [List.not_mem_nil, false_or] at this
    exact propext this
  rw [this]

/-- the de-duplicated prefix is a prefix of the de-duplicated view -/
theorem dedup_take_prefix (V : List Cmd) (n : Nat) :
    ∃ rest, dedupFrom [] V = dedupFrom [] (V.take n) ++ rest := by
  refine ⟨dedupFrom (seenAfter [] (V.take n)) (V.drop n), ?_⟩
  rw [← dedupFrom_append, List.take_append_drop]

theorem contains_texts_dedup (A : List Cmd) (t : Bytes) :
    (texts (dedupFrom [] A)).contains t = (texts A).contains t := by
  rw [List.contains_eq_mem, List.contains_eq_mem]
  congr 1
  have := mem_texts_dedupFrom t A []
  simp only [List.not_mem_nil, not_false_eq_true, and_true] at this
  exact propext this

end C29
