/-
C29 helper: the dbStore cursor, run against any database that agrees with the
snapshot `base` on the numbers below `upper`, simulates an index into the view
of `base`.
-/
import ElvProofs.C29.Sim
import ElvProofs.C24.Log
namespace C29
open Go C24 C24.Spec C29.Spec

/-- does the entry's text start with `p` -/
def mE (p : Bytes) (e : Entry) : Bool := hasPrefix e.2 p

/-- number of matching snapshot entries with a number below `t` -/
def cntLt (p : Bytes) (base : List Entry) (t : Int) : Nat :=
  (base.filter (fun e => decide ((e.1 : Int) < t) && mE p e)).length

/-- the shared part of the view: matching snapshot entries, newest first -/
def dbView (p : Bytes) (base : List Entry) : List Cmd := ((base.map toCmd).filter (isMatch p)).reverse

theorem dbView_eq (p : Bytes) (base : List Entry) : dbView p base = ((base.filter (mE p)).map toCmd).reverse := by
  unfold dbView
  congr 1
  induction base with
  | nil => rfl
  | cons h t ih =>
    simp only [List.map_cons, List.filter_cons, ih]
    have : isMatch p (toCmd h) = mE p h := rfl
    rw [this]
    split <;> simp

theorem dbView_length (p : Bytes) (base : List Entry) : (dbView p base).length = (base.filter (mE p)).length := by
  simp [dbView_eq]

/-- the snapshot: strictly ascending numbers, all below `upper` -/
structure Snapshot (base : List Entry) (upper : Nat) : Prop where
  sorted : base.Pairwise (fun a b => a.1 < b.1)
  below : ∀ e ∈ base, e.1 < upper
  upper_pos : 1 ≤ upper
  upper_lt : upper < two63

/-- a database state the session may see: it holds a well-formed log whose
entries numbered below `upper` are exactly the snapshot, and whose counter has
reached `upper - 1` (so every later addition is numbered `upper` or more) -/
def Frozen (base : List Entry) (upper : Nat) (db : Store) : Prop :=
  ∃ l d, db = S l d ∧ l.WF ∧ l.counter < two63 ∧ l.entries.filter (fun e => decide (e.1 < upper)) = base ∧
    upper ≤ l.counter + 1

theorem cntLt_all (p : Bytes) (base : List Entry) (upper : Nat) (hs : Snapshot base upper) (t : Int) (ht : (upper : Int) ≤ t) :
    cntLt p base t = (base.filter (mE p)).length := by
  unfold cntLt
  congr 1
  apply List.filter_congr
  intro e he
  have := hs.below e he
  have : decide ((e.1 : Int) < t) = true := by simp; omega
  simp [this]

theorem cntLt_zero (p : Bytes) (base : List Entry) (t : Int) (ht : t ≤ 0) : cntLt p base t = 0 := by
  unfold cntLt
  simp only [List.length_eq_zero_iff]
  apply List.filter_eq_nil_iff.2
  intro e _
  have : ¬ ((e.1 : Int) < t) := by omega
  simp [this]

theorem cntLt_le (p : Bytes) (base : List Entry) (t : Int) : cntLt p base t ≤ (base.filter (mE p)).length := by
  unfold cntLt
  have : base.filter (fun e => decide ((e.1 : Int) < t) && mE p e)
      = (base.filter (mE p)).filter (fun e => decide ((e.1 : Int) < t)) := by
    rw [List.filter_filter]
  rw [this]
  exact List.Sublist.length_le List.filter_sublist

/-- no matching entry numbered in `[t1, t2)`: the counts agree -/
theorem cntLt_eq_of_gap (p : Bytes) (base : List Entry) (t1 t2 : Int) (h12 : t1 ≤ t2)
    (hgap : ∀ e ∈ base, mE p e = true → t1 ≤ (e.1 : Int) → t2 ≤ (e.1 : Int)) : cntLt p base t1 = cntLt p base t2 := by
  unfold cntLt
  congr 1
  apply List.filter_congr
  intro e he
  by_cases hm : mE p e = true
  · have := hgap e he hm
    simp only [hm, Bool.and_true]
    by_cases c1 : (e.1 : Int) < t1
    · have : (e.1 : Int) < t2 := by omega
      simp [c1, this]
    · have : ¬ (e.1 : Int) < t2 := by omega
      simp [c1, this]
  · simp [hm]

/-- a matching entry adds one -/
theorem cntLt_succ (p : Bytes) (base : List Entry) (upper : Nat) (hs : Snapshot base upper) (e : Entry) (he : e ∈ base)
    (hm : mE p e = true) : cntLt p base ((e.1 : Int) + 1) = cntLt p base (e.1 : Int) + 1 := by
  obtain ⟨A, B, rfl⟩ := List.append_of_mem he
  have hsA := (List.pairwise_append.1 hs.sorted)
  have hA : ∀ a ∈ A, a.1 < e.1 := fun a ha => hsA.2.2 a ha e (by simp)
  have hB : ∀ b ∈ B, e.1 < b.1 := fun b hb => (List.pairwise_cons.1 hsA.2.1).1 b hb
  unfold cntLt
  simp only [List.filter_append, List.filter_cons, List.length_append]
  have e1 : decide ((e.1 : Int) < (e.1 : Int) + 1) = true := decide_eq_true (by omega)
  have e2 : decide ((e.1 : Int) < (e.1 : Int)) = false := decide_eq_false (by omega)
  simp only [e1, e2, hm, Bool.and_true, Bool.true_and, Bool.false_and, if_true]
  have eA : A.filter (fun x => decide ((x.1 : Int) < (e.1 : Int) + 1) && mE p x)
      = A.filter (fun x => decide ((x.1 : Int) < (e.1 : Int)) && mE p x) := by
    apply List.filter_congr
    intro a ha
    have := hA a ha
    have h1 : decide ((a.1 : Int) < (e.1 : Int) + 1) = true := decide_eq_true (by omega)
    have h2 : decide ((a.1 : Int) < (e.1 : Int)) = true := decide_eq_true (by omega)
    simp only [h1, h2]
  have eB : B.filter (fun x => decide ((x.1 : Int) < (e.1 : Int) + 1) && mE p x)
      = B.filter (fun x => decide ((x.1 : Int) < (e.1 : Int)) && mE p x) := by
    apply List.filter_congr
    intro b hb
    have := hB b hb
    have h1 : decide ((b.1 : Int) < (e.1 : Int) + 1) = false := decide_eq_false (by omega)
    have h2 : decide ((b.1 : Int) < (e.1 : Int)) = false := decide_eq_false (by omega)
    simp only [h1, h2]
  rw [eA, eB]
  simp
  omega

/-- the matching entry `e` sits at index `|V| - cntLt (e.seq + 1)` of the view -/
theorem dbView_index (p : Bytes) (base : List Entry) (upper : Nat) (hs : Snapshot base upper) (e : Entry) (he : e ∈ base)
    (hm : mE p e = true) :
    (dbView p base)[(base.filter (mE p)).length - cntLt p base ((e.1 : Int) + 1)]? = some (toCmd e) := by
  obtain ⟨A, B, rfl⟩ := List.append_of_mem he
  have hsA := (List.pairwise_append.1 hs.sorted)
  have hA : ∀ a ∈ A, a.1 < e.1 := fun a ha => hsA.2.2 a ha e (by simp)
  have hB : ∀ b ∈ B, e.1 < b.1 := fun b hb => (List.pairwise_cons.1 hsA.2.1).1 b hb
  have hc : cntLt p (A ++ e :: B) ((e.1 : Int) + 1) = (A.filter (mE p)).length + 1 := by
    unfold cntLt
    simp only [List.filter_append, List.filter_cons, List.length_append]
    have e1 : decide ((e.1 : Int) < (e.1 : Int) + 1) = true := decide_eq_true (by omega)
    simp only [e1, hm, Bool.and_true, if_true]
    have eA : A.filter (fun x => decide ((x.1 : Int) < (e.1 : Int) + 1) && mE p x) = A.filter (mE p) := by
      apply List.filter_congr
      intro a ha
      have := hA a ha
      have h1 : decide ((a.1 : Int) < (e.1 : Int) + 1) = true := decide_eq_true (by omega)
      simp [h1]
    have eB : B.filter (fun x => decide ((x.1 : Int) < (e.1 : Int) + 1) && mE p x) = [] := by
      apply List.filter_eq_nil_iff.2
      intro b hb
      have := hB b hb
      have h1 : decide ((b.1 : Int) < (e.1 : Int) + 1) = false := decide_eq_false (by omega)
      simp [h1]
    rw [eA, eB]
    simp
  rw [hc, dbView_eq]
  simp only [List.filter_append, List.filter_cons, hm, if_true, List.map_append, List.map_cons,
    List.reverse_append, List.reverse_cons, List.length_append, List.length_cons, List.append_assoc]
  generalize A.filter (mE p) = FA
  generalize B.filter (mE p) = FB
  have : FA.length + (FB.length + 1) - (FA.length + 1) = (FB.map toCmd).reverse.length := by simp; omega
  rw [this, List.getElem?_append_right (Nat.le_refl _)]
  simp

end C29
