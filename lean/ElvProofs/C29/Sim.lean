/-
C29 helper: what it means for a cursor implementation to simulate an index
into a view, and basic facts about views.
-/
import ElvModel.C29.Spec
namespace C29
open Go C24 C29.Spec

/-- `ops` on states related by `R` to an index into `V` behave like the index:
`Prev ↦ min (i+1) |V|`, `Next ↦ max (i-1) (-1)`, `Get` = `V[i]` or end of history. -/
structure Sim {σ : Type} (ops : CursorOps σ) (V : List Cmd) (R : σ → Int → Prop) : Prop where
  range : ∀ s k, R s k → -1 ≤ k ∧ k ≤ V.length
  prev : ∀ s k, R s k → ∃ s', ops.prev s = .ok s' ∧ R s' (walkPrev V k)
  next : ∀ s k, R s k → ∃ s', ops.next s = .ok s' ∧ R s' (walkNext k)
  get : ∀ s k, R s k → ops.get s = walkGet V k

theorem walkGet_eoh_iff (V : List Cmd) (k : Int) (h : -1 ≤ k ∧ k ≤ V.length) :
    isEOH (walkGet V k) = true ↔ (k = -1 ∨ k = V.length) := by
  unfold walkGet
  by_cases h0 : 0 ≤ k
  · simp only [h0, if_true]
    cases hv : V[k.toNat]? with
    | none =>
      have : V.length ≤ k.toNat := by simpa using hv
      simp [isEOH]; omega
    | some c =>
      have : k.toNat < V.length := by
        have := List.getElem?_eq_some_iff.1 hv; exact this.1
      simp [isEOH]; omega
  · simp [h0, isEOH]; omega

theorem walkGet_not_panic (V : List Cmd) (k : Int) : ∀ w, walkGet V k ≠ .panic w := by
  intro w
  unfold walkGet
  split
  · split <;> simp
  · simp

theorem walkGet_append_left (A B : List Cmd) (k : Int) (h : k < A.length) : walkGet (A ++ B) k = walkGet A k ∨ k < 0 := by
  by_cases h0 : 0 ≤ k
  · left
    unfold walkGet
    simp only [h0, if_true]
    rw [List.getElem?_append_left (by omega)]
  · right; omega

theorem walkGet_append_right (A B : List Cmd) (k : Int) (h : 0 ≤ k) :
    walkGet (A ++ B) ((A.length : Int) + k) = walkGet B k := by
  unfold walkGet
  have : 0 ≤ (A.length : Int) + k := by omega
  simp only [h, this, if_true]
  have e : ((A.length : Int) + k).toNat = A.length + k.toNat := by omega
  rw [e, List.getElem?_append_right (by omega)]
  simp

theorem walkGet_cases (V : List Cmd) (k : Int) : (∃ c, walkGet V k = .ok c) ∨ walkGet V k = .exc errEndOfHistory := by
  unfold walkGet
  split
  · split
    · exact Or.inl ⟨_, rfl⟩
    · exact Or.inr rfl
  · exact Or.inr rfl

end C29
