/-
C29 helper: the dedup cursor over any simulating cursor simulates an index into
the first-occurrence filter of the inner view.
-/
import ElvProofs.C29.Sim
import ElvProofs.C29.DedupView
namespace C29
open Go C24 C29.Spec

/-- `occ` holds exactly the texts on the stack -/
def OccOk (occ : List Bytes) (stack : List Cmd) : Prop := ∀ t, occ.contains t = (texts stack).contains t

def Rdd {σ : Type} (V : List Cmd) (R : σ → Int → Prop) (d : Dedup σ) (k : Int) : Prop :=
  ∃ j : Int, R d.c j ∧ d.stack = dedupFrom [] (V.take (j + 1).toNat) ∧ OccOk d.occ d.stack ∧
    ((j = V.length ∧ -1 ≤ d.current ∧ d.current ≤ d.stack.length ∧ k = d.current) ∨
     (j < V.length ∧ -1 ≤ d.current ∧ d.current < d.stack.length ∧ k = d.current) ∨
     (j = -1 ∧ d.stack = [] ∧ d.current = 0 ∧ k = -1))

theorem stack_len_le (V : List Cmd) (n : Nat) : (dedupFrom [] (V.take n)).length ≤ (dedupView V).length := by
  obtain ⟨rest, h⟩ := dedup_take_prefix V n
  unfold dedupView
  rw [h]; simp

theorem stack_get (V : List Cmd) (n i : Nat) (hi : i < (dedupFrom [] (V.take n)).length) :
    (dedupView V)[i]? = (dedupFrom [] (V.take n))[i]? := by
  obtain ⟨rest, h⟩ := dedup_take_prefix V n
  unfold dedupView
  rw [h, List.getElem?_append_left hi]

theorem walkGet_ok_iff (V : List Cmd) (k : Int) (c : Cmd) : walkGet V k = .ok c ↔ 0 ≤ k ∧ V[k.toNat]? = some c := by
  unfold walkGet
  by_cases h0 : 0 ≤ k
  · simp only [h0, if_true, true_and]
    cases hv : V[k.toNat]? with
    | none => simp
    | some x => simp
  · simp [h0]

/-- the loop of `Prev`, started with the inner cursor at index `j < |V|`: it ends with
`current` = the old stack height, having pushed the next new text or reached the end -/
theorem dedupLoop_spec {σ : Type} (inner : CursorOps σ) (V : List Cmd) (R : σ → Int → Prop) (hs : Sim inner V R) :
    ∀ (fuel : Nat) (d : Dedup σ) (j : Int), R d.c j → -1 ≤ j → j < V.length →
      d.stack = dedupFrom [] (V.take (j + 1).toNat) → OccOk d.occ d.stack → (V.length : Int) - j ≤ fuel →
      ∃ d', dedupLoop inner fuel d = .ok d' ∧ Rdd V R d' (d.stack.length : Int)
  | 0, _, _, _, _, _, _, _, hf => by omega
  | fuel + 1, d, j, hr, h0, hlt, hst, hocc, hf => by
    obtain ⟨c', e1, r1⟩ := hs.prev _ _ hr
    have hj' : walkPrev V j = j + 1 := by simp only [walkPrev]; omega
    rw [hj'] at r1
    have hg := hs.get _ _ r1
    simp only [dedupLoop, e1, hg]
    rcases walkGet_cases V (j + 1) with ⟨cmd, hc⟩ | hc
    · -- the inner cursor yields V[j+1]
      obtain ⟨_, hv⟩ := (walkGet_ok_iff V (j + 1) cmd).1 hc
      have hlt' : (j + 1).toNat < V.length := (List.getElem?_eq_some_iff.1 hv).1
      have htake : V.take (j + 1 + 1).toNat = V.take (j + 1).toNat ++ [cmd] := by
        have : (j + 1 + 1).toNat = (j + 1).toNat + 1 := by omega
        rw [this, List.take_add_one, hv]; rfl
      have hsnoc := dedup_snoc (V.take (j + 1).toNat) cmd
      rw [← htake, ← hst] at hsnoc
      have hseen : d.occ.contains cmd.text = (texts (V.take (j + 1).toNat)).contains cmd.text := by
        rw [hocc, hst, contains_texts_dedup]
      rw [hc]
      by_cases hnew : d.occ.contains cmd.text = true
      · -- seen before: skip and go on
        simp only [hnew, Bool.not_true, Bool.false_eq_true, if_false]
        rw [← hseen, hnew] at hsnoc
        simp only [if_true, List.append_nil] at hsnoc
        have := dedupLoop_spec inner V R hs fuel { d with c := c' } (j + 1) r1 (by omega) (by omega)
          hsnoc.symm hocc (by omega)
        exact this
      · -- new text: push
        have hnew' : d.occ.contains cmd.text = false := by simpa using hnew
        simp only [hnew', Bool.not_false, if_true]
        rw [← hseen, hnew'] at hsnoc
        simp only [Bool.false_eq_true, if_false] at hsnoc
        refine ⟨_, rfl, j + 1, r1, hsnoc.symm, ?_, Or.inr (Or.inl ⟨by omega, by simp only; omega, by simp only [List.length_append, List.length_cons, List.length_nil]; omega, rfl⟩)⟩
        intro t
        simp only [texts, List.map_append, List.map_cons, List.map_nil, List.contains_cons, List.contains_append,
          List.contains_nil, Bool.or_false]
        have := hocc t
        simp only [texts] at this
        rw [this, Bool.or_comm]
    · -- the inner cursor is past its oldest entry
      rw [hc]
      have hend : j + 1 = V.length := by
        have := (walkGet_eoh_iff V (j + 1) (hs.range _ _ r1)).1 (by rw [hc]; simp [isEOH])
        omega
      refine ⟨_, rfl, j + 1, r1, ?_, hocc, Or.inl ⟨hend, by simp only; omega, by simp, rfl⟩⟩
      simp only
      rw [hst]
      have e1 : (j + 1).toNat = V.length := by omega
      have e2 : (j + 1 + 1).toNat = V.length + 1 := by omega
      rw [e1, e2, List.take_of_length_le (Nat.le_refl _), List.take_of_length_le (by omega)]

theorem dedup_sim {σ : Type} (inner : CursorOps σ) (V : List Cmd) (R : σ → Int → Prop) (hs : Sim inner V R)
    (fuel : Nat) (hfuel : V.length + 1 ≤ fuel) :
    Sim (dedupOps inner fuel) (dedupView V) (Rdd V R) where
  range := by
    intro d k ⟨j, _, hst, _, h⟩
    have hle := stack_len_le V (j + 1).toNat
    rw [← hst] at hle
    rcases h with ⟨_, _, _, hk⟩ | ⟨_, _, _, hk⟩ | ⟨_, _, _, hk⟩ <;> omega
  prev := by
    intro d k ⟨j, hr, hst, hocc, h⟩
    have hle := stack_len_le V (j + 1).toNat
    rw [← hst] at hle
    have hrange := hs.range _ _ hr
    simp only [dedupOps, dedupPrev, walkPrev]
    by_cases hin : d.current < (d.stack.length : Int) - 1
    · -- inside the stack: just move
      simp only [hin, if_true]
      refine ⟨_, rfl, j, hr, hst, hocc, ?_⟩
      rcases h with ⟨hj, h1, h2, hk⟩ | ⟨hj, h1, h2, hk⟩ | ⟨hj, hs0, hc, hk⟩
      · exact Or.inl ⟨hj, by simp only; omega, by simp only; omega, by simp only; omega⟩
      · exact Or.inr (Or.inl ⟨hj, by simp only; omega, by simp only; omega, by simp only; omega⟩)
      · rw [hs0] at hin; simp at hin; omega
    · simp only [hin, if_false]
      by_cases hjend : j = V.length
      · -- the inner cursor is already past its oldest entry: one more futile step
        have hcur : d.current = (d.stack.length : Int) - 1 ∨ d.current = d.stack.length := by
          rcases h with ⟨_, h1, h2, hk⟩ | ⟨hj, _⟩ | ⟨hj, _⟩ <;> omega
        have hk : k = d.current := by
          rcases h with ⟨_, h1, h2, hk⟩ | ⟨hj, _⟩ | ⟨hj, _⟩ <;> omega
        obtain ⟨fuel', rfl⟩ : ∃ f, fuel = f + 1 := ⟨fuel - 1, by omega⟩
        obtain ⟨c', e1, r1⟩ := hs.prev _ _ hr
        have hj' : walkPrev V j = V.length := by simp only [walkPrev]; omega
        rw [hj'] at r1
        have hg := hs.get _ _ r1
        have hget : walkGet V (V.length : Int) = .exc errEndOfHistory := by
          rcases walkGet_cases V (V.length : Int) with ⟨c, hc⟩ | hc
          · have := (walkGet_ok_iff V _ c).1 hc
            have h2 := (List.getElem?_eq_some_iff.1 this.2).1
            omega
          · exact hc
        simp only [dedupLoop, e1, hg, hget]
        refine ⟨_, rfl, V.length, r1, ?_, hocc, Or.inl ⟨rfl, by simp only; omega, by simp, ?_⟩⟩
        · simp only
          rw [hst, hjend]
        · simp only
          have hD : (dedupView V).length = d.stack.length := by
            rw [hst, hjend]
            have e1 : ((V.length : Int) + 1).toNat = V.length + 1 := by omega
            rw [e1, List.take_of_length_le (by omega)]; rfl
          omega
      · have hjlt : j < V.length := by omega
        obtain ⟨d', e, r⟩ := dedupLoop_spec inner V R hs fuel d j hr hrange.1 hjlt hst hocc (by omega)
        refine ⟨d', e, ?_⟩
        have : min (k + 1) ((dedupView V).length : Int) = (d.stack.length : Int) := by
          rcases h with ⟨hj, _⟩ | ⟨_, h1, h2, hk⟩ | ⟨_, hs0, hc, hk⟩
          · omega
          · omega
          · rw [hs0]; simp; omega
        rw [this]; exact r
  next := by
    intro d k ⟨j, hr, hst, hocc, h⟩
    simp only [dedupOps, dedupNext, walkNext]
    by_cases hc : d.current ≥ 0
    · simp only [hc, if_true]
      refine ⟨_, rfl, j, hr, hst, hocc, ?_⟩
      rcases h with ⟨hj, h1, h2, hk⟩ | ⟨hj, h1, h2, hk⟩ | ⟨hj, hs0, hcur, hk⟩
      · exact Or.inl ⟨hj, by simp only; omega, by simp only; omega, by simp only; omega⟩
      · exact Or.inr (Or.inl ⟨hj, by simp only; omega, by simp only; omega, by simp only; omega⟩)
      · have hrange := hs.range _ _ hr
        refine Or.inr (Or.inl ⟨by omega, by simp only; omega, ?_, by simp only; omega⟩)
        simp only [hs0, List.length_nil]; omega
    · simp only [hc, if_false]
      refine ⟨_, rfl, j, hr, hst, hocc, ?_⟩
      rcases h with ⟨hj, h1, h2, hk⟩ | ⟨hj, h1, h2, hk⟩ | ⟨hj, hs0, hcur, hk⟩
      · exact Or.inl ⟨hj, h1, h2, by omega⟩
      · exact Or.inr (Or.inl ⟨hj, h1, h2, by omega⟩)
      · omega
  get := by
    intro d k ⟨j, hr, hst, hocc, h⟩
    simp only [dedupOps, dedupGet]
    have hle := stack_len_le V (j + 1).toNat
    rw [← hst] at hle
    by_cases hneg : d.current < 0
    · simp only [hneg, if_true]
      have : k = -1 := by
        rcases h with ⟨_, h1, _, hk⟩ | ⟨_, h1, _, hk⟩ | ⟨_, _, hc, _⟩ <;> omega
      simp [this, walkGet]
    · simp only [hneg, if_false]
      by_cases hin : d.current < d.stack.length
      · simp only [hin, if_true]
        have hk : k = d.current := by
          rcases h with ⟨_, _, _, hk⟩ | ⟨_, _, _, hk⟩ | ⟨_, hs0, hc, _⟩
          · exact hk
          · exact hk
          · rw [hs0] at hin; simp at hin; omega
        have h0 : 0 ≤ d.current := by omega
        have hlt : d.current.toNat < d.stack.length := by omega
        have hidx : Go.index d.stack d.current = .ok (d.stack[d.current.toNat]'hlt) := by
          simp [Go.index, h0, List.getElem?_eq_getElem hlt]
        rw [hidx, hk]
        unfold walkGet
        simp only [h0, if_true]
        have := stack_get V (j + 1).toNat d.current.toNat (by rw [← hst]; exact hlt)
        rw [this, ← hst, List.getElem?_eq_getElem hlt]
      · simp only [hin, if_false]
        rw [hs.get _ _ hr]
        rcases h with ⟨hj, h1, h2, hk⟩ | ⟨hj, h1, h2, hk⟩ | ⟨hj, hs0, hc, hk⟩
        · -- past the oldest entry
          have hcur : d.current = d.stack.length := by omega
          have hD : (dedupView V).length = d.stack.length := by
            rw [hst, hj]
            have e1 : ((V.length : Int) + 1).toNat = V.length + 1 := by omega
            rw [e1, List.take_of_length_le (by omega)]; rfl
          rw [hj, hk, hcur, ← hD]
          have g1 : walkGet V (V.length : Int) = .exc errEndOfHistory := by
            rcases walkGet_cases V (V.length : Int) with ⟨c, hc⟩ | hc
            · have := (walkGet_ok_iff V _ c).1 hc
              have h2 := (List.getElem?_eq_some_iff.1 this.2).1
              omega
            · exact hc
          have g2 : walkGet (dedupView V) ((dedupView V).length : Int) = .exc errEndOfHistory := by
            rcases walkGet_cases (dedupView V) ((dedupView V).length : Int) with ⟨c, hc⟩ | hc
            · have := (walkGet_ok_iff _ _ c).1 hc
              have h2 := (List.getElem?_eq_some_iff.1 this.2).1
              omega
            · exact hc
          rw [g1, g2]
        · omega
        · rw [hj, hk]
          simp [walkGet]

/-- a fresh dedup cursor over an inner cursor at index -1 is at index -1 -/
theorem dedup_init {σ : Type} (V : List Cmd) (R : σ → Int → Prop) (c : σ) (h : R c (-1)) :
    Rdd V R (newDedup c) (-1) :=
  ⟨-1, h, by simp [newDedup, dedupFrom], by intro t; simp [newDedup, texts], Or.inr (Or.inr ⟨rfl, rfl, rfl, rfl⟩)⟩

end C29
