/-
C29 helper: the hybrid cursor over any two simulating cursors simulates an
index into the concatenated view (session part first — it is newer).
-/
import ElvProofs.C29.Sim
namespace C29
open Go C24 C29.Spec

def Rhyb {σd σs : Type} (Vs : List Cmd) (Rs : σs → Int → Prop) (Rd : σd → Int → Prop)
    (c : Hybrid σd σs) (k : Int) : Prop :=
  (c.useShared = false ∧ Rd c.shared (-1) ∧ Rs c.session k ∧ k < Vs.length) ∨
  (c.useShared = true ∧ Rs c.session Vs.length ∧ ∃ kd, Rd c.shared kd ∧ 0 ≤ kd ∧ k = Vs.length + kd)

theorem hybrid_sim {σd σs : Type} (sh : CursorOps σd) (se : CursorOps σs) (Vs Vd : List Cmd)
    (Rs : σs → Int → Prop) (Rd : σd → Int → Prop) (hs : Sim se Vs Rs) (hd : Sim sh Vd Rd) :
    Sim (hybridOps sh se) (Vs ++ Vd) (Rhyb Vs Rs Rd) where
  range := by
    intro c k h
    simp only [List.length_append]
    rcases h with ⟨_, _, h, hk⟩ | ⟨_, _, kd, h, h0, hk⟩
    · have := hs.range _ _ h; omega
    · have := hd.range _ _ h; omega
  prev := by
    intro c k h
    obtain ⟨cd, cs, cu⟩ := c
    simp only [hybridOps, hybridPrev, walkPrev, List.length_append]
    rcases h with ⟨hu, hrd, hrs, hk⟩ | ⟨hu, hrs, kd, hrd, h0, hk⟩
    · simp only at hu hrd hrs
      subst hu
      simp only [Bool.false_eq_true, if_false]
      obtain ⟨s', e1, r1⟩ := hs.prev _ _ hrs
      have hr := hs.range _ _ hrs
      have hg := hs.get _ _ r1
      simp only [e1, hg]
      by_cases hend : k + 1 = Vs.length
      · -- the session part is exhausted: hand over to the shared cursor
        have hk' : walkPrev Vs k = Vs.length := by simp only [walkPrev]; omega
        have heoh : isEOH (walkGet Vs (walkPrev Vs k)) = true := by
          rw [walkGet_eoh_iff _ _ (hs.range _ _ r1)]; right; exact hk'
        obtain ⟨d', e2, r2⟩ := hd.prev _ _ hrd
        have hrange := hd.range _ _ r2
        rcases walkGet_cases Vs (walkPrev Vs k) with ⟨c, hc⟩ | hc
        · rw [hc] at heoh; simp [isEOH] at heoh
        · rw [hc]
          simp only [isEOH, decide_true, if_true, e2]
          refine ⟨_, rfl, Or.inr ⟨rfl, ?_, walkPrev Vd (-1), r2, ?_, ?_⟩⟩
          · simp only; rw [← hk']; exact r1
          · simp only [walkPrev]; omega
          · simp only [walkPrev] at hrange ⊢; omega
      · have hk' : walkPrev Vs k = k + 1 := by simp only [walkPrev]; omega
        have hne : isEOH (walkGet Vs (walkPrev Vs k)) = false := by
          cases h : isEOH (walkGet Vs (walkPrev Vs k)) with
          | false => rfl
          | true =>
            have := (walkGet_eoh_iff _ _ (hs.range _ _ r1)).1 h
            omega
        rcases walkGet_cases Vs (walkPrev Vs k) with ⟨c, hc⟩ | hc
        · rw [hc]
          simp only [isEOH, Bool.false_eq_true, if_false]
          refine ⟨_, rfl, Or.inl ⟨rfl, hrd, ?_, ?_⟩⟩
          · simp only
            have : min (k + 1) ((Vs.length + Vd.length : Nat) : Int) = walkPrev Vs k := by rw [hk']; omega
            rw [this]; exact r1
          · show min (k + 1) _ < _; omega
        · rw [hc] at hne; simp [isEOH] at hne
    · simp only at hu hrd hrs
      subst hu
      simp only [if_true]
      obtain ⟨d', e2, r2⟩ := hd.prev _ _ hrd
      have hrange := hd.range _ _ hrd
      simp only [e2]
      refine ⟨_, rfl, Or.inr ⟨rfl, hrs, walkPrev Vd kd, r2, ?_, ?_⟩⟩
      · simp only [walkPrev]; omega
      · simp only [walkPrev]; omega
  next := by
    intro c k h
    obtain ⟨cd, cs, cu⟩ := c
    simp only [hybridOps, hybridNext, walkNext]
    rcases h with ⟨hu, hrd, hrs, hk⟩ | ⟨hu, hrs, kd, hrd, h0, hk⟩
    · simp only at hu hrd hrs
      subst hu
      simp only [Bool.not_false, if_true]
      obtain ⟨s', e1, r1⟩ := hs.next _ _ hrs
      have hr := hs.range _ _ hrs
      simp only [e1]
      refine ⟨_, rfl, Or.inl ⟨rfl, hrd, r1, ?_⟩⟩
      show max (k - 1) (-1) < _; omega
    · simp only at hu hrd hrs
      subst hu
      simp only [Bool.not_true, Bool.false_eq_true, if_false]
      obtain ⟨d', e2, r2⟩ := hd.next _ _ hrd
      have hrange := hd.range _ _ hrd
      have hg := hd.get _ _ r2
      simp only [e2, hg]
      by_cases hend : kd = 0
      · -- back at the newest shared entry: hand over to the session cursor
        have hk' : walkNext kd = -1 := by simp only [walkNext]; omega
        have heoh : isEOH (walkGet Vd (walkNext kd)) = true := by
          rw [walkGet_eoh_iff _ _ (hd.range _ _ r2)]; left; exact hk'
        obtain ⟨s', e1, r1⟩ := hs.next _ _ hrs
        rcases walkGet_cases Vd (walkNext kd) with ⟨c, hc⟩ | hc
        · rw [hc] at heoh; simp [isEOH] at heoh
        · rw [hc]
          simp only [isEOH, decide_true, if_true, e1]
          refine ⟨_, rfl, Or.inl ⟨rfl, ?_, ?_, ?_⟩⟩
          · simp only; rw [← hk']; exact r2
          · simp only
            have : max (k - 1) (-1) = walkNext (Vs.length : Int) := by simp only [walkNext]; omega
            rw [this]; exact r1
          · omega
      · have hk' : walkNext kd = kd - 1 := by simp only [walkNext]; omega
        have hne : isEOH (walkGet Vd (walkNext kd)) = false := by
          cases h : isEOH (walkGet Vd (walkNext kd)) with
          | false => rfl
          | true =>
            have := (walkGet_eoh_iff _ _ (hd.range _ _ r2)).1 h
            omega
        rcases walkGet_cases Vd (walkNext kd) with ⟨c, hc⟩ | hc
        · rw [hc]
          simp only [isEOH, Bool.false_eq_true, if_false]
          refine ⟨_, rfl, Or.inr ⟨rfl, hrs, walkNext kd, r2, ?_, ?_⟩⟩
          · omega
          · omega
        · rw [hc] at hne; simp [isEOH] at hne
  get := by
    intro c k h
    obtain ⟨cd, cs, cu⟩ := c
    simp only [hybridOps, hybridGet]
    rcases h with ⟨hu, hrd, hrs, hk⟩ | ⟨hu, hrs, kd, hrd, h0, hk⟩
    · simp only at hu hrd hrs
      subst hu
      simp only [Bool.false_eq_true, if_false]
      rw [hs.get _ _ hrs]
      rcases walkGet_append_left Vs Vd k hk with h | h
      · exact h.symm
      · have h1 : ¬ 0 ≤ k := by omega
        simp [walkGet, h1]
    · simp only at hu hrd hrs
      subst hu
      simp only [if_true]
      rw [hd.get _ _ hrd, hk, walkGet_append_right Vs Vd kd h0]

end C29
