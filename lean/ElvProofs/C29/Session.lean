/-
C29 helper: the snapshot taken at session start, its preservation by later
additions, and the properties of the de-duplicated view.
-/
import ElvProofs.C29.Run
namespace C29
open Go C24 C24.Spec C29.Spec

theorem session_start (l : Log) (d : Bucket) (hwf : l.WF) (hc : l.counter + 1 < two63) :
    newDBStore (S l d) = ⟨((l.counter + 1 : Nat) : Int)⟩ ∧
    Snapshot l.entries (l.counter + 1) ∧ Frozen l.entries (l.counter + 1) (S l d) := by
  refine ⟨?_, ⟨hwf.1, ?_, by omega, hc⟩, l, d, rfl, hwf, by omega, ?_, Nat.le_refl _⟩
  · simp only [newDBStore, nextCmdSeq_conc l d hc, Log.nextSeq]
  · intro e he; have := (hwf.2 e he).2; omega
  · apply List.filter_eq_self.2
    intro e he
    have := (hwf.2 e he).2
    simp; omega

/-- an addition to the database (by this or any other session) keeps it frozen below `upper` -/
theorem frozen_add (base : List Entry) (upper : Nat) (db : Store) (t : Bytes) (hf : Frozen base upper db)
    (hc : db.cmd.sequence + 1 < two63) : Frozen base upper (addCmd db t).1 ∧ ∃ n, (addCmd db t).2 = .ok n := by
  obtain ⟨l, d, rfl, hwf, _, hbase, hup⟩ := hf
  have hc' : l.counter + 1 < two63 := hc
  rw [addCmd_conc l d t hwf hc']
  refine ⟨⟨(l.add t).1, d, rfl, Log.WF_add hwf t, by simp [Log.add]; omega, ?_, by simp [Log.add]; omega⟩, _, rfl⟩
  simp only [Log.add, List.filter_append, hbase]
  have : ¬ (l.counter + 1 < upper) := by omega
  simp [List.filter, this]

theorem dedupFrom_sublist (A : List Cmd) : ∀ (seen : List Bytes), (dedupFrom seen A).Sublist A := by
  induction A with
  | nil => intro _; exact List.Sublist.refl _
  | cons c r ih =>
    intro seen
    simp only [dedupFrom]
    split
    · exact List.Sublist.cons _ (ih seen)
    · exact List.Sublist.cons₂ _ (ih _)

theorem dedupFrom_nodup (A : List Cmd) : ∀ (seen : List Bytes), (texts (dedupFrom seen A)).Nodup := by
  induction A with
  | nil => intro _; simp [dedupFrom, texts]
  | cons c r ih =>
    intro seen
    simp only [dedupFrom]
    split
    · exact ih seen
    · simp only [texts, List.map_cons, List.nodup_cons]
      refine ⟨?_, ih _⟩
      intro hmem
      have := (mem_texts_dedupFrom c.text r (c.text :: seen)).1 hmem
      exact this.2 (by simp)

theorem dedupFrom_first (c : Cmd) (A : List Cmd) : ∀ (seen : List Bytes), c ∈ dedupFrom seen A →
    ∃ X Y, A = X ++ c :: Y ∧ c.text ∉ texts X ∧ c.text ∉ seen := by
  induction A with
  | nil => intro _ h; simp [dedupFrom] at h
  | cons h r ih =>
    intro seen hc
    simp only [dedupFrom] at hc
    by_cases hs : seen.contains h.text = true
    · simp only [hs, if_true] at hc
      obtain ⟨X, Y, e, h1, h2⟩ := ih seen hc
      refine ⟨h :: X, Y, by rw [e]; rfl, ?_, h2⟩
      simp only [texts, List.map_cons, List.mem_cons, not_or]
      refine ⟨?_, h1⟩
      intro e'
      exact h2 (e' ▸ List.contains_iff_mem.1 hs)
    · simp only [hs] at hc
      simp only [Bool.false_eq_true, if_false, List.mem_cons] at hc
      rcases hc with rfl | hc
      · exact ⟨[], r, rfl, by simp [texts], fun hm => hs (List.contains_iff_mem.2 hm)⟩
      · obtain ⟨X, Y, e, h1, h2⟩ := ih _ hc
        simp only [List.mem_cons, not_or] at h2
        refine ⟨h :: X, Y, by rw [e]; rfl, ?_, h2.2⟩
        simp only [texts, List.map_cons, List.mem_cons, not_or]
        exact ⟨h2.1, h1⟩

/-- `n` steps back from index `i` end at `min (i + n) |v|` -/
theorem walk_prevs (v : List Cmd) : ∀ (n : Nat) (i : Int), i ≤ v.length →
    walkIdx v i (List.replicate n Move.prev) = min (i + n) v.length
  | 0, i, h => by simp only [List.replicate_zero, walkIdx]; omega
  | n + 1, i, h => by
    have ih := walk_prevs v n (walkPrev v i) (by simp only [walkPrev]; omega)
    simp only [List.replicate_succ, walkIdx, walkMove]
    rw [ih]
    simp only [walkPrev]
    omega

/-- `n` steps forward from index `i` end at `max (i - n) (-1)` -/
theorem walk_nexts (v : List Cmd) : ∀ (n : Nat) (i : Int), -1 ≤ i →
    walkIdx v i (List.replicate n Move.next) = max (i - n) (-1)
  | 0, i, h => by simp only [List.replicate_zero, walkIdx]; omega
  | n + 1, i, h => by
    have ih := walk_nexts v n (walkNext i) (by simp only [walkNext]; omega)
    simp only [List.replicate_succ, walkIdx, walkMove]
    rw [ih]
    simp only [walkNext]
    omega

theorem walkGets_append (v : List Cmd) : ∀ (a b : List Move) (i : Int),
    walkGets v i (a ++ b) = walkGets v i a ++ walkGets v (walkIdx v i a) b
  | [], _, _ => rfl
  | m :: a, b, i => by simp only [List.cons_append, walkGets, walkIdx, walkGets_append v a b]

theorem walkIdx_append (v : List Cmd) : ∀ (a b : List Move) (i : Int),
    walkIdx v i (a ++ b) = walkIdx v (walkIdx v i a) b
  | [], _, _ => rfl
  | m :: a, b, i => by simp only [List.cons_append, walkIdx, walkIdx_append v a b]

/-- the last `Get` of a walk is taken at the index the walk ends at -/
theorem walkGets_last (v : List Cmd) (ms : List Move) (m : Move) (i : Int) :
    (walkGets v i (ms ++ [m])).getLast? = some (walkGet v (walkIdx v i (ms ++ [m]))) := by
  rw [walkGets_append, walkIdx_append]
  simp [walkGets, walkIdx]

end C29
