/-
C29 helper: the memStore cursor simulates an index into its view.
-/
import ElvProofs.C29.Sim
namespace C29
open Go C24 C29.Spec

/-- number of matching commands among the first `n` -/
def cnt (p : Bytes) (cmds : List Cmd) (n : Nat) : Nat := ((cmds.take n).filter (isMatch p)).length

theorem cnt_zero (p : Bytes) (cmds : List Cmd) : cnt p cmds 0 = 0 := by simp [cnt]

theorem cnt_all (p : Bytes) (cmds : List Cmd) (n : Nat) (h : cmds.length ≤ n) :
    cnt p cmds n = (cmds.filter (isMatch p)).length := by
  simp [cnt, List.take_of_length_le h]

theorem cnt_succ (p : Bytes) (cmds : List Cmd) (n : Nat) (c : Cmd) (h : cmds[n]? = some c) :
    cnt p cmds (n + 1) = cnt p cmds n + (if isMatch p c then 1 else 0) := by
  simp only [cnt, List.take_add_one, h, Option.toList, List.filter_append, List.length_append]
  by_cases hm : isMatch p c = true <;> simp [List.filter, hm]

theorem cnt_le (p : Bytes) (cmds : List Cmd) (n : Nat) : cnt p cmds n ≤ (cmds.filter (isMatch p)).length := by
  unfold cnt
  exact List.Sublist.length_le (List.Sublist.filter _ (List.take_sublist n cmds))

/-- the matching command at position `j` sits at index `|V| - cnt (j+1)` of the newest-first view -/
theorem view_index (p : Bytes) (cmds : List Cmd) (j : Nat) (c : Cmd) (h : cmds[j]? = some c) (hm : isMatch p c = true) :
    ((cmds.filter (isMatch p)).reverse)[(cmds.filter (isMatch p)).length - cnt p cmds (j + 1)]? = some c := by
  have hj : j < cmds.length := (List.getElem?_eq_some_iff.1 h).1
  have hsplit : cmds = cmds.take j ++ c :: cmds.drop (j + 1) := by
    have := (List.getElem?_eq_some_iff.1 h).2
    rw [← this]
    exact (List.take_append_drop j cmds).symm.trans (by rw [List.drop_eq_getElem_cons hj])
  have hcnt : cnt p cmds (j + 1) = ((cmds.take j).filter (isMatch p)).length + 1 := by
    rw [cnt_succ p cmds j c h]; simp [cnt, hm]
  have hfilter : cmds.filter (isMatch p)
      = (cmds.take j).filter (isMatch p) ++ c :: (cmds.drop (j + 1)).filter (isMatch p) := by
    conv => lhs; rw [hsplit]
    simp [List.filter_append, List.filter_cons, hm]
  rw [hcnt]
  generalize (cmds.take j).filter (isMatch p) = A at *
  generalize (cmds.drop (j + 1)).filter (isMatch p) = B at *
  rw [hfilter]
  simp only [List.reverse_append, List.reverse_cons, List.length_append, List.length_cons, List.append_assoc]
  have : A.length + (B.length + 1) - (A.length + 1) = B.reverse.length := by simp; omega
  rw [this, List.getElem?_append_right (Nat.le_refl _)]
  simp

/-- relation between a memStore cursor over `cmds`/`p` and an index into the view -/
def Rmem (cmds : List Cmd) (p : Bytes) (c : MemCursor) (k : Int) : Prop :=
  c.cmds = cmds ∧ c.pfx = p ∧
  ((c.index = cmds.length ∧ k = -1) ∨
   (-1 ≤ c.index ∧ c.index < cmds.length ∧
     k = ((cmds.filter (isMatch p)).length : Int) - (cnt p cmds (c.index + 1).toNat : Int) ∧
     (c.index = -1 ∨ (0 ≤ c.index ∧ ∃ cmd, cmds[c.index.toNat]? = some cmd ∧ isMatch p cmd = true))))

theorem memPrevLoop_spec (cmds : List Cmd) (p : Bytes) : ∀ (n : Nat), n ≤ cmds.length →
    ∃ j : Int, memPrevLoop cmds p n = .ok j ∧ -1 ≤ j ∧ j < n ∧ cnt p cmds (j + 1).toNat = cnt p cmds n ∧
      (j = -1 ∨ (0 ≤ j ∧ ∃ cmd, cmds[j.toNat]? = some cmd ∧ isMatch p cmd = true))
  | 0, _ => ⟨-1, rfl, by omega, by omega, by simp, Or.inl rfl⟩
  | n + 1, hn => by
    have hlt : n < cmds.length := by omega
    obtain ⟨c, hc⟩ : ∃ c, cmds[n]? = some c := ⟨cmds[n], List.getElem?_eq_getElem hlt⟩
    have hidx : Go.index cmds (n : Int) = .ok c := by
      simp [Go.index, hc]
    simp only [memPrevLoop, hidx]
    by_cases hm : hasPrefix c.text p = true
    · refine ⟨n, by simp [hm], by omega, by omega, ?_, Or.inr ⟨by omega, c, by simpa using hc, hm⟩⟩
      have : ((n : Int) + 1).toNat = n + 1 := by omega
      rw [this]
    · obtain ⟨j, h1, h2, h3, h4, h5⟩ := memPrevLoop_spec cmds p n (by omega)
      refine ⟨j, by simp [hm, h1], h2, by omega, ?_, h5⟩
      rw [h4, cnt_succ p cmds n c hc]
      have : isMatch p c = false := by simpa [isMatch] using hm
      simp [this]

theorem memNextLoop_spec (cmds : List Cmd) (p : Bytes) : ∀ (rest : List Cmd) (i : Nat), rest = cmds.drop i →
    i ≤ cmds.length →
    ∃ j : Nat, memNextLoop p rest (i : Int) = (j : Int) ∧ i ≤ j ∧ j ≤ cmds.length ∧ cnt p cmds j = cnt p cmds i ∧
      (j = cmds.length ∨ ∃ cmd, cmds[j]? = some cmd ∧ isMatch p cmd = true)
  | [], i, hr, hi => by
    have : cmds.length ≤ i := by
      have := congrArg List.length hr
      simp at this; omega
    exact ⟨i, rfl, Nat.le_refl _, hi, rfl, Or.inl (by omega)⟩
  | c :: r, i, hr, hi => by
    have hlt : i < cmds.length := by
      have := congrArg List.length hr
      simp at this; omega
    have hc : cmds[i]? = some c := by
      have := List.drop_eq_getElem_cons hlt
      rw [← hr] at this
      have := (List.cons.inj this).1
      rw [List.getElem?_eq_getElem hlt, this]
    have hr' : r = cmds.drop (i + 1) := by
      have := List.drop_eq_getElem_cons hlt
      rw [← hr] at this
      exact (List.cons.inj this).2
    simp only [memNextLoop]
    by_cases hm : hasPrefix c.text p = true
    · exact ⟨i, by simp [hm], Nat.le_refl _, by omega, rfl, Or.inr ⟨c, hc, hm⟩⟩
    · obtain ⟨j, h1, h2, h3, h4, h5⟩ := memNextLoop_spec cmds p r (i + 1) hr' (by omega)
      refine ⟨j, ?_, by omega, h3, ?_, h5⟩
      · simp only [hm]
        have : ((i : Int) + 1) = ((i + 1 : Nat) : Int) := by omega
        rw [if_neg (by simp), this, h1]
      · rw [h4, cnt_succ p cmds i c hc]
        have : isMatch p c = false := by simpa [isMatch] using hm
        simp [this]

theorem mem_sim (cmds : List Cmd) (p : Bytes) :
    Sim memOps ((cmds.filter (isMatch p)).reverse) (Rmem cmds p) where
  range := by
    intro s k ⟨_, _, h⟩
    have hle := cnt_le p cmds (s.index + 1).toNat
    simp only [List.length_reverse]
    rcases h with ⟨_, hk⟩ | ⟨_, _, hk, _⟩ <;> omega
  prev := by
    intro s k ⟨h1, h2, h⟩
    obtain ⟨scmds, spfx, sidx⟩ := s
    simp only at h1 h2 h
    subst h1 h2
    simp only [memOps, memPrev, walkPrev, List.length_reverse]
    by_cases hneg : sidx < 0
    · -- already before the oldest command
      rcases h with ⟨hi, _⟩ | ⟨hlo, hhi, hk, hm⟩
      · omega
      · have hidx : sidx = -1 := by omega
        subst hidx
        refine ⟨⟨scmds, spfx, -1⟩, by simp, rfl, rfl, Or.inr ⟨by simp, hhi, ?_, Or.inl rfl⟩⟩
        simp [cnt_zero] at hk ⊢
        omega
    · simp only [hneg, if_false]
      have hn : sidx.toNat ≤ scmds.length := by
        rcases h with ⟨hi, _⟩ | ⟨_, hhi, _⟩ <;> omega
      obtain ⟨j, e1, e2, e3, e4, e5⟩ := memPrevLoop_spec scmds spfx sidx.toNat hn
      simp only [e1]
      refine ⟨⟨scmds, spfx, j⟩, rfl, rfl, rfl, Or.inr ⟨e2, ?_, ?_, e5⟩⟩
      · show j < _
        omega
      · show _ = _ - ((cnt spfx scmds (j + 1).toNat : Nat) : Int)
        rw [e4]
        rcases h with ⟨hi, hk⟩ | ⟨hlo, hhi, hk, hm⟩
        · have : sidx.toNat = scmds.length := by omega
          rw [this, cnt_all spfx scmds _ (Nat.le_refl _), hk]
          omega
        · rcases hm with hm | ⟨h0, cmd, hc, hmm⟩
          · omega
          · have e : (sidx + 1).toNat = sidx.toNat + 1 := by omega
            rw [e, cnt_succ spfx scmds sidx.toNat cmd hc] at hk
            simp only [hmm, if_true] at hk
            have := cnt_le spfx scmds (sidx.toNat + 1)
            rw [cnt_succ spfx scmds sidx.toNat cmd hc] at this
            simp only [hmm, if_true] at this
            omega
  next := by
    intro s k ⟨h1, h2, h⟩
    obtain ⟨scmds, spfx, sidx⟩ := s
    simp only at h1 h2 h
    subst h1 h2
    simp only [memOps, memNext, walkNext]
    rcases h with ⟨hi, hk⟩ | ⟨hlo, hhi, hk, hm⟩
    · refine ⟨⟨scmds, spfx, sidx⟩, by simp [hi], rfl, rfl, Or.inl ⟨hi, by omega⟩⟩
    · have h1 : ¬ sidx ≥ scmds.length := by omega
      have h2 : ¬ sidx + 1 < 0 := by omega
      simp only [h1, h2, if_false]
      obtain ⟨j, e1, e2, e3, e4, e5⟩ := memNextLoop_spec scmds spfx (scmds.drop (sidx + 1).toNat) (sidx + 1).toNat rfl (by omega)
      have ecast : ((sidx + 1).toNat : Int) = sidx + 1 := by omega
      rw [ecast] at e1
      refine ⟨⟨scmds, spfx, (j : Int)⟩, by rw [e1], rfl, rfl, ?_⟩
      show ((j : Int) = _ ∧ _) ∨ (-1 ≤ (j : Int) ∧ (j : Int) < _ ∧ _ = _ - ((cnt spfx scmds ((j : Int) + 1).toNat : Nat) : Int) ∧
        ((j : Int) = -1 ∨ (0 ≤ (j : Int) ∧ ∃ cmd, scmds[(j : Int).toNat]? = some cmd ∧ isMatch spfx cmd = true)))
      rcases e5 with e5 | ⟨cmd, hc, hmm⟩
      · left
        refine ⟨by omega, ?_⟩
        rw [← e4, e5, cnt_all spfx scmds _ (Nat.le_refl _)] at hk
        omega
      · right
        have hjlt : j < scmds.length := (List.getElem?_eq_some_iff.1 hc).1
        refine ⟨by omega, by omega, ?_, Or.inr ⟨by omega, cmd, by simpa using hc, hmm⟩⟩
        have e : ((j : Int) + 1).toNat = j + 1 := by omega
        rw [e, cnt_succ spfx scmds j cmd hc, e4]
        simp only [hmm, if_true]
        have := cnt_le spfx scmds (j + 1)
        rw [cnt_succ spfx scmds j cmd hc, e4] at this
        simp only [hmm, if_true] at this
        omega
  get := by
    intro s k ⟨h1, h2, h⟩
    obtain ⟨scmds, spfx, sidx⟩ := s
    simp only at h1 h2 h
    subst h1 h2
    simp only [memOps, memGet]
    rcases h with ⟨hi, hk⟩ | ⟨hlo, hhi, hk, hm⟩
    · have : sidx < 0 ∨ sidx ≥ scmds.length := Or.inr (by omega)
      simp [this, hk, walkGet]
    · rcases hm with hm | ⟨h0, cmd, hc, hmm⟩
      · subst hm
        simp [cnt_zero] at hk
        have : (-1 : Int) < 0 ∨ (-1 : Int) ≥ scmds.length := Or.inl (by omega)
        simp only [this, if_true, hk, walkGet]
        have h0 : (0 : Int) ≤ ((List.filter (isMatch spfx) scmds).length : Int) := by omega
        simp only [h0, if_true]
        have : ((List.filter (isMatch spfx) scmds).reverse)[(((List.filter (isMatch spfx) scmds).length : Int)).toNat]? = none := by
          apply List.getElem?_eq_none
          simp
        rw [this]
      · have hjlt : sidx.toNat < scmds.length := (List.getElem?_eq_some_iff.1 hc).1
        have hng : ¬ (sidx < 0 ∨ sidx ≥ scmds.length) := by omega
        have hidx : Go.index scmds sidx = .ok cmd := by
          simp [Go.index, h0, hc]
        simp only [hng, if_false, hidx]
        have e : (sidx + 1).toNat = sidx.toNat + 1 := by omega
        rw [e] at hk
        have hle := cnt_le spfx scmds (sidx.toNat + 1)
        have hv := view_index spfx scmds sidx.toNat cmd hc hmm
        unfold walkGet
        have h0 : 0 ≤ k := by omega
        simp only [h0, if_true]
        have : k.toNat = (scmds.filter (isMatch spfx)).length - cnt spfx scmds (sidx.toNat + 1) := by omega
        rw [this, hv]

/-- a fresh cursor is at index -1 -/
theorem mem_init (s : MemStore) (p : Bytes) : Rmem s.cmds p (s.cursor p) (-1) :=
  ⟨rfl, rfl, Or.inl ⟨rfl, rfl⟩⟩

end C29
