/-
C29 helper: walks (sequences of Prev/Next, each executed with the cursor
operations in force at that moment) and the composed simulation.
-/
import ElvProofs.C29.Mem
import ElvProofs.C29.DbSim
import ElvProofs.C29.Hybrid
import ElvProofs.C29.Dedup
namespace C29
open Go C24 C24.Spec C29.Spec

def applyMove {σ : Type} (ops : CursorOps σ) (s : σ) : Move → Res σ
  | .prev => ops.prev s
  | .next => ops.next s

/-- run a walk: each step names the move and the cursor operations at that time
(they depend on the database, which other sessions change); the result is the
list of `Get` results after each move, or the first failure of a move -/
def runWalk {σ : Type} : σ → List (Move × CursorOps σ) → Res (List (Res Cmd))
  | _, [] => .ok []
  | s, (m, ops) :: rest =>
    match applyMove ops s m with
    | .ok s' =>
      match runWalk s' rest with
      | .ok l => .ok (ops.get s' :: l)
      | .exc e => .exc e
      | .panic w => .panic w
    | .exc e => .exc e
    | .panic w => .panic w

theorem sim_walk {σ : Type} (V : List Cmd) (R : σ → Int → Prop) :
    ∀ (steps : List (Move × CursorOps σ)) (s : σ) (k : Int), (∀ st ∈ steps, Sim st.2 V R) → R s k →
      runWalk s steps = .ok (walkGets V k (steps.map (·.1)))
  | [], _, _, _, _ => rfl
  | (m, ops) :: rest, s, k, hall, hr => by
    have hsim : Sim ops V R := hall (m, ops) (by simp)
    have hrest : ∀ st ∈ rest, Sim st.2 V R := fun st h => hall st (by simp [h])
    simp only [runWalk, List.map_cons, walkGets]
    cases m with
    | prev =>
      obtain ⟨s', e, r⟩ := hsim.prev s k hr
      simp only [applyMove, e, walkMove, sim_walk V R rest s' _ hrest r, hsim.get s' _ r]
    | next =>
      obtain ⟨s', e, r⟩ := hsim.next s k hr
      simp only [applyMove, e, walkMove, sim_walk V R rest s' _ hrest r, hsim.get s' _ r]

/-- the view splits into the session part (newer) and the shared part -/
theorem view_split (stored session : List Cmd) (p : Bytes) :
    view stored session p = (session.filter (isMatch p)).reverse ++ (stored.filter (isMatch p)).reverse := by
  simp [view, List.filter_append, List.reverse_append]

/-- the operations of a hybrid cursor when the database is `db` -/
def hybOps (db : Store) : CursorOps (Hybrid DbCursor MemCursor) := hybridOps (dbOps db) memOps

def RhybC (p : Bytes) (base : List Entry) (upper : Nat) (sess : List Cmd) :=
  Rhyb (σd := DbCursor) (σs := MemCursor) ((sess.filter (isMatch p)).reverse) (Rmem sess p) (Rdb p base upper)

theorem hyb_sim (p : Bytes) (base : List Entry) (upper : Nat) (hs : Snapshot base upper) (sess : List Cmd)
    (db : Store) (hf : Frozen base upper db) :
    Sim (hybOps db) (view (base.map toCmd) sess p) (RhybC p base upper sess) := by
  rw [view_split]
  exact hybrid_sim (dbOps db) memOps _ _ _ _ (mem_sim sess p) (db_sim p base upper hs db hf)

theorem hyb_init (p : Bytes) (base : List Entry) (upper : Nat) (sess : List Cmd) :
    RhybC p base upper sess ((⟨⟨(upper : Int)⟩, ⟨sess⟩⟩ : HybridStore).cursor p) (-1) := by
  refine Or.inl ⟨rfl, db_init p base upper, mem_init ⟨sess⟩ p, ?_⟩
  have : (0 : Int) ≤ ((sess.filter (isMatch p)).reverse.length : Int) := by omega
  omega

end C29
