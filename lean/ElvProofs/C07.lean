/-
C07 — Maps are immutable dictionaries, including under hash collisions.

Property theorems over the executable model `ElvModel/C07/Model.lean`
(pkg/persistent/hashmap/hashmap.go) and the regenerated bit arithmetic
`Gen.C07Bits`.  Helper lemmas live in `ElvProofs/C07/*.lean`.

Reading guide.  `K`, `V`, `eq : K → K → Bool`, `hashf : K → UInt32` are
arbitrary; `Lawful eq hashf` says `eq` is an equivalence and `eq`-keys have equal
hashes.  A map key is `Option K` (`none` is Go's nil key, kept in a separate
slot); `keq` lifts `eq` to it.  `WFMap` is the representation invariant; it holds
for `New` and is preserved by every operation, so the theorems apply to every map
an operation history can build.  Earlier versions are never changed by
construction (the model is purely functional); on the Go side that part is
checked by the oracle's re-observation of every earlier version.
-/
import ElvProofs.C07.Map
import ElvProofs.C07.Without
import ElvProofs.C07.Iter
open C07 Go Gen.C07Bits

variable {K V : Type}

/-! ## the generated bit arithmetic -/

/-- `popCount u` is the number of set bits of `u` (for all 2^32 inputs). -/
theorem C07_popCount_correct (u : UInt32) : (popCount u).toNat = bcN 32 u.toNat :=
  popCount_toNat u

example : (popCount 0xdeadbeef).toNat = 24 ∧ bcN 32 0xdeadbeef = 24 := by decide

/-- For a set bit `1 << c` of `bitmap`, `index(bitmap, bit)` is a valid index into
an entry list of `popCount(bitmap)` entries — and is the number of set bits below
`c`. -/
theorem C07_index_lt_popCount (bitmap : UInt32) (c : Nat) (hc : c < 32)
    (hset : bitmap &&& ((1 : UInt32) <<< UInt32.ofNat c) ≠ 0) :
    (index bitmap ((1 : UInt32) <<< UInt32.ofNat c)).toNat < (popCount bitmap).toNat ∧
      (index bitmap ((1 : UInt32) <<< UInt32.ofNat c)).toNat = bcN c bitmap.toNat := by
  rw [one_shl_eq_bitU c hc] at hset ⊢
  have hb : hasBit bitmap c = true := by
    have := and_bitU_eq_zero bitmap c hc
    cases h : hasBit bitmap c
    · rw [h] at this; simp at this; exact absurd this hset
    · rfl
  rw [index_bitU _ _ hc, popCount_eq_rank]
  exact ⟨rank_lt_of_hasBit bitmap hc hb, rfl⟩

example : (0x14 : UInt32) &&& ((1 : UInt32) <<< UInt32.ofNat 4) ≠ 0 := by decide

/-- Collision handling terminates: two different 32-bit hashes differ in one of
the seven 5-bit chunks at shift 0, 5, …, 30 (stated about the generated `chunk`). -/
theorem C07_hash_differ_chunk (h1 h2 : UInt32) (hne : h1 ≠ h2) :
    ∃ d, d ≤ 6 ∧ chunk (UInt32.ofNat (5 * d)) h1 ≠ chunk (UInt32.ofNat (5 * d)) h2 := by
  apply Classical.byContradiction
  intro hno
  apply hne
  apply eq_of_chunkN_eq
  intro d hd
  apply Classical.byContradiction
  intro hd'
  refine hno ⟨d, hd, fun e => hd' ?_⟩
  rw [← chunk_toNat d (by omega) h1, ← chunk_toNat d (by omega) h2]
  exact congrArg UInt32.toNat e

example : (0x40000000 : UInt32) ≠ 0x80000000 := by decide

/-! ## the map -/

theorem C07_new_wf (eq : K → K → Bool) (hashf : K → UInt32) :
    WFMap eq hashf (HashMap.new : HashMap K V) ∧
      ∀ k, (HashMap.new : HashMap K V).index eq hashf k = .ok none := by
  refine ⟨⟨?_, by simp [HashMap.new, HashMap.toAList, emptyBitmapNode]⟩, ?_⟩
  · refine WF.bitmap (by omega) (by simp [rank_zero]) ?_ ?_ ?_
    · intro c _ _ _ hs
      simp [slot, hasBit_zero] at hs
    · intro c _ _ hs
      simp [slot, hasBit_zero] at hs
    · intro c _ _ hs
      simp [slot, hasBit_zero] at hs
  · intro k
    cases k with
    | none => rfl
    | some k =>
      simp only [HashMap.index, HashMap.new, emptyBitmapNode]
      have := find_bitmap eq 0 (by omega) (0 : UInt32) ([] : List (Entry K V)) (by simp [rank_zero]) (hashf k) k
      have hs0 : shiftOf 0 = 0 := rfl
      rw [hs0] at this
      rw [this]
      simp [slot, hasBit_zero]

/-- `Index` never fails on a well-formed map. -/
theorem C07_index_total {eq : K → K → Bool} {hashf : K → UInt32} {m : HashMap K V}
    (hm : WFMap eq hashf m) (k : Option K) : ∃ r, m.index eq hashf k = .ok r := by
  cases k with
  | none => exact ⟨_, rfl⟩
  | some k => exact find_ok hm.root (hashf k) k

/-- **Assoc refines insertion.**  On a well-formed map, `Assoc(k, v)` succeeds
(no panic, the recursion budget 16 suffices — collision handling terminates),
the result is well-formed, a later `Index(k')` returns `v` for keys equal to `k`
and is unchanged for all other keys, and `Len` grows by one exactly when `k` was
absent. -/
theorem C07_index_assoc {eq : K → K → Bool} {hashf : K → UInt32} (L : Lawful eq hashf)
    {m : HashMap K V} (hm : WFMap eq hashf m) (fuel : Nat) (hfuel : assocFuel ≤ fuel)
    (k : Option K) (v : V) :
    ∃ m', m.assoc eq hashf fuel k v = .ok m' ∧ WFMap eq hashf m' ∧
      (∀ k' old, m.index eq hashf k' = .ok old →
        m'.index eq hashf k' = .ok (if keq eq k k' then some v else old)) ∧
      (∀ old, m.index eq hashf k = .ok old → m'.len = if old.isNone then m.len + 1 else m.len) := by
  cases k with
  | none =>
    refine ⟨⟨if m.nilV.isNone then m.count + 1 else m.count, m.root, some v⟩, rfl, ⟨hm.root, ?_⟩, ?_, ?_⟩
    · have := hm.count
      simp only [HashMap.toAList] at this ⊢
      cases h : m.nilV <;> simp [h] at this ⊢ <;> (try omega)
    · intro k' old hold
      cases k' with
      | none => simp [HashMap.index, keq]
      | some k' => simpa [HashMap.index, keq] using hold
    · intro old hold
      simp only [HashMap.index, Res.ok.injEq] at hold
      subst hold
      simp [HashMap.len]
  | some k =>
    have hfu : need 0 m.root ≤ fuel := by
      have := need_le 0 m.root
      unfold assocFuel at hfuel
      omega
    obtain ⟨n', added, hassoc, post⟩ := assoc_spec L fuel 0 m.root k v (by omega) hfu hm.root
      (by intro e _ j hj; omega)
    have hs0 : shiftOf 0 = 0 := rfl
    rw [hs0] at hassoc
    refine ⟨⟨if added then m.count + 1 else m.count, n', m.nilV⟩, ?_, ⟨post.wf, ?_⟩, ?_, ?_⟩
    · simp [HashMap.assoc, hassoc]
    · have := hm.count
      have hsz := post.size
      simp only [HashMap.toAList, List.length_append, List.length_map] at this ⊢
      rw [hsz]
      cases added <;> simp <;> omega
    · intro k' old hold
      cases k' with
      | none => simpa [HashMap.index, keq] using hold
      | some k' =>
        simp only [HashMap.index, keq] at hold ⊢
        exact post.find k' old hold
    · intro old hold
      simp only [HashMap.index] at hold
      have := post.isNew old hold
      subst this
      simp only [HashMap.len]

/-- non-vacuity: a lawful pair, and a well-formed non-empty map with an array
node's worth of colliding keys is reachable (see also the corpus). -/
example : Lawful (fun a b : Nat => a % 7 == b % 7) (fun n => UInt32.ofNat (n % 7)) :=
  ⟨by simp, by intro a b; simp; omega, by intro a b c; simp; omega,
   by intro a b h; simp at h; simp [h]⟩

/-- **`Len` is exact**: on every well-formed map it is the number of entries. -/
theorem C07_len_exact {eq : K → K → Bool} {hashf : K → UInt32} {m : HashMap K V}
    (hm : WFMap eq hashf m) : m.len = (m.toAList.length : Int) := hm.count

/-! ## the hypothesis `eq a b → hash a = hash b` is necessary (diagnostic for C08) -/

/-- Without `eq a b → hashf a = hashf b` the conclusion fails: with an equivalence
`eq` (here: everything is equal) and a hash that separates two equal keys, two
`Assoc`s through the public API produce a map of size 2 holding both equal keys,
and `Index` of the first key no longer sees the second `Assoc`.  (C08's ±0.0
defect is an instance: `Equal 0.0 -0.0` but different hashes.) -/
theorem C07_unlawful_hash_two_eq_keys :
    ∃ (eq : Bool → Bool → Bool) (hashf : Bool → UInt32),
      EqEquiv eq ∧ eq true false = true ∧ hashf true ≠ hashf false ∧
      (do
        let m1 ← (HashMap.new : HashMap Bool Nat).assoc eq hashf assocFuel (some false) 1
        let m2 ← m1.assoc eq hashf assocFuel (some true) 2
        let i ← m2.index eq hashf (some false)
        pure (m2.len, m2.toAList, i)) = .ok (2, [(some true, 2), (some false, 1)], some 1) :=
  ⟨fun _ _ => true, fun b => if b then 1 else 2, ⟨by simp, by simp, by simp⟩, rfl, by decide, by decide⟩

