/-
C07 — Maps are immutable dictionaries, including under hash collisions.

Property theorems over the executable model `ElvModel/C07/Model.lean`
(pkg/persistent/hashmap/hashmap.go) and the regenerated bit arithmetic
`Gen.C07Bits`.  Helper lemmas live in `ElvProofs/C07/*.lean`.

Reading guide.  `K`, `V`, `eq : K → K → Bool`, `hashf : K → UInt32` are
arbitrary; `Lawful eq hashf` says `eq` is an equivalence and `eq`-keys have equal
hashes.  A map key is `Option K` (`none` is Go's nil key, kept in a separate
slot); `keq` lifts `eq` to it.  `WFMap` is the representation invariant; it holds
for `New` and is preserved by every operation, so the theorems apply to every map
an operation history can build.  Earlier versions are never changed by
construction (the model is purely functional); on the Go side that part is
checked by the oracle's re-observation of every earlier version.
-/
import ElvProofs.C07.History
import ElvProofs.C07.Iter
open C07 Go Gen.C07Bits

variable {K V : Type}

/-! ## the generated bit arithmetic -/

/-- `popCount u` is the number of set bits of `u` (for all 2^32 inputs). -/
theorem C07_popCount_correct (u : UInt32) : (popCount u).toNat = bcN 32 u.toNat :=
  popCount_toNat u

example : (popCount 0xdeadbeef).toNat = 24 ∧ bcN 32 0xdeadbeef = 24 := by decide

/-- For a set bit `1 << c` of `bitmap`, `index(bitmap, bit)` is a valid index into
an entry list of `popCount(bitmap)` entries — and is the number of set bits below
`c`. -/
theorem C07_index_lt_popCount (bitmap : UInt32) (c : Nat) (hc : c < 32)
    (hset : bitmap &&& ((1 : UInt32) <<< UInt32.ofNat c) ≠ 0) :
    (index bitmap ((1 : UInt32) <<< UInt32.ofNat c)).toNat < (popCount bitmap).toNat ∧
      (index bitmap ((1 : UInt32) <<< UInt32.ofNat c)).toNat = bcN c bitmap.toNat := by
  rw [one_shl_eq_bitU c hc] at hset ⊢
  have hb : hasBit bitmap c = true := by
    have := and_bitU_eq_zero bitmap c hc
    cases h : hasBit bitmap c
    · rw [h] at this; simp at this; exact absurd this hset
    · rfl
  rw [index_bitU _ _ hc, popCount_eq_rank]
  exact ⟨rank_lt_of_hasBit bitmap hc hb, rfl⟩

example : (0x14 : UInt32) &&& ((1 : UInt32) <<< UInt32.ofNat 4) ≠ 0 := by decide

/-- Collision handling terminates: two different 32-bit hashes differ in one of
the seven 5-bit chunks at shift 0, 5, …, 30 (stated about the generated `chunk`). -/
theorem C07_hash_differ_chunk (h1 h2 : UInt32) (hne : h1 ≠ h2) :
    ∃ d, d ≤ 6 ∧ chunk (UInt32.ofNat (5 * d)) h1 ≠ chunk (UInt32.ofNat (5 * d)) h2 := by
  apply Classical.byContradiction
  intro hno
  apply hne
  apply eq_of_chunkN_eq
  intro d hd
  apply Classical.byContradiction
  intro hd'
  refine hno ⟨d, hd, fun e => hd' ?_⟩
  rw [← chunk_toNat d (by omega) h1, ← chunk_toNat d (by omega) h2]
  exact congrArg UInt32.toNat e

example : (0x40000000 : UInt32) ≠ 0x80000000 := by decide

/-! ## the map -/

theorem C07_new_wf (eq : K → K → Bool) (hashf : K → UInt32) :
    WFMap eq hashf (HashMap.new : HashMap K V) ∧
      ∀ k, (HashMap.new : HashMap K V).index eq hashf k = .ok none := by
  refine ⟨⟨wf_empty eq hashf, by simp [HashMap.new, HashMap.toAList, emptyBitmapNode]⟩, ?_⟩
  · intro k
    cases k with
    | none => rfl
    | some k =>
      simp only [HashMap.index, HashMap.new, emptyBitmapNode]
      have := find_bitmap eq 0 (by omega) (0 : UInt32) ([] : List (Entry K V)) (by simp [rank_zero]) (hashf k) k
      have hs0 : shiftOf 0 = 0 := rfl
      rw [hs0] at this
      rw [this]
      simp [slot, hasBit_zero]

/-- `Index` never fails on a well-formed map. -/
theorem C07_index_total {eq : K → K → Bool} {hashf : K → UInt32} {m : HashMap K V}
    (hm : WFMap eq hashf m) (k : Option K) : ∃ r, m.index eq hashf k = .ok r := by
  cases k with
  | none => exact ⟨_, rfl⟩
  | some k => exact find_ok hm.root (hashf k) k

/-- **Assoc refines insertion.**  On a well-formed map, `Assoc(k, v)` succeeds
(no panic, the recursion budget 16 suffices — collision handling terminates),
the result is well-formed, a later `Index(k')` returns `v` for keys equal to `k`
and is unchanged for all other keys, and `Len` grows by one exactly when `k` was
absent. -/
theorem C07_index_assoc {eq : K → K → Bool} {hashf : K → UInt32} (L : Lawful eq hashf)
    {m : HashMap K V} (hm : WFMap eq hashf m) (fuel : Nat) (hfuel : assocFuel ≤ fuel)
    (k : Option K) (v : V) :
    ∃ m', m.assoc eq hashf fuel k v = .ok m' ∧ WFMap eq hashf m' ∧
      (∀ k' old, m.index eq hashf k' = .ok old →
        m'.index eq hashf k' = .ok (if keq eq k k' then some v else old)) ∧
      (∀ old, m.index eq hashf k = .ok old → m'.len = if old.isNone then m.len + 1 else m.len) := by
  cases k with
  | none =>
    refine ⟨⟨if m.nilV.isNone then m.count + 1 else m.count, m.root, some v⟩, rfl, ⟨hm.root, ?_⟩, ?_, ?_⟩
    · have := hm.count
      simp only [HashMap.toAList] at this ⊢
      cases h : m.nilV <;> simp [h] at this ⊢ <;> (try omega)
    · intro k' old hold
      cases k' with
      | none => simp [HashMap.index, keq]
      | some k' => simpa [HashMap.index, keq] using hold
    · intro old hold
      simp only [HashMap.index, Res.ok.injEq] at hold
      subst hold
      simp [HashMap.len]
  | some k =>
    have hfu : need 0 m.root ≤ fuel := by
      have := need_le 0 m.root
      unfold assocFuel at hfuel
      omega
    obtain ⟨n', added, hassoc, post⟩ := assoc_spec L fuel 0 m.root k v (by omega) hfu hm.root
      (by intro e _ j hj; omega)
    have hs0 : shiftOf 0 = 0 := rfl
    rw [hs0] at hassoc
    refine ⟨⟨if added then m.count + 1 else m.count, n', m.nilV⟩, ?_, ⟨post.wf, ?_⟩, ?_, ?_⟩
    · simp [HashMap.assoc, hassoc]
    · have := hm.count
      have hsz := post.size
      simp only [HashMap.toAList, List.length_append, List.length_map] at this ⊢
      rw [hsz]
      cases added <;> simp <;> omega
    · intro k' old hold
      cases k' with
      | none => simpa [HashMap.index, keq] using hold
      | some k' =>
        simp only [HashMap.index, keq] at hold ⊢
        exact post.find k' old hold
    · intro old hold
      simp only [HashMap.index] at hold
      have := post.isNew old hold
      subst this
      simp only [HashMap.len]

/-- **Dissoc refines erasure.**  On a well-formed map, `Dissoc(k)` succeeds (no
panic — in particular `pack` never leaves zero-valued entries), the result is
well-formed (array nodes are packed back into bitmap nodes, emptied children are
removed), a later `Index(k')` finds nothing for keys equal to `k` and is unchanged
for all other keys, and `Len` shrinks by one exactly when `k` was present. -/
theorem C07_index_dissoc {eq : K → K → Bool} {hashf : K → UInt32} (L : Lawful eq hashf)
    {m : HashMap K V} (hm : WFMap eq hashf m) (k : Option K) :
    ∃ m', m.dissoc eq hashf k = .ok m' ∧ WFMap eq hashf m' ∧
      (∀ k' old, m.index eq hashf k' = .ok old →
        m'.index eq hashf k' = .ok (if keq eq k k' then none else old)) ∧
      (∀ old, m.index eq hashf k = .ok old → m'.len = if old.isSome then m.len - 1 else m.len) := by
  cases k with
  | none =>
    refine ⟨⟨if m.nilV.isSome then m.count - 1 else m.count, m.root, none⟩, rfl, ⟨hm.root, ?_⟩, ?_, ?_⟩
    · have := hm.count
      simp only [HashMap.toAList] at this ⊢
      cases h : m.nilV <;> simp [h] at this ⊢ <;> omega
    · intro k' old hold
      cases k' with
      | none => simp [HashMap.index, keq]
      | some k' => simpa [HashMap.index, keq] using hold
    · intro old hold
      simp only [HashMap.index, Res.ok.injEq] at hold
      subst hold
      simp [HashMap.len]
  | some k =>
    obtain ⟨r, del, hw, post⟩ := without_spec L hm.root k
    have hs0 : shiftOf 0 = (0 : UInt32) := rfl
    rw [hs0] at hw
    have hsize := post.size
    have hfind := post.find
    have hlen : ∀ old, m.index eq hashf (some k) = .ok old →
        (if del then m.count - 1 else m.count) = if old.isSome then m.len - 1 else m.len := by
      intro old hold
      simp only [HashMap.index] at hold
      have := post.isDel old (by rw [hs0]; exact hold)
      subst this
      simp only [HashMap.len]
    simp only [hs0] at hfind
    cases r with
    | same =>
      refine ⟨⟨if del then m.count - 1 else m.count, m.root, m.nilV⟩, by simp [HashMap.dissoc, hw],
        wfmap_of_root hm _ del hm.root (by simpa [WRes.node, alOpt] using hsize), ?_, hlen⟩
      intro k' old hold
      cases k' with
      | none => simpa [HashMap.index, keq] using hold
      | some k' => exact hfind k' old hold
    | emptyPtr =>
      refine ⟨⟨if del then m.count - 1 else m.count, emptyBitmapNode, m.nilV⟩, by simp [HashMap.dissoc, hw],
        wfmap_of_root hm _ del (wf_empty eq hashf) (by simpa [WRes.node, alOpt, emptyBitmapNode] using hsize), ?_, hlen⟩
      intro k' old hold
      cases k' with
      | none => simpa [HashMap.index, keq] using hold
      | some k' =>
        have h1 : (Res.ok none : Res (Option V)) = .ok (if eq k k' then none else old) := hfind k' old hold
        have h2 : (emptyBitmapNode : Node K V).find eq 0 (hashf k') k' = .ok none :=
          (C07_new_wf eq hashf).2 (some k')
        exact h2.trans h1
    | fresh n =>
      refine ⟨⟨if del then m.count - 1 else m.count, n, m.nilV⟩, by simp [HashMap.dissoc, hw],
        wfmap_of_root hm _ del (post.wf n rfl).1 (by simpa [WRes.node, alOpt] using hsize), ?_, hlen⟩
      intro k' old hold
      cases k' with
      | none => simpa [HashMap.index, keq] using hold
      | some k' => exact hfind k' old hold

/-- non-vacuity: a lawful pair whose hash collides heavily (only 7 hash values). -/
theorem C07_lawful_example : Lawful (fun a b : Nat => a % 7 == b % 7) (fun n => UInt32.ofNat (n % 7)) :=
  ⟨by simp, by intro a b; simp; omega, by intro a b c; simp; omega,
   by intro a b h; simp at h; simp [h]⟩

/-- **`Len` is exact**: on every well-formed map it is the number of entries. -/
theorem C07_len_exact {eq : K → K → Bool} {hashf : K → UInt32} {m : HashMap K V}
    (hm : WFMap eq hashf m) : m.len = (m.toAList.length : Int) := hm.count

/-- **The contents hold every entry exactly once and `Index` is lookup in them.**
`m.toAList` (the nil-key entry first, then the trie in iteration order) has no two
entries with equal keys, and `Index(k) = v` exactly when it holds an entry `(k0, v)`
with `k0` equal to `k`.  (`C07_iterator_yields_contents` shows the iterator protocol
yields exactly this list.) -/
theorem C07_contents_each_key_once {eq : K → K → Bool} {hashf : K → UInt32} (L : Lawful eq hashf)
    {m : HashMap K V} (hm : WFMap eq hashf m) :
    m.toAList.Pairwise (fun a b => keq eq a.1 b.1 = false) ∧
      ∀ k v, m.index eq hashf k = .ok (some v) ↔ ∃ k0, keq eq k0 k = true ∧ (k0, v) ∈ m.toAList := by
  have hnd := nodup_toAList L hm.root
  constructor
  · unfold HashMap.toAList
    rw [List.pairwise_append]
    refine ⟨by cases m.nilV <;> simp, ?_, ?_⟩
    · rw [List.pairwise_map]
      exact hnd
    · intro a ha b hb
      cases hn : m.nilV with
      | none => rw [hn] at ha; cases ha
      | some v0 =>
        rw [hn] at ha; simp at ha; subst ha
        simp only [List.mem_map] at hb
        obtain ⟨e, _, rfl⟩ := hb
        rfl
  · intro k v
    cases k with
    | none =>
      simp only [HashMap.index, HashMap.toAList]
      constructor
      · intro h
        simp only [Res.ok.injEq] at h
        exact ⟨none, rfl, by simp [h]⟩
      · rintro ⟨k0, hk, hmem⟩
        cases k0 with
        | some _ => cases hk
        | none =>
          simp only [List.mem_append, List.mem_map] at hmem
          rcases hmem with h | ⟨e, _, he⟩
          · cases hn : m.nilV with
            | none => rw [hn] at h; cases h
            | some v0 => rw [hn] at h; simp at h; rw [h]
          · cases he
    | some k =>
      simp only [HashMap.index]
      have hs0 : shiftOf 0 = (0 : UInt32) := rfl
      rw [← hs0, find_iff_mem L hm.root k v]
      constructor
      · rintro ⟨k0, hk, hmem⟩
        refine ⟨some k0, hk, ?_⟩
        simp only [HashMap.toAList, List.mem_append, List.mem_map]
        exact Or.inr ⟨(k0, v), hmem, rfl⟩
      · rintro ⟨k0, hk, hmem⟩
        cases k0 with
        | none => cases hk
        | some k0 =>
          refine ⟨k0, hk, ?_⟩
          simp only [HashMap.toAList, List.mem_append, List.mem_map] at hmem
          rcases hmem with h | ⟨e, he, hee⟩
          · cases hn : m.nilV with
            | none => rw [hn] at h; cases h
            | some v0 => rw [hn] at h; simp at h
          · cases e; simp at hee; obtain ⟨rfl, rfl⟩ := hee; exact he

/-- **The iterator protocol yields the contents, each entry exactly once.**  Running
`for it := m.Iterator(); it.HasElem(); it.Next() { it.Elem() }` on a well-formed map
never panics and yields exactly `m.toAList` (whose keys are pairwise different by
`C07_contents_each_key_once`), the nil-key entry first.  The step budget only has
to cover the number of entries. -/
theorem C07_iterator_yields_contents {eq : K → K → Bool} {hashf : K → UInt32}
    {m : HashMap K V} (hm : WFMap eq hashf m) (fuel : Nat) (hfuel : m.toAList.length ≤ fuel) :
    m.iterate fuel = .ok m.toAList := by
  obtain ⟨hv, hr⟩ := iterator_spec (net_of_wf hm.root)
  have hl : m.root.iterator.rest.length ≤ fuel := by
    rw [hr]
    simp only [HashMap.toAList, List.length_append, List.length_map] at hfuel
    omega
  have := drain_spec fuel _ hv hl
  simp only [HashMap.iterate, this, hr, HashMap.toAList, ok_bind]
  cases m.nilV <;> rfl

/-- One step of the simulation: an operation on a map that simulates a reference
dictionary succeeds and the results simulate again. -/
theorem C07_step_refines_reference {eq : K → K → Bool} {hashf : K → UInt32} (L : Lawful eq hashf)
    {m : HashMap K V} {r : List (Option K × V)} (hs : Sim eq hashf m r) (op : Op K V) :
    ∃ m', applyOp eq hashf m op = .ok m' ∧ Sim eq hashf m' (refApply eq r op) := by
  cases op with
  | assoc k v =>
    obtain ⟨m', h1, hwf, hidx, hlen⟩ := C07_index_assoc L hs.wf assocFuel (Nat.le_refl _) k v
    refine ⟨m', h1, ⟨hwf, ?_, ?_, nodup_insert L r k v hs.nodup⟩⟩
    · intro k'
      rw [hidx k' _ (hs.index k')]
      simp only [refApply]
      rw [refLookup_insert L]
    · rw [hlen _ (hs.index k)]
      have := length_filter_nodup L k r hs.nodup
      have hl := hs.len
      simp only [refApply, List.length_cons]
      cases h : refLookup eq r k <;> rw [h] at this <;>
        simp only [Option.isSome_none, Option.isSome_some, Option.isNone_none, Option.isNone_some,
          Bool.false_eq_true, if_false, if_true] at this ⊢ <;> omega
  | dissoc k =>
    obtain ⟨m', h1, hwf, hidx, hlen⟩ := C07_index_dissoc L hs.wf k
    refine ⟨m', h1, ⟨hwf, ?_, ?_, nodup_filter r _ hs.nodup⟩⟩
    · intro k'
      rw [hidx k' _ (hs.index k')]
      simp only [refApply]
      rw [refLookup_filter L]
    · rw [hlen _ (hs.index k)]
      have := length_filter_nodup L k r hs.nodup
      have hl := hs.len
      simp only [refApply]
      cases h : refLookup eq r k <;> rw [h] at this <;>
        simp only [Option.isSome_none, Option.isSome_some,
          Bool.false_eq_true, if_false, if_true] at this ⊢ <;> omega

/-- **Every operation history refines the reference dictionary** (the property's
headline statement).  For lawful `eq`/`hash`, every sequence of `Assoc`/`Dissoc`
operations with arbitrary keys (nil key included, arbitrary hash collisions) run
from `New` succeeds — no panic, no budget exhaustion — and the resulting map is
well-formed, `Index` of every key equals lookup in the reference dictionary run on
the same history, and `Len` is the reference's size.  Together with
`C07_iterator_yields_contents` and `C07_contents_each_key_once` (which apply to the
resulting well-formed map) iteration yields each entry exactly once. -/
theorem C07_history_refines_reference {eq : K → K → Bool} {hashf : K → UInt32} (L : Lawful eq hashf)
    (ops : List (Op K V)) :
    ∃ m, runOps eq hashf ops (HashMap.new : HashMap K V) = .ok m ∧ WFMap eq hashf m ∧
      (∀ k, m.index eq hashf k = .ok (refLookup eq (refRun eq ops []) k)) ∧
      m.len = ((refRun eq ops []).length : Int) := by
  have gen : ∀ (ops : List (Op K V)) (m : HashMap K V) (r : List (Option K × V)), Sim eq hashf m r →
      ∃ m', runOps eq hashf ops m = .ok m' ∧ Sim eq hashf m' (refRun eq ops r) := by
    intro ops
    induction ops with
    | nil => intro m r hs; exact ⟨m, rfl, hs⟩
    | cons op ops ih =>
      intro m r hs
      obtain ⟨m1, h1, hs1⟩ := C07_step_refines_reference L hs op
      obtain ⟨m2, h2, hs2⟩ := ih m1 _ hs1
      exact ⟨m2, by simp [runOps, h1, h2], hs2⟩
  have h0 : Sim eq hashf (HashMap.new : HashMap K V) [] :=
    ⟨(C07_new_wf eq hashf).1, fun k => (C07_new_wf eq hashf).2 k, rfl, List.Pairwise.nil⟩
  obtain ⟨m, h1, hs⟩ := gen ops _ _ h0
  exact ⟨m, h1, hs.wf, hs.index, hs.len⟩

/-- non-vacuity of `WFMap`/`Sim`: a concrete history with replacement through an equal
but different key (1 ~ 8 ~ 15 mod 7), the nil key and a deletion reaches a well-formed
map of size 2. -/
example : ∃ m : HashMap Nat Nat,
    runOps (fun a b : Nat => a % 7 == b % 7) (fun n => UInt32.ofNat (n % 7))
      [.assoc (some 1) 10, .assoc (some 8) 11, .assoc none 5, .assoc (some 2) 20, .dissoc (some 15)]
      HashMap.new = .ok m ∧
    WFMap (fun a b : Nat => a % 7 == b % 7) (fun n => UInt32.ofNat (n % 7)) m ∧ m.len = 2 := by
  obtain ⟨m, h1, h2, _, h4⟩ := C07_history_refines_reference (V := Nat) C07_lawful_example
    [.assoc (some 1) 10, .assoc (some 8) 11, .assoc none 5, .assoc (some 2) 20, .dissoc (some 15)]
  refine ⟨m, h1, h2, ?_⟩
  rw [h4]
  decide

example : (runOps (fun a b : Nat => a == b) (fun _ => 7)
    [.assoc (some 1) 10, .assoc (some 2) 20, .assoc none 30, .dissoc (some 1), .assoc (some 2) 21]
    (HashMap.new : HashMap Nat Nat) >>= fun m => pure (m.len, m.toAList)) =
    .ok (2, [(none, 30), (some 2, 21)]) := by decide

/-! ## the hypothesis `eq a b → hash a = hash b` is necessary (diagnostic for C08) -/

/-- Without `eq a b → hashf a = hashf b` the conclusion fails: with an equivalence
`eq` (here: everything is equal) and a hash that separates two equal keys, two
`Assoc`s through the public API produce a map of size 2 holding both equal keys,
and `Index` of the first key no longer sees the second `Assoc`.  (C08's ±0.0
defect is an instance: `Equal 0.0 -0.0` but different hashes.) -/
theorem C07_unlawful_hash_two_eq_keys :
    ∃ (eq : Bool → Bool → Bool) (hashf : Bool → UInt32),
      EqEquiv eq ∧ eq true false = true ∧ hashf true ≠ hashf false ∧
      (do
        let m1 ← (HashMap.new : HashMap Bool Nat).assoc eq hashf assocFuel (some false) 1
        let m2 ← m1.assoc eq hashf assocFuel (some true) 2
        let i ← m2.index eq hashf (some false)
        pure (m2.len, m2.toAList, i)) = .ok (2, [(some true, 2), (some false, 1)], some 1) :=
  ⟨fun _ _ => true, fun b => if b then 1 else 2, ⟨by simp, by simp, by simp⟩, rfl, by decide, by decide⟩

