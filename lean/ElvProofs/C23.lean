/-
C23 — Wildcard expansion yields exactly the matching paths.

Model: `ElvModel/C23/Model.lean` (pkg/glob, pkg/eval/glob.go as fixed by
fixes/C23-dedup-paths.patch and fixes/C23-type-regular-symlink.patch).
Spec: `ElvModel/C23/Spec.lean` (`Matches`, `ElemMatches`, `Expands`).

The property at full strength (`C23_full`) is FALSE for the code: the greedy
chunk matcher of `matchElement` never revisits an earlier star
(`C23_counterexample`: `*x*[set:b]` against `xaxb`; a second witness with a
literal that is not valid UTF-8 is replayed from the corpus).  It is proved for
the patterns in `GreedyOK` (`C23_expansion_exact_partial`), which excludes
exactly: a matcher-restricted `*`/`**` that has an earlier `*`/`**` in the same
path element, and literals that are empty or not valid UTF-8.
Soundness, uniqueness, the hidden-file rule, "no wildcard consumes `/`" and the
no-match rule hold for every pattern.

Round 2: the theorems above speak about runs that return (`Res.ok`); the section
"Every run returns" shows that this is every run: `matchElement` is total on
slash-free patterns, and `glob` never reports `FUEL` once the fuel exceeds
pattern length × depth for a file system whose real directories are well-founded
(`FSRank`), in particular with the driver's `fuelFor` on every well-formed
`Tree`.  `glob.Parse` is total and printing its segments gives the pattern back
(`C23_parse_*`).  `C23_lit_star_lit_needs_room` makes explicit why a
"has prefix and has suffix" shortcut for `lit*lit` is wrong.
-/
import ElvProofs.C23.Top
import ElvProofs.C23.Overlap
import ElvProofs.C23.TreeRank
import ElvProofs.C23.Parse
open Go C23

/-- What `doGlob` must yield for `p`: the path is expanded by the pattern, not
excluded by `but:`, exists, and passes `type:`. -/
def C23_Selected (fs : FS) (gp : GlobPattern) (p : Bytes) : Prop :=
  ExpandsTop fs gp.segs p ∧ p ∉ gp.buts ∧ ∃ k, fs.lstat p = some k ∧ gp.type.accepts k = true

/-- The property at full strength: for every directory tree (whose entry names
contain no `/`) and every pattern with non-empty literals, a successful
expansion lists exactly the selected paths, each once. -/
def C23_full : Prop :=
  ∀ (fs : FS) (gp : GlobPattern) (fuel : Nat) (vs : List Bytes), FSNames fs →
    (∀ d, Seg.lit d ∈ gp.segs → d ≠ []) → doGlob fs fuel gp = .ok vs →
    vs.Nodup ∧ ∀ p, p ∈ vs ↔ C23_Selected fs gp p

/-! ### A concrete tree and concrete patterns (witnesses and non-vacuity) -/

/-- `xaxb` -/
def C23_xaxb : Bytes := [0x78, 0x61, 0x78, 0x62]

/-- a directory holding the single file `xaxb` -/
def C23_fsX : FS where
  lstat p := if p = C23_xaxb then some .file else none
  readDir d := if d = [] then some [(C23_xaxb, false)] else none

def C23_star : Seg := .wild ⟨.star, false, []⟩
/-- `**` -/
def C23_star2 : Seg := .wild ⟨.starstar, false, []⟩
/-- `*[set:b]` -/
def C23_starB : Seg := .wild ⟨.star, false, [fun r => r == 0x62]⟩

/-- `*x*[set:b][nomatch-ok]` -/
def C23_gpBad : GlobPattern := ⟨[C23_star, .lit [0x78], C23_starB], true, [], .none⟩
/-- `*x*` -/
def C23_gpGood : GlobPattern := ⟨[C23_star, .lit [0x78], C23_star], false, [], .none⟩

theorem C23_fsX_names : FSNames C23_fsX := by
  intro dir es h n d hm
  simp only [C23_fsX] at h
  split at h
  · simp at h; subst h
    simp at hm
    rw [hm.1]; decide
  · cases h

/-! ### Element matching -/

/-- Whatever `matchElement` accepts is matched declaratively (every pattern). -/
theorem C23_matchElement_sound (segs : List Seg) (name : Bytes) (hs : slashByte ∉ name)
    (h : matchElement segs name = .ok true) : ElemMatches segs name :=
  matchElement_sound hs h

example : matchElement C23_gpGood.segs C23_xaxb = .ok true := by decide

/-- On `GreedyOK` patterns leftmost-greedy matching finds every match. -/
theorem C23_matchElement_complete_partial (segs : List Seg) (name : Bytes) (hg : GreedyOK segs)
    (h : ElemMatches segs name) : matchElement segs name = .ok true :=
  matchElement_complete hg h

example : GreedyOK C23_gpGood.segs := by decide

/-- No wildcard matches a leading dot without `match-hidden`. -/
theorem C23_hidden (w : Wild) (rest : List Seg) (t : Bytes)
    (h : matchElement (.wild w :: rest) (dotByte :: t) = .ok true) : w.hidden = true := by
  unfold matchElement at h
  simp only at h
  split at h
  · simp at h
  · next hr => simpa [hiddenReject] using hr

example : matchElement [.wild ⟨.star, true, []⟩] [dotByte, 0x61] = .ok true := by decide
example : matchElement [C23_star] [dotByte, 0x61] = .ok false := by decide

/-- `?`, `*` and (within one element) `**` never consume a `/`: a pattern
element whose literals hold no `/` matches only names without `/`. -/
theorem C23_wildcards_never_match_slash (segs : List Seg) (name : Bytes) (h : Matches segs name)
    (hl : ∀ d, Seg.lit d ∈ segs → slashByte ∉ d) : slashByte ∉ name :=
  matches_no_slash h hl

/-! ### The directory walk -/

/-- Every reported path is an existing path the pattern expands to, with the
kind `Lstat` reports (every pattern; `**` crosses `/` only through real
directories, the other wildcards stay inside one listing entry). -/
theorem C23_glob_sound (fs : FS) (hfs : FSNames fs) (fuel : Nat) (segs : List Seg) (outs : List Out)
    (h : patternGlob fs fuel segs = .ok outs) (o : Out) (ho : o ∈ outs) :
    ExpandsTop fs segs o.1 ∧ fs.lstat o.1 = some o.2 := by
  obtain ⟨raw, hr, rfl⟩ := patternGlob_ok h
  exact patternGlobRaw_sound hfs hr o (dedup_sub raw [] o ho).1

/-- Every path is reported at most once (every pattern, as fixed). -/
theorem C23_each_path_once (fs : FS) (fuel : Nat) (segs : List Seg) (outs : List Out)
    (h : patternGlob fs fuel segs = .ok outs) : (outs.map (·.1)).Nodup := by
  obtain ⟨raw, _, rfl⟩ := patternGlob_ok h
  exact dedup_nodup raw []

example : patternGlob C23_fsX 3 C23_gpGood.segs = .ok [(C23_xaxb, .file)] := by decide

/-- On `GreedyOK` patterns every expanded path is reported. -/
theorem C23_glob_complete_partial (fs : FS) (fuel : Nat) (segs : List Seg) (outs : List Out)
    (hg : GreedyOK segs) (h : patternGlob fs fuel segs = .ok outs) (p : Bytes)
    (hp : ExpandsTop fs segs p) : ∃ k, (p, k) ∈ outs := by
  obtain ⟨raw, hr, rfl⟩ := patternGlob_ok h
  obtain ⟨k, hk⟩ := patternGlobRaw_complete hg hr p hp
  have := dedup_keeps raw [] p (List.mem_map.2 ⟨(p, k), hk, rfl⟩) (by simp)
  obtain ⟨o, ho, hop⟩ := List.mem_map.1 this
  exact ⟨o.2, by rw [← hop]; exact ho⟩

/-! ### `doGlob` -/

/-- No match raises the exception unless `nomatch-ok` is given; otherwise the
filtered list is returned. -/
theorem C23_nomatch (fs : FS) (fuel : Nat) (gp : GlobPattern) (outs : List Out)
    (h : patternGlob fs fuel gp.segs = .ok outs) :
    doGlob fs fuel gp =
      let vs := (outs.filter fun o => !gp.buts.contains o.1 && gp.type.accepts o.2).map (·.1)
      if vs.isEmpty && !gp.noMatchOK then .exc "wildcard has no match" else .ok vs := by
  unfold doGlob
  rw [h]
  rfl

example : doGlob C23_fsX 3 ⟨[.lit [0x79], C23_star], false, [], .none⟩ = .exc "wildcard has no match" := by
  decide
example : doGlob C23_fsX 3 ⟨[.lit [0x79], C23_star], true, [], .none⟩ = .ok [] := by decide

theorem C23_doGlob_mem (fs : FS) (fuel : Nat) (gp : GlobPattern) (vs : List Bytes)
    (h : doGlob fs fuel gp = .ok vs) :
    ∃ outs, patternGlob fs fuel gp.segs = .ok outs ∧
      vs = (outs.filter fun o => !gp.buts.contains o.1 && gp.type.accepts o.2).map (·.1) := by
  unfold doGlob at h
  rw [bind_eq_ok] at h
  obtain ⟨outs, ho, h⟩ := h
  refine ⟨outs, ho, ?_⟩
  simp only at h
  split at h
  · cases h
  · exact (pure_eq_ok.1 h).symm

/-- Soundness and uniqueness of a successful expansion, for every pattern. -/
theorem C23_expansion_sound (fs : FS) (hfs : FSNames fs) (gp : GlobPattern) (fuel : Nat)
    (vs : List Bytes) (h : doGlob fs fuel gp = .ok vs) :
    vs.Nodup ∧ ∀ p, p ∈ vs → C23_Selected fs gp p := by
  obtain ⟨outs, ho, rfl⟩ := C23_doGlob_mem fs fuel gp vs h
  constructor
  · have := C23_each_path_once fs fuel gp.segs outs ho
    exact (List.Nodup.sublist (List.Sublist.map _ List.filter_sublist) this)
  · intro p hp
    obtain ⟨o, hof, rfl⟩ := List.mem_map.1 hp
    obtain ⟨hom, hc⟩ := List.mem_filter.1 hof
    obtain ⟨e1, e2⟩ := C23_glob_sound fs hfs fuel gp.segs outs ho o hom
    simp at hc
    exact ⟨e1, hc.1, o.2, e2, hc.2⟩

/-- **Main theorem (partial).**  For `GreedyOK` patterns a successful
expansion lists exactly the selected paths, each once.  The gap to `C23_full`
is the class excluded by `GreedyOK` (see `C23_counterexample`). -/
theorem C23_expansion_exact_partial (fs : FS) (hfs : FSNames fs) (gp : GlobPattern)
    (hg : GreedyOK gp.segs) (fuel : Nat) (vs : List Bytes) (h : doGlob fs fuel gp = .ok vs) :
    vs.Nodup ∧ ∀ p, p ∈ vs ↔ C23_Selected fs gp p := by
  obtain ⟨hnd, hs⟩ := C23_expansion_sound fs hfs gp fuel vs h
  refine ⟨hnd, fun p => ⟨hs p, ?_⟩⟩
  rintro ⟨he, hb, k, hk, ht⟩
  obtain ⟨outs, ho, rfl⟩ := C23_doGlob_mem fs fuel gp vs h
  obtain ⟨k', hk'⟩ := C23_glob_complete_partial fs fuel gp.segs outs hg ho p he
  have hkk : k' = k := by
    have := (C23_glob_sound fs hfs fuel gp.segs outs ho (p, k') hk').2
    simp only at this
    rw [hk] at this
    exact (Option.some.inj this).symm
  subst hkk
  refine List.mem_map.2 ⟨(p, k'), List.mem_filter.2 ⟨hk', ?_⟩, rfl⟩
  simp [hb, ht]

example : GreedyOK C23_gpGood.segs ∧ doGlob C23_fsX 3 C23_gpGood = .ok [C23_xaxb] := by decide

/-! ### The defect -/

theorem C23_xaxb_selected : C23_Selected C23_fsX C23_gpBad C23_xaxb := by
  unfold C23_Selected
  refine ⟨?_, ?_, Kind.file, ?_, rfl⟩
  rotate_left
  · simp [C23_gpBad]
  · simp [C23_fsX]
  show Expands C23_fsX [C23_star, .lit [0x78], C23_starB] [] ([] ++ C23_xaxb)
  refine Expands.last (isDir := false) (k := Kind.file) (es := [(C23_xaxb, false)]) (by simp) ?_ ?_ (by simp [C23_fsX])
    (by simp) ⟨?_, ?_⟩ (by simp [C23_fsX])
  · intro s hs
    simp [C23_star, C23_starB] at hs
    rcases hs with rfl | rfl | rfl <;> rfl
  · rintro ⟨d, hd⟩; simp at hd
  · simp [HiddenOK, C23_star, C23_xaxb, dotByte]
  · -- * = "xa", x, *[set:b] = "b"
    have hq : (⟨.star, false, []⟩ : Wild).type ≠ .question := by decide
    have hqb : (⟨.star, false, [fun r => r == 0x62]⟩ : Wild).type ≠ .question := by decide
    refine Matches.step (n := 1) hq (by decide) ?_
    refine Matches.step (n := 1) hq (by decide) ?_
    refine Matches.skip hq ?_
    show Matches _ ([0x78] ++ [0x62])
    refine Matches.lit ?_
    refine Matches.step (n := 1) hqb (by decide) ?_
    exact Matches.skip hqb Matches.nil

/-- The full property fails: `*x*[set:b]` does not list `xaxb`, although
`*` = `xa`, `x`, `*[set:b]` = `b` is a match under the reference's rules. -/
theorem C23_counterexample : ¬ C23_full := by
  intro hfull
  have hrun : doGlob C23_fsX 3 C23_gpBad = .ok [] := by decide
  have := (hfull C23_fsX C23_gpBad 3 [] C23_fsX_names (by
    intro d hd
    simp [C23_gpBad, C23_star, C23_starB] at hd
    rw [hd]; simp) hrun).2 C23_xaxb
  exact absurd (this.2 C23_xaxb_selected) (by simp)

/-! ### Every run returns (round 2) -/

/-- `matchElement` never panics and never runs out of fuel on a slash-free
pattern (what `glob` hands it): the chunks given to `matchFixedLength` hold only
literals and `?`, and the star loop's fuel `len(name)` covers one byte per round. -/
theorem C23_matchElement_total (segs : List Seg) (hns : NoSlash segs) (name : Bytes) :
    ∃ b, matchElement segs name = .ok b :=
  matchElement_total hns name

example : NoSlash C23_gpBad.segs := by
  intro s hs
  simp [C23_gpBad, C23_star, C23_starB] at hs
  rcases hs with rfl | rfl | rfl <;> rfl

/-- **Fuel sufficiency.**  If the directory paths of `fs` carry a rank bounded by
`D` that decreases from a directory to every entry listed as a real directory
(`FSRank`: no cycles through real directories; symbolic links are not followed
by wildcard components), then `Pattern.Glob` returns with any fuel above
`(len(segs)+1) * (D+1)` — the measure is pattern length × depth: every recursive
call of `glob` either consumed a `/` of the pattern or keeps the pattern (`**`)
and descends into a listed real directory. -/
theorem C23_glob_fuel_sufficient (fs : FS) (D : Nat) (R : FSRank fs D) (segs : List Seg) (fuel : Nat)
    (hf : (segs.length + 1) * (D + 1) < fuel) : ∃ outs, patternGlob fs fuel segs = .ok outs :=
  patternGlob_total fs R fuel segs hf

/-- the one-directory tree of the witnesses has a rank (depth 1) -/
def C23_fsX_rank : FSRank C23_fsX 1 where
  rk p := if p = [] then 1 else 0
  le := by intro p; split <;> omega
  desc := by
    intro dir es name _ h hm
    simp only [C23_fsX] at h
    split at h
    · simp at h; subst h
      simp at hm
    · cases h

example : ∃ outs, patternGlob C23_fsX 9 C23_gpBad.segs = .ok outs :=
  C23_glob_fuel_sufficient C23_fsX 1 C23_fsX_rank _ 9 (by decide)

/-- With enough fuel `doGlob` ends in a list or in the no-match exception, never
in `FUEL` or a panic. -/
theorem C23_doGlob_total (fs : FS) (D : Nat) (R : FSRank fs D) (gp : GlobPattern) (fuel : Nat)
    (hf : (gp.segs.length + 1) * (D + 1) < fuel) :
    (∃ vs, doGlob fs fuel gp = .ok vs) ∨ doGlob fs fuel gp = .exc "wildcard has no match" := by
  obtain ⟨outs, ho⟩ := C23_glob_fuel_sufficient fs D R gp.segs fuel hf
  rw [C23_nomatch fs fuel gp outs ho]
  simp only
  split
  · exact Or.inr rfl
  · exact Or.inl ⟨_, rfl⟩

/-- **Main theorem without the "run returned" hypothesis.**  For `GreedyOK`
patterns on a ranked file system, with enough fuel, the expansion is decided:
either the list of exactly the selected paths (each once), or the exception, and
then `nomatch-ok` is absent and no path is selected. -/
theorem C23_expansion_decided_partial (fs : FS) (hfs : FSNames fs) (D : Nat) (R : FSRank fs D)
    (gp : GlobPattern) (hg : GreedyOK gp.segs) (fuel : Nat)
    (hf : (gp.segs.length + 1) * (D + 1) < fuel) :
    (∃ vs, doGlob fs fuel gp = .ok vs ∧ vs.Nodup ∧ ∀ p, p ∈ vs ↔ C23_Selected fs gp p) ∨
    (doGlob fs fuel gp = .exc "wildcard has no match" ∧ gp.noMatchOK = false ∧
      ∀ p, ¬ C23_Selected fs gp p) := by
  obtain ⟨outs, ho⟩ := C23_glob_fuel_sufficient fs D R gp.segs fuel hf
  have hrun := C23_nomatch fs fuel gp outs ho
  simp only at hrun
  split at hrun
  · next hc =>
    refine Or.inr ⟨hrun, ?_, ?_⟩
    · simp only [Bool.and_eq_true, Bool.not_eq_true'] at hc; exact hc.2
    · -- the same pattern with nomatch-ok yields the empty list, which is exact
      have hrun' := C23_nomatch fs fuel ⟨gp.segs, true, gp.buts, gp.type⟩ outs ho
      simp only [Bool.not_true, Bool.and_false, Bool.false_eq_true, if_false] at hrun'
      have hex := (C23_expansion_exact_partial fs hfs ⟨gp.segs, true, gp.buts, gp.type⟩ hg fuel _ hrun').2
      simp only [Bool.and_eq_true, List.isEmpty_iff] at hc
      intro p hp
      have : p ∈ ([] : List Bytes) := by
        rw [← hc.1]
        exact (hex p).2 hp
      cases this
  · exact Or.inl ⟨_, hrun, C23_expansion_exact_partial fs hfs gp hg fuel _ hrun⟩

example : doGlob C23_fsX 9 C23_gpGood = .ok [C23_xaxb] := by decide

/-- The fuel only decides between a result and `FUEL`: a run that returned
returns the same list under any larger fuel (so the results the theorems speak
about do not depend on the fuel the driver picks). -/
theorem C23_more_fuel_same_result (fs : FS) (f1 f2 : Nat) (gp : GlobPattern) (vs : List Bytes)
    (hle : f1 ≤ f2) (h : doGlob fs f1 gp = .ok vs) : doGlob fs f2 gp = .ok vs := by
  obtain ⟨outs, ho, _⟩ := C23_doGlob_mem fs f1 gp vs h
  have ho2 := patternGlob_mono fs f1 f2 gp.segs outs hle ho
  rw [C23_nomatch fs f2 gp outs ho2, ← C23_nomatch fs f1 gp outs ho]
  exact h

example : doGlob C23_fsX 3 C23_gpGood = .ok [C23_xaxb] ∧ (3 : Nat) ≤ 100 := by decide

/-- a chain `r/a/a` with a symbolic link `r/a/a/up -> ../..` back to `r` -/
def C23_treeUp : Tree where
  entries := [([[0x72]], .dir), ([[0x72], [0x61]], .dir), ([[0x72], [0x61], [0x61]], .dir),
    ([[0x72], [0x61], [0x61], [0x75, 0x70]], .symlink [0x2E, 0x2E, 0x2F, 0x2E, 0x2E])]
  absRoot := [[0x74]]
  cwd := [[0x72]]

/-- **The driver never prints `FUEL`.**  On every well-formed tree (names are
real names, no location listed twice — checked by the driver for every op) the
driver's fuel `fuelFor t segs = (len(segs)+1) * (depthBound t + 2) + 1` suffices:
the tree model has the rank `depthBound + 1 - |resolved location|`, because an
entry listed with `IsDir() = true` is a `dir` entry one component below the
listed directory and `dir ++ name ++ "/"` resolves to it. -/
theorem C23_driver_never_out_of_fuel (t : Tree) (hwf : t.wf = true) (segs : List Seg) :
    ∃ outs, patternGlob t.toFS (fuelFor t segs) segs = .ok outs :=
  tree_patternGlob_total t hwf segs

example : C23_treeUp.wf = true := by decide

/-- a chain of `d` directories `r/a/…/a` whose last one holds `up -> ../…/..` (back to `r`) -/
def C23_chainUp (d : Nat) : Tree where
  entries := ((List.range (d + 1)).map fun i => (([0x72] : Bytes) :: List.replicate i [0x61], Node.dir)) ++
    [(([0x72] : Bytes) :: List.replicate d [0x61] ++ [[0x75, 0x70]],
      Node.symlink (List.intercalate [0x2F] (List.replicate d [0x2E, 0x2E])))]
  absRoot := [[0x74]]
  cwd := [[0x72]]

/-- `**/up/` k times, then `**` -/
def C23_upPat (k : Nat) : List Seg :=
  (List.replicate k [C23_star2, .slash, .lit [0x75, 0x70], .slash]).flatten ++ [C23_star2]

/-- Why the fuel must be a PRODUCT: every `**/up/` walks down the whole chain
again, so the recursion depth is about `k * d`.  The round-1 driver used the sum
`entries + len(segs) + 8` and would have printed `FUEL` here (never generated:
trees were shallow); corpus section 7 replays this on the real code. -/
theorem C23_additive_fuel_insufficient :
    patternGlob (C23_chainUp 8).toFS ((C23_chainUp 8).entries.length + (C23_upPat 3).length + 8)
      (C23_upPat 3) = .exc "FUEL" := by decide +kernel

example : (C23_chainUp 8).wf = true := by decide +kernel

/-! ### `glob.Parse` (round 2) -/

/-- `glob.Parse` is total: the model's fuel `len(s)+1` always suffices, the
literal loop always consumes its first rune, nothing panics. -/
theorem C23_parse_total (s : Bytes) : ∃ segs, parse s = .ok segs := parse_total s

/-- Printing the parsed segments gives the pattern string back, up to what Parse
merges: every run of `/` is one `Slash`, every run of two or more `*` one `**`.
Needs valid UTF-8 (an invalid byte becomes U+FFFD in a literal) and no backslash
(escapes are dropped). -/
theorem C23_parse_print (s : Bytes) (segs : List Seg) (hv : validUtf8 s = true)
    (hb : (0x5C : UInt8) ∉ s) (h : parse s = .ok segs) : printSegs segs = squeeze s :=
  parse_print hv hb h

/-- For a string without `//` and `***` the printed segments are the string. -/
theorem C23_parse_print_normal (s : Bytes) (segs : List Seg) (hv : validUtf8 s = true)
    (hb : (0x5C : UInt8) ∉ s) (hn : normalRuns s = true) (h : parse s = .ok segs) :
    printSegs segs = s :=
  parse_print_normal hv hb hn h

/-- `Parse` never produces matchers or match-hidden. -/
theorem C23_parse_plain_wildcards (s : Bytes) (segs : List Seg) (h : parse s = .ok segs) (w : Wild)
    (hw : Seg.wild w ∈ segs) : w.hidden = false ∧ w.matchers = [] :=
  parse_plain h _ hw

/-- parse, then print (segments hold functions, so results are compared printed) -/
def C23_printParsed (s : Bytes) : Option Bytes :=
  match parse s with
  | .ok segs => some (printSegs segs)
  | _ => none

/-- `a***//?b` -/
def C23_patStr : Bytes := [0x61, 0x2A, 0x2A, 0x2A, 0x2F, 0x2F, 0x3F, 0x62]

example : C23_printParsed C23_patStr = some [0x61, 0x2A, 0x2A, 0x2F, 0x3F, 0x62] := by
  decide +kernel
example : squeeze C23_patStr = [0x61, 0x2A, 0x2A, 0x2F, 0x3F, 0x62] := by decide
example : validUtf8 C23_patStr = true ∧ (0x5C : UInt8) ∉ C23_patStr := by decide +kernel
/-- `a**/?b` is normal -/
example : normalRuns [0x61, 0x2A, 0x2A, 0x2F, 0x3F, 0x62] = true := by decide
/-- the hypotheses are needed: `\*` prints as `*`, the byte `ff` as U+FFFD -/
example : C23_printParsed [0x5C, 0x2A] = some [0x2A] := by decide +kernel
example : C23_printParsed [0xFF] = some [0xEF, 0xBF, 0xBD] := by decide +kernel

/-! ### `lit * lit` needs room for both literals (round 2) -/

/-- A name matched by `lit₁ * lit₂` (any `*`/`**`/`?` in the middle) starts with
`lit₁`, ends with `lit₂`, and is at least `|lit₁| + |lit₂|` long: the literals
occupy disjoint bytes.  "Starts with `lit₁` and ends with `lit₂`" alone is NOT
sufficient — `a` for `a*a`, `aba` for `ab*ba` (seeded change
C23-literal-star-literal-overlap; corpus section 6). -/
theorem C23_lit_star_lit_needs_room (l1 l2 : Bytes) (w : Wild) (name : Bytes)
    (h : Matches [.lit l1, .wild w, .lit l2] name) :
    l1.length + l2.length ≤ name.length ∧ (∃ t, name = l1 ++ t) ∧ (∃ t, name = t ++ l2) := by
  refine ⟨?_, ?_, ?_⟩
  · have := matches_minLen h
    simp only [minLen] at this
    omega
  · obtain ⟨t, ht, _⟩ := matches_lit_prefix h
    exact ⟨t, ht⟩
  · exact matches_lit_suffix (segs := [.lit l1, .wild w]) h

/-- the same for what the code accepts -/
theorem C23_matchElement_lit_star_lit (l1 l2 : Bytes) (w : Wild) (name : Bytes)
    (hs : slashByte ∉ name) (h : matchElement [.lit l1, .wild w, .lit l2] name = .ok true) :
    l1.length + l2.length ≤ name.length :=
  (C23_lit_star_lit_needs_room l1 l2 w name (C23_matchElement_sound _ _ hs h).2).1

/-- `a*a` -/
def C23_aStarA : List Seg := [.lit [0x61], C23_star, .lit [0x61]]
/-- `ab*ba` -/
def C23_abStarBa : List Seg := [.lit [0x61, 0x62], C23_star, .lit [0x62, 0x61]]

/-- `a` starts with `a` and ends with `a`, but `a*a` does not match it … -/
example : ¬ Matches C23_aStarA [0x61] := fun h => by
  have := (C23_lit_star_lit_needs_room _ _ _ _ h).1
  simp at this
/-- … nor does `ab*ba` match `aba`; the code agrees, and `aa`, `abba` do match. -/
example : ¬ Matches C23_abStarBa [0x61, 0x62, 0x61] := fun h => by
  have := (C23_lit_star_lit_needs_room _ _ _ _ h).1
  simp at this
example : matchElement C23_aStarA [0x61] = .ok false ∧ matchElement C23_aStarA [0x61, 0x61] = .ok true ∧
    matchElement C23_abStarBa [0x61, 0x62, 0x61] = .ok false ∧
    matchElement C23_abStarBa [0x61, 0x62, 0x62, 0x61] = .ok true := by decide
