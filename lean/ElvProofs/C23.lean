/-
C23 — Wildcard expansion yields exactly the matching paths.

Model: `ElvModel/C23/Model.lean` (pkg/glob, pkg/eval/glob.go as fixed by
fixes/C23-dedup-paths.patch and fixes/C23-type-regular-symlink.patch).
Spec: `ElvModel/C23/Spec.lean` (`Matches`, `ElemMatches`, `Expands`).

The property at full strength (`C23_full`) is FALSE for the code: the greedy
chunk matcher of `matchElement` never revisits an earlier star
(`C23_counterexample`: `*x*[set:b]` against `xaxb`; a second witness with a
literal that is not valid UTF-8 is replayed from the corpus).  It is proved for
the patterns in `GreedyOK` (`C23_expansion_exact_partial`), which excludes
exactly: a matcher-restricted `*`/`**` that has an earlier `*`/`**` in the same
path element, and literals that are empty or not valid UTF-8.
Soundness, uniqueness, the hidden-file rule, "no wildcard consumes `/`" and the
no-match rule hold for every pattern.
-/
import ElvProofs.C23.Top
open Go C23

/-- What `doGlob` must yield for `p`: the path is expanded by the pattern, not
excluded by `but:`, exists, and passes `type:`. -/
def C23_Selected (fs : FS) (gp : GlobPattern) (p : Bytes) : Prop :=
  ExpandsTop fs gp.segs p ∧ p ∉ gp.buts ∧ ∃ k, fs.lstat p = some k ∧ gp.type.accepts k = true

/-- The property at full strength: for every directory tree (whose entry names
contain no `/`) and every pattern with non-empty literals, a successful
expansion lists exactly the selected paths, each once. -/
def C23_full : Prop :=
  ∀ (fs : FS) (gp : GlobPattern) (fuel : Nat) (vs : List Bytes), FSNames fs →
    (∀ d, Seg.lit d ∈ gp.segs → d ≠ []) → doGlob fs fuel gp = .ok vs →
    vs.Nodup ∧ ∀ p, p ∈ vs ↔ C23_Selected fs gp p

/-! ### A concrete tree and concrete patterns (witnesses and non-vacuity) -/

/-- `xaxb` -/
def C23_xaxb : Bytes := [0x78, 0x61, 0x78, 0x62]

/-- a directory holding the single file `xaxb` -/
def C23_fsX : FS where
  lstat p := if p = C23_xaxb then some .file else none
  readDir d := if d = [] then some [(C23_xaxb, false)] else none

def C23_star : Seg := .wild ⟨.star, false, []⟩
/-- `*[set:b]` -/
def C23_starB : Seg := .wild ⟨.star, false, [fun r => r == 0x62]⟩

/-- `*x*[set:b][nomatch-ok]` -/
def C23_gpBad : GlobPattern := ⟨[C23_star, .lit [0x78], C23_starB], true, [], .none⟩
/-- `*x*` -/
def C23_gpGood : GlobPattern := ⟨[C23_star, .lit [0x78], C23_star], false, [], .none⟩

theorem C23_fsX_names : FSNames C23_fsX := by
  intro dir es h n d hm
  simp only [C23_fsX] at h
  split at h
  · simp at h; subst h
    simp at hm
    rw [hm.1]; decide
  · cases h

/-! ### Element matching -/

/-- Whatever `matchElement` accepts is matched declaratively (every pattern). -/
theorem C23_matchElement_sound (segs : List Seg) (name : Bytes) (hs : slashByte ∉ name)
    (h : matchElement segs name = .ok true) : ElemMatches segs name :=
  matchElement_sound hs h

example : matchElement C23_gpGood.segs C23_xaxb = .ok true := by decide

/-- On `GreedyOK` patterns leftmost-greedy matching finds every match. -/
theorem C23_matchElement_complete_partial (segs : List Seg) (name : Bytes) (hg : GreedyOK segs)
    (h : ElemMatches segs name) : matchElement segs name = .ok true :=
  matchElement_complete hg h

example : GreedyOK C23_gpGood.segs := by decide

/-- No wildcard matches a leading dot without `match-hidden`. -/
theorem C23_hidden (w : Wild) (rest : List Seg) (t : Bytes)
    (h : matchElement (.wild w :: rest) (dotByte :: t) = .ok true) : w.hidden = true := by
  unfold matchElement at h
  simp only at h
  split at h
  · simp at h
  · next hr => simpa [hiddenReject] using hr

example : matchElement [.wild ⟨.star, true, []⟩] [dotByte, 0x61] = .ok true := by decide
example : matchElement [C23_star] [dotByte, 0x61] = .ok false := by decide

/-- `?`, `*` and (within one element) `**` never consume a `/`: a pattern
element whose literals hold no `/` matches only names without `/`. -/
theorem C23_wildcards_never_match_slash (segs : List Seg) (name : Bytes) (h : Matches segs name)
    (hl : ∀ d, Seg.lit d ∈ segs → slashByte ∉ d) : slashByte ∉ name :=
  matches_no_slash h hl

/-! ### The directory walk -/

/-- Every reported path is an existing path the pattern expands to, with the
kind `Lstat` reports (every pattern; `**` crosses `/` only through real
directories, the other wildcards stay inside one listing entry). -/
theorem C23_glob_sound (fs : FS) (hfs : FSNames fs) (fuel : Nat) (segs : List Seg) (outs : List Out)
    (h : patternGlob fs fuel segs = .ok outs) (o : Out) (ho : o ∈ outs) :
    ExpandsTop fs segs o.1 ∧ fs.lstat o.1 = some o.2 := by
  obtain ⟨raw, hr, rfl⟩ := patternGlob_ok h
  exact patternGlobRaw_sound hfs hr o (dedup_sub raw [] o ho).1

/-- Every path is reported at most once (every pattern, as fixed). -/
theorem C23_each_path_once (fs : FS) (fuel : Nat) (segs : List Seg) (outs : List Out)
    (h : patternGlob fs fuel segs = .ok outs) : (outs.map (·.1)).Nodup := by
  obtain ⟨raw, _, rfl⟩ := patternGlob_ok h
  exact dedup_nodup raw []

example : patternGlob C23_fsX 3 C23_gpGood.segs = .ok [(C23_xaxb, .file)] := by decide

/-- On `GreedyOK` patterns every expanded path is reported. -/
theorem C23_glob_complete_partial (fs : FS) (fuel : Nat) (segs : List Seg) (outs : List Out)
    (hg : GreedyOK segs) (h : patternGlob fs fuel segs = .ok outs) (p : Bytes)
    (hp : ExpandsTop fs segs p) : ∃ k, (p, k) ∈ outs := by
  obtain ⟨raw, hr, rfl⟩ := patternGlob_ok h
  obtain ⟨k, hk⟩ := patternGlobRaw_complete hg hr p hp
  have := dedup_keeps raw [] p (List.mem_map.2 ⟨(p, k), hk, rfl⟩) (by simp)
  obtain ⟨o, ho, hop⟩ := List.mem_map.1 this
  exact ⟨o.2, by rw [← hop]; exact ho⟩

/-! ### `doGlob` -/

/-- No match raises the exception unless `nomatch-ok` is given; otherwise the
filtered list is returned. -/
theorem C23_nomatch (fs : FS) (fuel : Nat) (gp : GlobPattern) (outs : List Out)
    (h : patternGlob fs fuel gp.segs = .ok outs) :
    doGlob fs fuel gp =
      let vs := (outs.filter fun o => !gp.buts.contains o.1 && gp.type.accepts o.2).map (·.1)
      if vs.isEmpty && !gp.noMatchOK then .exc "wildcard has no match" else .ok vs := by
  unfold doGlob
  rw [h]
  rfl

example : doGlob C23_fsX 3 ⟨[.lit [0x79], C23_star], false, [], .none⟩ = .exc "wildcard has no match" := by
  decide
example : doGlob C23_fsX 3 ⟨[.lit [0x79], C23_star], true, [], .none⟩ = .ok [] := by decide

theorem C23_doGlob_mem (fs : FS) (fuel : Nat) (gp : GlobPattern) (vs : List Bytes)
    (h : doGlob fs fuel gp = .ok vs) :
    ∃ outs, patternGlob fs fuel gp.segs = .ok outs ∧
      vs = (outs.filter fun o => !gp.buts.contains o.1 && gp.type.accepts o.2).map (·.1) := by
  unfold doGlob at h
  rw [bind_eq_ok] at h
  obtain ⟨outs, ho, h⟩ := h
  refine ⟨outs, ho, ?_⟩
  simp only at h
  split at h
  · cases h
  · exact (pure_eq_ok.1 h).symm

/-- Soundness and uniqueness of a successful expansion, for every pattern. -/
theorem C23_expansion_sound (fs : FS) (hfs : FSNames fs) (gp : GlobPattern) (fuel : Nat)
    (vs : List Bytes) (h : doGlob fs fuel gp = .ok vs) :
    vs.Nodup ∧ ∀ p, p ∈ vs → C23_Selected fs gp p := by
  obtain ⟨outs, ho, rfl⟩ := C23_doGlob_mem fs fuel gp vs h
  constructor
  · have := C23_each_path_once fs fuel gp.segs outs ho
    exact (List.Nodup.sublist (List.Sublist.map _ List.filter_sublist) this)
  · intro p hp
    obtain ⟨o, hof, rfl⟩ := List.mem_map.1 hp
    obtain ⟨hom, hc⟩ := List.mem_filter.1 hof
    obtain ⟨e1, e2⟩ := C23_glob_sound fs hfs fuel gp.segs outs ho o hom
    simp at hc
    exact ⟨e1, hc.1, o.2, e2, hc.2⟩

/-- **Main theorem (partial).**  For `GreedyOK` patterns a successful
expansion lists exactly the selected paths, each once.  The gap to `C23_full`
is the class excluded by `GreedyOK` (see `C23_counterexample`). -/
theorem C23_expansion_exact_partial (fs : FS) (hfs : FSNames fs) (gp : GlobPattern)
    (hg : GreedyOK gp.segs) (fuel : Nat) (vs : List Bytes) (h : doGlob fs fuel gp = .ok vs) :
    vs.Nodup ∧ ∀ p, p ∈ vs ↔ C23_Selected fs gp p := by
  obtain ⟨hnd, hs⟩ := C23_expansion_sound fs hfs gp fuel vs h
  refine ⟨hnd, fun p => ⟨hs p, ?_⟩⟩
  rintro ⟨he, hb, k, hk, ht⟩
  obtain ⟨outs, ho, rfl⟩ := C23_doGlob_mem fs fuel gp vs h
  obtain ⟨k', hk'⟩ := C23_glob_complete_partial fs fuel gp.segs outs hg ho p he
  have hkk : k' = k := by
    have := (C23_glob_sound fs hfs fuel gp.segs outs ho (p, k') hk').2
    simp only at this
    rw [hk] at this
    exact (Option.some.inj this).symm
  subst hkk
  refine List.mem_map.2 ⟨(p, k'), List.mem_filter.2 ⟨hk', ?_⟩, rfl⟩
  simp [hb, ht]

example : GreedyOK C23_gpGood.segs ∧ doGlob C23_fsX 3 C23_gpGood = .ok [C23_xaxb] := by decide

/-! ### The defect -/

theorem C23_xaxb_selected : C23_Selected C23_fsX C23_gpBad C23_xaxb := by
  unfold C23_Selected
  refine ⟨?_, ?_, Kind.file, ?_, rfl⟩
  rotate_left
  · simp [C23_gpBad]
  · simp [C23_fsX]
  show Expands C23_fsX [C23_star, .lit [0x78], C23_starB] [] ([] ++ C23_xaxb)
  refine Expands.last (isDir := false) (k := Kind.file) (es := [(C23_xaxb, false)]) (by simp) ?_ ?_ (by simp [C23_fsX])
    (by simp) ⟨?_, ?_⟩ (by simp [C23_fsX])
  · intro s hs
    simp [C23_star, C23_starB] at hs
    rcases hs with rfl | rfl | rfl <;> rfl
  · rintro ⟨d, hd⟩; simp at hd
  · simp [HiddenOK, C23_star, C23_xaxb, dotByte]
  · -- * = "xa", x, *[set:b] = "b"
    have hq : (⟨.star, false, []⟩ : Wild).type ≠ .question := by decide
    have hqb : (⟨.star, false, [fun r => r == 0x62]⟩ : Wild).type ≠ .question := by decide
    refine Matches.step (n := 1) hq (by decide) ?_
    refine Matches.step (n := 1) hq (by decide) ?_
    refine Matches.skip hq ?_
    show Matches _ ([0x78] ++ [0x62])
    refine Matches.lit ?_
    refine Matches.step (n := 1) hqb (by decide) ?_
    exact Matches.skip hqb Matches.nil

/-- The full property fails: `*x*[set:b]` does not list `xaxb`, although
`*` = `xa`, `x`, `*[set:b]` = `b` is a match under the reference's rules. -/
theorem C23_counterexample : ¬ C23_full := by
  intro hfull
  have hrun : doGlob C23_fsX 3 C23_gpBad = .ok [] := by decide
  have := (hfull C23_fsX C23_gpBad 3 [] C23_fsX_names (by
    intro d hd
    simp [C23_gpBad, C23_star, C23_starB] at hd
    rw [hd]; simp) hrun).2 C23_xaxb
  exact absurd (this.2 C23_xaxb_selected) (by simp)
