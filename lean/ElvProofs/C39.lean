import ElvProofs.C39.Sound
import ElvProofs.C39.Serial
import ElvProofs.C39.Witness
import ElvProofs.C39.UseOnce
import ElvProofs.C39.ConcWitness
import ElvProofs.C39.ConcTotal
/-!
# C39 — one interpreter can safely be used from many goroutines

Model: `ElvModel/C39/Lockset.lean` (traces of Lock/Unlock/RLock/RUnlock, reads
and writes of shared variables, go/join; happens-before of the Go memory
model; the executable lockset obligation `checkVar` over a table of access
sites) and `ElvModel/C39/Programs.lean` (sequential semantics of the programs
the dynamic ops run).

The table of access sites is NOT part of these files: it is regenerated from
the Go source at every check (harness/c39/extract.go) and `checkVar` is
evaluated on it by the native driver; the theorems below hold for every table.
-/
open C39

/-- The Eraser core, for Go's RWMutex: two accesses by different goroutines
that are made while holding a common mutex — at least one of them exclusively
(a write must hold it by Lock, a read may hold it by RLock) — are ordered by
happens-before, in every well-formed trace. -/
theorem C39_lock_orders {L V : Type} [DecidableEq L] [DecidableEq V]
    (tr : Trace L V) (hwf : WF tr) (i j : Nat) (s t : Step L V) (m : L) (x y : V)
    (hij : i < j) (hs : tr[i]? = some s) (ht : tr[j]? = some t) (hne : s.tid ≠ t.tid)
    (hsa : s.ev.accesses x) (hta : t.ev.accesses y)
    (h : (holdsEx (stateAt tr i) s.tid m ∧ holdsAny (stateAt tr j) t.tid m) ∨
         (holdsAny (stateAt tr i) s.tid m ∧ holdsEx (stateAt tr j) t.tid m)) :
    HB tr i j :=
  lock_orders hwf hij hs ht hne hsa hta h

/-- Non-vacuity: a well-formed trace in which goroutine 1 writes x under Lock
and goroutine 2 reads it under RLock. -/
example : WF Witness.lockedTrace ∧
    holdsEx (stateAt Witness.lockedTrace 4) 1 0 ∧ holdsAny (stateAt Witness.lockedTrace 7) 2 0 := by
  refine ⟨Witness.lockedTrace_wf, ?_, ?_⟩ <;> decide

/-- Publication: an access made by goroutine 0 before any `go` statement
happens before everything any other goroutine ever does. -/
theorem C39_init_happens_before {L V : Type} [DecidableEq L] [DecidableEq V]
    (tr : Trace L V) (hf : WFfork tr) (i : Nat) (s : Step L V) (x : V)
    (hs : tr[i]? = some s) (hsa : s.ev.accesses x) (hinit : InitPhase tr i)
    (j : Nat) (t : Step L V) (hij : i < j) (ht : tr[j]? = some t) (ht0 : t.tid ≠ 0) :
    HB tr i j :=
  init_before_all hf hs (not_fork_of_accesses hsa) hinit j t hij ht ht0

/-- **Lockset soundness** (Eraser-style, proved once for every table and every
trace).  If the lockset obligation holds for `x` on the table of access sites —
some mutex is held at every access to `x` outside the construction phase
(exclusively at writes), or `x` is only written in the construction phase —
then no well-formed execution whose accesses are instances of the table's
sites has a data race on `x`. -/
theorem C39_lockset_sound {L V : Type} [DecidableEq L] [DecidableEq V]
    (tbl : List (Site L V)) (x : V) (cands : List L)
    (hv : (checkVar tbl x cands).good = true)
    (tr : Trace L V) (hwf : WF tr) (hf : WFfork tr) (hc : Conforms tr tbl) :
    ¬ Race tr x := by
  rintro ⟨i, j, s, t, hij, hs, ht, hne, hsa, hta, hw, hnhb⟩
  apply hnhb
  obtain ⟨si, hsi, hsix, hsiw, hsiI, hsiH⟩ := hc i s x hs hsa
  obtain ⟨sj, hsj, hsjx, hsjw, hsjI, hsjH⟩ := hc j t x ht hta
  -- construction-phase sites first
  by_cases hiI : si.init = true
  · have hI := hsiI hiI
    have hs0 : s.tid = 0 := by
      obtain ⟨⟨s', hs', h0⟩, _⟩ := hI
      rw [hs] at hs'; cases hs'; exact h0
    exact init_before_all hf hs (not_fork_of_accesses hsa) hI j t hij ht (by rw [← hs0]; exact Ne.symm hne)
  by_cases hjI : sj.init = true
  · exfalso
    have hI := hsjI hjI
    have ht0 : t.tid = 0 := by
      obtain ⟨⟨t', ht', h0⟩, _⟩ := hI
      rw [ht] at ht'; cases ht'; exact h0
    exact nothing_before_init hf hij hs (by rw [← ht0]; exact hne) hI
  have hiI' : si.init = false := by simpa using hiI
  have hjI' : sj.init = false := by simpa using hjI
  rcases checkVar_good hv with himm | ⟨m, hm⟩
  · -- immutable after publication: the writing site would be a construction site
    exfalso
    unfold immutableAfterInit at himm
    rw [List.all_eq_true] at himm
    rcases hw with hw | hw
    · have := himm si (mem_sitesOf hsi hsix)
      rw [hsiw, hw, hiI'] at this
      simp at this
    · have := himm sj (mem_sitesOf hsj hsjx)
      rw [hsjw, hw, hjI'] at this
      simp at this
  · unfold protectedBy at hm
    rw [List.all_eq_true] at hm
    have gi : si.guardedBy m = true := by
      have := hm si (mem_sitesOf hsi hsix)
      simpa [hiI'] using this
    have gj : sj.guardedBy m = true := by
      have := hm sj (mem_sitesOf hsj hsjx)
      simpa [hjI'] using this
    rcases hw with hw | hw
    · obtain ⟨p, hp, hp1, hp2⟩ := guardedBy_write (by rw [hsiw, hw]) gi
      obtain ⟨q, hq, hq1⟩ := guardedBy_any gj
      have h1 := ((hsiH hiI') p hp).1 hp2
      have h2 := ((hsjH hjI') q hq).2
      rw [hp1] at h1; rw [hq1] at h2
      exact lock_orders hwf hij hs ht hne hsa hta (Or.inl ⟨h1, h2⟩)
    · obtain ⟨p, hp, hp1⟩ := guardedBy_any gi
      obtain ⟨q, hq, hq1, hq2⟩ := guardedBy_write (by rw [hsjw, hw]) gj
      have h1 := ((hsiH hiI') p hp).2
      have h2 := ((hsjH hjI') q hq).1 hq2
      rw [hp1] at h1; rw [hq1] at h2
      exact lock_orders hwf hij hs ht hne hsa hta (Or.inr ⟨h1, h2⟩)

/-- Non-vacuity of `C39_lockset_sound`: the shape of the table of
`Evaler.modules` WITH the fix (construction write, AddModule/installModule
under Lock, loadedModule/CheckTree under RLock) satisfies the obligation, and a
well-formed trace of three goroutines conforms to it. -/
example : (checkVar Witness.fixedTbl 0 [0, 1]).good = true ∧
    WF Witness.lockedTrace ∧ WFfork Witness.lockedTrace ∧ Conforms Witness.lockedTrace Witness.fixedTbl :=
  ⟨by decide, Witness.lockedTrace_wf, Witness.lockedTrace_wffork, Witness.lockedTrace_conforms⟩

/-- The property's race-freedom clause for a whole table: no execution that
conforms to the table has a data race on ANY shared variable. -/
def C39_race_free_full {L V : Type} [DecidableEq L] [DecidableEq V]
    (tbl : List (Site L V)) : Prop :=
  ∀ tr : Trace L V, WF tr → WFfork tr → Conforms tr tbl → ∀ x, ¬ Race tr x

/-- It follows when the obligation holds for every variable (this is what the
check evaluates on the regenerated table, one `static` op per variable). -/
theorem C39_race_free {L V : Type} [DecidableEq L] [DecidableEq V]
    (tbl : List (Site L V)) (cands : List L)
    (h : ∀ x, (checkVar tbl x cands).good = true) : C39_race_free_full tbl :=
  fun tr hwf hf hc x => C39_lockset_sound tbl x cands (h x) tr hwf hf hc

/-- PARTIAL (what holds for the tree as it is): race freedom for exactly the
variables whose obligation holds.  On the current tree the obligation holds for
every field of `Evaler` and for the pointee of `PtrVar`, and fails for
`Ns.slots` (`del x` writes a slot of a published namespace without any lock:
finding `ns-slot-del-unlocked`), so `C39_race_free_full` is not established for
the real table. -/
theorem C39_race_free_partial {L V : Type} [DecidableEq L] [DecidableEq V]
    (tbl : List (Site L V)) (cands : List L)
    (tr : Trace L V) (hwf : WF tr) (hf : WFfork tr) (hc : Conforms tr tbl) :
    ∀ x, (checkVar tbl x cands).good = true → ¬ Race tr x :=
  fun x hx => C39_lockset_sound tbl x cands hx tr hwf hf hc

/-- The unchanged code violates the property: the table of `Evaler.modules` as
extracted from the tree WITHOUT fixes/C39-modules-map-lock.patch (use,
useFromFile and evalModule access the map with no lock) fails the obligation,
and it is not a false alarm of the obligation — there is a well-formed
execution conforming to that table (two goroutines in evalModule) with a data
race on the map.  The same witness runs on the real code as the first corpus
op (`dyn race 4 E(u0,g0) E(u0,g0) …`). -/
theorem C39_counterexample :
    (checkVar Witness.unfixedTbl 0 [0, 1]).good = false ∧
    ¬ C39_race_free_full Witness.unfixedTbl := by
  refine ⟨by decide, ?_⟩
  intro h
  exact h Witness.racyTrace Witness.racyTrace_wf Witness.racyTrace_wffork
    Witness.racyTrace_conforms 0 Witness.racyTrace_race

/-- The same for the finding that remains: `del` writes `Ns.slots[i]` of a
namespace other evaluations read (nsOp.prepare copies the slots, derefBase
reads them) with no lock. -/
theorem C39_counterexample_del :
    (checkVar Witness.slotsTbl 0 [0, 1]).good = false ∧
    ¬ C39_race_free_full Witness.slotsTbl := by
  refine ⟨by decide, ?_⟩
  intro h
  exact h Witness.racyTrace Witness.racyTrace_wf Witness.racyTrace_wffork
    Witness.racyTrace_conforms_slots 0 Witness.racyTrace_race

/-! ### Importing a module from many goroutines -/

/-- With the fix (installModule re-checks under the lock), for any number of
goroutines importing the same module and any interleaving of their atomic
steps: the module body is started at most once, and all goroutines whose `use`
has returned hold one and the same namespace. -/
theorem C39_module_evaluated_once (n : Nat) (sched : List Nat) :
    (Use.run true (Use.init n) sched).execs ≤ 1 ∧
    ∀ (g g' a b : Nat), (Use.run true (Use.init n) sched).pcs[g]? = some (Use.Pc.done a) →
      (Use.run true (Use.init n) sched).pcs[g']? = some (Use.Pc.done b) → a = b := by
  obtain ⟨h1, h2⟩ := Use.inv_run (Use.init n) sched (Use.inv_init n)
  refine ⟨by rw [h1]; split <;> omega, ?_⟩
  intro g g' a b ha hb
  have := h2 g a (Or.inr ha)
  rw [h2 g' b (Or.inr hb)] at this
  cases this; rfl

/-- Non-vacuity: three goroutines, all finish, one evaluation. -/
example : (Use.run true (Use.init 3) [0, 1, 2, 0, 1, 2, 0, 1, 2]).execs = 1 ∧
    (Use.run true (Use.init 3) [0, 1, 2, 0, 1, 2, 0, 1, 2]).pcs = [.done 0, .done 0, .done 0] := by decide

/-- Without the re-check (the unchanged code, where evalModule stores blindly)
two goroutines that both miss the cache both evaluate the module and end up
with different namespaces: not an outcome of any sequential order. -/
theorem C39_counterexample_twice :
    (Use.run false (Use.init 2) [0, 1, 0, 1, 0, 1]).execs = 2 ∧
    (Use.run false (Use.init 2) [0, 1, 0, 1, 0, 1]).pcs = [.done 0, .done 1] := by decide

/-! ### Check-then-act on the module table (the second static obligation) -/

/-- **Test-and-set gives at-most-once installation.**  If the check-then-act
obligation holds for the table extracted from the source — every write of
`modules[k]` reachable from `use` is a direct write inside an exclusive
critical section, guarded by a direct lookup of the same key in the SAME
section — then in every execution (any number of goroutines, any interleaving
of lock / unlock / lookup / insert / delete events that respects the mutex and
in which each write is made the way its table entry says) an installed entry is
never overwritten, and there is at most one insertion more than deletions
(without a failing module: at most one insertion). -/
theorem C39_check_then_act_once (tbl : List CtaSite) (h : ctaCheck tbl = .tas)
    (tr : List Cta.Ev) (s : Cta.State) (hr : Cta.run tbl Cta.init tr = some s) :
    s.overwrites = 0 ∧ s.inserts ≤ s.deletes + 1 := by
  obtain ⟨h1, h2, _⟩ := Cta.inv_run (Cta.allTas_of_check h) tr _ _ Cta.inv_init hr
  refine ⟨h1, ?_⟩
  rw [h2]; split <;> omega

/-- Non-vacuity: the table of the fixed tree satisfies the obligation; the
execution "goroutine 0 installs, goroutine 1 finds the entry" is one the table
describes (one insertion); the execution in which goroutine 1 inserts after
having found the entry is not. -/
example : ctaCheck Cta.Witness.fixedTbl = .tas ∧
    (Cta.run Cta.Witness.fixedTbl Cta.init Cta.Witness.goodTrace).map (·.inserts) = some 1 ∧
    Cta.run Cta.Witness.fixedTbl Cta.init Cta.Witness.badTrace = none := by decide

/-- The seeded change `installModule = loadedModule; AddModule` (every access
locked, so the lockset obligation still holds) fails the check-then-act
obligation, and not as a false alarm: the execution in which two goroutines
both look the key up, both find nothing and both insert is one its table
describes — two insertions, one installed namespace overwritten. -/
theorem C39_counterexample_split :
    ctaCheck Cta.Witness.seededTbl = .split "eval.go:Evaler.installModule:231(via AddModule)" ∧
    (Cta.run Cta.Witness.seededTbl Cta.init Cta.Witness.splitTrace).map (fun s => (s.inserts, s.overwrites)) =
      some (2, 1) := by decide

/-! ### "Results are ones some sequential order could produce" -/

/-- Serialisability of whole evaluations at full strength, for an arbitrary
sequential semantics `step` of evaluations and an arbitrary set `conc` of
outcomes of running evaluations concurrently: every concurrent outcome (final
state, and the result of each evaluation) is the outcome of running the
evaluations one after the other in some order.

NOT proved, and not provable from locksets: it is a statement about the whole
interpreter.  It is also false for arbitrary elvish programs in the trivial
sense that `set x = (+ $x 1)` is not atomic.  Checked by the oracle for the
generated programs (commutative shared updates), for which it reduces to
equality with one result — see `C39_serial_order_irrelevant`.  Known to fail
on the real code for module imports: finding `module-partial-visible`. -/
def C39_serialisable_full {S E R : Type} (step : S → E → S × R)
    (conc : S → List E → S × List (E × R) → Prop) : Prop :=
  ∀ s es out, conc s es out →
    ∃ order : List E, order.Perm es ∧
      let run := order.foldl (fun (acc : S × List (E × R)) e =>
        let (s', r) := step acc.1 e
        (s', acc.2 ++ [(e, r)])) (s, [])
      run.1 = out.1 ∧ run.2.Perm out.2

/-- **Serialisability for the commutative program class** (round 2).

The concurrent semantics is `ElvModel/C39/Concurrent.lean`: the goroutines of an
op run their API actions (Eval on the shared or a private namespace, Call,
Check) on one Evaler; every statement is one or more atomic steps; the steps of
different goroutines and of the branches of `peach` / `run-parallel` inside one
evaluation interleave arbitrarily (`Exec`); `use` is the protocol of the fixed
code (lookup, then test-and-set installer, the winner runs the module body —
which may import further modules, also circularly); `$m:x` of a module whose
body has not finished is `$nil`.

The class is the decidable syntactic predicate `Conc.inClass w prog`: shared
state is touched only through counters, set-only flags and module imports of
the module universe; `$m:x` is read only from modules loaded before the
goroutines start; module bodies produce no output.

For every program of the class and EVERY concurrent execution that runs to the
end: there is a sequential order — the evaluations one after the other, each
run alone from start to return (`SeqExec`) — that ends with the same shared
state (all counts: counters, flags, which modules are loaded and how often
their bodies ran) and gives every evaluation of every goroutine the same result
(compilation verdict and outputs as a multiset).

The sequential order exists because the sequential run of a program of the
class always finishes (`C39_sequential_run_terminates`). -/
theorem C39_serialisable_commutative (w : Conc.World) (prog : List (List Action)) (acc0 : Conc.Acc)
    (hc : Conc.inClass w prog = true) (hf : Conc.Fresh acc0)
    (c : Conc.Cfg) (hx : Conc.Exec w (Conc.Cfg.init acc0 prog) c) (ht : c.terminal) :
    ∃ cS, Conc.SeqExec w (Conc.Cfg.init acc0 prog) cS ∧ cS.terminal ∧
      cS.acc = c.acc ∧ Conc.SameResults cS c := by
  have hfuel := Conc.serialRun_total hc acc0
  cases hr : Conc.serialRun w (Conc.fuelFor w prog) acc0 prog with
  | none => rw [hr] at hfuel; cases hfuel
  | some cS =>
    obtain ⟨hs, hts⟩ := Conc.serialRun_sound hr
    obtain ⟨hb, hk⟩ := Conc.inClass_spec hc acc0
    obtain ⟨h1, h2⟩ := Conc.unique hb hf hk (Conc.exec_of_seqExec hs) hx hts ht
    exact ⟨cS, hs, hts, h1, Conc.sameResults_of_views hts ht h2⟩

/-- … and it does not matter which sequential order: EVERY sequential order
that runs to the end gives the result of every concurrent execution. -/
theorem C39_serialisable_every_order (w : Conc.World) (prog : List (List Action)) (acc0 : Conc.Acc)
    (hc : Conc.inClass w prog = true) (hf : Conc.Fresh acc0)
    (c : Conc.Cfg) (hx : Conc.Exec w (Conc.Cfg.init acc0 prog) c) (ht : c.terminal)
    (cS : Conc.Cfg) (hs : Conc.SeqExec w (Conc.Cfg.init acc0 prog) cS) (hts : cS.terminal) :
    cS.acc = c.acc ∧ Conc.SameResults cS c := by
  obtain ⟨hb, hk⟩ := Conc.inClass_spec hc acc0
  obtain ⟨h1, h2⟩ := Conc.unique hb hf hk (Conc.exec_of_seqExec hs) hx hts ht
  exact ⟨h1, Conc.sameResults_of_views hts ht h2⟩

/-- Non-vacuity: a program of the class (two goroutines importing the circular
pair m2/m3, counters, a flag, `peach`, a second action), an INTERLEAVED
execution of it that runs to the end (round-robin schedule), the sequential run
finishes, and what is observed of both is the same: counters 6 and 2, flag 1,
modules m2 and m3 loaded once each, outputs {7,7} and {9}. -/
example : Conc.inClass Conc.harnessWorld Conc.Witness.prog = true ∧
    Conc.Exec Conc.harnessWorld Conc.Witness.init
      (Conc.runSched Conc.harnessWorld (Conc.Witness.roundRobin 40) Conc.Witness.init) ∧
    (Conc.runSched Conc.harnessWorld (Conc.Witness.roundRobin 40) Conc.Witness.init).isTerminal = true ∧
    (Conc.serialRun Conc.harnessWorld 100 Conc.zero Conc.Witness.prog).isSome = true ∧
    (Conc.observe (Conc.runSched Conc.harnessWorld (Conc.Witness.roundRobin 40) Conc.Witness.init)).1 = [6, 2, 0, 0] ∧
    (Conc.observe (Conc.runSched Conc.harnessWorld (Conc.Witness.roundRobin 40) Conc.Witness.init)).2.1 =
      [false, true, false, false] ∧
    (Conc.observe (Conc.runSched Conc.harnessWorld (Conc.Witness.roundRobin 40) Conc.Witness.init)).2.2.1 =
      [0, 0, 1, 1, 0, 0, 0] ∧
    (Conc.observe (Conc.runSched Conc.harnessWorld (Conc.Witness.roundRobin 40) Conc.Witness.init)).2.2.2 =
      [[(true, [some 7, some 7])], [(true, [some 9]), (true, [])]] :=
  ⟨by decide, Conc.runSched_sound _ _, by decide, by decide, by decide, by decide, by decide, by decide⟩

/-- The class cannot be widened to reads of `$m:x` of a module that is loaded
while the goroutines run: the program `use m0; put $m0:x` in two goroutines is
outside the class, it has a concurrent execution in which an evaluation returns
`$nil` (goroutine 1 finds m0 installed by goroutine 0, whose body has not run
yet), and the sequential run gives 100 to both.  This is the finding
`module-partial-visible`, which the model contains on purpose; the same program
is corpus op 1. -/
theorem C39_counterexample_partial_visible :
    Conc.inClass Conc.harnessWorld Conc.Witness.partialProg = false ∧
    (∃ c, Conc.Exec Conc.harnessWorld (Conc.Cfg.init Conc.zero Conc.Witness.partialProg) c ∧
      (Conc.observe c).2.2.2 = [[], [(true, [none])]]) ∧
    (Conc.serialRun Conc.harnessWorld 100 Conc.zero Conc.Witness.partialProg).map
        (fun c => (Conc.observe c).2.2.2) =
      some [[(true, [some 100])], [(true, [some 100])]] :=
  ⟨by decide,
   ⟨_, Conc.runSched_sound Conc.Witness.partialSched _, by decide⟩,
   by decide⟩

/-- The sequential run of a program of the class always finishes: every
evaluation terminates when it runs alone (the statements are finite,
`each`/`peach` run a fixed number of times, a module body runs at most once per
module of the finite universe); `Conc.fuelFor` steps per evaluation suffice.
(Outside the class it need not: a module body may import a module outside the
universe, whose body imports the next one, …) -/
theorem C39_sequential_run_terminates (w : Conc.World) (prog : List (List Action)) (acc0 : Conc.Acc)
    (hc : Conc.inClass w prog = true) :
    (Conc.serialRun w (Conc.fuelFor w prog) acc0 prog).isSome = true :=
  Conc.serialRun_total hc acc0

/-- Non-vacuity: the bound for the witness program in the world of the harness. -/
example : Conc.fuelFor Conc.harnessWorld Conc.Witness.prog = 144 := by decide

/-- PARTIAL: for the programs the harness generates, every sequential order of
ALL evaluations of an op leaves the same shared state (counters, flags, loaded
modules), namely the one the driver prints; the result of each evaluation does
not depend on the shared state at all (`runAction` takes only the goroutine's
own variables).  Hence "equal to the model's result" = "equal to what every
sequential order produces". -/
theorem C39_serial_order_irrelevant (gs : List (List Action)) (order : List Shared)
    (h : order.Perm (effects gs)) : applyAll order = (runAll gs).1 := by
  rw [runAll_effects]
  exact foldl_add_perm h Shared.zero

/-- Non-vacuity: three evaluations in two goroutines, applied in another order. -/
example : (effects Witness.prog).length = 3 ∧
    (applyAll (effects Witness.prog).reverse).cnt 0 = ((runAll Witness.prog).1).cnt 0 ∧
    ((runAll Witness.prog).1).cnt 0 = 6 := by
  refine ⟨by decide, ?_, by decide⟩
  rw [C39_serial_order_irrelevant Witness.prog _ (List.reverse_perm _)]

