/-
C15 — theorems about the REFERENCE semantics (lean/ElvModel/C15/Interp.lean).

The property itself ("elvish = reference on every core program") is
established by correspondence (translation validation, harness/c15), not by a
theorem about pkg/eval.  The theorems below show that the reference has the
laws language.md states — i.e. that it is the reference and not a transcript
of the implementation.  `C15_unfixed_stale_element_container` records a
defect of pkg/eval that the comparison exposed and that has since been fixed.
-/
import ElvProofs.C15.Basic
import ElvProofs.C15.Sem
import ElvProofs.C15.Compound
import ElvProofs.C15.Scope
import ElvProofs.C15.SoundStep
import ElvProofs.C15.Fuel
import ElvProofs.C15.TermStep
import ElvProofs.C15.StreamLaws
set_option linter.unusedSimpArgs false
open C15

/-! ### Small programs used as non-vacuity witnesses -/

namespace C15.Ex
def put (es : List Expr) : Form := .cmd (.lit "put") es [] []
def cap (f : Form) : Expr := .capture (.mk [.mk [f]])
def ch (fs : List Form) : Chunk := .mk (fs.map fun f => .mk [f])
def lam (fs : List Form) : Expr := .lambda [] none [] [] [] (ch fs)
def vset (x : String) (e : Expr) : Form := .assign .set [.mk x false []] [e]
def vvar (x : String) (e : Expr) : Form := .assign .var [.mk x false []] [e]
def text (cfg : Cfg) (fs : List Form) : String := (runProgram cfg 60 (ch fs)).text

/-- `var x = old; var f = { put $x }; set x = new; $f` -/
def closureSeesAssignment : List Form :=
  [vvar "x" (.lit "old"), vvar "f" (lam [put [.var "x"]]), vset "x" (.lit "new"), .cmd (.var "f") [] [] []]
/-- language.md "var": `var x = old; fn f { put $x }; var x = new; put $x; f` -/
def shadowing : List Form :=
  [vvar "x" (.lit "old"), .fnF "f" (lam [put [.var "x"]]), vvar "x" (.lit "new"), put [.var "x"], .cmd (.lit "f") [] [] []]
/-- language.md "try": `try { fail bad } finally { put final }` -/
def tryFinally : List Form :=
  [.tryF (ch [.cmd (.lit "fail") [.lit "bad"] [] []]) none none none (some (ch [put [.lit "final"]]))]
/-- `for x [a b c] { if (eq $x b) { break }; put $x } else { put none }; put done` -/
def forBreak : List Form :=
  [.forF "x" (.list [.lit "a", .lit "b", .lit "c"])
      (ch [.ifF [cap (.cmd (.lit "eq") [.var "x", .lit "b"] [] [])] [ch [.cmd (.lit "break") [] [] []]] none,
           put [.var "x"]])
      (some (ch [put [.lit "none"]])),
   put [.lit "done"]]
/-- language.md "fn": `fn f { { put a; return }; put b }; f; put c` -/
def returnFallsThroughLambda : List Form :=
  [.fnF "f" (lam [.cmd (lam [put [.lit "a"], .cmd (.lit "return") [] [] []]) [] [] [], put [.lit "b"]]),
   .cmd (.lit "f") [] [] [], put [.lit "c"]]
/-- language.md "and": `and $false (fail foo)` -/
def andShortCircuit : List Form :=
  [.logic .and [.var "false", cap (.cmd (.lit "fail") [.lit "foo"] [] [])]]
/-- language.md "Braced list": `put {a b}-{1 2}` -/
def outerProduct : List Form :=
  [put [.compound [.braced [.lit "a", .lit "b"], .lit "-", .braced [.lit "1", .lit "2"]]]]
/-- `var l = [x y z]; set l[0] l[1] = a b; put $l` -/
def twoElementsOfOneVariable : List Form :=
  [vvar "l" (.list [.lit "x", .lit "y", .lit "z"]),
   .assign .set [.mk "l" false [.lit "0"], .mk "l" false [.lit "1"]] [.lit "a", .lit "b"],
   put [.var "l"]]
end C15.Ex

/-! ### Determinism and fuel -/

/-- Evaluation is a function of fuel, request and state. -/
theorem C15_deterministic (cfg : Cfg) (n : Nat) (c : Call) (s : St) (r₁ r₂ : Res (List Value))
    (h₁ : run cfg n c s = r₁) (h₂ : run cfg n c s = r₂) : r₁ = r₂ := h₁ ▸ h₂

/-- More fuel never changes a finished result. -/
theorem C15_fuel_monotone (cfg : Cfg) {n m : Nat} (c : Call) (s : St) (r : Res (List Value))
    (h : run cfg n c s = r) (hfin : r ≠ .oof) (hnm : n ≤ m) : run cfg m c s = r := by
  have := run_mono cfg hnm c s
  rw [h] at this
  exact Res.eq_of_le this hfin

/-- Program level: the outcome (outputs + exception) does not depend on the
fuel once the program has finished. -/
theorem C15_program_fuel_independent (cfg : Cfg) {n m : Nat} (p : Chunk) (outs : List Value)
    (e : Option Exc) (h : runProgram cfg n p = .done outs e) (hnm : n ≤ m) :
    runProgram cfg m p = .done outs e := by
  unfold runProgram at h ⊢
  cases hr : run cfg n (.pipes p.pipes) initSt with
  | oof => rw [hr] at h; cases h
  | unsupported w => rw [hr] at h; cases h
  | ok a s =>
    rw [C15_fuel_monotone cfg _ _ _ hr (by simp) hnm]; rw [hr] at h; exact h
  | exc x s =>
    rw [C15_fuel_monotone cfg _ _ _ hr (by simp) hnm]; rw [hr] at h; exact h

/-- Two runs of a program that both finish agree, whatever their fuel: the
reference assigns at most one outcome to a program. -/
theorem C15_outcome_unique (cfg : Cfg) (n m : Nat) (p : Chunk) (o₁ o₂ : List Value) (e₁ e₂ : Option Exc)
    (h₁ : runProgram cfg n p = .done o₁ e₁) (h₂ : runProgram cfg m p = .done o₂ e₂) :
    o₁ = o₂ ∧ e₁ = e₂ := by
  rcases Nat.le_total n m with h | h
  · have := C15_program_fuel_independent cfg p o₁ e₁ h₁ h
    rw [this] at h₂; cases h₂; exact ⟨rfl, rfl⟩
  · have := C15_program_fuel_independent cfg p o₂ e₂ h₂ h
    rw [this] at h₁; cases h₁; exact ⟨rfl, rfl⟩

/-- Fuel stability, sharpened: an evaluation that finishes with SOME fuel has a
least sufficient fuel `n₀` — with less it is out of fuel, with `n₀` or more the
result is always the one obtained with `n₀`. -/
theorem C15_least_fuel (cfg : Cfg) (c : Call) (s : St) (h : ∃ n, run cfg n c s ≠ .oof) :
    ∃ n₀, run cfg n₀ c s ≠ .oof ∧ (∀ m, m < n₀ → run cfg m c s = .oof) ∧
      (∀ m, n₀ ≤ m → run cfg m c s = run cfg n₀ c s) :=
  run_least_fuel cfg c s h

/-- Fuel accounting for loops: fuel bounds the NESTING depth of evaluation and
each iteration is nested in the previous one, so a `for` loop costs one level
per element on top of what one run of its body needs — if (under a loop
invariant `I`) a run of the body finishes with fuel `b`, the loop over `items`
finishes with fuel `b + |items| + 1`. -/
theorem C15_for_fuel_accounting (cfg : Cfg) (a : Nat) (body : Chunk) (els : Option Chunk) (I : St → Prop)
    (b : Nat)
    (hbody : ∀ v s, I s →
      match loopReact (run cfg b (.body body [] s.scope false) { s with heap := s.heap.set a v }) with
      | .next s' => I s'
      | .oof => False
      | _ => True)
    (hels : ∀ c s, els = some c → I s → run cfg b (.body c [] s.scope false) s ≠ .oof)
    (items : List Value) (it : Bool) (s : St) (hI : I s) :
    run cfg (b + items.length + 1) (.forLoop a items body els it) s ≠ .oof :=
  forLoop_fuel cfg a body els I b hbody hels items it s hI

/-- Fuel sufficiency for a syntactic class.  `tChunk p`: no `while`; no function
values (no lambda, no `fn`; command heads are literal names other than `each` /
`keep-if`, and no declared name ends in `~`, so every command is a builtin);
`for` only over a literal list of string literals.  `cSz p` is a size of the
AST (every node counts at most 4, a `for` additionally the number of its
items).  Such a program never runs out of fuel when given more than `cSz p`:
it finishes, or leaves the modelled fragment.  (Outside the class no bound in
the size of the program exists — see the two programs below and notes/C15.md.) -/
theorem C15_fuel_sufficient (cfg : Cfg) (p : Chunk) (n : Nat) (hp : tChunk p = true) (hn : cSz p < n) :
    runProgram cfg n p ≠ .oof := by
  have h := program_total cfg p hp n hn
  unfold runProgram
  cases hr : run cfg n (.pipes p.pipes) initSt with
  | ok a s => simp
  | exc e s => simp
  | oof => rw [hr] at h; exact h.elim
  | unsupported w => simp

namespace C15.Ex
/-- `var f = { }; set f = { $f }; $f` — no `while`, no `fn`, no syntactic recursion: diverges -/
def knot : List Form :=
  [vvar "f" (lam []), vset "f" (lam [.cmd (.var "f") [] [] []]), .cmd (.var "f") [] [] []]
/-- `var l = [a a]`, three times `set l = [$@l $@l]`, `for x $l { }`: 16 iterations from 6 commands
(`k` doublings: 2^(k+1) iterations, one level of fuel each) -/
def doubling : List Form :=
  [vvar "l" (.list [.lit "a", .lit "a"])] ++
  List.replicate 3 (vset "l" (.list [.explode "l", .explode "l"])) ++
  [.forF "x" (.var "l") (ch []) none, put [.lit "done"]]
end C15.Ex

-- non-vacuity: a program of the class (for / if / break / captures) and its size; programs outside the class
example : tChunk (Ex.ch Ex.forBreak) = true := by rfl
example : cSz (Ex.ch Ex.forBreak) = 50 := by rfl
example : Ex.text {} Ex.forBreak = "ok|'a' 'done'" := by rfl
example : tChunk (Ex.ch Ex.closureSeesAssignment) = false := by rfl
example : tChunk (Ex.ch Ex.knot) = false := by rfl
example : (runProgram {} 100 (Ex.ch Ex.knot)).text = "FUEL" := by decide +kernel
example : tChunk (Ex.ch Ex.doubling) = false := by rfl
example : (runProgram {} 24 (Ex.ch Ex.doubling)).text = "FUEL" := by decide +kernel
example : (runProgram {} 25 (Ex.ch Ex.doubling)).text = "ok|'done'" := by decide +kernel

-- non-vacuity: a terminating evaluation; a loop over three items with an empty body (b = 2)
example : ∃ n, run {} n (.pipes (Ex.ch Ex.closureSeesAssignment).pipes) initSt ≠ .oof :=
  ⟨60, Res.ne_oof_of_finished (by rfl)⟩
example : run {} (2 + 3 + 1) (.forLoop 0 [.nil, .nil, .nil] (.mk []) none false) initSt ≠ .oof :=
  C15_for_fuel_accounting {} 0 (.mk []) none (fun _ => True) 2
    (by intro v s _; rw [body_eq, Chunk.pipes, pipes_nil_eq]; trivial)
    (by intro c s h; cases h) [.nil, .nil, .nil] false initSt trivial

-- non-vacuity: a program that finishes with fuel 60 and one that does not with fuel 3
example : Ex.text {} Ex.closureSeesAssignment = "ok|'new'" := by rfl
example : (runProgram {} 3 (Ex.ch Ex.closureSeesAssignment)).text = "FUEL" := by rfl

/-! ### `try`: the finally-block runs exactly once on every exit path -/

/-- `try … finally { fb }` = the protected part (try-, catch- and else-block,
`tryProtected`, which does not mention `fb`), then ONE evaluation of `fb` from
the state the protected part left, whichever way it ended (`pending` = `ok` or
the exception to rethrow); an exception of `fb` replaces the pending one,
otherwise the pending outcome takes effect afterwards (language.md "try", 4–5). -/
theorem C15_finally_exactly_once (cfg : Cfg) (n : Nat) (body : Chunk) (cv : Option String)
    (cb eb : Option Chunk) (fb : Chunk) (s : St) :
    run cfg (n + 1) (.form (.tryF body cv cb eb (some fb))) s =
      match den (run cfg n) (tryProtected body cv cb eb) s with
      | .ok pending s1 => finallyThen pending (run cfg n (.body fb [] s1.scope false) s1)
      | .exc e s1 => .exc e s1
      | .oof => .oof
      | .unsupported w => .unsupported w :=
  try_finally_eq cfg n body cv cb eb fb s

/-- …and no exit path of the protected part bypasses the finally-block: the
protected part never propagates an exception (the second branch above is dead). -/
theorem C15_finally_not_bypassed (cfg : Cfg) (n : Nat) (body : Chunk) (cv : Option String)
    (cb eb : Option Chunk) (s : St) (e : Exc) (s' : St) :
    den (run cfg n) (tryProtected body cv cb eb) s ≠ .exc e s' :=
  tryProtected_no_exc body cv cb eb s e s'

/-- A finally-block that throws replaces the pending exception; one that
succeeds lets it through ("the original exception is lost" / "rethrown"). -/
theorem C15_finally_outcome (pending : Except Exc Unit) (r : Res (List Value)) :
    (∀ e s2, r = .exc e s2 → finallyThen pending r = .exc e s2) ∧
    (∀ vs s2 e, r = .ok vs s2 → pending = .error e → finallyThen pending r = .exc e s2) ∧
    (∀ vs s2 u, r = .ok vs s2 → pending = .ok u → finallyThen pending r = .ok [] s2) := by
  refine ⟨?_, ?_, ?_⟩ <;> intros <;> subst_vars <;> rfl

example : Ex.text {} Ex.tryFinally = "?(fail 'bad')|'final'" := by rfl

/-! ### Flow commands: consumed by the nearest loop / `fn`, escape lambdas -/

/-- One iteration of `for`: the body's `break` ends the loop normally (no
further element, no else-block), `continue` and normal completion go on with
the next element, any other exception leaves the loop. -/
theorem C15_for_consumes_break_continue (cfg : Cfg) (n a : Nat) (v : Value) (vs : List Value)
    (body : Chunk) (els : Option Chunk) (it : Bool) (s : St) :
    run cfg (n + 1) (.forLoop a (v :: vs) body els it) s =
      match loopReact (run cfg n (.body body [] s.scope false) { s with heap := s.heap.set a v }) with
      | .next s' => run cfg n (.forLoop a vs body els true) s'
      | .stop s' => .ok [] s'
      | .throw e s' => .exc e s'
      | .oof => .oof
      | .unsupported w => .unsupported w :=
  forLoop_cons_eq cfg n a v vs body els it s

/-- The same for `while`. -/
theorem C15_while_consumes_break_continue (cfg : Cfg) (n : Nat) (cond : Expr) (body : Chunk)
    (els : Option Chunk) (it : Bool) (s s1 : St) (vs : List Value)
    (hc : run cfg n (.expr cond) s = .ok vs s1) (ht : allTrue vs = true) :
    run cfg (n + 1) (.whileLoop cond body els it) s =
      match loopReact (run cfg n (.body body [] s1.scope false) s1) with
      | .next s' => run cfg n (.whileLoop cond body els true) s'
      | .stop s' => .ok [] s'
      | .throw e s' => .exc e s'
      | .oof => .oof
      | .unsupported w => .unsupported w :=
  whileLoop_true_eq cfg n cond body els it s s1 vs hc ht

/-- What a loop does with the outcome of its body, spelled out. -/
theorem C15_loopReact_cases (e : Exc) (s : St) :
    (e.kind = "break" → loopReact (.exc e s) = .stop s) ∧
    (e.kind = "continue" → loopReact (.exc e s) = .next s) ∧
    (e.kind ≠ "break" → e.kind ≠ "continue" → loopReact (.exc e s) = .throw e s) := by
  refine ⟨?_, ?_, ?_⟩
  · intro h; simp [loopReact, h]
  · intro h; simp [loopReact, h]
  · intro h1 h2; simp [loopReact, h1, h2]

/-- A function defined with `fn` consumes `return`; an ordinary lambda lets it
(and `break`, `continue`, every exception) through — after restoring the
caller's scope and running the `tmp` restores. -/
theorem C15_fn_consumes_return_lambda_does_not (cfg : Cfg) (n : Nat) (c : Chunk) (frame : Frame)
    (env : Scope) (s t : St) (e : Exc)
    (h : run cfg n (.pipes c.pipes) (enter frame env s) = .exc e t) :
    (e.kind = "return" → run cfg (n + 1) (.body c frame env true) s = .ok [] (leave s t)) ∧
    (run cfg (n + 1) (.body c frame env false) s = .exc e (leave s t)) ∧
    (e.kind ≠ "return" → run cfg (n + 1) (.body c frame env true) s = .exc e (leave s t)) := by
  refine ⟨?_, ?_, ?_⟩
  · intro hk; rw [body_eq, h]; simp [hk]
  · rw [body_eq, h]; simp
  · intro hk; rw [body_eq, h]; simp [hk]

example : Ex.text {} Ex.forBreak = "ok|'a' 'done'" := by rfl
example : Ex.text {} Ex.returnFallsThroughLambda = "ok|'a' 'c'" := by rfl

/-! ### `and`, `or`, `coalesce`: short-circuit laws -/

/-- If an argument yields a value at which the command stops (`and`: booleanly
false, `or`: booleanly true, `coalesce`: non-nil), that value is output and the
remaining arguments `es` are NOT evaluated: the result does not depend on them. -/
theorem C15_logic_short_circuit (cfg : Cfg) (n : Nat) (k : LKind) (e : Expr) (es : List Expr)
    (last v : Value) (vs : List Value) (s s1 : St)
    (he : run cfg n (.expr e) s = .ok vs s1) (hv : vs.find? (logicStop k) = some v) :
    run cfg (n + 1) (.logicArgs k (e :: es) last) s = .ok [] { s1 with out := s1.out ++ [v] } :=
  logic_stop_eq cfg n k e es last v vs s s1 he hv

/-- Without arguments (left): `and` outputs `$true`, `or` `$false`, `coalesce` `$nil`
— the value the command was started with. -/
theorem C15_logic_no_more_arguments (cfg : Cfg) (n : Nat) (k : LKind) (last : Value) (s : St) :
    run cfg (n + 1) (.logicArgs k [] last) s = .ok [] { s with out := s.out ++ [last] } :=
  logic_none_eq cfg n k last s

/-- The stopping conditions are the ones of language.md. -/
theorem C15_logic_stop_conditions (v : Value) :
    (logicStop .and v = !truthy v) ∧ (logicStop .or v = truthy v) ∧
    (logicStop .coalesce v = true ↔ v ≠ .nil) := by
  refine ⟨rfl, rfl, ?_⟩
  cases v <;> simp [logicStop]

example : Ex.text {} Ex.andShortCircuit = "ok|$false" := by rfl

/-! ### Compounding: number of values = product -/

/-- A compound expression whose parts evaluate to `p :: ps` has, when the
concatenations succeed, exactly `|p| * |ps₁| * …` values. -/
theorem C15_compound_length (p : List Value) (ps : List (List Value)) (xs : List Value)
    (h : compoundAll (p :: ps) = .ok xs) : xs.length = lenProd (p :: ps) :=
  compoundFrom_length ps p xs h

/-- The interpreter computes exactly this fold: a compound expression combines
(`outer`) the values so far with the values of the next part, part by part
(`compoundAll (p :: ps)` is that fold over already evaluated parts). -/
theorem C15_compound_step (cfg : Cfg) (n : Nat) (acc : List Value) (e : Expr) (es : List Expr) (s : St) :
    run cfg (n + 1) (.compoundFrom acc (e :: es)) s =
      (run cfg n (.expr e) s).bind (fun us s1 =>
        match outer acc us with
        | .ok acc' => run cfg n (.compoundFrom acc' es) s1
        | .error x => .exc x s1) ∧
    run cfg (n + 1) (.compoundFrom acc []) s = .ok acc s :=
  ⟨compoundFrom_cons_eq cfg n acc e es s, compoundFrom_nil_eq cfg n acc s⟩

/-- In particular a part without values makes the whole expression evaluate to no value. -/
theorem C15_compound_empty_part (p : List Value) (ps : List (List Value)) (xs : List Value)
    (h : compoundAll (p :: ps) = .ok xs) (hz : [] ∈ (p :: ps)) : xs = [] := by
  have hl := C15_compound_length p ps xs h
  have key : ∀ l : List (List Value), [] ∈ l → lenProd l = 0 := by
    intro l
    induction l with
    | nil => intro hm; cases hm
    | cons q qs ih =>
      intro hm
      cases hm with
      | head => simp [lenProd]
      | tail _ h' => simp [lenProd, ih h']
  have := key _ hz
  rw [this] at hl
  exact List.length_eq_zero_iff.mp hl

example : Ex.text {} Ex.outerProduct = "ok|'a-1' 'a-2' 'b-1' 'b-2'" := by rfl

/-! ### Closures: the upvalue law -/

/-- A function literal closes over the scope chain — names bound to storage
locations, not to values. -/
theorem C15_lambda_closes_over_locations (cfg : Cfg) (n : Nat) (pos : List String) (rest : Option String)
    (post : List String) (body : Chunk) (s : St) :
    run cfg (n + 2) (.expr (.lambda pos rest post [] [] body)) s =
      .ok [.closure s.nextId pos rest post [] [] body s.scope false] { s with nextId := s.nextId + 1 } :=
  lambda_eq cfg n pos rest post body s

/-- Upvalue law: called in ANY later state `s`, the function `{ put $x }`
created in a scope `env` where `x` names location `a` outputs what location
`a` holds in `s` — it sees every assignment made since it was created. -/
theorem C15_closure_sees_later_assignments (cfg : Cfg) (n id : Nat) (x : String) (env : Scope) (a : Nat)
    (v : Value) (s : St) (hx : env.find x = some a) (hv : s.heap[a]? = some v)
    (hput : env.find "put~" = none) :
    run cfg (n + 8) (.call (.closure id [] none [] [] [] (.mk [.mk [.cmd (.lit "put") [.var x] [] []]]) env false)
        [] [] []) s = .ok [] { s with out := s.out ++ [v] } :=
  upvalue_law cfg n id x env a v s hx hv hput

example : Ex.text {} Ex.closureSeesAssignment = "ok|'new'" := by rfl
example : Ex.text {} Ex.shadowing = "ok|'new' 'old'" := by rfl

/-! ### Static scope soundness -/

/-- A program the resolver accepts never reaches "variable not found" at run
time (language.md "Scoping rule": "Elvish resolves all variables in a code
chunk before starting to execute any of it"). -/
def C15_scope_sound_full : Prop :=
  ∀ (cfg : Cfg) (n : Nat) (p : Chunk) (outs : List Value) (e : Exc),
    accepts p = true → runProgram cfg n p = .done outs (some e) → e.kind ≠ "variable-not-found"

/-- Proof: an invariant preserved by every request of the big-step evaluator
(`Pre`/`Post` in `ElvProofs/C15/Spec.lean`, `step_sound`, `run_sound`):
the dynamic scope chain has, frame by frame, exactly the names of the
resolver's static scope (`Agree`); every value in a variable, on a port, saved
by `tmp`, passed as argument or in flight is well-formed (`VWf`: each function
value has a default for every option and its body resolves against the names
of the scope chain it closes over; no exception value is of class
"variable-not-found", so `fail $e` cannot re-raise one); after a command the
scope chain is the one the resolver computed (`rForm … = some sc'`), and where
declarations are not allowed it is unchanged, also when an exception is thrown. -/
theorem C15_scope_sound : C15_scope_sound_full := by
  intro cfg n p outs e hacc hrun
  have h := program_sound cfg n p hacc
  unfold runProgram at hrun
  cases hr : run cfg n (.pipes p.pipes) initSt with
  | ok a s => rw [hr] at hrun; cases hrun
  | exc e' s =>
    rw [hr] at hrun h
    cases hrun
    exact h.2.1.1
  | oof => rw [hr] at hrun; cases hrun
  | unsupported w => rw [hr] at hrun; cases hrun

/-- The invariant also gives: the final state of an accepted program holds only
well-formed values and, when the program finishes normally, its scope chain is
the one the resolver computed for the end of the program. -/
theorem C15_scope_invariant_at_exit (cfg : Cfg) (n : Nat) (p : Chunk) (sc' : SScope) (vs : List Value)
    (s : St) (hacc : rPipes initSScope true p.pipes = some sc')
    (hrun : run cfg n (.pipes p.pipes) initSt = .ok vs s) : StWf s ∧ Agree s.scope sc' := by
  have h := program_sound cfg n p (by unfold accepts; rw [hacc]; rfl)
  rw [hrun] at h
  exact ⟨h.1, h.2.2.2 vs rfl sc' hacc⟩

namespace C15.Ex
/-- `var x = a; fn f {|&o=$x| put $o $x }; var x = b; f; f &o=c; del x; fail $x` is rejected;
without the last command it is accepted and runs. -/
def scopeProg : List Form :=
  [vvar "x" (.lit "a"),
   .fnF "f" (.lambda [] none [] ["o"] [.var "x"] (ch [put [.var "o", .var "x"]])),
   vvar "x" (.lit "b"),
   .cmd (.lit "f") [] [] [],
   .cmd (.lit "f") [] ["o"] [.lit "c"],
   .del [.mk "x" false []]]
/-- an accepted program that ends with another exception -/
def scopeProgFail : List Form := scopeProg ++ [.cmd (.lit "fail") [.lit "boom"] [] []]
/-- not an AST of any source text: option `o` without default value; such a
function would not bind `o` when called (the resolver rejects it) -/
def optionWithoutDefault : List Form :=
  [.cmd (.lambda [] none [] ["o"] [] (ch [put [.var "o"]])) [] [] []]
end C15.Ex

-- non-vacuity: accepted programs that run (one to the end, one into an exception of another class);
-- ill-scoped programs are rejected; the option/default check of the resolver is needed
example : accepts (Ex.ch Ex.scopeProg) = true := by rfl
example : Ex.text {} Ex.scopeProg = "ok|'a' 'a' 'c' 'a'" := by rfl
example : accepts (Ex.ch Ex.scopeProgFail) = true := by rfl
example : Ex.text {} Ex.scopeProgFail = "?(fail 'boom')|'a' 'a' 'c' 'a'" := by rfl
example : accepts (Ex.ch (Ex.scopeProg ++ [Ex.put [.var "x"]])) = false := by rfl
example : accepts (Ex.ch Ex.optionWithoutDefault) = false := by rfl
example : Ex.text {} Ex.optionWithoutDefault = "?(variable-not-found)|" := by rfl

/-- Local form of the agreement used by the invariant: wherever the dynamic
scope chain has the names the resolver assumed (`sscopeOf s.scope = sc`), a
variable use the resolver accepted finds its variable; and declaring /
deleting a variable keeps the two in agreement. -/
theorem C15_scope_agreement_local (cfg : Cfg) (n : Nat) (x : String) (sc : SScope) (s : St)
    (hs : sscopeOf s.scope = sc) (hr : rExpr sc (.var x) = true) :
    (∀ e s', run cfg (n + 1) (.expr (.var x)) s = .exc e s' → False) ∧
    (∀ (f : Frame) (rest : Scope) (y : String) (a : Nat),
      sscopeOf (((y, a) :: f.filter (fun p => p.1 != y)) :: rest) = (sscopeOf (f :: rest)).declare y) ∧
    (∀ (f : Frame) (rest : Scope) (y : String), (f.map Prod.fst).contains y = true →
      (sscopeOf (f :: rest)).undeclare y = some (sscopeOf (f.filter (fun p => p.1 != y) :: rest))) := by
  refine ⟨?_, sscopeOf_declare, sscopeOf_undeclare⟩
  intro e s' h
  rw [var_use_eq] at h
  have hfound : (s.scope.find x).isSome = true := by
    rw [find_isSome_eq_has, hs]; simpa [rExpr] using hr
  cases hf : s.scope.find x with
  | none => rw [hf] at hfound; cases hfound
  | some a =>
    rw [hf] at h
    cases hh : s.heap[a]? with
    | none => simp [hh] at h
    | some v => simp [hh] at h

-- non-vacuity: the top-level scope after `var x = …`
example : rExpr [["x"], ["true", "false", "nil", "ok"]] (.var "x") = true := by rfl
example : accepts (Ex.ch Ex.shadowing) = true := by rfl
example : accepts (Ex.ch [Ex.put [.var "nope"]]) = false := by rfl

/-! ### A defect the reference exposed (fixed in pkg/eval by commit 798ebe2) -/

/-- `var l = [x y z]; set l[0] l[1] = a b; put $l`: the reference assigns both
elements (`[a b z]`).  pkg/eval before commit 798ebe2 kept, for an lvalue with
indices, the container read when the lvalue was evaluated (`staleElem`), and
lost the first assignment (`[x b z]`).  The program and
`var l = [x y z]; set l[0] = (set l = [p q r]; put a); put $l` are the first
two corpus programs: the check fails again if the defect returns. -/
theorem C15_unfixed_stale_element_container :
    Ex.text { staleElem := false } Ex.twoElementsOfOneVariable = "ok|['a' 'b' 'z']" ∧
    Ex.text { staleElem := true } Ex.twoElementsOfOneVariable = "ok|['x' 'b' 'z']" := by
  constructor <;> rfl

/-! ### Pure value-stream / container builtins (documentation of `compact`, `dissoc`, `make-map`, `assoc`, `conj`)

Added after the seeded change C15-compact-drops-leading-nil: the stream builtin
`compact` was outside the reference.  `compact` is now in it, with the laws its
documentation states ("Replaces consecutive runs of equal values with a single
copy"). -/

/-- The `compact` COMMAND of the reference: it takes everything from the input
port and writes `compact` of it to the output — nothing else changes. -/
theorem C15_compact_command (s : St) :
    callBuiltin "compact" [] [] [] s = .ret () { s with inp := [], out := s.out ++ compact s.inp } ∧
    (∀ vs, callBuiltin "compact" [.list vs] [] [] s = .ret () { s with out := s.out ++ compact vs }) :=
  ⟨rfl, fun _ => rfl⟩

/-- `compact` removes EXACTLY the consecutive duplicates: (1) the output has no
two equal neighbours; (2) it is a subsequence of the input; (3) an input
without equal neighbours is output unchanged; (4) compacting again changes
nothing; (5) the first value is always kept — whatever it is (`$nil` included:
the seeded change dropped it); (6) nothing in, nothing out and only then;
(7) step by step: the second value is dropped iff it equals the first. -/
theorem C15_compact_exactly_consecutive_duplicates (vs : List Value) :
    NoAdj (compact vs) = true ∧
    List.Sublist (compact vs) vs ∧
    (NoAdj vs = true → compact vs = vs) ∧
    compact (compact vs) = compact vs ∧
    (∀ v rest, vs = v :: rest → (compact vs).head? = some v) ∧
    (compact vs = [] ↔ vs = []) ∧
    (∀ v w rest, vs = v :: w :: rest →
      compact vs = if veq v w then compact (v :: rest) else v :: compact (w :: rest)) :=
  ⟨compact_noAdj vs, compact_sublist vs, compact_of_noAdj, compact_idem vs,
   fun v rest h => by subst h; exact compact_head v rest, compact_eq_nil,
   fun v w rest h => by subst h; exact compact_cons_cons v w rest⟩

-- non-vacuity: the witness of the seeded change (`put $nil $nil a | compact`), runs at both ends, no runs
example : compact [.nil, .nil, .str "a"] = [.nil, .str "a"] := by rfl
example : compact [.str "a", .str "a", .str "b", .str "b", .str "c"] = [.str "a", .str "b", .str "c"] := by rfl
example : compact [.str "a", .str "b", .str "a"] = [.str "a", .str "b", .str "a"] := by rfl
example : compact [.bool false, .list [], .list [], .map [], .nil, .nil] = [.bool false, .list [], .map [], .nil] := by rfl
example : NoAdj [.str "a", .str "b", .str "a"] = true := by rfl
example : Ex.text {} [.cmd (.lit "put") [.var "nil", .var "nil", .lit "a"] [] []] = "ok|$nil $nil 'a'" := by rfl
example : (runProgram {} 60 (.mk [.mk [.cmd (.lit "put") [.var "nil", .var "nil", .lit "a"] [] [], .cmd (.lit "compact") [] [] []]])).text
    = "ok|$nil 'a'" := by rfl

/-- `dissoc`: "If `$map` does not contain `$k` as a key, the same map is returned." -/
theorem C15_dissoc_absent_key (m : List (Value × Value)) (k : Value) (h : mapGet m k = none) :
    dissocB (.map m) k = .vals [.map m] := by
  show PRes.vals [.map (mapDel m k)] = _
  rw [mapDel_absent h]

example : mapGet [(.str "foo", .str "bar")] (.str "k") = none := by rfl

/-- `make-map`: "If the same key appears multiple times, the last value is used"
(for a key that equals itself — every value of the exact fragment does). -/
theorem C15_make_map_last_wins (k v1 v2 : Value) (hk : veq k k = true) :
    makeMap [.list [k, v1], .list [k, v2]] = .vals [.map [(k, v2)]] := by
  simp [makeMap, makeMapFrom, makeMapPair, mapPut, mapDel, hk]

example : veq (.str "k") (.str "k") = true := by rfl
example : makeMap [.list [.nil, .str "a"], .str "kv"] = .vals [.map [(.nil, .str "a"), (.str "k", .str "v")]] := by rfl

/-- `assoc` on a map: afterwards the key is there (`has-key`) with the new
value, whatever was there before; `conj`: "The output is the same as
`[$@list $more...]`". -/
theorem C15_assoc_then_lookup (m : List (Value × Value)) (k v : Value) (hk : veq k k = true) :
    assocB (.map m) k v = .vals [.map (mapPut m k v)] ∧
    hasKey (.map (mapPut m k v)) k = .vals [.bool true] ∧
    indexValue (.map (mapPut m k v)) k = .ok v ∧
    (∀ vs more, conjB (.list vs) more = .vals [.list (vs ++ more)]) := by
  have hget : mapGet (mapPut m k v) k = some v := by
    unfold mapGet mapPut mapDel
    rw [List.find?_append]
    have : List.find? (fun kv => veq kv.1 k) (List.filter (fun kv => !veq kv.1 k) m) = none := by
      rw [List.find?_eq_none]
      intro kv hkv
      have := (List.mem_filter.mp hkv).2
      simpa using this
    rw [this]
    simp [hk]
  refine ⟨rfl, ?_, ?_, fun _ _ => rfl⟩
  · show PRes.vals [.bool (mapGet (mapPut m k v) k).isSome] = _
    rw [hget]; rfl
  · show (match mapGet (mapPut m k v) k with
      | some v => Except.ok v
      | none => Except.error Exc.noSuchKey) = _
    rw [hget]

example : assocB (.map [(.str "k", .str "v")]) (.str "k") .nil = .vals [.map [(.str "k", .nil)]] := by rfl
