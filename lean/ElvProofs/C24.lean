/-
C24 — the history store behaves like a sequential log with unique sequence
numbers.  Model: ElvModel/C24 (bbolt bucket = sorted association list; cmd.go
and dir.go function by function).  Spec: ElvModel/C24/Spec.lean (a log of
(number, text) with a counter).  `S l d` is the store whose `cmd` bucket holds
log `l` (`conc l`: 8-byte big-endian keys) and whose `dir` bucket is `d`.

The hypothesis `counter + (number of operations) < 2^63` says bbolt's uint64
sequence does not leave the range of Go's `int`.
-/
import ElvProofs.C24.Log
import ElvProofs.C24.DirOps
open Go C24 C24.Spec

/-! ### keys -/

/-- `marshalSeq` is monotone (big-endian key order = numeric order) and `unmarshalSeq` inverts it. -/
theorem C24_key_order (a b : Nat) (ha : a < two64) (hb : b < two64) :
    bytesLt (marshalSeq a) (marshalSeq b) = decide (a < b) ∧ unmarshalSeq (marshalSeq a) = .ok a :=
  ⟨bytesLt_marshalSeq a b ha hb, unmarshalSeq_marshalSeq a ha⟩

example : bytesLt (marshalSeq 255) (marshalSeq 256) = true ∧ bytesLt (marshalSeq 256) (marshalSeq 255) = false := by
  decide

/-! ### refinement -/

/-- Every command-history operation, run on the store that holds a well-formed
log, returns what the log operation returns and leaves the store that holds the
updated log (for every argument, negative ones included: `toU64`). -/
theorem C24_step_refines (l : Log) (d : Bucket) (op : Op) (h : l.WF) (hc : l.counter + 1 < two63) :
    C24.step (S l d) op = (S (Spec.step l op).1 d, (Spec.step l op).2) := by
  have hc' : l.counter < two63 := by omega
  cases op with
  | add t => simp only [C24.step, Spec.step, addCmd_conc l d t h hc]
  | del n => simp only [C24.step, Spec.step, delCmd_conc l d n h hc']
  | get n => simp only [C24.step, Spec.step, cmd_conc l d n h hc']
  | list f u => simp only [C24.step, Spec.step, cmdsWithSeq_conc l d f u h hc']
  | next f p => simp only [C24.step, Spec.step, nextCmd_conc l d f p h hc']
  | prev u p => simp only [C24.step, Spec.step, prevCmd_conc l d u p h hc']
  | nseq => simp only [C24.step, Spec.step, nextCmdSeq_conc l d hc]

/-- …and so does every history. -/
theorem C24_history_refines : ∀ (ops : List Op) (l : Log) (d : Bucket), l.WF → l.counter + ops.length < two63 →
    C24.run (S l d) ops = (S (Spec.run l ops).1 d, (Spec.run l ops).2)
  | [], _, _, _, _ => rfl
  | op :: ops, l, d, h, hc => by
    have hs := Log.counter_step l op
    simp only [List.length_cons] at hc
    simp only [C24.run, Spec.run, C24_step_refines l d op h (by omega)]
    rw [C24_history_refines ops _ d (Log.WF_step h op) (by omega)]

/-- On a fresh database: results of any history = results of the sequential log,
and the bucket left behind is the representation of the final log; the
abstraction function reads that log back. -/
theorem C24_fresh_history (ops : List Op) (hlen : ops.length < two63) :
    (C24.run Store.fresh ops).2 = (Spec.run Log.empty ops).2 ∧
    (C24.run Store.fresh ops).1.cmd = conc (Spec.run Log.empty ops).1 ∧
    absLog (C24.run Store.fresh ops).1.cmd = (Spec.run Log.empty ops).1 ∧
    (Spec.run Log.empty ops).1.WF := by
  have href := C24_history_refines ops Log.empty Bucket.empty Log.WF_empty (by simpa [Log.empty] using hlen)
  have hfresh : Store.fresh = S Log.empty Bucket.empty := rfl
  rw [hfresh, href]
  have hwf := Log.WF_run ops Log.WF_empty
  have hcnt := (Log.counter_run ops Log.empty).2
  refine ⟨rfl, rfl, ?_, hwf⟩
  apply absLog_conc
  apply wf_bound hwf
  have : Log.empty.counter = 0 := rfl
  omega

set_option maxRecDepth 4000 in
example : (C24.run Store.fresh [.add [1], .add [1, 2], .del 1, .add [], .prev (-1) [1], .list 0 (-1), .nseq]).2 =
    [.seq (.ok 1), .seq (.ok 2), .unit, .seq (.ok 3), .cmd (.ok ⟨[1, 2], 2⟩),
     .cmds (.ok [⟨[1, 2], 2⟩, ⟨[], 3⟩]), .nseq 4] := by decide

/-! ### sequence numbers -/

/-- The numbers returned by the `add`s of any history — with any deletions,
searches and listings in between — strictly increase, all lie above the counter
the history started from (hence above every number in the initial log, deleted
or not), and the next one to be issued lies above all of them: never reused. -/
theorem C24_seq_strictly_increasing_never_reused (ops : List Op) (l : Log) (d : Bucket) (h : l.WF)
    (hc : l.counter + ops.length + 1 < two63) :
    let outs := (C24.run (S l d) ops).2
    (issued outs).Pairwise (· < ·) ∧
    (∀ n ∈ issued outs, (∀ e ∈ l.entries, (e.1 : Int) < n) ∧ (l.counter : Int) < n ∧
      n < nextCmdSeq (C24.run (S l d) ops).1) := by
  have hcr := Log.counter_run ops l
  simp only [C24_history_refines ops l d h (by omega)]
  rw [nextCmdSeq_conc _ d (by omega)]
  obtain ⟨h1, h2⟩ := issued_run ops l
  refine ⟨h1, ?_⟩
  intro n hn
  obtain ⟨h3, h4⟩ := h2 n hn
  refine ⟨?_, h3, ?_⟩
  · intro e he
    have := (h.2 e he).2
    omega
  · simp only [Log.nextSeq]; omega

set_option maxRecDepth 4000 in
example : issued (C24.run Store.fresh [.add [1], .del 1, .add [2], .del 2, .del 1, .nseq, .add [3]]).2 = [1, 2, 3] := by
  decide

/-! ### listings -/

/-- `CmdsWithSeq(from, upto)` returns exactly the entries with `from ≤ seq < upto`
(bounds read through `uint64`), in strictly ascending sequence order. -/
theorem C24_listing (l : Log) (d : Bucket) (f u : Int) (h : l.WF) (hc : l.counter < two63) :
    ∃ r : List Entry, cmdsWithSeq (S l d) f u = .ok (r.map toCmd) ∧
      r.Pairwise (fun a b => a.1 < b.1) ∧
      ∀ e, e ∈ r ↔ e ∈ l.entries ∧ toU64 f ≤ e.1 ∧ e.1 < toU64 u := by
  refine ⟨l.list (toU64 f) (toU64 u), cmdsWithSeq_conc l d f u h hc, ?_, ?_⟩
  · exact List.Pairwise.sublist List.filter_sublist h.1
  · intro e
    simp [Log.list, List.mem_filter]

set_option maxRecDepth 4000 in
example : cmdsWithSeq (S ⟨[(1, [7]), (3, [8]), (4, [])], 5⟩ Bucket.empty) 2 4 = .ok [⟨[8], 3⟩] := by decide

/-! ### prefix searches -/

/-- `NextCmd(from, p)` returns the matching entry with the least number ≥ `from`;
`ErrNoMatchingCmd` exactly when there is none. -/
theorem C24_nextCmd (l : Log) (d : Bucket) (f : Int) (p : Bytes) (h : l.WF) (hc : l.counter < two63) :
    (∃ e, nextCmd (S l d) f p = .ok (toCmd e) ∧ e ∈ l.entries ∧ toU64 f ≤ e.1 ∧ hasPrefix e.2 p = true ∧
        ∀ e' ∈ l.entries, toU64 f ≤ e'.1 → hasPrefix e'.2 p = true → e.1 ≤ e'.1) ∨
    (nextCmd (S l d) f p = .exc errNoMatchingCmd ∧
        ∀ e' ∈ l.entries, toU64 f ≤ e'.1 → hasPrefix e'.2 p = false) := by
  rw [nextCmd_conc l d f p h hc]
  cases hn : l.next (toU64 f) p with
  | some e =>
    left
    obtain ⟨h1, h2, h3⟩ := find_first h.1 _ e hn
    simp only [Bool.decide_and, Bool.and_eq_true, decide_eq_true_eq, Bool.decide_eq_true] at h2 h3
    exact ⟨e, rfl, h1, h2.1, h2.2, fun e' he' a b => h3 e' he' ⟨a, b⟩⟩
  | none =>
    right
    refine ⟨rfl, ?_⟩
    intro e' he' hf
    have := List.find?_eq_none.1 hn e' he'
    simp only [Bool.decide_and, Bool.and_eq_true, decide_eq_true_eq, Bool.decide_eq_true, not_and] at this
    simpa using this hf

/-- `PrevCmd(upto, p)` returns the matching entry with the greatest number < `upto`;
`ErrNoMatchingCmd` exactly when there is none. -/
theorem C24_prevCmd (l : Log) (d : Bucket) (u : Int) (p : Bytes) (h : l.WF) (hc : l.counter < two63) :
    (∃ e, prevCmd (S l d) u p = .ok (toCmd e) ∧ e ∈ l.entries ∧ e.1 < toU64 u ∧ hasPrefix e.2 p = true ∧
        ∀ e' ∈ l.entries, e'.1 < toU64 u → hasPrefix e'.2 p = true → e'.1 ≤ e.1) ∨
    (prevCmd (S l d) u p = .exc errNoMatchingCmd ∧
        ∀ e' ∈ l.entries, e'.1 < toU64 u → hasPrefix e'.2 p = false) := by
  rw [prevCmd_conc l d u p h hc]
  cases hn : l.prev (toU64 u) p with
  | some e =>
    left
    obtain ⟨h1, h2, h3⟩ := find_last h.1 _ e hn
    simp only [Bool.decide_and, Bool.and_eq_true, decide_eq_true_eq, Bool.decide_eq_true] at h2 h3
    exact ⟨e, rfl, h1, h2.1, h2.2, fun e' he' a b => h3 e' he' ⟨a, b⟩⟩
  | none =>
    right
    refine ⟨rfl, ?_⟩
    intro e' he' hf
    have := List.find?_eq_none.1 hn e' (by simpa using he')
    simp only [Bool.decide_and, Bool.and_eq_true, decide_eq_true_eq, Bool.decide_eq_true, not_and] at this
    simpa using this hf

set_option maxRecDepth 4000 in
example : nextCmd (S ⟨[(1, [7]), (3, [8, 1]), (4, [8])], 5⟩ Bucket.empty) 2 [8] = .ok ⟨[8, 1], 3⟩ ∧
    prevCmd (S ⟨[(1, [7]), (3, [8, 1]), (4, [8])], 5⟩ Bucket.empty) 4 [8] = .ok ⟨[8, 1], 3⟩ ∧
    prevCmd (S ⟨[(1, [7]), (3, [8, 1]), (4, [8])], 5⟩ Bucket.empty) 9 [8] = .ok ⟨[8], 4⟩ ∧
    prevCmd (S ⟨[(1, [7]), (3, [8, 1]), (4, [8])], 5⟩ Bucket.empty) 3 [8] = .exc errNoMatchingCmd := by decide

/-! ### arguments: non-negative and negative -/

/-- For arguments in `[0, 2^63)` the `uint64` conversion is the identity, so the
bounds in the theorems above are the arguments themselves. -/
theorem C24_nonneg_argument (i : Int) (h0 : 0 ≤ i) : toU64 i = i.toNat ∨ (two64 : Int) ≤ i := by
  by_cases h : i < (two64 : Int)
  · exact Or.inl (toU64_of_nonneg i h0 h)
  · exact Or.inr (by omega)

/-- CLASSIFICATION of negative arguments (`PrevCmd(-1)`, `CmdsWithSeq(-1, 10)` …):
a negative `int` becomes a number ≥ 2^63, above every sequence number.  As an
upper bound it therefore means "no bound" — which is what store.d.elv documents
for `store:cmds` ("use -1 for $upto to not set an upper bound") — and as a lower
bound or an exact number it matches nothing.  Consistent with the sequential
log under the unsigned reading; not a defect. -/
theorem C24_negative_argument (l : Log) (d : Bucket) (n : Int) (hneg : n < 0) (hmin : -(two63 : Int) ≤ n)
    (f : Int) (p : Bytes) (h : l.WF) (hc : l.counter < two63) :
    -- as an upper bound: unbounded
    cmdsWithSeq (S l d) f n = .ok ((l.entries.filter (fun e => toU64 f ≤ e.1)).map toCmd) ∧
    prevCmd (S l d) n p = found (l.entries.reverse.find? (fun e => hasPrefix e.2 p)) ∧
    -- as a lower bound or a sequence number: matches nothing
    cmdsWithSeq (S l d) n f = .ok [] ∧
    nextCmd (S l d) n p = .exc errNoMatchingCmd ∧
    C24.cmd (S l d) n = .exc errNoMatchingCmd ∧
    delCmd (S l d) n = S l d := by
  have hbig := toU64_of_neg n hneg hmin
  have hsmall : ∀ e ∈ l.entries, e.1 < toU64 n := fun e he => by
    have := (h.2 e he).2
    omega
  refine ⟨?_, ?_, ?_, ?_, ?_, ?_⟩
  · rw [cmdsWithSeq_conc l d f n h hc, Log.list]
    congr 2
    apply List.filter_congr
    intro e he
    simp [hsmall e he]
  · rw [prevCmd_conc l d n p h hc, Log.prev]
    congr 1
    apply Sorted.find?_congr'
    intro e he
    simp [hsmall e (by simpa using he)]
  · rw [cmdsWithSeq_conc l d n f h hc, Log.list]
    have : l.entries.filter (fun e => decide (toU64 n ≤ e.1 ∧ e.1 < toU64 f)) = [] := by
      apply List.filter_eq_nil_iff.2
      intro e he
      have := hsmall e he
      simp; omega
    rw [this]; rfl
  · rw [nextCmd_conc l d n p h hc, Log.next]
    have : l.entries.find? (fun e => decide (toU64 n ≤ e.1 ∧ hasPrefix e.2 p = true)) = none := by
      apply List.find?_eq_none.2
      intro e he
      have := hsmall e he
      simp; omega
    rw [this]; rfl
  · rw [cmd_conc l d n h hc, Log.get]
    have : l.entries.find? (fun e => decide (e.1 = toU64 n)) = none := by
      apply List.find?_eq_none.2
      intro e he
      have := hsmall e he
      simp; omega
    rw [this]; rfl
  · rw [delCmd_conc l d n h hc, Log.del]
    have : l.entries.filter (fun e => decide (e.1 ≠ toU64 n)) = l.entries := by
      apply List.filter_eq_self.2
      intro e he
      have := hsmall e he
      simp; omega
    rw [this]

set_option maxRecDepth 4000 in
example : prevCmd (S ⟨[(1, [7]), (3, [8])], 3⟩ Bucket.empty) (-1) [] = .ok ⟨[8], 3⟩ ∧
    cmdsWithSeq (S ⟨[(1, [7]), (3, [8])], 3⟩ Bucket.empty) (-1) 10 = .ok [] ∧
    cmdsWithSeq (S ⟨[(1, [7]), (3, [8])], 3⟩ Bucket.empty) 0 (-1) = .ok [⟨[7], 1⟩, ⟨[8], 3⟩] := by decide

/-! ### directory history (for every instance of the float64 / strconv operations) -/

/-- A visit `AddDir d f` with an acceptable path: every other stored score `v`
becomes `marshal(unmarshal(v) · decay)`; the visited directory gets
`marshal(unmarshal(marshal(unmarshal(v) · decay)) + increment · f)` (`0 + increment · f`
when it was absent); nothing else appears; the command history is untouched and
the bucket invariant (sorted valid keys) is kept. -/
theorem C24_addDir (o : ScoreOps) (s : Store) (d : Bytes) (f : o.F) (h : DirWF s.dir)
    (h0 : 0 < d.length) (h1 : d.length ≤ maxKeySize) :
    (addDir o s d f).2 = none ∧ (addDir o s d f).1.cmd = s.cmd ∧ DirWF (addDir o s d f).1.dir ∧
    ∀ p, (addDir o s d f).1.dir.get p =
      if p = d then some (visitedScore o (s.dir.get d) f) else (s.dir.get p).map (decayed o) :=
  addDir_ok o s d f h h0 h1

/-- A visit to the empty path (or one longer than bbolt's key limit) fails and,
the transaction being rolled back, changes nothing — no decay either. -/
theorem C24_addDir_rejected (o : ScoreOps) (s : Store) (d : Bytes) (f : o.F)
    (hbad : d.length = 0 ∨ maxKeySize < d.length) :
    (addDir o s d f).1 = s ∧ (addDir o s d f).2 ≠ none :=
  addDir_bad_key o s d f hbad

/-- `AddDirRaw` and `DelDir` change exactly one entry. -/
theorem C24_addDirRaw_delDir (o : ScoreOps) (s : Store) (d : Bytes) (x : o.F) (h : DirWF s.dir)
    (h0 : 0 < d.length) (h1 : d.length ≤ maxKeySize) :
    ((addDirRaw o s d x).2 = none ∧ DirWF (addDirRaw o s d x).1.dir ∧
      ∀ p, (addDirRaw o s d x).1.dir.get p = if p = d then some (o.format x) else s.dir.get p) ∧
    (DirWF (delDir s d).dir ∧ ∀ p, (delDir s d).dir.get p = if p = d then none else s.dir.get p) := by
  obtain ⟨a, _, b, c⟩ := addDirRaw_ok o s d x h h0 h1
  obtain ⟨_, e, g⟩ := delDir_ok s d h
  exact ⟨⟨a, b, c⟩, e, g⟩

/-- `Dirs(blacklist)` is a rearrangement of the stored entries whose path is not
blacklisted, with their parsed scores, in descending score order (no entry is
followed by one with a larger score) — for any `<` that is a total preorder on
the scores present (true of float64 `<` away from NaN). -/
theorem C24_dirs (o : ScoreOps) (s : Store) (bl : List Bytes)
    (htrans : ∀ a b c : o.F, o.lt a b = false → o.lt b c = false → o.lt a c = false)
    (htot : ∀ a b : o.F, o.lt a b = false ∨ o.lt b a = false) :
    (dirs o s bl).Perm ((s.dir.kvs.filter (fun kv => !bl.contains kv.1)).map (fun kv => (kv.1, o.parse kv.2))) ∧
    (dirs o s bl).Pairwise (fun a b => o.lt a.2 b.2 = false) :=
  dirs_sorted_perm o s bl htrans htot

/- non-vacuity of the directory theorems: the toy instance `C24_toyOps` (ElvProofs/C24/DirOps.lean:
   scores are natural numbers written as one byte) and a concrete run -/
example : DirWF (⟨[([1], [20]), ([2], [30])], 0⟩ : Bucket) := by
  constructor
  · simp [SortedKV, Sorted.Sorted]; decide
  · intro kv hkv; simp at hkv; rcases hkv with rfl | rfl <;> decide

example : (addDir C24_toyOps ⟨Bucket.empty, ⟨[([1], [20]), ([2], [30])], 0⟩⟩ [2] (1 : Nat)).1.dir.kvs = [([1], [18]), ([2], [28])] := by
  decide

example : dirs C24_toyOps ⟨Bucket.empty, ⟨[([1], [18]), ([2], [37]), ([3], [50])], 0⟩⟩ [[3]] = [([2], (37 : Nat)), ([1], (18 : Nat))] := by
  simp [dirs, Bucket.first, List.mergeSort, C24_toyOps]

example : (∀ a b c : C24_toyOps.F, C24_toyOps.lt a b = false → C24_toyOps.lt b c = false → C24_toyOps.lt a c = false) ∧
    (∀ a b : C24_toyOps.F, C24_toyOps.lt a b = false ∨ C24_toyOps.lt b a = false) := by
  constructor
  · intro a b c; simp [C24_toyOps]; omega
  · intro a b; simp [C24_toyOps]; omega
