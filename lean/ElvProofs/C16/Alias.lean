/-
C16: frame property of the reference semantics of `staticNs` — operations on a
COPIED clone never write the array of the live namespace.
-/
import ElvModel.C16.Alias
namespace C16.Alias
open Go

theorem updArr_length (h : Heap) (n : Nat) (f : List Info → List Info) : (updArr h n f).length = h.length := by
  induction h generalizing n with
  | nil => rfl
  | cons x xs ih => cases n <;> simp [updArr, ih]

theorem updArr_other (h : Heap) (n m : Nat) (f : List Info → List Info) (hne : m ≠ n) :
    (updArr h n f)[m]? = h[m]? := by
  induction h generalizing n m with
  | nil => rfl
  | cons x xs ih =>
    cases n with
    | zero =>
      cases m with
      | zero => exact absurd rfl hne
      | succ m => simp [updArr]
    | succ n =>
      cases m with
      | zero => simp [updArr]
      | succ m => simp only [updArr, List.getElem?_cons_succ]; exact ih n m (by omega)

/-- the slice is somewhere else than address `a0`, both inside the heap -/
structure Apart (a0 : Nat) (h : Heap) (r : Ref) : Prop where
  ne : a0 ≠ r.arr
  live : a0 < h.length
  mine : r.arr < h.length

theorem del_frame {a0 : Nat} {h : Heap} {r : Ref} (k : Bytes) (ha : Apart a0 h r) :
    (del h r k)[a0]? = h[a0]? ∧ Apart a0 (del h r k) r := by
  unfold del
  split
  · split
    · exact ⟨updArr_other _ _ _ _ ha.ne, ha.ne, (by rw [updArr_length]; exact ha.live),
        (by rw [updArr_length]; exact ha.mine)⟩
    · exact ⟨rfl, ha⟩
  · exact ⟨rfl, ha⟩

theorem append_frame {a0 : Nat} {h : Heap} {r : Ref} (x : Info) (ha : Apart a0 h r) :
    (append h r x).1[a0]? = h[a0]? ∧ Apart a0 (append h r x).1 (append h r x).2 := by
  unfold append
  split
  · split
    · exact ⟨updArr_other _ _ _ _ ha.ne, ha.ne, (by simp only [updArr_length]; exact ha.live),
        (by simp only [updArr_length]; exact ha.mine)⟩
    · refine ⟨?_, ?_, ?_, ?_⟩
      · simp only []
        rw [List.getElem?_append_left ha.live]
      · simp only []; have := ha.live; omega
      · simp only [List.length_append, List.length_cons, List.length_nil]; have := ha.live; omega
      · simp only [List.length_append, List.length_cons, List.length_nil]; omega
  · exact ⟨rfl, ha⟩

theorem step_frame {a0 : Nat} {h : Heap} {r : Ref} (op : NsOp) (ha : Apart a0 h r) :
    (step h r op).1[a0]? = h[a0]? ∧ Apart a0 (step h r op).1 (step h r op).2 := by
  cases op with
  | mark i =>
    by_cases hi : i < r.len
    · simp only [step, hi, if_true]
      exact ⟨updArr_other _ _ _ _ ha.ne, ha.ne, (by simp only [updArr_length]; exact ha.live),
        (by simp only [updArr_length]; exact ha.mine)⟩
    · simp only [step, hi, if_false]
      exact ⟨trivial, ha⟩
  | del k =>
    simp only [step]
    exact del_frame k ha
  | add k =>
    simp only [step]
    obtain ⟨h1, a1⟩ := del_frame k ha
    obtain ⟨h2, a2⟩ := append_frame { name := k } a1
    exact ⟨h2.trans h1, a2⟩

theorem run_frame {a0 : Nat} : ∀ (ops : List NsOp) {h : Heap} {r : Ref}, Apart a0 h r →
    (run h r ops).1[a0]? = h[a0]?
  | [], _, _, _ => rfl
  | op :: ops, h, r, ha => by
    obtain ⟨h1, a1⟩ := step_frame op ha
    simp only [run]
    rw [run_frame ops a1, h1]

/-- **`compile` works on a copy**: whatever sequence of `add` / `del` / `deleted = true` the compiler
performs on the clone that `(*staticNs).clone` returns, the live namespace reads exactly what it read
before — every name, every `readOnly` and every `deleted` flag. -/
theorem liveAfter_cloneCopy (h : Heap) (live : Ref) (ops : List NsOp) (hlt : live.arr < h.length) :
    liveAfter cloneCopy h live ops = read h live := by
  unfold liveAfter cloneCopy read
  rw [List.getElem?_eq_getElem hlt]
  simp only []
  have hap : Apart live.arr (h ++ [(h[live.arr]).take live.len]) { arr := h.length, len := live.len, cap := live.len } :=
    ⟨by simp only []; omega, by simp only [List.length_append, List.length_cons, List.length_nil]; omega,
      by simp only [List.length_append, List.length_cons, List.length_nil]; omega⟩
  rw [run_frame ops hap, List.getElem?_append_left hlt, List.getElem?_eq_getElem hlt]

end C16.Alias
