/-
The compiler only ever APPENDS errors: a small partial-correctness logic over
the compiler monad with the invariant "the errors before are a prefix of the
errors after", proved for every primitive and pushed through every compiler
function of `ElvModel/C16/Model.lean`.
-/
import ElvModel.C16.Model
namespace C16
open Go

/-- `m` never removes or reorders reported errors. -/
structure Mono {α : Type} (m : M α) : Prop where
  prf : ∀ e s a s', m e s = .ok a s' → s.errors <+: s'.errors

theorem Mono.pure {α : Type} (a : α) : Mono (pure a : M α) := by
  constructor; intro e s a' s' h
  simp only [Pure.pure, M.pure, Out.ok.injEq] at h
  rw [← h.2]
  exact List.prefix_refl _

theorem Mono.bind {α β : Type} {m : M α} {f : α → M β} (hm : Mono m) (hf : ∀ a, Mono (f a)) :
    Mono (m >>= f) := by
  constructor; intro e s b s' h
  simp only [Bind.bind, M.bind] at h
  cases hms : m e s with
  | ok a s1 =>
    rw [hms] at h
    exact List.IsPrefix.trans (hm.prf e s a s1 hms) ((hf a).prf e s1 b s' h)
  | panic w => rw [hms] at h; cases h
  | fuel => rw [hms] at h; cases h

/-- a computation that leaves `errors` alone -/
theorem Mono.of_errors_eq {α : Type} {m : M α} (h : ∀ e s a s', m e s = .ok a s' → s'.errors = s.errors) : Mono m := by
  constructor; intro e s a s' hm
  rw [h e s a s' hm]
  exact List.prefix_refl _

theorem Mono.panic {α : Type} (w : String) : Mono (panic w : M α) := by
  constructor; intro e s a s' h; cases h
theorem Mono.outOfFuel {α : Type} : Mono (outOfFuel : M α) := by
  constructor; intro e s a s' h; cases h
theorem Mono.getEnv : Mono getEnv := Mono.of_errors_eq (by intro e s a s' h; cases h; rfl)
theorem Mono.err (k : EK) (a b : Nat) : Mono (err k a b) := by
  constructor; intro e s u s' h
  simp only [C16.err, Out.ok.injEq] at h
  rw [← h.2]
  exact List.prefix_append _ _
theorem Mono.errAt (k : EK) (n : Node) : Mono (errAt k n) := Mono.err _ _ _
theorem Mono.errPoint (k : EK) (p : Nat) : Mono (errPoint k p) := Mono.err _ _ _
theorem Mono.autofix (q : Bytes) : Mono (autofix q) :=
  Mono.of_errors_eq (by intro e s a s' h; simp only [C16.autofix, Out.ok.injEq] at h; rw [← h.2])
theorem Mono.thisScope : Mono thisScope :=
  Mono.of_errors_eq (by
    intro e s a s' h; unfold C16.thisScope at h
    split at h
    · simp only [Out.ok.injEq] at h; rw [← h.2]
    · cases h)
theorem Mono.setThisScope (sc : StaticNs) : Mono (setThisScope sc) :=
  Mono.of_errors_eq (by
    intro e s a s' h; unfold C16.setThisScope at h
    split at h
    · simp only [Out.ok.injEq] at h; rw [← h.2]
    · cases h)
theorem Mono.currentPragma : Mono currentPragma :=
  Mono.of_errors_eq (by
    intro e s a s' h; unfold C16.currentPragma at h
    split at h
    · simp only [Out.ok.injEq] at h; rw [← h.2]
    · cases h)
theorem Mono.setCurrentPragma (b : Bool) : Mono (setCurrentPragma b) :=
  Mono.of_errors_eq (by
    intro e s a s' h; unfold C16.setCurrentPragma at h
    split at h
    · simp only [Out.ok.injEq] at h; rw [← h.2]
    · cases h)
theorem Mono.popScope : Mono popScope :=
  Mono.of_errors_eq (by
    intro e s a s' h; unfold C16.popScope at h
    split at h
    · simp only [Out.ok.injEq] at h; rw [← h.2]
    · cases h)
theorem Mono.scopeDepth : Mono scopeDepth :=
  Mono.of_errors_eq (by intro e s a s' h; simp only [C16.scopeDepth, Out.ok.injEq] at h; rw [← h.2])
theorem Mono.pushScope : Mono pushScope := by
  unfold C16.pushScope
  refine Mono.bind Mono.currentPragma (fun p => Mono.of_errors_eq ?_)
  intro e s a s' h; simp only [modifySt, Out.ok.injEq] at h; rw [← h.2]
theorem Mono.addName (k : Bytes) : Mono (addName k) := by
  unfold C16.addName
  exact Mono.bind Mono.thisScope (fun sc => Mono.bind (Mono.setThisScope _) (fun _ => Mono.pure _))
theorem Mono.deref {α : Type} (o : Option α) (w : String) : Mono (deref o w) := by
  unfold C16.deref; cases o with
  | none => exact Mono.panic _
  | some a => exact Mono.pure _
theorem Mono.resolveVarRef (q : Bytes) : Mono (resolveVarRef q) :=
  Mono.of_errors_eq (by
    intro e s a s' h; unfold C16.resolveVarRef at h
    split at h
    · simp only [Out.ok.injEq] at h; rw [← h.2]
    · cases h)
theorem Mono.resolveCmdHead (h : Bytes) : Mono (resolveCmdHead h) := by
  unfold C16.resolveCmdHead; dsimp only; split
  · exact Mono.pure _
  · exact Mono.resolveVarRef _

theorem Mono.forEach {α : Type} (l : List α) (f : α → M Unit) (hf : ∀ x, Mono (f x)) : Mono (forEach l f) := by
  induction l with
  | nil => exact Mono.pure _
  | cons x xs ih => exact Mono.bind (hf x) (fun _ => ih)

/-- one step of the syntax-directed proof; extended with `macro_rules` below as lemmas become available -/
syntax "mono_prim" : tactic
macro_rules | `(tactic| mono_prim) => `(tactic| with_reducible first
  | assumption
  | exact Mono.pure _ | exact Mono.panic _ | exact Mono.outOfFuel | exact Mono.getEnv
  | exact Mono.err _ _ _ | exact Mono.errAt _ _ | exact Mono.errPoint _ _ | exact Mono.autofix _
  | exact Mono.thisScope | exact Mono.setThisScope _ | exact Mono.currentPragma | exact Mono.setCurrentPragma _
  | exact Mono.popScope | exact Mono.scopeDepth | exact Mono.pushScope | exact Mono.addName _
  | exact Mono.deref _ _ | exact Mono.resolveVarRef _ | exact Mono.resolveCmdHead _
  | apply_assumption (transparency := .reducible))

macro "mono" : tactic => `(tactic| repeat' (first
  | (with_reducible apply Mono.bind)
  | (with_reducible apply Mono.forEach)
  | mono_prim
  | (intro _)
  | extract_lets
  | split))

theorem Mono.stringLiteralOrError (n : Node) : Mono (stringLiteralOrError n) := by
  unfold C16.stringLiteralOrError; mono

theorem Mono.lambdaArgs (l : List Node) (seen : List Bytes) (hr : Bool) (names : List Bytes) :
    Mono (lambdaArgs l seen hr names) := by
  induction l generalizing seen hr names with
  | nil => unfold C16.lambdaArgs; mono
  | cons a rest ih =>
    unfold C16.lambdaArgs
    have h1 := Mono.stringLiteralOrError a
    mono

/-! `argsGetter` -/

theorem Mono.AG_err (ag : AG) (k : EK) (a b : Nat) : Mono (ag.err k a b) := by
  unfold AG.err; mono
theorem Mono.AG_get (ag : AG) (i : Nat) : Mono (ag.get i) := by
  unfold AG.get
  have h1 := fun ag k a b => Mono.AG_err ag k a b
  mono
theorem Mono.AG_stringLit (ag : AG) (n : Option Node) : Mono (ag.stringLit n) := by
  unfold AG.stringLit
  have h1 := fun ag k a b => Mono.AG_err ag k a b
  mono
theorem Mono.AG_lambda (ag : AG) (n : Option Node) : Mono (ag.lambda n) := by
  unfold AG.lambda
  have h1 := fun ag k a b => Mono.AG_err ag k a b
  mono
theorem Mono.AG_thunk (ag : AG) (n : Option Node) : Mono (ag.thunk n) := by
  unfold AG.thunk
  have h1 := fun ag k a b => Mono.AG_err ag k a b
  have h2 := fun ag n => Mono.AG_lambda ag n
  mono
theorem Mono.AG_optionalKeywordBody (ag : AG) (i : Nat) (kw : Bytes) : Mono (ag.optionalKeywordBody i kw) := by
  unfold AG.optionalKeywordBody
  have h1 := fun ag i => Mono.AG_get ag i
  have h2 := fun ag n => Mono.AG_thunk ag n
  mono
theorem Mono.AG_finish (ag : AG) : Mono ag.finish := by
  unfold AG.finish
  have h1 := fun ag k a b => Mono.AG_err ag k a b
  mono

theorem Mono.compileUse (fn : Node) : Mono (compileUse fn) := by
  unfold C16.compileUse
  have h1 := fun ag i => Mono.AG_get ag i
  have h2 := fun ag n => Mono.AG_stringLit ag n
  have h3 := fun ag => Mono.AG_finish ag
  mono

theorem Mono.compilePragma (fn : Node) : Mono (compilePragma fn) := by
  unfold C16.compilePragma
  have h1 := fun ag i => Mono.AG_get ag i
  have h2 := fun ag n => Mono.AG_stringLit ag n
  have h3 := fun ag => Mono.AG_finish ag
  have h4 := fun ag k a b => Mono.AG_err ag k a b
  have h5 := fun n => Mono.stringLiteralOrError n
  mono

theorem Mono.ifLoop (fuel : Nat) (ag : AG) (i : Nat) (cs bs : List (Option Node)) : Mono (ifLoop fuel ag i cs bs) := by
  induction fuel generalizing ag i cs bs with
  | zero => unfold C16.ifLoop; mono
  | succ k ih =>
    unfold C16.ifLoop
    have h1 := fun ag i => Mono.AG_get ag i
    have h2 := fun ag n => Mono.AG_thunk ag n
    mono

section Open
variable {compoundOp : Node → M Unit} {chunkOp : Node → M Unit}
variable (hc : ∀ n, Mono (compoundOp n)) (hk : ∀ n, Mono (chunkOp n))
include hc

theorem Mono.compoundOps (ns : List Node) : Mono (compoundOps compoundOp ns) := by
  unfold C16.compoundOps; mono
macro_rules | `(tactic| mono_prim) => `(tactic| ((with_reducible apply Mono.compoundOps) <;> assumption))

theorem Mono.arrayOps (ns : List Node) : Mono (arrayOps compoundOp ns) := by
  unfold C16.arrayOps; mono
macro_rules | `(tactic| mono_prim) => `(tactic| ((with_reducible apply Mono.arrayOps) <;> assumption))

theorem Mono.mapPairs (ns : List Node) : Mono (mapPairs compoundOp ns) := by
  unfold C16.mapPairs; mono
macro_rules | `(tactic| mono_prim) => `(tactic| ((with_reducible apply Mono.mapPairs) <;> assumption))

theorem Mono.lambdaOpts (l : List Node) (names : List Bytes) : Mono (lambdaOpts compoundOp l names) := by
  induction l generalizing names with
  | nil => unfold C16.lambdaOpts; mono
  | cons a rest ih =>
    unfold C16.lambdaOpts
    have h1 := fun n => Mono.stringLiteralOrError n
    mono

include hk

theorem Mono.lambda (n : Node) : Mono (lambda compoundOp chunkOp n) := by
  unfold C16.lambda
  have h1 := fun l s h n => Mono.lambdaArgs l s h n
  have h2 := fun l n => Mono.lambdaOpts hc l n
  mono

theorem Mono.primaryOp (n : Node) : Mono (primaryOp compoundOp chunkOp n) := by
  unfold C16.primaryOp
  have h1 := Mono.lambda hc hk
  mono

theorem Mono.indexingOp (n : Node) : Mono (indexingOp compoundOp chunkOp n) := by
  unfold C16.indexingOp
  have h1 := Mono.primaryOp hc hk
  mono

theorem Mono.compoundBody (n : Node) : Mono (compoundBody compoundOp chunkOp n) := by
  unfold C16.compoundBody
  have h1 := Mono.indexingOp hc hk
  mono

omit hk

theorem Mono.lvalueResult (n : Node) (r : Bool) : Mono (lvalueResult compoundOp n r) := by
  unfold C16.lvalueResult
  mono

theorem Mono.createLValue (n : Node) (q : Bytes) (r : Bool) : Mono (createLValue compoundOp n q r) := by
  unfold C16.createLValue
  have h1 := fun n r => Mono.lvalueResult hc n r
  mono

theorem Mono.resolveLValue (n : Node) (f : LVFlag) (q : Bytes) (r : Bool) : Mono (resolveLValue compoundOp n f q r) := by
  unfold C16.resolveLValue
  have h1 := fun n r => Mono.lvalueResult hc n r
  have h2 := fun n q r => Mono.createLValue hc n q r
  mono

theorem Mono.compileIndexingLValue (n : Node) (f : LVFlag) : Mono (compileIndexingLValue compoundOp n f) := by
  unfold C16.compileIndexingLValue
  have h2 := fun n f q r => Mono.resolveLValue hc n f q r
  mono

theorem Mono.compileCompoundLValues (l : List Node) (f : LVFlag) (g : LVGroup) :
    Mono (compileCompoundLValues compoundOp l f g) := by
  induction l generalizing g with
  | nil => unfold C16.compileCompoundLValues; mono
  | cons a rest ih =>
    unfold C16.compileCompoundLValues
    have h1 := fun n f => Mono.compileIndexingLValue hc n f
    mono

theorem Mono.compileOneLValue (n : Node) (f : LVFlag) : Mono (compileOneLValue compoundOp n f) := by
  unfold C16.compileOneLValue
  have h1 := fun n f => Mono.compileIndexingLValue hc n f
  mono

theorem Mono.compileLHSOptionalRHS (args : List Node) (f : LVFlag) : Mono (compileLHSOptionalRHS compoundOp args f) := by
  unfold C16.compileLHSOptionalRHS
  have h1 := fun l f g => Mono.compileCompoundLValues hc l f g
  mono

theorem Mono.compileLHSRHS (args : List Node) (e : Nat) (f : LVFlag) : Mono (compileLHSRHS compoundOp args e f) := by
  unfold C16.compileLHSRHS
  have h1 := fun l f => Mono.compileLHSOptionalRHS hc l f
  mono

theorem Mono.compileVar (fn : Node) : Mono (compileVar compoundOp fn) := by
  unfold C16.compileVar
  have h1 := fun l f => Mono.compileLHSOptionalRHS hc l f
  mono

theorem Mono.compileSet (fn : Node) : Mono (compileSet compoundOp fn) := by
  unfold C16.compileSet
  exact Mono.compileLHSRHS hc _ _ _

theorem Mono.compileTmp (fn : Node) : Mono (compileTmp compoundOp fn) := by
  unfold C16.compileTmp
  have h1 := fun l e f => Mono.compileLHSRHS hc l e f
  mono

theorem Mono.compileDel (fn : Node) : Mono (compileDel compoundOp fn) := by
  unfold C16.compileDel
  mono

include hk

theorem Mono.compileWith (fn : Node) : Mono (compileWith compoundOp chunkOp fn) := by
  unfold C16.compileWith
  have h1 := fun l e f => Mono.compileLHSRHS hc l e f
  have h2 := Mono.primaryOp hc hk
  mono

theorem Mono.compileFn (fn : Node) : Mono (compileFn compoundOp chunkOp fn) := by
  unfold C16.compileFn
  have h1 := fun ag i => Mono.AG_get ag i
  have h2 := fun ag n => Mono.AG_stringLit ag n
  have h3 := fun ag => Mono.AG_finish ag
  have h4 := fun ag n => Mono.AG_lambda ag n
  have h5 := Mono.lambda hc hk
  mono

theorem Mono.primaryOpNN (n : Option Node) (w : String) : Mono (primaryOpNN compoundOp chunkOp n w) := by
  unfold C16.primaryOpNN
  have h2 := Mono.primaryOp hc hk
  mono

theorem Mono.optPrimaryOp (n : Option Node) : Mono (optPrimaryOp compoundOp chunkOp n) := by
  unfold C16.optPrimaryOp
  have h2 := Mono.primaryOp hc hk
  mono

theorem Mono.compileIf (fn : Node) : Mono (compileIf compoundOp chunkOp fn) := by
  unfold C16.compileIf
  have h1 := fun f ag i cs bs => Mono.ifLoop f ag i cs bs
  have h2 := fun ag i kw => Mono.AG_optionalKeywordBody ag i kw
  have h3 := fun ag => Mono.AG_finish ag
  have h4 := fun n w => Mono.primaryOpNN hc hk n w
  have h5 := fun n => Mono.optPrimaryOp hc hk n
  mono

theorem Mono.compileWhile (fn : Node) : Mono (compileWhile compoundOp chunkOp fn) := by
  unfold C16.compileWhile
  have h1 := fun ag i => Mono.AG_get ag i
  have h2 := fun ag i kw => Mono.AG_optionalKeywordBody ag i kw
  have h3 := fun ag => Mono.AG_finish ag
  have h4 := fun n w => Mono.primaryOpNN hc hk n w
  have h5 := fun n => Mono.optPrimaryOp hc hk n
  have h6 := fun ag n => Mono.AG_thunk ag n
  mono

theorem Mono.compileFor (fn : Node) : Mono (compileFor compoundOp chunkOp fn) := by
  unfold C16.compileFor
  have h1 := fun ag i => Mono.AG_get ag i
  have h2 := fun ag i kw => Mono.AG_optionalKeywordBody ag i kw
  have h3 := fun ag => Mono.AG_finish ag
  have h4 := fun n w => Mono.primaryOpNN hc hk n w
  have h5 := fun n => Mono.optPrimaryOp hc hk n
  have h6 := fun ag n => Mono.AG_thunk ag n
  have h7 := fun n f => Mono.compileOneLValue hc n f
  mono

theorem Mono.compileTry (fn : Node) : Mono (compileTry compoundOp chunkOp fn) := by
  unfold C16.compileTry
  have h1 := fun ag i => Mono.AG_get ag i
  have h2 := fun ag i kw => Mono.AG_optionalKeywordBody ag i kw
  have h3 := fun ag => Mono.AG_finish ag
  have h4 := fun n w => Mono.primaryOpNN hc hk n w
  have h5 := fun n => Mono.optPrimaryOp hc hk n
  have h6 := fun ag n => Mono.AG_thunk ag n
  have h7 := fun n f => Mono.compileOneLValue hc n f
  mono

theorem Mono.compileSpecial (sp : Special) (fn : Node) : Mono (compileSpecial compoundOp chunkOp sp fn) := by
  unfold C16.compileSpecial
  cases sp
  · exact Mono.compileVar hc fn
  · exact Mono.compileSet hc fn
  · exact Mono.compileTmp hc fn
  · exact Mono.compileWith hc hk fn
  · exact Mono.compileDel hc fn
  · exact Mono.compileFn hc hk fn
  · exact Mono.compileUse fn
  · exact Mono.compoundOps hc _
  · exact Mono.compoundOps hc _
  · exact Mono.compoundOps hc _
  · exact Mono.compileIf hc hk fn
  · exact Mono.compileWhile hc hk fn
  · exact Mono.compileFor hc hk fn
  · exact Mono.compileTry hc hk fn
  · exact Mono.compilePragma fn

omit hk in
theorem Mono.redirOp (n : Node) : Mono (redirOp compoundOp n) := by
  unfold C16.redirOp
  mono

theorem Mono.formBody (n : Node) : Mono (formBody compoundOp chunkOp n) := by
  unfold C16.formBody
  have h1 := fun sp fn => Mono.compileSpecial hc hk sp fn
  mono

theorem Mono.formOp (n : Node) : Mono (formOp compoundOp chunkOp n) := by
  unfold C16.formOp
  have h1 := fun n => Mono.redirOp hc n
  have h2 := fun n => Mono.formBody hc hk n
  mono

theorem Mono.pipelineOp (n : Node) : Mono (pipelineOp compoundOp chunkOp n) := by
  unfold C16.pipelineOp
  have h2 := fun n => Mono.formOp hc hk n
  mono

theorem Mono.chunkBody (n : Node) : Mono (chunkBody compoundOp chunkOp n) := by
  unfold C16.chunkBody
  have h2 := fun n => Mono.pipelineOp hc hk n
  mono

end Open

theorem Mono.compileNT (fuel : Nat) : ∀ nt n, Mono (compileNT fuel nt n) := by
  induction fuel with
  | zero => intro nt n; unfold C16.compileNT; exact Mono.outOfFuel
  | succ k ih =>
    intro nt n
    cases nt with
    | chunk => unfold C16.compileNT; exact Mono.chunkBody (ih .compound) (ih .chunk) n
    | compound => unfold C16.compileNT; exact Mono.compoundBody (ih .compound) (ih .chunk) n

theorem compileNT_mono (fuel : Nat) (nt : NT) (n : Node) (env : Env) (s s' : CSt)
    (h : compileNT fuel nt n env s = .ok () s') : s.errors <+: s'.errors :=
  (Mono.compileNT fuel nt n).prf env s () s' h

end C16
