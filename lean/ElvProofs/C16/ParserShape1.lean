/-
C16: every tree the C01 parser model builds has the `shape` the compiler
relies on, and nests no deeper than the parser's fuel — part 1: the logic
(partial correctness, no state invariant needed), the builder primitives and
the loops of the grammar functions.

The two facts that depend on the parser STATE are carried as preconditions on
the state a grammar function starts in: a `Primary` is only ever parsed where
`startsPrimary` holds of the next rune (so its type is never `BadPrimary`), and
a `Compound` parsed where `startsCompound` holds has at least one `Indexing`.
-/
import ElvProofs.C01
import ElvModel.C16.Shape
namespace C16P
open Go
open Gen.C01Chars
open C01

/-! ### partial correctness -/

/-- if the computation returns, result and final state satisfy `Q` -/
def Ret {α : Type} (o : Out α) (Q : α → St → Prop) : Prop :=
  match o with
  | .ok a s => Q a s
  | .panic _ => True
  | .fuel => True

theorem Ret_triv {α : Type} {o : Out α} : Ret o (fun _ _ => True) := by cases o <;> trivial

theorem Ret.mono {α : Type} {o : Out α} {Q Q' : α → St → Prop} (h : Ret o Q) (hq : ∀ a s, Q a s → Q' a s) :
    Ret o Q' := by
  cases o with
  | ok a s => exact hq a s h
  | panic w => trivial
  | fuel => trivial

theorem Ret_bind {α β : Type} {m : M α} {f : α → M β} {e : Env} {s : St} {P : α → St → Prop}
    {Q : β → St → Prop} (hm : Ret (m e s) P) (hf : ∀ a s', P a s' → Ret (f a e s') Q) :
    Ret ((m >>= f) e s) Q := by
  rw [bind_apply]
  cases h : m e s with
  | ok a s' => rw [h] at hm; exact hf a s' hm
  | panic w => trivial
  | fuel => trivial

theorem Ret_bindT {α β : Type} {m : M α} {f : α → M β} {e : Env} {s : St}
    {Q : β → St → Prop} (hf : ∀ a s', Ret (f a e s') Q) : Ret ((m >>= f) e s) Q :=
  Ret_bind Ret_triv (fun a s' _ => hf a s')

theorem Ret_pure {α : Type} {a : α} {e : Env} {s : St} {Q : α → St → Prop} (h : Q a s) :
    Ret ((pure a : M α) e s) Q := h

theorem Ret_fuel {α : Type} {e : Env} {s : St} {Q : α → St → Prop} : Ret ((outOfFuel : M α) e s) Q := trivial

/-- `peek` leaves the state alone -/
theorem peek_ret (e : Env) (s : St) : Ret (peek e s) (fun r s' => s' = s ∧ peek e s = .ok r s) := by
  cases h : peek e s with
  | panic w => trivial
  | fuel => trivial
  | ok r s' =>
    have hs : s' = s := by
      unfold peek at h
      split at h
      · simp only [Out.ok.injEq] at h; exact h.2.symm
      · split at h
        · simp only [Out.ok.injEq] at h; exact h.2.symm
        · cases h
    subst hs
    exact ⟨rfl, rfl⟩

/-- the next rune can start a `Primary` in context `c` (what `startsIndexing` and `startsCompound` also say) -/
def Starts (e : Env) (s : St) (c : Int) : Prop := ∀ r, peek e s = .ok r s → startsPrimary e.isPrint r c = true

/-! ### what is said of the nodes -/

/-- the subtree has the compiler's shape and nests at most `f` deep -/
def Pc (f : Nat) (c : Node) : Prop := C16.shape c = true ∧ C16.nest c ≤ f

theorem Pc.le {f g : Nat} {c : Node} (h : Pc f c) (hle : f ≤ g) : Pc g c := ⟨h.1, Nat.le_trans h.2 hle⟩

/-- all children added so far are fine -/
def AllP (g : Nat) (nb : NB) : Prop := ∀ c ∈ nb.children, Pc g c

/-- the node the builder would become -/
def nbNode (K : Kind) (nb : NB) : Node := .mk K 0 0 [] nb.f nb.children

/-- `nodeOk` of the node the builder would become -/
def NOk (K : Kind) (nb : NB) : Prop := C16.nodeOk (nbNode K nb) = true

theorem AllP.add {g : Nat} {nb : NB} {c : Node} (h : AllP g nb) (hc : Pc g c) : AllP g (nb.add c) := by
  intro x hx
  simp only [NB.add, List.mem_append, List.mem_singleton] at hx
  rcases hx with hx | hx
  · exact h x hx
  · subst hx; exact hc

theorem sep_Pc (g : Nat) (a b : Nat) (t : Bytes) (f : Fields) : Pc g (.mk .sep a b t f []) := by
  constructor
  · simp [C16.shape, C16.shapeL, C16.nodeOk, Node.kind]
  · simp [C16.nest, C16.nestL]

/-- only separators were added, the fields are the same -/
structure GrowSep (nb nb' : NB) : Prop where
  f : nb'.f = nb.f
  ch : ∃ l, nb'.children = nb.children ++ l ∧ ∀ c ∈ l, ∃ a b t f, c = Node.mk .sep a b t f []

theorem GrowSep.refl (nb : NB) : GrowSep nb nb := ⟨rfl, [], by simp, fun _ h => by cases h⟩

theorem GrowSep.trans {a b c : NB} (h1 : GrowSep a b) (h2 : GrowSep b c) : GrowSep a c := by
  obtain ⟨l1, e1, p1⟩ := h1.ch
  obtain ⟨l2, e2, p2⟩ := h2.ch
  refine ⟨h2.f.trans h1.f, l1 ++ l2, by rw [e2, e1, List.append_assoc], fun x hx => ?_⟩
  rcases List.mem_append.mp hx with hx | hx
  · exact p1 x hx
  · exact p2 x hx

theorem GrowSep.addSep (nb : NB) (a b : Nat) (t : Bytes) (f : Fields) : GrowSep nb (nb.add (.mk .sep a b t f [])) :=
  ⟨rfl, [_], rfl, fun x hx => by rw [List.mem_singleton] at hx; exact ⟨a, b, t, f, hx⟩⟩

theorem GrowSep.allP {g : Nat} {nb nb' : NB} (h : GrowSep nb nb') (ha : AllP g nb) : AllP g nb' := by
  obtain ⟨l, e1, p1⟩ := h.ch
  intro x hx
  rw [e1] at hx
  rcases List.mem_append.mp hx with hx | hx
  · exact ha x hx
  · obtain ⟨a, b, t, f, rfl⟩ := p1 x hx
    exact sep_Pc g a b t f

theorem filter_sep_nil {l : List Node} (hl : ∀ c ∈ l, ∃ a b t f, c = Node.mk .sep a b t f []) (K' : Kind)
    (hK : K' ≠ .sep) : l.filter (fun x => x.kind == K') = [] := by
  rw [List.filter_eq_nil_iff]
  intro c hc
  obtain ⟨a, b, t, f, rfl⟩ := hl c hc
  simp only [Node.kind, beq_iff_eq]
  exact fun h => hK h.symm

/-- the children of a kind other than `Sep` are the same -/
theorem GrowSep.childrenOf {nb nb' : NB} (h : GrowSep nb nb') (K K' : Kind) (hK : K' ≠ .sep) :
    (nbNode K nb').childrenOf K' = (nbNode K nb).childrenOf K' := by
  obtain ⟨l, e1, p1⟩ := h.ch
  simp only [nbNode, Node.childrenOf, Node.children, e1, List.filter_append, filter_sep_nil p1 K' hK,
    List.append_nil]

theorem GrowSep.nok {K : Kind} {nb nb' : NB} (h : GrowSep nb nb') (hn : NOk K nb) : NOk K nb' := by
  have hc := fun K' hK => h.childrenOf K K' hK
  have hf : (nbNode K nb').fields = (nbNode K nb).fields := h.f
  unfold NOk at hn ⊢
  unfold C16.nodeOk at hn ⊢
  have hk : (nbNode K nb').kind = (nbNode K nb).kind := rfl
  rw [hk]
  simp only [C16.Form.head, C16.Form.args, C16.compounds, C16.Redir.right, C16.MapPair.key, C16.Indexing.head,
    C16.Primary.chunk, C16.Compound.indexings, Node.ptype, hf,
    hc .compound (by decide), hc .primary (by decide), hc .chunk (by decide), hc .indexing (by decide)] at hn ⊢
  exact hn

/-! ### builder primitives -/

theorem addSep_sh (nb : NB) (e : Env) (s : St) : Ret (addSep nb e s) (fun nb' _ => GrowSep nb nb') := by
  unfold addSep
  rw [bind_of_eq (getPos_eq _ _)]
  split
  · exact Ret_bindT (fun t s1 => Ret_pure (GrowSep.addSep nb _ _ _ _))
  · exact Ret_pure (GrowSep.refl nb)

theorem parseSep_sh (nb : NB) (sep : Int) (e : Env) (s : St) :
    Ret (parseSep nb sep e s) (fun p _ => GrowSep nb p.2) := by
  unfold parseSep
  refine Ret_bindT (fun r s1 => ?_)
  split
  · refine Ret_bindT (fun _ s2 => ?_)
    exact Ret_bind (addSep_sh nb e s2) (fun nb' s3 h => Ret_pure h)
  · exact Ret_pure (GrowSep.refl nb)

theorem parseSpacesInner_sh (nb : NB) (nl : Bool) (e : Env) (s : St) :
    Ret (parseSpacesInner nb nl e s) (fun nb' _ => GrowSep nb nb') := by
  unfold parseSpacesInner
  rw [bind_of_eq (loopFuel_eq _ _)]
  exact Ret_bindT (fun _ s1 => addSep_sh nb e s1)

theorem parseSpaces_sh (nb : NB) (e : Env) (s : St) : Ret (parseSpaces nb e s) (fun nb' _ => GrowSep nb nb') :=
  parseSpacesInner_sh nb false e s

theorem parseSpacesAndNewlines_sh (nb : NB) (e : Env) (s : St) :
    Ret (parseSpacesAndNewlines nb e s) (fun nb' _ => GrowSep nb nb') :=
  parseSpacesInner_sh nb true e s

theorem parseSepsLoop_sh : ∀ (n k : Nat) (nb : NB) (e : Env) (s : St),
    Ret (parseSepsLoop n k nb e s) (fun p _ => GrowSep nb p.2)
  | 0, _, _, _, _ => Ret_fuel
  | n + 1, k, nb, e, s => by
    unfold parseSepsLoop
    refine Ret_bindT (fun r s1 => ?_)
    split
    · refine Ret_bind (parseSep_sh nb r e s1) (fun p s2 h => ?_)
      obtain ⟨b, nb1⟩ := p
      exact (parseSepsLoop_sh n _ nb1 e s2).mono (fun _ _ h2 => h.trans h2)
    split
    · refine Ret_bind (parseSpaces_sh nb e s1) (fun nb1 s2 h => ?_)
      exact (parseSepsLoop_sh n _ nb1 e s2).mono (fun _ _ h2 => h.trans h2)
    · exact Ret_pure (GrowSep.refl nb)

theorem parseSeps_sh (nb : NB) (e : Env) (s : St) : Ret (parseSeps nb e s) (fun p _ => GrowSep nb p.2) := by
  unfold parseSeps
  rw [bind_of_eq (loopFuel_eq _ _)]
  exact parseSepsLoop_sh _ _ nb e s

/-! ### what the recursive calls are assumed to return -/

/-- precondition of `parse(ps, n)`, by node type -/
def Pre (f : Nat) (e : Env) (nt : NT) (s : St) : Prop :=
  match nt with
  | .primary c => Starts e s c
  | .indexing c => Starts e s c
  | .redir (some l) => l.kind = .compound ∧ Pc f l
  | _ => True

/-- what is known of the node beyond `Pc`, by node type -/
def Extra (e : Env) (nt : NT) (s : St) (n : Node) : Prop :=
  match nt with
  | .primary _ => n.ptype ≠ Tilde
  | .indexing _ => C16.properIndexing n = true
  | .compound c => Starts e s c → C16.Compound.indexings n ≠ []
  | _ => True

def Post (f : Nat) (e : Env) (nt : NT) (s : St) (n : Node) : Prop :=
  Pre f e nt s → n.kind = nt.kind ∧ Pc f n ∧ Extra e nt s n

/-- the recursive calls return nodes that are fine up to depth `f` -/
def RecSh (f : Nat) (e : Env) (rec : NT → M Node) : Prop :=
  ∀ nt s, Ret (rec nt e s) (fun n _ => Post f e nt s n)

section
variable {e : Env} {rec : NT → M Node} {f : Nat}

/-- a recursive call whose precondition holds -/
theorem rec_ret (hrec : RecSh f e rec) (nt : NT) (s : St) (hpre : Pre f e nt s) :
    Ret (rec nt e s) (fun n _ => n.kind = nt.kind ∧ Pc f n ∧ Extra e nt s n) :=
  (hrec nt s).mono (fun _ _ h => h hpre)

/-! ### the loops, for any invariant `I` that survives separators and the additions the loop makes -/

variable {I : NB → Prop}

theorem chunkLoop_sh (hrec : RecSh f e rec) (hsep : ∀ nb nb', GrowSep nb nb' → I nb → I nb')
    (hadd : ∀ nb c, I nb → Pc f c → I (nb.add c)) :
    ∀ (n : Nat) (nb : NB) (s : St), I nb → Ret (chunkLoop rec n nb e s) (fun nb' _ => I nb')
  | 0, _, _, _ => Ret_fuel
  | n + 1, nb, s, h => by
    unfold chunkLoop
    rw [bind_of_eq (getEnv_eq _ _)]
    refine Ret_bindT (fun r s1 => ?_)
    split
    · refine Ret_bind (rec_ret hrec .pipeline s1 trivial) (fun p s2 hp => ?_)
      refine Ret_bind (parseSeps_sh _ e s2) (fun q s3 hq => ?_)
      obtain ⟨k, nb2⟩ := q
      have h2 : I nb2 := hsep _ _ hq (hadd nb p h hp.2.1)
      dsimp only
      split
      · exact Ret_pure h2
      · exact chunkLoop_sh hrec hsep hadd n nb2 s3 h2
    · exact Ret_pure h

theorem pipelineLoop_sh (hrec : RecSh f e rec) (hsep : ∀ nb nb', GrowSep nb nb' → I nb → I nb')
    (hadd : ∀ nb c, I nb → Pc f c → I (nb.add c)) :
    ∀ (n : Nat) (nb : NB) (s : St), I nb → Ret (pipelineLoop rec n nb e s) (fun p _ => I p.2)
  | 0, _, _, _ => Ret_fuel
  | n + 1, nb, s, h => by
    unfold pipelineLoop
    rw [bind_of_eq (getEnv_eq _ _)]
    refine Ret_bind (parseSep_sh nb 124 e s) (fun q s1 hq => ?_)
    obtain ⟨ok, nb1⟩ := q
    have h1 : I nb1 := hsep _ _ hq h
    dsimp only
    split
    · refine Ret_bind (parseSpacesAndNewlines_sh nb1 e s1) (fun nb2 s2 hq2 => ?_)
      have h2 : I nb2 := hsep _ _ hq2 h1
      refine Ret_bindT (fun r s3 => ?_)
      split
      · exact Ret_bindT (fun _ s4 => Ret_pure h2)
      · refine Ret_bind (rec_ret hrec .form s3 trivial) (fun fm s4 hp => ?_)
        exact pipelineLoop_sh hrec hsep hadd n _ s4 (hadd nb2 fm h2 hp.2.1)
    · exact Ret_pure h1

theorem startsCompound_eq (ip : Int → Bool) (r c : Int) : startsCompound ip r c = startsPrimary ip r c := rfl
theorem startsIndexing_eq (ip : Int → Bool) (r c : Int) : startsIndexing ip r c = startsPrimary ip r c := rfl

/-- `peek` is a function of the state -/
theorem starts_of_peek {s : St} {r c : Int} (hpk : peek e s = .ok r s) (h : startsPrimary e.isPrint r c = true) :
    Starts e s c := by
  intro r' h'
  rw [hpk] at h'
  simp only [Out.ok.injEq, and_true] at h'
  subst h'
  exact h

theorem formLoop_sh (hrec : RecSh f e rec) (hsep : ∀ nb nb', GrowSep nb nb' → I nb → I nb')
    (hadd : ∀ nb c, I nb → Pc f c → (c.kind = .compound → C16.Compound.indexings c ≠ []) → I (nb.add c)) :
    ∀ (n : Nat) (nb : NB) (s : St), I nb → Ret (formLoop rec n nb e s) (fun nb' _ => I nb')
  | 0, _, _, _ => Ret_fuel
  | n + 1, nb, s, h => by
    unfold formLoop
    rw [bind_of_eq (getEnv_eq _ _)]
    refine Ret_bind (peek_ret e s) (fun r s1 hpk => ?_)
    obtain ⟨hs1, hpk⟩ := hpk
    subst hs1
    split
    · refine Ret_bindT (fun _ s2 => ?_)
      refine Ret_bindT (fun r2 s3 => ?_)
      refine Ret_bindT (fun _ s4 => ?_)
      split
      · exact Ret_pure h
      · refine Ret_bind (rec_ret hrec .mapPair s4 trivial) (fun mp s5 hp => ?_)
        refine Ret_bind (parseSpaces_sh _ e s5) (fun nb2 s6 hq => ?_)
        refine formLoop_sh hrec hsep hadd n nb2 s6 (hsep _ _ hq (hadd nb mp h hp.2.1 ?_))
        intro hk; rw [hp.1] at hk; cases hk
    split
    · next hst =>
      rw [startsCompound_eq] at hst
      refine Ret_bind (rec_ret hrec (.compound NormalExpr) s1 trivial) (fun cn s2 hp => ?_)
      have hne := hp.2.2 (starts_of_peek hpk hst)
      refine Ret_bindT (fun r2 s3 => ?_)
      split
      · refine Ret_bind (rec_ret hrec (.redir (some cn)) s3 ⟨hp.1, hp.2.1⟩) (fun rd s4 hrd => ?_)
        refine Ret_bind (parseSpaces_sh _ e s4) (fun nb2 s5 hq => ?_)
        refine formLoop_sh hrec hsep hadd n nb2 s5 (hsep _ _ hq (hadd nb rd h hrd.2.1 ?_))
        intro hk; rw [hrd.1] at hk; cases hk
      · refine Ret_bind (parseSpaces_sh _ e s3) (fun nb2 s4 hq => ?_)
        exact formLoop_sh hrec hsep hadd n nb2 s4 (hsep _ _ hq (hadd nb cn h hp.2.1 (fun _ => hne)))
    split
    · refine Ret_bind (rec_ret hrec (.redir none) s1 trivial) (fun rd s2 hrd => ?_)
      refine Ret_bind (parseSpaces_sh _ e s2) (fun nb2 s3 hq => ?_)
      refine formLoop_sh hrec hsep hadd n nb2 s3 (hsep _ _ hq (hadd nb rd h hrd.2.1 ?_))
      intro hk; rw [hrd.1] at hk; cases hk
    · exact Ret_pure h

theorem filterLoop_sh (hrec : RecSh f e rec) (hsep : ∀ nb nb', GrowSep nb nb' → I nb → I nb')
    (hadd : ∀ nb c, I nb → Pc f c → I (nb.add c)) :
    ∀ (n : Nat) (nb : NB) (s : St), I nb → Ret (filterLoop rec n nb e s) (fun nb' _ => I nb')
  | 0, _, _, _ => Ret_fuel
  | n + 1, nb, s, h => by
    unfold filterLoop
    rw [bind_of_eq (getEnv_eq _ _)]
    refine Ret_bindT (fun r s1 => ?_)
    split
    · refine Ret_bind (rec_ret hrec .mapPair s1 trivial) (fun mp s2 hp => ?_)
      refine Ret_bind (parseSpaces_sh _ e s2) (fun nb2 s3 hq => ?_)
      exact filterLoop_sh hrec hsep hadd n nb2 s3 (hsep _ _ hq (hadd nb mp h hp.2.1))
    split
    · refine Ret_bind (rec_ret hrec (.compound NormalExpr) s1 trivial) (fun c s2 hp => ?_)
      refine Ret_bind (parseSpaces_sh _ e s2) (fun nb2 s3 hq => ?_)
      exact filterLoop_sh hrec hsep hadd n nb2 s3 (hsep _ _ hq (hadd nb c h hp.2.1))
    · exact Ret_pure h

theorem arrayLoop_sh (hrec : RecSh f e rec) (hsep : ∀ nb nb', GrowSep nb nb' → I nb → I nb')
    (hadd : ∀ nb c, I nb → Pc f c → I (nb.add c)) :
    ∀ (n : Nat) (nb : NB) (s : St), I nb → Ret (arrayLoop rec n nb e s) (fun nb' _ => I nb')
  | 0, _, _, _ => Ret_fuel
  | n + 1, nb, s, h => by
    unfold arrayLoop
    rw [bind_of_eq (getEnv_eq _ _)]
    refine Ret_bindT (fun r s1 => ?_)
    split
    · refine Ret_bind (rec_ret hrec (.compound NormalExpr) s1 trivial) (fun c s2 hp => ?_)
      refine Ret_bind (parseSpacesAndNewlines_sh _ e s2) (fun nb2 s3 hq => ?_)
      exact arrayLoop_sh hrec hsep hadd n nb2 s3 (hsep _ _ hq (hadd nb c h hp.2.1))
    · exact Ret_pure h

theorem indexingLoop_sh (hrec : RecSh f e rec) (hsep : ∀ nb nb', GrowSep nb nb' → I nb → I nb')
    (hadd : ∀ nb c, I nb → Pc f c → c.kind = .array → I (nb.add c)) :
    ∀ (n : Nat) (nb : NB) (s : St), I nb → Ret (indexingLoop rec n nb e s) (fun nb' _ => I nb')
  | 0, _, _, _ => Ret_fuel
  | n + 1, nb, s, h => by
    unfold indexingLoop
    rw [bind_of_eq (getEnv_eq _ _)]
    refine Ret_bind (parseSep_sh nb 91 e s) (fun q s1 hq => ?_)
    obtain ⟨ok, nb1⟩ := q
    have h1 : I nb1 := hsep _ _ hq h
    dsimp only
    split
    · refine Ret_bindT (fun r s2 => ?_)
      refine Ret_bindT (fun _ s3 => ?_)
      refine Ret_bind (rec_ret hrec .array s3 trivial) (fun a s4 hp => ?_)
      refine Ret_bind (parseSep_sh _ 93 e s4) (fun q2 s5 hq2 => ?_)
      obtain ⟨ok2, nb4⟩ := q2
      have h4 : I nb4 := hsep _ _ hq2 (hadd nb1 a h1 hp.2.1 hp.1)
      dsimp only
      split
      · exact Ret_bindT (fun _ s6 => Ret_pure h4)
      · exact indexingLoop_sh hrec hsep hadd n nb4 s5 h4
    · exact Ret_pure h1

/-- the `Compound` loop: every indexing it adds is a proper one; if the loop starts where an
indexing can start, or there is one already, there is one afterwards -/
theorem compoundLoop_sh (hrec : RecSh f e rec) (ctx : Int)
    (hadd : ∀ (nb : NB) (c : Node), I nb → Pc f c → c.kind = Kind.indexing → C16.properIndexing c = true → I (nb.add c))
    (J : NB → Prop) (hJ : ∀ (nb : NB) (c : Node), c.kind = Kind.indexing → J (nb.add c)) :
    ∀ (n : Nat) (nb : NB) (s : St), I nb →
      Ret (compoundLoop rec ctx n nb e s) (fun nb' _ => I nb' ∧ ((Starts e s ctx ∨ J nb) → J nb'))
  | 0, _, _, _ => Ret_fuel
  | n + 1, nb, s, h => by
    unfold compoundLoop
    rw [bind_of_eq (getEnv_eq _ _)]
    refine Ret_bind (peek_ret e s) (fun r s1 hpk => ?_)
    obtain ⟨hs1, hpk⟩ := hpk
    subst hs1
    split
    · next hst =>
      rw [startsIndexing_eq] at hst
      refine Ret_bind (rec_ret hrec (.indexing ctx) s1 (starts_of_peek hpk hst)) (fun i s2 hp => ?_)
      refine (compoundLoop_sh hrec ctx hadd J hJ n _ s2 (hadd nb i h hp.2.1 hp.1 hp.2.2)).mono ?_
      intro nb' _ h2
      exact ⟨h2.1, fun _ => h2.2 (Or.inr (hJ nb i hp.1))⟩
    · next hst =>
      rw [startsIndexing_eq] at hst
      refine Ret_pure ⟨h, fun hor => ?_⟩
      rcases hor with hor | hor
      · exact absurd (hor r hpk) hst
      · exact hor

theorem lbracketLoop_sh (hrec : RecSh f e rec) (hsep : ∀ nb nb', GrowSep nb nb' → I nb → I nb')
    (hadd : ∀ nb c, I nb → Pc f c → I (nb.add c)) (hf : ∀ nb f', I nb → I { nb with f := f' }) :
    ∀ (n : Nat) (nb : NB) (s : St), I nb → Ret (lbracketLoop rec n nb e s) (fun nb' _ => I nb')
  | 0, _, _, _ => Ret_fuel
  | n + 1, nb, s, h => by
    unfold lbracketLoop
    rw [bind_of_eq (getEnv_eq _ _)]
    refine Ret_bindT (fun r s1 => ?_)
    split
    · refine Ret_bindT (fun _ s2 => ?_)
      refine Ret_bindT (fun r2 s3 => ?_)
      dsimp only
      split
      · refine Ret_bind (addSep_sh _ e s3) (fun nb1 s4 hq => ?_)
        have h1 : I nb1 := hsep _ _ hq (hf nb _ h)
        exact (parseSpacesAndNewlines_sh nb1 e s4).mono (fun nb2 _ hq2 => hsep _ _ hq2 h1)
      · refine Ret_bindT (fun _ s4 => ?_)
        refine Ret_bind (rec_ret hrec .mapPair s4 trivial) (fun mp s5 hp => ?_)
        refine Ret_bind (parseSpacesAndNewlines_sh _ e s5) (fun nb2 s6 hq => ?_)
        exact lbracketLoop_sh hrec hsep hadd hf n nb2 s6 (hsep _ _ hq (hadd nb mp h hp.2.1))
    split
    · refine Ret_bind (rec_ret hrec (.compound NormalExpr) s1 trivial) (fun c s2 hp => ?_)
      refine Ret_bind (parseSpacesAndNewlines_sh _ e s2) (fun nb2 s3 hq => ?_)
      exact lbracketLoop_sh hrec hsep hadd hf n nb2 s3 (hsep _ _ hq (hadd nb c h hp.2.1))
    · exact Ret_pure h

theorem lambdaLoop_sh (hrec : RecSh f e rec) (hsep : ∀ nb nb', GrowSep nb nb' → I nb → I nb')
    (hadd : ∀ nb c, I nb → Pc f c → I (nb.add c)) :
    ∀ (n : Nat) (nb : NB) (s : St), I nb → Ret (lambdaLoop rec n nb e s) (fun nb' _ => I nb')
  | 0, _, _, _ => Ret_fuel
  | n + 1, nb, s, h => by
    unfold lambdaLoop
    rw [bind_of_eq (getEnv_eq _ _)]
    refine Ret_bindT (fun r s1 => ?_)
    split
    · refine Ret_bind (rec_ret hrec .mapPair s1 trivial) (fun mp s2 hp => ?_)
      refine Ret_bind (parseSpacesAndNewlines_sh _ e s2) (fun nb2 s3 hq => ?_)
      exact lambdaLoop_sh hrec hsep hadd n nb2 s3 (hsep _ _ hq (hadd nb mp h hp.2.1))
    split
    · refine Ret_bind (rec_ret hrec (.compound NormalExpr) s1 trivial) (fun c s2 hp => ?_)
      refine Ret_bind (parseSpacesAndNewlines_sh _ e s2) (fun nb2 s3 hq => ?_)
      exact lambdaLoop_sh hrec hsep hadd n nb2 s3 (hsep _ _ hq (hadd nb c h hp.2.1))
    · exact Ret_pure h

theorem bracedLoop_sh (hrec : RecSh f e rec) (hsep : ∀ nb nb', GrowSep nb nb' → I nb → I nb')
    (hadd : ∀ nb c, I nb → Pc f c → I (nb.add c)) :
    ∀ (n : Nat) (nb : NB) (s : St), I nb → Ret (bracedLoop rec n nb e s) (fun nb' _ => I nb')
  | 0, _, _, _ => Ret_fuel
  | n + 1, nb, s, h => by
    unfold bracedLoop
    refine Ret_bindT (fun r s1 => ?_)
    split
    · refine Ret_bind (parseSpacesAndNewlines_sh nb e s1) (fun nb1 s2 hq1 => ?_)
      refine Ret_bind (parseSep_sh nb1 44 e s2) (fun q s3 hq2 => ?_)
      obtain ⟨ok, nb2⟩ := q
      dsimp only
      refine Ret_bind (parseSpacesAndNewlines_sh nb2 e s3) (fun nb3 s4 hq3 => ?_)
      refine Ret_bind (rec_ret hrec (.compound BracedElemExpr) s4 trivial) (fun c s5 hp => ?_)
      exact bracedLoop_sh hrec hsep hadd n _ s5
        (hadd nb3 c (hsep _ _ hq3 (hsep _ _ hq2 (hsep _ _ hq1 h))) hp.2.1)
    · exact Ret_pure h

end
end C16P
