/-
C16: every tree the C01 parser model builds has the `shape` the compiler
relies on — part 2: the grammar functions, `wrap`, `parseNT` (induction on the
fuel) and `Parse`.
-/
import ElvProofs.C16.ParserShape1
import ElvProofs.C16.SafeNodes
namespace C16P
open Go
open Gen.C01Chars
open C01

/-! ### children of one kind -/

/-- the children of kind `K'` added so far (`Form.Args`+head, `Compound.Indexings`, …) -/
def co (K' : Kind) (nb : NB) : List Node := nb.children.filter (fun x => x.kind == K')

theorem co_nil {K' : Kind} {nb : NB} (h : nb.children = []) : co K' nb = [] := by
  unfold co; rw [h]; rfl

theorem co_add (K' : Kind) (nb : NB) (c : Node) :
    co K' (nb.add c) = co K' nb ++ (if c.kind = K' then [c] else []) := by
  unfold co NB.add
  simp only [List.filter_append, List.filter_cons, List.filter_nil, beq_iff_eq]

theorem co_add_same {K' : Kind} (nb : NB) {c : Node} (h : c.kind = K') : co K' (nb.add c) = co K' nb ++ [c] := by
  rw [co_add, if_pos h]

theorem co_add_other {K' : Kind} (nb : NB) {c : Node} (h : c.kind ≠ K') : co K' (nb.add c) = co K' nb := by
  rw [co_add, if_neg h, List.append_nil]

theorem GrowSep.co {nb nb' : NB} (h : GrowSep nb nb') (K' : Kind) (hK : K' ≠ .sep) : co K' nb' = co K' nb :=
  h.childrenOf .chunk K' hK

theorem shapeL_of : ∀ {cs : List Node}, (∀ c ∈ cs, C16.shape c = true) → C16.shapeL cs = true
  | [], _ => rfl
  | c :: cs, h => by
    simp only [C16.shapeL, Bool.and_eq_true]
    exact ⟨h c List.mem_cons_self, shapeL_of (fun x hx => h x (List.mem_cons_of_mem _ hx))⟩

theorem nestL_le : ∀ {cs : List Node} {g : Nat}, (∀ c ∈ cs, C16.nest c ≤ g) → C16.nestL cs ≤ g
  | [], _, _ => Nat.zero_le _
  | c :: cs, g, h => by
    simp only [C16.nestL]
    exact Nat.max_le.mpr ⟨h c List.mem_cons_self, nestL_le (fun x hx => h x (List.mem_cons_of_mem _ hx))⟩

theorem mem_drop_snoc {α : Type} {l : List α} {c x : α} (h : x ∈ (l ++ [c]).drop 1) : x ∈ l.drop 1 ∨ x = c := by
  cases l with
  | nil => simp at h
  | cons a t =>
    simp only [List.cons_append, List.drop_succ_cons, List.drop_zero, List.mem_append, List.mem_singleton] at h ⊢
    exact h

section
variable {e : Env} {rec : NT → M Node} {f g : Nat}

theorem allP_sep : ∀ nb nb', GrowSep nb nb' → AllP g nb → AllP g nb' := fun _ _ h ha => h.allP ha

theorem allP_add (hle : f ≤ g) : ∀ (nb : NB) (c : Node), AllP g nb → Pc f c → AllP g (nb.add c) :=
  fun _ _ h hc => h.add (hc.le hle)

/-! ### `Chunk`, `Pipeline`, `Filter`, `Array`: nothing is assumed of these nodes -/

theorem chunkBody_sh (hrec : RecSh f e rec) (hle : f ≤ g) (nb : NB) (s : St) (h : AllP g nb) :
    Ret (chunkBody rec nb e s) (fun nb' _ => AllP g nb') := by
  unfold chunkBody
  refine Ret_bind (parseSeps_sh nb e s) (fun q s1 hq => ?_)
  obtain ⟨k, nb1⟩ := q
  dsimp only
  rw [bind_of_eq (loopFuel_eq _ _)]
  exact chunkLoop_sh hrec allP_sep (allP_add hle) _ nb1 s1 (hq.allP h)

theorem pipelineBody_sh (hrec : RecSh f e rec) (hle : f ≤ g) (nb : NB) (s : St) (h : AllP g nb) :
    Ret (pipelineBody rec nb e s) (fun nb' _ => AllP g nb') := by
  unfold pipelineBody
  refine Ret_bind (rec_ret hrec .form s trivial) (fun fm s1 hp => ?_)
  rw [bind_of_eq (loopFuel_eq _ _)]
  refine Ret_bind (pipelineLoop_sh hrec allP_sep (allP_add hle) _ _ s1 (allP_add hle nb fm h hp.2.1))
    (fun q s2 h2 => ?_)
  obtain ⟨returned, nb2⟩ := q
  dsimp only at h2 ⊢
  split
  · exact Ret_pure h2
  · refine Ret_bind (parseSpaces_sh nb2 e s2) (fun nb3 s3 hq3 => ?_)
    have h3 := hq3.allP h2
    refine Ret_bindT (fun r s4 => ?_)
    split
    · refine Ret_bindT (fun _ s5 => ?_)
      refine Ret_bind (addSep_sh nb3 e s5) (fun nb4 s6 hq4 => ?_)
      have h4 : AllP g nb4 := hq4.allP h3
      exact (parseSpaces_sh _ e s6).mono (fun nb5 _ hq5 => hq5.allP (fun c hc => h4 c hc))
    · exact Ret_pure h3

theorem filterBody_sh (hrec : RecSh f e rec) (hle : f ≤ g) (nb : NB) (s : St) (h : AllP g nb) :
    Ret (filterBody rec nb e s) (fun nb' _ => AllP g nb') := by
  unfold filterBody
  refine Ret_bind (parseSpaces_sh nb e s) (fun nb1 s1 hq => ?_)
  rw [bind_of_eq (loopFuel_eq _ _)]
  exact filterLoop_sh hrec allP_sep (allP_add hle) _ nb1 s1 (hq.allP h)

theorem arrayBody_sh (hrec : RecSh f e rec) (hle : f ≤ g) (nb : NB) (s : St) (h : AllP g nb) :
    Ret (arrayBody rec nb e s) (fun nb' _ => AllP g nb') := by
  unfold arrayBody
  refine Ret_bind (parseSpacesAndNewlines_sh nb e s) (fun nb1 s1 hq => ?_)
  rw [bind_of_eq (loopFuel_eq _ _)]
  exact arrayLoop_sh hrec allP_sep (allP_add hle) _ nb1 s1 (hq.allP h)

/-! ### `Form`: the head is there, every argument has an indexing -/

def FormI (g : Nat) (nb : NB) : Prop :=
  AllP g nb ∧ ∃ hd tl, co .compound nb = hd :: tl ∧ ∀ c ∈ tl, C16.Compound.indexings c ≠ []

theorem formBody_sh (hrec : RecSh f e rec) (hle : f ≤ g) (nb : NB) (s : St) (hnil : nb.children = []) :
    Ret (formBody rec nb e s) (fun nb' _ => FormI g nb') := by
  have hsep : ∀ nb nb', GrowSep nb nb' → FormI g nb → FormI g nb' := by
    intro nb nb' hq ⟨ha, hd, tl, hco, htl⟩
    exact ⟨hq.allP ha, hd, tl, (by rw [hq.co .compound (by decide), hco]), htl⟩
  have hadd : ∀ nb c, FormI g nb → Pc f c → (c.kind = .compound → C16.Compound.indexings c ≠ []) →
      FormI g (nb.add c) := by
    intro nb c ⟨ha, hd, tl, hco, htl⟩ hc hne
    refine ⟨ha.add (hc.le hle), ?_⟩
    by_cases hk : c.kind = .compound
    · refine ⟨hd, tl ++ [c], (by rw [co_add_same nb hk, hco]; rfl), fun x hx => ?_⟩
      rcases List.mem_append.mp hx with hx | hx
      · exact htl x hx
      · rw [List.mem_singleton] at hx; subst hx; exact hne hk
    · exact ⟨hd, tl, (by rw [co_add_other nb hk, hco]), htl⟩
  unfold formBody
  refine Ret_bind (rec_ret hrec (.compound CmdExpr) s trivial) (fun head s1 hp => ?_)
  have h1 : FormI g (nb.add head) := by
    refine ⟨fun c hc => ?_, head, [], ?_, fun _ h => by cases h⟩
    · simp only [NB.add, hnil, List.nil_append, List.mem_singleton] at hc
      subst hc; exact hp.2.1.le hle
    · rw [co_add_same (K' := .compound) nb hp.1, co_nil hnil]; rfl
  refine Ret_bind (parseSpaces_sh _ e s1) (fun nb2 s2 hq => ?_)
  rw [bind_of_eq (loopFuel_eq _ _)]
  exact formLoop_sh hrec hsep hadd _ nb2 s2 (hsep _ _ hq h1)

/-! ### `Redir`: the right operand is there -/

theorem setMode_sh (nb : NB) (sign : Bytes) (s : St) :
    Ret (setMode nb sign e s) (fun nb' _ => nb'.children = nb.children ∧ nb'.f.hasLeft = nb.f.hasLeft) := by
  unfold setMode
  cases redirMode sign with
  | some m => exact Ret_pure ⟨rfl, rfl⟩
  | none =>
    show Ret ((error Msg.badRedirSign >>= fun _ => pure nb) e s) _
    exact Ret_bindT (fun _ _ => Ret_pure ⟨rfl, rfl⟩)

def RedirI (g : Nat) (left : Option Node) (nb : NB) : Prop :=
  AllP g nb ∧ co .compound nb = left.toList ∧ nb.f.hasLeft = left.isSome

theorem redirBody_sh (hrec : RecSh f e rec) (hle : f ≤ g) (left : Option Node) (nb : NB) (s : St)
    (hnil : nb.children = []) (hf : nb.f = (NT.redir left).init)
    (hl : ∀ l, left = some l → l.kind = .compound ∧ Pc g l) :
    Ret (redirBody rec left nb e s)
      (fun nb' _ => AllP g nb' ∧ ∃ r, co .compound nb' = left.toList ++ [r] ∧ nb'.f.hasLeft = left.isSome) := by
  have hsep : ∀ nb nb', GrowSep nb nb' → RedirI g left nb → RedirI g left nb' := by
    intro nb nb' hq ⟨ha, hco, hh⟩
    exact ⟨hq.allP ha, (by rw [hq.co .compound (by decide), hco]), (by rw [hq.f, hh])⟩
  have h0 : RedirI g left (attachLeft left nb) := by
    cases left with
    | none =>
      refine ⟨fun c hc => ?_, co_nil hnil, (by show nb.f.hasLeft = _; rw [hf]; rfl)⟩
      change c ∈ nb.children at hc
      rw [hnil] at hc; cases hc
    | some l =>
      obtain ⟨hlk, hlp⟩ := hl l rfl
      refine ⟨fun c hc => ?_, ?_, (by show nb.f.hasLeft = _; rw [hf]; rfl)⟩
      · simp only [attachLeft, NB.add, hnil, List.nil_append, List.mem_singleton] at hc
        subst hc; exact hlp
      · show co .compound (nb.add l) = [l]
        rw [co_add_same nb hlk, co_nil hnil]; rfl
  unfold redirBody redirRest
  generalize attachLeft left nb = nb1 at h0
  rw [bind_of_eq (getPos_eq _ _), bind_of_eq (loopFuel_eq _ _)]
  refine Ret_bindT (fun _ s2 => ?_)
  rw [bind_of_eq (getPos_eq _ _)]
  refine Ret_bindT (fun sign s3 => ?_)
  refine Ret_bind (setMode_sh nb1 sign s3) (fun nb2 s4 hm => ?_)
  have h2 : RedirI g left nb2 := by
    obtain ⟨ha, hco, hh⟩ := h0
    exact ⟨fun c hc => ha c (by rw [← hm.1]; exact hc), (by unfold co; rw [hm.1]; exact hco), (by rw [hm.2, hh])⟩
  refine Ret_bind (addSep_sh nb2 e s4) (fun nb3 s5 hq3 => ?_)
  refine Ret_bind (parseSpaces_sh nb3 e s5) (fun nb4 s6 hq4 => ?_)
  refine Ret_bind (parseSep_sh nb4 38 e s6) (fun q s7 hq5 => ?_)
  obtain ⟨isFd, nb5⟩ := q
  have h5 : RedirI g left nb5 := hsep _ _ hq5 (hsep _ _ hq4 (hsep _ _ hq3 h2))
  dsimp only
  generalize hnb6 : (if isFd = true then ({ nb5 with f := { nb5.f with flag := true } } : NB) else nb5) = nb6
  have h6 : RedirI g left nb6 := by
    subst hnb6; split
    · exact ⟨fun c hc => h5.1 c hc, h5.2.1, h5.2.2⟩
    · exact h5
  refine Ret_bind (rec_ret hrec (.compound NormalExpr) s7 trivial) (fun right s8 hp => ?_)
  have hfin : AllP g (nb6.add right) ∧ ∃ r, co .compound (nb6.add right) = left.toList ++ [r] ∧
      (nb6.add right).f.hasLeft = left.isSome :=
    ⟨h6.1.add (hp.2.1.le hle), right, (by rw [co_add_same (K' := .compound) nb6 hp.1, h6.2.1]), h6.2.2⟩
  split
  · exact Ret_bindT (fun _ _ => Ret_pure hfin)
  · exact Ret_pure hfin

/-! ### `MapPair`: the key is there -/

theorem mapPairBody_sh (hrec : RecSh f e rec) (hle : f ≤ g) (nb : NB) (s : St) (hnil : nb.children = []) :
    Ret (mapPairBody rec nb e s) (fun nb' _ => AllP g nb' ∧ co .compound nb' ≠ []) := by
  unfold mapPairBody
  refine Ret_bind (parseSep_sh nb 38 e s) (fun q s1 hq => ?_)
  obtain ⟨ok0, nb1⟩ := q
  dsimp only at hq ⊢
  have h1 : AllP g nb1 := hq.allP (fun c hc => by rw [hnil] at hc; cases hc)
  refine Ret_bind (rec_ret hrec (.compound LHSExpr) s1 trivial) (fun key s2 hp => ?_)
  have h2 : AllP g (nb1.add key) ∧ co .compound (nb1.add key) ≠ [] :=
    ⟨h1.add (hp.2.1.le hle), (by rw [co_add_same (K' := .compound) nb1 hp.1]; simp)⟩
  refine Ret_bindT (fun _ s3 => ?_)
  refine Ret_bind (parseSep_sh _ 61 e s3) (fun q s4 hq4 => ?_)
  obtain ⟨ok, nb4⟩ := q
  dsimp only at hq4 ⊢
  have h4 : AllP g nb4 ∧ co .compound nb4 ≠ [] := ⟨hq4.allP h2.1, (by rw [hq4.co .compound (by decide)]; exact h2.2)⟩
  split
  · refine Ret_bind (parseSpacesAndNewlines_sh nb4 e s4) (fun nb5 s5 hq5 => ?_)
    refine Ret_bind (rec_ret hrec (.compound NormalExpr) s5 trivial) (fun v s6 hv => ?_)
    refine Ret_pure ⟨(hq5.allP h4.1).add (hv.2.1.le hle), ?_⟩
    rw [co_add_same (K' := .compound) nb5 hv.1, hq5.co .compound (by decide)]
    intro hh
    exact h4.2 (List.append_eq_nil_iff.mp hh).1
  · exact Ret_pure h4

/-! ### `Compound`: only the first indexing can be the `~`; not empty where a compound can start -/

def CompI (g : Nat) (nb : NB) : Prop :=
  AllP g nb ∧ ∀ ix ∈ (co .indexing nb).drop 1, C16.properIndexing ix = true

theorem tildeIx_Pc (a b : Nat) (g : Nat) :
    Pc g (Node.mk .indexing a b [126] {} [Node.mk .primary a b [126] { ptype := Tilde, value := [126] } []]) := by
  constructor
  · simp [C16.shape, C16.shapeL, C16.nodeOk, Node.kind, C16.Indexing.head, Node.childrenOf, Node.children,
      Node.ptype, Node.fields, C16.Primary.chunk]
    decide
  · simp [C16.nest, C16.nestL]

theorem tilde_sh (nb : NB) (s : St) :
    Ret (tilde nb e s) (fun nb' s' => (nb' = nb ∧ s' = s) ∨
      ∃ ix, nb' = nb.add ix ∧ ix.kind = .indexing ∧ Pc 0 ix) := by
  unfold tilde
  refine Ret_bind (peek_ret e s) (fun r s1 hpk => ?_)
  obtain ⟨hs1, _⟩ := hpk
  subst hs1
  split
  · refine Ret_bindT (fun _ s2 => ?_)
    rw [bind_of_eq (getPos_eq _ _)]
    split
    · exact Ret_pure (Or.inr ⟨_, rfl, rfl, tildeIx_Pc _ _ 0⟩)
    · trivial
  · exact Ret_pure (Or.inl ⟨rfl, rfl⟩)

theorem compoundBody_sh (hrec : RecSh f e rec) (hle : f ≤ g) (nb : NB) (s : St) (hnil : nb.children = []) :
    Ret (compoundBody rec nb e s) (fun nb' _ => CompI g nb' ∧ (Starts e s nb.f.ctx → co .indexing nb' ≠ [])) := by
  have hadd : ∀ (nb : NB) (c : Node), CompI g nb → Pc f c → c.kind = Kind.indexing →
      C16.properIndexing c = true → CompI g (nb.add c) := by
    intro nb c ⟨ha, hpr⟩ hc hk hp
    refine ⟨ha.add (hc.le hle), fun ix hix => ?_⟩
    rw [co_add_same nb hk] at hix
    rcases mem_drop_snoc hix with h | h
    · exact hpr ix h
    · subst h; exact hp
  have hJ : ∀ (nb : NB) (c : Node), c.kind = Kind.indexing → co .indexing (nb.add c) ≠ [] := by
    intro nb c hk; rw [co_add_same nb hk]; simp
  unfold compoundBody
  refine Ret_bind (tilde_sh nb s) (fun nb1 s1 ht => ?_)
  rw [bind_of_eq (loopFuel_eq _ _)]
  rcases ht with ⟨hnb, hs⟩ | ⟨ix, hnb, hk, hp⟩
  · subst hnb; subst hs
    refine (compoundLoop_sh hrec _ hadd (fun nb => co .indexing nb ≠ []) hJ _ nb1 s1
      ⟨fun c hc => (by rw [hnil] at hc; cases hc), fun ix hix => (by rw [co_nil hnil] at hix; cases hix)⟩).mono ?_
    intro nb' _ h2
    exact ⟨h2.1, fun hst => h2.2 (Or.inl hst)⟩
  · subst hnb
    refine (compoundLoop_sh hrec _ hadd (fun nb => co .indexing nb ≠ []) hJ _ _ s1
      ⟨fun c hc => ?_, fun ix' hix => ?_⟩).mono ?_
    · simp only [NB.add, hnil, List.nil_append, List.mem_singleton] at hc
      subst hc; exact hp.le (Nat.zero_le _)
    · rw [co_add_same nb hk, co_nil hnil] at hix; cases hix
    · intro nb' _ h2
      exact ⟨h2.1, fun _ => h2.2 (Or.inr (hJ nb ix hk))⟩

/-! ### `Indexing`: the head is there, is a known primary and not the `~` -/

def IxI (g : Nat) (nb : NB) : Prop :=
  AllP g nb ∧ ∃ hd, (co .primary nb).head? = some hd ∧ C16.goodPType hd.ptype = true ∧ hd.ptype ≠ Tilde

theorem head?_append_of_some {α : Type} {l m : List α} {a : α} (h : l.head? = some a) : (l ++ m).head? = some a := by
  cases l with
  | nil => cases h
  | cons x xs => exact h

theorem indexingBody_sh (hrec : RecSh f e rec) (hle : f ≤ g) (nb : NB) (s : St) (hnil : nb.children = [])
    (hst : Starts e s nb.f.ctx) : Ret (indexingBody rec nb e s) (fun nb' _ => IxI g nb') := by
  have hsep : ∀ nb nb', GrowSep nb nb' → IxI g nb → IxI g nb' := by
    intro nb nb' hq ⟨ha, hd, hh, hg, hn⟩
    exact ⟨hq.allP ha, hd, (by rw [hq.co .primary (by decide)]; exact hh), hg, hn⟩
  have hadd : ∀ nb c, IxI g nb → Pc f c → c.kind = .array → IxI g (nb.add c) := by
    intro nb c ⟨ha, hd, hh, hg, hn⟩ hc hk
    exact ⟨ha.add (hc.le hle), hd, (by rw [co_add_other nb (by rw [hk]; decide)]; exact hh), hg, hn⟩
  unfold indexingBody
  refine Ret_bind (rec_ret hrec (.primary nb.f.ctx) s hst) (fun head s1 hp => ?_)
  rw [bind_of_eq (loopFuel_eq _ _)]
  refine indexingLoop_sh hrec hsep hadd _ _ s1 ⟨fun c hc => ?_, head, ?_, ?_, hp.2.2⟩
  · simp only [NB.add, hnil, List.nil_append, List.mem_singleton] at hc
    subst hc; exact hp.2.1.le hle
  · rw [co_add_same (K' := .primary) nb hp.1, co_nil hnil]; rfl
  · exact (C16.nodeOk_primary (C16.shape_nodeOk hp.2.1.1) hp.1).1

/-! ### `Primary` -/

/-- `Type` is one of the twelve and not `Tilde`; captures and lambdas have their chunk -/
def PrimFin (nb : NB) : Prop :=
  C16.goodPType nb.f.ptype = true ∧ nb.f.ptype ≠ Tilde ∧
    ((nb.f.ptype == ExceptionCapture || nb.f.ptype == OutputCapture || nb.f.ptype == Lambda) = true →
      co .chunk nb ≠ [])

theorem PrimFin.plain {nb : NB} {t : Int} (hpt : nb.f.ptype = t) (hg : C16.goodPType t = true) (hn : t ≠ Tilde)
    (hc : (t == ExceptionCapture || t == OutputCapture || t == Lambda) = false) : PrimFin nb := by
  refine ⟨by rw [hpt]; exact hg, by rw [hpt]; exact hn, fun h => ?_⟩
  rw [hpt, hc] at h; cases h

theorem PrimFin.withChunk {nb : NB} {t : Int} (hpt : nb.f.ptype = t) (hg : C16.goodPType t = true) (hn : t ≠ Tilde)
    (hc : co .chunk nb ≠ []) : PrimFin nb :=
  ⟨by rw [hpt]; exact hg, by rw [hpt]; exact hn, fun _ => hc⟩

/-- a leaf alternative: no children, the type is `t` -/
def LeafSh (t : Int) (nb : NB) (nb' : NB) : Prop := nb'.children = nb.children ∧ nb'.f.ptype = t

syntax "leaf_tac" : tactic
macro_rules | `(tactic| leaf_tac) => `(tactic| repeat' (first
  | exact Ret_pure ⟨rfl, rfl⟩
  | refine Ret_bindT (fun _ _ => ?_)
  | split))

theorem bareword_sh (nb : NB) (s : St) : Ret (bareword nb e s) (fun nb' _ => LeafSh Bareword nb nb') := by
  unfold bareword; leaf_tac
theorem singleQuoted_sh (nb : NB) (s : St) : Ret (singleQuoted nb e s) (fun nb' _ => LeafSh SingleQuoted nb nb') := by
  unfold singleQuoted; leaf_tac
theorem doubleQuoted_sh (nb : NB) (s : St) : Ret (doubleQuoted nb e s) (fun nb' _ => LeafSh DoubleQuoted nb nb') := by
  unfold doubleQuoted; leaf_tac
theorem variableP_sh (nb : NB) (s : St) : Ret (variableP nb e s) (fun nb' _ => LeafSh Variable nb nb') := by
  unfold variableP; leaf_tac
theorem starWildcard_sh (nb : NB) (s : St) : Ret (starWildcard nb e s) (fun nb' _ => LeafSh Wildcard nb nb') := by
  unfold starWildcard; leaf_tac
theorem questionWildcard_sh (nb : NB) (s : St) :
    Ret (questionWildcard nb e s) (fun nb' _ => LeafSh Wildcard nb nb') := by
  unfold questionWildcard; leaf_tac

theorem LeafSh.fin {t : Int} {nb nb' : NB} (h : LeafSh t nb nb') (hnil : nb.children = [])
    (hg : C16.goodPType t = true) (hn : t ≠ Tilde)
    (hc : (t == ExceptionCapture || t == OutputCapture || t == Lambda) = false) : AllP g nb' ∧ PrimFin nb' :=
  ⟨fun c hc' => (by rw [h.1, hnil] at hc'; cases hc'), PrimFin.plain h.2 hg hn hc⟩

/-- the closing `)`/`}` and the error if it is missing -/
theorem close_sh (nb : NB) (sep : Int) (m : Msg) (s : St) {Q : NB → Prop}
    (hQ : ∀ nb', GrowSep nb nb' → Q nb') :
    Ret ((do
      let (ok, nb) ← parseSep nb sep
      if !ok then
        error m
        pure nb
      else pure nb : M NB) e s) (fun nb' _ => Q nb') := by
  refine Ret_bind (parseSep_sh nb sep e s) (fun q s1 hq => ?_)
  obtain ⟨ok, nb1⟩ := q
  dsimp only at hq ⊢
  split
  · exact Ret_bindT (fun _ _ => Ret_pure (hQ _ hq))
  · exact Ret_pure (hQ _ hq)

theorem exitusCapture_sh (hrec : RecSh f e rec) (hle : f ≤ g) (nb : NB) (s : St) (hnil : nb.children = []) :
    Ret (exitusCapture rec nb e s) (fun nb' _ => AllP g nb' ∧ PrimFin nb') := by
  unfold exitusCapture
  refine Ret_bindT (fun _ s1 => ?_)
  refine Ret_bindT (fun _ s2 => ?_)
  refine Ret_bind (addSep_sh nb e s2) (fun nb1 s3 hq => ?_)
  have h1 : AllP g nb1 := hq.allP (fun c hc => by rw [hnil] at hc; cases hc)
  refine Ret_bind (rec_ret hrec .chunk s3 trivial) (fun c s4 hp => ?_)
  refine close_sh _ 41 _ s4 (fun nb' hq' => ?_)
  refine ⟨hq'.allP (AllP.add (fun x hx => h1 x hx) (hp.2.1.le hle)), PrimFin.withChunk (t := ExceptionCapture)
    (by rw [hq'.f]; rfl) (by decide) (by decide) ?_⟩
  rw [hq'.co .chunk (by decide), co_add_same (K' := .chunk) _ hp.1]; simp

theorem outputCapture_sh (hrec : RecSh f e rec) (hle : f ≤ g) (nb : NB) (s : St) (hnil : nb.children = []) :
    Ret (outputCapture rec nb e s) (fun nb' _ => AllP g nb' ∧ PrimFin nb') := by
  unfold outputCapture
  refine Ret_bind (parseSep_sh _ 40 e s) (fun q s1 hq => ?_)
  obtain ⟨ok0, nb1⟩ := q
  dsimp only at hq ⊢
  have h1 : AllP g nb1 := hq.allP (fun c hc => by
    simp only [NB.setType] at hc; rw [hnil] at hc; cases hc)
  refine Ret_bind (rec_ret hrec .chunk s1 trivial) (fun c s2 hp => ?_)
  refine close_sh _ 41 _ s2 (fun nb' hq' => ?_)
  refine ⟨hq'.allP (h1.add (hp.2.1.le hle)), PrimFin.withChunk (t := OutputCapture)
    (by rw [hq'.f]; show nb1.f.ptype = _; rw [hq.f]; rfl) (by decide) (by decide) ?_⟩
  rw [hq'.co .chunk (by decide), co_add_same (K' := .chunk) _ hp.1]; simp

theorem lbracket_sh (hrec : RecSh f e rec) (hle : f ≤ g) (nb : NB) (s : St) (hnil : nb.children = []) :
    Ret (lbracket rec nb e s) (fun nb' _ => AllP g nb' ∧ PrimFin nb') := by
  unfold lbracket
  refine Ret_bind (parseSep_sh nb 91 e s) (fun q s1 hq => ?_)
  obtain ⟨ok0, nb1⟩ := q
  dsimp only at hq ⊢
  have h1 : AllP g nb1 := hq.allP (fun c hc => by rw [hnil] at hc; cases hc)
  refine Ret_bind (parseSpacesAndNewlines_sh nb1 e s1) (fun nb2 s2 hq2 => ?_)
  rw [bind_of_eq (loopFuel_eq _ _)]
  refine Ret_bind (lbracketLoop_sh (I := AllP g) hrec allP_sep (allP_add hle) (fun nb f' h c hc => h c hc)
    _ nb2 s2 (hq2.allP h1)) (fun nb3 s3 h3 => ?_)
  refine Ret_bind (parseSep_sh nb3 93 e s3) (fun q s4 hq4 => ?_)
  obtain ⟨ok, nb4⟩ := q
  dsimp only at hq4 ⊢
  have h4 : AllP g nb4 := hq4.allP h3
  refine Ret_bindT (fun _ s5 => ?_)
  split
  · refine Ret_bindT (fun _ s6 => Ret_pure ⟨fun c hc => h4 c hc, ?_⟩)
    exact PrimFin.plain (t := MapPrimary) rfl (by decide) (by decide) (by decide)
  · refine Ret_pure ⟨fun c hc => h4 c hc, ?_⟩
    exact PrimFin.plain (t := ListPrimary) rfl (by decide) (by decide) (by decide)

def LamI (g : Nat) (t : Int) (nb : NB) : Prop := AllP g nb ∧ nb.f.ptype = t

theorem LamI.sep {t : Int} : ∀ nb nb', GrowSep nb nb' → LamI g t nb → LamI g t nb' :=
  fun _ _ hq h => ⟨hq.allP h.1, by rw [hq.f]; exact h.2⟩

theorem LamI.add {t : Int} (hle : f ≤ g) : ∀ (nb : NB) (c : Node), LamI g t nb → Pc f c → LamI g t (nb.add c) :=
  fun _ _ h hc => ⟨h.1.add (hc.le hle), h.2⟩

theorem lambda_sh (hrec : RecSh f e rec) (hle : f ≤ g) (nb : NB) (s : St) (hnil : nb.children = []) :
    Ret (C01.lambda rec nb e s) (fun nb' _ => AllP g nb' ∧ PrimFin nb') := by
  unfold C01.lambda
  have h0 : LamI g Lambda (nb.setType Lambda) :=
    ⟨fun c hc => (by simp only [NB.setType] at hc; rw [hnil] at hc; cases hc), rfl⟩
  refine Ret_bind (parseSpacesAndNewlines_sh _ e s) (fun nb1 s1 hq1 => ?_)
  have h1 := LamI.sep _ _ hq1 h0
  refine Ret_bind (parseSep_sh nb1 124 e s1) (fun q s2 hq2 => ?_)
  obtain ⟨ok, nb2⟩ := q
  dsimp only at hq2 ⊢
  have h2 := LamI.sep _ _ hq2 h1
  refine Ret_bind (P := fun nb3 _ => LamI g Lambda nb3) ?_ (fun nb3 s3 h3 => ?_)
  · split
    · refine Ret_bind (parseSpacesAndNewlines_sh nb2 e s2) (fun nb3 s3 hq3 => ?_)
      rw [bind_of_eq (loopFuel_eq _ _)]
      refine Ret_bind (lambdaLoop_sh hrec LamI.sep (LamI.add hle) _ nb3 s3 (LamI.sep _ _ hq3 h2))
        (fun nb4 s4 h4 => ?_)
      refine Ret_bind (parseSep_sh nb4 124 e s4) (fun q s5 hq5 => ?_)
      obtain ⟨ok2, nb5⟩ := q
      dsimp only at hq5 ⊢
      exact Ret_bindT (fun _ _ => Ret_pure (LamI.sep _ _ hq5 h4))
    · exact Ret_pure h2
  refine Ret_bind (rec_ret hrec .chunk s3 trivial) (fun c s4 hp => ?_)
  refine close_sh _ 125 _ s4 (fun nb' hq' => ?_)
  refine ⟨hq'.allP (h3.1.add (hp.2.1.le hle)), PrimFin.withChunk (t := Lambda)
    (by rw [hq'.f]; exact h3.2) (by decide) (by decide) ?_⟩
  rw [hq'.co .chunk (by decide), co_add_same (K' := .chunk) _ hp.1]; simp

theorem lbrace_sh (hrec : RecSh f e rec) (hle : f ≤ g) (nb : NB) (s : St) (hnil : nb.children = []) :
    Ret (lbrace rec nb e s) (fun nb' _ => AllP g nb' ∧ PrimFin nb') := by
  unfold lbrace
  refine Ret_bind (parseSep_sh nb 123 e s) (fun q s1 hq => ?_)
  obtain ⟨ok0, nb1⟩ := q
  dsimp only at hq ⊢
  have h1 : AllP g nb1 := hq.allP (fun c hc => by rw [hnil] at hc; cases hc)
  refine Ret_bindT (fun r s2 => ?_)
  split
  · -- a lambda: the `{` separator is already a child; redo `lambda_sh` from a non-empty builder
    unfold C01.lambda
    have h0 : LamI g Lambda (nb1.setType Lambda) := ⟨fun c hc => h1 c hc, rfl⟩
    refine Ret_bind (parseSpacesAndNewlines_sh _ e s2) (fun nb2 s3 hq1 => ?_)
    have h2 := LamI.sep _ _ hq1 h0
    refine Ret_bind (parseSep_sh nb2 124 e s3) (fun q s4 hq2 => ?_)
    obtain ⟨ok, nb3⟩ := q
    dsimp only at hq2 ⊢
    have h3 := LamI.sep _ _ hq2 h2
    refine Ret_bind (P := fun nb4 _ => LamI g Lambda nb4) ?_ (fun nb4 s5 h4 => ?_)
    · split
      · refine Ret_bind (parseSpacesAndNewlines_sh nb3 e s4) (fun nb4 s5 hq3 => ?_)
        rw [bind_of_eq (loopFuel_eq _ _)]
        refine Ret_bind (lambdaLoop_sh hrec LamI.sep (LamI.add hle) _ nb4 s5 (LamI.sep _ _ hq3 h3))
          (fun nb5 s6 h5 => ?_)
        refine Ret_bind (parseSep_sh nb5 124 e s6) (fun q s7 hq5 => ?_)
        obtain ⟨ok2, nb6⟩ := q
        dsimp only at hq5 ⊢
        exact Ret_bindT (fun _ _ => Ret_pure (LamI.sep _ _ hq5 h5))
      · exact Ret_pure h3
    refine Ret_bind (rec_ret hrec .chunk s5 trivial) (fun c s6 hp => ?_)
    refine close_sh _ 125 _ s6 (fun nb' hq' => ?_)
    refine ⟨hq'.allP (h4.1.add (hp.2.1.le hle)), PrimFin.withChunk (t := Lambda)
      (by rw [hq'.f]; exact h4.2) (by decide) (by decide) ?_⟩
    rw [hq'.co .chunk (by decide), co_add_same (K' := .chunk) _ hp.1]; simp
  · have h0 : LamI g Braced (nb1.setType Braced) := ⟨fun c hc => h1 c hc, rfl⟩
    refine Ret_bind (rec_ret hrec (.compound BracedElemExpr) s2 trivial) (fun c s3 hp => ?_)
    rw [bind_of_eq (loopFuel_eq _ _)]
    refine Ret_bind (bracedLoop_sh hrec LamI.sep (LamI.add hle) _ _ s3 (LamI.add hle _ c h0 hp.2.1))
      (fun nb3 s4 h3 => ?_)
    refine close_sh _ 125 _ s4 (fun nb' hq' => ?_)
    exact ⟨hq'.allP h3.1, PrimFin.plain (t := Braced) (by rw [hq'.f]; exact h3.2) (by decide) (by decide)
      (by decide)⟩

theorem primaryBody_sh (hrec : RecSh f e rec) (hle : f ≤ g) (nb : NB) (s : St) (hnil : nb.children = [])
    (hst : Starts e s nb.f.ctx) : Ret (primaryBody rec nb e s) (fun nb' _ => AllP g nb' ∧ PrimFin nb') := by
  unfold primaryBody
  rw [bind_of_eq (getEnv_eq _ _)]
  refine Ret_bind (peek_ret e s) (fun r s1 hpk => ?_)
  obtain ⟨hs1, hpk⟩ := hpk
  subst hs1
  have hsp := hst r hpk
  split
  · next hno => rw [hsp] at hno; cases hno
  split
  · exact (bareword_sh nb s1).mono (fun nb' _ h => h.fin hnil (by decide) (by decide) (by decide))
  split
  · exact (singleQuoted_sh nb s1).mono (fun nb' _ h => h.fin hnil (by decide) (by decide) (by decide))
  split
  · exact (doubleQuoted_sh nb s1).mono (fun nb' _ h => h.fin hnil (by decide) (by decide) (by decide))
  split
  · exact (variableP_sh nb s1).mono (fun nb' _ h => h.fin hnil (by decide) (by decide) (by decide))
  split
  · exact (starWildcard_sh nb s1).mono (fun nb' _ h => h.fin hnil (by decide) (by decide) (by decide))
  split
  · refine Ret_bindT (fun cap s2 => ?_)
    split
    · exact exitusCapture_sh hrec hle nb s2 hnil
    · exact (questionWildcard_sh nb s2).mono (fun nb' _ h => h.fin hnil (by decide) (by decide) (by decide))
  split
  · exact outputCapture_sh hrec hle nb s1 hnil
  split
  · exact lbracket_sh hrec hle nb s1 hnil
  split
  · exact lbrace_sh hrec hle nb s1 hnil
  · refine Ret_pure ⟨fun c hc => (by simp only [NB.setType] at hc; rw [hnil] at hc; cases hc), ?_⟩
    exact PrimFin.plain (t := Bareword) rfl (by decide) (by decide) (by decide)

end
end C16P
