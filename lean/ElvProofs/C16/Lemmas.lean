/-
Helper lemmas for C16: the phase structure of `eval` / `check`.
-/
import ElvModel.C16.Model
import ElvProofs.C16.Mono
namespace C16
open Go

/-- Two results of `compile` agree on everything but the autofixes. -/
def CompileAgree : COut → COut → Prop
  | .ok a, .ok b => a.template = b.template ∧ a.errors = b.errors
  | .panic v, .panic w => v = w
  | .fuel, .fuel => True
  | _, _ => False

theorem compile_modules (env : Env) (fuel : Nat) (g : StaticNs) (m₁ m₂ : List Bytes) (tree : Node) :
    CompileAgree (compile env fuel g m₁ tree) (compile env fuel g m₂ tree) := by
  unfold compile
  cases compileCore env fuel g tree with
  | ok u s =>
    cases hs : s.scopes.getLast? with
    | none => simp only [hs, CompileAgree]
    | some t => simp only [hs, CompileAgree, and_self]
  | panic w => simp [CompileAgree]
  | fuel => simp [CompileAgree]

section
variable {W Eff Exc : Type} (R : Runtime W Eff Exc) (ev : Evaler W) (src : Bytes)

theorem eval_static_error (h : (eval R ev src).2.2.isStaticError = true) :
    (eval R ev src).2.1 = [] ∧ (eval R ev src).1 = ev := by
  unfold eval at h ⊢
  split
  · exact ⟨rfl, rfl⟩
  · exact ⟨rfl, rfl⟩
  · split
    · exact ⟨rfl, rfl⟩
    · split
      · exact ⟨rfl, rfl⟩
      · exact ⟨rfl, rfl⟩
      · split
        · exact ⟨rfl, rfl⟩
        · simp_all [Outcome.isStaticError]

theorem eval_crashed (w : String) (h : (eval R ev src).2.2 = .crashed w) :
    (eval R ev src).2.1 = [] ∧ (eval R ev src).1 = ev := by
  unfold eval at h ⊢
  split
  · exact ⟨rfl, rfl⟩
  · exact ⟨rfl, rfl⟩
  · split
    · exact ⟨rfl, rfl⟩
    · split
      · exact ⟨rfl, rfl⟩
      · exact ⟨rfl, rfl⟩
      · split
        · exact ⟨rfl, rfl⟩
        · simp_all

theorem eval_ran (exc : Option Exc) (h : (eval R ev src).2.2 = .ran exc) :
    ∃ tree c, R.parse src = .ok tree [] ∧
      compile { builtin := ev.builtin, isPrint := R.isPrint } (R.fuel src) ev.global [] tree = .ok c ∧
      c.errors = [] ∧
      eval R ev src =
        ((R.exec tree { ev with global := c.template }).1,
         (R.exec tree { ev with global := c.template }).2.1,
         .ran (R.exec tree { ev with global := c.template }).2.2) := by
  unfold eval at h ⊢
  cases hp : R.parse src with
  | panic w => simp [hp] at h
  | fuel => simp [hp] at h
  | ok tree perrs =>
    simp only [hp] at h ⊢
    cases perrs with
    | cons a l => simp at h
    | nil =>
      simp only [List.isEmpty_nil, Bool.not_true, Bool.false_eq_true, if_false] at h ⊢
      cases hc : compile { builtin := ev.builtin, isPrint := R.isPrint } (R.fuel src) ev.global [] tree with
      | panic w => simp [hc] at h
      | fuel => simp [hc] at h
      | ok c =>
        simp only [hc] at h ⊢
        cases hce : c.errors with
        | cons a l => simp [hce] at h
        | nil =>
          refine ⟨tree, c, rfl, hc, hce, ?_⟩
          simp

theorem check_iff_eval (r : CheckResult) (h : check R ev src = .ok r) :
    ((CheckOut.ok r).reportsError = true ↔ (eval R ev src).2.2.isStaticError = true) := by
  unfold check at h
  unfold eval
  cases hp : R.parse src with
  | panic w => simp [hp] at h
  | fuel => simp [hp] at h
  | ok tree perrs =>
    simp only [hp] at h ⊢
    have hag := compile_modules { builtin := ev.builtin, isPrint := R.isPrint } (R.fuel src) ev.global
      (R.modules ev.rt) [] tree
    cases hc : compile { builtin := ev.builtin, isPrint := R.isPrint } (R.fuel src) ev.global (R.modules ev.rt) tree with
    | panic w => simp [hc] at h
    | fuel => simp [hc] at h
    | ok c =>
      simp only [hc, CheckOut.ok.injEq] at h
      subst h
      cases perrs with
      | cons a l => simp [CheckOut.reportsError, Outcome.isStaticError]
      | nil =>
        rw [hc] at hag
        cases hc0 : compile { builtin := ev.builtin, isPrint := R.isPrint } (R.fuel src) ev.global [] tree with
        | panic w => rw [hc0] at hag; exact hag.elim
        | fuel => rw [hc0] at hag; exact hag.elim
        | ok c0 =>
          rw [hc0] at hag
          obtain ⟨_, he⟩ := hag
          cases hce : c0.errors with
          | nil => simp [CheckOut.reportsError, Outcome.isStaticError, he, hce]
          | cons a l => simp [CheckOut.reportsError, Outcome.isStaticError, he, hce]

theorem check_same_errors (r : CheckResult) (h : check R ev src = .ok r) :
    (∀ pe, (eval R ev src).2.2 = .parseError pe → r.parseErrors = pe) ∧
    (∀ ce, (eval R ev src).2.2 = .compileError ce → r.parseErrors = [] ∧ r.compileErrors = ce) ∧
    (∀ exc, (eval R ev src).2.2 = .ran exc → r.parseErrors = [] ∧ r.compileErrors = []) := by
  unfold check at h
  unfold eval
  cases hp : R.parse src with
  | panic w => simp [hp] at h
  | fuel => simp [hp] at h
  | ok tree perrs =>
    simp only [hp] at h ⊢
    have hag := compile_modules { builtin := ev.builtin, isPrint := R.isPrint } (R.fuel src) ev.global
      (R.modules ev.rt) [] tree
    cases hc : compile { builtin := ev.builtin, isPrint := R.isPrint } (R.fuel src) ev.global (R.modules ev.rt) tree with
    | panic w => simp [hc] at h
    | fuel => simp [hc] at h
    | ok c =>
      simp only [hc, CheckOut.ok.injEq] at h
      subst h
      cases perrs with
      | cons a l => simp
      | nil =>
        rw [hc] at hag
        cases hc0 : compile { builtin := ev.builtin, isPrint := R.isPrint } (R.fuel src) ev.global [] tree with
        | panic w => rw [hc0] at hag; exact hag.elim
        | fuel => rw [hc0] at hag; exact hag.elim
        | ok c0 =>
          rw [hc0] at hag
          obtain ⟨_, he⟩ := hag
          cases hce : c0.errors with
          | nil => simp [he, hce]
          | cons a l => simp [he, hce]

theorem check_crash_iff (tree : Node) (hp : R.parse src = .ok tree []) :
    (∃ w, check R ev src = .crashed w) ↔ (∃ w, (eval R ev src).2.2 = .crashed w) := by
  unfold check eval
  simp only [hp]
  have hag := compile_modules { builtin := ev.builtin, isPrint := R.isPrint } (R.fuel src) ev.global
    (R.modules ev.rt) [] tree
  cases hc : compile { builtin := ev.builtin, isPrint := R.isPrint } (R.fuel src) ev.global (R.modules ev.rt) tree with
  | panic w =>
    rw [hc] at hag
    cases hc0 : compile { builtin := ev.builtin, isPrint := R.isPrint } (R.fuel src) ev.global [] tree with
    | panic w0 => simp
    | fuel => rw [hc0] at hag; exact hag.elim
    | ok c0 => rw [hc0] at hag; exact hag.elim
  | fuel =>
    rw [hc] at hag
    cases hc0 : compile { builtin := ev.builtin, isPrint := R.isPrint } (R.fuel src) ev.global [] tree with
    | panic w0 => rw [hc0] at hag; exact hag.elim
    | fuel => simp
    | ok c0 => rw [hc0] at hag; exact hag.elim
  | ok c =>
    rw [hc] at hag
    cases hc0 : compile { builtin := ev.builtin, isPrint := R.isPrint } (R.fuel src) ev.global [] tree with
    | panic w0 => rw [hc0] at hag; exact hag.elim
    | fuel => rw [hc0] at hag; exact hag.elim
    | ok c0 =>
      cases hce : c0.errors with
      | nil => simp [hce]
      | cons a l => simp [hce]
end
end C16
