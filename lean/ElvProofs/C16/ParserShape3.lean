/-
C16: every tree the C01 parser model builds has the `shape` the compiler
relies on — part 3: `body`, `wrap`, `parseNT` (induction on the fuel), `Parse`.
-/
import ElvProofs.C16.ParserShape2
namespace C16P
open Go
open Gen.C01Chars
open C01

/-- `Chunk` and `Compound` count for the nesting; the children of the others may be as deep as the node -/
def gOf (nt : NT) (f : Nat) : Nat :=
  match nt with
  | .chunk => f
  | .compound _ => f
  | _ => f + 1

theorem le_gOf (nt : NT) (f : Nat) : f ≤ gOf nt f := by
  unfold gOf; split <;> omega

/-- the node `wrap` makes of a finished builder -/
def fin (nt : NT) (pos : Nat) (text : Bytes) (nb : NB) : Node := .mk nt.kind nb.frm pos text nb.f nb.children

theorem fin_Pc {nt : NT} {f : Nat} {pos : Nat} {text : Bytes} {nb : NB} (ha : AllP (gOf nt f) nb)
    (hok : C16.nodeOk (fin nt pos text nb) = true) : Pc (f + 1) (fin nt pos text nb) := by
  constructor
  · simp only [fin, C16.shape, Bool.and_eq_true]
    exact ⟨hok, shapeL_of (fun c hc => (ha c hc).1)⟩
  · have hn := nestL_le (g := gOf nt f) (fun c hc => (ha c hc).2)
    simp only [fin, C16.nest]
    cases nt <;> simp only [NT.kind, gOf] at hn ⊢ <;> simp <;> omega

theorem nodeOk_fin_co {nt : NT} {pos : Nat} {text : Bytes} {nb : NB} :
    C16.compounds (fin nt pos text nb) = co .compound nb ∧
    C16.Compound.indexings (fin nt pos text nb) = co .indexing nb ∧
    (fin nt pos text nb).childrenOf .primary = co .primary nb ∧
    (fin nt pos text nb).childrenOf .chunk = co .chunk nb := ⟨rfl, rfl, rfl, rfl⟩

section
variable {e : Env} {rec : NT → M Node} {f : Nat}

/-- every grammar function leaves a builder whose node is fine -/
theorem body_sh (hrec : RecSh f e rec) (nt : NT) (s : St) (hpre : Pre (f + 1) e nt s) :
    Ret (body rec nt { frm := s.pos, f := nt.init, children := [] } e s)
      (fun nb' _ => ∀ pos text, Pc (f + 1) (fin nt pos text nb') ∧ Extra e nt s (fin nt pos text nb')) := by
  have hnil : ({ frm := s.pos, f := nt.init, children := [] } : NB).children = [] := rfl
  have h0 : ∀ g, AllP g ({ frm := s.pos, f := nt.init, children := [] } : NB) := fun g c hc => by cases hc
  cases nt with
  | chunk =>
    refine (chunkBody_sh hrec (Nat.le_refl f) _ s (h0 f)).mono (fun nb' _ h pos text => ⟨fin_Pc h rfl, trivial⟩)
  | pipeline =>
    refine (pipelineBody_sh hrec (Nat.le_succ f) _ s (h0 _)).mono (fun nb' _ h pos text => ⟨fin_Pc h rfl, trivial⟩)
  | filter =>
    refine (filterBody_sh hrec (Nat.le_succ f) _ s (h0 _)).mono (fun nb' _ h pos text => ⟨fin_Pc h rfl, trivial⟩)
  | array =>
    refine (arrayBody_sh hrec (Nat.le_succ f) _ s (h0 _)).mono (fun nb' _ h pos text => ⟨fin_Pc h rfl, trivial⟩)
  | form =>
    refine (formBody_sh hrec (Nat.le_succ f) _ s hnil).mono (fun nb' _ h pos text => ⟨fin_Pc h.1 ?_, trivial⟩)
    obtain ⟨hd, tl, hco, htl⟩ := h.2
    show C16.nodeOk (fin .form pos text nb') = true
    unfold C16.nodeOk
    simp only [fin, NT.kind, Node.kind, Bool.and_eq_true, List.all_eq_true]
    have hc : C16.compounds (Node.mk Kind.form nb'.frm pos text nb'.f nb'.children) = hd :: tl := hco
    refine ⟨by simp only [C16.Form.head, hc]; rfl, fun c hcm => ?_⟩
    simp only [C16.Form.args, hc, List.drop_succ_cons, List.drop_zero] at hcm
    have := htl c hcm
    cases hix : C16.Compound.indexings c with
    | nil => exact absurd hix this
    | cons a t => rfl
  | redir left =>
    have hl : ∀ l, left = some l → l.kind = .compound ∧ Pc (f + 1) l := by
      intro l hl; subst hl; exact hpre
    refine (redirBody_sh hrec (Nat.le_succ f) left _ s hnil rfl hl).mono (fun nb' _ h pos text => ⟨fin_Pc h.1 ?_, trivial⟩)
    obtain ⟨r, hco, hh⟩ := h.2
    show C16.nodeOk (fin (.redir left) pos text nb') = true
    unfold C16.nodeOk
    simp only [fin, NT.kind, Node.kind]
    have hc : C16.compounds (Node.mk Kind.redir nb'.frm pos text nb'.f nb'.children) = left.toList ++ [r] := hco
    have hh' : (Node.mk Kind.redir nb'.frm pos text nb'.f nb'.children).fields.hasLeft = left.isSome := hh
    unfold C16.Redir.right
    rw [hc, hh']
    cases left <;> rfl
  | mapPair =>
    refine (mapPairBody_sh hrec (Nat.le_succ f) _ s hnil).mono (fun nb' _ h pos text => ⟨fin_Pc h.1 ?_, trivial⟩)
    show C16.nodeOk (fin .mapPair pos text nb') = true
    unfold C16.nodeOk
    simp only [fin, NT.kind, Node.kind]
    have hc : C16.compounds (Node.mk Kind.mapPair nb'.frm pos text nb'.f nb'.children) = co .compound nb' := rfl
    unfold C16.MapPair.key
    rw [hc]
    cases hco : co .compound nb' with
    | nil => exact absurd hco h.2
    | cons a t => rfl
  | compound c =>
    refine (compoundBody_sh hrec (Nat.le_refl f) _ s hnil).mono (fun nb' _ h pos text => ⟨fin_Pc h.1.1 ?_, ?_⟩)
    · show C16.nodeOk (fin (.compound c) pos text nb') = true
      unfold C16.nodeOk
      simp only [fin, NT.kind, Node.kind, List.all_eq_true]
      exact h.1.2
    · intro hst
      exact h.2 hst
  | indexing c =>
    refine (indexingBody_sh hrec (Nat.le_succ f) _ s hnil hpre).mono (fun nb' _ h pos text => ?_)
    obtain ⟨ha, hd, hh, hg, hn⟩ := h
    have hhd : C16.Indexing.head (fin (.indexing c) pos text nb') = some hd := hh
    refine ⟨fin_Pc ha ?_, ?_⟩
    · show C16.nodeOk (fin (.indexing c) pos text nb') = true
      unfold C16.nodeOk
      simp only [fin, NT.kind, Node.kind]
      simp only [fin, NT.kind] at hhd
      rw [hhd]
      exact hg
    · show C16.properIndexing (fin (.indexing c) pos text nb') = true
      unfold C16.properIndexing
      rw [hhd]
      simpa using hn
  | primary c =>
    refine (primaryBody_sh hrec (Nat.le_succ f) _ s hnil hpre).mono (fun nb' _ h pos text => ?_)
    obtain ⟨ha, hg, hn, hch⟩ := h
    refine ⟨fin_Pc ha ?_, hn⟩
    show C16.nodeOk (fin (.primary c) pos text nb') = true
    unfold C16.nodeOk
    simp only [fin, NT.kind, Node.kind, Bool.and_eq_true, Bool.or_eq_true, Bool.not_eq_true']
    refine ⟨hg, ?_⟩
    by_cases hcap : (nb'.f.ptype == ExceptionCapture || nb'.f.ptype == OutputCapture || nb'.f.ptype == Lambda) = true
    · right
      have hc : (Node.mk Kind.primary nb'.frm pos text nb'.f nb'.children).childrenOf .chunk = co .chunk nb' := rfl
      unfold C16.Primary.chunk
      rw [hc]
      cases hco : co .chunk nb' with
      | nil => exact absurd hco (hch hcap)
      | cons a t => rfl
    · left
      simpa [Node.ptype, Node.fields] using hcap

/-- the generic wrapper returns a node that is fine if the recursive calls do -/
theorem wrap_sh (hrec : RecSh f e rec) : RecSh (f + 1) e (wrap rec) := by
  intro nt s
  unfold wrap
  rw [bind_of_eq (getPos_eq _ _)]
  by_cases hpre : Pre (f + 1) e nt s
  · refine Ret_bind (body_sh hrec nt s hpre) (fun nb' s1 h => ?_)
    rw [bind_of_eq (getPos_eq _ _)]
    refine Ret_bindT (fun text s2 => Ret_pure ?_)
    intro _
    exact ⟨rfl, (h s1.pos text).1, (h s1.pos text).2⟩
  · refine Ret_bindT (fun nb' s1 => ?_)
    rw [bind_of_eq (getPos_eq _ _)]
    exact Ret_bindT (fun text s2 => Ret_pure (fun h => absurd h hpre))

theorem parseNT_sh : ∀ (F : Nat), RecSh F e (parseNT F)
  | 0 => fun _ _ => Ret_fuel
  | F + 1 => by
    have ih : RecSh F e (fun nt' => parseNT F nt') := parseNT_sh F
    intro nt s
    unfold parseNT
    exact wrap_sh ih nt s

end

/-- **Every tree `Parse` returns — with or without parse errors — has the shape the compiler
relies on, is a `Chunk`, and nests at most as deep as the parser's fuel.** -/
theorem parse_shape (isPrint : Int → Bool) (src : Bytes) (t : Node) (errs : List PErr)
    (h : parse isPrint src = .ok t errs) :
    C16.shape t = true ∧ t.kind = .chunk ∧ C16.nest t ≤ defaultFuel src := by
  unfold parse parseAs at h
  rw [parseAsFuel_eq] at h
  have hsh := parseNT_sh (e := { isPrint := isPrint, src := src }) (defaultFuel src) .chunk
    { pos := 0, overEOF := 0, errors := [] }
  rw [bind_apply] at h
  cases hr : parseNT (defaultFuel src) .chunk { isPrint := isPrint, src := src }
      { pos := 0, overEOF := 0, errors := [] } with
  | panic w => rw [hr] at h; cases h
  | fuel => rw [hr] at h; cases h
  | ok n s1 =>
    rw [hr] at h hsh
    obtain ⟨hk, hp, _⟩ := hsh trivial
    dsimp only at h
    rw [bind_apply] at h
    cases hd : done { isPrint := isPrint, src := src } s1 with
    | panic w => rw [hd] at h; cases h
    | fuel => rw [hd] at h; cases h
    | ok u s2 =>
      rw [hd] at h
      simp only [toResult, pure_apply, ParseResult.ok.injEq] at h
      obtain ⟨hn, _⟩ := h
      subst hn
      exact ⟨hp.1, hk, hp.2⟩

end C16P
