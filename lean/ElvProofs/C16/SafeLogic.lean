/-
C16, total-correctness logic for the compiler monad: "from every state with a
non-empty scope and pragma stack the computation RETURNS (no panic, no fuel
exhaustion), leaves both stacks at the same depth, and reports none of the
three error kinds that are claimed to be dead code".
-/
import ElvModel.C16.Model
import ElvModel.C16.Shape
namespace C16
open Go
open Gen.C01Chars

/-- the error kinds that can be reported on a parser-produced tree -/
def Live (k : EK) : Prop := k ≠ .exactlyOneLvalue ∧ k ≠ .tildeBug ∧ k ≠ .badPrimary
instance : DecidablePred Live := fun k => by unfold Live; exact inferInstance

/-- none of the dead kinds among the errors -/
def Clean (l : List CErr) : Prop := ∀ x ∈ l, Live x.kind

theorem Clean.nil : Clean [] := fun _ h => by cases h

/-- `cp.scopes` and `cp.pragmas` are not empty -/
structure Inv (s : CSt) : Prop where
  sc : 0 < s.scopes.length
  pr : 0 < s.pragmas.length

/-- same stack depths afterwards; dead kinds are not introduced -/
structure Keep (s s' : CSt) : Prop where
  sc : s'.scopes.length = s.scopes.length
  pr : s'.pragmas.length = s.pragmas.length
  cl : Clean s.errors → Clean s'.errors

theorem Keep.refl (s : CSt) : Keep s s := ⟨rfl, rfl, id⟩
theorem Keep.trans {s s1 s2 : CSt} (h1 : Keep s s1) (h2 : Keep s1 s2) : Keep s s2 :=
  ⟨h2.sc.trans h1.sc, h2.pr.trans h1.pr, fun h => h2.cl (h1.cl h)⟩
theorem Inv.keep {s s' : CSt} (hi : Inv s) (hk : Keep s s') : Inv s' :=
  ⟨by rw [hk.sc]; exact hi.sc, by rw [hk.pr]; exact hi.pr⟩

/-- `m` returns, keeps the stack depths, introduces no dead error kind, and its result satisfies `Q` -/
structure Safe {α : Type} (m : M α) (Q : α → Prop) : Prop where
  prf : ∀ e s, Inv s → ∃ a s', m e s = .ok a s' ∧ Keep s s' ∧ Q a

/-- the trivial postcondition -/
abbrev T {α : Type} : α → Prop := fun _ => True

theorem Safe.pure {α : Type} {Q : α → Prop} (a : α) (h : Q a) : Safe (pure a : M α) Q :=
  ⟨fun _ s _ => ⟨a, s, rfl, Keep.refl s, h⟩⟩

theorem Safe.bind {α β : Type} {m : M α} {f : α → M β} {P : α → Prop} {Q : β → Prop}
    (hm : Safe m P) (hf : ∀ a, P a → Safe (f a) Q) : Safe (m >>= f) Q := by
  constructor; intro e s hi
  obtain ⟨a, s1, h1, k1, pa⟩ := hm.prf e s hi
  obtain ⟨b, s2, h2, k2, qb⟩ := (hf a pa).prf e s1 (hi.keep k1)
  refine ⟨b, s2, ?_, k1.trans k2, qb⟩
  show M.bind m f e s = _
  unfold M.bind; rw [h1]; exact h2

theorem Safe.bindT {α β : Type} {m : M α} {f : α → M β} {Q : β → Prop}
    (hm : Safe m T) (hf : ∀ a, Safe (f a) Q) : Safe (m >>= f) Q :=
  Safe.bind hm (fun a _ => hf a)

theorem Safe.mono {α : Type} {m : M α} {P Q : α → Prop} (hm : Safe m P) (h : ∀ a, P a → Q a) : Safe m Q := by
  constructor; intro e s hi
  obtain ⟨a, s1, h1, k1, pa⟩ := hm.prf e s hi
  exact ⟨a, s1, h1, k1, h a pa⟩

theorem Safe.toT {α : Type} {m : M α} {P : α → Prop} (hm : Safe m P) : Safe m T := hm.mono (fun _ _ => trivial)

theorem Safe.forEach {α : Type} (l : List α) (f : α → M Unit) (hf : ∀ x ∈ l, Safe (f x) T) :
    Safe (forEach l f) T := by
  induction l with
  | nil => exact Safe.pure _ trivial
  | cons x xs ih =>
    exact Safe.bindT (hf x (List.mem_cons_self)) (fun _ => ih (fun y hy => hf y (List.mem_cons_of_mem _ hy)))

/-! ### primitives -/

theorem Safe.getEnv : Safe getEnv T := ⟨fun e s _ => ⟨e, s, rfl, Keep.refl s, trivial⟩⟩
theorem Safe.scopeDepth : Safe scopeDepth T := ⟨fun _ s _ => ⟨_, s, rfl, Keep.refl s, trivial⟩⟩

theorem Safe.err (k : EK) (hk : Live k) (a b : Nat) : Safe (err k a b) T := by
  constructor; intro e s _
  refine ⟨(), _, rfl, ⟨rfl, rfl, ?_⟩, trivial⟩
  intro hc x hx
  simp only [List.mem_append, List.mem_singleton] at hx
  rcases hx with hx | hx
  · exact hc x hx
  · subst hx; exact hk
theorem Safe.errAt (k : EK) (hk : Live k) (n : Node) : Safe (errAt k n) T := Safe.err k hk _ _
theorem Safe.errPoint (k : EK) (hk : Live k) (p : Nat) : Safe (errPoint k p) T := Safe.err k hk _ _

theorem Safe.autofix (q : Bytes) : Safe (autofix q) T :=
  ⟨fun _ s _ => ⟨(), _, rfl, ⟨rfl, rfl, id⟩, trivial⟩⟩

theorem Safe.thisScope : Safe thisScope T := by
  constructor; intro e s hi
  obtain ⟨scopes, pragmas, errors, fixes⟩ := s
  cases scopes with
  | nil => exact absurd hi.sc (Nat.lt_irrefl 0)
  | cons sc rest => exact ⟨sc, _, rfl, Keep.refl _, trivial⟩

theorem Safe.setThisScope (sc : StaticNs) : Safe (setThisScope sc) T := by
  constructor; intro e s hi
  obtain ⟨scopes, pragmas, errors, fixes⟩ := s
  cases scopes with
  | nil => exact absurd hi.sc (Nat.lt_irrefl 0)
  | cons sc0 rest => exact ⟨(), _, rfl, ⟨rfl, rfl, id⟩, trivial⟩

theorem Safe.currentPragma : Safe currentPragma T := by
  constructor; intro e s hi
  obtain ⟨scopes, pragmas, errors, fixes⟩ := s
  cases pragmas with
  | nil => exact absurd hi.pr (Nat.lt_irrefl 0)
  | cons p rest => exact ⟨p, _, rfl, Keep.refl _, trivial⟩

theorem Safe.setCurrentPragma (b : Bool) : Safe (setCurrentPragma b) T := by
  constructor; intro e s hi
  obtain ⟨scopes, pragmas, errors, fixes⟩ := s
  cases pragmas with
  | nil => exact absurd hi.pr (Nat.lt_irrefl 0)
  | cons p rest => exact ⟨(), _, rfl, ⟨rfl, rfl, id⟩, trivial⟩

theorem Safe.addName (k : Bytes) : Safe (addName k) T := by
  unfold C16.addName
  exact Safe.bindT Safe.thisScope (fun _ => Safe.bindT (Safe.setThisScope _) (fun _ => Safe.pure _ trivial))

theorem Safe.deref {α : Type} (o : Option α) (w : String) (h : o.isSome = true) :
    Safe (deref o w) (fun a => o = some a) := by
  cases o with
  | none => cases h
  | some a => exact Safe.pure a rfl

theorem resolveIn_cons (b : StaticNs) (sc : StaticNs) (rest : List StaticNs) (q : Bytes) :
    ∃ r, resolveIn b (sc :: rest) q = some r := by
  unfold resolveIn
  split
  · exact ⟨_, rfl⟩
  · dsimp only
    repeat' split
    all_goals exact ⟨_, rfl⟩

theorem Safe.resolveVarRef (q : Bytes) : Safe (resolveVarRef q) T := by
  constructor; intro e s hi
  obtain ⟨scopes, pragmas, errors, fixes⟩ := s
  cases scopes with
  | nil => exact absurd hi.sc (Nat.lt_irrefl 0)
  | cons sc rest =>
    obtain ⟨r, hr⟩ := resolveIn_cons e.builtin sc rest q
    refine ⟨r, _, ?_, Keep.refl _, trivial⟩
    unfold C16.resolveVarRef
    simp only [hr]

theorem Safe.resolveCmdHead (h : Bytes) : Safe (resolveCmdHead h) T := by
  unfold C16.resolveCmdHead; dsimp only; split
  · exact Safe.pure _ trivial
  · exact Safe.resolveVarRef _

/-! ### scopes: `pushScope … popScope` -/

/-- `m` returns and leaves both stacks ONE LEVEL LOWER (it ends with the `popScope`
that matches a `pushScope` before it) -/
structure SafeUp {α : Type} (m : M α) (Q : α → Prop) : Prop where
  prf : ∀ e s, 1 < s.scopes.length → 1 < s.pragmas.length → ∃ a s', m e s = .ok a s' ∧
    s'.scopes.length + 1 = s.scopes.length ∧ s'.pragmas.length + 1 = s.pragmas.length ∧
    (Clean s.errors → Clean s'.errors) ∧ Q a

theorem SafeUp.popScope : SafeUp popScope T := by
  constructor; intro e s h1 h2
  obtain ⟨scopes, pragmas, errors, fixes⟩ := s
  cases scopes with
  | nil => exact absurd h1 (by simp)
  | cons sc rest =>
    cases pragmas with
    | nil => exact absurd h2 (by simp)
    | cons p ps => exact ⟨(), _, rfl, rfl, rfl, id, trivial⟩

theorem SafeUp.bind {α β : Type} {m : M α} {f : α → M β} {P : α → Prop} {Q : β → Prop}
    (hm : Safe m P) (hf : ∀ a, P a → SafeUp (f a) Q) : SafeUp (m >>= f) Q := by
  constructor; intro e s h1 h2
  obtain ⟨a, s1, e1, k1, pa⟩ := hm.prf e s ⟨by omega, by omega⟩
  obtain ⟨b, s2, e2, l1, l2, c2, qb⟩ := (hf a pa).prf e s1 (by rw [k1.sc]; exact h1) (by rw [k1.pr]; exact h2)
  refine ⟨b, s2, ?_, by rw [l1, k1.sc], by rw [l2, k1.pr], fun h => c2 (k1.cl h), qb⟩
  show M.bind m f e s = _
  unfold M.bind; rw [e1]; exact e2

theorem SafeUp.bindT {α β : Type} {m : M α} {f : α → M β} {Q : β → Prop}
    (hm : Safe m T) (hf : ∀ a, SafeUp (f a) Q) : SafeUp (m >>= f) Q :=
  SafeUp.bind hm (fun a _ => hf a)

/-- `pushScope` followed by something that pops one level -/
theorem Safe.push {β : Type} {f : Unit → M β} {Q : β → Prop} (hf : SafeUp (f ()) Q) :
    Safe (pushScope >>= f) Q := by
  constructor; intro e s hi
  obtain ⟨scopes, pragmas, errors, fixes⟩ := s
  cases pragmas with
  | nil => exact absurd hi.pr (Nat.lt_irrefl 0)
  | cons p ps =>
    have hsc := hi.sc
    obtain ⟨b, s2, e2, l1, l2, c2, qb⟩ := hf.prf e
      { scopes := [] :: scopes, pragmas := p :: p :: ps, errors := errors, fixes := fixes }
      (by simp only [List.length_cons]; simp only [] at hsc; omega) (by simp only [List.length_cons]; omega)
    refine ⟨b, s2, ?_, ⟨?_, ?_, c2⟩, qb⟩
    · show M.bind pushScope f e _ = _
      unfold M.bind
      exact e2
    · simp only [List.length_cons] at l1; simp only []; omega
    · simp only [List.length_cons] at l2; simp only [List.length_cons]; omega

/-! ### a tactic for the parts whose postcondition does not matter -/

syntax "safe_prim" : tactic
macro_rules | `(tactic| safe_prim) => `(tactic| with_reducible first
  | assumption
  | exact Safe.pure _ trivial | exact Safe.getEnv | exact Safe.scopeDepth
  | exact Safe.err _ (by decide) _ _ | exact Safe.errAt _ (by decide) _ | exact Safe.errPoint _ (by decide) _
  | exact Safe.autofix _ | exact Safe.thisScope | exact Safe.setThisScope _
  | exact Safe.currentPragma | exact Safe.setCurrentPragma _ | exact Safe.addName _
  | exact Safe.resolveVarRef _ | exact Safe.resolveCmdHead _
  | apply_assumption (transparency := .reducible))

macro "safe" : tactic => `(tactic| repeat' (first
  | (with_reducible apply Safe.bindT)
  | safe_prim
  | (intro _)
  | extract_lets
  | split))

end C16
