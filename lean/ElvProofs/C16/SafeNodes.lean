/-
C16: what `shape` gives about the nodes the compiler reaches through the
field accessors, and the specifications of `argsGetter`.
-/
import ElvProofs.C16.SafeLogic
namespace C16
open Go
open Gen.C01Chars

/-! ### `shape` / `nest` below a node -/

theorem shapeL_mem : ∀ {cs : List Node} {c : Node}, shapeL cs = true → c ∈ cs → shape c = true
  | [], _, _, h => by cases h
  | d :: ds, c, hs, h => by
    simp only [shapeL, Bool.and_eq_true] at hs
    rcases List.mem_cons.mp h with rfl | h'
    · exact hs.1
    · exact shapeL_mem hs.2 h'

theorem nestL_mem : ∀ {cs : List Node} {c : Node}, c ∈ cs → nest c ≤ nestL cs
  | [], _, h => by cases h
  | d :: ds, c, h => by
    simp only [nestL]
    rcases List.mem_cons.mp h with rfl | h'
    · exact Nat.le_max_left _ _
    · exact Nat.le_trans (nestL_mem h') (Nat.le_max_right _ _)

theorem shape_nodeOk {n : Node} (h : shape n = true) : nodeOk n = true := by
  cases n; simp only [shape, Bool.and_eq_true] at h; exact h.1

theorem shape_children {n : Node} (h : shape n = true) : shapeL n.children = true := by
  cases n; simp only [shape, Bool.and_eq_true] at h; exact h.2

theorem nest_children (n : Node) : nestL n.children ≤ nest n := by
  cases n; simp only [nest, C01.Node.children]; omega

theorem nest_children_lt (n : Node) (h : n.kind = .chunk ∨ n.kind = .compound) : nestL n.children + 1 ≤ nest n := by
  cases n with
  | mk k a b t f cs =>
    simp only [C01.Node.kind] at h
    simp only [nest, C01.Node.children]
    rcases h with h | h <;> subst h <;> simp <;> omega

/-- the tree below `n` has the shape the compiler assumes and nests at most `k` deep -/
def D (k : Nat) (n : Node) : Prop := shape n = true ∧ nest n ≤ k

theorem D.child {k : Nat} {n c : Node} (h : D k n) (hc : c ∈ n.children) : D k c :=
  ⟨shapeL_mem (shape_children h.1) hc, Nat.le_trans (nestL_mem hc) (Nat.le_trans (nest_children n) h.2)⟩

theorem childrenOf_D {k : Nat} {n x : Node} {K : C01.Kind} (hch : ∀ c ∈ n.children, D k c)
    (hx : x ∈ n.childrenOf K) : D k x ∧ x.kind = K := by
  unfold C01.Node.childrenOf at hx
  obtain ⟨h1, h2⟩ := List.mem_filter.mp hx
  exact ⟨hch x h1, by simpa using h2⟩

theorem D.of {k : Nat} {n x : Node} {K : C01.Kind} (h : D k n) (hx : x ∈ n.childrenOf K) : D k x ∧ x.kind = K :=
  childrenOf_D (fun _ hc => h.child hc) hx

theorem head?_mem {α : Type} {l : List α} {a : α} (h : l.head? = some a) : a ∈ l := by
  cases l with
  | nil => cases h
  | cons x xs => simp only [List.head?_cons, Option.some.injEq] at h; subst h; exact List.mem_cons_self

theorem getLast?_mem : ∀ {α : Type} {l : List α} {a : α}, l.getLast? = some a → a ∈ l
  | _, [], _, h => by cases h
  | _, [x], a, h => by simp only [List.getLast?_singleton, Option.some.injEq] at h; subst h; exact List.mem_cons_self
  | _, x :: y :: l, a, h => by
    rw [List.getLast?_cons_cons] at h
    exact List.mem_cons_of_mem _ (getLast?_mem h)

theorem D.arg {k : Nat} {fn x : Node} (h : D k fn) (hx : x ∈ Form.args fn) : D k x ∧ x.kind = .compound :=
  h.of (List.mem_of_mem_drop hx)

theorem elements_sub {n x : Node} (h : x ∈ Primary.elements n) : x ∈ compounds n := by
  unfold Primary.elements at h
  split at h
  · cases h
  · exact h

theorem braced_sub {n x : Node} (h : x ∈ Primary.braced n) : x ∈ compounds n := by
  unfold Primary.braced at h
  split at h
  · exact h
  · cases h

/-! ### `nodeOk`, by node type -/

theorem nodeOk_form {n : Node} (h : nodeOk n = true) (hk : n.kind = .form) :
    (Form.head n).isSome = true ∧ ∀ c ∈ Form.args n, Compound.indexings c ≠ [] := by
  unfold nodeOk at h; rw [hk] at h
  simp only [Bool.and_eq_true, List.all_eq_true] at h
  refine ⟨h.1, fun c hc he => ?_⟩
  have := h.2 c hc
  rw [he] at this
  cases this

theorem nodeOk_redir {n : Node} (h : nodeOk n = true) (hk : n.kind = .redir) : (Redir.right n).isSome = true := by
  unfold nodeOk at h; rw [hk] at h; exact h

theorem nodeOk_mapPair {n : Node} (h : nodeOk n = true) (hk : n.kind = .mapPair) : (MapPair.key n).isSome = true := by
  unfold nodeOk at h; rw [hk] at h; exact h

theorem nodeOk_indexing {n : Node} (h : nodeOk n = true) (hk : n.kind = .indexing) :
    ∃ hd, Indexing.head n = some hd ∧ goodPType hd.ptype = true := by
  unfold nodeOk at h; rw [hk] at h
  cases hh : Indexing.head n with
  | none => rw [hh] at h; cases h
  | some hd => rw [hh] at h; exact ⟨hd, rfl, h⟩

theorem nodeOk_primary {n : Node} (h : nodeOk n = true) (hk : n.kind = .primary) :
    goodPType n.ptype = true ∧
      ((n.ptype == ExceptionCapture || n.ptype == OutputCapture || n.ptype == Lambda) = true →
        (Primary.chunk n).isSome = true) := by
  unfold nodeOk at h; rw [hk] at h
  simp only [Bool.and_eq_true, Bool.or_eq_true, Bool.not_eq_true'] at h
  refine ⟨h.1, fun hc => ?_⟩
  rcases h.2 with h2 | h2
  · rw [h2] at hc; cases hc
  · exact h2

theorem nodeOk_compound {n : Node} (h : nodeOk n = true) (hk : n.kind = .compound) :
    ∀ ix ∈ (Compound.indexings n).drop 1, properIndexing ix = true := by
  unfold nodeOk at h; rw [hk] at h
  simpa only [List.all_eq_true] using h

theorem properIndexing_head {ix : Node} (h : properIndexing ix = true) :
    ∃ hd, Indexing.head ix = some hd ∧ hd.ptype ≠ Tilde := by
  unfold properIndexing at h
  cases hh : Indexing.head ix with
  | none => rw [hh] at h; cases h
  | some hd => rw [hh] at h; exact ⟨hd, rfl, by simpa using h⟩

/-! ### `cmpd.Primary`, `cmpd.Lambda`, `cmpd.StringLiteral` -/

theorem primaryOf_D {k : Nat} {x p : Node} (h : D k x) (hp : primaryOf x = some p) :
    D k p ∧ p.kind = .primary ∧ Compound.indexings x ≠ [] := by
  unfold primaryOf at hp
  split at hp
  · next ix heq =>
    split at hp
    · have hix := h.of (K := .indexing) (x := ix) (by
        show ix ∈ Compound.indexings x
        rw [heq]; exact List.mem_cons_self)
      have hpp := hix.1.of (K := .primary) (x := p) (head?_mem hp)
      exact ⟨hpp.1, hpp.2, by rw [heq]; simp⟩
    · cases hp
  · cases hp

theorem lambdaOf_D {k : Nat} {x l : Node} (h : D k x) (hl : lambdaOf x = some l) :
    D k l ∧ l.kind = .primary ∧ l.ptype = Lambda := by
  unfold lambdaOf at hl
  split at hl
  · next p hp =>
    split at hl
    · next hlam =>
      simp only [Option.some.injEq] at hl; subst hl
      have := primaryOf_D h hp
      exact ⟨this.1, this.2.1, by simpa using hlam⟩
    · cases hl
  · cases hl

theorem stringLiteral_indexings {x : Node} {s : Bytes} (hs : stringLiteral x = some s) :
    Compound.indexings x ≠ [] := by
  unfold stringLiteral at hs
  split at hs
  · next p hp =>
    unfold primaryOf at hp
    split at hp
    · next ix heq => rw [heq]; simp
    · cases hp
  · cases hs

/-! ### `argsGetter` -/

theorem Safe.AG_err (ag : AG) (k : EK) (hk : Live k) (a b : Nat) :
    Safe (ag.err k a b) (fun ag' => ag'.fn = ag.fn ∧ ag'.ok = false) := by
  unfold AG.err
  split
  · exact Safe.bindT (Safe.err k hk a b) (fun _ => Safe.pure _ ⟨rfl, rfl⟩)
  · next h => exact Safe.pure _ ⟨rfl, by simpa using h⟩

/-- `ag.get(i)`: the node is argument `i`; it is `nil` only if the getter is now in the error state -/
theorem Safe.AG_get (ag : AG) (i : Nat) :
    Safe (ag.get i) (fun r => r.1.fn = ag.fn ∧ (r.1.ok = true → ag.ok = true) ∧
      r.2 = (Form.args ag.fn)[i]? ∧ (r.1.ok = true → r.2.isSome = true)) := by
  unfold AG.get
  extract_lets ag1
  have h1 : ag1.fn = ag.fn ∧ ag1.ok = ag.ok := by
    simp only [ag1]; split <;> exact ⟨rfl, rfl⟩
  split
  · next a ha =>
    rw [h1.1] at ha
    exact Safe.pure _ ⟨h1.1, fun h => (by rw [← h1.2]; exact h), ha.symm, fun _ => rfl⟩
  · next ha =>
    rw [h1.1] at ha
    refine Safe.bind (Safe.AG_err ag1 _ (by decide) _ _) (fun ag2 h2 => ?_)
    refine Safe.pure _ ⟨h2.1.trans h1.1, fun h => ?_, ha.symm, fun h => ?_⟩
    · rw [h2.2] at h; cases h
    · rw [h2.2] at h; cases h

theorem Safe.AG_stringLit (ag : AG) (node : Option Node) :
    Safe (ag.stringLit node) (fun r => r.1.fn = ag.fn ∧ (r.1.ok = true → ag.ok = true)) := by
  unfold AG.stringLit
  split
  · exact Safe.pure _ ⟨rfl, id⟩
  · split
    · exact Safe.pure _ ⟨rfl, id⟩
    · refine Safe.bind (Safe.AG_err ag _ (by decide) _ _) (fun ag2 h2 => ?_)
      exact Safe.pure _ ⟨h2.1, fun h => (by rw [h2.2] at h; cases h)⟩

/-- the result of `argAsserter.lambda` / `.thunk`: still OK ⇒ a node gave a lambda; the lambda is that of the node -/
def LamPost (ag : AG) (node : Option Node) (r : AG × Option Node) : Prop :=
  r.1.fn = ag.fn ∧ (r.1.ok = true → ag.ok = true) ∧ (r.1.ok = true → node.isSome = true → r.2.isSome = true) ∧
    (∀ l, r.2 = some l → ∃ x, node = some x ∧ lambdaOf x = some l)

theorem Safe.AG_lambda (ag : AG) (node : Option Node) : Safe (ag.lambda node) (LamPost ag node) := by
  unfold AG.lambda
  split
  · exact Safe.pure _ ⟨rfl, id, fun _ h => (by cases h), fun l h => (by cases h)⟩
  · next n =>
    split
    · next l hl =>
      refine Safe.pure _ ⟨rfl, id, fun _ _ => rfl, fun l' h => ?_⟩
      simp only [Option.some.injEq] at h; subst h
      exact ⟨n, rfl, hl⟩
    · refine Safe.bind (Safe.AG_err ag _ (by decide) _ _) (fun ag2 h2 => ?_)
      exact Safe.pure _ ⟨h2.1, fun h => (by rw [h2.2] at h; cases h), fun h => (by rw [h2.2] at h; cases h),
        fun l h => (by cases h)⟩

theorem Safe.AG_thunk (ag : AG) (node : Option Node) : Safe (ag.thunk node) (LamPost ag node) := by
  unfold AG.thunk
  refine Safe.bind (Safe.AG_lambda ag node) (fun r hr => ?_)
  obtain ⟨ag1, l⟩ := r
  obtain ⟨hr1, hr2, hr3, hr4⟩ := hr
  dsimp only at hr1 hr2 hr3 hr4 ⊢
  split
  · exact Safe.pure _ ⟨hr1, hr2, hr3, hr4⟩
  · next l' =>
    split
    · refine Safe.bind (Safe.AG_err ag1 _ (by decide) _ _) (fun ag2 h2 => ?_)
      exact Safe.pure _ ⟨h2.1.trans hr1, fun h => (by rw [h2.2] at h; cases h),
        fun h => (by rw [h2.2] at h; cases h), fun l h => (by cases h)⟩
    · split
      · refine Safe.bind (Safe.AG_err ag1 _ (by decide) _ _) (fun ag2 h2 => ?_)
        exact Safe.pure _ ⟨h2.1.trans hr1, fun h => (by rw [h2.2] at h; cases h),
          fun h => (by rw [h2.2] at h; cases h), fun l h => (by cases h)⟩
      · exact Safe.pure _ ⟨hr1, hr2, hr3, hr4⟩

/-- a body found by the getter is the lambda of one of the form's arguments -/
def FromArg (fn : Node) (o : Option Node) : Prop :=
  ∀ l, o = some l → ∃ x ∈ Form.args fn, lambdaOf x = some l

theorem LamPost.fromArg {ag : AG} {node : Option Node} {r : AG × Option Node} {i : Nat}
    (h : LamPost ag node r) (hn : node = (Form.args ag.fn)[i]?) : FromArg ag.fn r.2 := by
  intro l hl
  obtain ⟨x, hx, hlx⟩ := h.2.2.2 l hl
  rw [hx] at hn
  exact ⟨x, List.mem_of_getElem? hn.symm, hlx⟩

theorem Safe.AG_optionalKeywordBody (ag : AG) (i : Nat) (kw : Bytes) :
    Safe (ag.optionalKeywordBody i kw)
      (fun r => r.1.fn = ag.fn ∧ (r.1.ok = true → ag.ok = true) ∧ FromArg ag.fn r.2) := by
  unfold AG.optionalKeywordBody
  split
  · refine Safe.bind (Safe.AG_get ag (i + 1)) (fun r hr => ?_)
    obtain ⟨ag1, n⟩ := r
    obtain ⟨g1, g2, g3, _⟩ := hr
    dsimp only at g1 g2 g3 ⊢
    refine (Safe.AG_thunk ag1 n).mono (fun r hr => ?_)
    have := hr.fromArg (i := i + 1) (by rw [g1]; exact g3)
    rw [g1] at this
    exact ⟨hr.1.trans g1, fun h => g2 (hr.2.1 h), this⟩
  · exact Safe.pure _ ⟨rfl, id, fun l h => (by cases h)⟩

theorem Safe.AG_finish (ag : AG) : Safe ag.finish (fun b => b = true → ag.ok = true) := by
  unfold AG.finish
  split
  · refine Safe.bind (Safe.AG_err ag _ (by decide) _ _) (fun ag2 h2 => ?_)
    exact Safe.pure _ (fun h => by rw [h2.2] at h; cases h)
  · exact Safe.pure _ id

theorem hasKeyword_lt {ag : AG} {i : Nat} {kw : Bytes} (h : ag.hasKeyword i kw = true) :
    i < (Form.args ag.fn).length := by
  unfold AG.hasKeyword at h
  split at h
  · next a ha => exact (List.getElem?_eq_some_iff.mp ha).1
  · cases h

end C16
