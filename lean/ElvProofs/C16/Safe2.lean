/-
C16: `Safe` for the special forms, forms, pipelines, chunks, `compileNT`,
`compileCore` and `compile` (continuation of `Safe.lean`).
-/
import ElvProofs.C16.Safe
namespace C16
open Go
open Gen.C01Chars

/-! ### `del`: the index `resolveVarRef` returns for a local variable is inside the current scope -/

theorem lookupFrom_lt : ∀ (xs : List Info) (i : Nat) (key : Bytes) (x : Info) (j : Nat),
    StaticNs.lookupFrom i xs key = some (x, j) → j < i + xs.length
  | [], _, _, _, _, h => by cases h
  | y :: ys, i, key, x, j, h => by
    unfold StaticNs.lookupFrom at h
    split at h
    · simp only [Option.some.injEq, Prod.mk.injEq] at h
      simp only [List.length_cons]; omega
    · have := lookupFrom_lt ys (i + 1) key x j h
      simp only [List.length_cons]; omega

theorem markDeleted_some : ∀ (sc : StaticNs) (i : Nat), i < sc.length → ∃ sc', sc.markDeleted i = some sc'
  | [], _, h => by cases h
  | x :: xs, 0, _ => ⟨_, rfl⟩
  | x :: xs, i + 1, h => by
    obtain ⟨sc', hsc'⟩ := markDeleted_some xs i (by simpa using h)
    exact ⟨x :: sc', by simp only [StaticNs.markDeleted, hsc', Option.map_some]⟩

theorem resolveIn_local (b this : StaticNs) (outer : List StaticNs) (q : Bytes) (r : VarRef)
    (h : resolveIn b (this :: outer) q = some (some r)) (hl : r.scope = .local) : r.index < this.length := by
  unfold resolveIn at h
  split at h
  · cases h
  · dsimp only at h
    split at h
    · next info i hlk =>
      simp only [Option.some.injEq] at h; subst h
      have := lookupFrom_lt _ _ _ _ _ hlk
      simpa using this
    · split at h
      · simp only [Option.some.injEq] at h; subst h; cases hl
      · split at h
        · simp only [Option.some.injEq] at h; subst h; cases hl
        · split at h
          · simp only [Option.some.injEq] at h; subst h; cases hl
          · split at h
            · simp only [Option.some.injEq] at h; subst h; cases hl
            · cases h

/-- the current scope has more than `i` entries -/
def TopLen (s : CSt) (i : Nat) : Prop := ∃ sc rest, s.scopes = sc :: rest ∧ i < sc.length

/-- `Safe` from the states that satisfy `pre` -/
structure SafeP {α : Type} (pre : CSt → Prop) (m : M α) (Q : α → Prop) : Prop where
  prf : ∀ e s, Inv s → pre s → ∃ a s', m e s = .ok a s' ∧ Keep s s' ∧ Q a

theorem Safe.toP {α : Type} {pre : CSt → Prop} {m : M α} {Q : α → Prop} (h : Safe m Q) : SafeP pre m Q :=
  ⟨fun e s hi _ => h.prf e s hi⟩

theorem SafeP.mono_pre {α : Type} {pre pre' : CSt → Prop} {m : M α} {Q : α → Prop} (h : SafeP pre m Q)
    (hp : ∀ s, pre' s → pre s) : SafeP pre' m Q :=
  ⟨fun e s hi hpre => h.prf e s hi (hp s hpre)⟩

theorem Safe.bind_resolve {β : Type} (q : Bytes) (f : Option VarRef → M β) (Q : β → Prop)
    (hf : ∀ r, SafeP (fun s => ∀ x, r = some x → x.scope = .local → TopLen s x.index) (f r) Q) :
    Safe (C16.resolveVarRef q >>= f) Q := by
  constructor; intro e s hi
  obtain ⟨scopes, pragmas, errors, fixes⟩ := s
  cases scopes with
  | nil => exact absurd hi.sc (Nat.lt_irrefl 0)
  | cons sc rest =>
    obtain ⟨r, hr⟩ := resolveIn_cons e.builtin sc rest q
    obtain ⟨b, s2, e2, k2, qb⟩ := (hf r).prf e _ hi (fun x hx hl => by
      subst hx
      exact ⟨sc, rest, rfl, resolveIn_local _ _ _ _ _ hr hl⟩)
    refine ⟨b, s2, ?_, k2, qb⟩
    show M.bind (C16.resolveVarRef q) f e _ = _
    unfold M.bind C16.resolveVarRef
    simp only [hr]
    exact e2

theorem SafeP.thisScope_bind {β : Type} {i : Nat} {f : StaticNs → M β} {Q : β → Prop}
    (hf : ∀ sc, i < sc.length → Safe (f sc) Q) : SafeP (fun s => TopLen s i) (thisScope >>= f) Q := by
  constructor; intro e s hi hpre
  obtain ⟨sc, rest, hs, hlt⟩ := hpre
  obtain ⟨scopes, pragmas, errors, fixes⟩ := s
  simp only [] at hs
  subst hs
  obtain ⟨b, s2, e2, k2, qb⟩ := (hf sc hlt).prf e _ hi
  refine ⟨b, s2, ?_, k2, qb⟩
  show M.bind thisScope f e _ = _
  unfold M.bind C16.thisScope
  exact e2

/-! ### bodies found by the getter -/

theorem FromArg.good {k : Nat} {fn l : Node} {o : Option Node} (h : FromArg fn o) (ho : o = some l)
    (hfn : D k fn) : D k l ∧ l.kind = .primary ∧ l.ptype = Lambda := by
  obtain ⟨x, hx, hl⟩ := h l ho
  exact lambdaOf_D (hfn.arg hx).1 hl

theorem Lambda_ne_Tilde {t : Int} (h : t = Lambda) : t ≠ Tilde := by
  subst h; decide

theorem Redir.left_mem {n l : Node} (h : Redir.left n = some l) : l ∈ compounds n := by
  unfold Redir.left at h
  split at h
  · exact head?_mem h
  · cases h

theorem Redir.right_mem {n r : Node} (h : Redir.right n = some r) : r ∈ compounds n := by
  unfold Redir.right at h
  split at h
  · exact List.mem_of_mem_drop (head?_mem h)
  · exact head?_mem h

section Open
variable {compoundOp : Node → M Unit} {chunkOp : Node → M Unit} {k : Nat}
variable (hc : ∀ n, D k n → n.kind = .compound → Safe (compoundOp n) T)
variable (hk : ∀ n, D k n → n.kind = .chunk → Safe (chunkOp n) T)
include hc

theorem Safe.compileDel (fn : Node) (hfn : D k fn) : Safe (compileDel compoundOp fn) T := by
  unfold C16.compileDel
  refine Safe.forEach _ _ (fun cn hcn => ?_)
  have hcnD := hfn.arg hcn
  refine Safe.bindT Safe.getEnv (fun env => ?_)
  split
  · next ix heq =>
    have hixD := hcnD.1.of (K := .indexing) (x := ix) (by
      show ix ∈ Compound.indexings cn
      rw [heq]; exact List.mem_cons_self)
    obtain ⟨hd, hhd, _⟩ := nodeOk_indexing (shape_nodeOk hixD.1.1) hixD.2
    refine Safe.bind (Safe.deref _ _ (by rw [hhd]; rfl)) (fun head _ => ?_)
    split
    · safe
    · split
      · safe
      · refine Safe.bind_resolve _ _ _ (fun r => ?_)
        split
        · exact (Safe.errAt _ (by decide) _).toP
        · next r =>
          split
          · split
            · exact (Safe.pure _ trivial).toP
            · split
              · next hloc =>
                simp only [Bool.and_eq_true, beq_iff_eq] at hloc
                refine (SafeP.thisScope_bind (i := r.index) (fun sc hlt => ?_)).mono_pre
                  (fun s hpre => hpre r rfl hloc.1)
                obtain ⟨sc', hsc'⟩ := markDeleted_some sc r.index hlt
                simp only [hsc']
                exact Safe.setThisScope sc'
              · exact (Safe.errAt _ (by decide) _).toP
          · exact (Safe.arrayOps hc _ (fun a ha => (hixD.1.of ha).1)).toP
  · safe

include hk

theorem Safe.primaryOpNN (fn : Node) (hfn : D k fn) (o : Option Node) (w : String) (hs : o.isSome = true)
    (hfa : FromArg fn o) : Safe (primaryOpNN compoundOp chunkOp o w) T := by
  unfold C16.primaryOpNN
  refine Safe.bind (Safe.deref _ _ hs) (fun p hp => ?_)
  obtain ⟨h1, h2, h3⟩ := hfa.good hp hfn
  exact Safe.primaryOp hc hk p h1 h2 (Lambda_ne_Tilde h3)

theorem Safe.optPrimaryOp (fn : Node) (hfn : D k fn) (o : Option Node) (hfa : FromArg fn o) :
    Safe (optPrimaryOp compoundOp chunkOp o) T := by
  unfold C16.optPrimaryOp
  split
  · next p =>
    obtain ⟨h1, h2, h3⟩ := hfa.good rfl hfn
    exact Safe.primaryOp hc hk p h1 h2 (Lambda_ne_Tilde h3)
  · exact Safe.pure _ trivial

theorem Safe.compileWith (fn : Node) (hfn : D k fn) : Safe (compileWith compoundOp chunkOp fn) T := by
  unfold C16.compileWith
  dsimp only
  split
  · safe
  · next hlen =>
    have hlen' : 2 ≤ (Form.args fn).length := by omega
    cases hgl : (Form.args fn).getLast? with
    | none =>
      have := List.getLast?_eq_none_iff.mp hgl
      rw [this] at hlen'; simp at hlen'
    | some lastArg =>
      dsimp only
      have hlastD := hfn.arg (getLast?_mem hgl)
      split
      · safe
      · next body hbody =>
        obtain ⟨hb1, hb2, hb3⟩ := lambdaOf_D hlastD.1 hbody
        have hne : (Form.args fn).dropLast ≠ [] := by
          intro h
          have := congrArg List.length h
          simp only [List.length_dropLast, List.length_nil] at this
          omega
        have hsub : ∀ x ∈ (Form.args fn).dropLast, D k x ∧ x.kind = .compound := fun x hx =>
          hfn.arg (List.mem_of_mem_take (by rw [← List.dropLast_eq_take]; exact hx))
        cases hfirst : (Form.args fn).dropLast.head? with
        | none => exact absurd (List.head?_eq_none_iff.mp hfirst) hne
        | some first =>
          cases hlast : (Form.args fn).dropLast.getLast? with
          | none => exact absurd (List.getLast?_eq_none_iff.mp hlast) hne
          | some lastAssign =>
            dsimp only
            have hfirstD := hsub first (head?_mem hfirst)
            split
            · safe
            · next fp hfp =>
              refine Safe.bindT ?_ (fun _ => Safe.primaryOp hc hk body hb1 hb2 (Lambda_ne_Tilde hb3))
              split
              · refine Safe.forEach _ _ (fun a ha => ?_)
                split
                · safe
                · next p hp =>
                  have hpD := primaryOf_D (hsub a ha).1 hp
                  split
                  · safe
                  · exact Safe.compileLHSRHS hc _ _ _ (fun x hx => hpD.1.of (elements_sub hx))
              · exact Safe.compileLHSRHS hc _ _ _ hsub

theorem Safe.compileFn (fn : Node) (hfn : D k fn) : Safe (compileFn compoundOp chunkOp fn) T := by
  unfold C16.compileFn
  dsimp only
  refine Safe.bind (Safe.AG_get _ 0) (fun r h => ?_)
  obtain ⟨ag1, a0⟩ := r
  obtain ⟨f1, o1, e1, s1⟩ := h
  dsimp only at f1 o1 e1 s1 ⊢
  refine Safe.bind (Safe.AG_stringLit ag1 a0) (fun r h => ?_)
  obtain ⟨ag2, name⟩ := r
  obtain ⟨f2, o2⟩ := h
  dsimp only at f2 o2 ⊢
  refine Safe.bind (Safe.AG_get ag2 1) (fun r h => ?_)
  obtain ⟨ag3, a1⟩ := r
  obtain ⟨f3, o3, e3, s3⟩ := h
  dsimp only at f3 o3 e3 s3 ⊢
  refine Safe.bind (Safe.AG_lambda ag3 a1) (fun r h => ?_)
  obtain ⟨ag4, body⟩ := r
  have hfa := h.fromArg (i := 1) (by rw [f3]; exact e3)
  obtain ⟨f4, o4, s4, _⟩ := h
  dsimp only at f4 o4 s4 hfa ⊢
  rw [f3, f2, f1] at hfa
  refine Safe.bind (Safe.AG_finish ag4) (fun ok hok => ?_)
  split
  · exact Safe.pure _ trivial
  · next hnot =>
    have hok4 : ag4.ok = true := hok (by simpa using hnot)
    refine Safe.bindT (Safe.addName _) (fun _ => ?_)
    refine Safe.bind (Safe.deref body _ (s4 hok4 (s3 (o4 hok4)))) (fun b hb => ?_)
    obtain ⟨h1, h2, h3⟩ := hfa.good hb hfn
    exact Safe.lambda hc hk b h1 h2 h3

theorem Safe.compileIf (fn : Node) (hfn : D k fn) : Safe (compileIf compoundOp chunkOp fn) T := by
  unfold C16.compileIf
  dsimp only
  refine Safe.bind (Safe.ifLoop fn _ _ 0 [] [] rfl (Nat.zero_le _) (by omega)
    (fun _ h => by cases h) (fun _ h => by cases h)) (fun r h => ?_)
  obtain ⟨ag1, i, conds, bodies⟩ := r
  obtain ⟨f1, hcs, hbs⟩ := h
  dsimp only at f1 hcs hbs ⊢
  refine Safe.bind (Safe.AG_optionalKeywordBody ag1 i sElse) (fun r h => ?_)
  obtain ⟨ag2, elseBody⟩ := r
  obtain ⟨f2, o2, hfa⟩ := h
  dsimp only at f2 o2 hfa ⊢
  rw [f1] at hfa
  refine Safe.bind (Safe.AG_finish ag2) (fun ok hok => ?_)
  split
  · exact Safe.pure _ trivial
  · next hnot =>
    have hok1 : ag1.ok = true := o2 (hok (by simpa using hnot))
    refine Safe.bindT (Safe.forEach _ _ (fun c hcm => ?_)) (fun _ => ?_)
    · refine Safe.bind (Safe.deref c _ ((hcs c hcm).1 hok1)) (fun c' hc' => ?_)
      have := hfn.arg ((hcs c hcm).2 c' hc')
      exact hc c' this.1 this.2
    refine Safe.bindT (Safe.forEach _ _ (fun b hbm => ?_)) (fun _ => ?_)
    · exact Safe.primaryOpNN hc hk fn hfn b _ ((hbs b hbm).1 hok1) (hbs b hbm).2
    · exact Safe.optPrimaryOp hc hk fn hfn elseBody hfa

theorem Safe.compileWhile (fn : Node) (hfn : D k fn) : Safe (compileWhile compoundOp chunkOp fn) T := by
  unfold C16.compileWhile
  dsimp only
  refine Safe.bind (Safe.AG_get _ 0) (fun r h => ?_)
  obtain ⟨ag1, cond⟩ := r
  obtain ⟨f1, o1, e1, s1⟩ := h
  dsimp only at f1 o1 e1 s1 ⊢
  refine Safe.bind (Safe.AG_get ag1 1) (fun r h => ?_)
  obtain ⟨ag2, b0⟩ := r
  obtain ⟨f2, o2, e2, s2⟩ := h
  dsimp only at f2 o2 e2 s2 ⊢
  refine Safe.bind (Safe.AG_thunk ag2 b0) (fun r h => ?_)
  obtain ⟨ag3, body⟩ := r
  have hfa := h.fromArg (i := 1) (by rw [f2]; exact e2)
  obtain ⟨f3, o3, s3, _⟩ := h
  dsimp only at f3 o3 s3 hfa ⊢
  rw [f2, f1] at hfa
  refine Safe.bind (Safe.AG_optionalKeywordBody ag3 2 sElse) (fun r h => ?_)
  obtain ⟨ag4, elseBody⟩ := r
  obtain ⟨f4, o4, hfe⟩ := h
  dsimp only at f4 o4 hfe ⊢
  rw [f3, f2, f1] at hfe
  refine Safe.bind (Safe.AG_finish ag4) (fun ok hok => ?_)
  split
  · exact Safe.pure _ trivial
  · next hnot =>
    have hok3 : ag3.ok = true := o4 (hok (by simpa using hnot))
    refine Safe.bind (Safe.deref cond _ (s1 (o2 (o3 hok3)))) (fun c hcd => ?_)
    have hcD := hfn.arg (x := c) (by rw [hcd] at e1; exact List.mem_of_getElem? e1.symm)
    refine Safe.bindT (hc c hcD.1 hcD.2) (fun _ => ?_)
    refine Safe.bindT (Safe.primaryOpNN hc hk fn hfn body _ (s3 hok3 (s2 (o3 hok3))) hfa) (fun _ => ?_)
    exact Safe.optPrimaryOp hc hk fn hfn elseBody hfe

theorem Safe.compileFor (fn : Node) (hfn : D k fn) (hkind : fn.kind = .form) :
    Safe (compileFor compoundOp chunkOp fn) T := by
  have hform := nodeOk_form (shape_nodeOk hfn.1) hkind
  unfold C16.compileFor
  dsimp only
  refine Safe.bind (Safe.AG_get _ 0) (fun r h => ?_)
  obtain ⟨ag1, varNode⟩ := r
  obtain ⟨f1, o1, e1, s1⟩ := h
  dsimp only at f1 o1 e1 s1 ⊢
  refine Safe.bind (Safe.AG_get ag1 1) (fun r h => ?_)
  obtain ⟨ag2, iterNode⟩ := r
  obtain ⟨f2, o2, e2, s2⟩ := h
  dsimp only at f2 o2 e2 s2 ⊢
  refine Safe.bind (Safe.AG_get ag2 2) (fun r h => ?_)
  obtain ⟨ag3, b0⟩ := r
  obtain ⟨f3, o3, e3, s3⟩ := h
  dsimp only at f3 o3 e3 s3 ⊢
  refine Safe.bind (Safe.AG_thunk ag3 b0) (fun r h => ?_)
  obtain ⟨ag4, body⟩ := r
  have hfa := h.fromArg (i := 2) (by rw [f3]; exact e3)
  obtain ⟨f4, o4, s4, _⟩ := h
  dsimp only at f4 o4 s4 hfa ⊢
  rw [f3, f2, f1] at hfa
  refine Safe.bind (Safe.AG_optionalKeywordBody ag4 3 sElse) (fun r h => ?_)
  obtain ⟨ag5, elseBody⟩ := r
  obtain ⟨f5, o5, hfe⟩ := h
  dsimp only at f5 o5 hfe ⊢
  rw [f4, f3, f2, f1] at hfe
  rw [f1] at e2
  refine Safe.bind (Safe.AG_finish ag5) (fun ok hok => ?_)
  split
  · exact Safe.pure _ trivial
  · next hnot =>
    have hok4 : ag4.ok = true := o5 (hok (by simpa using hnot))
    refine Safe.bind (Safe.deref varNode _ (s1 (o2 (o3 (o4 hok4))))) (fun v hv => ?_)
    have hvm : v ∈ Form.args fn := by rw [hv] at e1; exact List.mem_of_getElem? e1.symm
    refine Safe.bindT (Safe.compileOneLValue hc v _ (hfn.arg hvm).1 (hform.2 v hvm)) (fun _ => ?_)
    refine Safe.bind (Safe.deref iterNode _ (s2 (o3 (o4 hok4)))) (fun it hit => ?_)
    have hitD := hfn.arg (x := it) (by rw [hit] at e2; exact List.mem_of_getElem? e2.symm)
    refine Safe.bindT (hc it hitD.1 hitD.2) (fun _ => ?_)
    refine Safe.bindT (Safe.primaryOpNN hc hk fn hfn body _ (s4 hok4 (s3 (o4 hok4))) hfa) (fun _ => ?_)
    exact Safe.optPrimaryOp hc hk fn hfn elseBody hfe

theorem Safe.compileTry (fn : Node) (hfn : D k fn) : Safe (compileTry compoundOp chunkOp fn) T := by
  unfold C16.compileTry
  dsimp only
  refine Safe.bind (Safe.AG_get _ 0) (fun r h => ?_)
  obtain ⟨ag1, b0⟩ := r
  obtain ⟨f1, o1, e1, s1⟩ := h
  dsimp only at f1 o1 e1 s1 ⊢
  refine Safe.bind (Safe.AG_thunk ag1 b0) (fun r h => ?_)
  obtain ⟨ag2, body⟩ := r
  have hfa := h.fromArg (i := 0) (by rw [f1]; exact e1)
  obtain ⟨f2, o2, s2, _⟩ := h
  dsimp only at f2 o2 s2 hfa ⊢
  rw [f1] at hfa
  have hfn2 : ag2.fn = fn := by rw [f2, f1]
  refine Safe.bind (P := fun r : AG × Nat × Option Node × Option Node =>
      r.1.fn = fn ∧ (r.1.ok = true → ag2.ok = true) ∧
      (∀ v, r.2.2.1 = some v → v ∈ Form.args fn ∧ Compound.indexings v ≠ []) ∧ FromArg fn r.2.2.2) ?_
    (fun r h => ?_)
  · split
    · refine Safe.bind (Safe.AG_get ag2 2) (fun r h => ?_)
      obtain ⟨ag3, n⟩ := r
      obtain ⟨f3, o3, e3, s3⟩ := h
      dsimp only at f3 o3 e3 s3 ⊢
      rw [hfn2] at e3
      refine Safe.bind (Safe.AG_get ag3 _) (fun r h => ?_)
      obtain ⟨ag4, c0⟩ := r
      obtain ⟨f4, o4, e4, s4⟩ := h
      dsimp only at f4 o4 e4 s4 ⊢
      refine Safe.bind (Safe.AG_thunk ag4 c0) (fun r h => ?_)
      obtain ⟨ag5, c⟩ := r
      have hfc := h.fromArg (by rw [f4]; exact e4)
      obtain ⟨f5, o5, s5, _⟩ := h
      dsimp only at f5 o5 s5 hfc ⊢
      rw [f4, f3, hfn2] at hfc
      refine Safe.pure _ ⟨by rw [f5, f4, f3, hfn2], fun h => o3 (o4 (o5 h)), fun v hv => ?_, hfc⟩
      cases n with
      | none => simp at hv
      | some nn =>
        dsimp only at hv
        split at hv
        · next hlit =>
          simp only [Option.some.injEq] at hv
          subst hv
          cases hsl : stringLiteral nn with
          | none => rw [hsl] at hlit; cases hlit
          | some s => exact ⟨List.mem_of_getElem? e3.symm, stringLiteral_indexings hsl⟩
        · cases hv
    · exact Safe.pure _ ⟨hfn2, id, fun v hv => (by cases hv), fun l hl => (by cases hl)⟩
  obtain ⟨ag3, i, catchVar, catchNode⟩ := r
  obtain ⟨f3, o3, hcv, hfc⟩ := h
  dsimp only at f3 o3 hcv hfc ⊢
  refine Safe.bind (Safe.AG_optionalKeywordBody ag3 i sElse) (fun r h => ?_)
  obtain ⟨ag4, elseNode⟩ := r
  obtain ⟨f4, o4, hfe⟩ := h
  dsimp only at f4 o4 hfe ⊢
  rw [f3] at hfe
  refine Safe.bind (Safe.AG_optionalKeywordBody ag4 _ sFinally) (fun r h => ?_)
  obtain ⟨ag5, finallyNode⟩ := r
  obtain ⟨f5, o5, hff⟩ := h
  dsimp only at f5 o5 hff ⊢
  rw [f4, f3] at hff
  refine Safe.bind (Safe.AG_finish ag5) (fun ok hok => ?_)
  split
  · exact Safe.pure _ trivial
  · next hnot =>
    have hok2 : ag2.ok = true := o3 (o4 (o5 (hok (by simpa using hnot))))
    refine Safe.bindT (by safe) (fun _ => ?_)
    refine Safe.bindT (Safe.primaryOpNN hc hk fn hfn body _ (s2 hok2 (s1 (o2 hok2))) hfa) (fun _ => ?_)
    refine Safe.bindT ?_ (fun _ => ?_)
    · split
      · next v =>
        obtain ⟨hvm, hvne⟩ := hcv v rfl
        exact Safe.compileOneLValue hc v _ (hfn.arg hvm).1 hvne
      · exact Safe.pure _ trivial
    refine Safe.bindT (Safe.optPrimaryOp hc hk fn hfn catchNode hfc) (fun _ => ?_)
    refine Safe.bindT (Safe.optPrimaryOp hc hk fn hfn elseNode hfe) (fun _ => ?_)
    exact Safe.optPrimaryOp hc hk fn hfn finallyNode hff

theorem Safe.compileSpecial (sp : Special) (fn : Node) (hfn : D k fn) (hkind : fn.kind = .form) :
    Safe (compileSpecial compoundOp chunkOp sp fn) T := by
  unfold C16.compileSpecial
  cases sp
  · exact Safe.compileVar hc fn hfn
  · exact Safe.compileSet hc fn hfn
  · exact Safe.compileTmp hc fn hfn
  · exact Safe.compileWith hc hk fn hfn
  · exact Safe.compileDel hc fn hfn
  · exact Safe.compileFn hc hk fn hfn
  · exact Safe.compileUse fn
  · exact Safe.compoundOps hc _ (fun x hx => hfn.arg hx)
  · exact Safe.compoundOps hc _ (fun x hx => hfn.arg hx)
  · exact Safe.compoundOps hc _ (fun x hx => hfn.arg hx)
  · exact Safe.compileIf hc hk fn hfn
  · exact Safe.compileWhile hc hk fn hfn
  · exact Safe.compileFor hc hk fn hfn hkind
  · exact Safe.compileTry hc hk fn hfn
  · exact Safe.compilePragma fn

omit hk in
theorem Safe.redirOp (n : Node) (hn : D k n) (hkind : n.kind = .redir) : Safe (redirOp compoundOp n) T := by
  unfold C16.redirOp
  refine Safe.bindT ?_ (fun _ => ?_)
  · split
    · next l hl =>
      have := hn.of (K := .compound) (Redir.left_mem hl)
      exact hc l this.1 this.2
    · exact Safe.pure _ trivial
  refine Safe.bindT (by safe) (fun _ => ?_)
  refine Safe.bind (Safe.deref _ _ (nodeOk_redir (shape_nodeOk hn.1) hkind)) (fun r hr => ?_)
  have := hn.of (K := .compound) (Redir.right_mem hr)
  exact hc r this.1 this.2

theorem Safe.formBody (n : Node) (hn : D k n) (hkind : n.kind = .form) :
    Safe (formBody compoundOp chunkOp n) T := by
  have hform := nodeOk_form (shape_nodeOk hn.1) hkind
  have hargs := Safe.compoundOps hc (Form.args n) (fun x hx => hn.arg hx)
  have hopts := Safe.mapPairs hc (Form.opts n) (fun p hp => hn.of hp)
  unfold C16.formBody
  refine Safe.bind (Safe.deref _ _ hform.1) (fun head hhead => ?_)
  have hheadD := hn.of (K := .compound) (head?_mem hhead)
  split
  · next h _ =>
    split
    · next sp _ => exact Safe.compileSpecial hc hk sp n hn hkind
    · refine Safe.bindT (Safe.resolveCmdHead h) (fun ref => ?_)
      refine Safe.bindT (by safe) (fun _ => ?_)
      exact Safe.bindT hargs (fun _ => hopts)
  · exact Safe.bindT (hc head hheadD.1 hheadD.2) (fun _ => Safe.bindT hargs (fun _ => hopts))

theorem Safe.formOp (n : Node) (hn : D k n) (hkind : n.kind = .form) : Safe (formOp compoundOp chunkOp n) T := by
  unfold C16.formOp
  refine Safe.bindT (Safe.forEach _ _ (fun r hr => ?_)) (fun _ => Safe.formBody hc hk n hn hkind)
  have := hn.of hr
  exact Safe.redirOp hc r this.1 this.2

theorem Safe.pipelineOp (n : Node) (hn : D k n) : Safe (pipelineOp compoundOp chunkOp n) T := by
  unfold C16.pipelineOp
  refine Safe.forEach _ _ (fun f hf => ?_)
  have := hn.of hf
  exact Safe.formOp hc hk f this.1 this.2

/-- `chunkOp`'s body, for a `Chunk` whose children are within the bound -/
theorem Safe.chunkBody (n : Node) (hch : ∀ c ∈ n.children, D k c) : Safe (chunkBody compoundOp chunkOp n) T := by
  unfold C16.chunkBody
  refine Safe.forEach _ _ (fun p hp => ?_)
  exact Safe.pipelineOp hc hk p (childrenOf_D hch hp).1

end Open

/-- the node type `compileNT … nt` is called on -/
def ntKind : NT → C01.Kind
  | .chunk => .chunk
  | .compound => .compound

theorem D.children_lt {k : Nat} {n : Node} (h : D (k + 1) n) (hkind : n.kind = .chunk ∨ n.kind = .compound) :
    ∀ c ∈ n.children, D k c := by
  intro c hc
  refine ⟨shapeL_mem (shape_children h.1) hc, ?_⟩
  have h1 := nestL_mem hc
  have h2 := nest_children_lt n hkind
  have h3 := h.2
  omega

/-- **Panic-freedom and fuel sufficiency of the compiler**: on a `Chunk` / `Compound` that has the
shape the parser guarantees and nests at most `k` deep, `compileNT k` returns. -/
theorem Safe.compileNT : ∀ (k : Nat) (nt : NT) (n : Node), D k n → n.kind = ntKind nt → Safe (compileNT k nt n) T
  | 0, nt, n, hd, hkind => by
    have := nest_children_lt n (by cases nt <;> simp only [ntKind] at hkind <;> simp [hkind])
    have := hd.2
    omega
  | k + 1, .chunk, n, hd, hkind => by
    unfold C16.compileNT
    exact Safe.chunkBody (fun m hm hmk => Safe.compileNT k .compound m hm hmk)
      (fun m hm hmk => Safe.compileNT k .chunk m hm hmk) n (hd.children_lt (Or.inl hkind))
  | k + 1, .compound, n, hd, hkind => by
    unfold C16.compileNT
    exact Safe.compoundBody (fun m hm hmk => Safe.compileNT k .compound m hm hmk)
      (fun m hm hmk => Safe.compileNT k .chunk m hm hmk) n (shape_nodeOk hd.1) hkind
      (hd.children_lt (Or.inr hkind))

theorem compileCore_ok (env : Env) (fuel : Nat) (g : StaticNs) (tree : Node)
    (hs : shape tree = true) (hkind : tree.kind = .chunk) (hf : nest tree ≤ fuel) :
    ∃ s', compileCore env fuel g tree = .ok () s' ∧ s'.scopes.length = 1 ∧ Clean s'.errors := by
  obtain ⟨a, s', h1, hk, _⟩ := (Safe.compileNT fuel .chunk tree ⟨hs, hf⟩ hkind).prf env
    { scopes := [g], pragmas := [true], errors := [], fixes := [] } ⟨by simp, by simp⟩
  exact ⟨s', h1, hk.sc, hk.cl Clean.nil⟩

theorem compile_ok (env : Env) (fuel : Nat) (g : StaticNs) (modules : List Bytes) (tree : Node)
    (hs : shape tree = true) (hkind : tree.kind = .chunk) (hf : nest tree ≤ fuel) :
    ∃ c, compile env fuel g modules tree = .ok c ∧ Clean c.errors := by
  obtain ⟨s', h1, hlen, hcl⟩ := compileCore_ok env fuel g tree hs hkind hf
  unfold compile
  rw [h1]
  dsimp only
  match hsc : s'.scopes, hlen with
  | [t], _ => exact ⟨_, rfl, hcl⟩

end C16
