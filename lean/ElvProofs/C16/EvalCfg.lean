/-
C16: the phase structure of `evalIn` (explicit `cfg.Global`, `Frame.Eval`, file modules).
-/
import ElvModel.C16.EvalCfg
import ElvProofs.C16.Lemmas
namespace C16
open Go

section
variable {W Eff Exc : Type} (R : Runtime W Eff Exc)
  (execIn : Node → StaticNs → Evaler W → Evaler W × List Eff × Option Exc)
  (ev : Evaler W) (g : StaticNs) (src : Bytes)

theorem evalIn_static_error (h : (evalIn R execIn ev g src).2.2.isStaticError = true) :
    (evalIn R execIn ev g src).2.1 = [] ∧ (evalIn R execIn ev g src).1 = ev := by
  unfold evalIn at h ⊢
  split
  · exact ⟨rfl, rfl⟩
  · exact ⟨rfl, rfl⟩
  · split
    · exact ⟨rfl, rfl⟩
    · split
      · exact ⟨rfl, rfl⟩
      · exact ⟨rfl, rfl⟩
      · split
        · exact ⟨rfl, rfl⟩
        · simp_all [Outcome.isStaticError]

theorem evalIn_ran (exc : Option Exc) (h : (evalIn R execIn ev g src).2.2 = .ran exc) :
    ∃ tree c, R.parse src = .ok tree [] ∧
      compile { builtin := ev.builtin, isPrint := R.isPrint } (R.fuel src) g [] tree = .ok c ∧
      c.errors = [] ∧
      evalIn R execIn ev g src =
        ((execIn tree c.template ev).1, (execIn tree c.template ev).2.1, .ran (execIn tree c.template ev).2.2) := by
  unfold evalIn at h ⊢
  cases hp : R.parse src with
  | panic w => simp [hp] at h
  | fuel => simp [hp] at h
  | ok tree perrs =>
    simp only [hp] at h ⊢
    cases perrs with
    | cons a l => simp at h
    | nil =>
      simp only [List.isEmpty_nil, Bool.not_true, Bool.false_eq_true, if_false] at h ⊢
      cases hc : compile { builtin := ev.builtin, isPrint := R.isPrint } (R.fuel src) g [] tree with
      | panic w => simp [hc] at h
      | fuel => simp [hc] at h
      | ok c =>
        simp only [hc] at h ⊢
        cases hce : c.errors with
        | cons a l => simp [hce] at h
        | nil =>
          refine ⟨tree, c, rfl, hc, hce, ?_⟩
          simp

/-- `evalIn` against `g` has the static outcome of `eval` on the evaler whose global namespace is `g` -/
theorem evalIn_static_eq_eval :
    (evalIn R execIn ev g src).2.2.isStaticError = (eval R { ev with global := g } src).2.2.isStaticError := by
  unfold evalIn eval
  cases R.parse src with
  | panic w => rfl
  | fuel => rfl
  | ok tree perrs =>
    dsimp only
    split
    · rfl
    · cases compile { builtin := ev.builtin, isPrint := R.isPrint } (R.fuel src) g [] tree with
      | panic w => rfl
      | fuel => rfl
      | ok c =>
        dsimp only
        split <;> rfl

end
end C16
