/-
C16: no compiler function of the model panics or runs out of fuel on a tree
that has the `shape` the parser guarantees, and none of them reports
`exactly-one-lvalue`, `tilde-bug` or `bad-primary` (the judgment `Safe` of
`SafeLogic.lean` pushed through every function of `ElvModel/C16/Model.lean`).
-/
import ElvProofs.C16.SafeNodes
namespace C16
open Go
open Gen.C01Chars

theorem Safe.stringLiteralOrError (n : Node) : Safe (stringLiteralOrError n) T := by
  unfold C16.stringLiteralOrError; safe

theorem Safe.lambdaArgs (l : List Node) (seen : List Bytes) (hr : Bool) (names : List Bytes) :
    Safe (lambdaArgs l seen hr names) T := by
  induction l generalizing seen hr names with
  | nil => unfold C16.lambdaArgs; safe
  | cons a rest ih =>
    unfold C16.lambdaArgs
    have h1 := Safe.stringLiteralOrError a
    safe

/-! ### forms that only use the getter -/

theorem Safe.compileUse (fn : Node) : Safe (compileUse fn) T := by
  unfold C16.compileUse
  have h1 := fun ag i => (Safe.AG_get ag i).toT
  have h2 := fun ag n => (Safe.AG_stringLit ag n).toT
  have h3 := fun ag => (Safe.AG_finish ag).toT
  safe

theorem Safe.compilePragma (fn : Node) : Safe (compilePragma fn) T := by
  unfold C16.compilePragma
  dsimp only
  refine Safe.bind (Safe.AG_get _ 0) (fun r h => ?_)
  obtain ⟨ag1, a0⟩ := r
  obtain ⟨f1, o1, e1, s1⟩ := h
  dsimp only at f1 o1 e1 s1 ⊢
  refine Safe.bind (Safe.AG_stringLit ag1 a0) (fun r h => ?_)
  obtain ⟨ag2, name⟩ := r
  obtain ⟨f2, o2⟩ := h
  dsimp only at f2 o2 ⊢
  refine Safe.bind (Safe.AG_get ag2 1) (fun r h => ?_)
  obtain ⟨ag3, a1⟩ := r
  obtain ⟨f3, o3, e3, s3⟩ := h
  dsimp only at f3 o3 e3 s3 ⊢
  refine Safe.bind (Safe.AG_stringLit ag3 a1) (fun r h => ?_)
  obtain ⟨ag4, eq⟩ := r
  obtain ⟨f4, o4⟩ := h
  dsimp only at f4 o4 ⊢
  refine Safe.bind (P := fun ag5 : AG => ag5.fn = ag4.fn ∧ (ag5.ok = true → ag4.ok = true)) ?_ (fun ag5 h5 => ?_)
  · split
    · next hcond =>
      simp only [Bool.and_eq_true] at hcond
      have hlt : 1 < (Form.args ag4.fn).length := by simpa [AG.has] using hcond.1
      rw [f4, f3] at hlt
      have hsome : a1.isSome = true := by
        rw [e3]; simp [hlt]
      cases a1 with
      | none => cases hsome
      | some a =>
        exact (Safe.AG_err ag4 _ (by decide) _ _).mono (fun ag5 h => ⟨h.1, fun h' => by rw [h.2] at h'; cases h'⟩)
    · exact Safe.pure _ ⟨rfl, id⟩
  refine Safe.bind (Safe.AG_get ag5 2) (fun r h => ?_)
  obtain ⟨ag6, valueNode⟩ := r
  obtain ⟨f6, o6, e6, s6⟩ := h
  dsimp only at f6 o6 e6 s6 ⊢
  refine Safe.bind (Safe.AG_finish ag6) (fun ok hok => ?_)
  split
  · exact Safe.pure _ trivial
  · next hnot =>
    have hok6 : ag6.ok = true := hok (by simpa using hnot)
    have hok1 : ag1.ok = true := o2 (o3 (o4 (h5.2 (o6 hok6))))
    split
    · refine Safe.bind (Safe.deref valueNode _ (s6 hok6)) (fun vn _ => ?_)
      have h1 := Safe.stringLiteralOrError vn
      safe
    · refine Safe.bind (Safe.deref a0 _ (s1 hok1)) (fun a _ => ?_)
      safe

/-- the lists `compileIf` collects: every entry is there while the getter is OK, and is an argument -/
def OptsIn (fn : Node) (ok : Bool) (cs : List (Option Node)) : Prop :=
  ∀ o ∈ cs, (ok = true → o.isSome = true) ∧ (∀ a, o = some a → a ∈ Form.args fn)

/-- … and every body is the lambda of an argument -/
def BodiesIn (fn : Node) (ok : Bool) (bs : List (Option Node)) : Prop :=
  ∀ o ∈ bs, (ok = true → o.isSome = true) ∧ FromArg fn o

theorem OptsIn.snoc {fn : Node} {ok ok' : Bool} {cs : List (Option Node)} {o : Option Node}
    (h : OptsIn fn ok cs) (hle : ok' = true → ok = true) (h1 : ok' = true → o.isSome = true)
    (h2 : ∀ a, o = some a → a ∈ Form.args fn) : OptsIn fn ok' (cs ++ [o]) := by
  intro x hx
  rcases List.mem_append.mp hx with hx | hx
  · exact ⟨fun hk => (h x hx).1 (hle hk), (h x hx).2⟩
  · rw [List.mem_singleton] at hx; subst hx; exact ⟨h1, h2⟩

theorem BodiesIn.snoc {fn : Node} {ok ok' : Bool} {cs : List (Option Node)} {o : Option Node}
    (h : BodiesIn fn ok cs) (hle : ok' = true → ok = true) (h1 : ok' = true → o.isSome = true)
    (h2 : FromArg fn o) : BodiesIn fn ok' (cs ++ [o]) := by
  intro x hx
  rcases List.mem_append.mp hx with hx | hx
  · exact ⟨fun hk => (h x hx).1 (hle hk), (h x hx).2⟩
  · rw [List.mem_singleton] at hx; subst hx; exact ⟨h1, h2⟩

theorem Safe.ifLoop (fn : Node) : ∀ (fuel : Nat) (ag : AG) (i : Nat) (cs bs : List (Option Node)),
    ag.fn = fn → i ≤ (Form.args fn).length → (Form.args fn).length + 1 ≤ fuel + i →
    OptsIn fn ag.ok cs → BodiesIn fn ag.ok bs →
    Safe (ifLoop fuel ag i cs bs)
      (fun r => r.1.fn = fn ∧ OptsIn fn r.1.ok r.2.2.1 ∧ BodiesIn fn r.1.ok r.2.2.2)
  | 0, _, _, _, _, _, h1, h2, _, _ => by omega
  | fuel + 1, ag, i, cs, bs, hfn, hle, hfuel, hcs, hbs => by
    unfold C16.ifLoop
    refine Safe.bind (Safe.AG_get ag i) (fun r h => ?_)
    obtain ⟨ag1, c⟩ := r
    obtain ⟨f1, o1, e1, s1⟩ := h
    dsimp only at f1 o1 e1 s1 ⊢
    refine Safe.bind (Safe.AG_get ag1 (i + 1)) (fun r h => ?_)
    obtain ⟨ag2, b0⟩ := r
    obtain ⟨f2, o2, e2, s2⟩ := h
    dsimp only at f2 o2 e2 s2 ⊢
    refine Safe.bind (Safe.AG_thunk ag2 b0) (fun r h => ?_)
    obtain ⟨ag3, b⟩ := r
    have hfa := h.fromArg (i := i + 1) (by rw [f2]; exact e2)
    obtain ⟨f3, o3, s3, _⟩ := h
    dsimp only at f3 o3 s3 hfa ⊢
    have hfn3 : ag3.fn = fn := by rw [f3, f2, f1, hfn]
    rw [f2, f1, hfn] at hfa
    rw [hfn] at e1
    have hcs' : OptsIn fn ag3.ok (cs ++ [c]) :=
      hcs.snoc (fun h => o1 (o2 (o3 h))) (fun h => s1 (o2 (o3 h)))
        (fun a ha => by rw [ha] at e1; exact List.mem_of_getElem? e1.symm)
    have hbs' : BodiesIn fn ag3.ok (bs ++ [b]) :=
      hbs.snoc (fun h => o1 (o2 (o3 h))) (fun h => s3 h (s2 (o3 h))) hfa
    split
    · exact Safe.pure _ ⟨hfn3, hcs', hbs'⟩
    · next hkw =>
      have hkw' : ag3.hasKeyword (i + 2) sElif = true := by simpa using hkw
      have hlt := hasKeyword_lt hkw'
      rw [hfn3] at hlt
      exact Safe.ifLoop fn fuel ag3 (i + 2 + 1) _ _ hfn3 (by omega) (by omega) hcs' hbs'

/-! ### the compiler proper -/

/-- what `compileIndexingLValue` returns: exactly one lvalue; the rest index, if any, is 0 -/
def LV1 (g : LVGroup) : Prop := g.lvalues.length = 1 ∧ (g.rest = none ∨ g.rest = some 0)

theorem LV1.dummy : LV1 dummyLVGroup := ⟨rfl, Or.inl rfl⟩

theorem singleIndexing_mem {n ix : Node} (h : singleIndexing n = some ix) : ix ∈ Compound.indexings n := by
  unfold singleIndexing at h
  split at h
  · next ix' heq =>
    simp only [Option.some.injEq] at h; subst h
    rw [heq]; exact List.mem_cons_self
  · cases h

section Open
variable {compoundOp : Node → M Unit} {chunkOp : Node → M Unit} {k : Nat}
variable (hc : ∀ n, D k n → n.kind = .compound → Safe (compoundOp n) T)
variable (hk : ∀ n, D k n → n.kind = .chunk → Safe (chunkOp n) T)
include hc

theorem Safe.compoundOps (ns : List Node) (h : ∀ x ∈ ns, D k x ∧ x.kind = .compound) :
    Safe (compoundOps compoundOp ns) T := by
  unfold C16.compoundOps
  exact Safe.forEach _ _ (fun x hx => hc x (h x hx).1 (h x hx).2)

theorem Safe.arrayOps (ns : List Node) (h : ∀ a ∈ ns, D k a) : Safe (arrayOps compoundOp ns) T := by
  unfold C16.arrayOps
  exact Safe.forEach _ _ (fun a ha => Safe.compoundOps hc _ (fun x hx => (h a ha).of hx))

theorem Safe.mapPairs (ps : List Node) (h : ∀ p ∈ ps, D k p ∧ p.kind = .mapPair) :
    Safe (mapPairs compoundOp ps) T := by
  unfold C16.mapPairs
  refine Safe.forEach _ _ (fun p hp => ?_)
  obtain ⟨hd, hkind⟩ := h p hp
  refine Safe.bind (Safe.deref _ _ (nodeOk_mapPair (shape_nodeOk hd.1) hkind)) (fun key hkey => ?_)
  have hkD := hd.of (K := .compound) (head?_mem hkey)
  refine Safe.bindT (hc key hkD.1 hkD.2) (fun _ => ?_)
  split
  · next v hv =>
    have hvD := hd.of (K := .compound) (List.mem_of_mem_drop (head?_mem hv))
    exact hc v hvD.1 hvD.2
  · exact Safe.pure _ trivial

theorem Safe.lambdaOpts (l : List Node) (names : List Bytes) (h : ∀ p ∈ l, D k p ∧ p.kind = .mapPair) :
    Safe (lambdaOpts compoundOp l names) T := by
  induction l generalizing names with
  | nil => unfold C16.lambdaOpts; exact Safe.pure _ trivial
  | cons opt rest ih =>
    unfold C16.lambdaOpts
    obtain ⟨hd, hkind⟩ := h opt List.mem_cons_self
    refine Safe.bind (Safe.deref _ _ (nodeOk_mapPair (shape_nodeOk hd.1) hkind)) (fun key hkey => ?_)
    refine Safe.bindT (Safe.stringLiteralOrError key) (fun qname => ?_)
    dsimp only
    refine Safe.bindT (by safe) (fun _ => ?_)
    refine Safe.bindT (by safe) (fun _ => ?_)
    refine Safe.bindT ?_ (fun _ => ih _ (fun p hp => h p (List.mem_cons_of_mem _ hp)))
    split
    · safe
    · next v hv =>
      have hvD := hd.of (K := .compound) (List.mem_of_mem_drop (head?_mem hv))
      exact hc v hvD.1 hvD.2

include hk

theorem Safe.lambda (n : Node) (hn : D k n) (hkind : n.kind = .primary) (hl : n.ptype = Lambda) :
    Safe (lambda compoundOp chunkOp n) T := by
  have hok := nodeOk_primary (shape_nodeOk hn.1) hkind
  have hch : (Primary.chunk n).isSome = true := hok.2 (by rw [hl]; decide)
  unfold C16.lambda
  refine Safe.bindT (Safe.lambdaArgs _ _ _ _) (fun argNames => ?_)
  refine Safe.bindT (Safe.lambdaOpts hc _ _ (fun p hp => hn.of hp)) (fun optNames => ?_)
  refine Safe.push ?_
  refine SafeUp.bindT (Safe.forEach _ _ (fun a _ => by safe)) (fun _ => ?_)
  refine SafeUp.bindT (Safe.forEach _ _ (fun a _ => by safe)) (fun _ => ?_)
  refine SafeUp.bind (Safe.deref _ _ hch) (fun c hcc => ?_)
  have hcD := hn.of (K := .chunk) (head?_mem hcc)
  exact SafeUp.bindT (hk c hcD.1 hcD.2) (fun _ => SafeUp.popScope)

theorem Safe.primaryOp (n : Node) (hn : D k n) (hkind : n.kind = .primary) (hnt : n.ptype ≠ Tilde) :
    Safe (primaryOp compoundOp chunkOp n) T := by
  have hok := nodeOk_primary (shape_nodeOk hn.1) hkind
  unfold C16.primaryOp
  dsimp only
  split
  · exact Safe.pure _ trivial
  split
  · safe
  split
  · safe
  split
  · next h => exact absurd (by simpa using h) hnt
  split
  · next h =>
    have hch : (Primary.chunk n).isSome = true := hok.2 (by
      simp only [Bool.or_eq_true] at h ⊢
      exact Or.inl h)
    refine Safe.bind (Safe.deref _ _ hch) (fun c hcc => ?_)
    have hcD := hn.of (K := .chunk) (head?_mem hcc)
    exact hk c hcD.1 hcD.2
  split
  · exact Safe.compoundOps hc _ (fun x hx => hn.of (elements_sub hx))
  split
  · next h => exact Safe.lambda hc hk n hn hkind (by simpa using h)
  split
  · exact Safe.mapPairs hc _ (fun p hp => hn.of hp)
  split
  · exact Safe.compoundOps hc _ (fun x hx => hn.of (braced_sub hx))
  · have hg := hok.1
    simp only [goodPType, Bool.or_eq_true, beq_iff_eq] at *
    omega

theorem Safe.indexingOp (n : Node) (hn : D k n) (hp : properIndexing n = true) :
    Safe (indexingOp compoundOp chunkOp n) T := by
  obtain ⟨hd, hhd, hnt⟩ := properIndexing_head hp
  unfold C16.indexingOp
  refine Safe.bind (Safe.deref _ _ (by rw [hhd]; rfl)) (fun h hh => ?_)
  rw [hhd] at hh
  simp only [Option.some.injEq] at hh
  subst hh
  have hD := hn.of (K := .primary) (head?_mem hhd)
  refine Safe.bindT (Safe.primaryOp hc hk hd hD.1 hD.2 hnt) (fun _ => ?_)
  exact Safe.arrayOps hc _ (fun a ha => (hn.of ha).1)

/-- `compoundOp`'s body, for a `Compound` whose children are within the bound -/
theorem Safe.compoundBody (n : Node) (hs : nodeOk n = true) (hkind : n.kind = .compound)
    (hch : ∀ c ∈ n.children, D k c) : Safe (compoundBody compoundOp chunkOp n) T := by
  unfold C16.compoundBody
  split
  · exact Safe.pure _ trivial
  · next ix0 rest heq =>
    have hmem : ∀ ix ∈ ix0 :: rest, D k ix ∧ ix.kind = .indexing := fun ix h =>
      childrenOf_D hch (by show ix ∈ Compound.indexings n; rw [heq]; exact h)
    have hrest : ∀ ix ∈ rest, properIndexing ix = true := fun ix h =>
      nodeOk_compound hs hkind ix (by rw [heq]; exact h)
    obtain ⟨hd0, hhd0, _⟩ := nodeOk_indexing (shape_nodeOk (hmem ix0 List.mem_cons_self).1.1)
      (hmem ix0 List.mem_cons_self).2
    refine Safe.bind (Safe.deref _ _ (by rw [hhd0]; rfl)) (fun h0 hh0 => ?_)
    rw [hhd0] at hh0
    simp only [Option.some.injEq] at hh0
    subst hh0
    split
    · split
      · exact Safe.pure _ trivial
      · exact Safe.forEach _ _ (fun ix hix =>
          Safe.indexingOp hc hk ix (hmem ix (List.mem_cons_of_mem _ hix)).1 (hrest ix hix))
    · next hnt =>
      refine Safe.forEach _ _ (fun ix hix => Safe.indexingOp hc hk ix (hmem ix hix).1 ?_)
      rcases List.mem_cons.mp hix with rfl | hix'
      · unfold properIndexing; rw [hhd0]; simpa using hnt
      · exact hrest ix hix'

omit hk

/-! ### lvalues -/

theorem Safe.lvalueResult (n : Node) (r : Bool) (hn : D k n) : Safe (lvalueResult compoundOp n r) LV1 := by
  unfold C16.lvalueResult
  refine Safe.bindT (Safe.arrayOps hc _ (fun a ha => (hn.of ha).1)) (fun _ => Safe.pure _ ⟨rfl, ?_⟩)
  cases r
  · exact Or.inl rfl
  · exact Or.inr rfl

theorem Safe.createLValue (n : Node) (q : Bytes) (r : Bool) (hn : D k n) :
    Safe (createLValue compoundOp n q r) LV1 := by
  unfold C16.createLValue
  split
  · exact Safe.bindT (Safe.errAt _ (by decide) _) (fun _ => Safe.pure _ LV1.dummy)
  · split
    · exact Safe.bindT (Safe.addName _) (fun _ => Safe.lvalueResult hc n r hn)
    · exact Safe.bindT (Safe.errAt _ (by decide) _) (fun _ => Safe.pure _ LV1.dummy)

theorem Safe.resolveLValue (n : Node) (f : LVFlag) (q : Bytes) (r : Bool) (hn : D k n) :
    Safe (resolveLValue compoundOp n f q r) LV1 := by
  unfold C16.resolveLValue
  refine Safe.bindT (by safe) (fun ref => ?_)
  split
  · split
    · exact Safe.bindT (Safe.errAt _ (by decide) _) (fun _ => Safe.pure _ LV1.dummy)
    · exact Safe.lvalueResult hc n r hn
  · split
    · exact Safe.bindT (Safe.autofix _) (fun _ =>
        Safe.bindT (Safe.errAt _ (by decide) _) (fun _ => Safe.pure _ LV1.dummy))
    · exact Safe.createLValue hc n q r hn

theorem Safe.compileIndexingLValue (n : Node) (f : LVFlag) (hn : D k n) (hkind : n.kind = .indexing) :
    Safe (compileIndexingLValue compoundOp n f) LV1 := by
  obtain ⟨hd, hhd, _⟩ := nodeOk_indexing (shape_nodeOk hn.1) hkind
  unfold C16.compileIndexingLValue
  refine Safe.bindT Safe.getEnv (fun env => ?_)
  refine Safe.bind (Safe.deref _ _ (by rw [hhd]; rfl)) (fun head _ => ?_)
  split
  · exact Safe.bindT (Safe.errAt _ (by decide) _) (fun _ => Safe.pure _ LV1.dummy)
  · split
    · exact Safe.bindT (Safe.errAt _ (by decide) _) (fun _ => Safe.pure _ LV1.dummy)
    · exact Safe.resolveLValue hc n f _ _ hn

theorem Safe.compileCompoundLValues (l : List Node) (f : LVFlag) (g : LVGroup)
    (h : ∀ x ∈ l, D k x ∧ x.kind = .compound) : Safe (compileCompoundLValues compoundOp l f g) T := by
  induction l generalizing g with
  | nil => unfold C16.compileCompoundLValues; exact Safe.pure _ trivial
  | cons a rest ih =>
    have hrest : ∀ x ∈ rest, D k x ∧ x.kind = .compound := fun x hx => h x (List.mem_cons_of_mem _ hx)
    unfold C16.compileCompoundLValues
    split
    · next ix hix =>
      have hixD := (h a List.mem_cons_self).1.of (K := .indexing) (singleIndexing_mem hix)
      refine Safe.bindT (Safe.compileIndexingLValue hc ix f hixD.1 hixD.2).toT (fun more => ?_)
      split
      · exact ih _ hrest
      · split
        · exact Safe.bindT (Safe.errAt _ (by decide) _) (fun _ => ih _ hrest)
        · exact ih _ hrest
    · exact Safe.bindT (Safe.errAt _ (by decide) _) (fun _ => Safe.pure _ trivial)

theorem Safe.compileOneLValue (n : Node) (f : LVFlag) (hn : D k n) (hne : Compound.indexings n ≠ []) :
    Safe (compileOneLValue compoundOp n f) T := by
  unfold C16.compileOneLValue
  dsimp only
  refine Safe.bindT (by safe) (fun _ => ?_)
  cases hix : Compound.indexings n with
  | nil => exact absurd hix hne
  | cons ix0 rest =>
    dsimp only
    have hixD := hn.of (K := .indexing) (x := ix0) (by
      show ix0 ∈ Compound.indexings n
      rw [hix]; exact List.mem_cons_self)
    refine Safe.bind (P := fun x => x = ix0) (Safe.pure ix0 rfl) (fun ix0' h0 => ?_)
    subst h0
    refine Safe.bind (Safe.compileIndexingLValue hc _ f hixD.1 hixD.2) (fun g hg => ?_)
    obtain ⟨lvs, rst⟩ := g
    obtain ⟨hlen, hrst⟩ := hg
    dsimp only at hlen hrst ⊢
    match lvs, hlen with
    | [ab], _ =>
      refine Safe.bindT ?_ (fun _ => ?_)
      · rcases hrst with h | h <;> subst h
        · exact Safe.pure _ trivial
        · exact Safe.err _ (by decide) _ _
      · exact Safe.bindT (Safe.pure _ trivial) (fun _ => Safe.pure _ trivial)

theorem Safe.compileLHSOptionalRHS (args : List Node) (f : LVFlag) (h : ∀ x ∈ args, D k x ∧ x.kind = .compound) :
    Safe (compileLHSOptionalRHS compoundOp args f) T := by
  unfold C16.compileLHSOptionalRHS
  split
  · next i _ =>
    refine Safe.bindT (Safe.compoundOps hc _ (fun x hx => h x (List.mem_of_mem_drop hx))) (fun _ => ?_)
    refine Safe.bindT (Safe.compileCompoundLValues hc _ f _ (fun x hx => h x (List.mem_of_mem_take hx)))
      (fun _ => Safe.pure _ trivial)
  · exact Safe.bindT (Safe.compileCompoundLValues hc _ f _ h) (fun _ => Safe.pure _ trivial)

theorem Safe.compileLHSRHS (args : List Node) (e : Nat) (f : LVFlag) (h : ∀ x ∈ args, D k x ∧ x.kind = .compound) :
    Safe (compileLHSRHS compoundOp args e f) T := by
  unfold C16.compileLHSRHS
  refine Safe.bindT (Safe.compileLHSOptionalRHS hc args f h) (fun found => ?_)
  safe

/-! ### special forms -/

theorem Safe.compileVar (fn : Node) (hfn : D k fn) : Safe (compileVar compoundOp fn) T := by
  unfold C16.compileVar
  exact Safe.bindT (Safe.compileLHSOptionalRHS hc _ _ (fun x hx => hfn.arg hx)) (fun _ => Safe.pure _ trivial)

theorem Safe.compileSet (fn : Node) (hfn : D k fn) : Safe (compileSet compoundOp fn) T := by
  unfold C16.compileSet
  exact Safe.compileLHSRHS hc _ _ _ (fun x hx => hfn.arg hx)

theorem Safe.compileTmp (fn : Node) (hfn : D k fn) : Safe (compileTmp compoundOp fn) T := by
  unfold C16.compileTmp
  refine Safe.bindT Safe.scopeDepth (fun d => ?_)
  refine Safe.bindT (by safe) (fun _ => ?_)
  exact Safe.compileLHSRHS hc _ _ _ (fun x hx => hfn.arg hx)

end Open
end C16
