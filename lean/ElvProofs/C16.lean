/-
C16 — Code with static errors never runs, and the static check agrees.

Theorems over the model of `Evaler.Eval` / `Evaler.Check` / `compile`
(`ElvModel/C16/Model.lean`).  They hold for EVERY parser, every execution
phase (`Runtime.exec` is an arbitrary function that may do anything to the
evaler it is given), every `unicode.IsPrint`, every fuel and every module
table, and for every evaler state and source text.
-/
import ElvProofs.C16.Lemmas
import ElvProofs.C16.Safe2
import ElvProofs.C16.ParserShape3
import ElvProofs.C16.Alias
import ElvProofs.C16.EvalCfg
open C16 Go

/-! ## Sentence 1: a parse or compilation error ⇒ nothing ran, nothing changed -/

/-- The first sentence of the property at full strength on the model: if
evaluation reports a parse or compilation error, the trace of observable
effects (value output, byte output, assignments, file writes, builtin calls —
whatever `exec` can do) is empty and the evaler — both namespaces, in
particular the global one, and the whole run-time state `rt` with every
variable's value — is exactly what it was. -/
def C16_full_no_effect : Prop :=
  ∀ {W Eff Exc : Type} (R : Runtime W Eff Exc) (ev : Evaler W) (src : Bytes),
    (eval R ev src).2.2.isStaticError = true →
      (eval R ev src).2.1 = [] ∧ (eval R ev src).1 = ev

theorem C16_static_error_no_effect : C16_full_no_effect := by
  intro W Eff Exc R ev src h
  exact C16.eval_static_error R ev src h

/-- The same for the crashes of the static phase (a Go panic of parser or
compiler, fuel exhaustion of the model): nothing ran either. -/
theorem C16_crash_no_effect {W Eff Exc : Type} (R : Runtime W Eff Exc) (ev : Evaler W) (src : Bytes)
    (w : String) (h : (eval R ev src).2.2 = .crashed w) :
    (eval R ev src).2.1 = [] ∧ (eval R ev src).1 = ev :=
  C16.eval_crashed R ev src w h

/-- Phase order, positively: code is executed only after the parser reported no
error and `compile` — run on the evaler's own builtin and global static
namespaces, with no module names — reported none; execution starts from the
evaler whose global namespace is the template `compile` returned, and what
`Eval` leaves behind is what that execution leaves behind. -/
theorem C16_runs_only_after_clean_compile {W Eff Exc : Type} (R : Runtime W Eff Exc) (ev : Evaler W)
    (src : Bytes) (exc : Option Exc) (h : (eval R ev src).2.2 = .ran exc) :
    ∃ tree c, R.parse src = .ok tree [] ∧
      compile { builtin := ev.builtin, isPrint := R.isPrint } (R.fuel src) ev.global [] tree = .ok c ∧
      c.errors = [] ∧
      eval R ev src =
        ((R.exec tree { ev with global := c.template }).1,
         (R.exec tree { ev with global := c.template }).2.1,
         .ran (R.exec tree { ev with global := c.template }).2.2) :=
  C16.eval_ran R ev src exc h

/-! ## Sentence 2: the static check reports an error exactly when evaluation would -/

/-- The second sentence at full strength on the model: whenever `Check`
returns (does not crash), it reports a parse or compilation error if and only
if `Eval` of the same source on the same evaler reports one. -/
def C16_full_check_agrees : Prop :=
  ∀ {W Eff Exc : Type} (R : Runtime W Eff Exc) (ev : Evaler W) (src : Bytes) (r : CheckResult),
    check R ev src = .ok r →
      ((CheckOut.ok r).reportsError = true ↔ (eval R ev src).2.2.isStaticError = true)

theorem C16_check_iff_eval : C16_full_check_agrees := by
  intro W Eff Exc R ev src r h
  exact C16.check_iff_eval R ev src r h

/-- More than the property asks: the errors are the same ones.  A parse error
of `Eval` is the list `Check` returns; without parse errors the compilation
errors of `Eval` are the list `Check` returns (although `Check` compiles with
the module names for its autofixes). -/
theorem C16_check_same_errors {W Eff Exc : Type} (R : Runtime W Eff Exc) (ev : Evaler W) (src : Bytes)
    (r : CheckResult) (h : check R ev src = .ok r) :
    (∀ pe, (eval R ev src).2.2 = .parseError pe → r.parseErrors = pe) ∧
    (∀ ce, (eval R ev src).2.2 = .compileError ce → r.parseErrors = [] ∧ r.compileErrors = ce) ∧
    (∀ exc, (eval R ev src).2.2 = .ran exc → r.parseErrors = [] ∧ r.compileErrors = []) :=
  C16.check_same_errors R ev src r h

/-- Without parse errors `Check` crashes exactly when `Eval` does (with parse
errors `Eval` stops before compiling and `Check` goes on with the partial tree,
so only `Check` can crash; the correspondence run reports every `PANIC`). -/
theorem C16_check_crash_iff_eval_crash {W Eff Exc : Type} (R : Runtime W Eff Exc) (ev : Evaler W)
    (src : Bytes) (tree : Node) (hp : R.parse src = .ok tree []) :
    (∃ w, check R ev src = .crashed w) ↔ (∃ w, (eval R ev src).2.2 = .crashed w) :=
  C16.check_crash_iff R ev src tree hp

/-- The errors, the template and the crash behaviour of `compile` do not depend
on the module names (they only select autofixes) — the reason `Check` and
`Eval` agree although they call `compile` differently. -/
theorem C16_compile_ignores_modules (env : Env) (fuel : Nat) (g : StaticNs) (m₁ m₂ : List Bytes) (tree : Node) :
    CompileAgree (compile env fuel g m₁ tree) (compile env fuel g m₂ tree) :=
  C16.compile_modules env fuel g m₁ m₂ tree

/-! ## Round 2: the compiler cannot crash on what the parser produces — `Check` always returns

`C16_check_iff_eval` above is stated for EVERY parser and every fuel, hence for runs of `Check` that
return.  For the front end the code actually has — the C01 model of `pkg/parse` with the same
`unicode.IsPrint`, and a compiler fuel of at least the parser's nesting fuel — the hypothesis is
discharged: the parser returns a tree for every byte string (C01), every tree it returns, ALSO the
partial tree it returns next to parse errors, has the shape the compiler dereferences without
checking (`C16.shape`: heads, right operands, keys, chunks of lambdas and captures, non-empty
arguments, no `BadPrimary`, `~` only first in a compound), and on such trees no compiler function of
the model panics or runs out of fuel. -/

/-- The front end of the real pipeline (and of the driver): `parse.Parse` as modelled by C01 with the
evaler's `unicode.IsPrint`; the compiler's nesting bound is at least the parser's. -/
def C16_StdFrontEnd {W Eff Exc : Type} (R : Runtime W Eff Exc) : Prop :=
  R.parse = C01.parse R.isPrint ∧ ∀ src, C01.defaultFuel src ≤ R.fuel src

/-- Every tree `Parse` returns — with or without parse errors, for every byte string — is a `Chunk` of
the shape the compiler relies on and nests at most as deep as the parser's fuel. -/
theorem C16_parser_output_has_shape (isPrint : Int → Bool) (src : Bytes) (t : C16.Node) (errs : List C01.PErr)
    (h : C01.parse isPrint src = .ok t errs) :
    C16.shape t = true ∧ t.kind = .chunk ∧ C16.nest t ≤ C01.defaultFuel src :=
  C16P.parse_shape isPrint src t errs h

/-- **Panic-freedom and fuel sufficiency of `compile`** on trees of that shape (any namespaces, any
`IsPrint`, any module list): it returns, and none of the errors it reports is of one of the three
kinds claimed dead. -/
theorem C16_compile_total_on_shaped (env : Env) (fuel : Nat) (g : StaticNs) (modules : List Bytes) (tree : C16.Node)
    (hs : C16.shape tree = true) (hk : tree.kind = .chunk) (hf : C16.nest tree ≤ fuel) :
    ∃ c, compile env fuel g modules tree = .ok c ∧
      ∀ x ∈ c.errors, x.kind ≠ .exactlyOneLvalue ∧ x.kind ≠ .tildeBug ∧ x.kind ≠ .badPrimary :=
  C16.compile_ok env fuel g modules tree hs hk hf

/-- … hence on everything the parser returns, partial trees included. -/
theorem C16_compile_total_on_parsed (isPrint : Int → Bool) (src : Bytes) (t : C16.Node) (errs : List C01.PErr)
    (h : C01.parse isPrint src = .ok t errs) (env : Env) (fuel : Nat) (hf : C01.defaultFuel src ≤ fuel)
    (g : StaticNs) (modules : List Bytes) :
    ∃ c, compile env fuel g modules t = .ok c ∧
      ∀ x ∈ c.errors, x.kind ≠ .exactlyOneLvalue ∧ x.kind ≠ .tildeBug ∧ x.kind ≠ .badPrimary := by
  obtain ⟨hs, hk, hn⟩ := C16P.parse_shape isPrint src t errs h
  exact C16.compile_ok env fuel g modules t hs hk (Nat.le_trans hn hf)

/-- **`Check` always returns** (no hypothesis left): for every evaler, every source. -/
theorem C16_check_returns {W Eff Exc : Type} (R : Runtime W Eff Exc) (hR : C16_StdFrontEnd R) (ev : Evaler W)
    (src : Bytes) : ∃ r, check R ev src = .ok r := by
  obtain ⟨t, errs, hp, _⟩ := C01_total_lossless R.isPrint src
  obtain ⟨c, hc, _⟩ := C16_compile_total_on_parsed R.isPrint src t errs hp
    { builtin := ev.builtin, isPrint := R.isPrint } (R.fuel src) (hR.2 src) ev.global (R.modules ev.rt)
  refine ⟨{ parseErrors := errs, autofixes := c.autofixes, compileErrors := c.errors }, ?_⟩
  unfold check
  rw [hR.1, hp]
  simp only [hc]

/-- The second sentence of the property with NO hypothesis about `Check`: the static check reports a
parse or compilation error if and only if evaluation of the same source would. -/
theorem C16_check_iff_eval_total {W Eff Exc : Type} (R : Runtime W Eff Exc) (hR : C16_StdFrontEnd R) (ev : Evaler W)
    (src : Bytes) : (check R ev src).reportsError = true ↔ (eval R ev src).2.2.isStaticError = true := by
  obtain ⟨r, hr⟩ := C16_check_returns R hR ev src
  rw [hr]
  exact C16_check_iff_eval R ev src r hr

/-- The static phase of `Eval` never crashes either: the outcome is a parse error, a compilation
error, or the code ran. -/
theorem C16_eval_static_phase_total {W Eff Exc : Type} (R : Runtime W Eff Exc) (hR : C16_StdFrontEnd R) (ev : Evaler W)
    (src : Bytes) (w : String) : (eval R ev src).2.2 ≠ .crashed w := by
  obtain ⟨t, errs, hp, _⟩ := C01_total_lossless R.isPrint src
  obtain ⟨c, hc, _⟩ := C16_compile_total_on_parsed R.isPrint src t errs hp
    { builtin := ev.builtin, isPrint := R.isPrint } (R.fuel src) (hR.2 src) ev.global []
  unfold eval
  rw [hR.1, hp]
  simp only [hc]
  split
  · simp
  · split <;> simp

/-- **Dead code**: `compileOneLValue`'s "must be exactly one lvalue", `primaryOp`'s "compiler bug:
Tilde not handled in .compound" and its "bad PrimaryType" cannot be reported for any source text —
neither by `Check` (which also compiles partial trees) nor by `Eval`. -/
theorem C16_dead_error_kinds {W Eff Exc : Type} (R : Runtime W Eff Exc) (hR : C16_StdFrontEnd R) (ev : Evaler W)
    (src : Bytes) :
    (∀ r, check R ev src = .ok r → ∀ x ∈ r.compileErrors,
        x.kind ≠ .exactlyOneLvalue ∧ x.kind ≠ .tildeBug ∧ x.kind ≠ .badPrimary) ∧
    (∀ ce, (eval R ev src).2.2 = .compileError ce → ∀ x ∈ ce,
        x.kind ≠ .exactlyOneLvalue ∧ x.kind ≠ .tildeBug ∧ x.kind ≠ .badPrimary) := by
  obtain ⟨t, errs, hp, _⟩ := C01_total_lossless R.isPrint src
  constructor
  · intro r hr
    obtain ⟨c, hc, hcl⟩ := C16_compile_total_on_parsed R.isPrint src t errs hp
      { builtin := ev.builtin, isPrint := R.isPrint } (R.fuel src) (hR.2 src) ev.global (R.modules ev.rt)
    unfold check at hr
    rw [hR.1, hp] at hr
    simp only [hc, CheckOut.ok.injEq] at hr
    subst hr
    exact hcl
  · intro ce hce
    obtain ⟨c, hc, hcl⟩ := C16_compile_total_on_parsed R.isPrint src t errs hp
      { builtin := ev.builtin, isPrint := R.isPrint } (R.fuel src) (hR.2 src) ev.global []
    unfold eval at hce
    rw [hR.1, hp] at hce
    simp only [hc] at hce
    split at hce
    · cases hce
    · split at hce
      · simp only [Outcome.compileError.injEq] at hce
        subst hce
        exact hcl
      · cases hce

/-! ## Round 2: explicit `cfg.Global`, `Frame.Eval`, and the source of file modules (`use`) -/

/-- Sentence 1 for `Eval` with an explicit `cfg.Global` and for `Frame.Eval(src, r, ns)` (the `eval`
builtin; `evalModule` for `use` of a file module): a parse or compilation error ⇒ no effect, and the
evaler — including its own global namespace, which this entry point never replaces — is unchanged. -/
theorem C16_explicit_global_static_error_no_effect {W Eff Exc : Type} (R : Runtime W Eff Exc)
    (execIn : C16.Node → StaticNs → Evaler W → Evaler W × List Eff × Option Exc)
    (ev : Evaler W) (g : StaticNs) (src : Bytes)
    (h : (evalIn R execIn ev g src).2.2.isStaticError = true) :
    (evalIn R execIn ev g src).2.1 = [] ∧ (evalIn R execIn ev g src).1 = ev :=
  C16.evalIn_static_error R execIn ev g src h

/-- … and the code runs only after a clean parse and a clean compile against the GIVEN namespace, with
the template handed to the execution phase as the frame's local namespace. -/
theorem C16_explicit_global_runs_only_after_clean_compile {W Eff Exc : Type} (R : Runtime W Eff Exc)
    (execIn : C16.Node → StaticNs → Evaler W → Evaler W × List Eff × Option Exc)
    (ev : Evaler W) (g : StaticNs) (src : Bytes) (exc : Option Exc)
    (h : (evalIn R execIn ev g src).2.2 = .ran exc) :
    ∃ tree c, R.parse src = .ok tree [] ∧
      compile { builtin := ev.builtin, isPrint := R.isPrint } (R.fuel src) g [] tree = .ok c ∧
      c.errors = [] ∧
      evalIn R execIn ev g src =
        ((execIn tree c.template ev).1, (execIn tree c.template ev).2.1, .ran (execIn tree c.template ev).2.2) :=
  C16.evalIn_ran R execIn ev g src exc h

/-- Sentence 2 for that entry point: the static check of an evaler whose global namespace is `g`
reports an error iff evaluation against `g` would (no hypothesis about `Check`). -/
theorem C16_explicit_global_check_iff {W Eff Exc : Type} (R : Runtime W Eff Exc) (hR : C16_StdFrontEnd R)
    (execIn : C16.Node → StaticNs → Evaler W → Evaler W × List Eff × Option Exc)
    (ev : Evaler W) (g : StaticNs) (src : Bytes) :
    (check R { ev with global := g } src).reportsError = true ↔
      (evalIn R execIn ev g src).2.2.isStaticError = true := by
  rw [C16.evalIn_static_eq_eval]
  exact C16_check_iff_eval_total R hR { ev with global := g } src

/-- The source of a FILE MODULE (`use` → `evalModule` → `fm.Eval(src, r, new(Ns))`): with a parse or
compilation error nothing of it runs and the evaler is unchanged (so `evalModule` fails and, by C22,
the module is not cached). -/
theorem C16_module_source_static_error_never_runs {W Eff Exc : Type} (R : Runtime W Eff Exc)
    (execIn : C16.Node → StaticNs → Evaler W → Evaler W × List Eff × Option Exc)
    (ev : Evaler W) (src : Bytes)
    (h : (evalModuleSource R execIn ev src).2.2.isStaticError = true) :
    (evalModuleSource R execIn ev src).2.1 = [] ∧ (evalModuleSource R execIn ev src).1 = ev :=
  C16.evalIn_static_error R execIn ev [] src h

/-! ## Round 2: `compile` works on a COPY of the global static namespace

In `Model.lean` the compiler's namespaces are values; that is faithful because `compile` starts with
`g = g.clone()` and `(*staticNs).clone` copies the array.  `ElvModel/C16/Alias.lean` models the
operations the compiler performs on a scope (`add` = shadow + append, `del`, `infos[i].deleted = true`
— in the model these are exactly `addName` and the `markDeleted` of `compileDel`, the only callers of
`setThisScope`) over a heap of backing arrays and slice headers. -/

/-- After the clone of the code (a copy), NO sequence of scope operations — in particular none of a
compilation that later fails, and none of a mere `Check` — changes what the live global namespace
reads: names, `readOnly` and `deleted` flags. -/
theorem C16_compile_does_not_touch_global (h : Alias.Heap) (live : Alias.Ref) (ops : List Alias.NsOp)
    (hlt : live.arr < h.length) :
    Alias.liveAfter Alias.cloneCopy h live ops = Alias.read h live :=
  Alias.liveAfter_cloneCopy h live ops hlt

/-- The seeded change `C16-staticns-clone-shares-array` (`clone` = `slices.Clip`, a view of the same
array): one `del g` on the clone sets the `deleted` flag of the LIVE namespace's `g` — whether or not
the compilation goes on to fail, and for a mere `Check`. -/
theorem C16_clipped_clone_touches_global :
    ∃ (h : Alias.Heap) (live : Alias.Ref) (ops : List Alias.NsOp), live.arr < h.length ∧
      Alias.read h live = some [{ name := [103] }] ∧
      Alias.liveAfter Alias.cloneClip h live ops = some [{ name := [103], deleted := true }] :=
  ⟨[[{ name := [103] }]], { arr := 0, len := 1, cap := 1 }, [.del [103]], by decide, by decide, by decide⟩

/-! ## The compiler never retracts an error -/

/-- Errors are only ever appended: whatever any compiler function does to the
state, the errors reported before are a prefix of the errors afterwards.  So a
static error anywhere in the source makes the whole compilation fail, no matter
what precedes or follows it. -/
theorem C16_errors_only_grow (fuel : Nat) (nt : NT) (n : Node) (env : Env) (s s' : CSt)
    (h : compileNT fuel nt n env s = .ok () s') : s.errors <+: s'.errors :=
  C16.compileNT_mono fuel nt n env s s' h

/-! ## Non-vacuity: concrete programs through the C01 parser model -/

namespace C16Ex
/-- an execution phase that always has an effect, so "no effect" is not vacuous -/
def R0 : Runtime Unit Nat Unit :=
  { parse := C01.parse (fun _ => false), isPrint := fun _ => false, fuel := C01.defaultFuel,
    modules := fun _ => [], exec := fun _ ev => ({ ev with rt := () }, [1], none) }
/-- no builtins, one global `g` -/
def ev0 : Evaler Unit := { builtin := [], global := [{ name := [103] }], rt := () }
/-- `a $g` -/ def srcOk : Bytes := [97, 32, 36, 103]
/-- `a;$x` (a command, then an undefined variable) -/ def srcBad : Bytes := [97, 59, 36, 120]
/-- `a;'` (a command, then an unterminated string) -/ def srcParse : Bytes := [97, 59, 39]
/-- `var x` -/ def srcVar : Bytes := [118, 97, 114, 32, 120]
end C16Ex
open C16Ex

set_option maxRecDepth 100000 in
/-- a valid program runs (and the execution has its effect) … -/
example : (eval R0 ev0 srcOk).2.1 = [1] := by decide
set_option maxRecDepth 100000 in
/-- … `a;$x` has a compilation error (hypothesis of `C16_static_error_no_effect`) … -/
example : (eval R0 ev0 srcBad).2.2.isStaticError = true := by decide
set_option maxRecDepth 100000 in
/-- … `a;'` a parse error … -/
example : (eval R0 ev0 srcParse).2.2.isStaticError = true := by decide
set_option maxRecDepth 100000 in
/-- … `Check` returns on both and reports (hypothesis of `C16_check_iff_eval`) … -/
example : (∃ r, check R0 ev0 srcBad = .ok r) ∧ (check R0 ev0 srcBad).reportsError = true ∧
    (check R0 ev0 srcParse).reportsError = true ∧ (check R0 ev0 srcOk).reportsError = false := by
  refine ⟨?_, by decide, by decide, by decide⟩
  cases h : check R0 ev0 srcBad with
  | ok r => exact ⟨r, rfl⟩
  | crashed w =>
    have : (check R0 ev0 srcBad).reportsError = true := by decide
    rw [h] at this; cases this
set_option maxRecDepth 100000 in
/-- … and a successful `var x` installs the new global namespace (`g`, `x`). -/
example : (eval R0 ev0 srcVar).1.global.names = [[103], [120]] := by decide

/-! ### Non-vacuity of the round-2 theorems -/

/-- the driver's front end is a standard one -/
example : C16_StdFrontEnd R0 := ⟨rfl, fun _ => Nat.le_refl _⟩

set_option maxRecDepth 100000 in
/-- `a;'` is returned WITH a parse error, and its partial tree has the shape (hypothesis of
`C16_compile_total_on_shaped` through `C16_parser_output_has_shape`) -/
example : ∃ t e1 es, C01.parse (fun _ => false) srcParse = .ok t (e1 :: es) ∧ C16.shape t = true := by
  obtain ⟨t, errs, h, _⟩ := C01_total_lossless (fun _ => false) srcParse
  cases errs with
  | nil =>
    have : (match C01.parse (fun _ => false) srcParse with | .ok _ [] => true | _ => false) = false := by decide
    rw [h] at this; cases this
  | cons e1 es => exact ⟨t, e1, es, h, (C16_parser_output_has_shape _ _ _ _ h).1⟩

namespace C16Ex
/-- hand-made trees the parser cannot produce: `a` followed by a SECOND `~` indexing, and a primary of type 0 -/
def pA : C16.Node := .mk .primary 0 1 [97] { ptype := 1, value := [97] } []
def pT : C16.Node := .mk .primary 1 2 [126] { ptype := 6, value := [126] } []
def pBad : C16.Node := .mk .primary 1 2 [126] { ptype := 0 } []
def treeWith (p : C16.Node) : C16.Node :=
  .mk .chunk 0 2 [97, 126] {} [.mk .pipeline 0 2 [97, 126] {} [.mk .form 0 2 [97, 126] {}
    [.mk .compound 0 2 [97, 126] {} [.mk .indexing 0 1 [97] {} [pA], .mk .indexing 1 2 [126] {} [p]]]]]
def kindsOf : COut → List EK
  | .ok c => c.errors.map (·.kind)
  | _ => []
end C16Ex

/-- the two shape-dependent dead kinds ARE reported by the model on trees outside the parser's range,
and `shape` rejects exactly those trees: the dead-code theorem is not vacuous -/
example : kindsOf (compile { builtin := [], isPrint := fun _ => false } 10 [] [] (treeWith pT)) = [.tildeBug] ∧
    C16.shape (treeWith pT) = false ∧
    kindsOf (compile { builtin := [], isPrint := fun _ => false } 10 [] [] (treeWith pBad)) = [.badPrimary] ∧
    C16.shape (treeWith pBad) = false ∧ C16.shape (treeWith pA) = true := by decide

namespace C16Ex
/-- an execution phase for `evalIn` that always has an effect -/
def execIn0 : C16.Node → StaticNs → Evaler Unit → Evaler Unit × List Nat × Option Unit :=
  fun _ _ ev => (ev, [1], none)
end C16Ex

set_option maxRecDepth 100000 in
/-- `a;$x` against an explicit EMPTY namespace (a file module's source) is a static error; `a $g`
against the explicit namespace `{g}` runs, and `ev0.global` is not replaced -/
example : (evalModuleSource R0 execIn0 ev0 srcBad).2.2.isStaticError = true ∧
    (evalIn R0 execIn0 { ev0 with global := [] } [{ name := [103] }] srcOk).2.1 = [1] ∧
    (evalIn R0 execIn0 { ev0 with global := [] } [{ name := [103] }] srcOk).1.global = [] := by decide

/-- the copy: the same `del g`, and `g` re-declared afterwards, leave the live namespace alone -/
example : Alias.liveAfter Alias.cloneCopy [[{ name := [103] }]] { arr := 0, len := 1, cap := 1 }
    [.del [103], .add [103], .mark 0] = some [{ name := [103] }] := by decide
