/-
C16 — Code with static errors never runs, and the static check agrees.

Theorems over the model of `Evaler.Eval` / `Evaler.Check` / `compile`
(`ElvModel/C16/Model.lean`).  They hold for EVERY parser, every execution
phase (`Runtime.exec` is an arbitrary function that may do anything to the
evaler it is given), every `unicode.IsPrint`, every fuel and every module
table, and for every evaler state and source text.
-/
import ElvProofs.C16.Lemmas
open C16 Go

/-! ## Sentence 1: a parse or compilation error ⇒ nothing ran, nothing changed -/

/-- The first sentence of the property at full strength on the model: if
evaluation reports a parse or compilation error, the trace of observable
effects (value output, byte output, assignments, file writes, builtin calls —
whatever `exec` can do) is empty and the evaler — both namespaces, in
particular the global one, and the whole run-time state `rt` with every
variable's value — is exactly what it was. -/
def C16_full_no_effect : Prop :=
  ∀ {W Eff Exc : Type} (R : Runtime W Eff Exc) (ev : Evaler W) (src : Bytes),
    (eval R ev src).2.2.isStaticError = true →
      (eval R ev src).2.1 = [] ∧ (eval R ev src).1 = ev

theorem C16_static_error_no_effect : C16_full_no_effect := by
  intro W Eff Exc R ev src h
  exact C16.eval_static_error R ev src h

/-- The same for the crashes of the static phase (a Go panic of parser or
compiler, fuel exhaustion of the model): nothing ran either. -/
theorem C16_crash_no_effect {W Eff Exc : Type} (R : Runtime W Eff Exc) (ev : Evaler W) (src : Bytes)
    (w : String) (h : (eval R ev src).2.2 = .crashed w) :
    (eval R ev src).2.1 = [] ∧ (eval R ev src).1 = ev :=
  C16.eval_crashed R ev src w h

/-- Phase order, positively: code is executed only after the parser reported no
error and `compile` — run on the evaler's own builtin and global static
namespaces, with no module names — reported none; execution starts from the
evaler whose global namespace is the template `compile` returned, and what
`Eval` leaves behind is what that execution leaves behind. -/
theorem C16_runs_only_after_clean_compile {W Eff Exc : Type} (R : Runtime W Eff Exc) (ev : Evaler W)
    (src : Bytes) (exc : Option Exc) (h : (eval R ev src).2.2 = .ran exc) :
    ∃ tree c, R.parse src = .ok tree [] ∧
      compile { builtin := ev.builtin, isPrint := R.isPrint } (R.fuel src) ev.global [] tree = .ok c ∧
      c.errors = [] ∧
      eval R ev src =
        ((R.exec tree { ev with global := c.template }).1,
         (R.exec tree { ev with global := c.template }).2.1,
         .ran (R.exec tree { ev with global := c.template }).2.2) :=
  C16.eval_ran R ev src exc h

/-! ## Sentence 2: the static check reports an error exactly when evaluation would -/

/-- The second sentence at full strength on the model: whenever `Check`
returns (does not crash), it reports a parse or compilation error if and only
if `Eval` of the same source on the same evaler reports one. -/
def C16_full_check_agrees : Prop :=
  ∀ {W Eff Exc : Type} (R : Runtime W Eff Exc) (ev : Evaler W) (src : Bytes) (r : CheckResult),
    check R ev src = .ok r →
      ((CheckOut.ok r).reportsError = true ↔ (eval R ev src).2.2.isStaticError = true)

theorem C16_check_iff_eval : C16_full_check_agrees := by
  intro W Eff Exc R ev src r h
  exact C16.check_iff_eval R ev src r h

/-- More than the property asks: the errors are the same ones.  A parse error
of `Eval` is the list `Check` returns; without parse errors the compilation
errors of `Eval` are the list `Check` returns (although `Check` compiles with
the module names for its autofixes). -/
theorem C16_check_same_errors {W Eff Exc : Type} (R : Runtime W Eff Exc) (ev : Evaler W) (src : Bytes)
    (r : CheckResult) (h : check R ev src = .ok r) :
    (∀ pe, (eval R ev src).2.2 = .parseError pe → r.parseErrors = pe) ∧
    (∀ ce, (eval R ev src).2.2 = .compileError ce → r.parseErrors = [] ∧ r.compileErrors = ce) ∧
    (∀ exc, (eval R ev src).2.2 = .ran exc → r.parseErrors = [] ∧ r.compileErrors = []) :=
  C16.check_same_errors R ev src r h

/-- Without parse errors `Check` crashes exactly when `Eval` does (with parse
errors `Eval` stops before compiling and `Check` goes on with the partial tree,
so only `Check` can crash; the correspondence run reports every `PANIC`). -/
theorem C16_check_crash_iff_eval_crash {W Eff Exc : Type} (R : Runtime W Eff Exc) (ev : Evaler W)
    (src : Bytes) (tree : Node) (hp : R.parse src = .ok tree []) :
    (∃ w, check R ev src = .crashed w) ↔ (∃ w, (eval R ev src).2.2 = .crashed w) :=
  C16.check_crash_iff R ev src tree hp

/-- The errors, the template and the crash behaviour of `compile` do not depend
on the module names (they only select autofixes) — the reason `Check` and
`Eval` agree although they call `compile` differently. -/
theorem C16_compile_ignores_modules (env : Env) (fuel : Nat) (g : StaticNs) (m₁ m₂ : List Bytes) (tree : Node) :
    CompileAgree (compile env fuel g m₁ tree) (compile env fuel g m₂ tree) :=
  C16.compile_modules env fuel g m₁ m₂ tree

/-! ## The compiler never retracts an error -/

/-- Errors are only ever appended: whatever any compiler function does to the
state, the errors reported before are a prefix of the errors afterwards.  So a
static error anywhere in the source makes the whole compilation fail, no matter
what precedes or follows it. -/
theorem C16_errors_only_grow (fuel : Nat) (nt : NT) (n : Node) (env : Env) (s s' : CSt)
    (h : compileNT fuel nt n env s = .ok () s') : s.errors <+: s'.errors :=
  C16.compileNT_mono fuel nt n env s s' h

/-! ## Non-vacuity: concrete programs through the C01 parser model -/

namespace C16Ex
/-- an execution phase that always has an effect, so "no effect" is not vacuous -/
def R0 : Runtime Unit Nat Unit :=
  { parse := C01.parse (fun _ => false), isPrint := fun _ => false, fuel := C01.defaultFuel,
    modules := fun _ => [], exec := fun _ ev => ({ ev with rt := () }, [1], none) }
/-- no builtins, one global `g` -/
def ev0 : Evaler Unit := { builtin := [], global := [{ name := [103] }], rt := () }
/-- `a $g` -/ def srcOk : Bytes := [97, 32, 36, 103]
/-- `a;$x` (a command, then an undefined variable) -/ def srcBad : Bytes := [97, 59, 36, 120]
/-- `a;'` (a command, then an unterminated string) -/ def srcParse : Bytes := [97, 59, 39]
/-- `var x` -/ def srcVar : Bytes := [118, 97, 114, 32, 120]
end C16Ex
open C16Ex

set_option maxRecDepth 100000 in
/-- a valid program runs (and the execution has its effect) … -/
example : (eval R0 ev0 srcOk).2.1 = [1] := by decide
set_option maxRecDepth 100000 in
/-- … `a;$x` has a compilation error (hypothesis of `C16_static_error_no_effect`) … -/
example : (eval R0 ev0 srcBad).2.2.isStaticError = true := by decide
set_option maxRecDepth 100000 in
/-- … `a;'` a parse error … -/
example : (eval R0 ev0 srcParse).2.2.isStaticError = true := by decide
set_option maxRecDepth 100000 in
/-- … `Check` returns on both and reports (hypothesis of `C16_check_iff_eval`) … -/
example : (∃ r, check R0 ev0 srcBad = .ok r) ∧ (check R0 ev0 srcBad).reportsError = true ∧
    (check R0 ev0 srcParse).reportsError = true ∧ (check R0 ev0 srcOk).reportsError = false := by
  refine ⟨?_, by decide, by decide, by decide⟩
  cases h : check R0 ev0 srcBad with
  | ok r => exact ⟨r, rfl⟩
  | crashed w =>
    have : (check R0 ev0 srcBad).reportsError = true := by decide
    rw [h] at this; cases this
set_option maxRecDepth 100000 in
/-- … and a successful `var x` installs the new global namespace (`g`, `x`). -/
example : (eval R0 ev0 srcVar).1.global.names = [[103], [120]] := by decide
