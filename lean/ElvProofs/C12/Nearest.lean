/-
C12 helper lemmas, round 2: the transparent rounding `B64.rneMag` returns a
NEAREST double among all magnitude patterns (every binade, unbounded exponent),
the even pattern at a tie; patterns are ordered like their values; rounding is
monotone; overflow happens exactly from the midpoint between the largest finite
double and `2^1024` on.  Everything here is cross-multiplied natural-number
arithmetic in units of `2^-1074` (`Z = 2^1074`); the `Rat` wrappers are in
`NearestRat.lean`.
-/
import ElvProofs.C12.Round
namespace C12.B64

/-- `|a − b|` on naturals. -/
def adiff (a b : Nat) : Nat := (a - b) + (b - a)

theorem adiff_hi (A a b : Nat) (hab : b < a) (h : adiff A a ≤ adiff A b) : a + b ≤ 2 * A := by
  unfold adiff at h; omega

theorem adiff_lo (A a b : Nat) (hab : b < a) (h : adiff A b ≤ adiff A a) : 2 * A ≤ a + b := by
  unfold adiff at h; omega

theorem adiff_tie (A a b : Nat) (h : 2 * A = a + b) : adiff A a = adiff A b := by
  unfold adiff; omega

/-- Exponent-field offset of the result: the unit in the last place is `2^t`
units of `2^-1074`. -/
def expT (n d : Nat) : Nat := (ulpExp n d + 1074).toNat

/-- The pattern before clamping to the infinity pattern (unbounded exponent). -/
def rneMagU (n d : Nat) : Nat := expT n d * 2 ^ 52 + significand n d

theorem rneMag_eq_min (n d : Nat) : rneMag n d = min (rneMagU n d) infMag := rneMag_eq n d

theorem scale3 (x y w K X Y W : Nat) (hK : 0 < K) (hX : X = x * K) (hY : Y = y * K) (hW : W = w * K)
    (P : Prop)
    (h : (2 * x ≤ 2 * y + w ∧ 2 * y ≤ 2 * x + w) ∧ ((2 * x = 2 * y + w ∨ 2 * y = 2 * x + w) → P)) :
    (2 * X ≤ 2 * Y + W ∧ 2 * Y ≤ 2 * X + W) ∧ ((2 * X = 2 * Y + W ∨ 2 * Y = 2 * X + W) → P) := by
  subst hX hY hW
  have e1 : 2 * (x * K) = (2 * x) * K := by rw [Nat.mul_assoc]
  have e2 : 2 * (y * K) = (2 * y) * K := by rw [Nat.mul_assoc]
  rw [e1, e2, ← Nat.add_mul, ← Nat.add_mul]
  refine ⟨⟨Nat.mul_le_mul_right _ h.1.1, Nat.mul_le_mul_right _ h.1.2⟩, ?_⟩
  rintro (hh | hh)
  · exact h.2 (.inl (Nat.eq_of_mul_eq_mul_right hK hh))
  · exact h.2 (.inr (Nat.eq_of_mul_eq_mul_right hK hh))

/-- The significand is a nearest integer to `(n/d)·2^1074 / 2^t`, even at a
tie — in units of `2^-1074`, cross-multiplied by `d`. -/
theorem sig_nearest (n d : Nat) (hd : 0 < d) :
    (2 * (significand n d * (2 ^ expT n d * d)) ≤ 2 * (n * 2 ^ 1074) + 2 ^ expT n d * d ∧
      2 * (n * 2 ^ 1074) ≤ 2 * (significand n d * (2 ^ expT n d * d)) + 2 ^ expT n d * d) ∧
    ((2 * (significand n d * (2 ^ expT n d * d)) = 2 * (n * 2 ^ 1074) + 2 ^ expT n d * d ∨
      2 * (n * 2 ^ 1074) = 2 * (significand n d * (2 ^ expT n d * d)) + 2 ^ expT n d * d) →
      significand n d % 2 = 0) := by
  have hEge : -1074 ≤ ulpExp n d := by
    have : ulpExp n d = max (ilog2 n d - 52) (-1074) := rfl
    omega
  have hr := roundHalfEven_nearest (scaled n d).1 (scaled n d).2 (scaled_den_pos n d hd)
  simp only [] at hr
  change (2 * (significand n d * (scaled n d).2) ≤ _ ∧ _ ≤ 2 * (significand n d * (scaled n d).2) + _) ∧
    ((2 * (significand n d * (scaled n d).2) = _ ∨ _ = 2 * (significand n d * (scaled n d).2) + _) →
      significand n d % 2 = 0) at hr
  unfold expT
  generalize significand n d = M at *
  unfold scaled at hr
  simp only [] at hr
  generalize hE : ulpExp n d = E at *
  by_cases c : (0 : Int) ≤ E
  · simp only [c, if_true] at hr
    have ht : (E + 1074).toNat = E.toNat + 1074 := by omega
    rw [ht, Nat.pow_add]
    have hZ := two_pow_pos 1074
    generalize (2:Nat) ^ 1074 = Z at *
    generalize (2:Nat) ^ E.toNat = P at *
    refine scale3 (M * (d * P)) n (d * P) Z _ _ _ hZ ?_ rfl ?_ _ hr
    · simp only [Nat.mul_comm, Nat.mul_left_comm]
    · simp only [Nat.mul_comm, Nat.mul_left_comm]
  · simp only [c, if_false] at hr
    have ht : 1074 = (-E).toNat + (E + 1074).toNat := by omega
    have hZ : (2:Nat) ^ 1074 = 2 ^ (-E).toNat * 2 ^ (E + 1074).toNat := by
      rw [← Nat.pow_add, ← ht]
    rw [hZ]
    have hT := two_pow_pos (E + 1074).toNat
    generalize (2:Nat) ^ (E + 1074).toNat = T at *
    generalize (2:Nat) ^ (-E).toNat = P at *
    refine scale3 (M * d) (n * P) d T _ _ _ hT ?_ ?_ ?_ _ hr
    · simp only [Nat.mul_comm, Nat.mul_left_comm]
    · simp only [Nat.mul_assoc]
    · exact Nat.mul_comm _ _

/-! ### The value of a pattern as a function of the pattern -/

theorem magUnits_lt (m : Nat) : magUnits m < 2 ^ 52 * 2 ^ (m / 2 ^ 52) := by
  have hm := Nat.mod_lt m (two_pow_pos 52)
  unfold magUnits
  simp only []
  generalize m / 2 ^ 52 = e
  generalize m % 2 ^ 52 = f at *
  by_cases c : e = 0
  · subst c; simp only [if_true, Nat.pow_zero, Nat.mul_one]; exact hm
  · simp only [c, if_false]
    obtain ⟨e', rfl⟩ : ∃ e', e = e' + 1 := ⟨e - 1, by omega⟩
    have hp := two_pow_pos e'
    have hp2 : (2:Nat) ^ (e' + 1) = 2 ^ e' * 2 := Nat.pow_succ 2 e'
    rw [Nat.add_sub_cancel, hp2]
    generalize (2:Nat) ^ 52 = Q at *
    generalize (2:Nat) ^ e' = R at *
    have h1 : (Q + f) * R < (Q + Q) * R := Nat.mul_lt_mul_of_pos_right (by omega) hp
    have e2 : Q * (R * 2) = (Q + Q) * R := by
      rw [Nat.mul_comm R 2, ← Nat.mul_assoc, Nat.mul_two]
    omega

theorem magUnits_ge (m : Nat) (h : 1 ≤ m / 2 ^ 52) : 2 ^ 52 * 2 ^ (m / 2 ^ 52 - 1) ≤ magUnits m := by
  unfold magUnits
  simp only []
  have c : ¬ (m / 2 ^ 52 = 0) := by omega
  simp only [c, if_false]
  exact Nat.mul_le_mul_right _ (Nat.le_add_right _ _)

/-- Patterns are ordered like the values they denote (for every exponent,
including the pattern of infinity read as `2^1024`). -/
theorem magUnits_strictMono (m1 m2 : Nat) (h : m1 < m2) : magUnits m1 < magUnits m2 := by
  have p52 : (2:Nat) ^ 52 = 4503599627370496 := by decide
  have hd1 := Nat.div_add_mod m1 (2 ^ 52)
  have hd2 := Nat.div_add_mod m2 (2 ^ 52)
  have hm1 := Nat.mod_lt m1 (two_pow_pos 52)
  have hm2 := Nat.mod_lt m2 (two_pow_pos 52)
  have hle : m1 / 2 ^ 52 ≤ m2 / 2 ^ 52 := Nat.div_le_div_right (Nat.le_of_lt h)
  by_cases c : m1 / 2 ^ 52 = m2 / 2 ^ 52
  · have hf : m1 % 2 ^ 52 < m2 % 2 ^ 52 := by
      rw [c] at hd1; rw [p52] at *; omega
    unfold magUnits
    simp only []
    rw [c]
    split
    · exact hf
    · exact Nat.mul_lt_mul_of_pos_right (by omega) (two_pow_pos _)
  · have hlt : m1 / 2 ^ 52 < m2 / 2 ^ 52 := by omega
    have h1 := magUnits_lt m1
    have h2 := magUnits_ge m2 (by omega)
    have h3 : 2 ^ (m1 / 2 ^ 52) ≤ 2 ^ (m2 / 2 ^ 52 - 1) := Nat.pow_le_pow_right (by decide) (by omega)
    have h4 := Nat.mul_le_mul_left (2 ^ 52) h3
    omega

theorem magUnits_mono (m1 m2 : Nat) (h : m1 ≤ m2) : magUnits m1 ≤ magUnits m2 := by
  rcases Nat.lt_or_eq_of_le h with h | h
  · exact Nat.le_of_lt (magUnits_strictMono _ _ h)
  · rw [h]; exact Nat.le_refl _

theorem magUnits_inj (m1 m2 : Nat) (h : magUnits m1 = magUnits m2) : m1 = m2 := by
  rcases Nat.lt_trichotomy m1 m2 with c | c | c
  · have := magUnits_strictMono _ _ c; omega
  · exact c
  · have := magUnits_strictMono _ _ c; omega

/-- Every double is either below the binade that starts at `2^52·2^t` units,
or on the grid of multiples of `2^t` units. -/
theorem magUnits_grid (m t : Nat) : magUnits m < 2 ^ 52 * 2 ^ t ∨ ∃ j, magUnits m = j * 2 ^ t := by
  by_cases c : m / 2 ^ 52 ≤ t
  · left
    exact Nat.lt_of_lt_of_le (magUnits_lt m) (Nat.mul_le_mul_left _ (Nat.pow_le_pow_right (by decide) c))
  · right
    unfold magUnits
    simp only []
    have c0 : ¬ (m / 2 ^ 52 = 0) := by omega
    simp only [c0, if_false]
    have : m / 2 ^ 52 - 1 = (m / 2 ^ 52 - 1 - t) + t := by omega
    rw [this, Nat.pow_add, ← Nat.mul_assoc]
    exact ⟨_, rfl⟩

/-! ### Nearest among all patterns -/

theorem magUnits_rneMagU (n d : Nat) (hn : 0 < n) (hd : 0 < d) :
    magUnits (rneMagU n d) = significand n d * 2 ^ expT n d := by
  obtain ⟨b1, b2⟩ := significand_bounds n d hn hd
  apply magUnits_encode
  by_cases c : ulpExp n d = ilog2 n d - 52
  · exact .inr (b1 c)
  · obtain ⟨h1, h2⟩ := b2 c
    exact .inl ⟨by unfold expT; rw [h1]; decide, h2⟩

/-- Above the subnormal spacing the argument is not below the start of its
binade: `2^52·2^t ≤ (n/d)·2^1074`. -/
theorem binade_floor (n d : Nat) (hn : 0 < n) (hd : 0 < d) (ht : 0 < expT n d) :
    2 ^ 52 * (2 ^ expT n d * d) ≤ n * 2 ^ 1074 := by
  obtain ⟨s1, _⟩ := ilog2_spec n d hn hd
  have hmax : ulpExp n d = max (ilog2 n d - 52) (-1074) := rfl
  unfold expT at *
  generalize ilog2 n d = k at *
  have hk : -1022 < k := by omega
  rw [pow2Le_iff k n d 1074 (by omega)] at s1
  have e1 : (((1074 : Nat) : Int) + k).toNat = 52 + (ulpExp n d + 1074).toNat := by omega
  rw [e1, Nat.pow_add] at s1
  have e2 : 2 ^ 52 * (2 ^ (ulpExp n d + 1074).toNat * d) = d * (2 ^ 52 * 2 ^ (ulpExp n d + 1074).toNat) := by
    simp only [Nat.mul_comm, Nat.mul_left_comm]
  rw [e2]; exact s1

theorem significand_ge (n d : Nat) (hn : 0 < n) (hd : 0 < d) (ht : 0 < expT n d) :
    2 ^ 52 ≤ significand n d := by
  obtain ⟨b1, _⟩ := significand_bounds n d hn hd
  have hmax : ulpExp n d = max (ilog2 n d - 52) (-1074) := rfl
  unfold expT at ht
  exact (b1 (by omega)).1

/-- Distance to the chosen multiple of `c` is minimal among multiples of `c`,
with equality only at a tie. -/
theorem nearest_multiple (A c M j : Nat) (hc : 0 < c)
    (h1 : 2 * (M * c) ≤ 2 * A + c) (h2 : 2 * A ≤ 2 * (M * c) + c) :
    adiff A (M * c) ≤ adiff A (j * c) ∧
    (adiff A (M * c) = adiff A (j * c) → j ≠ M → (2 * (M * c) = 2 * A + c ∨ 2 * A = 2 * (M * c) + c)) := by
  unfold adiff
  rcases Nat.lt_trichotomy j M with c1 | c1 | c1
  · have : (j + 1) * c ≤ M * c := Nat.mul_le_mul_right _ c1
    rw [Nat.add_mul, Nat.one_mul] at this
    constructor <;> omega
  · subst c1; constructor <;> omega
  · have : (M + 1) * c ≤ j * c := Nat.mul_le_mul_right _ c1
    rw [Nat.add_mul, Nat.one_mul] at this
    constructor <;> omega

/-- **Nearest.**  With `A = n·2^1074` (so `n/d` is `A/d` units), the value
`u = magUnits (rneMagU n d)` of the unclamped result satisfies
`|A − u·d| ≤ |A − magUnits m · d|` for EVERY pattern `m`, and equality with a
different pattern happens only when the result pattern is even. -/
theorem rneMagU_nearest (n d : Nat) (hn : 0 < n) (hd : 0 < d) (m : Nat) :
    adiff (n * 2 ^ 1074) (magUnits (rneMagU n d) * d) ≤ adiff (n * 2 ^ 1074) (magUnits m * d) ∧
    (adiff (n * 2 ^ 1074) (magUnits (rneMagU n d) * d) = adiff (n * 2 ^ 1074) (magUnits m * d) →
      m ≠ rneMagU n d → rneMagU n d % 2 = 0) := by
  obtain ⟨⟨h1, h2⟩, htie⟩ := sig_nearest n d hd
  have hpar : significand n d % 2 = 0 → rneMagU n d % 2 = 0 := by
    intro h; unfold rneMagU
    have p52 : (2:Nat) ^ 52 = 4503599627370496 := by decide
    rw [p52]; omega
  have hu := magUnits_rneMagU n d hn hd
  have hcpos : 0 < 2 ^ expT n d * d := Nat.mul_pos (two_pow_pos _) hd
  have key : ∀ j, adiff (n * 2 ^ 1074) (magUnits (rneMagU n d) * d) ≤ adiff (n * 2 ^ 1074) (j * (2 ^ expT n d * d)) ∧
      (adiff (n * 2 ^ 1074) (magUnits (rneMagU n d) * d) = adiff (n * 2 ^ 1074) (j * (2 ^ expT n d * d)) →
        j ≠ significand n d → rneMagU n d % 2 = 0) := by
    intro j
    rw [hu, Nat.mul_assoc]
    obtain ⟨k1, k2⟩ := nearest_multiple (n * 2 ^ 1074) (2 ^ expT n d * d) (significand n d) j hcpos h1 h2
    exact ⟨k1, fun e ne => hpar (htie (k2 e ne))⟩
  have grid : ∀ j, magUnits m = j * 2 ^ expT n d →
      adiff (n * 2 ^ 1074) (magUnits (rneMagU n d) * d) ≤ adiff (n * 2 ^ 1074) (magUnits m * d) ∧
      (adiff (n * 2 ^ 1074) (magUnits (rneMagU n d) * d) = adiff (n * 2 ^ 1074) (magUnits m * d) →
        m ≠ rneMagU n d → rneMagU n d % 2 = 0) := by
    intro j hj
    rw [hj, Nat.mul_assoc]
    obtain ⟨k1, k2⟩ := key j
    refine ⟨k1, fun e ne => k2 e ?_⟩
    intro hjs
    apply ne
    apply magUnits_inj
    rw [hj, hu, hjs]
  by_cases h0 : expT n d = 0
  · exact grid (magUnits m) (by rw [h0]; simp)
  · rcases magUnits_grid m (expT n d) with hlow | ⟨j, hj⟩
    · -- `m` lies below the binade of the result: the start of the binade is closer
      have ht : 0 < expT n d := Nat.pos_of_ne_zero h0
      have hfl := binade_floor n d hn hd ht
      have hY : magUnits m * d < 2 ^ 52 * 2 ^ expT n d * d := Nat.mul_lt_mul_of_pos_right hlow hd
      rw [Nat.mul_assoc] at hY
      obtain ⟨k1, _⟩ := key (2 ^ 52)
      generalize 2 ^ 52 * (2 ^ expT n d * d) = X at *
      generalize magUnits m * d = Y at *
      generalize magUnits (rneMagU n d) * d = U at *
      generalize n * 2 ^ 1074 = A at *
      unfold adiff at *
      constructor
      · omega
      · intro e; omega
    · exact grid j hj

/-! ### Monotonicity -/

theorem rneMagU_scale (n d g : Nat) (hn : 0 < n) (hd : 0 < d) (hg : 0 < g) :
    rneMagU (n * g) (d * g) = rneMagU n d := by
  unfold rneMagU expT significand scaled ulpExp
  rw [ilog2_scale n d g hn hd hg]
  simp only []
  split
  · rw [Nat.mul_right_comm d g, roundHalfEven_scale _ _ _ hg]
  · rw [Nat.mul_right_comm n g, roundHalfEven_scale _ _ _ hg]

theorem rneMagU_mono_same_den (n1 n2 d : Nat) (hn1 : 0 < n1) (hd : 0 < d) (h : n1 ≤ n2) :
    rneMagU n1 d ≤ rneMagU n2 d := by
  apply Nat.le_of_not_lt
  intro hlt
  have hn2 : 0 < n2 := Nat.lt_of_lt_of_le hn1 h
  have hu := Nat.mul_lt_mul_of_pos_right (magUnits_strictMono _ _ hlt) hd
  obtain ⟨a1, _⟩ := rneMagU_nearest n1 d hn1 hd (rneMagU n2 d)
  obtain ⟨a2, _⟩ := rneMagU_nearest n2 d hn2 hd (rneMagU n1 d)
  have hA : n1 * 2 ^ 1074 ≤ n2 * 2 ^ 1074 := Nat.mul_le_mul_right _ h
  have hEq : n1 * 2 ^ 1074 = n2 * 2 ^ 1074 := by
    have b1 := adiff_hi _ _ _ hu a1
    have b2 := adiff_lo _ _ _ hu a2
    omega
  have : n1 = n2 := Nat.eq_of_mul_eq_mul_right (two_pow_pos 1074) hEq
  subst this
  exact Nat.lt_irrefl _ hlt

/-- **Monotone**: `n1/d1 ≤ n2/d2` implies the pattern for `n1/d1` is not above
the pattern for `n2/d2`. -/
theorem rneMagU_mono (n1 d1 n2 d2 : Nat) (hn1 : 0 < n1) (hd1 : 0 < d1) (hd2 : 0 < d2)
    (h : n1 * d2 ≤ n2 * d1) : rneMagU n1 d1 ≤ rneMagU n2 d2 := by
  have hn2 : 0 < n2 := by
    apply Nat.pos_of_ne_zero
    intro h0; subst h0
    have := Nat.mul_pos hn1 hd2
    omega
  rw [← rneMagU_scale n1 d1 d2 hn1 hd1 hd2, ← rneMagU_scale n2 d2 d1 hn2 hd2 hd1, Nat.mul_comm d2 d1]
  exact rneMagU_mono_same_den _ _ _ (Nat.mul_pos hn1 hd2) (Nat.mul_pos hd1 hd2) h

theorem rneMag_mono (n1 d1 n2 d2 : Nat) (hn1 : 0 < n1) (hd1 : 0 < d1) (hd2 : 0 < d2)
    (h : n1 * d2 ≤ n2 * d1) : rneMag n1 d1 ≤ rneMag n2 d2 := by
  have := rneMagU_mono n1 d1 n2 d2 hn1 hd1 hd2 h
  rw [rneMag_eq_min, rneMag_eq_min]
  omega

/-! ### Overflow -/

/-- The largest finite double, in units of `2^-1074`. -/
theorem magUnits_maxFinite : magUnits (infMag - 1) = (2 ^ 53 - 1) * 2 ^ 2045 := by decide +kernel

/-- The pattern of infinity read with an unbounded exponent: `2^1024`. -/
theorem magUnits_infMag : magUnits infMag = 2 ^ 53 * 2 ^ 2045 := by decide +kernel

/-- **Overflow** happens exactly from the midpoint between the largest finite
double and `2^1024` on (the midpoint itself is a tie and goes to the even
neighbour `2^1024`, i.e. overflows): `n/d ≥ (2^54 − 1)·2^970 = 2^1024 − 2^970`. -/
theorem rneMagU_overflow_iff (n d : Nat) (hn : 0 < n) (hd : 0 < d) :
    infMag ≤ rneMagU n d ↔ d * ((2 ^ 54 - 1) * 2 ^ 970) ≤ n := by
  have hmid : d * ((2 ^ 54 - 1) * 2 ^ 970) ≤ n ↔
      (magUnits (infMag - 1) * d + magUnits infMag * d) ≤ 2 * (n * 2 ^ 1074) := by
    rw [magUnits_maxFinite, magUnits_infMag, ← Nat.add_mul, ← Nat.add_mul]
    have e1 : ((2 ^ 53 - 1 + 2 ^ 53) * 2 ^ 2045 * d) = (d * ((2 ^ 54 - 1) * 2 ^ 970)) * 2 ^ 1075 := by
      have h1 : (2 ^ 53 - 1 + 2 ^ 53 : Nat) = 2 ^ 54 - 1 := by decide
      have h2 : (2:Nat) ^ 2045 = 2 ^ 970 * 2 ^ 1075 := by rw [← Nat.pow_add]
      rw [h1, h2]
      generalize (2 ^ 54 - 1 : Nat) = a
      generalize (2:Nat) ^ 970 = b
      generalize (2:Nat) ^ 1075 = c
      ac_rfl
    have e2 : 2 * (n * 2 ^ 1074) = n * 2 ^ 1075 := by
      rw [Nat.pow_succ 2 1074]; generalize (2:Nat) ^ 1074 = c; ac_rfl
    rw [e1, e2]
    exact (Nat.mul_le_mul_right_iff (two_pow_pos 1075)).symm
  rw [hmid]
  have hlt := Nat.mul_lt_mul_of_pos_right (magUnits_strictMono (infMag - 1) infMag (by decide)) hd
  constructor
  · intro hge
    have hu := Nat.mul_le_mul_right d (magUnits_mono _ _ hge)
    obtain ⟨a1, _⟩ := rneMagU_nearest n d hn hd (infMag - 1)
    have b1 := adiff_hi _ _ _ (Nat.lt_of_lt_of_le hlt hu) a1
    omega
  · intro hge
    apply Nat.le_of_not_lt
    intro hlt'
    have hle : rneMagU n d ≤ infMag - 1 := by omega
    have hu := Nat.mul_le_mul_right d (magUnits_mono _ _ hle)
    obtain ⟨a1, a2⟩ := rneMagU_nearest n d hn hd infMag
    have b1 := adiff_lo _ _ _ (Nat.lt_of_le_of_lt hu hlt) a1
    have hodd : ¬ ((infMag - 1) % 2 = 0) := by decide
    by_cases ceq : rneMagU n d = infMag - 1
    · rw [ceq] at a1 a2 b1
      have hne : infMag ≠ infMag - 1 := by decide
      exact hodd (a2 (adiff_tie _ _ _ (by omega)) hne)
    · have hlt2 : rneMagU n d < infMag - 1 := by omega
      have hu2 := Nat.mul_lt_mul_of_pos_right (magUnits_strictMono _ _ hlt2) hd
      omega

theorem rneMag_overflow_iff (n d : Nat) (hn : 0 < n) (hd : 0 < d) :
    rneMag n d = infMag ↔ d * ((2 ^ 54 - 1) * 2 ^ 970) ≤ n := by
  rw [← rneMagU_overflow_iff n d hn hd, rneMag_eq_min]
  omega

theorem rneMag_le_infMag (n d : Nat) : rneMag n d ≤ infMag := by
  rw [rneMag_eq_min]; omega

/-- The clamped result is nearest among the FINITE doubles whenever it is
finite, and even at a tie. -/
theorem rneMag_nearest (n d : Nat) (hn : 0 < n) (hd : 0 < d) (hfin : rneMag n d < infMag) (m : Nat) :
    adiff (n * 2 ^ 1074) (magUnits (rneMag n d) * d) ≤ adiff (n * 2 ^ 1074) (magUnits m * d) ∧
    (adiff (n * 2 ^ 1074) (magUnits (rneMag n d) * d) = adiff (n * 2 ^ 1074) (magUnits m * d) →
      m ≠ rneMag n d → rneMag n d % 2 = 0) := by
  have : rneMag n d = rneMagU n d := by
    rw [rneMag_eq_min] at hfin ⊢; omega
  rw [this]
  exact rneMagU_nearest n d hn hd m

/-! ### Uniqueness: nearest + ties-to-even determines the pattern -/

/-- Any pattern `m` that is as close to `n/d` as the result, and even whenever
it ties with the result, IS the result: "round to nearest, ties to even" has
exactly one answer (two equidistant even patterns would have an odd pattern
strictly between them, which would be closer). -/
theorem rneMagU_unique (n d : Nat) (hn : 0 < n) (hd : 0 < d) (m : Nat)
    (hnear : adiff (n * 2 ^ 1074) (magUnits m * d) ≤ adiff (n * 2 ^ 1074) (magUnits (rneMagU n d) * d))
    (htie : adiff (n * 2 ^ 1074) (magUnits m * d) = adiff (n * 2 ^ 1074) (magUnits (rneMagU n d) * d) →
      m ≠ rneMagU n d → m % 2 = 0) :
    m = rneMagU n d := by
  apply Classical.byContradiction
  intro hne
  obtain ⟨a1, a2⟩ := rneMagU_nearest n d hn hd m
  have heq : adiff (n * 2 ^ 1074) (magUnits (rneMagU n d) * d) = adiff (n * 2 ^ 1074) (magUnits m * d) :=
    Nat.le_antisymm a1 hnear
  have pe := a2 heq hne
  have me := htie heq.symm hne
  rcases Nat.lt_or_gt_of_ne hne with hlt | hgt
  · have h1 : m + 1 < rneMagU n d := by omega
    have s1 := Nat.mul_lt_mul_of_pos_right (magUnits_strictMono m (m + 1) (by omega)) hd
    have s2 := Nat.mul_lt_mul_of_pos_right (magUnits_strictMono (m + 1) _ h1) hd
    obtain ⟨b1, _⟩ := rneMagU_nearest n d hn hd (m + 1)
    generalize magUnits (rneMagU n d) * d = c at *
    generalize magUnits (m + 1) * d = b at *
    generalize magUnits m * d = a at *
    generalize n * 2 ^ 1074 = A at *
    unfold adiff at heq b1
    omega
  · have h1 : rneMagU n d + 1 < m := by omega
    have s1 := Nat.mul_lt_mul_of_pos_right (magUnits_strictMono (rneMagU n d) (rneMagU n d + 1) (by omega)) hd
    have s2 := Nat.mul_lt_mul_of_pos_right (magUnits_strictMono (rneMagU n d + 1) m h1) hd
    obtain ⟨b1, _⟩ := rneMagU_nearest n d hn hd (rneMagU n d + 1)
    generalize magUnits (rneMagU n d + 1) * d = b at *
    generalize magUnits (rneMagU n d) * d = c at *
    generalize magUnits m * d = a at *
    generalize n * 2 ^ 1074 = A at *
    unfold adiff at heq b1
    omega

end C12.B64
