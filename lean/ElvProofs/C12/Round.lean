/-
C12 helper lemmas about the transparent binary64 rounding `B64.rne`.
-/
import ElvModel.C12.Binary64
namespace C12.B64

theorem two_pow_pos (k : Nat) : 0 < 2 ^ k := Nat.pow_pos (by decide)

/-- Uniform reading of `pow2Le`: with any shift `S` making the exponent
non-negative, `2^k ≤ n/d` is `d·2^(S+k) ≤ n·2^S`. -/
theorem pow2Le_iff (k : Int) (n d S : Nat) (hS : 0 ≤ (S : Int) + k) :
    pow2Le k n d = true ↔ d * 2 ^ ((S : Int) + k).toNat ≤ n * 2 ^ S := by
  unfold pow2Le
  by_cases hk : 0 ≤ k
  · simp only [hk, if_true, decide_eq_true_eq]
    have : ((S : Int) + k).toNat = k.toNat + S := by omega
    rw [this, Nat.pow_add, ← Nat.mul_assoc]
    exact (Nat.mul_le_mul_right_iff (two_pow_pos S)).symm
  · simp only [hk, if_false, decide_eq_true_eq]
    have : S = ((S : Int) + k).toNat + (-k).toNat := by omega
    conv => rhs; rhs; rw [this, Nat.pow_add, Nat.mul_comm (2 ^ _) (2 ^ _), ← Nat.mul_assoc]
    exact (Nat.mul_le_mul_right_iff (two_pow_pos _)).symm

theorem pow2Le_antitone (k : Int) (n d : Nat) (h : pow2Le (k + 1) n d = true) : pow2Le k n d = true := by
  have hS : 0 ≤ ((k.natAbs + 1 : Nat) : Int) + k := by omega
  have hS' : 0 ≤ ((k.natAbs + 1 : Nat) : Int) + (k + 1) := by omega
  rw [pow2Le_iff k n d _ hS]
  rw [pow2Le_iff (k + 1) n d _ hS'] at h
  have : (((k.natAbs + 1 : Nat) : Int) + (k + 1)).toNat = (((k.natAbs + 1 : Nat) : Int) + k).toNat + 1 := by
    omega
  rw [this, Nat.pow_succ, ← Nat.mul_assoc] at h
  exact Nat.le_trans (Nat.le_mul_of_pos_right _ (by decide)) h

theorem pow2Le_of_le (k j : Int) (n d : Nat) (hjk : j ≤ k) (h : pow2Le k n d = true) :
    pow2Le j n d = true := by
  obtain ⟨t, rfl⟩ : ∃ t : Nat, k = j + t := ⟨(k - j).toNat, by omega⟩
  clear hjk
  induction t with
  | zero => simpa using h
  | succ t ih =>
    apply ih
    apply pow2Le_antitone
    have : j + ((t + 1 : Nat) : Int) = j + (t : Int) + 1 := by omega
    rw [← this]; exact h

/-- `ilog2 n d` is `⌊log₂ (n/d)⌋`: `2^k ≤ n/d < 2^(k+1)`. -/
theorem ilog2_spec (n d : Nat) (hn : 0 < n) (hd : 0 < d) :
    pow2Le (ilog2 n d) n d = true ∧ pow2Le (ilog2 n d + 1) n d = false := by
  unfold ilog2
  simp only []
  have ha1 := Nat.log2_self_le (Nat.ne_of_gt hn)
  have ha2 := @Nat.lt_log2_self n
  have hb1 := Nat.log2_self_le (Nat.ne_of_gt hd)
  have hb2 := @Nat.lt_log2_self d
  generalize n.log2 = a at *
  generalize d.log2 = b at *
  -- 2^(k0+1) > n/d
  have up : pow2Le ((a : Int) - b + 1) n d = false := by
    cases h : pow2Le ((a : Int) - b + 1) n d
    · rfl
    · exfalso
      rw [pow2Le_iff _ n d b (by omega)] at h
      have e : ((b : Int) + ((a : Int) - b + 1)).toNat = a + 1 := by omega
      rw [e] at h
      have h1 : n * 2 ^ b < 2 ^ (a + 1) * 2 ^ b := Nat.mul_lt_mul_of_pos_right ha2 (two_pow_pos b)
      have h2 : 2 ^ (a + 1) * 2 ^ b ≤ 2 ^ (a + 1) * d := Nat.mul_le_mul_left _ hb1
      rw [Nat.mul_comm d] at h
      omega
  -- 2^(k0-1) ≤ n/d
  have low : pow2Le ((a : Int) - b - 1) n d = true := by
    rw [pow2Le_iff _ n d (b + 1) (by omega)]
    have e : (((b + 1 : Nat) : Int) + ((a : Int) - b - 1)).toNat = a := by omega
    rw [e]
    have h1 : d * 2 ^ a ≤ 2 ^ (b + 1) * 2 ^ a := Nat.mul_le_mul_right _ (Nat.le_of_lt hb2)
    have h2 : 2 ^ (b + 1) * 2 ^ a ≤ 2 ^ (b + 1) * n := Nat.mul_le_mul_left _ ha1
    rw [Nat.mul_comm n]
    omega
  cases h : pow2Le ((a : Int) - b) n d
  · simp only [Bool.false_eq_true, if_false]
    refine ⟨low, ?_⟩
    have : (a : Int) - b - 1 + 1 = a - b := by omega
    rw [this]; exact h
  · simp only [if_true]
    exact ⟨h, up⟩

theorem ilog2_unique (n d : Nat) (hn : 0 < n) (hd : 0 < d) (k : Int)
    (h1 : pow2Le k n d = true) (h2 : pow2Le (k + 1) n d = false) : ilog2 n d = k := by
  obtain ⟨s1, s2⟩ := ilog2_spec n d hn hd
  apply Int.le_antisymm
  · apply Int.not_lt.1
    intro hlt
    have := pow2Le_of_le (ilog2 n d) (k + 1) n d (by omega) s1
    rw [h2] at this; cases this
  · apply Int.not_lt.1
    intro hlt
    have := pow2Le_of_le k (ilog2 n d + 1) n d (by omega) h1
    rw [s2] at this; cases this

theorem pow2Le_scale (k : Int) (n d g : Nat) (hg : 0 < g) :
    pow2Le k (n * g) (d * g) = pow2Le k n d := by
  unfold pow2Le
  by_cases hk : 0 ≤ k
  · simp only [hk, if_true]
    rw [Nat.mul_right_comm d g]
    simp [Nat.mul_le_mul_right_iff hg]
  · simp only [hk, if_false]
    rw [Nat.mul_right_comm n g]
    simp [Nat.mul_le_mul_right_iff hg]

theorem ilog2_scale (n d g : Nat) (hn : 0 < n) (hd : 0 < d) (hg : 0 < g) :
    ilog2 (n * g) (d * g) = ilog2 n d := by
  obtain ⟨s1, s2⟩ := ilog2_spec n d hn hd
  apply ilog2_unique _ _ (Nat.mul_pos hn hg) (Nat.mul_pos hd hg)
  · rw [pow2Le_scale _ _ _ _ hg]; exact s1
  · rw [pow2Le_scale _ _ _ _ hg]; exact s2

theorem roundHalfEven_scale (N D g : Nat) (hg : 0 < g) :
    roundHalfEven (N * g) (D * g) = roundHalfEven N D := by
  unfold roundHalfEven
  rw [Nat.mul_div_mul_right _ _ hg, Nat.mul_mod_mul_right]
  simp only []
  have e1 : (2 * (N % D * g) < D * g) ↔ (2 * (N % D) < D) := by
    rw [← Nat.mul_assoc]; exact Nat.mul_lt_mul_right hg
  have e2 : (D * g < 2 * (N % D * g)) ↔ (D < 2 * (N % D)) := by
    rw [← Nat.mul_assoc]; exact Nat.mul_lt_mul_right hg
  simp only [e1, e2]

/-- Rounding does not depend on the representation of the fraction. -/
theorem rneMag_scale (n d g : Nat) (hn : 0 < n) (hd : 0 < d) (hg : 0 < g) :
    rneMag (n * g) (d * g) = rneMag n d := by
  unfold rneMag ulpExp
  rw [ilog2_scale n d g hn hd hg]
  simp only []
  split
  · rw [Nat.mul_right_comm d g, roundHalfEven_scale _ _ _ hg]
  · rw [Nat.mul_right_comm n g, roundHalfEven_scale _ _ _ hg]

/-- The rounded significand is a nearest integer, the even one at a tie:
`|N/D − M| ≤ 1/2` — the result is within half a unit in the last place
(`2^ulpExp`) of the exact quotient, ties to even. -/
theorem roundHalfEven_nearest (N D : Nat) (hD : 0 < D) :
    let M := roundHalfEven N D
    (2 * (M * D) ≤ 2 * N + D ∧ 2 * N ≤ 2 * (M * D) + D) ∧
    ((2 * (M * D) = 2 * N + D ∨ 2 * N = 2 * (M * D) + D) → M % 2 = 0) := by
  have h1 := Nat.div_add_mod N D
  have h2 := Nat.mod_lt N hD
  unfold roundHalfEven
  simp only []
  generalize N / D = q at *
  generalize N % D = r at *
  have e : (q + 1) * D = D * q + D := by rw [Nat.add_mul, Nat.mul_comm]; simp
  rw [Nat.mul_comm D q] at h1
  split
  · constructor <;> omega
  · split
    · rw [e, Nat.mul_comm D q]; constructor <;> omega
    · split
      · constructor <;> omega
      · rw [e, Nat.mul_comm D q]; constructor <;> omega

theorem roundHalfEven_exact (M D : Nat) (hD : 0 < D) : roundHalfEven (M * D) D = M := by
  unfold roundHalfEven
  simp [Nat.mul_div_cancel _ hD, Nat.mul_mod_left, hD]


theorem le_ilog2 (n d : Nat) (hn : 0 < n) (hd : 0 < d) (k : Int) (h : pow2Le k n d = true) :
    k ≤ ilog2 n d := by
  obtain ⟨_, s2⟩ := ilog2_spec n d hn hd
  apply Int.not_lt.1
  intro hlt
  have := pow2Le_of_le k (ilog2 n d + 1) n d (by omega) h
  rw [s2] at this; cases this

theorem ilog2_lt (n d : Nat) (hn : 0 < n) (hd : 0 < d) (k : Int) (h : pow2Le k n d = false) :
    ilog2 n d < k := by
  obtain ⟨s1, _⟩ := ilog2_spec n d hn hd
  apply Int.not_le.1
  intro hle
  have := pow2Le_of_le (ilog2 n d) k n d hle s1
  rw [h] at this; cases this

theorem encode_eq (e m mag : Nat) (he1 : 1 ≤ e) (hdm : 2 ^ 52 * e + m = mag) :
    ((e : Int) - 1075 + 1074).toNat * 2 ^ 52 + (2 ^ 52 + m) = mag := by
  have : ((e : Int) - 1075 + 1074).toNat = e - 1 := by omega
  rw [this]
  have p52 : (2:Nat) ^ 52 = 4503599627370496 := by decide
  rw [p52] at *
  omega

/-- Rounding is exact on representable values: the finite non-zero pattern
`mag` denotes `magUnits mag / 2^1074`, and rounding that fraction gives `mag`
back. -/
theorem rneMag_units (mag : Nat) (h0 : 0 < mag) (h1 : mag < infMag) :
    rneMag (magUnits mag) (2 ^ 1074) = mag := by
  have hdm := Nat.div_add_mod mag (2 ^ 52)
  have hm := Nat.mod_lt mag (two_pow_pos 52)
  have hZ := two_pow_pos 1074
  unfold magUnits
  simp only []
  generalize hE : mag / 2 ^ 52 = e at *
  generalize hM : mag % 2 ^ 52 = m at *
  have he : e < 2047 := by
    simp only [infMag] at h1
    have : (2:Nat) ^ 52 = 4503599627370496 := by decide
    rw [this] at hdm hm; omega
  by_cases c : e = 0
  · -- subnormal: unit in the last place 2^-1074, significand m
    subst c
    simp only [if_true]
    have hmpos : 0 < m := by omega
    have hlog : ilog2 m (2 ^ 1074) < -1021 := by
      apply ilog2_lt _ _ hmpos hZ
      unfold pow2Le
      have e1 : (2:Nat) ^ 1074 = 2 ^ 53 * 2 ^ 1021 := by rw [← Nat.pow_add]
      have : ¬ (2 ^ 1074 ≤ m * 2 ^ 1021) := by
        rw [e1]
        have h53 : m < 2 ^ 53 := Nat.lt_trans hm (by decide)
        have := Nat.mul_lt_mul_of_pos_right h53 (two_pow_pos 1021)
        omega
      simp [this]
    unfold rneMag ulpExp
    have hEq : max (ilog2 m (2 ^ 1074) - 52) (-1074) = -1074 := by omega
    rw [hEq]
    simp only []
    have : ¬ ((0:Int) ≤ -1074) := by omega
    simp only [this, if_false]
    have : (-(-1074 : Int)).toNat = 1074 := by decide
    rw [this, roundHalfEven_exact _ _ hZ]
    have : ((-1074 : Int) + 1074).toNat = 0 := by decide
    rw [this]
    simp only [infMag] at *
    omega
  · -- normal: value (2^52+m)·2^(e-1075)
    simp only [c, if_false]
    have he1 : 1 ≤ e := by omega
    have hY := two_pow_pos (e - 1)
    have hu : 0 < (2 ^ 52 + m) * 2 ^ (e - 1) := Nat.mul_pos (by omega) hY
    have hlog : ilog2 ((2 ^ 52 + m) * 2 ^ (e - 1)) (2 ^ 1074) = (e : Int) - 1023 := by
      apply ilog2_unique _ _ hu hZ
      · rw [pow2Le_iff _ _ _ 1074 (by omega)]
        have e1 : (((1074 : Nat) : Int) + ((e : Int) - 1023)).toNat = 52 + (e - 1) := by omega
        rw [e1, Nat.pow_add]
        have a1 : 2 ^ 1074 * (2 ^ 52 * 2 ^ (e - 1)) = 2 ^ 52 * (2 ^ (e - 1) * 2 ^ 1074) := by
          rw [Nat.mul_comm (2 ^ 1074), Nat.mul_assoc]
        have a2 : (2 ^ 52 + m) * 2 ^ (e - 1) * 2 ^ 1074 = (2 ^ 52 + m) * (2 ^ (e - 1) * 2 ^ 1074) :=
          Nat.mul_assoc _ _ _
        rw [a1, a2]
        exact Nat.mul_le_mul_right _ (by omega)
      · cases hh : pow2Le ((e : Int) - 1023 + 1) ((2 ^ 52 + m) * 2 ^ (e - 1)) (2 ^ 1074)
        · rfl
        · exfalso
          rw [pow2Le_iff _ _ _ 1074 (by omega)] at hh
          have e1 : (((1074 : Nat) : Int) + ((e : Int) - 1023 + 1)).toNat = 53 + (e - 1) := by omega
          rw [e1, Nat.pow_add] at hh
          have a1 : 2 ^ 1074 * (2 ^ 53 * 2 ^ (e - 1)) = 2 ^ 53 * (2 ^ (e - 1) * 2 ^ 1074) := by
            rw [Nat.mul_comm (2 ^ 1074), Nat.mul_assoc]
          have a2 : (2 ^ 52 + m) * 2 ^ (e - 1) * 2 ^ 1074 = (2 ^ 52 + m) * (2 ^ (e - 1) * 2 ^ 1074) :=
            Nat.mul_assoc _ _ _
          rw [a1, a2] at hh
          have hlt : 2 ^ 52 + m < 2 ^ 53 := by
            have : (2:Nat) ^ 53 = 2 ^ 52 + 2 ^ 52 := by decide
            omega
          have := Nat.mul_lt_mul_of_pos_right hlt (Nat.mul_pos hY hZ)
          omega
    unfold rneMag ulpExp
    rw [hlog]
    have hEq : max ((e : Int) - 1023 - 52) (-1074) = (e : Int) - 1075 := by omega
    rw [hEq]
    simp only []
    have hfin := encode_eq e m mag he1 hdm
    by_cases cE : (0 : Int) ≤ (e : Int) - 1075
    · simp only [cE, if_true]
      have e2 : ((e : Int) - 1075).toNat = e - 1075 := by omega
      have e3 : e - 1 = 1074 + (e - 1075) := by omega
      have : (2 ^ 52 + m) * 2 ^ (e - 1) = (2 ^ 52 + m) * (2 ^ 1074 * 2 ^ (e - 1075)) := by
        rw [e3, Nat.pow_add]
      rw [e2, this, roundHalfEven_exact _ _ (Nat.mul_pos hZ (two_pow_pos _)), hfin]
      exact Nat.min_eq_left (Nat.le_of_lt h1)
    · simp only [cE, if_false]
      have e2 : (-((e : Int) - 1075)).toNat = 1075 - e := by omega
      have : (2 ^ 52 + m) * 2 ^ (e - 1) * 2 ^ (1075 - e) = (2 ^ 52 + m) * 2 ^ 1074 := by
        have hx : e - 1 + (1075 - e) = 1074 := by omega
        rw [Nat.mul_assoc, ← Nat.pow_add, hx]
      rw [e2, this, roundHalfEven_exact _ _ hZ, hfin]
      exact Nat.min_eq_left (Nat.le_of_lt h1)


theorem magUnits_pos (mag : Nat) (h : 0 < mag) : 0 < magUnits mag := by
  have hdm := Nat.div_add_mod mag (2 ^ 52)
  unfold magUnits
  simp only []
  by_cases c : mag / 2 ^ 52 = 0
  · simp only [c, if_true]
    rw [c] at hdm
    omega
  · simp only [c, if_false]
    exact Nat.mul_pos (Nat.lt_of_lt_of_le (two_pow_pos 52) (Nat.le_add_right _ _)) (two_pow_pos _)

theorem mkRat_scale (u Z : Nat) (hZ : 0 < Z) :
    ∃ g : Nat, 0 < g ∧ (u : Int) = (mkRat u Z).num * g ∧ Z = (mkRat u Z).den * g := by
  obtain ⟨g, hg, hn, hd⟩ := Rat.mkRat_num_den (Nat.ne_of_gt hZ)
    (show mkRat (u : Int) Z = ⟨(mkRat u Z).num, (mkRat u Z).den, (mkRat u Z).den_nz,
      (mkRat u Z).reduced⟩ from rfl)
  exact ⟨g, Nat.pos_of_ne_zero hg, hn, hd⟩

theorem rne_pos (q : Rat) (h : 0 < q.num) : rne q = rneMag q.num.natAbs q.den := by
  unfold rne
  have h1 : q.num ≠ 0 := by omega
  have h2 : ¬ q.num < 0 := by omega
  simp only [h1, h2, if_false]

theorem rne_neg (q : Rat) (h : 0 < q.num) : rne (-q) = signBit + rneMag q.num.natAbs q.den := by
  unfold rne
  have h1 : (-q).num ≠ 0 := by rw [Rat.neg_num]; omega
  have h2 : (-q).num < 0 := by rw [Rat.neg_num]; omega
  simp only [h1, h2, if_false, if_true]
  rw [Rat.neg_num, Rat.neg_den, Int.natAbs_neg]

/-- Rounding the exact value of a finite non-zero magnitude gives it back. -/
theorem rneMag_magToRat (mag : Nat) (h0 : 0 < mag) (h1 : mag < infMag) :
    0 < (magToRat mag).num ∧ rneMag (magToRat mag).num.natAbs (magToRat mag).den = mag := by
  have hZ := two_pow_pos 1074
  have hu := magUnits_pos mag h0
  obtain ⟨g, hgpos, hn, hd⟩ := mkRat_scale (magUnits mag) (2 ^ 1074) hZ
  have hq : magToRat mag = mkRat (magUnits mag) (2 ^ 1074) := rfl
  rw [← hq] at hn hd
  generalize magToRat mag = q at *
  generalize hu' : magUnits mag = u at *
  have hnum : 0 < q.num := by
    apply Int.lt_of_not_ge
    intro hle
    have h3 : q.num * (g : Int) ≤ 0 :=
      Int.mul_nonpos_of_nonpos_of_nonneg hle (Int.natCast_nonneg g)
    have h4 : (0 : Int) < (u : Int) := Int.natCast_pos.2 hu
    rw [hn] at h4
    exact absurd h3 (Int.not_le.2 h4)
  refine ⟨hnum, ?_⟩
  have hn' : u = q.num.natAbs * g := by
    have h5 : (q.num.natAbs : Int) = q.num := Int.natAbs_of_nonneg (Int.le_of_lt hnum)
    have h2 : ((u : Nat) : Int) = ((q.num.natAbs * g : Nat) : Int) := by
      rw [Int.natCast_mul, h5]; exact hn
    exact Int.ofNat.inj h2
  have hsc := rneMag_scale q.num.natAbs q.den g (Int.natAbs_pos.2 (Int.ne_of_gt hnum)) q.den_pos hgpos
  rw [← hn', ← hd] at hsc
  rw [← hsc, ← hu']
  exact rneMag_units mag h0 h1

/-- `exact-num` then `inexact-num` is the identity on every finite double other
than `-0`: decoding a finite non-zero pattern to its exact rational value and
rounding that value to nearest gives the same pattern back. -/
theorem rne_toRat (bits : Nat) (hb : bits < 2 ^ 64) (q : Rat) (h : toRat bits = some q)
    (hnz : bits % signBit ≠ 0) : rne q = bits := by
  unfold toRat at h
  simp only [] at h
  have hdm := Nat.div_add_mod bits signBit
  have hlt : bits / signBit < 2 := by
    simp only [signBit] at *
    have : (2:Nat) ^ 64 = 18446744073709551616 := by decide
    omega
  generalize hmag : bits % signBit = mag at *
  by_cases c : mag ≥ infMag
  · simp [c] at h
  · have c' : mag < infMag := Nat.lt_of_not_ge c
    obtain ⟨hnum, hr⟩ := rneMag_magToRat mag (Nat.pos_of_ne_zero hnz) c'
    simp only [c, if_false] at h
    generalize magToRat mag = r at *
    by_cases s : bits / signBit % 2 = 1
    · simp only [s, if_true] at h
      have hq : -r = q := Option.some.inj h
      subst hq
      rw [rne_neg r hnum, hr]
      simp only [signBit] at *
      omega
    · simp only [s, if_false] at h
      have hq : r = q := Option.some.inj h
      subst hq
      rw [rne_pos r hnum, hr]
      simp only [signBit] at *
      omega

/-- Both zeros have exact value 0, which converts to `+0`. -/
theorem rne_zero : toRat 0 = some 0 ∧ toRat signBit = some 0 ∧ rne 0 = 0 := by
  have hz : magToRat 0 = 0 := by
    show mkRat ((magUnits 0 : Nat) : Int) (2 ^ 1074) = 0
    have : magUnits 0 = 0 := by decide
    rw [this]; exact Rat.zero_mkRat _
  refine ⟨?_, ?_, rfl⟩
  · show (if 0 % signBit ≥ infMag then none else
      if 0 / signBit % 2 = 1 then some (-(magToRat (0 % signBit))) else some (magToRat (0 % signBit))) = _
    have h1 : 0 % signBit = 0 := by decide
    have h2 : ¬ (0 ≥ infMag) := by decide
    have h3 : ¬ (0 / signBit % 2 = 1) := by decide
    rw [h1]; simp only [h2, h3, if_false, hz]
  · show (if signBit % signBit ≥ infMag then none else
      if signBit / signBit % 2 = 1 then some (-(magToRat (signBit % signBit)))
      else some (magToRat (signBit % signBit))) = _
    have h1 : signBit % signBit = 0 := by decide
    have h2 : ¬ (0 ≥ infMag) := by decide
    have h3 : signBit / signBit % 2 = 1 := by decide
    rw [h1]; simp only [h2, h3, if_false, if_true, hz]; rfl


/-! ### Within half an ulp -/

theorem roundHalfEven_bounds (N D lo hi : Nat) (hD : 0 < D) (h1 : D * lo ≤ N) (h2 : N < D * hi) :
    lo ≤ roundHalfEven N D ∧ roundHalfEven N D ≤ hi := by
  have hq1 : lo ≤ N / D := (Nat.le_div_iff_mul_le hD).2 (by rw [Nat.mul_comm]; exact h1)
  have hq2 : N / D < hi := (Nat.div_lt_iff_lt_mul hD).2 (by rw [Nat.mul_comm]; exact h2)
  unfold roundHalfEven
  simp only []
  split
  · omega
  · split
    · omega
    · split <;> omega

/-- The scaled quotient `N/D = (n/d)/2^E` and its rounded significand. -/
def scaled (n d : Nat) : Nat × Nat :=
  let E := ulpExp n d
  if 0 ≤ E then (n, d * 2 ^ E.toNat) else (n * 2 ^ (-E).toNat, d)

def significand (n d : Nat) : Nat := roundHalfEven (scaled n d).1 (scaled n d).2

theorem rneMag_eq (n d : Nat) :
    rneMag n d = min ((ulpExp n d + 1074).toNat * 2 ^ 52 + significand n d) infMag := by
  unfold rneMag significand scaled
  simp only []
  split <;> rfl

theorem scaled_den_pos (n d : Nat) (hd : 0 < d) : 0 < (scaled n d).2 := by
  unfold scaled
  simp only []
  split
  · exact Nat.mul_pos hd (two_pow_pos _)
  · exact hd

/-- The significand is in range: `2^52 ≤ M ≤ 2^53` for a normal result, and
`M ≤ 2^52` when the unit in the last place is the subnormal spacing. -/
theorem significand_bounds (n d : Nat) (hn : 0 < n) (hd : 0 < d) :
    (ulpExp n d = ilog2 n d - 52 → 2 ^ 52 ≤ significand n d ∧ significand n d ≤ 2 ^ 53) ∧
    (ulpExp n d ≠ ilog2 n d - 52 → ulpExp n d = -1074 ∧ significand n d ≤ 2 ^ 52) := by
  obtain ⟨s1, s2⟩ := ilog2_spec n d hn hd
  have hmax : ulpExp n d = max (ilog2 n d - 52) (-1074) := rfl
  generalize hk : ilog2 n d = k at *
  constructor
  · intro hE
    unfold significand scaled
    simp only []
    rw [hE]
    by_cases c : (0 : Int) ≤ k - 52
    · simp only [c, if_true]
      -- N = n, D = d·2^(k-52)
      rw [pow2Le_iff k n d 0 (by omega)] at s1
      have s2' : ¬ (pow2Le (k + 1) n d = true) := by rw [s2]; simp
      rw [pow2Le_iff (k + 1) n d 0 (by omega)] at s2'
      simp only [Nat.pow_zero, Nat.mul_one] at s1 s2'
      have e1 : (((0 : Nat) : Int) + k).toNat = (k - 52).toNat + 52 := by omega
      have e2 : (((0 : Nat) : Int) + (k + 1)).toNat = (k - 52).toNat + 53 := by omega
      rw [e1, Nat.pow_add, ← Nat.mul_assoc] at s1
      rw [e2, Nat.pow_add, ← Nat.mul_assoc] at s2'
      exact roundHalfEven_bounds _ _ _ _ (Nat.mul_pos hd (two_pow_pos _)) s1 (Nat.lt_of_not_ge s2')
    · simp only [c, if_false]
      -- N = n·2^(52-k), D = d
      have hS : (-(k - 52)).toNat = (52 - k).toNat := by omega
      rw [hS]
      rw [pow2Le_iff k n d (52 - k).toNat (by omega)] at s1
      have s2' : ¬ (pow2Le (k + 1) n d = true) := by rw [s2]; simp
      rw [pow2Le_iff (k + 1) n d (52 - k).toNat (by omega)] at s2'
      have e1 : (((52 - k).toNat : Int) + k).toNat = 52 := by omega
      have e2 : (((52 - k).toNat : Int) + (k + 1)).toNat = 53 := by omega
      rw [e1] at s1
      rw [e2] at s2'
      exact roundHalfEven_bounds _ _ _ _ hd s1 (Nat.lt_of_not_ge s2')
  · intro hE
    have hE' : ulpExp n d = -1074 ∧ k - 52 < -1074 := by omega
    refine ⟨hE'.1, ?_⟩
    unfold significand scaled
    simp only []
    rw [hE'.1]
    have : ¬ ((0 : Int) ≤ -1074) := by omega
    simp only [this, if_false]
    have hS : (-(-1074 : Int)).toNat = 1074 := by decide
    rw [hS]
    -- n/d < 2^-1022, so N = n·2^1074 < d·2^52
    have hnot : pow2Le (-1022) n d = false := by
      cases hh : pow2Le (-1022) n d
      · rfl
      · have := pow2Le_of_le (-1022) (k + 1) n d (by omega) hh
        rw [s2] at this; cases this
    have hnot' : ¬ (pow2Le (-1022) n d = true) := by rw [hnot]; simp
    rw [pow2Le_iff (-1022) n d 1074 (by omega)] at hnot'
    have e1 : (((1074 : Nat) : Int) + (-1022)).toNat = 52 := by decide
    rw [e1] at hnot'
    exact (roundHalfEven_bounds _ _ 0 _ hd (Nat.zero_le _) (Nat.lt_of_not_ge hnot')).2

/-- Decoding the pattern built from exponent field offset `t` and significand
`M`: it denotes `M·2^t` units of `2^-1074`. -/
theorem magUnits_encode (t M : Nat) (h : (t = 0 ∧ M ≤ 2 ^ 52) ∨ (2 ^ 52 ≤ M ∧ M ≤ 2 ^ 53)) :
    magUnits (t * 2 ^ 52 + M) = M * 2 ^ t := by
  have p52 : (2:Nat) ^ 52 = 4503599627370496 := by decide
  have p53 : (2:Nat) ^ 53 = 9007199254740992 := by decide
  unfold magUnits
  simp only []
  by_cases c1 : M < 2 ^ 52
  · -- subnormal
    have ht : t = 0 := by
      rcases h with h | h
      · exact h.1
      · omega
    subst ht
    rw [Nat.zero_mul, Nat.zero_add, Nat.div_eq_of_lt c1, Nat.mod_eq_of_lt c1]
    simp
  · by_cases c2 : M < 2 ^ 53
    · have e1 : (t * 2 ^ 52 + M) / 2 ^ 52 = t + 1 := by rw [p52] at *; omega
      have e2 : (t * 2 ^ 52 + M) % 2 ^ 52 = M - 2 ^ 52 := by rw [p52] at *; omega
      have e3 : 2 ^ 52 + (M - 2 ^ 52) = M := by omega
      simp [e1, e2, e3]
    · have hM : M = 2 ^ 53 := by
        rcases h with h | h <;> omega
      subst hM
      have e1 : (t * 2 ^ 52 + 2 ^ 53) / 2 ^ 52 = t + 2 := by rw [p52, p53]; omega
      have e2 : (t * 2 ^ 52 + 2 ^ 53) % 2 ^ 52 = 0 := by rw [p52, p53]; omega
      simp only [e1, e2]
      have : ¬ (t + 2 = 0) := by omega
      simp only [this, if_false, Nat.add_zero]
      have : t + 2 - 1 = t + 1 := by omega
      rw [this, p52, p53, Nat.pow_succ]
      omega

/-- **Within half an ulp.**  For a finite result `p = rneMag n d`, with
`t = ulpExp n d + 1074` (so the unit in the last place is `2^t` units of
`2^-1074`), the value `magUnits p / 2^1074` differs from `n/d` by at most half
a unit in the last place:
`|n/d − magUnits p / 2^1074| ≤ 2^t / 2^1074 / 2`, cross-multiplied. -/
theorem rneMag_half_ulp (n d : Nat) (hn : 0 < n) (hd : 0 < d) (hfin : rneMag n d < infMag) :
    let t := (ulpExp n d + 1074).toNat
    let u := magUnits (rneMag n d)
    2 * (u * d) ≤ 2 * (n * 2 ^ 1074) + d * 2 ^ t ∧ 2 * (n * 2 ^ 1074) ≤ 2 * (u * d) + d * 2 ^ t := by
  obtain ⟨b1, b2⟩ := significand_bounds n d hn hd
  have hEge : -1074 ≤ ulpExp n d := by
    have : ulpExp n d = max (ilog2 n d - 52) (-1074) := rfl
    omega
  have henc : magUnits ((ulpExp n d + 1074).toNat * 2 ^ 52 + significand n d) =
      significand n d * 2 ^ (ulpExp n d + 1074).toNat := by
    apply magUnits_encode
    by_cases c : ulpExp n d = ilog2 n d - 52
    · exact .inr (b1 c)
    · obtain ⟨h1, h2⟩ := b2 c
      exact .inl ⟨by rw [h1]; decide, h2⟩
  have hr := rneMag_eq n d
  have hlt : (ulpExp n d + 1074).toNat * 2 ^ 52 + significand n d < infMag := by
    rw [hr] at hfin
    exact Nat.lt_of_not_ge (fun hge => by rw [Nat.min_eq_right hge] at hfin; exact Nat.lt_irrefl _ hfin)
  rw [hr, Nat.min_eq_left (Nat.le_of_lt hlt)]
  simp only []
  rw [henc]
  obtain ⟨⟨n1, n2⟩, _⟩ := roundHalfEven_nearest (scaled n d).1 (scaled n d).2 (scaled_den_pos n d hd)
  change 2 * (significand n d * (scaled n d).2) ≤ _ at n1
  change _ ≤ 2 * (significand n d * (scaled n d).2) + _ at n2
  generalize significand n d = M at *
  unfold scaled at n1 n2
  simp only [] at n1 n2
  generalize hE : ulpExp n d = E at *
  by_cases c : (0 : Int) ≤ E
  · simp only [c, if_true] at n1 n2
    -- D = d·2^E, N = n;  2^t = 2^E · 2^1074
    have ht : (E + 1074).toNat = E.toNat + 1074 := by omega
    rw [ht, Nat.pow_add]
    generalize (2:Nat) ^ 1074 = Z at *
    generalize (2:Nat) ^ E.toNat = P at *
    have a1 : 2 * (M * (P * Z) * d) = 2 * (M * (d * P)) * Z := by
      simp only [Nat.mul_assoc, Nat.mul_comm, Nat.mul_left_comm]
    have a2 : d * (P * Z) = d * P * Z := by rw [Nat.mul_assoc]
    have a3 : 2 * (n * Z) = 2 * n * Z := by rw [Nat.mul_assoc]
    rw [a1, a2, a3, ← Nat.add_mul, ← Nat.add_mul]
    exact ⟨Nat.mul_le_mul_right _ n1, Nat.mul_le_mul_right _ n2⟩
  · simp only [c, if_false] at n1 n2
    -- D = d, N = n·2^(-E);  2^1074 = 2^(-E) · 2^t
    have ht : 1074 = (-E).toNat + (E + 1074).toNat := by omega
    have hZ : (2:Nat) ^ 1074 = 2 ^ (-E).toNat * 2 ^ (E + 1074).toNat := by
      rw [← Nat.pow_add, ← ht]
    rw [hZ]
    generalize (2:Nat) ^ (E + 1074).toNat = T at *
    generalize (2:Nat) ^ (-E).toNat = P at *
    have a1 : 2 * (M * T * d) = 2 * (M * d) * T := by
      simp only [Nat.mul_assoc, Nat.mul_comm, Nat.mul_left_comm]
    have a3 : 2 * (n * (P * T)) = 2 * (n * P) * T := by
      simp only [Nat.mul_assoc]
    rw [a1, a3, ← Nat.add_mul, ← Nat.add_mul]
    exact ⟨Nat.mul_le_mul_right _ n1, Nat.mul_le_mul_right _ n2⟩

end C12.B64
