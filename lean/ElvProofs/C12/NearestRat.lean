/-
C12 helper lemmas, round 2: the statements of `Nearest.lean` (natural numbers,
units of `2^-1074`, cross-multiplied) transported to `Rat` values of bit
patterns: `B64.rne q` decodes to a double nearest to `q` among all finite
doubles (even pattern at a tie), overflows exactly from `2^1024 − 2^970` on, and
is monotone.
-/
import ElvProofs.C12.Nearest
namespace C12.B64

/-- `|a − b|` on rationals. -/
def rdist (a b : Rat) : Rat := if a < b then b - a else a - b

theorem rdist_scale (q r c : Rat) (hc : 0 < c) : rdist q r * c = rdist (q * c) (r * c) := by
  unfold rdist
  have := Rat.mul_lt_mul_right hc (a := q) (b := r)
  grind

theorem rdist_neg (a b : Rat) : rdist (-a) (-b) = rdist a b := by
  unfold rdist; grind

theorem rdist_nonneg (a b : Rat) : 0 ≤ rdist a b := by
  unfold rdist; grind

theorem rdist_natCast (a b : Nat) : rdist (a : Rat) (b : Rat) = ((adiff a b : Nat) : Rat) := by
  unfold rdist adiff
  by_cases h : a < b
  · have e : (a : Rat) < b := Rat.natCast_lt_natCast.2 h
    obtain ⟨k, rfl⟩ : ∃ k, b = a + k := ⟨b - a, by omega⟩
    have e1 : a - (a + k) = 0 := by omega
    have e2 : a + k - a = k := by omega
    rw [if_pos e, e1, e2, Rat.natCast_add]
    grind
  · have e : ¬ ((a : Rat) < b) := fun hh => h (Rat.natCast_lt_natCast.1 hh)
    obtain ⟨k, rfl⟩ : ∃ k, a = b + k := ⟨a - b, by omega⟩
    have e1 : b - (b + k) = 0 := by omega
    have e2 : b + k - b = k := by omega
    rw [if_neg e, e1, e2, Rat.natCast_add]
    grind

theorem rat_mul_den (q : Rat) : q * (q.den : Rat) = (q.num : Rat) := by
  have h := Rat.mkRat_self q
  rw [Rat.mkRat_eq_div] at h
  have hd : (q.den : Rat) ≠ 0 := by
    have := q.den_pos
    intro h0; have := Rat.natCast_eq_zero_iff.1 h0; omega
  have e : q * (q.den : Rat) = ((q.num : Rat) / (q.den : Rat)) * (q.den : Rat) := by rw [h]
  rw [e]
  exact Rat.div_mul_cancel hd

theorem natCast_pos' (a : Nat) (h : 0 < a) : (0 : Rat) < (a : Rat) := Rat.natCast_pos.2 h

/-- `magToRat m` is `magUnits m` units of `2^-1074`. -/
theorem magToRat_mul (m : Nat) : magToRat m * ((2 ^ 1074 : Nat) : Rat) = ((magUnits m : Nat) : Rat) := by
  unfold magToRat
  rw [Rat.mkRat_eq_div, Rat.intCast_natCast]
  apply Rat.div_mul_cancel
  intro h0
  have := Rat.natCast_eq_zero_iff.1 h0
  have := two_pow_pos 1074
  omega

theorem magToRat_nonneg (m : Nat) : 0 ≤ magToRat m := by
  unfold magToRat
  rw [← Rat.divInt_ofNat]
  exact Rat.divInt_nonneg (Int.natCast_nonneg _) (Int.natCast_nonneg _)

theorem magToRat_zero : magToRat 0 = 0 := by
  show mkRat ((magUnits 0 : Nat) : Int) (2 ^ 1074) = 0
  have : magUnits 0 = 0 := by decide
  rw [this]; exact Rat.zero_mkRat _

theorem magToRat_mono (m1 m2 : Nat) (h : m1 ≤ m2) : magToRat m1 ≤ magToRat m2 := by
  apply Rat.le_of_mul_le_mul_right (c := ((2 ^ 1074 : Nat) : Rat)) _ (natCast_pos' _ (two_pow_pos 1074))
  rw [magToRat_mul, magToRat_mul]
  exact Rat.natCast_le_natCast.2 (magUnits_mono _ _ h)

/-- A positive rational and a double, both scaled to the common denominator
`q.den · 2^1074`. -/
theorem rdist_units (q : Rat) (hq : 0 < q.num) (m : Nat) :
    rdist q (magToRat m) * ((q.den * 2 ^ 1074 : Nat) : Rat) =
      ((adiff (q.num.natAbs * 2 ^ 1074) (magUnits m * q.den) : Nat) : Rat) := by
  have hm := magToRat_mul m
  have hZ := two_pow_pos 1074
  generalize (2:Nat) ^ 1074 = Z at *
  have hc : (0 : Rat) < ((q.den * Z : Nat) : Rat) := natCast_pos' _ (Nat.mul_pos q.den_pos hZ)
  rw [rdist_scale _ _ _ hc, ← rdist_natCast]
  have hn : ((q.num.natAbs : Nat) : Rat) = (q.num : Rat) := by
    rw [← Rat.intCast_natCast, Int.natAbs_of_nonneg (Int.le_of_lt hq)]
  have e1 : q * ((q.den * Z : Nat) : Rat) = ((q.num.natAbs * Z : Nat) : Rat) := by
    rw [Rat.natCast_mul, Rat.natCast_mul, hn, ← rat_mul_den q, Rat.mul_assoc]
  have e2 : magToRat m * ((q.den * Z : Nat) : Rat) = ((magUnits m * q.den : Nat) : Rat) := by
    rw [Rat.natCast_mul, Rat.natCast_mul, ← hm]
    grind
  rw [e1, e2]

/-! ### Decoding patterns -/

theorem toRat_mag (m : Nat) (h : m < infMag) : toRat m = some (magToRat m) := by
  have hs : m < signBit := by simp only [infMag, signBit] at *; omega
  unfold toRat
  simp only []
  rw [Nat.mod_eq_of_lt hs, Nat.div_eq_of_lt hs]
  have c1 : ¬ (m ≥ infMag) := by omega
  have c2 : ¬ (0 % 2 = 1) := by decide
  simp only [c1, c2, if_false]

theorem toRat_neg_mag (m : Nat) (h : m < infMag) : toRat (signBit + m) = some (-(magToRat m)) := by
  have hs : m < signBit := by simp only [infMag, signBit] at *; omega
  have e1 : (signBit + m) % signBit = m := by
    rw [Nat.add_mod_left, Nat.mod_eq_of_lt hs]
  have e2 : (signBit + m) / signBit = 1 := by
    simp only [signBit] at *; omega
  unfold toRat
  simp only []
  rw [e1, e2]
  have c1 : ¬ (m ≥ infMag) := by omega
  have c2 : 1 % 2 = 1 := by decide
  simp only [c1, c2, if_false, if_true]

theorem toRat_decode (bits : Nat) (hb : bits < 2 ^ 64) (v : Rat) (h : toRat bits = some v) :
    ∃ m, m < infMag ∧ ((bits = m ∧ v = magToRat m) ∨ (bits = signBit + m ∧ v = -(magToRat m))) := by
  unfold toRat at h
  simp only [] at h
  have hdm := Nat.div_add_mod bits signBit
  have hlt : bits / signBit < 2 := by
    simp only [signBit] at *
    have : (2:Nat) ^ 64 = 18446744073709551616 := by decide
    omega
  generalize hmag : bits % signBit = mag at *
  by_cases c : mag ≥ infMag
  · simp [c] at h
  · refine ⟨mag, Nat.lt_of_not_ge c, ?_⟩
    simp only [c, if_false] at h
    by_cases s : bits / signBit % 2 = 1
    · simp only [s, if_true] at h
      right
      refine ⟨?_, (Option.some.inj h).symm⟩
      simp only [signBit] at *; omega
    · simp only [s, if_false] at h
      left
      refine ⟨?_, (Option.some.inj h).symm⟩
      simp only [signBit] at *; omega

theorem toRat_none_of_inf (m : Nat) (h : m = infMag) : toRat m = none ∧ toRat (signBit + m) = none := by
  subst h; constructor <;> decide

/-! ### Nearest, for a positive rational -/

theorem natAbs_pos_of_pos (q : Rat) (hq : 0 < q.num) : 0 < q.num.natAbs :=
  Int.natAbs_pos.2 (Int.ne_of_gt hq)

/-- For positive `q` with a finite result `p`: `magToRat p` is at least as
close to `q` as any non-negative double, with the even pattern at a tie. -/
theorem nearest_pos (q : Rat) (hq : 0 < q.num) (hfin : rneMag q.num.natAbs q.den < infMag) (m : Nat) :
    rdist q (magToRat (rneMag q.num.natAbs q.den)) ≤ rdist q (magToRat m) ∧
    (rdist q (magToRat (rneMag q.num.natAbs q.den)) = rdist q (magToRat m) →
      m ≠ rneMag q.num.natAbs q.den → rneMag q.num.natAbs q.den % 2 = 0) := by
  obtain ⟨a1, a2⟩ := rneMag_nearest q.num.natAbs q.den (natAbs_pos_of_pos q hq) q.den_pos hfin m
  have hc : (0 : Rat) < ((q.den * 2 ^ 1074 : Nat) : Rat) :=
    natCast_pos' _ (Nat.mul_pos q.den_pos (two_pow_pos 1074))
  have u1 := rdist_units q hq (rneMag q.num.natAbs q.den)
  have u2 := rdist_units q hq m
  constructor
  · apply Rat.le_of_mul_le_mul_right _ hc
    rw [u1, u2]
    exact Rat.natCast_le_natCast.2 a1
  · intro e ne
    apply a2 _ ne
    rw [e, u2] at u1
    exact Rat.natCast_inj.1 u1.symm

/-- The same against every finite double, negative ones included. -/
theorem nearest_pos_signed (q : Rat) (hq : 0 < q.num) (hfin : rneMag q.num.natAbs q.den < infMag)
    (m : Nat) (v : Rat) (hv : v = magToRat m ∨ v = -(magToRat m)) :
    rdist q (magToRat (rneMag q.num.natAbs q.den)) ≤ rdist q v ∧
    (rdist q (magToRat (rneMag q.num.natAbs q.den)) = rdist q v →
      v ≠ magToRat (rneMag q.num.natAbs q.den) → rneMag q.num.natAbs q.den % 2 = 0) := by
  rcases hv with hv | hv
  · rw [hv]
    obtain ⟨a1, a2⟩ := nearest_pos q hq hfin m
    exact ⟨a1, fun e ne => a2 e (fun h => ne (by rw [h]))⟩
  · rw [hv]
    obtain ⟨a1, a2⟩ := nearest_pos q hq hfin 0
    have hw := magToRat_nonneg m
    have hq0 : 0 < q := by
      have := (Rat.lt_iff 0 q).2 (by simpa using hq)
      exact this
    rw [magToRat_zero] at a1 a2
    generalize magToRat m = w at *
    generalize hp : rneMag q.num.natAbs q.den = p at *
    have k1 : rdist q 0 ≤ rdist q (-w) := by unfold rdist; grind
    refine ⟨Rat.le_trans a1 k1, ?_⟩
    intro e _
    by_cases hp0 : p = 0
    · rw [hp0]
    · apply a2 _ (fun h => hp0 h.symm)
      exact Rat.le_antisymm a1 (by rw [e]; exact k1)

/-! ### All rationals -/

theorem pos_of_num_pos (q : Rat) (h : 0 < q.num) : 0 < q := (Rat.lt_iff 0 q).2 (by simpa using h)
theorem neg_of_num_neg (q : Rat) (h : q.num < 0) : q < 0 := (Rat.lt_iff q 0).2 (by simpa using h)

theorem rne_zero_num (q : Rat) (h : q.num = 0) : rne q = 0 := by
  unfold rne; simp only [h, if_true]

theorem rne_neg_num (q : Rat) (h : q.num < 0) : rne q = signBit + rneMag q.num.natAbs q.den := by
  unfold rne
  have h1 : q.num ≠ 0 := by omega
  simp only [h1, h, if_false, if_true]

theorem toRat_infMag : toRat infMag = none := by decide
theorem toRat_neg_infMag : toRat (signBit + infMag) = none := by decide

/-- The three shapes of a finite result. -/
theorem rne_value (q r : Rat) (h : toRat (rne q) = some r) :
    (0 < q.num ∧ rne q = rneMag q.num.natAbs q.den ∧ rneMag q.num.natAbs q.den < infMag ∧
      r = magToRat (rneMag q.num.natAbs q.den)) ∨
    (q.num = 0 ∧ rne q = 0 ∧ r = 0) ∨
    (q.num < 0 ∧ rne q = signBit + rneMag q.num.natAbs q.den ∧ rneMag q.num.natAbs q.den < infMag ∧
      r = -(magToRat (rneMag q.num.natAbs q.den))) := by
  have hle := rneMag_le_infMag q.num.natAbs q.den
  rcases Int.lt_trichotomy q.num 0 with hneg | hz | hpos
  · right; right
    have e := rne_neg_num q hneg
    rw [e] at h
    rcases Nat.lt_or_eq_of_le hle with hlt | heq
    · rw [toRat_neg_mag _ hlt] at h
      exact ⟨hneg, e, hlt, (Option.some.inj h).symm⟩
    · rw [heq, toRat_neg_infMag] at h; cases h
  · right; left
    have e := rne_zero_num q hz
    rw [e, rne_zero.1] at h
    exact ⟨hz, e, (Option.some.inj h).symm⟩
  · left
    have e := rne_pos q hpos
    rw [e] at h
    rcases Nat.lt_or_eq_of_le hle with hlt | heq
    · rw [toRat_mag _ hlt] at h
      exact ⟨hpos, e, hlt, (Option.some.inj h).symm⟩
    · rw [heq, toRat_infMag] at h; cases h

/-- **Nearest, ties to even.**  Whenever `rne q` is finite with value `r`, no
finite double `v` is closer to `q` than `r`; and if another value is equally
close, the pattern returned is the even one. -/
theorem rne_nearest (q r : Rat) (hr : toRat (rne q) = some r) (bits : Nat) (hb : bits < 2 ^ 64)
    (v : Rat) (hv : toRat bits = some v) :
    rdist q r ≤ rdist q v ∧ (rdist q r = rdist q v → v ≠ r → rne q % 2 = 0) := by
  obtain ⟨m, _, hcase⟩ := toRat_decode bits hb v hv
  have hv' : v = magToRat m ∨ v = -(magToRat m) := by
    rcases hcase with ⟨_, h⟩ | ⟨_, h⟩
    · exact .inl h
    · exact .inr h
  rcases rne_value q r hr with ⟨hpos, e, hfin, hr'⟩ | ⟨hz, e, hr'⟩ | ⟨hneg, e, hfin, hr'⟩
  · rw [hr', e]
    exact nearest_pos_signed q hpos hfin m v hv'
  · have hq : q = 0 := Rat.num_eq_zero.1 hz
    rw [hr', e, hq]
    refine ⟨?_, fun _ _ => rfl⟩
    have := rdist_nonneg 0 v
    have e0 : rdist 0 0 = 0 := by unfold rdist; grind
    rw [e0]; exact this
  · -- mirror image of the positive case
    have hnum : (-q).num = -q.num := Rat.neg_num q
    have hden : (-q).den = q.den := Rat.neg_den q
    have hpos : 0 < (-q).num := by omega
    have habs : (-q).num.natAbs = q.num.natAbs := by rw [hnum, Int.natAbs_neg]
    have hfin' : rneMag (-q).num.natAbs (-q).den < infMag := by rw [habs, hden]; exact hfin
    have hv'' : -v = magToRat m ∨ -v = -(magToRat m) := by
      rcases hv' with h | h
      · right; rw [h]
      · left; rw [h, Rat.neg_neg]
    obtain ⟨a1, a2⟩ := nearest_pos_signed (-q) hpos hfin' m (-v) hv''
    rw [habs, hden] at a1 a2
    have d1 : rdist q r = rdist (-q) (magToRat (rneMag q.num.natAbs q.den)) := by
      rw [hr', ← rdist_neg q, Rat.neg_neg]
    have d2 : rdist q v = rdist (-q) (-v) := (rdist_neg q v).symm
    rw [d1, d2, e]
    refine ⟨a1, fun ee ne => ?_⟩
    have hp := a2 ee (fun h => ne (by rw [hr', ← h, Rat.neg_neg]))
    simp only [signBit]; omega

/-! ### Overflow -/

/-- The overflow threshold `2^1024 − 2^970`: the midpoint between the largest
finite double `(2^53 − 1)·2^971` and `2^1024`. -/
def overflowThr : Nat := (2 ^ 54 - 1) * 2 ^ 970

theorem overflowThr_pos : 0 < overflowThr := Nat.mul_pos (by decide) (two_pow_pos 970)

theorem overflowThr_eq : overflowThr + 2 ^ 970 = 2 ^ 1024 := by decide +kernel

theorem rneMag_overflow_iff' (n d : Nat) (hn : 0 < n) (hd : 0 < d) :
    rneMag n d = infMag ↔ d * overflowThr ≤ n := rneMag_overflow_iff n d hn hd

theorem thr_le_iff (q : Rat) (hq : 0 < q.num) :
    q.den * overflowThr ≤ q.num.natAbs ↔ (overflowThr : Rat) ≤ q := by
  have hd : (0 : Rat) < (q.den : Rat) := natCast_pos' _ q.den_pos
  have hn : ((q.num.natAbs : Nat) : Rat) = (q.num : Rat) := by
    rw [← Rat.intCast_natCast, Int.natAbs_of_nonneg (Int.le_of_lt hq)]
  have hm := rat_mul_den q
  generalize overflowThr = T
  constructor
  · intro h
    have h' : ((q.den * T : Nat) : Rat) ≤ ((q.num.natAbs : Nat) : Rat) := Rat.natCast_le_natCast.2 h
    rw [Rat.natCast_mul, hn, ← hm, Rat.mul_comm] at h'
    exact Rat.le_of_mul_le_mul_right h' hd
  · intro h
    have h' := Rat.mul_le_mul_of_nonneg_right h (Rat.le_of_lt hd)
    rw [hm, ← hn, Rat.mul_comm, ← Rat.natCast_mul] at h'
    exact Rat.natCast_le_natCast.1 h'

/-- **Overflow to +Inf** exactly from `2^1024 − 2^970` on. -/
theorem rne_eq_inf_iff (q : Rat) : rne q = infMag ↔ (overflowThr : Rat) ≤ q := by
  have hT : (0 : Rat) < (overflowThr : Rat) := natCast_pos' _ overflowThr_pos
  rcases Int.lt_trichotomy q.num 0 with hneg | hz | hpos
  · have hq := neg_of_num_neg q hneg
    have hle := rneMag_le_infMag q.num.natAbs q.den
    rw [rne_neg_num q hneg]
    constructor
    · intro h; simp only [signBit, infMag] at *; omega
    · intro h; grind
  · have hq : q = 0 := Rat.num_eq_zero.1 hz
    rw [rne_zero_num q hz, hq]
    constructor
    · intro h; exact absurd h (by decide)
    · intro h; exact absurd hT (Rat.not_lt.2 h)
  · rw [rne_pos q hpos, rneMag_overflow_iff' _ _ (natAbs_pos_of_pos q hpos) q.den_pos]
    exact thr_le_iff q hpos

/-- **Overflow to −Inf** exactly from `−(2^1024 − 2^970)` down. -/
theorem rne_eq_neg_inf_iff (q : Rat) : rne q = signBit + infMag ↔ q ≤ -(overflowThr : Rat) := by
  have hT : (0 : Rat) < (overflowThr : Rat) := natCast_pos' _ overflowThr_pos
  rcases Int.lt_trichotomy q.num 0 with hneg | hz | hpos
  · have hnum : (-q).num = -q.num := Rat.neg_num q
    have hden : (-q).den = q.den := Rat.neg_den q
    have hpos : 0 < (-q).num := by omega
    have habs : (-q).num.natAbs = q.num.natAbs := by rw [hnum, Int.natAbs_neg]
    have k := thr_le_iff (-q) hpos
    rw [habs, hden] at k
    have k2 := rneMag_overflow_iff' q.num.natAbs q.den (Int.natAbs_pos.2 (by omega)) q.den_pos
    rw [rne_neg_num q hneg, Rat.le_neg_iff, ← k, ← k2]
    omega
  · have hq : q = 0 := Rat.num_eq_zero.1 hz
    rw [rne_zero_num q hz, hq]
    constructor
    · intro h; exact absurd h (by decide)
    · intro h
      have : (overflowThr : Rat) ≤ 0 := by
        have := Rat.neg_le_neg h; rwa [Rat.neg_neg, Rat.neg_zero] at this
      exact absurd hT (Rat.not_lt.2 this)
  · have hq := pos_of_num_pos q hpos
    have hle := rneMag_le_infMag q.num.natAbs q.den
    rw [rne_pos q hpos]
    constructor
    · intro h; simp only [signBit, infMag] at *; omega
    · intro h; grind

/-- `rne` never produces a NaN pattern, and fits in 64 bits. -/
theorem rne_wf (q : Rat) : rne q < 2 ^ 64 ∧ rne q % signBit ≤ infMag := by
  have hle := rneMag_le_infMag q.num.natAbs q.den
  have p64 : (2:Nat) ^ 64 = 18446744073709551616 := by decide
  unfold rne
  split
  · constructor <;> decide
  · split
    · simp only [signBit, infMag] at *; omega
    · simp only [signBit, infMag] at *; omega

/-! ### Monotonicity -/

theorem cross_le (q1 q2 : Rat) (h1 : 0 < q1.num) (h2 : 0 < q2.num) (h : q1 ≤ q2) :
    q1.num.natAbs * q2.den ≤ q2.num.natAbs * q1.den := by
  have hle := (Rat.le_iff q1 q2).1 h
  have e1 : q1.num = (q1.num.natAbs : Int) := (Int.natAbs_of_nonneg (Int.le_of_lt h1)).symm
  have e2 : q2.num = (q2.num.natAbs : Int) := (Int.natAbs_of_nonneg (Int.le_of_lt h2)).symm
  rw [e1, e2] at hle
  exact_mod_cast hle

/-- **Monotone in value**: for `q₁ ≤ q₂` with finite results `r₁`, `r₂`:
`r₁ ≤ r₂`.  (Infinite results are ordered by `rne_eq_inf_iff` /
`rne_eq_neg_inf_iff`: the thresholds are upward / downward closed.) -/
theorem rne_mono (q1 q2 : Rat) (h : q1 ≤ q2) (r1 r2 : Rat)
    (h1 : toRat (rne q1) = some r1) (h2 : toRat (rne q2) = some r2) : r1 ≤ r2 := by
  rcases rne_value q1 r1 h1 with ⟨p1, _, _, e1⟩ | ⟨z1, _, e1⟩ | ⟨n1, _, _, e1⟩ <;>
  rcases rne_value q2 r2 h2 with ⟨p2, _, _, e2⟩ | ⟨z2, _, e2⟩ | ⟨n2, _, _, e2⟩
  · rw [e1, e2]
    exact magToRat_mono _ _ (rneMag_mono _ _ _ _ (natAbs_pos_of_pos q1 p1) q1.den_pos q2.den_pos
      (cross_le q1 q2 p1 p2 h))
  · have := pos_of_num_pos q1 p1
    rw [Rat.num_eq_zero.1 z2] at h
    exact absurd this (Rat.not_lt.2 h)
  · have a := pos_of_num_pos q1 p1
    have b := neg_of_num_neg q2 n2
    grind
  · rw [e1, e2]; exact magToRat_nonneg _
  · rw [e1, e2]; exact Rat.le_refl
  · have b := neg_of_num_neg q2 n2
    rw [Rat.num_eq_zero.1 z1] at h
    exact absurd b (Rat.not_lt.2 h)
  · rw [e1, e2]
    have a := magToRat_nonneg (rneMag q1.num.natAbs q1.den)
    have b := magToRat_nonneg (rneMag q2.num.natAbs q2.den)
    generalize magToRat (rneMag q1.num.natAbs q1.den) = x at *
    generalize magToRat (rneMag q2.num.natAbs q2.den) = y at *
    grind
  · rw [e1, e2]
    have a := magToRat_nonneg (rneMag q1.num.natAbs q1.den)
    generalize magToRat (rneMag q1.num.natAbs q1.den) = x at *
    grind
  · rw [e1, e2]
    apply Rat.neg_le_neg
    have hn1 : 0 < (-q1).num := by rw [Rat.neg_num]; omega
    have hn2 : 0 < (-q2).num := by rw [Rat.neg_num]; omega
    have hc := cross_le (-q2) (-q1) hn2 hn1 (Rat.neg_le_neg h)
    rw [Rat.neg_num, Rat.neg_num, Rat.neg_den, Rat.neg_den, Int.natAbs_neg, Int.natAbs_neg] at hc
    exact magToRat_mono _ _ (rneMag_mono _ _ _ _ (Int.natAbs_pos.2 (by omega)) q2.den_pos q1.den_pos hc)

/-! ### Uniqueness -/

theorem magToRat_inj (m1 m2 : Nat) (h : magToRat m1 = magToRat m2) : m1 = m2 := by
  apply magUnits_inj
  have h1 := magToRat_mul m1
  rw [h, magToRat_mul m2] at h1
  exact (Rat.natCast_inj.1 h1).symm

theorem mul_right_cancel_pos (a b c : Rat) (hc : 0 < c) (h : a * c = b * c) : a = b :=
  Rat.le_antisymm (Rat.le_of_mul_le_mul_right (by rw [h]; exact Rat.le_refl) hc)
    (Rat.le_of_mul_le_mul_right (by rw [h]; exact Rat.le_refl) hc)

theorem unique_pos (q : Rat) (hq : 0 < q.num) (hfin : rneMag q.num.natAbs q.den < infMag) (m : Nat)
    (hnear : rdist q (magToRat m) ≤ rdist q (magToRat (rneMag q.num.natAbs q.den)))
    (htie : rdist q (magToRat m) = rdist q (magToRat (rneMag q.num.natAbs q.den)) →
      m ≠ rneMag q.num.natAbs q.den → m % 2 = 0) :
    m = rneMag q.num.natAbs q.den := by
  have hpU : rneMag q.num.natAbs q.den = rneMagU q.num.natAbs q.den := by
    rw [rneMag_eq_min] at hfin ⊢; omega
  have hc : (0 : Rat) < ((q.den * 2 ^ 1074 : Nat) : Rat) :=
    natCast_pos' _ (Nat.mul_pos q.den_pos (two_pow_pos 1074))
  have u1 := rdist_units q hq (rneMag q.num.natAbs q.den)
  have u2 := rdist_units q hq m
  rw [hpU] at u1 hnear htie ⊢
  apply rneMagU_unique _ _ (natAbs_pos_of_pos q hq) q.den_pos m
  · have := Rat.mul_le_mul_of_nonneg_right hnear (Rat.le_of_lt hc)
    rw [u1, u2] at this
    exact Rat.natCast_le_natCast.1 this
  · intro e ne
    apply htie _ ne
    apply mul_right_cancel_pos _ _ _ hc
    rw [u1, u2, e]

theorem unique_pos_signed (q : Rat) (hq : 0 < q.num) (hfin : rneMag q.num.natAbs q.den < infMag)
    (m : Nat) (v : Rat) (hv : v = magToRat m ∨ v = -(magToRat m))
    (hnear : rdist q v ≤ rdist q (magToRat (rneMag q.num.natAbs q.den)))
    (htie : rdist q v = rdist q (magToRat (rneMag q.num.natAbs q.den)) →
      v ≠ magToRat (rneMag q.num.natAbs q.den) → m % 2 = 0) :
    v = magToRat (rneMag q.num.natAbs q.den) := by
  rcases hv with hv | hv
  · rw [hv] at hnear htie ⊢
    have := unique_pos q hq hfin m hnear (fun e ne => htie e (fun h => ne (magToRat_inj _ _ h)))
    rw [← this]
  · rw [hv] at hnear
    obtain ⟨a1, _⟩ := nearest_pos q hq hfin 0
    have hw := magToRat_nonneg m
    have hq0 : 0 < q := pos_of_num_pos q hq
    have hz := magToRat_zero
    have hw0 : magToRat m = 0 := by
      rw [hz] at a1
      generalize magToRat m = w at *
      generalize magToRat (rneMag q.num.natAbs q.den) = r at *
      unfold rdist at *
      grind
    have hm0 : m = 0 := magToRat_inj _ _ (by rw [hw0, hz])
    have hv0 : v = magToRat 0 := by rw [hv, hw0, hz, Rat.neg_zero]
    rw [hw0, Rat.neg_zero, ← hz] at hnear
    have := unique_pos q hq hfin 0 hnear (fun _ _ => rfl)
    rw [hv0, ← this]

/-- **Unique.**  A finite double that is as close to `q` as `rne q`, and has an
even pattern whenever it ties with `rne q`, has the same value as `rne q`: no
other conversion (double rounding in particular) can satisfy "nearest, ties to
even" and differ in value. -/
theorem rne_unique (q r : Rat) (hr : toRat (rne q) = some r) (bits : Nat) (hb : bits < 2 ^ 64)
    (v : Rat) (hv : toRat bits = some v)
    (hnear : rdist q v ≤ rdist q r) (htie : rdist q v = rdist q r → v ≠ r → bits % 2 = 0) : v = r := by
  obtain ⟨m, _, hcase⟩ := toRat_decode bits hb v hv
  have hv' : v = magToRat m ∨ v = -(magToRat m) := by
    rcases hcase with ⟨_, h⟩ | ⟨_, h⟩
    · exact .inl h
    · exact .inr h
  have hpar : bits % 2 = 0 → m % 2 = 0 := by
    rcases hcase with ⟨h, _⟩ | ⟨h, _⟩
    · rw [h]; exact id
    · rw [h]; simp only [signBit]; omega
  rcases rne_value q r hr with ⟨hpos, _, hfin, hr'⟩ | ⟨hz, _, hr'⟩ | ⟨hneg, _, hfin, hr'⟩
  · rw [hr'] at hnear htie ⊢
    exact unique_pos_signed q hpos hfin m v hv' hnear (fun e ne => hpar (htie e ne))
  · have hq : q = 0 := Rat.num_eq_zero.1 hz
    rw [hr', hq] at hnear
    rw [hr']
    unfold rdist at hnear
    grind
  · have hnum : (-q).num = -q.num := Rat.neg_num q
    have hden : (-q).den = q.den := Rat.neg_den q
    have hpos : 0 < (-q).num := by omega
    have habs : (-q).num.natAbs = q.num.natAbs := by rw [hnum, Int.natAbs_neg]
    have hfin' : rneMag (-q).num.natAbs (-q).den < infMag := by rw [habs, hden]; exact hfin
    have hv'' : -v = magToRat m ∨ -v = -(magToRat m) := by
      rcases hv' with h | h
      · right; rw [h]
      · left; rw [h, Rat.neg_neg]
    have d1 : rdist q r = rdist (-q) (magToRat (rneMag q.num.natAbs q.den)) := by
      rw [hr', ← rdist_neg q, Rat.neg_neg]
    have d2 : rdist q v = rdist (-q) (-v) := (rdist_neg q v).symm
    rw [d1, d2] at hnear htie
    have k := unique_pos_signed (-q) hpos hfin' m (-v) hv''
      (by rw [habs, hden]; exact hnear)
      (by
        rw [habs, hden]
        intro e ne
        exact hpar (htie e (fun h => ne (by rw [h, hr', Rat.neg_neg]))))
    rw [habs, hden] at k
    rw [hr', ← k, Rat.neg_neg]

end C12.B64
