/-
C12 round 2 helper lemmas: the float branch of `range` (`C12.rangeC12`) and
the inexact branch of `math:pow`.
-/
import ElvProofs.C12.Struct
namespace C12
open Go C11

variable {F : Type}

/-- `[a, f a, f (f a), …]` of length `n`. -/
def iterate (f : F → F) : F → Nat → List F
  | _, 0 => []
  | a, n + 1 => a :: iterate f (f a) n

/-- The ascending float loop outputs `cur, cur+step, (cur+step)+step, …`
(iterated `ops.add`), every output is below `end`, and after every output but
the last the addition moved the value (`¬ cur+step ≤ cur`). -/
theorem rangeFloatUp_spec (ops : F64Ops F) (c : FCmp F) (end_ step : F) :
    ∀ (fuel : Nat) (cur : F) (l : List F), rangeFloatUp ops c end_ step fuel cur = .ok l →
      l = iterate (fun x => ops.add x step) cur l.length ∧
      (∀ x ∈ l, c.lt x end_ = true) ∧
      (∀ x ∈ l.dropLast, c.le (ops.add x step) x = false) := by
  intro fuel
  induction fuel with
  | zero => intro cur l h; simp [rangeFloatUp] at h
  | succ fuel ih =>
    intro cur l h
    unfold rangeFloatUp at h
    by_cases c1 : c.lt cur end_ = true
    · simp only [c1, if_true] at h
      by_cases c2 : c.le (ops.add cur step) cur = true
      · simp only [c2, if_true] at h
        cases h
        simp [iterate, c1]
      · simp only [c2] at h
        cases hr : rangeFloatUp ops c end_ step fuel (ops.add cur step) with
        | ok l' =>
          rw [hr] at h
          simp only [resMap] at h
          cases h
          obtain ⟨i1, i2, i3⟩ := ih _ _ hr
          refine ⟨?_, ?_, ?_⟩
          · simp only [List.length_cons, iterate]
            rw [← i1]
          · intro x hx
            rcases List.mem_cons.1 hx with rfl | hx
            · exact c1
            · exact i2 x hx
          · intro x hx
            cases l' with
            | nil => simp at hx
            | cons y t =>
              rw [List.dropLast_cons_cons] at hx
              rcases List.mem_cons.1 hx with rfl | hx
              · simpa using c2
              · exact i3 x hx
        | exc e => rw [hr] at h; simp [resMap] at h
        | panic w => rw [hr] at h; simp [resMap] at h
    · simp only [c1] at h
      cases h
      simp [iterate]

theorem rangeFloatDown_spec (ops : F64Ops F) (c : FCmp F) (end_ step : F) :
    ∀ (fuel : Nat) (cur : F) (l : List F), rangeFloatDown ops c end_ step fuel cur = .ok l →
      l = iterate (fun x => ops.add x step) cur l.length ∧
      (∀ x ∈ l, c.lt end_ x = true) ∧
      (∀ x ∈ l.dropLast, c.le x (ops.add x step) = false) := by
  intro fuel
  induction fuel with
  | zero => intro cur l h; simp [rangeFloatDown] at h
  | succ fuel ih =>
    intro cur l h
    unfold rangeFloatDown at h
    by_cases c1 : c.lt end_ cur = true
    · simp only [c1, if_true] at h
      by_cases c2 : c.le cur (ops.add cur step) = true
      · simp only [c2, if_true] at h
        cases h
        simp [iterate, c1]
      · simp only [c2] at h
        cases hr : rangeFloatDown ops c end_ step fuel (ops.add cur step) with
        | ok l' =>
          rw [hr] at h
          simp only [resMap] at h
          cases h
          obtain ⟨i1, i2, i3⟩ := ih _ _ hr
          refine ⟨?_, ?_, ?_⟩
          · simp only [List.length_cons, iterate]
            rw [← i1]
          · intro x hx
            rcases List.mem_cons.1 hx with rfl | hx
            · exact c1
            · exact i2 x hx
          · intro x hx
            cases l' with
            | nil => simp at hx
            | cons y t =>
              rw [List.dropLast_cons_cons] at hx
              rcases List.mem_cons.1 hx with rfl | hx
              · simpa using c2
              · exact i3 x hx
        | exc e => rw [hr] at h; simp [resMap] at h
        | panic w => rw [hr] at h; simp [resMap] at h
    · simp only [c1] at h
      cases h
      simp [iterate]

/-- With a float among start/end/step, `range` is the float loop over the
converted arguments. -/
theorem rangeC12_float (ops : F64Ops F) (c : FCmp F) (fuel : Nat) (raw : List (Num F)) (h : HasFloat raw) :
    (match unifyNums ops raw .int with
      | .ok (.flts l) => resMap (·.map fun f => fromGo (.flt f)) (rangeBuiltinFloat ops c fuel l)
      | _ => (.exc "other" : Res (List (Num F)))) =
    resMap (·.map .flt) (rangeBuiltinFloat ops c fuel (raw.map (convertToFloat64 ops))) := by
  rw [unifyNums_float ops raw .int h]
  rfl

end C12
