/-
C12 helper lemmas: the float branches of the arithmetic builtins, for every
instance of the float operations.
-/
import ElvProofs.C11.Arith
import ElvModel.C12.Model
namespace C12
open Go C11
variable {F : Type}

/-- Some argument is a float. -/
def HasFloat (args : List (Num F)) : Prop := ∃ a ∈ args, isExact a = false

theorem rankOf_float (a : Num F) (h : isExact a = false) : rankOf a = 3 := by
  cases a <;> simp [isExact] at h; rfl

theorem rank_le_three (t : NumType) : t.rank ≤ 3 := by cases t <;> simp [NumType.rank]

/-- `UnifyNums` with a float among the arguments converts every argument with
`ConvertToFloat64`. -/
theorem unifyNums_float (ops : F64Ops F) (raw : List (Num F)) (typ : NumType) (h : HasFloat raw) :
    unifyNums ops raw typ = .ok (.flts (raw.map (convertToFloat64 ops))) := by
  obtain ⟨a, ha, hf⟩ := h
  have hr := rank_unifyType raw typ
  have hge := (foldl_max_ge raw typ.rank).2 a ha
  rw [← hr, rankOf_float a hf] at hge
  have : unifyType raw typ = .float64 := by
    apply rank_inj
    have := rank_le_three (unifyType raw typ)
    simp only [NumType.rank] at *; omega
  simp [unifyNums, this]

theorem add_float (ops : F64Ops F) (args : List (Num F)) (h : HasFloat args) :
    add ops args = .ok (.flt ((args.map (convertToFloat64 ops)).foldl ops.add (ops.ofInt64 0))) := by
  simp [add, unifyNums_float ops args _ h]

/-- Unary minus for one argument, left fold of `-` from the first otherwise. -/
def subFold (ops : F64Ops F) : List F → F
  | [] => ops.ofInt64 0
  | [x] => ops.neg x
  | x :: rest => rest.foldl ops.sub x

theorem sub_float (ops : F64Ops F) (args : List (Num F)) (h : HasFloat args) :
    sub ops args = .ok (.flt (subFold ops (args.map (convertToFloat64 ops)))) := by
  have hne : args.isEmpty = false := by
    obtain ⟨a, ha, _⟩ := h; cases args <;> simp_all
  simp only [sub, hne, unifyNums_float ops args _ h]
  match args with
  | [] => simp at hne
  | [a] => rfl
  | a :: b :: rest => rfl

/-- The exact-zero rule of `*` fires: an exact 0 is seen before any infinity
and there is no infinity at all. -/
def MulZeroRule (ops : F64Ops F) (args : List (Num F)) : Prop :=
  (mulScan ops args false).1 = true ∧ (mulScan ops args false).2 = false

theorem mul_float (ops : F64Ops F) (args : List (Num F)) (h : HasFloat args)
    (hz : ¬ MulZeroRule ops args) :
    mul ops args = .ok (.flt ((args.map (convertToFloat64 ops)).foldl ops.mul (ops.ofInt64 1))) := by
  unfold mul
  unfold MulZeroRule at hz
  generalize mulScan ops args false = sc at hz
  obtain ⟨z, i⟩ := sc
  have : (z && !i) = false := by
    cases z <;> cases i <;> simp_all
  simp [this, unifyNums_float ops args _ h]

/-- Reciprocal for one argument, left fold of `/` from the first otherwise. -/
def divFold (ops : F64Ops F) : List F → F
  | [] => ops.ofInt64 0
  | [x] => ops.div (ops.ofInt64 1) x
  | x :: rest => rest.foldl ops.div x

theorem div_float (ops : F64Ops F) (x : Num F) (rest : List (Num F)) (h : HasFloat (x :: rest))
    (h0 : rest.any isExactZero = false) (hx : isExactZero x = false) :
    div ops (x :: rest) = .ok (.flt (divFold ops ((x :: rest).map (convertToFloat64 ops)))) := by
  simp only [div, h0, hx, unifyNums_float ops _ _ h]
  cases rest with
  | nil => rfl
  | cons b rs => rfl


theorem mulScan_snd (ops : F64Ops F) (l : List (Num F)) (z : Bool) :
    (mulScan ops l z).2 = l.any (isInfNum ops) := by
  induction l generalizing z with
  | nil => rfl
  | cons a l ih =>
    simp only [mulScan, List.any_cons]
    by_cases h : isInfNum ops a = true
    · simp [h]
    · have h' : isInfNum ops a = false := by simpa using h
      simp [h', ih]

/-- The rule as documented: some argument is the exact 0 and no argument is a
floating-point infinity. -/
theorem mulZeroRule_iff (ops : F64Ops F) (args : List (Num F)) :
    MulZeroRule ops args ↔ (Num.int 0 ∈ args ∧ ∀ a ∈ args, isInfNum ops a = false) := by
  unfold MulZeroRule
  rw [mulScan_snd]
  constructor
  · rintro ⟨h1, h2⟩
    have hinf : ∀ a ∈ args, isInfNum ops a = false := by
      intro a ha
      cases hh : isInfNum ops a
      · rfl
      · have : args.any (isInfNum ops) = true := List.any_eq_true.2 ⟨a, ha, hh⟩
        rw [this] at h2; cases h2
    rw [mulScan_noInf ops args false hinf] at h1
    simp only [Bool.false_or] at h1
    obtain ⟨a, ha, hz⟩ := List.any_eq_true.1 h1
    refine ⟨?_, hinf⟩
    cases a <;> simp [isExactZero] at hz
    subst hz; exact ha
  · rintro ⟨h0, hinf⟩
    rw [mulScan_noInf ops args false hinf]
    refine ⟨?_, ?_⟩
    · simp only [Bool.false_or]; exact List.any_eq_true.2 ⟨_, h0, rfl⟩
    · cases hh : args.any (isInfNum ops)
      · rfl
      · obtain ⟨a, ha, hz⟩ := List.any_eq_true.1 hh
        rw [hinf a ha] at hz; cases hz

end C12
