/-
C12 round 2: a transparent description of the WRONG way to convert a rational
`a/b` with machine-word parts — `float64(a) / float64(b)` — used to state that
it differs from the single correctly rounded conversion `B64.rne (a/b)` the
model (and `big.Rat.Float64`) performs.
-/
import ElvProofs.C12.NearestRat
namespace C12.B64

/-- `float64(a) / float64(b)` under IEEE-754 for integers `a`, `b`: each
conversion rounds to nearest-even, and the quotient of the two ROUNDED values
is rounded again (up to three roundings instead of one).  `none` when an
operand is not finite. -/
def divThenRound (a b : Int) : Option Nat :=
  match toRat (rne (a : Rat)), toRat (rne (b : Rat)) with
  | some x, some y => some (rne (x / y))
  | _, _ => none

/-- The witness `1/(2^53+1)`: `float64(2^53+1)` is `2^53` (a tie, to even), so
the quotient comes out as `2^-53` = `0x3ca0000000000000`, whereas the double
nearest to `1/(2^53+1)` is the predecessor `0x3c9fffffffffffff`. -/
theorem divThenRound_witness :
    divThenRound 1 9007199254740993 = some 0x3ca0000000000000 ∧
    rne (mkRat 1 9007199254740993) = 0x3c9fffffffffffff := by
  constructor <;> decide +kernel

theorem overflowThr_rat : (overflowThr : Rat) = (2 : Rat) ^ 1024 - (2 : Rat) ^ 970 := by
  have h : ((overflowThr + 2 ^ 970 : Nat) : Rat) = ((2 ^ 1024 : Nat) : Rat) := by rw [overflowThr_eq]
  rw [Rat.natCast_add, Rat.natCast_pow, Rat.natCast_pow] at h
  have e2 : ((2 : Nat) : Rat) = (2 : Rat) := rfl
  rw [e2] at h
  generalize (2 : Rat) ^ 1024 = A at *
  generalize (2 : Rat) ^ 970 = B at *
  grind

end C12.B64
