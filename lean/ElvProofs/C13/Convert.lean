/-
C13 helper lemmas: `ConvertListIndex` against the reference (`Ref.select`).
-/
import ElvModel.C13.Model
import ElvProofs.C13.Atoi
import ElvProofs.C13.Split
namespace C13
open Go Ref

/-- The model's outcome `r` of converting an index agrees with the reference's
selection: same kind, exactly the selected bounds; an exception (never a
panic) when the reference rules the index out. -/
def Agrees (r : Res ListIndex) (sel : Option Sel) : Prop :=
  match r, sel with
  | .ok ix, some (.elem k) => ix.slice = false ∧ ix.lower = (k : Int)
  | .ok ix, some (.range lo hi) => ix.slice = true ∧ ix.lower = (lo : Int) ∧ ix.upper = (hi : Int)
  | .exc _, none => True
  | _, _ => False

/-- closed form of the wrapper around the generated `adjustAndCheckIndex` -/
theorem adjust_eq (i n : Int) (b : Bool) :
    adjust i n b =
      if i < 0 then
        if i < -n then throw (negIndexOutOfRange (strBytes (itoa i)) n) else .ok (i + n)
      else if b then
        if i > n then throw (posIndexOutOfRange (strBytes (itoa i)) (n + 1)) else .ok i
      else
        if i ≥ n then throw (posIndexOutOfRange (strBytes (itoa i)) n) else .ok i := by
  unfold adjust Gen.C13Index.adjustAndCheckIndex
  by_cases h0 : i < 0
  · by_cases h1 : i < -n <;> simp [h0, h1]
  · cases b
    · by_cases h1 : i ≥ n <;> simp [h0, h1]
    · by_cases h1 : i > n <;> simp [h0, h1]

theorem wrap64_id {x : Int} (h1 : minInt64 ≤ x) (h2 : x ≤ maxInt64) : wrap64 x = x := by
  simp only [wrap64, minInt64, maxInt64] at *
  omega

theorem wrap64_max : wrap64 (maxInt64 + 1) = minInt64 := by
  simp only [wrap64, minInt64, maxInt64]
  omega

def InRange (v : Int) : Prop := minInt64 ≤ v ∧ v ≤ maxInt64

/-! ### typed integers -/

theorem convert_int (n : Nat) (i : Int) :
    Agrees (convertListIndex (.int i) n) (select n (.elem i)) := by
  simp only [convertListIndex, adjust_eq, select, pos, throw, bind, Res.bind, pure]
  by_cases h0 : i < 0
  · by_cases h1 : i < -(n : Int)
    · have : ¬ (0 ≤ (n : Int) + i ∧ (n : Int) + i < n) := by omega
      have h0' : ¬ 0 ≤ i := by omega
      simp [h0, h1, h0', this, Agrees]
    · have : (0 ≤ (n : Int) + i ∧ (n : Int) + i < n) := by omega
      have h0' : ¬ 0 ≤ i := by omega
      simp only [h0, h1, h0', this, if_true, if_false, Agrees, and_self, true_and]
      omega
  · by_cases h1 : i ≥ (n : Int)
    · have : ¬ (0 ≤ i ∧ i < n) := by omega
      have h0' : 0 ≤ i := by omega
      have h1' : ¬ i < n := by omega
      simp [h0, h1, h0', h1', Agrees]
    · have : (0 ≤ i ∧ i < n) := by omega
      have h0' : 0 ≤ i := by omega
      simp only [h0, h1, h0', this, if_true, if_false, Agrees, and_self, true_and, Bool.false_eq_true]
      omega

/-! ### element index given as a string -/

theorem parse_elem {s : Bytes} {i : Int} (h : IsInt s i) (n : Int) :
    parseIndexString s n = (atoi s n).bind fun v => .ok (false, v, 0) := by
  unfold parseIndexString
  rw [split_plain s (isInt_noDot h).1]
  simp [bind, Res.bind, pure]

theorem convert_elem {s : Bytes} {i : Int} (h : IsInt s i) (n : Nat) (hn : (n : Int) < 4611686018427387904) :
    Agrees (convertListIndex (.str s) n) (select n (.elem i)) := by
  simp only [convertListIndex, parse_elem h, bind]
  rcases atoi_of_isInt h n with ⟨r1, r2, he⟩ | ⟨hnr, e, he⟩
  · rw [he]
    have := convert_int n i
    simp only [convertListIndex, bind, Res.bind, pure] at this
    simp only [Res.bind, Bool.not_false, if_true, pure]
    cases hadj : adjust i (n : Int) false <;> simp_all [Res.bind]
  · rw [he]
    simp only [minInt64, maxInt64] at hnr
    have : ¬ (0 ≤ pos n i ∧ pos n i < n) := by
      simp only [pos]; split <;> omega
    simp [Res.bind, select, this, Agrees]

end C13

namespace C13
open Go Ref

/-! ### slices -/

def sepBytes (incl : Bool) : Bytes := if incl then [46, 46, 61] else [46, 46]

/-- the `low` part of `parseIndexString` -/
def lowPart (lo : Bytes) (n : Int) : Res Int := if lo.isEmpty then .ok 0 else atoi lo (n + 1)

/-- the `high` part of `parseIndexString` -/
def highPart (hi : Bytes) (incl : Bool) (n : Int) : Res Int :=
  if hi.isEmpty then .ok n
  else (atoi hi (n + 1)).bind fun j =>
    if incl then (if j = -1 then .ok n else .ok (wrap64 (j + 1))) else .ok j

theorem bind_ok {α β} {r : Res α} {f : α → Res β} {b : β} (h : r.bind f = .ok b) :
    ∃ a, r = .ok a ∧ f a = .ok b := by
  cases r <;> simp_all [Res.bind]

theorem bind_no_panic {α β} {r : Res α} {f : α → Res β} (hr : ∀ w, r ≠ .panic w)
    (hf : ∀ a w, f a ≠ .panic w) : ∀ w, r.bind f ≠ .panic w := by
  intro w
  cases r with
  | ok a => exact hf a w
  | exc e => simp [Res.bind]
  | panic w' => exact absurd rfl (hr w')

/-- `parseIndexString` in terms of what `splitIndexString` returned -/
theorem parse_of_split {s : Bytes} {n : Int} {low high : Bytes} {sep : Sep}
    (hs : splitIndexString s = .ok (low, sep, high)) :
    parseIndexString s n =
      if sep = .none then (atoi s n).bind fun i => .ok (false, i, 0)
      else (lowPart low n).bind fun i =>
        (highPart high (decide (sep = .dde)) n).bind fun j => .ok (true, i, j) := by
  unfold parseIndexString lowPart highPart
  rw [hs]
  cases sep
  · simp [bind, Res.bind, pure]
  · have h1 : ¬ (Sep.dd = Sep.none) := by decide
    have h2 : ¬ (Sep.dd = Sep.dde) := by decide
    simp only [bind, Res.bind, pure, h1, h2, if_false]
    cases hl : low.isEmpty <;> cases hh : high.isEmpty <;>
      cases atoi low (n + 1) <;> cases atoi high (n + 1) <;>
      simp [Res.bind]
  · have h1 : ¬ (Sep.dde = Sep.none) := by decide
    simp only [bind, Res.bind, pure, h1, if_false, if_true]
    cases hl : low.isEmpty <;> cases hh : high.isEmpty <;>
      cases atoi low (n + 1) <;> cases hj : atoi high (n + 1) <;>
      simp [Res.bind] <;>
      (split <;> simp)

theorem parse_slice (incl : Bool) {lo hi : Bytes} {a b : Option Int}
    (hlo : IsOptInt lo a) (hhi : IsOptInt hi b) (n : Int) :
    parseIndexString (lo ++ sepBytes incl ++ hi) n =
      (lowPart lo n).bind fun i => (highPart hi incl n).bind fun j => .ok (true, i, j) := by
  cases incl
  · simp only [sepBytes, Bool.false_eq_true, if_false]
    rw [parse_of_split (split_dd lo hi (isOptInt_noDot hlo).1 (isOptInt_noDot hhi).1 (isOptInt_noDot hhi).2)]
    simp
  · simp only [sepBytes, if_true]
    rw [parse_of_split (split_dde lo hi (isOptInt_noDot hlo).1)]
    simp

theorem lowPart_ok {lo : Bytes} {n i : Int} (h : lowPart lo n = .ok i) : ∃ a, IsOptInt lo a := by
  unfold lowPart at h
  split at h
  · rename_i he
    have : lo = [] := by simpa using he
    subst this; exact ⟨_, .omitted⟩
  · exact ⟨_, .given (isInt_of_atoi h)⟩

theorem highPart_ok {hi : Bytes} {incl : Bool} {n j : Int} (h : highPart hi incl n = .ok j) :
    ∃ b, IsOptInt hi b := by
  unfold highPart at h
  split at h
  · rename_i he
    have : hi = [] := by simpa using he
    subst this; exact ⟨_, .omitted⟩
  · obtain ⟨v, hv, -⟩ := bind_ok h
    exact ⟨_, .given (isInt_of_atoi hv)⟩

theorem lowPart_no_panic (lo : Bytes) (n : Int) : ∀ w, lowPart lo n ≠ .panic w := by
  intro w; unfold lowPart; split
  · simp
  · exact atoi_no_panic _ _ w

theorem highPart_no_panic (hi : Bytes) (incl : Bool) (n : Int) : ∀ w, highPart hi incl n ≠ .panic w := by
  intro w; unfold highPart; split
  · simp
  · apply bind_no_panic (atoi_no_panic _ _)
    intro a w; split <;> (try split) <;> simp

theorem parse_no_panic (s : Bytes) (n : Int) : ∀ w, parseIndexString s n ≠ .panic w := by
  obtain ⟨low, sep, high, hs, -⟩ := split_sound s
  rw [parse_of_split hs]
  split
  · apply bind_no_panic (atoi_no_panic _ _); intro a w; simp
  · apply bind_no_panic (lowPart_no_panic _ _); intro a
    apply bind_no_panic (highPart_no_panic _ _ _); intro b w; simp

theorem lowPart_cases {lo : Bytes} {a : Option Int} (h : IsOptInt lo a) (n : Int) :
    (a = none ∧ lowPart lo n = .ok 0) ∨
    (∃ v, a = some v ∧ InRange v ∧ lowPart lo n = .ok v) ∨
    (∃ v, a = some v ∧ ¬ InRange v ∧ ∃ e, lowPart lo n = .exc e) := by
  cases h with
  | omitted => left; simp [lowPart]
  | given hi =>
    rename_i v
    have hne := isInt_ne_nil hi
    have : lo.isEmpty = false := by cases lo <;> simp_all
    simp only [lowPart, this, Bool.false_eq_true, if_false]
    rcases atoi_of_isInt hi (n + 1) with ⟨r1, r2, he⟩ | ⟨hnr, e, he⟩
    · right; left; exact ⟨v, rfl, ⟨r1, r2⟩, he⟩
    · right; right; exact ⟨v, rfl, hnr, e, he⟩

theorem highPart_cases {hi : Bytes} {b : Option Int} (h : IsOptInt hi b) (incl : Bool) (n : Int) :
    (b = none ∧ highPart hi incl n = .ok n) ∨
    (∃ v, b = some v ∧ InRange v ∧
      highPart hi incl n = .ok (if incl then (if v = -1 then n else wrap64 (v + 1)) else v)) ∨
    (∃ v, b = some v ∧ ¬ InRange v ∧ ∃ e, highPart hi incl n = .exc e) := by
  cases h with
  | omitted => left; simp [highPart]
  | given hi' =>
    rename_i v
    have hne := isInt_ne_nil hi'
    have : hi.isEmpty = false := by cases hi <;> simp_all
    simp only [highPart, this, Bool.false_eq_true, if_false]
    rcases atoi_of_isInt hi' (n + 1) with ⟨r1, r2, he⟩ | ⟨hnr, e, he⟩
    · right; left
      refine ⟨v, rfl, ⟨r1, r2⟩, ?_⟩
      rw [he]
      cases incl
      · simp [Res.bind]
      · by_cases hv : v = -1 <;> simp [Res.bind, hv]
    · right; right
      refine ⟨v, rfl, hnr, e, ?_⟩
      rw [he]; simp [Res.bind]

/-- the model after a successful slice parse, as a function of `(i, j)` -/
def sliceTail (i j n : Int) : Res ListIndex :=
  (adjust i n true).bind fun i' => (adjust j n true).bind fun j' =>
    if j' < i' then
      if j < 0 then
        throw (.outOfRange "negative slice upper index" (itoa (i' - n)) "-1" (strBytes (itoa j)))
      else
        throw (.outOfRange "slice upper index" (itoa i') (itoa n) (strBytes (itoa j)))
    else .ok ⟨true, i', j'⟩

theorem convert_of_parse_slice {s : Bytes} {n i j : Int} (h : parseIndexString s n = .ok (true, i, j)) :
    convertListIndex (.str s) n = sliceTail i j n := by
  simp only [convertListIndex, h, bind, Res.bind, sliceTail, pure]
  cases adjust i n true <;> simp only [Bool.not_true, Bool.false_eq_true, if_false, Res.bind]

theorem convert_of_parse_exc {s : Bytes} {n : Int} {e : String} (h : parseIndexString s n = .exc e) :
    convertListIndex (.str s) n = .exc e := by
  simp only [convertListIndex, h, bind, Res.bind]

/-- selection by resolved bounds `(i, j)` (both explicit) -/
def selIJ (n : Nat) (i j : Int) : Option Sel :=
  if 0 ≤ pos n i ∧ pos n i ≤ pos n j ∧ pos n j ≤ n then some (.range (pos n i).toNat (pos n j).toNat) else none

theorem pos_of_nonneg {n : Nat} {i : Int} (h : ¬ i < 0) : pos n i = i := if_pos (by omega)
theorem pos_of_neg {n : Nat} {i : Int} (h : i < 0) : pos n i = n + i := if_neg (by omega)

theorem selIJ_none {n : Nat} {i j : Int} (h : ¬ (0 ≤ pos n i ∧ pos n i ≤ pos n j ∧ pos n j ≤ n)) :
    selIJ n i j = none := if_neg h
theorem selIJ_some {n : Nat} {i j : Int} (h : 0 ≤ pos n i ∧ pos n i ≤ pos n j ∧ pos n j ≤ n) :
    selIJ n i j = some (.range (pos n i).toNat (pos n j).toNat) := if_pos h

theorem agrees_exc {r : Res ListIndex} {sel : Option Sel} (hr : ∃ e, r = .exc e) (hs : sel = none) :
    Agrees r sel := by
  obtain ⟨e, rfl⟩ := hr; subst hs; trivial

theorem agrees_range {r : Res ListIndex} {sel : Option Sel} {lo hi : Int}
    (hr : r = .ok ⟨true, lo, hi⟩) {l h : Nat} (hs : sel = some (.range l h)) (h1 : lo = l) (h2 : hi = h) :
    Agrees r sel := by
  subst hr hs; exact ⟨rfl, h1, h2⟩

theorem sliceTail_agrees (n : Nat) (i j : Int) : Agrees (sliceTail i j n) (selIJ n i j) := by
  by_cases hi0 : i < 0
  · have pi : pos n i = n + i := pos_of_neg hi0
    by_cases hi1 : i < -(n : Int)
    · refine agrees_exc ?_ (selIJ_none (by rw [pi]; omega))
      simp only [sliceTail, adjust_eq, throw, hi0, hi1, if_true, Res.bind]
      exact ⟨_, rfl⟩
    · by_cases hj0 : j < 0
      · have pj : pos n j = n + j := pos_of_neg hj0
        by_cases hj1 : j < -(n : Int)
        · refine agrees_exc ?_ (selIJ_none (by rw [pi, pj]; omega))
          simp only [sliceTail, adjust_eq, throw, hi0, hi1, hj0, hj1, if_true, if_false, Res.bind]
          exact ⟨_, rfl⟩
        · by_cases hlt : j + n < i + n
          · refine agrees_exc ?_ (selIJ_none (by rw [pi, pj]; omega))
            simp only [sliceTail, adjust_eq, throw, hi0, hi1, hj0, hj1, hlt, if_true, if_false, Res.bind]
            exact ⟨_, rfl⟩
          · refine agrees_range (lo := i + n) (hi := j + n) ?_ (selIJ_some (by rw [pi, pj]; omega)) (by rw [pi]; omega) (by rw [pj]; omega)
            simp only [sliceTail, adjust_eq, throw, hi0, hi1, hj0, hj1, hlt, if_true, if_false, Res.bind]
      · have pj : pos n j = j := pos_of_nonneg hj0
        by_cases hj1 : j > (n : Int)
        · refine agrees_exc ?_ (selIJ_none (by rw [pi, pj]; omega))
          simp only [sliceTail, adjust_eq, throw, hi0, hi1, hj0, hj1, if_true, if_false, Res.bind]
          exact ⟨_, rfl⟩
        · by_cases hlt : j < i + n
          · refine agrees_exc ?_ (selIJ_none (by rw [pi, pj]; omega))
            simp only [sliceTail, adjust_eq, throw, hi0, hi1, hj0, hj1, hlt, if_true, if_false, Res.bind]
            exact ⟨_, rfl⟩
          · refine agrees_range (lo := i + n) (hi := j) ?_ (selIJ_some (by rw [pi, pj]; omega)) (by rw [pi]; omega) (by rw [pj]; omega)
            simp only [sliceTail, adjust_eq, throw, hi0, hi1, hj0, hj1, hlt, if_true, if_false, Res.bind]
  · have pi : pos n i = i := pos_of_nonneg hi0
    by_cases hi1 : i > (n : Int)
    · refine agrees_exc ?_ (selIJ_none (by rw [pi]; omega))
      simp only [sliceTail, adjust_eq, throw, hi0, hi1, if_true, if_false, Res.bind]
      exact ⟨_, rfl⟩
    · by_cases hj0 : j < 0
      · have pj : pos n j = n + j := pos_of_neg hj0
        by_cases hj1 : j < -(n : Int)
        · refine agrees_exc ?_ (selIJ_none (by rw [pi, pj]; omega))
          simp only [sliceTail, adjust_eq, throw, hi0, hi1, hj0, hj1, if_true, if_false, Res.bind]
          exact ⟨_, rfl⟩
        · by_cases hlt : j + n < i
          · refine agrees_exc ?_ (selIJ_none (by rw [pi, pj]; omega))
            simp only [sliceTail, adjust_eq, throw, hi0, hi1, hj0, hj1, hlt, if_true, if_false, Res.bind]
            exact ⟨_, rfl⟩
          · refine agrees_range (lo := i) (hi := j + n) ?_ (selIJ_some (by rw [pi, pj]; omega)) (by rw [pi]; omega) (by rw [pj]; omega)
            simp only [sliceTail, adjust_eq, throw, hi0, hi1, hj0, hj1, hlt, if_true, if_false, Res.bind]
      · have pj : pos n j = j := pos_of_nonneg hj0
        by_cases hj1 : j > (n : Int)
        · refine agrees_exc ?_ (selIJ_none (by rw [pi, pj]; omega))
          simp only [sliceTail, adjust_eq, throw, hi0, hi1, hj0, hj1, if_true, if_false, Res.bind]
          exact ⟨_, rfl⟩
        · by_cases hlt : j < i
          · refine agrees_exc ?_ (selIJ_none (by rw [pi, pj]; omega))
            simp only [sliceTail, adjust_eq, throw, hi0, hi1, hj0, hj1, hlt, if_true, if_false, Res.bind]
            exact ⟨_, rfl⟩
          · refine agrees_range (lo := i) (hi := j) ?_ (selIJ_some (by rw [pi, pj]; omega)) (by rw [pi]; omega) (by rw [pj]; omega)
            simp only [sliceTail, adjust_eq, throw, hi0, hi1, hj0, hj1, hlt, if_true, if_false, Res.bind]

end C13

namespace C13
open Go Ref

theorem pos_zero (n : Nat) : pos n 0 = 0 := by simp [pos]
theorem pos_len (n : Nat) : pos n (n : Int) = n := by simp [pos]

/-- the model's `j` for an inclusive upper bound `v` denotes position `pos v + 1`
(except at MaxInt64, where both sides are out of range — handled separately) -/
theorem pos_incl (n : Nat) (v : Int) (hv : InRange v) (hmax : v ≠ maxInt64) :
    pos n (if v = -1 then (n : Int) else wrap64 (v + 1)) = pos n v + 1 := by
  obtain ⟨h1, h2⟩ := hv
  by_cases hm : v = -1
  · subst hm; simp only [pos, if_true]; split <;> omega
  · have hw : wrap64 (v + 1) = v + 1 := by
      apply wrap64_id <;> simp only [minInt64, maxInt64] at * <;> omega
    simp only [hm, if_false, hw, pos]
    split <;> split <;> omega

theorem select_slice_eq (n : Nat) (hn : (n : Int) < 4611686018427387904) (a b : Option Int) (incl : Bool)
    (ha : ∀ v, a = some v → InRange v) (hb : ∀ v, b = some v → InRange v) :
    select n (.slice a b incl) =
      selIJ n (match (generalizing := false) a with | none => 0 | some v => v)
        (match (generalizing := false) b with
          | none => (n : Int)
          | some v => if incl then (if v = -1 then (n : Int) else wrap64 (v + 1)) else v) := by
  have key : ∀ (lo v : Int), InRange v →
      (if 0 ≤ lo ∧ lo ≤ pos n v + 1 ∧ pos n v + 1 ≤ (n : Int) then
          some (Sel.range lo.toNat (pos n v + 1).toNat) else none) =
      (if 0 ≤ lo ∧ lo ≤ pos n (if v = -1 then (n : Int) else wrap64 (v + 1)) ∧
            pos n (if v = -1 then (n : Int) else wrap64 (v + 1)) ≤ (n : Int) then
          some (Sel.range lo.toNat (pos n (if v = -1 then (n : Int) else wrap64 (v + 1))).toNat) else none) := by
    intro lo v hv
    by_cases hmax : v = maxInt64
    · subst hmax
      have hm : ¬ (maxInt64 = -1) := by simp [maxInt64]
      simp only [hm, if_false, wrap64_max]
      have p1 : pos n maxInt64 + 1 = 9223372036854775808 := by simp [pos, maxInt64]
      have p2 : pos n minInt64 = (n : Int) - 9223372036854775808 := by
        have : minInt64 < 0 := by simp [minInt64]
        rw [pos_of_neg this]; simp only [minInt64]; omega
      have c1 : ¬ (0 ≤ lo ∧ lo ≤ pos n maxInt64 + 1 ∧ pos n maxInt64 + 1 ≤ (n : Int)) := by
        rw [p1]; omega
      have c2 : ¬ (0 ≤ lo ∧ lo ≤ pos n minInt64 ∧ pos n minInt64 ≤ (n : Int)) := by
        rw [p2]; omega
      rw [if_neg c1, if_neg c2]
    · rw [pos_incl n v hv hmax]
  cases a <;> cases b <;> cases incl <;>
    simp only [select, selIJ, pos_zero, pos_len, if_true, if_false, Bool.false_eq_true]
  · exact key _ _ (hb _ rfl)
  · exact key _ _ (hb _ rfl)

theorem select_none_of_low (n : Nat) (hn : (n : Int) < 4611686018427387904) (v : Int) (hv : ¬ InRange v)
    (b : Option Int) (incl : Bool) : select n (.slice (some v) b incl) = none := by
  simp only [select]
  apply if_neg
  simp only [InRange, minInt64, maxInt64] at hv
  have : pos n v < 0 ∨ pos n v > n := by simp only [pos]; split <;> omega
  intro ⟨h1, h2, h3⟩
  omega

theorem select_none_of_high (n : Nat) (hn : (n : Int) < 4611686018427387904) (v : Int) (hv : ¬ InRange v)
    (a : Option Int) (incl : Bool) : select n (.slice a (some v) incl) = none := by
  simp only [select]
  apply if_neg
  simp only [InRange, minInt64, maxInt64] at hv
  have : pos n v + 1 < 0 ∨ pos n v > n := by simp only [pos]; split <;> omega
  intro ⟨h1, h2, h3⟩
  cases incl <;> simp at h2 h3 <;> omega

theorem convert_slice (incl : Bool) {lo hi : Bytes} {a b : Option Int}
    (hlo : IsOptInt lo a) (hhi : IsOptInt hi b) (n : Nat) (hn : (n : Int) < 4611686018427387904) :
    Agrees (convertListIndex (.str (lo ++ sepBytes incl ++ hi)) n) (select n (.slice a b incl)) := by
  have hp := parse_slice incl hlo hhi n
  rcases lowPart_cases hlo n with ⟨ha, hl⟩ | ⟨v, ha, hv, hl⟩ | ⟨v, ha, hv, e, hl⟩
  · rcases highPart_cases hhi incl n with ⟨hb, hh⟩ | ⟨w, hb, hw, hh⟩ | ⟨w, hb, hw, e, hh⟩
    · rw [hl, hh] at hp; simp only [Res.bind] at hp
      rw [convert_of_parse_slice hp, select_slice_eq n hn a b incl (by simp [ha]) (by simp [hb])]
      subst ha hb; exact sliceTail_agrees n _ _
    · rw [hl, hh] at hp; simp only [Res.bind] at hp
      rw [convert_of_parse_slice hp, select_slice_eq n hn a b incl (by simp [ha])
        (by intro x hx; rw [hb] at hx; cases hx; exact hw)]
      subst ha hb; exact sliceTail_agrees n _ _
    · rw [hl, hh] at hp; simp only [Res.bind] at hp
      rw [convert_of_parse_exc hp]; subst hb
      rw [select_none_of_high n hn w hw]; trivial
  · rcases highPart_cases hhi incl n with ⟨hb, hh⟩ | ⟨w, hb, hw, hh⟩ | ⟨w, hb, hw, e, hh⟩
    · rw [hl, hh] at hp; simp only [Res.bind] at hp
      rw [convert_of_parse_slice hp, select_slice_eq n hn a b incl
        (by intro x hx; rw [ha] at hx; cases hx; exact hv) (by simp [hb])]
      subst ha hb; exact sliceTail_agrees n _ _
    · rw [hl, hh] at hp; simp only [Res.bind] at hp
      rw [convert_of_parse_slice hp, select_slice_eq n hn a b incl
        (by intro x hx; rw [ha] at hx; cases hx; exact hv)
        (by intro x hx; rw [hb] at hx; cases hx; exact hw)]
      subst ha hb; exact sliceTail_agrees n _ _
    · rw [hl, hh] at hp; simp only [Res.bind] at hp
      rw [convert_of_parse_exc hp]; subst hb
      rw [select_none_of_high n hn w hw]; trivial
  · rw [hl] at hp; simp only [Res.bind] at hp
    rw [convert_of_parse_exc hp]; subst ha
    rw [select_none_of_low n hn v hv]; trivial

/-! ### soundness: what the model accepts is an index of the grammar -/

theorem parses_of_convert_ok {s : Bytes} {n : Int} {ix : ListIndex}
    (h : convertListIndex (.str s) n = .ok ix) : ∃ idx, Parses s idx := by
  simp only [convertListIndex, bind] at h
  obtain ⟨r, hp, -⟩ := bind_ok h
  obtain ⟨low, sep, high, hs, hshape⟩ := split_sound s
  rw [parse_of_split hs] at hp
  cases sep with
  | none =>
    simp only [if_true] at hp
    obtain ⟨v, hv, -⟩ := bind_ok hp
    exact ⟨_, Parses.elem (isInt_of_atoi hv)⟩
  | dd =>
    have h1 : ¬ (Sep.dd = Sep.none) := by decide
    simp only [h1, if_false] at hp hshape
    obtain ⟨i, hi, hp2⟩ := bind_ok hp
    obtain ⟨j, hj, -⟩ := bind_ok hp2
    obtain ⟨a, ha⟩ := lowPart_ok hi
    obtain ⟨b, hb⟩ := highPart_ok hj
    exact ⟨_, hshape ▸ Parses.excl ha hb⟩
  | dde =>
    have h1 : ¬ (Sep.dde = Sep.none) := by decide
    simp only [h1, if_false] at hp hshape
    obtain ⟨i, hi, hp2⟩ := bind_ok hp
    obtain ⟨j, hj, -⟩ := bind_ok hp2
    obtain ⟨a, ha⟩ := lowPart_ok hi
    obtain ⟨b, hb⟩ := highPart_ok hj
    exact ⟨_, hshape ▸ Parses.incl ha hb⟩

theorem adjust_no_panic (i n : Int) (b : Bool) : ∀ w, adjust i n b ≠ .panic w := by
  intro w
  rw [adjust_eq]
  simp only [throw]
  split <;> (try split) <;> (try split) <;> simp

/-- `ConvertListIndex` never panics (for any raw value and any `n`). -/
theorem convert_no_panic (raw : Raw) (n : Int) : ∀ w, convertListIndex raw n ≠ .panic w := by
  cases raw with
  | int i =>
    simp only [convertListIndex, bind, pure]
    apply bind_no_panic (adjust_no_panic _ _ _); intro a w; simp
  | other => intro w; simp [convertListIndex, throw]
  | str s =>
    simp only [convertListIndex, bind, pure]
    apply bind_no_panic (parse_no_panic _ _)
    intro ⟨sl, i, j⟩
    cases sl
    · simp only [Bool.not_false, if_true]
      apply bind_no_panic (adjust_no_panic _ _ _); intro a w; simp
    · simp only [Bool.not_true, Bool.false_eq_true, if_false]
      apply bind_no_panic (adjust_no_panic _ _ _); intro a
      apply bind_no_panic (adjust_no_panic _ _ _); intro b w
      simp only [throw]
      split <;> (try split) <;> simp

end C13
