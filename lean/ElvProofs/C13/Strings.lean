/-
C13 helper lemmas: string indexing (index_string.go, assocString) over valid
UTF-8 (`encodeRunes cs`, `cs` scalar values) and panic-freedom over any bytes.
-/
import ElvModel.C13.Model
import ElvProofs.C13.Convert
import ElvProofs.C13.Lists
import ElvProofs.C13.Utf8
import ElvProofs.C13.Utf8Last
namespace C13
open Go Ref

/-! ### boundaries of an encoded string -/

theorem enc_cons (c : Nat) (cs : List Rune) : encodeRunes (c :: cs) = encodeRune c ++ encodeRunes cs := by
  simp [encodeRunes]

theorem enc_split (cs : List Rune) (k : Nat) :
    encodeRunes cs = encodeRunes (cs.take k) ++ encodeRunes (cs.drop k) := by
  unfold encodeRunes
  rw [← List.flatMap_append, List.take_append_drop]

theorem enc_drop (cs : List Rune) (k : Nat) :
    (encodeRunes cs).drop (encodeRunes (cs.take k)).length = encodeRunes (cs.drop k) := by
  conv => lhs; rw [enc_split cs k]
  simp

theorem enc_take (cs : List Rune) (k : Nat) :
    (encodeRunes cs).take (encodeRunes (cs.take k)).length = encodeRunes (cs.take k) := by
  conv => lhs; rw [enc_split cs k]
  simp

theorem validRunes_tail {c : Rune} {cs : List Rune} (h : ValidRunes (c :: cs)) : ValidRunes cs :=
  fun x hx => h x (by simp [hx])

theorem validRunes_drop {cs : List Rune} (h : ValidRunes cs) (k : Nat) : ValidRunes (cs.drop k) :=
  fun x hx => h x (List.mem_of_mem_drop hx)

theorem boundary_zero (cs : List Rune) : Boundary cs 0 := ⟨0, by simp, by simp [encodeRunes]⟩

theorem boundary_len (cs : List Rune) : Boundary cs (encodeRunes cs).length :=
  ⟨cs.length, Nat.le_refl _, by simp⟩

theorem boundary_cons {c : Rune} {cs : List Rune} {i : Nat} (h : Boundary cs i) :
    Boundary (c :: cs) ((encodeRune c).length + i) := by
  obtain ⟨k, hk, rfl⟩ := h
  exact ⟨k + 1, by simp; omega, by simp [enc_cons]⟩

/-- In valid UTF-8 every offset that is not a boundary holds a continuation byte. -/
theorem nonboundary_cont (cs : List Rune) (hv : ValidRunes cs) (i : Nat)
    (hi : i < (encodeRunes cs).length) (hnb : ¬ Boundary cs i) :
    ∃ b, (encodeRunes cs)[i]? = some b ∧ isCont b.toNat = true := by
  induction cs generalizing i with
  | nil => simp [encodeRunes] at hi
  | cons c cs ih =>
    have hc : validRune c = true := hv c (by simp)
    obtain ⟨b0, tl, he, -, htl, -⟩ := encode_shape c hc
    rw [enc_cons] at hi ⊢
    by_cases hlt : i < (encodeRune c).length
    · -- inside the first code point, and not at its start
      have hi0 : i ≠ 0 := by
        intro h; subst h; exact hnb (boundary_zero _)
      rw [List.getElem?_append_left hlt, he]
      obtain ⟨j, rfl⟩ : ∃ j, i = j + 1 := ⟨i - 1, by omega⟩
      rw [he] at hlt
      simp only [List.length_cons, Nat.add_lt_add_iff_right] at hlt
      simp only [List.getElem?_cons_succ]
      refine ⟨tl[j], List.getElem?_eq_getElem hlt, htl _ (List.getElem_mem hlt)⟩
    · have hge : (encodeRune c).length ≤ i := by omega
      rw [List.getElem?_append_right hge]
      apply ih (validRunes_tail hv)
      · simp only [List.length_append] at hi; omega
      · intro hb
        apply hnb
        have := boundary_cons (c := c) hb
        have e : (encodeRune c).length + (i - (encodeRune c).length) = i := by omega
        rwa [e] at this

/-- a boundary strictly inside the string is the start of a code point -/
theorem boundary_starts {cs : List Rune} (hv : ValidRunes cs) {i : Nat} (hb : Boundary cs i)
    (hi : i < (encodeRunes cs).length) : ∃ k, StartsAt cs i k := by
  obtain ⟨k, hk, rfl⟩ := hb
  refine ⟨k, ⟨?_, rfl⟩⟩
  by_cases h : k < cs.length
  · exact h
  · have : k = cs.length := by omega
    subst this
    simp at hi

/-- what the string looks like from the start of code point `k` -/
theorem drop_at_start {cs : List Rune} {i k : Nat} (h : StartsAt cs i k) :
    (encodeRunes cs).drop i = encodeRune cs[k]! ++ encodeRunes (cs.drop (k + 1)) ∧ cs[k]? = some cs[k]! := by
  obtain ⟨hk, rfl⟩ := h
  rw [enc_drop, List.drop_eq_getElem_cons hk, enc_cons]
  simp [hk]

/-! ### the boundary tests of index_string.go -/

theorem isDecodeError_encode (c : Nat) (hc : validRune c = true) :
    isDecodeError (c, (encodeRune c).length) = false := by
  have := encode_not_error c hc
  simp only [isDecodeError]
  by_cases h1 : c = RuneError
  · have : (encodeRune c).length ≠ 1 := fun h => this ⟨h1, h⟩
    simp [this]
  · simp [h1]

theorem starts_ok {cs : List Rune} (hv : ValidRunes cs) {i : Nat} (hb : Boundary cs i) :
    startsWithRuneBoundary ((encodeRunes cs).drop i) = true := by
  obtain ⟨k, hk, rfl⟩ := hb
  rw [enc_drop]
  unfold startsWithRuneBoundary
  cases hd : cs.drop k with
  | nil => simp [encodeRunes]
  | cons c rest =>
    have hc : validRune c = true := validRunes_drop hv k c (by simp [hd])
    rw [enc_cons]
    have hne : (encodeRune c ++ encodeRunes rest).isEmpty = false := by
      have := encode_length_pos c hc
      cases h : encodeRune c with
      | nil => simp [h] at this
      | cons _ _ => simp
    simp only [hne, Bool.false_eq_true, if_false]
    rw [decode_encode c hc, isDecodeError_encode c hc]
    rfl

theorem starts_bad {cs : List Rune} (hv : ValidRunes cs) {i : Nat}
    (hi : i < (encodeRunes cs).length) (hnb : ¬ Boundary cs i) :
    ∃ b t, (encodeRunes cs).drop i = b :: t ∧ decodeRune (b :: t) = (RuneError, 1) := by
  obtain ⟨b, hb, hcont⟩ := nonboundary_cont cs hv i hi hnb
  refine ⟨b, (encodeRunes cs).drop (i + 1), ?_, decode_cont _ _ hcont⟩
  rw [List.drop_eq_getElem_cons hi]
  congr 1
  have := List.getElem?_eq_getElem hi
  rw [this] at hb
  exact Option.some.inj hb

theorem ends_ok {cs : List Rune} (hv : ValidRunes cs) {i : Nat} (hb : Boundary cs i) :
    endsWithRuneBoundary ((encodeRunes cs).take i) = true := by
  obtain ⟨k, hk, rfl⟩ := hb
  rw [enc_take]
  unfold endsWithRuneBoundary
  cases hrev : (cs.take k).reverse with
  | nil =>
    have : cs.take k = [] := by simpa using hrev
    simp [this, encodeRunes]
  | cons c rest =>
    have hsplit : cs.take k = rest.reverse ++ [c] := by
      have := congrArg List.reverse hrev
      simpa using this
    have hc : validRune c = true := by
      apply hv c
      apply List.mem_of_mem_take (i := k)
      rw [hsplit]; simp
    have henc : encodeRunes (cs.take k) = encodeRunes rest.reverse ++ encodeRune c := by
      rw [hsplit]; simp [encodeRunes]
    rw [henc]
    have hne : (encodeRunes rest.reverse ++ encodeRune c).isEmpty = false := by
      have := encode_length_pos c hc
      cases h : encodeRune c with
      | nil => simp [h] at this
      | cons _ _ => simp
    simp only [hne, Bool.false_eq_true, if_false]
    rw [decodeLast_encode c hc, isDecodeError_encode c hc]
    rfl

/-- If `DecodeLastRuneInString` accepts a prefix of valid UTF-8, the prefix ends at a boundary. -/
theorem ends_bad {cs : List Rune} (hv : ValidRunes cs) {i : Nat}
    (hi : i ≤ (encodeRunes cs).length) (hnb : ¬ Boundary cs i) :
    endsWithRuneBoundary ((encodeRunes cs).take i) = false := by
  have hi0 : i ≠ 0 := by intro h; subst h; exact hnb (boundary_zero _)
  have hlen : ((encodeRunes cs).take i).length = i := by simp [List.length_take]; omega
  have hne : (encodeRunes cs).take i ≠ [] := by
    intro h; rw [h] at hlen; simp at hlen; omega
  unfold endsWithRuneBoundary
  have hemp : ((encodeRunes cs).take i).isEmpty = false := by
    cases h : (encodeRunes cs).take i with
    | nil => exact absurd h hne
    | cons _ _ => rfl
  simp only [hemp, Bool.false_eq_true, if_false]
  rcases decodeLast_cases _ hne with herr | ⟨start, hstart_lt, hsum, hdec⟩
  · rw [herr]; rfl
  · -- the accepted suffix starts at `start`; show that forces `i` to be a boundary
    generalize hd : decodeLastRune ((encodeRunes cs).take i) = d at hsum hdec ⊢
    by_cases hderr : isDecodeError d = true
    · simp [hderr]
    · exfalso
      rw [hlen] at hsum hstart_lt
      -- the byte at `start` is not a continuation byte (else the decode is an error)
      have hstartlen : start < (encodeRunes cs).length := by omega
      have hbs : Boundary cs start := by
        apply Classical.byContradiction
        intro hnbs
        obtain ⟨b, t, hdr, herr⟩ := starts_bad hv hstartlen hnbs
        have : List.drop start ((encodeRunes cs).take i) = b :: (t.take (i - start - 1)) := by
          rw [List.drop_take, hdr]
          obtain ⟨m, hm⟩ : ∃ m, i - start = m + 1 := ⟨i - start - 1, by omega⟩
          rw [hm]; simp
        rw [this] at hdec
        have hb : decodeRune (b :: List.take (i - start - 1) t) = (RuneError, 1) := by
          have hcont : isCont b.toNat = true := by
            obtain ⟨b', hb', hc'⟩ := nonboundary_cont cs hv start hstartlen hnbs
            have h1 : (encodeRunes cs)[start]? = some b := by
              rw [List.getElem?_eq_getElem hstartlen]
              have := List.drop_eq_getElem_cons hstartlen
              rw [this] at hdr
              exact congrArg some (List.cons.inj hdr).1
            rw [h1] at hb'; cases hb'; exact hc'
          exact decode_cont _ _ hcont
        rw [hb] at hdec
        rw [← hdec] at hderr
        simp [isDecodeError] at hderr
      obtain ⟨k, hk⟩ := boundary_starts hv hbs hstartlen
      obtain ⟨hdrop, hget⟩ := drop_at_start hk
      have hc : validRune cs[k]! = true := by
        apply hv
        have := hk.1
        simp [this]
      -- the suffix is a prefix of `encodeRune c ++ rest` of length `i - start`
      have hsuf : List.drop start ((encodeRunes cs).take i) =
          (encodeRune cs[k]! ++ encodeRunes (cs.drop (k + 1))).take (i - start) := by
        rw [List.drop_take, hdrop]
      rw [hsuf] at hdec
      by_cases hshort : i - start < (encodeRune cs[k]!).length
      · -- truncated encoding: error
        have : (encodeRune cs[k]! ++ encodeRunes (cs.drop (k + 1))).take (i - start) =
            (encodeRune cs[k]!).take (i - start) := by
          rw [List.take_append_of_le_length (by omega)]
        rw [this, decode_truncated _ hc _ (by omega) hshort] at hdec
        rw [← hdec] at hderr
        simp [isDecodeError] at hderr
      · -- the whole encoding is inside: width is its length, so `i` is the next boundary
        have hge : (encodeRune cs[k]!).length ≤ i - start := by omega
        have : (encodeRune cs[k]! ++ encodeRunes (cs.drop (k + 1))).take (i - start) =
            encodeRune cs[k]! ++ (encodeRunes (cs.drop (k + 1))).take (i - start - (encodeRune cs[k]!).length) := by
          rw [List.take_append]
          congr 1
          exact List.take_of_length_le hge
        rw [this, decode_encode _ hc] at hdec
        have hsz : d.2 = (encodeRune cs[k]!).length := by rw [← hdec]
        apply hnb
        refine ⟨k + 1, hk.1, ?_⟩
        have htk : cs.take (k + 1) = cs.take k ++ [cs[k]!] := by
          rw [List.take_succ]
          simp [hk.1]
        rw [htk]
        have : encodeRunes (cs.take k ++ [cs[k]!]) = encodeRunes (cs.take k) ++ encodeRune cs[k]! := by
          simp [encodeRunes]
        rw [this, List.length_append, ← hk.2]
        omega

end C13
