/-
C13 helper lemmas: `strings.Index` model, `splitIndexString`, Go slices.
-/
import ElvModel.C13.Model
import ElvProofs.C13.Atoi
namespace C13
open Go Ref

/-! ### Go slices with natural-number bounds -/

theorem slice_nat {α} (s : List α) (i j : Nat) (hij : i ≤ j) (hj : j ≤ s.length) :
    slice s (i : Int) (j : Int) = .ok ((s.drop i).take (j - i)) := by
  unfold slice
  have : (0 : Int) ≤ i ∧ (i : Int) ≤ j ∧ (j : Int) ≤ s.length := by omega
  simp [this]

theorem slice_zero_nat {α} (s : List α) (j : Nat) (hj : j ≤ s.length) :
    slice s 0 (j : Int) = .ok (s.take j) := by
  have := slice_nat s 0 j (Nat.zero_le _) hj
  simpa using this

theorem slice_to_end {α} (s : List α) (i : Nat) (hi : i ≤ s.length) :
    slice s (i : Int) (s.length : Int) = .ok (s.drop i) := by
  rw [slice_nat s i s.length hi (Nat.le_refl _)]
  congr 1
  apply List.take_of_length_le
  simp

/-! ### strings.Index -/

def NoDot (s : Bytes) : Prop := ∀ c ∈ s, c ≠ 46

theorem indexOf_some {pat s : Bytes} {i : Nat} (h : indexOf pat s = some i) :
    i + pat.length ≤ s.length ∧ s = s.take i ++ pat ++ s.drop (i + pat.length) := by
  induction s generalizing i with
  | nil =>
    simp only [indexOf] at h
    split at h
    · cases h
      rename_i hp
      have : pat = [] := by simpa using hp
      subst this; simp
    · cases h
  | cons c t ih =>
    simp only [indexOf] at h
    split at h
    · cases h
      rename_i hp
      rw [List.isPrefixOf_iff_prefix] at hp
      obtain ⟨r, hr⟩ := hp
      rw [← hr]
      simp
    · split at h
      · rename_i j hj
        cases h
        obtain ⟨h1, h2⟩ := ih hj
        refine ⟨by simp; omega, ?_⟩
        have : j + 1 + pat.length = (j + pat.length) + 1 := by omega
        rw [this]
        simp only [List.take_succ_cons, List.drop_succ_cons, List.cons_append, List.cons.injEq, true_and]
        exact h2
      · cases h

theorem indexOf_dot_pat_noDot (pat s : Bytes) (hs : NoDot s) :
    indexOf (46 :: pat) s = none := by
  induction s with
  | nil => simp [indexOf]
  | cons c t ih =>
    have hc : c ≠ 46 := hs c (by simp)
    have ht : NoDot t := fun x hx => hs x (by simp [hx])
    have hc' : (46 : UInt8) ≠ c := fun h => hc h.symm
    simp [indexOf, hc', ih ht]

theorem indexOf_dde_at (lo hi : Bytes) (hlo : NoDot lo) :
    indexOf dotdoteq (lo ++ 46 :: 46 :: 61 :: hi) = some lo.length := by
  induction lo with
  | nil => simp [indexOf, dotdoteq]
  | cons c t ih =>
    have hc : c ≠ 46 := hlo c (by simp)
    have ht : NoDot t := fun x hx => hlo x (by simp [hx])
    have : ((46 : UInt8) == c) = false := beq_false_of_ne (fun h => hc h.symm)
    simp only [List.cons_append, indexOf, dotdoteq, List.isPrefixOf_cons_cons, this, Bool.false_and,
      Bool.false_eq_true, if_false]
    have := ih ht
    simp only [dotdoteq] at this
    rw [this]
    simp

theorem indexOf_dd_at (lo hi : Bytes) (hlo : NoDot lo) :
    indexOf dotdot (lo ++ 46 :: 46 :: hi) = some lo.length := by
  induction lo with
  | nil => simp [indexOf, dotdot]
  | cons c t ih =>
    have hc : c ≠ 46 := hlo c (by simp)
    have ht : NoDot t := fun x hx => hlo x (by simp [hx])
    have : ((46 : UInt8) == c) = false := beq_false_of_ne (fun h => hc h.symm)
    simp only [List.cons_append, indexOf, dotdot, List.isPrefixOf_cons_cons, this, Bool.false_and,
      Bool.false_eq_true, if_false]
    have := ih ht
    simp only [dotdot] at this
    rw [this]
    simp

theorem indexOf_dde_none (lo hi : Bytes) (hlo : NoDot lo) (hhi : NoDot hi) (h61 : hi.head? ≠ some 61) :
    indexOf dotdoteq (lo ++ 46 :: 46 :: hi) = none := by
  induction lo with
  | nil =>
    have h1 : indexOf dotdoteq hi = none := indexOf_dot_pat_noDot _ hi hhi
    cases hi with
    | nil => simp [indexOf, dotdoteq]
    | cons d r =>
      have hd46 : (46 : UInt8) ≠ d := fun h => hhi d (by simp) h.symm
      have hd61 : (61 : UInt8) ≠ d := by intro h; subst h; simp at h61
      have hr : NoDot r := fun x hx => hhi x (by simp [hx])
      have h2 : indexOf [46, 46, 61] r = none := indexOf_dot_pat_noDot _ r hr
      simp [indexOf, dotdoteq, hd46, hd61, h2]
  | cons c t ih =>
    have hc : c ≠ 46 := hlo c (by simp)
    have ht : NoDot t := fun x hx => hlo x (by simp [hx])
    have : ((46 : UInt8) == c) = false := beq_false_of_ne (fun h => hc h.symm)
    have := ih ht
    simp only [dotdoteq] at this
    simp_all [indexOf, dotdoteq]

/-! ### integer literals contain only sign and digit characters -/

theorem digit_ne {c : UInt8} (h : digit c = true) : c ≠ 46 ∧ c ≠ 61 := by
  simp only [digit, Bool.and_eq_true, decide_eq_true_eq] at h
  obtain ⟨h1, h2⟩ := h
  have h1 : (48 : Nat) ≤ c.toNat := by simpa [UInt8.le_iff_toNat_le] using h1
  have h2 : c.toNat ≤ 57 := by simpa [UInt8.le_iff_toNat_le] using h2
  constructor <;> (intro hh; subst hh; simp at h1 h2)

theorem digits_noDot {ds : Bytes} (h : ds.all digit = true) : NoDot ds ∧ ds.head? ≠ some 61 := by
  constructor
  · intro c hc
    have := (List.all_eq_true.mp h) c hc
    exact (digit_ne this).1
  · cases ds with
    | nil => simp
    | cons d r =>
      simp only [List.all_cons, Bool.and_eq_true] at h
      have := (digit_ne h.1).2
      simpa using this

theorem isInt_noDot {s : Bytes} {v : Int} (h : IsInt s v) : NoDot s ∧ s.head? ≠ some 61 := by
  cases h with
  | plain ds _ hd => exact digits_noDot hd
  | plus ds _ hd =>
    refine ⟨?_, by simp⟩
    intro c hc
    simp only [List.mem_cons] at hc
    rcases hc with rfl | hc
    · decide
    · exact (digits_noDot hd).1 c hc
  | minus ds _ hd =>
    refine ⟨?_, by simp⟩
    intro c hc
    simp only [List.mem_cons] at hc
    rcases hc with rfl | hc
    · decide
    · exact (digits_noDot hd).1 c hc

theorem isOptInt_noDot {s : Bytes} {a : Option Int} (h : IsOptInt s a) : NoDot s ∧ s.head? ≠ some 61 := by
  cases h with
  | omitted => exact ⟨fun _ h => by simp at h, by simp⟩
  | given h => exact isInt_noDot h

theorem isInt_ne_nil {s : Bytes} {v : Int} (h : IsInt s v) : s ≠ [] := by
  cases h <;> simp_all

/-! ### splitIndexString -/

theorem split_plain (s : Bytes) (hs : NoDot s) : splitIndexString s = .ok (s, .none, []) := by
  unfold splitIndexString
  have h1 : indexOf dotdoteq s = none := indexOf_dot_pat_noDot _ s hs
  have h2 : indexOf dotdot s = none := indexOf_dot_pat_noDot _ s hs
  simp only [h1, h2]
  rfl

theorem split_dde (lo hi : Bytes) (hlo : NoDot lo) :
    splitIndexString (lo ++ [46, 46, 61] ++ hi) = .ok (lo, .dde, hi) := by
  unfold splitIndexString
  have e : lo ++ [46, 46, 61] ++ hi = lo ++ 46 :: 46 :: 61 :: hi := by simp
  rw [e, indexOf_dde_at lo hi hlo]
  simp only
  have hlen : lo.length ≤ (lo ++ 46 :: 46 :: 61 :: hi).length := by simp
  rw [slice_zero_nat _ _ hlen]
  have e3 : ((lo.length : Int) + 3) = ((lo.length + 3 : Nat) : Int) := by simp
  rw [e3, slice_to_end _ _ (by simp)]
  simp [bind, Res.bind, pure]

theorem split_dd (lo hi : Bytes) (hlo : NoDot lo) (hhi : NoDot hi) (h61 : hi.head? ≠ some 61) :
    splitIndexString (lo ++ [46, 46] ++ hi) = .ok (lo, .dd, hi) := by
  unfold splitIndexString
  have e : lo ++ [46, 46] ++ hi = lo ++ 46 :: 46 :: hi := by simp
  rw [e, indexOf_dde_none lo hi hlo hhi h61, indexOf_dd_at lo hi hlo]
  simp only
  have hlen : lo.length ≤ (lo ++ 46 :: 46 :: hi).length := by simp
  rw [slice_zero_nat _ _ hlen]
  have e3 : ((lo.length : Int) + 2) = ((lo.length + 2 : Nat) : Int) := by simp
  rw [e3, slice_to_end _ _ (by simp)]
  simp [bind, Res.bind, pure]

/-- `splitIndexString` never panics, and what it returns re-assembles to `s`. -/
theorem split_sound (s : Bytes) :
    ∃ low sep high, splitIndexString s = .ok (low, sep, high) ∧
      (match sep with
       | .none => low = s
       | .dd => s = low ++ [46, 46] ++ high
       | .dde => s = low ++ [46, 46, 61] ++ high) := by
  unfold splitIndexString
  split
  · rename_i i hi
    obtain ⟨h1, h2⟩ := indexOf_some hi
    simp only [dotdoteq, List.length_cons, List.length_nil] at h1 h2
    have hlen : i ≤ s.length := by omega
    rw [slice_zero_nat _ _ hlen]
    have e3 : ((i : Int) + 3) = ((i + 3 : Nat) : Int) := by simp
    rw [e3, slice_to_end _ _ (by omega)]
    exact ⟨s.take i, .dde, s.drop (i + 3), by simp [bind, Res.bind, pure], by simpa using h2⟩
  · split
    · rename_i i hi
      obtain ⟨h1, h2⟩ := indexOf_some hi
      simp only [dotdot, List.length_cons, List.length_nil] at h1 h2
      have hlen : i ≤ s.length := by omega
      rw [slice_zero_nat _ _ hlen]
      have e3 : ((i : Int) + 2) = ((i + 2 : Nat) : Int) := by simp
      rw [e3, slice_to_end _ _ (by omega)]
      exact ⟨s.take i, .dd, s.drop (i + 2), by simp [bind, Res.bind, pure], by simpa using h2⟩
    · exact ⟨s, .none, [], rfl, rfl⟩

end C13
