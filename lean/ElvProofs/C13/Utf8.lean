/-
UTF-8 lemmas about the Go prelude (`Go.decodeRune`, `Go.encodeRune`,
`Go.decodeLastRune`) needed by C13.  Candidates for ElvProofs/Lemmas/Utf8.lean.
-/
import ElvModel.Go.Utf8
namespace C13
open Go

theorem ofNat_toNat (n : Nat) (h : n < 256) : (UInt8.ofNat n).toNat = n := by
  rw [UInt8.toNat_ofNat']; omega

/-! ### decoding explicit sequences -/

theorem decode1 (b0 : UInt8) (t : Bytes) (h0 : b0.toNat < 0x80) :
    decodeRune (b0 :: t) = (b0.toNat, 1) := by
  simp only [decodeRune]
  rw [if_pos (by omega)]

theorem decode_cont (b0 : UInt8) (t : Bytes) (h : isCont b0.toNat = true) :
    decodeRune (b0 :: t) = (RuneError, 1) := by
  simp only [isCont, Bool.and_eq_true, decide_eq_true_eq] at h
  simp only [decodeRune]
  rw [if_neg (by omega), if_pos (by omega)]

theorem decode2 (b0 b1 : UInt8) (t : Bytes) (h0 : 0xC2 ≤ b0.toNat) (h0' : b0.toNat < 0xE0)
    (h1 : 0x80 ≤ b1.toNat) (h1' : b1.toNat ≤ 0xBF) :
    decodeRune (b0 :: b1 :: t) = ((b0.toNat - 0xC0) * 64 + (b1.toNat - 0x80), 2) := by
  simp only [decodeRune]
  rw [if_neg (by omega), if_neg (by omega), if_pos (by omega)]
  simp [isCont, h1, h1']

theorem decode3 (b0 b1 b2 : UInt8) (t : Bytes) (h0 : 0xE0 ≤ b0.toNat) (h0' : b0.toNat < 0xF0)
    (h1 : (if b0.toNat = 0xE0 then 0xA0 else 0x80) ≤ b1.toNat)
    (h1' : b1.toNat ≤ (if b0.toNat = 0xED then 0x9F else 0xBF))
    (h2 : 0x80 ≤ b2.toNat) (h2' : b2.toNat ≤ 0xBF) :
    decodeRune (b0 :: b1 :: b2 :: t) =
      ((b0.toNat - 0xE0) * 4096 + (b1.toNat - 0x80) * 64 + (b2.toNat - 0x80), 3) := by
  simp only [decodeRune]
  rw [if_neg (by omega), if_neg (by omega), if_neg (by omega), if_pos (by omega)]
  simp [isCont, h1, h1', h2, h2']

theorem decode4 (b0 b1 b2 b3 : UInt8) (t : Bytes) (h0 : 0xF0 ≤ b0.toNat) (h0' : b0.toNat < 0xF5)
    (h1 : (if b0.toNat = 0xF0 then 0x90 else 0x80) ≤ b1.toNat)
    (h1' : b1.toNat ≤ (if b0.toNat = 0xF4 then 0x8F else 0xBF))
    (h2 : 0x80 ≤ b2.toNat) (h2' : b2.toNat ≤ 0xBF) (h3 : 0x80 ≤ b3.toNat) (h3' : b3.toNat ≤ 0xBF) :
    decodeRune (b0 :: b1 :: b2 :: b3 :: t) =
      ((b0.toNat - 0xF0) * 262144 + (b1.toNat - 0x80) * 4096 + (b2.toNat - 0x80) * 64 + (b3.toNat - 0x80), 4) := by
  simp only [decodeRune]
  rw [if_neg (by omega), if_neg (by omega), if_neg (by omega), if_neg (by omega), if_pos (by omega)]
  simp [isCont, h1, h1', h2, h2', h3, h3']

/-- a lead byte without enough bytes after it decodes as an error of width 1 -/
theorem decode_short (b0 : UInt8) (t : Bytes) (h0 : 0xC2 ≤ b0.toNat)
    (hlen : t.length + 1 < (if b0.toNat < 0xE0 then 2 else if b0.toNat < 0xF0 then 3 else 4)) :
    decodeRune (b0 :: t) = (RuneError, 1) := by
  simp only [decodeRune]
  rw [if_neg (by omega), if_neg (by omega)]
  by_cases c2 : b0.toNat < 0xE0
  · rw [if_pos c2] at hlen ⊢
    cases t with
    | nil => rfl
    | cons a r => simp only [List.length_cons] at hlen; omega
  · rw [if_neg c2] at hlen ⊢
    by_cases c3 : b0.toNat < 0xF0
    · rw [if_pos c3] at hlen ⊢
      match t, hlen with
      | [], _ => rfl
      | [_], _ => rfl
      | _ :: _ :: _, h => simp only [List.length_cons] at h; omega
    · rw [if_neg c3] at hlen ⊢
      by_cases c4 : b0.toNat < 0xF5
      · rw [if_pos c4]
        match t, hlen with
        | [], _ => rfl
        | [_], _ => rfl
        | [_, _], _ => rfl
        | _ :: _ :: _ :: _, h => simp only [List.length_cons] at h; omega
      · rw [if_neg c4]

/-- the decoded width never exceeds the input, and is positive on non-empty input -/
theorem decode_size (s : Bytes) : (decodeRune s).2 ≤ s.length ∧ (s ≠ [] → 1 ≤ (decodeRune s).2) := by
  match s with
  | [] => simp [decodeRune]
  | b0 :: rest =>
    simp only [decodeRune]
    split
    · simp
    · split
      · simp
      · split
        · match rest with
          | [] => simp
          | b1 :: _ => simp only; (repeat' split) <;> simp
        · split
          · match rest with
            | [] => simp
            | [_] => simp
            | b1 :: b2 :: _ => simp only; (repeat' split) <;> simp
          · split
            · match rest with
              | [] => simp
              | [_] => simp
              | [_, _] => simp
              | b1 :: b2 :: b3 :: _ => simp only; (repeat' split) <;> simp
            · simp

/-! ### encodeRune -/

/-- Shape of the encoding of a scalar value: a non-continuation lead byte
followed by at most three continuation bytes. -/
theorem encode_shape (c : Nat) (hv : validRune c = true) :
    ∃ b0 tl, encodeRune c = b0 :: tl ∧ isCont b0.toNat = false ∧
      (∀ b ∈ tl, isCont b.toNat = true) ∧ tl.length ≤ 3 := by
  have hvalid := hv
  simp only [validRune, Bool.or_eq_true, Bool.and_eq_true, decide_eq_true_eq] at hv
  have hv : c < 0xD800 ∨ (0xDFFF < c ∧ c ≤ 0x10FFFF) := hv
  unfold encodeRune
  by_cases h1 : c < 0x80
  · rw [if_pos h1]
    refine ⟨_, [], rfl, ?_, by simp, by simp⟩
    rw [ofNat_toNat _ (by omega)]
    simp [isCont]; omega
  · rw [if_neg h1]
    by_cases h2 : c < 0x800
    · rw [if_pos h2]
      refine ⟨_, _, rfl, ?_, ?_, by simp⟩
      · rw [ofNat_toNat _ (by omega)]; simp [isCont]; omega
      · intro b hb
        simp only [List.mem_cons, List.not_mem_nil, or_false] at hb
        subst hb
        rw [ofNat_toNat _ (by omega)]; simp [isCont]; omega
    · rw [if_neg h2]
      simp only [hvalid, Bool.not_true, Bool.false_eq_true, if_false]
      by_cases h3 : c < 0x10000
      · rw [if_pos h3]
        refine ⟨_, _, rfl, ?_, ?_, by simp⟩
        · rw [ofNat_toNat _ (by omega)]; simp [isCont]; omega
        · intro b hb
          simp only [List.mem_cons, List.not_mem_nil, or_false] at hb
          rcases hb with rfl | rfl <;> (rw [ofNat_toNat _ (by omega)]; simp [isCont]; omega)
      · rw [if_neg h3]
        refine ⟨_, _, rfl, ?_, ?_, by simp⟩
        · rw [ofNat_toNat _ (by omega)]; simp [isCont]; omega
        · intro b hb
          simp only [List.mem_cons, List.not_mem_nil, or_false] at hb
          rcases hb with rfl | rfl | rfl <;> (rw [ofNat_toNat _ (by omega)]; simp [isCont]; omega)

/-- `DecodeRuneInString(string(c) + t) = (c, len(string(c)))` for a scalar value `c`. -/
theorem decode_encode (c : Nat) (hv : validRune c = true) (t : Bytes) :
    decodeRune (encodeRune c ++ t) = (c, (encodeRune c).length) := by
  have hvalid := hv
  simp only [validRune, Bool.or_eq_true, Bool.and_eq_true, decide_eq_true_eq] at hv
  have hv : c < 0xD800 ∨ (0xDFFF < c ∧ c ≤ 0x10FFFF) := hv
  unfold encodeRune
  by_cases h1 : c < 0x80
  · simp only [if_pos h1, List.cons_append, List.nil_append, List.length_cons, List.length_nil]
    rw [decode1 _ _ (by rw [ofNat_toNat _ (by omega)]; omega), ofNat_toNat _ (by omega)]
  · rw [if_neg h1]
    by_cases h2 : c < 0x800
    · simp only [if_pos h2, List.cons_append, List.nil_append, List.length_cons, List.length_nil]
      rw [decode2 _ _ _ (by rw [ofNat_toNat _ (by omega)]; omega) (by rw [ofNat_toNat _ (by omega)]; omega)
        (by rw [ofNat_toNat _ (by omega)]; omega) (by rw [ofNat_toNat _ (by omega)]; omega)]
      rw [ofNat_toNat _ (by omega), ofNat_toNat _ (by omega)]
      have : (0xC0 + c / 64 - 0xC0) * 64 + (0x80 + c % 64 - 0x80) = c := by omega
      rw [this]
    · rw [if_neg h2]
      simp only [hvalid, Bool.not_true, Bool.false_eq_true, if_false]
      by_cases h3 : c < 0x10000
      · simp only [if_pos h3, List.cons_append, List.nil_append, List.length_cons, List.length_nil]
        have e0 : (UInt8.ofNat (0xE0 + c / 4096)).toNat = 0xE0 + c / 4096 := ofNat_toNat _ (by omega)
        have e1 : (UInt8.ofNat (0x80 + c / 64 % 64)).toNat = 0x80 + c / 64 % 64 := ofNat_toNat _ (by omega)
        have e2 : (UInt8.ofNat (0x80 + c % 64)).toNat = 0x80 + c % 64 := ofNat_toNat _ (by omega)
        rw [decode3 _ _ _ _ (by rw [e0]; omega) (by rw [e0]; omega)
          (by rw [e0, e1]; split <;> omega) (by rw [e0, e1]; split <;> omega)
          (by rw [e2]; omega) (by rw [e2]; omega)]
        rw [e0, e1, e2]
        have : (0xE0 + c / 4096 - 0xE0) * 4096 + (0x80 + c / 64 % 64 - 0x80) * 64 + (0x80 + c % 64 - 0x80) = c := by omega
        rw [this]
      · simp only [if_neg h3, List.cons_append, List.nil_append, List.length_cons, List.length_nil]
        have e0 : (UInt8.ofNat (0xF0 + c / 262144)).toNat = 0xF0 + c / 262144 := ofNat_toNat _ (by omega)
        have e1 : (UInt8.ofNat (0x80 + c / 4096 % 64)).toNat = 0x80 + c / 4096 % 64 := ofNat_toNat _ (by omega)
        have e2 : (UInt8.ofNat (0x80 + c / 64 % 64)).toNat = 0x80 + c / 64 % 64 := ofNat_toNat _ (by omega)
        have e3 : (UInt8.ofNat (0x80 + c % 64)).toNat = 0x80 + c % 64 := ofNat_toNat _ (by omega)
        rw [decode4 _ _ _ _ _ (by rw [e0]; omega) (by rw [e0]; omega)
          (by rw [e0, e1]; split <;> omega) (by rw [e0, e1]; split <;> omega)
          (by rw [e2]; omega) (by rw [e2]; omega) (by rw [e3]; omega) (by rw [e3]; omega)]
        rw [e0, e1, e2, e3]
        have : (0xF0 + c / 262144 - 0xF0) * 262144 + (0x80 + c / 4096 % 64 - 0x80) * 4096 +
            (0x80 + c / 64 % 64 - 0x80) * 64 + (0x80 + c % 64 - 0x80) = c := by omega
        rw [this]

/-- the lead byte of a multi-byte encoding announces exactly its length -/
theorem encode_lead (c : Nat) (hv : validRune c = true) :
    ∃ b0 tl, encodeRune c = b0 :: tl ∧
      (tl = [] ∨ (0xC2 ≤ b0.toNat ∧
        tl.length + 1 = (if b0.toNat < 0xE0 then 2 else if b0.toNat < 0xF0 then 3 else 4))) := by
  have hvalid := hv
  simp only [validRune, Bool.or_eq_true, Bool.and_eq_true, decide_eq_true_eq] at hv
  have hv : c < 0xD800 ∨ (0xDFFF < c ∧ c ≤ 0x10FFFF) := hv
  unfold encodeRune
  by_cases h1 : c < 0x80
  · rw [if_pos h1]; exact ⟨_, [], rfl, .inl rfl⟩
  · rw [if_neg h1]
    by_cases h2 : c < 0x800
    · rw [if_pos h2]
      refine ⟨_, _, rfl, .inr ?_⟩
      rw [ofNat_toNat _ (by omega)]
      refine ⟨by omega, ?_⟩
      rw [if_pos (by omega)]; rfl
    · rw [if_neg h2]
      simp only [hvalid, Bool.not_true, Bool.false_eq_true, if_false]
      by_cases h3 : c < 0x10000
      · rw [if_pos h3]
        refine ⟨_, _, rfl, .inr ?_⟩
        rw [ofNat_toNat _ (by omega)]
        refine ⟨by omega, ?_⟩
        rw [if_neg (by omega), if_pos (by omega)]; rfl
      · rw [if_neg h3]
        refine ⟨_, _, rfl, .inr ?_⟩
        rw [ofNat_toNat _ (by omega)]
        refine ⟨by omega, ?_⟩
        rw [if_neg (by omega), if_neg (by omega)]; rfl

/-- a proper non-empty prefix of an encoding decodes as an error of width 1 -/
theorem decode_truncated (c : Nat) (hv : validRune c = true) (k : Nat) (hk0 : 0 < k)
    (hk : k < (encodeRune c).length) : decodeRune ((encodeRune c).take k) = (RuneError, 1) := by
  obtain ⟨b0, tl, he, hshape⟩ := encode_lead c hv
  rw [he] at hk ⊢
  rcases hshape with rfl | ⟨hlead, hlen⟩
  · simp at hk; omega
  · obtain ⟨k', rfl⟩ : ∃ k', k = k' + 1 := ⟨k - 1, by omega⟩
    simp only [List.take_succ_cons]
    apply decode_short _ _ hlead
    simp only [List.length_cons] at hk
    rw [← hlen, List.length_take]
    omega

/-- an encoded scalar value is never mistaken for a decoding error -/
theorem encode_not_error (c : Nat) (hv : validRune c = true) :
    ¬ (c = RuneError ∧ (encodeRune c).length = 1) := by
  intro ⟨h1, h2⟩
  subst h1
  simp [encodeRune, RuneError, validRune] at h2

theorem encode_length_pos (c : Nat) (hv : validRune c = true) : 1 ≤ (encodeRune c).length := by
  obtain ⟨b0, tl, he, -⟩ := encode_shape c hv
  rw [he]; simp

end C13
