/-
UTF-8 lemmas about `Go.decodeLastRune` (utf8.DecodeLastRuneInString).
-/
import ElvModel.Go.Utf8
import ElvProofs.C13.Utf8
namespace C13
open Go

theorem back_le (s : Bytes) (lim fuel : Nat) (st : Int) : decodeLastRune.back s lim fuel st ≤ st := by
  induction fuel generalizing st with
  | zero => simp [decodeLastRune.back]
  | succ f ih =>
    simp only [decodeLastRune.back]
    split
    · exact Int.le_refl _
    · split
      · split
        · exact Int.le_refl _
        · have := ih (st - 1); omega
      · exact Int.le_refl _

/-- Whatever `DecodeLastRuneInString` returns on a non-empty string is either the
error `(RuneError, 1)` or the result of `DecodeRuneInString` on a non-empty suffix whose
length is exactly the returned width. -/
theorem decodeLast_cases (s : Bytes) (hne : s ≠ []) :
    decodeLastRune s = (RuneError, 1) ∨
      ∃ start, start < s.length ∧ start + (decodeLastRune s).2 = s.length ∧
        decodeRune (s.drop start) = decodeLastRune s := by
  have hlen : s.length ≠ 0 := by intro h; exact hne (List.length_eq_zero_iff.mp h)
  unfold decodeLastRune
  simp only [hlen, if_false]
  have hlt : s.length - 1 < s.length := by omega
  have hget : s[s.length - 1]? = some s[s.length - 1] := List.getElem?_eq_getElem hlt
  rw [hget]
  simp only
  by_cases hascii : s[s.length - 1].toNat < 128
  · rw [if_pos hascii]
    right
    refine ⟨s.length - 1, hlt, by simp; omega, ?_⟩
    have hd : s.drop (s.length - 1) = [s[s.length - 1]] := by
      rw [List.drop_eq_getElem_cons hlt]
      have : s.length - 1 + 1 = s.length := by omega
      rw [this, List.drop_length]
    rw [hd, decode1 _ _ hascii]
  · rw [if_neg hascii]
    have hb := back_le s (s.length - UTFMax) 4 (↑s.length - 2)
    have hst : (if decodeLastRune.back s (s.length - UTFMax) 4 (↑s.length - 2) < 0 then 0
      else (decodeLastRune.back s (s.length - UTFMax) 4 (↑s.length - 2)).toNat) < s.length := by
      split <;> omega
    revert hst
    generalize (if decodeLastRune.back s (s.length - UTFMax) 4 (↑s.length - 2) < 0 then 0
      else (decodeLastRune.back s (s.length - UTFMax) 4 (↑s.length - 2)).toNat) = start
    intro hst
    cases hd : decodeRune (List.drop start s) with
    | mk r size =>
      simp only
      by_cases hs : start + size ≠ s.length
      · rw [if_pos hs]; left; rfl
      · rw [if_neg hs]; right
        exact ⟨start, hst, by simp at hs ⊢; exact hs, hd⟩

theorem back_stop (s : Bytes) (lim fuel : Nat) (k : Nat) (b : UInt8) (hk : s[k]? = some b)
    (hb : runeStart b = true) (hlim : lim ≤ k) :
    decodeLastRune.back s lim (fuel + 1) (k : Int) = k := by
  simp only [decodeLastRune.back]
  rw [if_neg (by omega)]
  simp [hk, hb]

theorem back_step (s : Bytes) (lim fuel : Nat) (k : Nat) (b : UInt8) (hk : s[k]? = some b)
    (hb : runeStart b = false) (hlim : lim ≤ k) :
    decodeLastRune.back s lim (fuel + 1) (k : Int) = decodeLastRune.back s lim fuel ((k : Int) - 1) := by
  simp only [decodeLastRune.back]
  rw [if_neg (by omega)]
  simp [hk, hb]

/-- `DecodeLastRuneInString(p + string(c)) = (c, len(string(c)))` for a scalar value `c`. -/
theorem decodeLast_encode (c : Nat) (hv : validRune c = true) (p : Bytes) :
    decodeLastRune (p ++ encodeRune c) = (c, (encodeRune c).length) := by
  obtain ⟨b0, tl, he, hb0, htl, hlen3⟩ := encode_shape c hv
  have hdec := decode_encode c hv []
  rw [List.append_nil, he] at hdec
  rw [he]
  have hstart : runeStart b0 = true := by simp [runeStart, hb0]
  match tl, htl, hlen3, hdec, he with
  | [], _, _, hdec, he =>
    -- single byte: must be ASCII, else `decodeRune [b0]` would be an error
    have hascii : b0.toNat < 128 := by
      by_cases h : b0.toNat < 128
      · exact h
      · exfalso
        have herr : decodeRune [b0] = (RuneError, 1) := by
          by_cases h2 : b0.toNat < 0xC2
          · simp only [decodeRune]; rw [if_neg h, if_pos h2]
          · exact decode_short b0 [] (by omega) (by simp; split <;> (try split) <;> omega)
        rw [herr] at hdec
        have := encode_not_error c hv
        rw [he] at this
        apply this
        constructor
        · exact (Prod.mk.inj hdec).1.symm
        · rfl
    unfold decodeLastRune
    have hl : (p ++ [b0]).length ≠ 0 := by simp
    simp only [hl, if_false]
    have hget : (p ++ [b0])[(p ++ [b0]).length - 1]? = some b0 := by simp
    rw [hget]
    simp only [hascii, if_true]
    rw [decode1 _ _ hascii] at hdec
    exact hdec
  | [t1], htl, _, hdec, _ =>
    have c1 : isCont t1.toNat = true := htl t1 (by simp)
    have n1 : ¬ t1.toNat < 128 := by simp [isCont] at c1; omega
    unfold decodeLastRune
    have hl : (p ++ [b0, t1]).length ≠ 0 := by simp
    simp only [hl, if_false]
    have hget : (p ++ [b0, t1])[(p ++ [b0, t1]).length - 1]? = some t1 := by simp
    rw [hget]
    simp only [n1, if_false]
    have e1 : ((p ++ [b0, t1]).length : Int) - 2 = (p.length : Nat) := by simp
    rw [e1, back_stop _ _ 3 p.length b0 (by simp) hstart (by simp [UTFMax])]
    have hd : List.drop p.length (p ++ [b0, t1]) = [b0, t1] := by simp
    simp only [Int.natCast_nonneg, Int.not_lt.mpr, if_false, Int.toNat_natCast, hd, hdec]
    simp
  | [t1, t2], htl, _, hdec, _ =>
    have c2 : isCont t2.toNat = true := htl t2 (by simp)
    have c1 : isCont t1.toNat = true := htl t1 (by simp)
    have n2 : ¬ t2.toNat < 128 := by simp [isCont] at c2; omega
    have r1 : runeStart t1 = false := by simp [runeStart, c1]
    unfold decodeLastRune
    have hl : (p ++ [b0, t1, t2]).length ≠ 0 := by simp
    simp only [hl, if_false]
    have hget : (p ++ [b0, t1, t2])[(p ++ [b0, t1, t2]).length - 1]? = some t2 := by simp
    rw [hget]
    simp only [n2, if_false]
    have e1 : ((p ++ [b0, t1, t2]).length : Int) - 2 = ((p.length + 1 : Nat) : Int) := by simp; omega
    have e2 : ((p.length + 1 : Nat) : Int) - 1 = (p.length : Nat) := by simp
    rw [e1, back_step _ _ 3 (p.length + 1) t1 (by simp) r1 (by simp [UTFMax]; omega), e2,
      back_stop _ _ 2 p.length b0 (by simp) hstart (by simp [UTFMax])]
    have hd : List.drop p.length (p ++ [b0, t1, t2]) = [b0, t1, t2] := by simp
    simp only [Int.natCast_nonneg, Int.not_lt.mpr, if_false, Int.toNat_natCast, hd, hdec]
    simp
  | [t1, t2, t3], htl, _, hdec, _ =>
    have c3 : isCont t3.toNat = true := htl t3 (by simp)
    have c2 : isCont t2.toNat = true := htl t2 (by simp)
    have c1 : isCont t1.toNat = true := htl t1 (by simp)
    have n3 : ¬ t3.toNat < 128 := by simp [isCont] at c3; omega
    have r1 : runeStart t1 = false := by simp [runeStart, c1]
    have r2 : runeStart t2 = false := by simp [runeStart, c2]
    unfold decodeLastRune
    have hl : (p ++ [b0, t1, t2, t3]).length ≠ 0 := by simp
    simp only [hl, if_false]
    have hget : (p ++ [b0, t1, t2, t3])[(p ++ [b0, t1, t2, t3]).length - 1]? = some t3 := by simp
    rw [hget]
    simp only [n3, if_false]
    have e1 : ((p ++ [b0, t1, t2, t3]).length : Int) - 2 = ((p.length + 2 : Nat) : Int) := by simp; omega
    have e2 : ((p.length + 2 : Nat) : Int) - 1 = ((p.length + 1 : Nat) : Int) := by simp; omega
    have e3 : ((p.length + 1 : Nat) : Int) - 1 = (p.length : Nat) := by simp
    rw [e1, back_step _ _ 3 (p.length + 2) t2 (by simp) r2 (by simp [UTFMax]), e2,
      back_step _ _ 2 (p.length + 1) t1 (by simp) r1 (by simp [UTFMax]), e3,
      back_stop _ _ 1 p.length b0 (by simp) hstart (by simp [UTFMax])]
    have hd : List.drop p.length (p ++ [b0, t1, t2, t3]) = [b0, t1, t2, t3] := by simp
    simp only [Int.natCast_nonneg, Int.not_lt.mpr, if_false, Int.toNat_natCast, hd, hdec]
    simp
  | _ :: _ :: _ :: _ :: _, _, h, _, _ => simp at h

end C13
