/-
C13 helper lemmas: the model of `strconv.Atoi` against the reference's notion
of an integer literal (`Ref.IsInt`).
-/
import ElvModel.C13.Model
namespace C13
open Go Ref

theorem isDigit_eq_digit (c : UInt8) : isDigit c = digit c := rfl

/-- value of a digit string with an incoming accumulator -/
def valFrom (acc : Nat) (ds : Bytes) : Nat := ds.foldl (fun a c => a * 10 + (c.toNat - 48)) acc

theorem natVal_eq (ds : Bytes) : natVal ds = valFrom 0 ds := rfl

theorem valFrom_ge (ds : Bytes) (acc : Nat) : acc ≤ valFrom acc ds := by
  induction ds generalizing acc with
  | nil => simp [valFrom]
  | cons c t ih =>
    have := ih (acc * 10 + (c.toNat - 48))
    simp only [valFrom, List.foldl_cons] at this ⊢
    omega

/-- completeness of the digit loop on digit strings -/
theorem parseUintLoop_digits (ds : Bytes) (acc : Nat) (hacc : acc ≤ maxUint64) (h : ds.all digit = true) :
    parseUintLoop ds acc =
      if valFrom acc ds ≤ maxUint64 then .ok (valFrom acc ds) else .rangeErr := by
  induction ds generalizing acc with
  | nil => simp [parseUintLoop, valFrom, hacc]
  | cons c t ih =>
    simp only [List.all_cons, Bool.and_eq_true] at h
    obtain ⟨hc, ht⟩ := h
    simp only [parseUintLoop, isDigit_eq_digit, hc, if_true]
    by_cases hov : acc * 10 + (c.toNat - 48) > maxUint64
    · have hge := valFrom_ge t (acc * 10 + (c.toNat - 48))
      have : ¬ valFrom acc (c :: t) ≤ maxUint64 := by
        simp only [valFrom, List.foldl_cons] at hge ⊢
        omega
      simp [hov, this]
    · simp only [hov, if_false]
      rw [ih _ (by omega) ht]
      rfl

/-- soundness of the digit loop -/
theorem parseUintLoop_ok (ds : Bytes) (acc n : Nat) (h : parseUintLoop ds acc = .ok n) :
    ds.all digit = true ∧ n = valFrom acc ds := by
  induction ds generalizing acc with
  | nil =>
    simp only [parseUintLoop, UintRes.ok.injEq] at h
    simp [valFrom, h]
  | cons c t ih =>
    simp only [parseUintLoop] at h
    split at h
    · rename_i hc
      split at h
      · cases h
      · have := ih _ h
        rw [isDigit_eq_digit] at hc
        simp [hc, this.1, this.2, valFrom]
    · cases h

/-- a digit is neither `+` nor `-` -/
theorem digit_not_sign {c : UInt8} (h : digit c = true) : (c == 43) = false ∧ (c == 45) = false := by
  simp only [digit, Bool.and_eq_true, decide_eq_true_eq] at h
  obtain ⟨h1, h2⟩ := h
  have h1 : (48 : Nat) ≤ c.toNat := by simpa [UInt8.le_iff_toNat_le] using h1
  constructor <;> (apply beq_false_of_ne; intro hh; subst hh; simp at h1)

theorem parseUint_digits (ds : Bytes) (hne : ds ≠ []) (h : ds.all digit = true) :
    parseUint ds = if natVal ds ≤ maxUint64 then .ok (natVal ds) else .rangeErr := by
  unfold parseUint
  have : ds.isEmpty = false := by cases ds <;> simp_all
  simp only [this, Bool.false_eq_true, if_false]
  rw [parseUintLoop_digits ds 0 (by simp [maxUint64]) h, natVal_eq]

theorem signed_core (neg : Bool) (m : Nat) :
    (match (if m ≤ maxUint64 then UintRes.ok m else UintRes.rangeErr) with
      | .syntaxErr => AtoiRes.syntaxErr
      | .rangeErr => .rangeErr neg
      | .ok un =>
        if !neg && un ≥ 9223372036854775808 then .rangeErr false
        else if neg && un > 9223372036854775808 then .rangeErr true
        else .ok (if neg then -(un : Int) else un)) =
    (let v : Int := if neg then -(m : Int) else m
     if minInt64 ≤ v ∧ v ≤ maxInt64 then AtoiRes.ok v else .rangeErr (decide (v < 0))) := by
  simp only [minInt64, maxInt64, maxUint64]
  cases neg
  · by_cases h1 : m ≤ 18446744073709551615
    · simp only [h1, if_true, Bool.not_false, Bool.true_and, Bool.false_and, Bool.false_eq_true, if_false, decide_eq_true_eq]
      split <;> split <;> first | rfl | omega | (simp; omega)
    · simp only [h1, if_false, Bool.false_eq_true]
      split <;> first | rfl | omega | (simp; omega)
  · by_cases h1 : m ≤ 18446744073709551615
    · simp only [h1, if_true, Bool.not_true, Bool.true_and, Bool.false_and, Bool.false_eq_true, if_false, decide_eq_true_eq]
      split <;> split <;> first | rfl | omega | (simp; omega)
    · simp only [h1, if_false, if_true]
      split <;> first | rfl | omega | (simp; omega)

/-- `strconv.Atoi` on an integer literal: the value when it fits int64, else a
range error carrying the sign. -/
theorem strconvAtoi_of_isInt {s : Bytes} {v : Int} (h : IsInt s v) :
    strconvAtoi s =
      if minInt64 ≤ v ∧ v ≤ maxInt64 then .ok v else .rangeErr (decide (v < 0)) := by
  cases h with
  | plain ds hne hd =>
    obtain ⟨c, t, rfl⟩ := List.exists_cons_of_ne_nil hne
    have hc : digit c = true := by simp only [List.all_cons, Bool.and_eq_true] at hd; exact hd.1
    obtain ⟨h43, h45⟩ := digit_not_sign hc
    simp only [strconvAtoi, h43, h45, Bool.or_self, Bool.false_eq_true, if_false]
    rw [parseUint_digits (c :: t) hne hd]
    exact signed_core false _
  | plus ds hne hd =>
    have h43 : ((43 : UInt8) == 43) = true := rfl
    have h45 : ((43 : UInt8) == 45) = false := by decide
    simp only [strconvAtoi, h43, h45, Bool.true_or, if_true]
    rw [parseUint_digits ds hne hd]
    exact signed_core false _
  | minus ds hne hd =>
    have h43 : ((45 : UInt8) == 43) = false := by decide
    have h45 : ((45 : UInt8) == 45) = true := rfl
    simp only [strconvAtoi, h43, h45, Bool.or_true, if_true]
    rw [parseUint_digits ds hne hd]
    exact signed_core true _

theorem parseUint_ok {s : Bytes} {n : Nat} (h : parseUint s = .ok n) :
    s ≠ [] ∧ s.all digit = true ∧ n = natVal s := by
  unfold parseUint at h
  split at h
  · cases h
  · rename_i hne
    have := parseUintLoop_ok s 0 n h
    refine ⟨?_, this.1, by rw [natVal_eq]; exact this.2⟩
    intro hs; subst hs; simp at hne

/-- soundness: whatever `strconv.Atoi` accepts is an integer literal with that value. -/
theorem isInt_of_strconvAtoi {s : Bytes} {v : Int} (h : strconvAtoi s = .ok v) : IsInt s v := by
  unfold strconvAtoi at h
  split at h
  · cases h
  · rename_i c t
    simp only at h
    split at h
    · cases h
    · cases h
    · rename_i un hpu
      by_cases h43 : c = 43
      · subst h43
        have e1 : ((43 : UInt8) == 43) = true := rfl
        have e2 : ((43 : UInt8) == 45) = false := by decide
        simp only [e1, e2, Bool.true_or, if_true] at hpu h
        obtain ⟨hne, hd, rfl⟩ := parseUint_ok hpu
        simp only [Bool.not_false, Bool.true_and, Bool.false_and, Bool.false_eq_true, if_false] at h
        split at h
        · cases h
        · cases h; exact IsInt.plus t hne hd
      · by_cases h45 : c = 45
        · subst h45
          have e1 : ((45 : UInt8) == 43) = false := by decide
          have e2 : ((45 : UInt8) == 45) = true := rfl
          simp only [e1, e2, Bool.or_true, if_true] at hpu h
          obtain ⟨hne, hd, rfl⟩ := parseUint_ok hpu
          simp only [Bool.not_true, Bool.false_and, Bool.true_and, Bool.false_eq_true, if_false] at h
          split at h
          · cases h
          · cases h; exact IsInt.minus t hne hd
        · have e1 : (c == 43) = false := beq_false_of_ne h43
          have e2 : (c == 45) = false := beq_false_of_ne h45
          simp only [e1, e2, Bool.or_self, Bool.false_eq_true, if_false] at hpu h
          obtain ⟨hne, hd, rfl⟩ := parseUint_ok hpu
          simp only [Bool.not_false, Bool.true_and, Bool.false_and, Bool.false_eq_true, if_false] at h
          split at h
          · cases h
          · cases h; exact IsInt.plain (c :: t) hne hd

/-- elvish `atoi` never panics. -/
theorem atoi_no_panic (a : Bytes) (n : Int) : ∀ w, atoi a n ≠ .panic w := by
  intro w
  unfold atoi throw
  split <;> simp

/-- elvish `atoi` on an integer literal. -/
theorem atoi_of_isInt {s : Bytes} {v : Int} (h : IsInt s v) (n : Int) :
    (minInt64 ≤ v ∧ v ≤ maxInt64 ∧ atoi s n = .ok v) ∨
    (¬ (minInt64 ≤ v ∧ v ≤ maxInt64) ∧ ∃ e, atoi s n = .exc e) := by
  unfold atoi
  rw [strconvAtoi_of_isInt h]
  by_cases hr : minInt64 ≤ v ∧ v ≤ maxInt64
  · left; simp [hr]
  · right
    refine ⟨hr, ?_⟩
    simp only [hr, if_false, throw]
    by_cases hneg : v < 0 <;> simp [hneg]

theorem isInt_of_atoi {s : Bytes} {v n : Int} (h : atoi s n = .ok v) : IsInt s v := by
  unfold atoi throw at h
  split at h
  · rename_i v' hv; cases h; exact isInt_of_strconvAtoi hv
  all_goals cases h

end C13
