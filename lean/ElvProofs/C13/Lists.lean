/-
C13 helper lemmas: bounds returned by `ConvertListIndex`, list indexing and assoc.
-/
import ElvModel.C13.Model
import ElvProofs.C13.Convert
namespace C13
open Go Ref

theorem adjust_ok_bounds {i n v : Int} {b : Bool} (h : adjust i n b = .ok v) (hn : 0 ≤ n) :
    0 ≤ v ∧ (if b then v ≤ n else v < n) := by
  rw [adjust_eq] at h
  simp only [throw] at h
  cases b <;> simp only [Bool.false_eq_true, if_false, if_true] at h ⊢ <;>
    (split at h <;> split at h <;> simp at h <;> omega)

/-- The bounds `ConvertListIndex` returns are always inside `[0, n]`. -/
theorem convert_bounds {raw : Raw} {n : Int} {ix : ListIndex} (hn : 0 ≤ n)
    (h : convertListIndex raw n = .ok ix) :
    0 ≤ ix.lower ∧ (ix.slice = true → ix.lower ≤ ix.upper ∧ ix.upper ≤ n) ∧
      (ix.slice = false → ix.lower < n) := by
  cases raw with
  | other => simp [convertListIndex, throw] at h
  | int i =>
    simp only [convertListIndex, bind, pure] at h
    obtain ⟨v, hv, he⟩ := bind_ok h
    cases he
    have := adjust_ok_bounds hv hn
    simp at this ⊢; omega
  | str s =>
    simp only [convertListIndex, bind, pure] at h
    obtain ⟨⟨sl, i, j⟩, -, h2⟩ := bind_ok h
    cases sl
    · simp only [Bool.not_false, if_true] at h2
      obtain ⟨v, hv, he⟩ := bind_ok h2
      cases he
      have := adjust_ok_bounds hv hn
      simp at this ⊢; omega
    · simp only [Bool.not_true, Bool.false_eq_true, if_false] at h2
      obtain ⟨v, hv, h3⟩ := bind_ok h2
      obtain ⟨w, hw, h4⟩ := bind_ok h3
      have b1 := adjust_ok_bounds hv hn
      have b2 := adjust_ok_bounds hw hn
      simp only [throw] at h4
      split at h4
      · split at h4 <;> simp at h4
      · cases h4
        simp at b1 b2 ⊢; omega

theorem ite_some_eq {c : Prop} [Decidable c] {x y : Sel}
    (h : (if c then some x else none) = some y) : c ∧ x = y := by
  split at h
  · exact ⟨‹c›, by injection h⟩
  · cases h

theorem select_elem_lt {n : Nat} {idx : Idx} {k : Nat} (h : select n idx = some (.elem k)) : k < n := by
  cases idx with
  | elem i =>
    simp only [select] at h
    obtain ⟨hc, he⟩ := ite_some_eq h
    cases he; omega
  | slice a b incl =>
    simp only [select] at h
    obtain ⟨hc, he⟩ := ite_some_eq h
    cases he

theorem select_range_le {n : Nat} {idx : Idx} {lo hi : Nat} (h : select n idx = some (.range lo hi)) :
    lo ≤ hi ∧ hi ≤ n := by
  cases idx with
  | elem i =>
    simp only [select] at h
    obtain ⟨hc, he⟩ := ite_some_eq h
    cases he
  | slice a b incl =>
    simp only [select] at h
    obtain ⟨hc, he⟩ := ite_some_eq h
    cases he; omega

theorem refIndex_elem_lt {n : Nat} {raw : Raw} {k : Nat} (h : RefIndex n raw (some (.elem k))) : k < n := by
  cases raw with
  | int i => exact select_elem_lt h.symm
  | other => cases h
  | str s =>
    rcases h with ⟨idx, -, he⟩ | ⟨-, he⟩
    · exact select_elem_lt he.symm
    · cases he

theorem refIndex_range_le {n : Nat} {raw : Raw} {lo hi : Nat} (h : RefIndex n raw (some (.range lo hi))) :
    lo ≤ hi ∧ hi ≤ n := by
  cases raw with
  | int i => exact select_range_le h.symm
  | other => cases h
  | str s =>
    rcases h with ⟨idx, -, he⟩ | ⟨-, he⟩
    · exact select_range_le he.symm
    · cases he

theorem vecIndex_nat {α} (l : List α) (k : Nat) (hk : k < l.length) :
    vecIndex l (k : Int) = some l[k] := by
  unfold vecIndex
  rw [if_neg (by omega)]
  simp [hk]

theorem vecSubVector_nat {α} (l : List α) (lo hi : Nat) (h1 : lo ≤ hi) (h2 : hi ≤ l.length) :
    vecSubVector l (lo : Int) (hi : Int) = some ((l.drop lo).take (hi - lo)) := by
  unfold vecSubVector
  rw [if_neg (by omega)]
  simp

theorem vecAssoc_nat {α} (l : List α) (k : Nat) (v : α) (hk : k < l.length) :
    vecAssoc l (k : Int) v = some (l.set k v) := by
  unfold vecAssoc
  rw [if_neg (by omega), if_neg (by omega)]
  simp

/-- the shapes `Agrees` allows -/
theorem agrees_elem {r : Res ListIndex} {k : Nat} (h : Agrees r (some (.elem k))) :
    ∃ u, r = .ok ⟨false, k, u⟩ := by
  cases r with
  | ok ix => obtain ⟨s, l, u⟩ := ix; simp only [Agrees] at h; obtain ⟨rfl, rfl⟩ := h; exact ⟨u, rfl⟩
  | exc e => simp [Agrees] at h
  | panic w => simp [Agrees] at h

theorem agrees_range_inv {r : Res ListIndex} {lo hi : Nat} (h : Agrees r (some (.range lo hi))) :
    r = .ok ⟨true, lo, hi⟩ := by
  cases r with
  | ok ix => obtain ⟨s, l, u⟩ := ix; simp only [Agrees] at h; obtain ⟨rfl, rfl, rfl⟩ := h; rfl
  | exc e => simp [Agrees] at h
  | panic w => simp [Agrees] at h

theorem agrees_none {r : Res ListIndex} (h : Agrees r none) : ∃ e, r = .exc e := by
  cases r with
  | ok ix => simp [Agrees] at h
  | exc e => exact ⟨e, rfl⟩
  | panic w => simp [Agrees] at h

end C13
