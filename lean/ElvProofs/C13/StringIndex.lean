/-
C13 helper lemmas: `convertStringIndex`, `indexString`, `assocString` — exact
results over valid UTF-8, panic-freedom over arbitrary bytes.
-/
import ElvModel.C13.Model
import ElvProofs.C13.Strings
namespace C13
open Go Ref

theorem slice_int {α} (s : List α) (i j : Int) (h : 0 ≤ i ∧ i ≤ j ∧ j ≤ s.length) :
    slice s i j = .ok ((s.drop i.toNat).take (j.toNat - i.toNat)) := by
  simp [slice, h]

/-! ### element index -/

theorem convertString_elem_start {cs : List Rune} (hv : ValidRunes cs) {raw : Raw} {i k : Nat} {u : Int}
    (hc : convertListIndex raw ((encodeRunes cs).length : Int) = .ok ⟨false, i, u⟩)
    (hs : StartsAt cs i k) :
    convertStringIndex raw (encodeRunes cs) = .ok ((i : Int), (i : Int) + ((encodeRune cs[k]!).length : Nat)) := by
  obtain ⟨hdrop, hget⟩ := drop_at_start hs
  have hc' : validRune cs[k]! = true := by apply hv; simp [hs.1]
  have hilt : i ≤ (encodeRunes cs).length := by
    have := congrArg List.length hdrop
    simp only [List.length_drop, List.length_append] at this
    have := encode_length_pos _ hc'
    omega
  simp only [convertStringIndex, hc, bind, Res.bind, Bool.false_eq_true, if_false]
  rw [slice_to_end _ _ hilt]
  simp only [hdrop, decode_encode _ hc', isDecodeError_encode _ hc', Bool.false_eq_true, if_false, pure]

theorem convertString_elem_bad {cs : List Rune} (hv : ValidRunes cs) {raw : Raw} {i : Nat} {u : Int}
    (hc : convertListIndex raw ((encodeRunes cs).length : Int) = .ok ⟨false, i, u⟩)
    (hi : i < (encodeRunes cs).length) (hnb : ¬ Boundary cs i) :
    convertStringIndex raw (encodeRunes cs) = throw .notAtRuneBoundary := by
  obtain ⟨b, t, hdr, herr⟩ := starts_bad hv hi hnb
  simp only [convertStringIndex, hc, bind, Res.bind, Bool.false_eq_true, if_false]
  rw [slice_to_end _ _ (by omega)]
  simp only [hdr, herr]
  simp [isDecodeError]

/-! ### slices -/

theorem convertString_slice_ok {cs : List Rune} (hv : ValidRunes cs) {raw : Raw} {lo hi : Nat}
    (hc : convertListIndex raw ((encodeRunes cs).length : Int) = .ok ⟨true, lo, hi⟩)
    (hle : lo ≤ hi) (hhi : hi ≤ (encodeRunes cs).length) (b1 : Boundary cs lo) (b2 : Boundary cs hi) :
    convertStringIndex raw (encodeRunes cs) = .ok ((lo : Int), (hi : Int)) := by
  simp only [convertStringIndex, hc, bind, Res.bind, if_true]
  rw [slice_to_end _ _ (by omega)]
  simp only [starts_ok hv b1, if_true]
  rw [slice_zero_nat _ _ hhi]
  simp only [ends_ok hv b2, if_true, pure]

theorem convertString_slice_bad {cs : List Rune} (hv : ValidRunes cs) {raw : Raw} {lo hi : Nat}
    (hc : convertListIndex raw ((encodeRunes cs).length : Int) = .ok ⟨true, lo, hi⟩)
    (hle : lo ≤ hi) (hhi : hi ≤ (encodeRunes cs).length) (hb : ¬ (Boundary cs lo ∧ Boundary cs hi)) :
    convertStringIndex raw (encodeRunes cs) = throw .notAtRuneBoundary := by
  simp only [convertStringIndex, hc, bind, Res.bind, if_true]
  rw [slice_to_end _ _ (by omega)]
  by_cases b1 : Boundary cs lo
  · have b2 : ¬ Boundary cs hi := fun h => hb ⟨b1, h⟩
    simp only [starts_ok hv b1, if_true]
    rw [slice_zero_nat _ _ hhi]
    simp [ends_bad hv hhi b2]
  · have hlt : lo < (encodeRunes cs).length := by
      by_cases h : lo < (encodeRunes cs).length
      · exact h
      · have : lo = (encodeRunes cs).length := by omega
        exact absurd (this ▸ boundary_len cs) b1
    obtain ⟨b, t, hdr, herr⟩ := starts_bad hv hlt b1
    have : startsWithRuneBoundary ((encodeRunes cs).drop lo) = false := by
      simp [startsWithRuneBoundary, hdr, herr, isDecodeError]
    simp [this]

/-! ### panic-freedom and bounds on arbitrary byte strings -/

theorem convertString_bounds (raw : Raw) (s : Bytes) :
    (∀ w, convertStringIndex raw s ≠ .panic w) ∧
    (∀ i j, convertStringIndex raw s = .ok (i, j) → 0 ≤ i ∧ i ≤ j ∧ j ≤ s.length) := by
  unfold convertStringIndex
  cases hc : convertListIndex raw (s.length : Int) with
  | exc e => simp [bind, Res.bind]
  | panic w => exact absurd hc (convert_no_panic _ _ w)
  | ok ix =>
    obtain ⟨h0, hs, hns⟩ := convert_bounds (Int.natCast_nonneg _) hc
    obtain ⟨sl, lower, upper⟩ := ix
    simp only at h0 hs hns
    simp only [bind, Res.bind]
    cases sl
    · have hlt := hns rfl
      simp only [Bool.false_eq_true, if_false]
      rw [slice_int _ _ _ ⟨h0, by omega, Int.le_refl _⟩]
      simp only [Int.toNat_natCast]
      have hsz := (decode_size (List.take (s.length - lower.toNat) (List.drop lower.toNat s))).1
      simp only [List.length_take, List.length_drop] at hsz
      constructor
      · intro w; split <;> simp [throw, pure]
      · intro i j
        split
        · simp [throw]
        · simp only [pure, Res.ok.injEq, Prod.mk.injEq]
          rintro ⟨rfl, rfl⟩
          omega
    · obtain ⟨hle, hhi⟩ := hs rfl
      simp only [if_true]
      rw [slice_int _ _ _ ⟨h0, by omega, Int.le_refl _⟩]
      simp only
      constructor
      · intro w
        split
        · rw [slice_int _ _ _ ⟨Int.le_refl _, by omega, hhi⟩]
          simp only
          split <;> simp [throw, pure]
        · simp [throw]
      · intro i j
        split
        · rw [slice_int _ _ _ ⟨Int.le_refl _, by omega, hhi⟩]
          simp only
          split
          · simp only [pure, Res.ok.injEq, Prod.mk.injEq]
            rintro ⟨rfl, rfl⟩
            omega
          · simp [throw]
        · simp [throw]

theorem indexString_no_panic (s : Bytes) (raw : Raw) : ∀ w, indexString s raw ≠ .panic w := by
  intro w
  unfold indexString
  obtain ⟨hnp, hb⟩ := convertString_bounds raw s
  cases h : convertStringIndex raw s with
  | exc e => simp [bind, Res.bind]
  | panic w' => exact absurd h (hnp w')
  | ok ij =>
    obtain ⟨i, j⟩ := ij
    have := hb i j h
    simp only [bind, Res.bind]
    rw [slice_int _ _ _ this]
    simp

theorem assocString_no_panic (s : Bytes) (raw : Raw) (v : Option Bytes) :
    ∀ w, assocString s raw v ≠ .panic w := by
  intro w
  unfold assocString
  obtain ⟨hnp, hb⟩ := convertString_bounds raw s
  cases h : convertStringIndex raw s with
  | exc e => simp [bind, Res.bind]
  | panic w' => exact absurd h (hnp w')
  | ok ij =>
    obtain ⟨i, j⟩ := ij
    obtain ⟨h0, h1, h2⟩ := hb i j h
    simp only [bind, Res.bind]
    cases v with
    | none => simp [throw]
    | some repl =>
      simp only
      rw [slice_int _ _ _ ⟨Int.le_refl _, h0, by omega⟩, slice_int _ _ _ ⟨by omega, h2, Int.le_refl _⟩]
      simp [pure]

end C13

namespace C13
open Go Ref

theorem indexString_of_convert {s : Bytes} {raw : Raw} {i j : Nat}
    (h : convertStringIndex raw s = .ok ((i : Int), (j : Int))) (hij : i ≤ j) (hj : j ≤ s.length) :
    indexString s raw = .ok ((s.drop i).take (j - i)) := by
  simp only [indexString, h, bind, Res.bind]
  exact slice_nat s i j hij hj

theorem indexString_of_convert_exc {s : Bytes} {raw : Raw} {e : String}
    (h : convertStringIndex raw s = .exc e) : indexString s raw = .exc e := by
  simp only [indexString, h, bind, Res.bind]

theorem assocString_of_convert {s : Bytes} {raw : Raw} {i j : Nat} (repl : Bytes)
    (h : convertStringIndex raw s = .ok ((i : Int), (j : Int))) (hij : i ≤ j) (hj : j ≤ s.length) :
    assocString s raw (some repl) = .ok (s.take i ++ repl ++ s.drop j) := by
  simp only [assocString, h, bind, Res.bind]
  rw [slice_zero_nat s i (by omega), slice_to_end s j hj]
  rfl

theorem assocString_of_convert_exc {s : Bytes} {raw : Raw} {e : String} (v : Option Bytes)
    (h : convertStringIndex raw s = .exc e) : assocString s raw v = .exc e := by
  simp only [assocString, h, bind, Res.bind]

theorem assocString_nonstring (s : Bytes) (raw : Raw) : ∃ e, assocString s raw none = .exc e := by
  obtain ⟨hnp, -⟩ := convertString_bounds raw s
  unfold assocString
  cases h : convertStringIndex raw s with
  | exc e => exact ⟨e, by simp [bind, Res.bind]⟩
  | panic w => exact absurd h (hnp w)
  | ok ij => exact ⟨Err.replacementMustBeString.render, by simp only [bind, Res.bind, throw]⟩

end C13
