/-
C01 — Parsing is total and lossless for every source text.

Model: `ElvModel/C01/Model.lean` (the parser of pkg/parse after
fixes/C01-redir-sourcetext.patch).  Helper lemmas: `ElvProofs/C01/*.lean`.

Reading of "the leaves concatenate back to the original text": the parser
stops at the first rune no grammar rule accepts (e.g. a stray `)`); the text
after that point is in no node, and `parser.done` reports it with an
"unexpected rune" error positioned there.  So the statement proved is: the
leaves concatenate to the source up to the end of the root, and the root
ends at the end of the source unless such an error points at its end
(`TailReported`).
-/
import ElvProofs.C01.Term4
open Go C01

/-- `m` is `n` or a node below it. -/
inductive C01_Desc : Node → Node → Prop where
  | self (n : Node) : C01_Desc n n
  | child {n c m : Node} : c ∈ n.children → C01_Desc c m → C01_Desc n m

/-- What the property says about one node: its range is inside the source
(b), its text is the source slice of its range (d), and its children, if any,
tile its range in order (b). -/
def C01_NodeOk (src : Bytes) (m : Node) : Prop :=
  m.frm ≤ m.to ∧ m.to ≤ src.length ∧ m.text = (src.drop m.frm).take (m.to - m.frm) ∧
    (m.children = [] ∨ (Consec m.frm m.children ∧ endOf m.frm m.children = m.to))

/-- The full property for one entry point, at full strength: for every source
(arbitrary bytes) and every `unicode.IsPrint`, parsing returns (no panic, no
FUEL with the default fuel) a tree and errors such that every node is as the
property says, the leaves give back the text, and every error is inside the
source. -/
def C01_full : Prop :=
  ∀ (isPrint : Int → Bool) (src : Bytes),
    ∃ t errs, parse isPrint src = .ok t errs ∧
      (∀ m, C01_Desc t m → C01_NodeOk src m) ∧
      t.frm = 0 ∧ leaves t ++ src.drop t.to = src ∧ TailReported src t errs ∧
      ErrsInRange src errs

/-- Every node of a well-formed tree is as the property says. -/
theorem C01_wf_nodes (src : Bytes) (t m : Node) (h : WF src t) (hd : C01_Desc t m) :
    C01_NodeOk src m := by
  induction hd with
  | self n =>
    cases n with
    | mk k a b tx f cs =>
      simp only [WF] at h
      exact ⟨h.1, h.2.1, h.2.2.1, h.2.2.2.1⟩
  | @child n c m hc _ ih =>
    apply ih
    cases n with
    | mk k a b tx f cs =>
      simp only [WF] at h
      have hws := h.2.2.2.2
      simp only [Node.children] at hc
      clear h ih
      induction cs with
      | nil => cases hc
      | cons d ds ihd =>
        simp only [WFs] at hws
        rcases List.mem_cons.mp hc with rfl | hc'
        · exact hws.1
        · exact ihd hc' hws.2

/-- (a, first half) No source text makes the parser panic — any entry point
(`ParseAs` with any node type and expression context), any fuel. -/
theorem C01_no_panic (isPrint : Int → Bool) (fuel : Nat) (nt : NT) (src : Bytes)
    (hnt : ∀ l, nt ≠ .redir (some l)) (w : String) : parseAsFuel isPrint fuel nt src ≠ .panic w := by
  intro h
  have := parseAsFuel_good isPrint fuel nt src hnt
  rw [h] at this
  exact this

/-- (b)–(e) for `Parse`: whenever the parser returns — it cannot panic, the
only other outcome is running out of fuel — every node has its range inside
the source, its text is the source slice of the range, its children tile the
range in order; the leaves concatenate to the source up to the end of the
root; text after the root is reported; every error is inside the source.
Together with `C01_terminates` this gives `C01_total_lossless : C01_full`. -/
theorem C01_lossless_partial (isPrint : Int → Bool) (src : Bytes) (t : Node) (errs : List PErr)
    (h : parse isPrint src = .ok t errs) :
    (∀ m, C01_Desc t m → C01_NodeOk src m) ∧
      t.frm = 0 ∧ leaves t ++ src.drop t.to = src ∧ TailReported src t errs ∧
      ErrsInRange src errs := by
  have hg := parseAsFuel_good isPrint (defaultFuel src) .chunk src (fun l => by simp)
  unfold parse parseAs at h
  rw [h] at hg
  obtain ⟨hw, hf, he, ht⟩ := hg
  refine ⟨fun m hd => C01_wf_nodes src t m hw hd, hf, ?_, ht, he⟩
  rw [leaves_eq t hw, hf]
  unfold srcSlice
  simp

/-- The same for every entry point `ParseAs(src, n)` and every fuel. -/
theorem C01_parseAs_lossless_partial (isPrint : Int → Bool) (fuel : Nat) (nt : NT) (src : Bytes)
    (hnt : ∀ l, nt ≠ .redir (some l)) (t : Node) (errs : List PErr)
    (h : parseAsFuel isPrint fuel nt src = .ok t errs) :
    (∀ m, C01_Desc t m → C01_NodeOk src m) ∧
      t.frm = 0 ∧ leaves t ++ src.drop t.to = src ∧ TailReported src t errs ∧
      ErrsInRange src errs := by
  have hg := parseAsFuel_good isPrint fuel nt src hnt
  rw [h] at hg
  obtain ⟨hw, hf, he, ht⟩ := hg
  refine ⟨fun m hd => C01_wf_nodes src t m hw hd, hf, ?_, ht, he⟩
  rw [leaves_eq t hw, hf]
  unfold srcSlice
  simp

/-- (e) alone, in the form C37 assumes it: every parse error lies inside the source. -/
theorem C01_error_ranges (isPrint : Int → Bool) (src : Bytes) (t : Node) (errs : List PErr)
    (h : parse isPrint src = .ok t errs) : ∀ x ∈ errs, x.frm ≤ x.to ∧ x.to ≤ src.length :=
  (C01_lossless_partial isPrint src t errs h).2.2.2.2

/-- (a, second half) Termination: with the default fuel (`7·len + 8` levels
of nesting; `len + 2` iterations per loop) no entry point runs out of fuel —
every loop iteration that continues consumes a byte, and at most 7 nested
`parse` calls happen without consuming one. -/
theorem C01_terminates (isPrint : Int → Bool) (nt : NT) (src : Bytes)
    (hnt : ∀ l, nt ≠ .redir (some l)) : parseAs isPrint nt src ≠ .fuel :=
  parseAs_no_fuel isPrint nt src hnt

/-- C01 at full strength for `Parse`: for every byte string and every
`unicode.IsPrint`, parsing returns a tree and errors (no panic, no FUEL), every
node has its range inside the source, its text is the source slice of its
range and its children tile it in order, the leaves concatenate to the source
up to the end of the root, text after the root is reported by an error placed
there, and every error lies inside the source. -/
theorem C01_total_lossless : C01_full := by
  intro isPrint src
  cases h : parse isPrint src with
  | ok t errs => exact ⟨t, errs, rfl, C01_lossless_partial isPrint src t errs h⟩
  | panic w => exact absurd h (C01_no_panic isPrint (defaultFuel src) .chunk src (fun l => by simp) w)
  | fuel => exact absurd h (C01_terminates isPrint .chunk src (fun l => by simp))

/-- The same for every entry point `ParseAs(src, n)`. -/
theorem C01_parseAs_total_lossless (isPrint : Int → Bool) (nt : NT) (src : Bytes)
    (hnt : ∀ l, nt ≠ .redir (some l)) :
    ∃ t errs, parseAs isPrint nt src = .ok t errs ∧
      (∀ m, C01_Desc t m → C01_NodeOk src m) ∧
      t.frm = 0 ∧ leaves t ++ src.drop t.to = src ∧ TailReported src t errs ∧
      ErrsInRange src errs := by
  cases h : parseAs isPrint nt src with
  | ok t errs =>
    exact ⟨t, errs, rfl, C01_parseAs_lossless_partial isPrint (defaultFuel src) nt src hnt t errs h⟩
  | panic w => exact absurd h (C01_no_panic isPrint (defaultFuel src) nt src hnt w)
  | fuel => exact absurd h (C01_terminates isPrint nt src hnt)

/-! ### Non-vacuity: the hypotheses above are met by concrete, non-trivial inputs -/

/-- `a 2>a`: a form with a redirection that has a left operand. -/
def C01_src0 : Bytes := [97, 32, 50, 62, 97]

def C01_isOk : ParseResult → Bool
  | .ok _ _ => true
  | _ => false

theorem C01_isOk_iff (r : ParseResult) : C01_isOk r = true → ∃ t errs, r = .ok t errs := by
  cases r <;> simp [C01_isOk]

set_option maxRecDepth 100000 in
/-- `parse` returns on `a 2>a` (so `C01_lossless_partial` applies to it). -/
example : ∃ t errs, parse (fun _ => false) C01_src0 = .ok t errs :=
  C01_isOk_iff _ (by decide)

set_option maxRecDepth 100000 in
/-- … and on malformed text with invalid UTF-8 (`"\xff` + `)`), with errors. -/
example : ∃ t errs, parse (fun _ => false) [34, 255, 41] = .ok t errs ∧ errs ≠ [] := by
  obtain ⟨t, errs, h⟩ := C01_isOk_iff (parse (fun _ => false) [34, 255, 41]) (by decide)
  refine ⟨t, errs, h, ?_⟩
  have hl : (match parse (fun _ => false) [34, 255, 41] with | .ok _ e => e.length | _ => 0) = 1 := by decide
  rw [h] at hl
  intro he; rw [he] at hl; cases hl

/-! ### The unchanged tree violates (d): counterexample -/

/-- `Parse` of the unchanged tree (`parse[N]` cuts the text from `begin`). -/
def C01_parseUnfixed (isPrint : Int → Bool) (src : Bytes) : ParseResult :=
  toResult ((parseNTUnfixed (defaultFuel src) .chunk >>= fun n => done >>= fun _ => pure n)
    { isPrint := isPrint, src := src } { pos := 0, overEOF := 0, errors := [] })

/-- the node reached by following child indices -/
def C01_at : Node → List Nat → Option Node
  | n, [] => some n
  | n, i :: p => match n.children[i]? with
    | some c => C01_at c p
    | none => none

theorem C01_at_desc : ∀ (p : List Nat) (n m : Node), C01_at n p = some m → C01_Desc n m
  | [], n, m, h => by
    simp only [C01_at] at h
    cases h; exact .self n
  | i :: p, n, m, h => by
    simp only [C01_at] at h
    cases hc : n.children[i]? with
    | none => rw [hc] at h; cases h
    | some c =>
      rw [hc] at h
      exact .child (List.mem_of_getElem? hc) (C01_at_desc p c m h)

def C01_info (r : ParseResult) (p : List Nat) : Option (Kind × Nat × Nat × Bytes) :=
  match r with
  | .ok t _ => (C01_at t p).map fun m => (m.kind, m.frm, m.to, m.text)
  | _ => none

set_option maxRecDepth 100000 in
/-- On the unchanged tree the `Redir` node of `a 2>a` has range `[2,5)` = `2>a`
but text `>a`. -/
theorem C01_unfixed_redir_text :
    C01_info (C01_parseUnfixed (fun _ => false) C01_src0) [0, 0, 2] = some (.redir, 2, 5, [62, 97]) := by
  decide

/-- (d) is false for the unchanged `parse[N]`: not every node's text is the
source slice of its range.  Witness `a 2>a` (harness/corpus/C01.txt). -/
theorem C01_counterexample :
    ¬ (∀ (src : Bytes) (t : Node) (errs : List PErr),
        C01_parseUnfixed (fun _ => false) src = .ok t errs → ∀ m, C01_Desc t m → C01_NodeOk src m) := by
  intro H
  have hi := C01_unfixed_redir_text
  cases hr : C01_parseUnfixed (fun _ => false) C01_src0 with
  | panic w => rw [hr] at hi; cases hi
  | fuel => rw [hr] at hi; cases hi
  | ok t errs =>
    rw [hr] at hi
    simp only [C01_info] at hi
    cases hm : C01_at t [0, 0, 2] with
    | none => rw [hm] at hi; cases hi
    | some m =>
      rw [hm] at hi
      simp only [Option.map_some, Option.some.injEq, Prod.mk.injEq] at hi
      obtain ⟨_, hf, ht, htx⟩ := hi
      have hok := H C01_src0 t errs hr m (C01_at_desc _ _ _ hm)
      have := hok.2.2.1
      rw [hf, ht, htx] at this
      revert this
      decide

set_option maxRecDepth 100000 in
/-- With the fix the same node has the text of its range. -/
example : C01_info (parse (fun _ => false) C01_src0) [0, 0, 2] = some (.redir, 2, 5, [50, 62, 97]) := by
  decide
