/-
C43 helper lemmas, part 5: the grammar functions `Primary` (bareword),
`Indexing`, `Compound` of the C01 parser run in situ on a word followed by
text that does not continue it.
-/
import ElvProofs.C43.Step
namespace C43
open Go C01
open Gen.C01Chars

theorem length_le_encodeRunes : ∀ rs : List Nat, rs.length ≤ (encodeRunes rs).length
  | [] => Nat.le_refl _
  | r :: rs => by
    have h1 := encodeRune_length_pos r
    have h2 := length_le_encodeRunes rs
    simp only [encodeRunes, List.flatMap_cons, List.length_append, List.length_cons] at *
    omega

theorem At.len {e : C01.Env} {s : St} {t : Bytes} (h : At e s t) : s.pos + t.length = e.src.length := by
  obtain ⟨hle, hd⟩ := h
  have := congrArg List.length hd
  simp only [List.length_drop] at this
  omega

theorem At.take {e : C01.Env} {s : St} {a b : Bytes} (h : At e s (a ++ b)) :
    (e.src.drop s.pos).take a.length = a := by
  rw [h.2, List.take_left]

/-- `parseSep` when the next rune is not the separator -/
theorem parseSep_no {e : C01.Env} {s : St} {t : Bytes} (nb : NB) (sep : Int) (hat : At e s t) (hno : peekOf t ≠ sep) :
    parseSep nb sep e s = .ok (false, nb) s := by
  unfold parseSep
  rw [bind_of_eq (peek_at hat)]
  have : (peekOf t == sep) = false := by simpa using hno
  simp [this]

/-- `(*Primary).bareword` on a run of bareword runes -/
theorem bareword_rt {e : C01.Env} {s : St} {rs : List Nat} {rest : Bytes} (nb : NB)
    (hfrm : nb.frm = s.pos)
    (hall : ∀ r ∈ rs, validRune r = true ∧ allowedInBareword e.isPrint (r : Int) nb.f.ctx = true)
    (hstop : allowedInBareword e.isPrint (peekOf rest) nb.f.ctx = false)
    (hat : At e s (encodeRunes rs ++ rest)) :
    bareword nb e s = .ok ((nb.setType Bareword).setValue (encodeRunes rs)) (adv s (encodeRunes rs).length) := by
  unfold bareword
  rw [bind_of_eq (getEnv_eq e s), bind_of_eq (loopFuel_eq e s)]
  have hlen := hat.len
  simp only [List.length_append] at hlen
  have hfuel : rs.length < e.src.length + 2 := by
    have := length_le_encodeRunes rs
    omega
  have hctx : (nb.setType Bareword).f.ctx = nb.f.ctx := rfl
  rw [bind_of_eq (skipWhile_run (fun r => allowedInBareword e.isPrint r (nb.setType Bareword).f.ctx) rs _ s rest
    (by simpa [hctx] using hall) (by simpa [hctx] using hstop) hfuel hat)]
  rw [bind_of_eq (getPos_eq e _)]
  have hfrm' : (nb.setType Bareword).frm = s.pos := hfrm
  rw [hfrm']
  rw [bind_of_eq (sliceSrc_at (s := adv s (encodeRunes rs).length) (a := s.pos) (b := (adv s (encodeRunes rs).length).pos)
    (by simp [adv]) (by simp only [adv]; omega))]
  simp only [adv, Nat.add_sub_cancel_left, hat.take]
  rfl

/-- the node `parse(ps, &Primary{ExprCtx: ctx})` returns for a bareword -/
def bareNode (ctx : Int) (frm : Nat) (w : Bytes) : Node :=
  .mk .primary frm (frm + w.length) w { ctx := ctx, ptype := Bareword, value := w } []

theorem primary_bare_rt {e : C01.Env} {s : St} {r0 : Nat} {rs : List Nat} {rest : Bytes} (ctx : Int) (fuel : Nat)
    (hall : ∀ r ∈ r0 :: rs, validRune r = true ∧ allowedInBareword e.isPrint (r : Int) ctx = true)
    (hstop : allowedInBareword e.isPrint (peekOf rest) ctx = false)
    (hat : At e s (encodeRunes (r0 :: rs) ++ rest)) :
    parseNT (fuel + 1) (.primary ctx) e s =
      .ok (bareNode ctx s.pos (encodeRunes (r0 :: rs))) (adv s (encodeRunes (r0 :: rs)).length) := by
  have h0 := hall r0 List.mem_cons_self
  have hpeek : peekOf (encodeRunes (r0 :: rs) ++ rest) = (r0 : Int) := by
    have : encodeRunes (r0 :: rs) ++ rest = encodeRune r0 ++ (encodeRunes rs ++ rest) := by simp [encodeRunes]
    rw [this, peekOf_rune h0.1]
  have hsp : startsPrimary e.isPrint (r0 : Int) ctx = true := by
    simp [startsPrimary, h0.2]
  have hbody : primaryBody (fun nt' => parseNT fuel nt') { frm := s.pos, f := { ctx := ctx }, children := [] } e s =
      .ok ((NB.setType { frm := s.pos, f := { ctx := ctx }, children := [] } Bareword).setValue (encodeRunes (r0 :: rs)))
        (adv s (encodeRunes (r0 :: rs)).length) := by
    simp only [primaryBody]
    rw [bind_of_eq (getEnv_eq e s), bind_of_eq (peek_at hat), hpeek]
    simp only [hsp, Bool.not_true, Bool.false_eq_true, if_false, h0.2, if_true]
    exact bareword_rt (e := e) (s := s) (rs := r0 :: rs) (rest := rest)
      { frm := s.pos, f := { ctx := ctx }, children := [] } rfl hall hstop hat
  simp only [parseNT, wrap]
  rw [bind_of_eq (getPos_eq e s)]
  simp only [body, NT.init]
  rw [bind_of_eq hbody, bind_of_eq (getPos_eq e _)]
  have hlen := hat.len
  simp only [List.length_append] at hlen
  simp only [NB.setType, NB.setValue]
  rw [bind_of_eq (sliceSrc_at (a := s.pos) (b := (adv s (encodeRunes (r0 :: rs)).length).pos)
    (by simp [adv]) (by simp only [adv]; omega))]
  simp only [adv, Nat.add_sub_cancel_left, hat.take]
  rfl

/-- `parse(ps, &Indexing{ExprCtx: ctx})` around a primary that is not followed by `[` -/
theorem indexing_rt {e : C01.Env} {s s' : St} {pn : Node} {w rest : Bytes} (ctx : Int) (fuel : Nat)
    (hprim : parseNT fuel (.primary ctx) e s = .ok pn s')
    (hs' : s' = adv s w.length) (hat : At e s (w ++ rest)) (hno : peekOf rest ≠ 91) :
    parseNT (fuel + 1) (.indexing ctx) e s =
      .ok (.mk .indexing s.pos (s.pos + w.length) w { ctx := ctx } [pn]) s' := by
  have hat' : At e s' rest := by rw [hs']; exact hat.adv
  have hloop : indexingLoop (fun nt' => parseNT fuel nt') (e.src.length + 2)
      (NB.add { frm := s.pos, f := { ctx := ctx }, children := [] } pn) e s' =
      .ok (NB.add { frm := s.pos, f := { ctx := ctx }, children := [] } pn) s' := by
    unfold indexingLoop
    rw [bind_of_eq (getEnv_eq e s'), bind_of_eq (parseSep_no _ 91 hat' hno)]
    rfl
  have hbody : indexingBody (fun nt' => parseNT fuel nt') { frm := s.pos, f := { ctx := ctx }, children := [] } e s =
      .ok (NB.add { frm := s.pos, f := { ctx := ctx }, children := [] } pn) s' := by
    simp only [indexingBody]
    rw [bind_of_eq hprim, bind_of_eq (loopFuel_eq e s')]
    exact hloop
  simp only [parseNT, wrap]
  rw [bind_of_eq (getPos_eq e s)]
  simp only [body, NT.init]
  rw [bind_of_eq hbody, bind_of_eq (getPos_eq e s')]
  have hlen := hat.len
  simp only [List.length_append] at hlen
  simp only [NB.add]
  rw [bind_of_eq (sliceSrc_at (a := s.pos) (b := s'.pos) (by rw [hs']; simp [adv]) (by rw [hs']; simp only [adv]; omega))]
  rw [hs']
  simp only [adv, Nat.add_sub_cancel_left, hat.take]
  rfl

/-- `parse(ps, &Compound{ExprCtx: ctx})` around one indexing, when the word does
not start with `~` and the text after it does not start another indexing -/
theorem compound_rt {e : C01.Env} {s s' : St} {inn : Node} {w rest : Bytes} (ctx : Int) (fuel : Nat)
    (hidx : parseNT fuel (.indexing ctx) e s = .ok inn s')
    (hs' : s' = adv s w.length) (hat : At e s (w ++ rest))
    (hstart : startsIndexing e.isPrint (peekOf (w ++ rest)) ctx = true) (htilde : peekOf (w ++ rest) ≠ 126)
    (hstop : startsIndexing e.isPrint (peekOf rest) ctx = false) :
    parseNT (fuel + 1) (.compound ctx) e s =
      .ok (.mk .compound s.pos (s.pos + w.length) w { ctx := ctx } [inn]) s' := by
  have hat' : At e s' rest := by rw [hs']; exact hat.adv
  have htil : tilde { frm := s.pos, f := { ctx := ctx }, children := [] } e s =
      .ok { frm := s.pos, f := { ctx := ctx }, children := [] } s := by
    simp only [tilde]
    rw [bind_of_eq (peek_at hat)]
    have : (peekOf (w ++ rest) == 126) = false := by simpa using htilde
    simp [this]
  have hloop : compoundLoop (fun nt' => parseNT fuel nt') ctx (e.src.length + 2)
      { frm := s.pos, f := { ctx := ctx }, children := [] } e s =
      .ok (NB.add { frm := s.pos, f := { ctx := ctx }, children := [] } inn) s' := by
    unfold compoundLoop
    rw [bind_of_eq (getEnv_eq e s), bind_of_eq (peek_at hat)]
    simp only [hstart, if_true]
    rw [bind_of_eq hidx]
    unfold compoundLoop
    rw [bind_of_eq (getEnv_eq e s'), bind_of_eq (peek_at hat')]
    simp [hstop]
  have hbody : compoundBody (fun nt' => parseNT fuel nt') { frm := s.pos, f := { ctx := ctx }, children := [] } e s =
      .ok (NB.add { frm := s.pos, f := { ctx := ctx }, children := [] } inn) s' := by
    simp only [compoundBody]
    rw [bind_of_eq htil, bind_of_eq (loopFuel_eq e s)]
    exact hloop
  simp only [parseNT, wrap]
  rw [bind_of_eq (getPos_eq e s)]
  simp only [body, NT.init]
  rw [bind_of_eq hbody, bind_of_eq (getPos_eq e s')]
  have hlen := hat.len
  simp only [List.length_append] at hlen
  simp only [NB.add]
  rw [bind_of_eq (sliceSrc_at (a := s.pos) (b := s'.pos) (by rw [hs']; simp [adv]) (by rw [hs']; simp only [adv]; omega))]
  rw [hs']
  simp only [adv, Nat.add_sub_cancel_left, hat.take]
  rfl

end C43
