/-
C43 helper lemmas, part 9: a double-quoted word parses back to its value, in
situ (`quoteDouble` against `doubleQuoted` / `doubleQuotedLoop` /
`doubleQuotedEscape`), for arbitrary bytes (invalid UTF-8 included).
-/
import ElvProofs.C43.Hex
namespace C43
open Go C01
open Gen.C01Chars

/-! ## the escape table -/

/-- `doubleUnescape` on a rune, as code points -/
def unescOf (r : Nat) : Option Nat :=
  if r = 7 then some 97 else if r = 8 then some 98 else if r = 12 then some 102 else if r = 10 then some 110
  else if r = 13 then some 114 else if r = 9 then some 116 else if r = 11 then some 118 else if r = 92 then some 92
  else if r = 34 then some 34 else if r = 27 then some 101 else none

theorem lookup_unesc (r : Nat) : doubleUnescape.lookup (r : Int) = (unescOf r).map (fun c => (c : Int)) := by
  by_cases h1 : r = 7; · subst h1; decide
  by_cases h2 : r = 8; · subst h2; decide
  by_cases h3 : r = 12; · subst h3; decide
  by_cases h4 : r = 10; · subst h4; decide
  by_cases h5 : r = 13; · subst h5; decide
  by_cases h6 : r = 9; · subst h6; decide
  by_cases h7 : r = 11; · subst h7; decide
  by_cases h8 : r = 92; · subst h8; decide
  by_cases h9 : r = 34; · subst h9; decide
  by_cases h10 : r = 27; · subst h10; decide
  have e : ∀ k : Int, (r : Int) ≠ k → ((r : Int) == k) = false := by
    intro k hk; simpa using hk
  have e1 := e 7 (by omega); have e2 := e 8 (by omega); have e3 := e 12 (by omega); have e4 := e 10 (by omega)
  have e5 := e 13 (by omega); have e6 := e 9 (by omega); have e7 := e 11 (by omega); have e8 := e 92 (by omega)
  have e9 := e 34 (by omega); have e10 := e 27 (by omega)
  simp [doubleUnescape, doubleEscape, List.lookup, unescOf, *]

/-- what the parser needs to know about an escape letter -/
def EscOk (r c : Nat) : Prop :=
  c < 128 ∧ r < 128 ∧ c ≠ 99 ∧ c ≠ 94 ∧ c ≠ 120 ∧ c ≠ 117 ∧ c ≠ 85 ∧ ¬ (48 ≤ c ∧ c ≤ 55) ∧
    doubleEscape.lookup (c : Int) = some (r : Int)

theorem unesc_props (r c : Nat) (h : unescOf r = some c) : EscOk r c := by
  unfold unescOf at h
  by_cases h1 : r = 7; · subst h1; cases h; unfold EscOk; decide
  by_cases h2 : r = 8; · subst h2; cases h; unfold EscOk; decide
  by_cases h3 : r = 12; · subst h3; cases h; unfold EscOk; decide
  by_cases h4 : r = 10; · subst h4; cases h; unfold EscOk; decide
  by_cases h5 : r = 13; · subst h5; cases h; unfold EscOk; decide
  by_cases h6 : r = 9; · subst h6; cases h; unfold EscOk; decide
  by_cases h7 : r = 11; · subst h7; cases h; unfold EscOk; decide
  by_cases h8 : r = 92; · subst h8; cases h; unfold EscOk; decide
  by_cases h9 : r = 34; · subst h9; cases h; unfold EscOk; decide
  by_cases h10 : r = 27; · subst h10; cases h; unfold EscOk; decide
  simp [*] at h

theorem unesc_none (r : Nat) (h : unescOf r = none) : r ≠ 34 ∧ r ≠ 92 := by
  constructor
  · intro hr; subst hr; simp [unescOf] at h
  · intro hr; subst hr; simp [unescOf] at h

/-! ## one escape sequence -/

theorem byteOf_nat (v : Nat) : byteOf (v : Int) = UInt8.ofNat (v % 256) := by
  unfold byteOf
  congr 1

/-- `\xHH` -/
theorem escape_x {e : C01.Env} {s : St} (v : Nat) (t : Bytes) (hv : v < 256)
    (hat : At e s (120 :: (rtohex v 2 ++ t))) :
    doubleQuotedEscape e s = .ok [UInt8.ofNat v] (adv s 3) := by
  obtain ⟨hnx, hat'⟩ := next_ascii (b := 120) (by decide) hat
  have hh := hexLoop_run (e := e) 2 v 0 (adv s 1) t (by simp; omega) hat'
  have hmod : 0 * 16 ^ 2 + v % 16 ^ 2 = v := by simp; omega
  rw [hmod] at hh
  unfold doubleQuotedEscape
  rw [bind_of_eq hnx]
  have a1 : ((((120 : UInt8).toNat : Nat) : Int) == 99) = false := by decide
  have a2 : ((((120 : UInt8).toNat : Nat) : Int) == 94) = false := by decide
  have a3 : ((((120 : UInt8).toNat : Nat) : Int) == 120) = true := by decide
  simp only [a1, a2, a3, Bool.or_false, Bool.true_or, Bool.false_eq_true, if_false, if_true]
  have hh' : hexLoop 2 0 e (adv s 1) = .ok (v : Int) (adv (adv s 1) 2) := by simpa using hh
  rw [bind_of_eq hh', adv_adv, byteOf_nat, Nat.mod_eq_of_lt hv]
  rfl

/-- `\uHHHH` -/
theorem escape_u {e : C01.Env} {s : St} (v : Nat) (t : Bytes) (hv : v ≤ 0xffff)
    (hat : At e s (117 :: (rtohex v 4 ++ t))) :
    doubleQuotedEscape e s = .ok (encodeRune v) (adv s 5) := by
  obtain ⟨hnx, hat'⟩ := next_ascii (b := 117) (by decide) hat
  have hh := hexLoop_run (e := e) 4 v 0 (adv s 1) t (by simp; omega) hat'
  have hmod : 0 * 16 ^ 4 + v % 16 ^ 4 = v := by simp; omega
  rw [hmod] at hh
  unfold doubleQuotedEscape
  rw [bind_of_eq hnx]
  have a1 : ((((117 : UInt8).toNat : Nat) : Int) == 99) = false := by decide
  have a2 : ((((117 : UInt8).toNat : Nat) : Int) == 94) = false := by decide
  have a3 : ((((117 : UInt8).toNat : Nat) : Int) == 120) = false := by decide
  have a4 : ((((117 : UInt8).toNat : Nat) : Int) == 117) = true := by decide
  simp only [a1, a2, a3, a4, Bool.or_false, Bool.false_or, Bool.true_or, Bool.false_eq_true, if_false, if_true]
  have hh' : hexLoop 4 0 e (adv s 1) = .ok (v : Int) (adv (adv s 1) 4) := by simpa using hh
  rw [bind_of_eq hh', adv_adv, writeRune_nat]
  rfl

/-- `\UHHHHHHHH` -/
theorem escape_U {e : C01.Env} {s : St} (v : Nat) (t : Bytes) (hv : v ≤ 0x10FFFF)
    (hat : At e s (85 :: (rtohex v 8 ++ t))) :
    doubleQuotedEscape e s = .ok (encodeRune v) (adv s 9) := by
  obtain ⟨hnx, hat'⟩ := next_ascii (b := 85) (by decide) hat
  have hh := hexLoop_run (e := e) 8 v 0 (adv s 1) t (by simp; omega) hat'
  have hmod : 0 * 16 ^ 8 + v % 16 ^ 8 = v := by simp; omega
  rw [hmod] at hh
  unfold doubleQuotedEscape
  rw [bind_of_eq hnx]
  have a1 : ((((85 : UInt8).toNat : Nat) : Int) == 99) = false := by decide
  have a2 : ((((85 : UInt8).toNat : Nat) : Int) == 94) = false := by decide
  have a3 : ((((85 : UInt8).toNat : Nat) : Int) == 120) = false := by decide
  have a4 : ((((85 : UInt8).toNat : Nat) : Int) == 117) = false := by decide
  have a5 : ((((85 : UInt8).toNat : Nat) : Int) == 85) = true := by decide
  simp only [a1, a2, a3, a4, a5, Bool.or_false, Bool.false_or, Bool.or_true, Bool.false_eq_true, if_false, if_true]
  have hh' : hexLoop 8 0 e (adv s 1) = .ok (v : Int) (adv (adv s 1) 8) := by simpa using hh
  rw [bind_of_eq hh', adv_adv, writeRune_nat]
  rfl

/-- a table escape `\c` -/
theorem escape_table {e : C01.Env} {s : St} (r c : Nat) (t : Bytes) (hok : EscOk r c)
    (hat : At e s (UInt8.ofNat c :: t)) :
    doubleQuotedEscape e s = .ok (encodeRune r) (adv s 1) := by
  obtain ⟨hc, hr, n99, n94, n120, n117, n85, noct, hlook⟩ := hok
  have hcn : (UInt8.ofNat c).toNat = c := toNat_ofNat_of_lt (by omega)
  obtain ⟨hnx, _⟩ := next_ascii (b := UInt8.ofNat c) (by rw [hcn]; exact hc) hat
  rw [hcn] at hnx
  unfold doubleQuotedEscape
  rw [bind_of_eq hnx]
  have c1 : ((c : Int) == 99 || (c : Int) == 94) = false := by
    simp only [Bool.or_eq_false_iff, beq_eq_false_iff_ne, ne_eq]; omega
  have c2 : ((c : Int) == 120 || (c : Int) == 117 || (c : Int) == 85) = false := by
    simp only [Bool.or_eq_false_iff, beq_eq_false_iff_ne, ne_eq]; omega
  have c3 : (decide ((48 : Int) ≤ (c : Int)) && decide ((c : Int) ≤ 55)) = false := by
    simp only [Bool.and_eq_false_iff, decide_eq_false_iff_not]; omega
  simp only [c1, c2, c3, Bool.false_eq_true, if_false, hlook, writeRune_nat]
  rfl

/-! ## the loop -/

theorem qdl_skip (isPrint : Int → Bool) : ∀ (k : Nat) (t : Bytes),
    quoteDoubleLoop isPrint k t = quoteDoubleLoop isPrint 0 (t.drop k)
  | 0, t => by simp
  | k + 1, [] => by simp [quoteDoubleLoop]
  | k + 1, _ :: t => by
    simp only [quoteDoubleLoop, List.drop_succ_cons]
    exact qdl_skip isPrint k t

theorem qdl_step (isPrint : Int → Bool) (b : UInt8) (t : Bytes) :
    quoteDoubleLoop isPrint 0 (b :: t) =
      dqPiece isPrint (decodeRune (b :: t)).1 (decodeRune (b :: t)).2 b ++
        quoteDoubleLoop isPrint 0 ((b :: t).drop (decodeRune (b :: t)).2) := by
  simp only [quoteDoubleLoop]
  rw [qdl_skip]
  have hpos := Go.decodeRune_size_pos (s := b :: t) (by simp)
  generalize (decodeRune (b :: t)).2 = w at *
  cases w with
  | zero => omega
  | succ w => simp

/-- `\` then an escape -/
theorem dq_escape_step {e : C01.Env} {s : St} (n : Nat) (buf body tail bs : Bytes)
    (hat : At e s (92 :: (body ++ tail)))
    (hesc : doubleQuotedEscape e (adv s 1) = .ok bs (adv (adv s 1) body.length)) :
    doubleQuotedLoop (n + 1) buf e s = doubleQuotedLoop n (buf ++ bs) e (adv s (1 + body.length)) := by
  obtain ⟨hnx, _⟩ := next_ascii (b := 92) (by decide) hat
  conv => lhs; unfold doubleQuotedLoop
  rw [bind_of_eq hnx]
  have c1 : ((((92 : UInt8).toNat : Nat) : Int) == eof) = false := by decide
  have c2 : ((((92 : UInt8).toNat : Nat) : Int) == 34) = false := by decide
  have c3 : ((((92 : UInt8).toNat : Nat) : Int) == 92) = true := by decide
  simp only [c1, c2, c3, Bool.false_eq_true, if_false, if_true]
  rw [bind_of_eq hesc, adv_adv]

/-- a rune written literally -/
theorem dq_literal_step {e : C01.Env} {s : St} (n : Nat) (buf tail : Bytes) (r : Nat)
    (hv : validRune r = true) (h34 : r ≠ 34) (h92 : r ≠ 92)
    (hat : At e s (encodeRune r ++ tail)) :
    doubleQuotedLoop (n + 1) buf e s = doubleQuotedLoop n (buf ++ encodeRune r) e (adv s (encodeRune r).length) := by
  obtain ⟨hnx, _⟩ := next_rune hv hat
  conv => lhs; unfold doubleQuotedLoop
  rw [bind_of_eq hnx]
  have c1 : ((r : Int) == eof) = false := by simp only [eof, beq_eq_false_iff_ne, ne_eq]; omega
  have c2 : ((r : Int) == 34) = false := by simp only [beq_eq_false_iff_ne, ne_eq]; omega
  have c3 : ((r : Int) == 92) = false := by simp only [beq_eq_false_iff_ne, ne_eq]; omega
  simp only [c1, c2, c3, Bool.false_eq_true, if_false, writeRune_nat]

/-- one iteration of `doubleQuotedLoop` undoes one iteration of `quoteDouble` -/
theorem dq_step {e : C01.Env} {s : St} (n : Nat) (buf tail : Bytes) (b : UInt8) (t : Bytes)
    (hat : At e s (dqPiece e.isPrint (decodeRune (b :: t)).1 (decodeRune (b :: t)).2 b ++ tail)) :
    doubleQuotedLoop (n + 1) buf e s =
      doubleQuotedLoop n (buf ++ (b :: t).take (decodeRune (b :: t)).2) e
        (adv s (dqPiece e.isPrint (decodeRune (b :: t)).1 (decodeRune (b :: t)).2 b).length) := by
  have hne : b :: t ≠ [] := by simp
  generalize hrw : decodeRune (b :: t) = rw at *
  obtain ⟨r, w⟩ := rw
  simp only at hat ⊢
  unfold dqPiece at hat ⊢
  by_cases herr : (r == RuneError && w == 1) = true
  · -- an invalid byte: \xHH
    simp only [herr, if_true] at hat ⊢
    simp only [Bool.and_eq_true, beq_iff_eq] at herr
    have hat1 : At e s (92 :: ((120 :: rtohex b.toNat 2) ++ tail)) := by simpa using hat
    have hesc := escape_x (e := e) (s := adv s 1) b.toNat tail (byte_toNat_lt b) (by
      have := At.adv (a := [92]) hat1
      simpa using this)
    have hesc' : doubleQuotedEscape e (adv s 1) =
        .ok [b] (adv (adv s 1) (120 :: rtohex b.toNat 2).length) := by
      rw [hesc, UInt8.ofNat_toNat]; simp [rtohex_length]
    rw [dq_escape_step n buf (120 :: rtohex b.toNat 2) tail [b] hat1 hesc', herr.2]
    simp [rtohex_length]
  · have herr' : ¬ (r = RuneError ∧ w = 1) := by
      simpa [Bool.and_eq_true, beq_iff_eq] using herr
    obtain ⟨hvalid, hdecomp, hw⟩ := decodeRune_eq_encodeRune_append hrw hne herr'
    have htake : (b :: t).take w = encodeRune r := (decodeRune_valid_take hrw hne herr').2
    simp only [herr, Bool.false_eq_true, if_false] at hat ⊢
    have hl := lookup_unesc r
    cases hu : unescOf r with
    | some c =>
      have hl' : doubleUnescape.lookup (r : Int) = some (c : Int) := by rw [hl, hu]; rfl
      simp only [hl', writeRune_nat] at hat ⊢
      have hok := unesc_props r c hu
      have hc1 : encodeRune c = [UInt8.ofNat c] := encodeRune_one hok.1
      rw [hc1] at hat ⊢
      have hat1 : At e s (92 :: ([UInt8.ofNat c] ++ tail)) := by simpa using hat
      have hesc := escape_table (e := e) (s := adv s 1) r c tail hok (by
        have := At.adv (a := [92]) hat1
        simpa using this)
      have hesc' : doubleQuotedEscape e (adv s 1) =
          .ok (encodeRune r) (adv (adv s 1) [UInt8.ofNat c].length) := by
        rw [hesc]; rfl
      rw [dq_escape_step n buf [UInt8.ofNat c] tail (encodeRune r) hat1 hesc', htake]
      rfl
    | none =>
      have hl' : doubleUnescape.lookup (r : Int) = none := by rw [hl, hu]; rfl
      simp only [hl'] at hat ⊢
      obtain ⟨h34, h92⟩ := unesc_none r hu
      by_cases hpr : (e.isPrint (r : Int) && r != RuneError) = true
      · simp only [hpr, if_true] at hat ⊢
        rw [dq_literal_step n buf tail r hvalid h34 h92 hat, htake]
      · simp only [hpr, Bool.false_eq_true, if_false] at hat ⊢
        by_cases h7f : r ≤ 0x7f
        · simp only [h7f, if_true] at hat ⊢
          have hat1 : At e s (92 :: ((120 :: rtohex r 2) ++ tail)) := by simpa using hat
          have h128 : r < 128 := Nat.lt_of_le_of_lt h7f (by decide)
          have hesc := escape_x (e := e) (s := adv s 1) r tail (Nat.lt_trans h128 (by decide)) (by
            have := At.adv (a := [92]) hat1
            simpa using this)
          have hesc' : doubleQuotedEscape e (adv s 1) =
              .ok (encodeRune r) (adv (adv s 1) (120 :: rtohex r 2).length) := by
            rw [hesc, encodeRune_one h128]; simp [rtohex_length]
          rw [dq_escape_step n buf (120 :: rtohex r 2) tail (encodeRune r) hat1 hesc', htake]
          simp [rtohex_length]
        · simp only [h7f, if_false] at hat ⊢
          by_cases hffff : r ≤ 0xffff
          · simp only [hffff, if_true] at hat ⊢
            have hat1 : At e s (92 :: ((117 :: rtohex r 4) ++ tail)) := by simpa using hat
            have hesc := escape_u (e := e) (s := adv s 1) r tail hffff (by
              have := At.adv (a := [92]) hat1
              simpa using this)
            have hesc' : doubleQuotedEscape e (adv s 1) =
                .ok (encodeRune r) (adv (adv s 1) (117 :: rtohex r 4).length) := by
              rw [hesc]; simp [rtohex_length]
            rw [dq_escape_step n buf (117 :: rtohex r 4) tail (encodeRune r) hat1 hesc', htake]
            simp [rtohex_length]
          · simp only [hffff, if_false] at hat ⊢
            have hmax : r ≤ 0x10FFFF := by
              have := decodeRune_rune_le (b :: t)
              rw [hrw] at this
              exact this
            have hat1 : At e s (92 :: ((85 :: rtohex r 8) ++ tail)) := by simpa using hat
            have hesc := escape_U (e := e) (s := adv s 1) r tail hmax (by
              have := At.adv (a := [92]) hat1
              simpa using this)
            have hesc' : doubleQuotedEscape e (adv s 1) =
                .ok (encodeRune r) (adv (adv s 1) (85 :: rtohex r 8).length) := by
              rw [hesc]; simp [rtohex_length]
            rw [dq_escape_step n buf (85 :: rtohex r 8) tail (encodeRune r) hat1 hesc', htake]
            simp [rtohex_length]

theorem dqPiece_length_pos (isPrint : Int → Bool) (r : Rune) (w : Nat) (b : UInt8) :
    0 < (dqPiece isPrint r w b).length := by
  unfold dqPiece
  split
  · simp
  · split
    · simp
    · split
      · exact encodeRune_length_pos r
      · split
        · simp
        · split <;> simp

theorem toRunes_length_le_qdl (isPrint : Int → Bool) : ∀ v : Bytes,
    (toRunes v).length ≤ (quoteDoubleLoop isPrint 0 v).length := by
  intro v
  induction v using runes_induction with
  | nil => simp [toRunes, runes, runesFrom]
  | step v hv ih =>
    rw [toRunes_of_ne_nil hv]
    cases v with
    | nil => exact absurd rfl hv
    | cons b t =>
      rw [qdl_step]
      have := dqPiece_length_pos isPrint (decodeRune (b :: t)).1 (decodeRune (b :: t)).2 b
      simp only [List.length_cons, List.length_append]
      omega

/-- `doubleQuotedLoop` over the body of a double-quoted string up to and
including the closing quote gives back the quoted bytes -/
theorem doubleQuotedLoop_run {e : C01.Env} : ∀ (v : Bytes) (n : Nat) (s : St) (buf rest : Bytes),
    (toRunes v).length < n → At e s (quoteDoubleLoop e.isPrint 0 v ++ (34 :: rest)) →
    doubleQuotedLoop n buf e s = .ok (buf ++ v) (adv s ((quoteDoubleLoop e.isPrint 0 v).length + 1)) := by
  intro v
  induction v using runes_induction with
  | nil =>
    intro n s buf rest hn hat
    cases n with
    | zero => simp at hn
    | succ n =>
      simp only [quoteDoubleLoop, List.nil_append] at hat
      obtain ⟨hnx, _⟩ := next_ascii (b := 34) (by decide) hat
      unfold doubleQuotedLoop
      rw [bind_of_eq hnx]
      have c1 : ((((34 : UInt8).toNat : Nat) : Int) == eof) = false := by decide
      have c2 : ((((34 : UInt8).toNat : Nat) : Int) == 34) = true := by decide
      simp only [c1, c2, Bool.false_eq_true, if_false, if_true]
      simp [quoteDoubleLoop]
  | step v hv ih =>
    intro n s buf rest hn hat
    cases v with
    | nil => exact absurd rfl hv
    | cons b t =>
      rw [toRunes_of_ne_nil hv] at hn
      cases n with
      | zero => simp at hn
      | succ n =>
        rw [qdl_step, List.append_assoc] at hat
        rw [dq_step n buf _ b t hat]
        have hat' := hat.adv
        rw [ih n _ _ rest (by simp only [List.length_cons] at hn; omega) hat', adv_adv, qdl_step]
        simp only [List.append_assoc, List.take_append_drop, List.length_append]
        congr 2

theorem allowedInBareword_34 (isPrint : Int → Bool) (ctx : Int) : allowedInBareword isPrint 34 ctx = false := by
  simp [allowedInBareword, allowedInVariableName]

theorem startsPrimary_34 (isPrint : Int → Bool) (ctx : Int) : startsPrimary isPrint 34 ctx = true := by
  simp [startsPrimary]

/-- a double-quoted string parses back to its value (any bytes) -/
theorem primary_double_rt {e : C01.Env} {s : St} {v rest : Bytes} (ctx : Int) (fuel : Nat)
    (hat : At e s (quoteDouble e.isPrint v ++ rest)) :
    parseNT (fuel + 1) (.primary ctx) e s =
      .ok (quotedNode ctx DoubleQuoted s.pos (quoteDouble e.isPrint v) v)
        (adv s (quoteDouble e.isPrint v).length) := by
  have hq : quoteDouble e.isPrint v = 34 :: (quoteDoubleLoop e.isPrint 0 v ++ [34]) := by
    simp [quoteDouble]
  have hat0 : At e s (34 :: (quoteDoubleLoop e.isPrint 0 v ++ (34 :: rest))) := by
    rw [hq] at hat; simpa using hat
  have hpeek : peekOf (quoteDouble e.isPrint v ++ rest) = 34 := by
    rw [hq]
    simp only [List.cons_append]
    rw [peekOf_cons_ascii 34 _ (by decide)]
    decide
  obtain ⟨hnx, hat1⟩ := next_ascii (b := 34) (by decide) hat0
  have hlen := hat0.len
  have hfuel : (toRunes v).length < e.src.length + 2 := by
    have := toRunes_length_le_qdl e.isPrint v
    simp only [List.length_append, List.length_cons] at hlen
    omega
  have hinner : doubleQuotedInner e (adv s 1) =
      .ok v (adv (adv s 1) ((quoteDoubleLoop e.isPrint 0 v).length + 1)) := by
    unfold doubleQuotedInner
    rw [bind_of_eq (loopFuel_eq e _)]
    have := doubleQuotedLoop_run v (e.src.length + 2) _ [] rest hfuel hat1
    simpa using this
  have hbody : primaryBody (fun nt' => parseNT fuel nt') { frm := s.pos, f := { ctx := ctx }, children := [] } e s =
      .ok ((NB.setType { frm := s.pos, f := { ctx := ctx }, children := [] } DoubleQuoted).setValue v)
        (adv s (quoteDouble e.isPrint v).length) := by
    simp only [primaryBody]
    rw [bind_of_eq (getEnv_eq e s), bind_of_eq (peek_at hat), hpeek]
    simp only [startsPrimary_34, allowedInBareword_34, Bool.not_true, Bool.false_eq_true, if_false]
    have h39 : ((34 : Int) == 39) = false := by decide
    have h34 : ((34 : Int) == 34) = true := by decide
    simp only [h39, h34, Bool.false_eq_true, if_false, if_true]
    unfold doubleQuoted
    have hnx' : next e s = .ok (34 : Int) (adv s 1) := hnx
    rw [bind_of_eq hnx', bind_of_eq hinner]
    simp only [adv_adv, hq, List.length_append, List.length_cons, List.length_nil]
    have : 1 + ((quoteDoubleLoop e.isPrint 0 v).length + 1) = (quoteDoubleLoop e.isPrint 0 v).length + (0 + 1) + 1 := by omega
    rw [this]
    rfl
  simp only [parseNT, wrap]
  rw [bind_of_eq (getPos_eq e s)]
  simp only [body, NT.init]
  rw [bind_of_eq hbody, bind_of_eq (getPos_eq e _)]
  simp only [NB.setType, NB.setValue]
  have hlen2 := hat.len
  generalize hw : quoteDouble e.isPrint v = w at *
  simp only [List.length_append] at hlen2
  rw [bind_of_eq (sliceSrc_at (s := adv s w.length) (a := s.pos) (b := (adv s w.length).pos)
    (by simp [adv]) (by simp only [adv]; omega))]
  simp only [adv, Nat.add_sub_cancel_left, hat.take]
  rfl

end C43
