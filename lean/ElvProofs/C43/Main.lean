/-
C43 helper lemmas, part 3: inversion of `completeG`, and the range facts in
terms of the parse tree.
-/
import ElvProofs.C43.Range
namespace C43
open Go C01
open Gen.C01Chars

/-- what a successful `Complete` went through -/
theorem completeG_result {fixed : Bool} {env : Env} {src : Bytes} {dot : Int} {r : Result}
    (h : completeG fixed env src dot = .result r) :
    ∃ tree errs path ctx g, parse env.isPrint src = .ok tree errs ∧ findLeft tree dot = some path ∧
      runCompleters fixed env path = .ok (some (ctx, g)) ∧ r = finish fixed env ctx g ∧
      (fixed = true → ∀ x, path.head? = some x → ¬ (x.1.kind = .sep ∧ endsInComment x.1.text = true)) := by
  unfold completeG at h
  split at h
  · cases h
  · cases h
  · rename_i tree errs hp
    split at h
    · cases h
    · cases h
    · rename_i leaf i rest hf
      split at h
      · cases h
      · rename_i hcom
        split at h
        · rename_i ctx g hr
          simp only [Outcome.result.injEq] at h
          refine ⟨tree, errs, (leaf, i) :: rest, ctx, g, hp, hf, hr, h.symm, ?_⟩
          intro hfx x hx hk
          simp only [List.head?_cons, Option.some.injEq] at hx
          subst hx
          apply hcom
          simp [hfx, hk.1, hk.2]
        all_goals cases h

theorem finish_frm {fixed env ctx g} : (finish fixed env ctx g).frm = ctx.frm := rfl
theorem finish_to {fixed env ctx g} : (finish fixed env ctx g).to = ctx.to := rfl
theorem finish_name {fixed env ctx g} : (finish fixed env ctx g).name = ctx.name := rfl

theorem splitSigil_append (v : Bytes) : (splitSigil v).1 ++ (splitSigil v).2 = v := by
  unfold splitSigil
  split <;> simp

theorem splitNs_append (q : Bytes) :
    (splitIncompleteQNameNs q).1 ++ (splitIncompleteQNameNs q).2 = q := by
  have hsplit : (q.reverse.takeWhile (· != 58)) ++ (q.reverse.dropWhile (· != 58)) = q.reverse :=
    List.takeWhile_append_dropWhile
  generalize htw : q.reverse.takeWhile (· != 58) = tw at hsplit
  generalize hdw : q.reverse.dropWhile (· != 58) = dw at hsplit
  have hq : q = dw.reverse ++ tw.reverse := by
    have := congrArg List.reverse hsplit
    simpa using this.symm
  unfold splitIncompleteQNameNs
  simp only [htw, List.length_reverse]
  have hlen : q.length - tw.length = dw.reverse.length := by rw [hq]; simp
  rw [hlen]
  conv => lhs; arg 1; rw [hq]
  rw [List.take_left' rfl]
  exact hq.symm

/-- the name seed of a variable: what follows sigil and namespace -/
theorem value_split (v : Bytes) :
    v = (splitSigil v).1 ++ (splitIncompleteQNameNs (splitSigil v).2).1 ++
      (splitIncompleteQNameNs (splitSigil v).2).2 := by
  conv => lhs; rw [← splitSigil_append v, ← splitNs_append (splitSigil v).2]
  simp

/-- every offered item is a raw candidate with the seed as prefix, cooked in
the context's style -/
theorem finish_items {fixed : Bool} {env : Env} {ctx : Ctx} {g : Gen} {it : Item}
    (h : it ∈ (finish fixed env ctx g).items) :
    ∃ raw, raw ∈ (match g with | .items l => l | .err => []) ∧ ctx.seed.isPrefixOf raw.stem = true ∧
      it = cook env.isPrint (styleOf fixed ctx.quote) raw := by
  unfold finish at h
  simp only at h
  have h1 := (dedup_sublist _).subset h
  obtain ⟨raw, hraw, hit⟩ := List.mem_map.mp h1
  have h2 := mem_sortRaw.mp hraw
  unfold filterPrefix at h2
  obtain ⟨h3, h4⟩ := List.mem_filter.mp h2
  exact ⟨raw, h3, h4, hit.symm⟩

/-- the style handed to `Cook` is one of the three quoting styles -/
theorem styleOf_fixed (q : Int) :
    styleOf true q = Bareword ∨ styleOf true q = SingleQuoted ∨ styleOf true q = DoubleQuoted := by
  unfold styleOf
  simp only [if_true]
  split
  · rename_i h
    simp only [Bool.or_eq_true, beq_iff_eq] at h
    rcases h with h | h
    · right; left; exact h
    · right; right; exact h
  · left; rfl

end C43
