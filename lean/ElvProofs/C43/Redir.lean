/-
C43 helper lemmas, part 15 (round 2): the target of a redirection —
`sort < fo`, `ls >> (date) fo` … — and the final form of the nesting theorem:
the innermost command may end with a redirection sign (and one optional space)
before the word being completed.
-/
import ElvProofs.C43.Brace
namespace C43
open Go C01
open Gen.C01Chars

/-! ## `(*Redir).parse` without a left operand, up to its right operand -/

theorem error_pos {m : Msg} {e : C01.Env} {s s' : St} {x : Unit} (h : C01.error m e s = .ok x s') : s'.pos = s.pos := by
  unfold C01.error at h
  rw [C02.errorp_ok h]

theorem setMode_pos {nb nb' : NB} {sign : Bytes} {e : C01.Env} {s s' : St}
    (h : setMode nb sign e s = .ok nb' s') : s'.pos = s.pos := by
  unfold setMode at h
  cases hm : redirMode sign with
  | some m =>
    rw [hm] at h
    simp only at h
    rw [← (ok_pure_inv h).2]
  | none =>
    rw [hm] at h
    simp only at h
    obtain ⟨_, s1, h1, h⟩ := C02.bind_ok.1 h
    rw [← (ok_pure_inv h).2]
    exact error_pos h1

/-- "the text from the position on" only depends on the position -/
theorem At.of_pos {e : C01.Env} {s s' : St} {t : Bytes} (h : At e s t) (hp : s'.pos = s.pos) : At e s' t := by
  unfold At at *
  rw [hp]; exact h

theorem sign_facts (isPrint : Int → Bool) {r : Nat} (h : r = 60 ∨ r = 62) :
    validRune r = true ∧ isRedirSign (r : Int) = true ∧ ((r : Int) == 38) = false ∧
      startsCompound isPrint (r : Int) NormalExpr = false ∧ NextStart (r : Int) := by
  rcases h with rfl | rfl
  · refine ⟨by decide, by decide, by decide, ?_, ⟨by decide, by decide, by decide⟩⟩
    simp [startsCompound, startsIndexing, startsPrimary, allowedInBareword, allowedInVariableName, NormalExpr, CmdExpr]
  · refine ⟨by decide, by decide, by decide, ?_, ⟨by decide, by decide, by decide⟩⟩
    simp [startsCompound, startsIndexing, startsPrimary, allowedInBareword, allowedInVariableName, NormalExpr, CmdExpr]

theorem sign_peek {rs : List Nat} (hs : SignRunes rs) (t : Bytes) :
    ∃ r0 : Nat, (r0 = 60 ∨ r0 = 62) ∧ peekOf (encodeRunes rs ++ t) = (r0 : Int) := by
  obtain ⟨hne, hall⟩ := hs
  cases rs with
  | nil => exact absurd rfl hne
  | cons r0 rs' =>
    have h0 := hall r0 List.mem_cons_self
    refine ⟨r0, h0, ?_⟩
    have : encodeRunes (r0 :: rs') ++ t = encodeRune r0 ++ (encodeRunes rs' ++ t) := by simp [encodeRunes]
    rw [this, peekOf_rune (sign_facts (fun _ => false) h0).1]

theorem blank_next (isPrint : Int → Bool) (sp : Bool) (T : Bytes) (hT : WordStart isPrint (peekOf T)) :
    isRedirSign (peekOf (blank sp ++ T)) = false := by
  cases sp with
  | true => simp only [blank, if_true, List.cons_append, List.nil_append]; rw [peekOf_space]; decide
  | false =>
    simp only [blank, Bool.false_eq_true, if_false, List.nil_append]
    exact hT.facts.2.2.2.2.2.2.1

/-- `formLoop` at a redirection sign: the `Redir` it adds starts at the sign
and has, as a child, the compound parsed after the sign and the blank -/
theorem formLoop_redir {e : C01.Env} (g n : Nat) (Q : Bytes) (ty : Int) (stem : Bytes) (rs : List Nat) (hs : SignRunes rs)
    (sp : Bool) (T : Bytes) (hT : WordStart e.isPrint (peekOf T)) (hn : ∀ s : St, At e s T → s.pos ≤ n)
    (hreach : CReach e g n Q ty stem T) (M : Nat) (nb nbR : NB) (s sR : St)
    (hat : At e s (encodeRunes rs ++ (blank sp ++ T)))
    (h : formLoop (fun nt' => parseNT (g + 4) nt') (M + 1) nb e s = .ok nbR sR) :
    ∃ c, c ∈ nbR.children ∧ c.frm ≤ n ∧ Reaches n Q ty stem c := by
  obtain ⟨r0, h0, hpk⟩ := sign_peek hs (blank sp ++ T)
  obtain ⟨_, hrd0, h38, hsc, _⟩ := sign_facts e.isPrint h0
  -- position bookkeeping
  have hatB := hat.adv
  have hatT : At e (adv (adv s (encodeRunes rs).length) (blank sp).length) T := hatB.adv
  have hpos : s.pos ≤ n := by
    have := hn _ hatT
    simp only [adv] at this
    omega
  unfold formLoop at h
  rw [bind_of_eq (getEnv_eq e s), bind_of_eq (peek_at hat), hpk] at h
  simp only [h38, hsc, hrd0, Bool.false_eq_true, if_false, if_true] at h
  obtain ⟨rd, s1, hrd, h⟩ := C02.bind_ok.1 h
  obtain ⟨nb1, s2, h2, h⟩ := C02.bind_ok.1 h
  obtain ⟨_, l, hl⟩ := (parseSpaces_ext h2).trans (formLoop_ext _ _ _ _ _ _ _ h)
  refine ⟨rd, by rw [hl]; simp [NB.add], ?_⟩
  -- the Redir node
  have hrd' : parseNT ((g + 3) + 1) (.redir none) e s = .ok rd s1 := hrd
  rw [parseNT_succ] at hrd'
  obtain ⟨nbr, text, hb, rfl⟩ := wrap_ok' hrd'
  simp only [body, redirBody, attachLeft] at hb
  have hextAll := redirRest_ext hb
  unfold redirRest at hb
  rw [bind_of_eq (getPos_eq e s), bind_of_eq (loopFuel_eq e s)] at hb
  have hlen := hat.len
  have hfuel : rs.length < e.src.length + 2 := by
    have := length_le_encodeRunes rs
    simp only [List.length_append] at hlen
    omega
  have hskip := skipWhile_run (e := e) isRedirSign rs (e.src.length + 2) s (blank sp ++ T)
    (fun r hr => ⟨(sign_facts e.isPrint (hs.2 r hr)).1, (sign_facts e.isPrint (hs.2 r hr)).2.1⟩)
    (blank_next e.isPrint sp T hT) hfuel hat
  rw [bind_of_eq hskip, bind_of_eq (getPos_eq e _)] at hb
  obtain ⟨sign, s3, hsl, hb⟩ := C02.bind_ok.1 hb
  have e3 := C02.Pure.sliceSrc _ _ e _ sign s3 hsl
  subst e3
  obtain ⟨nb2, s4, h4, hb⟩ := C02.bind_ok.1 hb
  have hp4 := setMode_pos h4
  obtain ⟨nb3, s5, h5, hb⟩ := C02.bind_ok.1 hb
  have hp5 : s5 = s4 := (addSep_facts h5).1
  rw [hp5] at hb
  have hatB4 : At e s4 (blank sp ++ T) := hatB.of_pos hp4
  obtain ⟨nb4, s6, h6, hb⟩ := C02.bind_ok.1 hb
  have hat6 : At e s6 T ∧ s6.pos = s.pos + (encodeRunes rs).length + (blank sp).length := by
    cases sp with
    | true =>
      have hb4 : At e s4 (32 :: T) := by simpa [blank] using hatB4
      obtain ⟨hs6, _, _⟩ := parseSpaces_one hb4 hT.next.nb hT.next.n35 hT.next.n94 h6
      rw [hs6]
      have := hb4.adv (a := [32])
      refine ⟨by simpa using this, ?_⟩
      simp only [adv, blank, if_true, List.length_cons, List.length_nil]
      rw [hp4]; simp only [adv]
    | false =>
      have hb4 : At e s4 T := by simpa [blank] using hatB4
      obtain ⟨hs6, _⟩ := parseSpaces_zero hb4 hT.next h6
      rw [hs6]
      refine ⟨hb4, ?_⟩
      simp only [blank, Bool.false_eq_true, if_false, List.length_nil, Nat.add_zero]
      rw [hp4]; simp only [adv]
  obtain ⟨hatT6, hpos6⟩ := hat6
  have hne38 : peekOf T ≠ 38 := by
    have := hT.facts.2.2.2.2.2.1
    simpa using this
  rw [bind_of_eq (parseSep_no _ 38 hatT6 hne38)] at hb
  simp only [Bool.false_eq_true, if_false] at hb
  obtain ⟨right, s7, hright, hb⟩ := C02.bind_ok.1 hb
  obtain ⟨hrf, hrr⟩ := hreach NormalExpr s6 s7 right hatT6 hright
  have hrle : right.frm ≤ n := by rw [hrf]; exact hn s6 hatT6
  have hmem : right ∈ nbr.children := by
    split at hb
    · obtain ⟨_, s8, _, hb⟩ := C02.bind_ok.1 hb
      rw [← (ok_pure_inv hb).1]; simp [NB.add]
    · rw [← (ok_pure_inv hb).1]; simp [NB.add]
  refine ⟨?_, ?_⟩
  · show nbr.frm ≤ n
    rw [hextAll.1]; exact hpos
  · exact hrr.down (X := Node.mk (NT.redir none).kind nbr.frm s1.pos text nbr.f nbr.children) hmem hrle
      (Or.inl (by simp [Node.kind, NT.kind]))

/-! ## commands with at least one word, whose `formLoop` at the target reaches the word -/

/-- `Form.parse` on `w₀ ␣ … ␣ wₖ ␣ T` (at least one word) where `formLoop` at `T` reaches the word -/
theorem form_args {e : C01.Env} (f n : Nat) (Q : Bytes) (ty : Int) (stem : Bytes) (T : Bytes) (hX : NextStart (peekOf T))
    (hloop : ∀ (M : Nat) (nb nbR : NB) (s sR : St), At e s T →
      formLoop (fun nt' => parseNT (f + 3) nt') (M + 1) nb e s = .ok nbR sR →
      ∃ c, c ∈ nbR.children ∧ c.frm ≤ n ∧ Reaches n Q ty stem c)
    (w : Bytes × Int) (ws' : List (Bytes × Int)) (s sR : St) (F : Node)
    (hat : At e s (lineText e.isPrint (w :: ws') ++ T)) (h : parseNT (f + 4) .form e s = .ok F sR) :
    F.kind = .form ∧ F.frm = s.pos ∧ Reaches n Q ty stem F := by
  obtain ⟨hff, hfk⟩ := form_frm h
  refine ⟨hfk, hff, ?_⟩
  rw [parseNT_succ (f + 3)] at h
  obtain ⟨nbR, text, hb, rfl⟩ := wrap_ok' h
  simp only [body] at hb
  suffices hc : ∃ c, c ∈ nbR.children ∧ c.frm ≤ n ∧ Reaches n Q ty stem c by
    obtain ⟨c, hm, hf, hr⟩ := hc
    exact hr.down (X := Node.mk NT.form.kind nbR.frm sR.pos text nbR.f nbR.children) hm hf
      (Or.inl (by simp [Node.kind, NT.kind]))
  unfold formBody at hb
  have hat' : At e s ((QuoteAs e.isPrint w.1 w.2).1 ++ 32 :: (lineText e.isPrint ws' ++ T)) := by
    simpa [lineText] using hat
  have hword := quoteAs_word_at w.1 w.2 CmdExpr _ f (stops_space e.isPrint CmdExpr _) hat'
  have hat2 := hat'.adv
  obtain ⟨g1, g35, g94⟩ := lineText_next e.isPrint T hX ws'
  rw [bind_of_eq hword] at hb
  obtain ⟨nb1, s1, hsp, hb2⟩ := C02.bind_ok.1 hb
  obtain ⟨hs1, _, _⟩ := parseSpaces_one hat2 g1 g35 g94 hsp
  rw [hs1] at hb2
  rw [bind_of_eq (loopFuel_eq e _)] at hb2
  have hat3 : At e (adv (adv s (QuoteAs e.isPrint w.1 w.2).1.length) 1) (lineText e.isPrint ws' ++ T) := by
    have := hat2.adv (a := [32])
    simpa using this
  have hlen := hat3.len
  have hfuel : ws'.length < e.src.length + 2 := by
    have := lineText_length e.isPrint ws'
    simp only [List.length_append] at hlen
    omega
  obtain ⟨nb', _, h'⟩ := formLoop_walk f T hX ws' _ nb1 nbR _ sR hfuel hat3 hb2
  have hpos : e.src.length + 2 - ws'.length = (e.src.length + 1 - ws'.length) + 1 := by omega
  rw [hpos] at h'
  exact hloop _ nb' nbR _ sR hat3.adv h'

/-- one nesting level, given what `Form.parse` does at the start of its current command -/
theorem frame_gen {e : C01.Env} (f n : Nat) (Q : Bytes) (ty : Int) (stem : Bytes) (fr : Frame) (hok : FrameOk fr)
    (T : Bytes) (hstart : WordStart e.isPrint (peekOf (lineText e.isPrint fr.2.2 ++ T)))
    (hpos : ∀ s : St, At e s (lineText e.isPrint fr.2.2 ++ T) → s.pos ≤ n)
    (hform : ∀ (s sF : St) (F : Node), At e s (lineText e.isPrint fr.2.2 ++ T) →
      parseNT (f + 4) .form e s = .ok F sF → F.kind = .form ∧ F.frm = s.pos ∧ Reaches n Q ty stem F)
    (s sc : St) (c : Node) (hat : At e s (frameText e.isPrint fr ++ T))
    (h : parseNT (f + 6) .chunk e s = .ok c sc) :
    c.kind = .chunk ∧ c.frm = s.pos ∧ Reaches n Q ty stem c := by
  obtain ⟨ps, fs, ws⟩ := fr
  obtain ⟨hps, hfs⟩ := hok
  simp only at hps hfs hstart hpos hform
  have hat' : At e s (chunkText e.isPrint ps ++ (pipeText e.isPrint fs ++ (lineText e.isPrint ws ++ T))) := by
    simpa [frameText] using hat
  have hwp := pipeText_start e.isPrint fs hfs _ hstart
  obtain ⟨hk1, hf1, p, sp, hpm, hp1⟩ := chunk_target f ps hps _ hwp s sc c hat' h
  have hat1 := hat'.adv
  obtain ⟨hk2, hf2, F, sF, hFm, hF1⟩ := pipeline_target f fs hfs _ hstart _ sp p hat1 hp1
  have hat2 := hat1.adv
  obtain ⟨hk3, hf3, hr⟩ := hform _ sF F hat2 hF1
  have hnT := hpos _ hat2
  simp only [adv] at hnT hf2 hf3
  refine ⟨hk1, hf1, ?_⟩
  refine Reaches.down hpm (by rw [hf2]; omega) (Or.inl (by rw [hk1]; decide)) ?_
  exact Reaches.down hFm (by rw [hf3]; omega) (Or.inl (by rw [hk2]; decide)) hr

/-- the text of the outer nesting levels -/
def outerText (isPrint : Int → Bool) (outer : List (Frame × Bool)) : Bytes :=
  outer.flatMap fun p => frameText isPrint p.1 ++ opener p.2

theorem outerText_cons (isPrint : Int → Bool) (p : Frame × Bool) (outer : List (Frame × Bool)) :
    outerText isPrint (p :: outer) = frameText isPrint p.1 ++ (opener p.2 ++ outerText isPrint outer) := by
  simp [outerText]

theorem opener_length (b : Bool) : 1 ≤ (opener b).length := by
  cases b <;> simp [opener]

theorem outerText_length (isPrint : Int → Bool) : ∀ outer : List (Frame × Bool),
    outer.length ≤ (outerText isPrint outer).length
  | [] => Nat.zero_le _
  | p :: outer => by
    have := outerText_length isPrint outer
    have := opener_length p.2
    rw [outerText_cons]
    simp only [List.length_cons, List.length_append]
    omega

/-- any depth, given what `Chunk.parse` does on the innermost level -/
theorem nest_gen {e : C01.Env} (Q : Bytes) (ty : Int) (stem : Bytes) (X : Bytes) (m : Nat)
    (hXs : WordStart e.isPrint (peekOf X))
    (hinner : ∀ (f : Nat) (s sc : St) (c : Node), At e s X → parseNT (f + 7) .chunk e s = .ok c sc →
      c.kind = .chunk ∧ c.frm = s.pos ∧ Reaches (s.pos + m) Q ty stem c) :
    ∀ (outer : List (Frame × Bool)), (∀ p ∈ outer, FrameOk p.1) → ∀ (f : Nat) (s sc : St) (c : Node),
      At e s (outerText e.isPrint outer ++ X) →
      parseNT (f + 6 * outer.length + 7) .chunk e s = .ok c sc →
      c.kind = .chunk ∧ c.frm = s.pos ∧ Reaches (s.pos + (outerText e.isPrint outer).length + m) Q ty stem c := by
  intro outer
  induction outer with
  | nil =>
    intro _ f s sc c hat h
    have hat' : At e s X := by simpa [outerText] using hat
    have hf : f + 6 * ([] : List (Frame × Bool)).length + 7 = f + 7 := by simp
    rw [hf] at h
    have := hinner f s sc c hat' h
    simpa [outerText] using this
  | cons p outer ih =>
    intro hok f s sc c hat h
    obtain ⟨fr, lam⟩ := p
    have hfr : FrameOk fr := hok (fr, lam) List.mem_cons_self
    have hok' : ∀ p' ∈ outer, FrameOk p'.1 := fun p' h' => hok p' (List.mem_cons_of_mem _ h')
    have hat' : At e s (frameText e.isPrint fr ++ (opener lam ++ (outerText e.isPrint outer ++ X))) := by
      rw [outerText_cons] at hat
      simpa using hat
    have hf : f + 6 * ((fr, lam) :: outer).length + 7 = (f + 6 * outer.length + 7) + 6 := by
      simp only [List.length_cons]; omega
    rw [hf] at h
    have hlenT := hat'.len
    simp only [List.length_append] at hlenT
    have hnT : ∀ s' : St, At e s' (opener lam ++ (outerText e.isPrint outer ++ X)) →
        s'.pos = s.pos + (frameText e.isPrint fr).length := by
      intro s' hs'
      have h1 := hs'.len
      simp only [List.length_append] at h1
      omega
    have hnS : ∀ s' : St, At e s' (outerText e.isPrint outer ++ X) →
        s'.pos = s.pos + (frameText e.isPrint fr).length + (opener lam).length := by
      intro s' hs'
      have h1 := hs'.len
      simp only [List.length_append] at h1
      omega
    have hnn : s.pos + (outerText e.isPrint ((fr, lam) :: outer)).length + m =
        s.pos + (frameText e.isPrint fr).length + (opener lam).length + (outerText e.isPrint outer).length + m := by
      rw [outerText_cons]; simp only [List.length_append]; omega
    rw [hnn]
    -- what follows the opener starts a word (or another opener)
    have hSs : WordStart e.isPrint (peekOf (outerText e.isPrint outer ++ X)) := by
      cases outer with
      | nil => simpa [outerText] using hXs
      | cons p' outer' =>
        obtain ⟨fr', lam'⟩ := p'
        have hfr' : FrameOk fr' := hok' (fr', lam') List.mem_cons_self
        rw [outerText_cons, List.append_assoc]
        obtain ⟨ps', fs', ws'⟩ := fr'
        obtain ⟨hps', hfs'⟩ := hfr'
        simp only at hps' hfs'
        have hop : WordStart e.isPrint (peekOf (opener lam' ++ (outerText e.isPrint outer' ++ X))) := by
          cases lam' with
          | false => simp only [opener, Bool.false_eq_true, if_false, List.cons_append, List.nil_append]
                     rw [peekOf_paren]; exact Or.inr (Or.inr (Or.inr (Or.inl rfl)))
          | true => simp only [opener, if_true, List.cons_append, List.nil_append]
                    rw [peekOf_brace]; exact Or.inr (Or.inr (Or.inr (Or.inr rfl)))
        simp only [frameText, List.append_assoc]
        exact chunkText_start e.isPrint ps' hps' _
          (pipeText_start e.isPrint fs' hfs' _ (lineText_start' e.isPrint ws' _ hop))
    have hchunk : ∀ (s' sc' : St) (c' : Node), At e s' (outerText e.isPrint outer ++ X) →
        parseNT (f + 6 * outer.length + 7) .chunk e s' = .ok c' sc' →
        c'.kind = .chunk ∧ c'.frm = s'.pos ∧
          Reaches (s.pos + (frameText e.isPrint fr).length + (opener lam).length +
            (outerText e.isPrint outer).length + m) Q ty stem c' := by
      intro s' sc' c' hs' hc'
      obtain ⟨a1, a2, a3⟩ := ih hok' f s' sc' c' hs' hc'
      rw [hnS s' hs'] at a3
      exact ⟨a1, a2, a3⟩
    have hle : ∀ s' : St, At e s' (outerText e.isPrint outer ++ X) →
        s'.pos ≤ s.pos + (frameText e.isPrint fr).length + (opener lam).length +
          (outerText e.isPrint outer).length + m := by
      intro s' hs'; rw [hnS s' hs']; omega
    cases lam with
    | false =>
      have hat'' : At e s (frameText e.isPrint fr ++ (40 :: (outerText e.isPrint outer ++ X))) := by
        simpa [opener] using hat'
      have hT : WordStart e.isPrint (peekOf (40 :: (outerText e.isPrint outer ++ X))) := by
        rw [peekOf_paren]; exact Or.inr (Or.inr (Or.inr (Or.inl rfl)))
      have hcr := creach_paren (f + 6 * outer.length + 7) _ Q ty stem _ hle hchunk
      refine frame_reach _ _ _ _ stem _ hT (fun s' hs' => ?_) hcr fr hfr s sc c hat'' h
      have := hnT s' (by simpa [opener] using hs')
      rw [this]; omega
    | true =>
      have hat'' : At e s (frameText e.isPrint fr ++ (123 :: 32 :: (outerText e.isPrint outer ++ X))) := by
        simpa [opener] using hat'
      have hT : WordStart e.isPrint (peekOf (123 :: 32 :: (outerText e.isPrint outer ++ X))) := by
        rw [peekOf_brace]; exact Or.inr (Or.inr (Or.inr (Or.inr rfl)))
      have hcr := creach_brace (f + 6 * outer.length + 7) _ Q ty stem _ hSs hle hchunk
      refine frame_reach _ _ _ _ stem _ hT (fun s' hs' => ?_) hcr fr hfr s sc c hat'' h
      have := hnT s' (by simpa [opener] using hs')
      rw [this]; omega

/-- innermost level ending with a redirection sign before the word -/
theorem inner_redir {e : C01.Env} (stem : Bytes) (q : Int) (tail : Bytes)
    (hstop : ∀ ctx, startsIndexing e.isPrint (peekOf tail) ctx = false) (inner : Frame) (hin : FrameOk inner)
    (hws : inner.2.2 ≠ []) (rs : List Nat) (hs : SignRunes rs) (sp : Bool)
    (f : Nat) (s sc : St) (c : Node)
    (hat : At e s (frameText e.isPrint inner ++ (redirText rs sp ++ ((QuoteAs e.isPrint stem q).1 ++ tail))))
    (h : parseNT (f + 7) .chunk e s = .ok c sc) :
    c.kind = .chunk ∧ c.frm = s.pos ∧
      Reaches (s.pos + ((frameText e.isPrint inner).length + (redirText rs sp).length))
        (QuoteAs e.isPrint stem q).1 (QuoteAs e.isPrint stem q).2 stem c := by
  obtain ⟨ps, fs, ws⟩ := inner
  simp only at hws
  obtain ⟨w, ws', rfl⟩ : ∃ w ws', ws = w :: ws' := by
    cases ws with
    | nil => exact absurd rfl hws
    | cons w ws' => exact ⟨w, ws', rfl⟩
  generalize hn : s.pos + ((frameText e.isPrint (ps, fs, w :: ws')).length + (redirText rs sp).length) = n
  have hTxt : redirText rs sp ++ ((QuoteAs e.isPrint stem q).1 ++ tail) =
      encodeRunes rs ++ (blank sp ++ ((QuoteAs e.isPrint stem q).1 ++ tail)) := by
    simp [redirText]
  rw [hTxt] at hat
  have hlenA := hat.len
  simp only [List.length_append] at hlenA
  have hlr : (redirText rs sp).length = (encodeRunes rs).length + (blank sp).length := by simp [redirText]
  -- position of the word
  have hnQ : ∀ s' : St, At e s' ((QuoteAs e.isPrint stem q).1 ++ tail) → s'.pos = n := by
    intro s' hs'
    have h1 := hs'.len
    simp only [List.length_append] at h1
    omega
  have hX : NextStart (peekOf (encodeRunes rs ++ (blank sp ++ ((QuoteAs e.isPrint stem q).1 ++ tail)))) := by
    obtain ⟨r0, h0, hpk⟩ := sign_peek hs (blank sp ++ ((QuoteAs e.isPrint stem q).1 ++ tail))
    rw [hpk]; exact (sign_facts e.isPrint h0).2.2.2.2
  have hf7 : f + 7 = (f + 1) + 6 := by omega
  rw [hf7] at h
  refine frame_gen (f + 1) n _ _ stem (ps, fs, w :: ws') hin _ (lineText_start e.isPrint (w :: ws') (by simp) _) ?_ ?_ s sc c hat h
  · intro s' hs'
    have h1 := hs'.len
    simp only [List.length_append] at h1
    omega
  · intro s' sF F hs' hF
    refine form_args (f + 1) n _ _ stem _ hX ?_ w ws' s' sF F hs' hF
    intro M nb nbR s2 sR hs2 hl
    exact formLoop_redir f n _ _ stem rs hs sp _ (quoteAs_peek e.isPrint stem q tail)
      (fun s3 hs3 => Nat.le_of_eq (hnQ s3 hs3)) (creach_word f n stem q tail hstop hnQ) M nb nbR s2 sR hs2 hl

/-! ## from the `Chunk` run to `Parse` -/

/-- if the `Chunk` node `Parse` builds reaches the word at `n`, the word at `n`
of the whole buffer evaluates to `stem` and ends with the quoted text -/
theorem reach_wordValueAt (isPrint : Int → Bool) (B : Bytes) (n : Nat) (stem : Bytes) (q : Int)
    (hreach : ∀ (tree : Node) (s1 : St),
      parseNT (defaultFuel B) .chunk { isPrint := isPrint, src := B } { pos := 0, overEOF := 0, errors := [] } =
        .ok tree s1 →
      Reaches n (QuoteAs isPrint stem q).1 (QuoteAs isPrint stem q).2 stem tree) :
    wordValueAt isPrint B n = some (stem, n + (QuoteAs isPrint stem q).1.length) := by
  obtain ⟨tree, errs, hp, _⟩ := C01_total_lossless isPrint B
  have hgood := parseAsFuel_good isPrint (defaultFuel B) .chunk B (fun l => by simp)
  have hp' := hp
  unfold parse parseAs at hp'
  rw [hp'] at hgood
  obtain ⟨hwf, _, _, _⟩ := hgood
  rw [parseAsFuel_eq] at hp'
  have hrun : ∃ s1, parseNT (defaultFuel B) .chunk { isPrint := isPrint, src := B }
      { pos := 0, overEOF := 0, errors := [] } = .ok tree s1 := by
    cases hr : (parseNT (defaultFuel B) .chunk >>= fun n => done >>= fun _ => pure n)
        { isPrint := isPrint, src := B } { pos := 0, overEOF := 0, errors := [] } with
    | ok n s =>
      rw [hr] at hp'
      simp only [toResult, ParseResult.ok.injEq] at hp'
      obtain ⟨n', s1, h1, h2⟩ := C02.bind_ok.1 hr
      obtain ⟨_, s2, _, h3⟩ := C02.bind_ok.1 h2
      have := (ok_pure_inv h3).1
      exact ⟨s1, by rw [h1, this, hp'.1]⟩
    | panic w => rw [hr] at hp'; simp [toResult] at hp'
    | fuel => rw [hr] at hp'; simp [toResult] at hp'
  obtain ⟨s1, h1⟩ := hrun
  obtain ⟨ctx, hsp⟩ := hreach tree s1 h1
  have hWt : n < (wordNode ctx n (QuoteAs isPrint stem q).1 (QuoteAs isPrint stem q).2 stem).to := by
    have : 0 < (QuoteAs isPrint stem q).1.length := List.length_pos_iff.mpr (quoteAs_ne_nil isPrint stem q)
    simp only [wordNode, Node.to]; omega
  have hs := (spine_search (W := wordNode ctx n (QuoteAs isPrint stem q).1 (QuoteAs isPrint stem q).2 stem) (n := n)
    rfl rfl hWt hsp hwf).1
  unfold wordValueAt
  rw [hp]
  simp only [hs, wordNode_value isPrint ctx _ _ _ stem (quoteAs_type isPrint stem q)]
  rfl

theorem frameText_start (isPrint : Int → Bool) (fr : Frame) (hok : FrameOk fr) (T : Bytes)
    (h : WordStart isPrint (peekOf (lineText isPrint fr.2.2 ++ T))) :
    WordStart isPrint (peekOf (frameText isPrint fr ++ T)) := by
  obtain ⟨ps, fs, ws⟩ := fr
  obtain ⟨hps, hfs⟩ := hok
  simp only at hps hfs h
  simp only [frameText, List.append_assoc]
  exact chunkText_start isPrint ps hps _ (pipeText_start isPrint fs hfs _ h)

/-- innermost level, the word right after its words -/
theorem inner_word {e : C01.Env} (stem : Bytes) (q : Int) (tail : Bytes)
    (hstop : ∀ ctx, startsIndexing e.isPrint (peekOf tail) ctx = false) (inner : Frame) (hin : FrameOk inner)
    (f : Nat) (s sc : St) (c : Node)
    (hat : At e s (frameText e.isPrint inner ++ ((QuoteAs e.isPrint stem q).1 ++ tail)))
    (h : parseNT (f + 7) .chunk e s = .ok c sc) :
    c.kind = .chunk ∧ c.frm = s.pos ∧
      Reaches (s.pos + (frameText e.isPrint inner).length) (QuoteAs e.isPrint stem q).1 (QuoteAs e.isPrint stem q).2 stem c := by
  have hn : ∀ s' : St, At e s' ((QuoteAs e.isPrint stem q).1 ++ tail) →
      s'.pos = s.pos + (frameText e.isPrint inner).length := by
    intro s' hs'
    have h1 := hs'.len
    have h2 := hat.len
    simp only [List.length_append] at h1 h2
    omega
  have hf7 : f + 7 = (f + 1) + 6 := by omega
  rw [hf7] at h
  exact frame_reach (f + 1) _ _ _ stem _ (quoteAs_peek e.isPrint stem q tail) (fun s' hs' => Nat.le_of_eq (hn s' hs'))
    (creach_word (f + 1) _ stem q tail hstop hn) inner hin s sc c hat h

/-- from `nest_gen` to `wordValueAt` -/
theorem nest_gen_wordValueAt (isPrint : Int → Bool) (outer : List (Frame × Bool)) (hout : ∀ p ∈ outer, FrameOk p.1)
    (stem : Bytes) (q : Int) (X : Bytes) (m : Nat) (hXs : WordStart isPrint (peekOf X))
    (hinner : ∀ (e : C01.Env), e.isPrint = isPrint → ∀ (f : Nat) (s sc : St) (c : Node), At e s X →
      parseNT (f + 7) .chunk e s = .ok c sc →
      c.kind = .chunk ∧ c.frm = s.pos ∧
        Reaches (s.pos + m) (QuoteAs isPrint stem q).1 (QuoteAs isPrint stem q).2 stem c) :
    wordValueAt isPrint (outerText isPrint outer ++ X) ((outerText isPrint outer).length + m) =
      some (stem, (outerText isPrint outer).length + m + (QuoteAs isPrint stem q).1.length) := by
  generalize hB : outerText isPrint outer ++ X = B
  apply reach_wordValueAt
  intro tree s1 h1
  have hlenB : outer.length ≤ B.length := by
    have := outerText_length isPrint outer
    rw [← hB]
    simp only [List.length_append]
    omega
  have hfuel : defaultFuel B = (7 * B.length + 1 - 6 * outer.length) + 6 * outer.length + 7 := by
    unfold defaultFuel; omega
  rw [hfuel] at h1
  obtain ⟨e, hee⟩ : ∃ e : C01.Env, e = { isPrint := isPrint, src := B } := ⟨_, rfl⟩
  rw [← hee] at h1
  have he : e.isPrint = isPrint := by rw [hee]
  have hsrc : e.src = B := by rw [hee]
  have hat0 : At e { pos := 0, overEOF := 0, errors := [] } (outerText e.isPrint outer ++ X) := by
    refine ⟨Nat.zero_le _, ?_⟩
    rw [he, hsrc, ← hB]
    rfl
  obtain ⟨_, _, hr⟩ := nest_gen (e := e) (QuoteAs isPrint stem q).1 (QuoteAs isPrint stem q).2 stem X m
    (by rw [he]; exact hXs) (hinner e he) outer hout _ { pos := 0, overEOF := 0, errors := [] } s1 tree hat0 h1
  simp only [Nat.zero_add, he] at hr
  exact hr

/-- **The full parse of a completed buffer with nested commands.** -/
theorem nest_wordValueAt (isPrint : Int → Bool) (outer : List (Frame × Bool)) (hout : ∀ p ∈ outer, FrameOk p.1)
    (inner : Frame) (hin : FrameOk inner) (stem : Bytes) (q : Int) (tail : Bytes)
    (hstop : ∀ ctx, startsIndexing isPrint (peekOf tail) ctx = false) :
    wordValueAt isPrint (nestText isPrint outer inner ++ ((QuoteAs isPrint stem q).1 ++ tail))
        (nestText isPrint outer inner).length =
      some (stem, (nestText isPrint outer inner).length + (QuoteAs isPrint stem q).1.length) := by
  have h := nest_gen_wordValueAt isPrint outer hout stem q
    (frameText isPrint inner ++ ((QuoteAs isPrint stem q).1 ++ tail)) (frameText isPrint inner).length
    (frameText_start isPrint inner hin _ (lineText_start' isPrint inner.2.2 _ (quoteAs_peek isPrint stem q tail)))
    (fun e he f s sc c hat hc => by
      subst he
      exact inner_word stem q tail hstop inner hin f s sc c hat hc)
  have e1 : outerText isPrint outer ++ (frameText isPrint inner ++ ((QuoteAs isPrint stem q).1 ++ tail)) =
      nestText isPrint outer inner ++ ((QuoteAs isPrint stem q).1 ++ tail) := by
    simp [nestText, outerText]
  have e2 : (outerText isPrint outer).length + (frameText isPrint inner).length =
      (nestText isPrint outer inner).length := by
    simp [nestText, outerText]
  rw [e1, e2] at h
  exact h

/-- **The full parse of a completed redirection target, at any nesting depth.** -/
theorem nest_redir_wordValueAt (isPrint : Int → Bool) (outer : List (Frame × Bool)) (hout : ∀ p ∈ outer, FrameOk p.1)
    (inner : Frame) (hin : FrameOk inner) (hws : inner.2.2 ≠ []) (rs : List Nat) (hs : SignRunes rs) (sp : Bool)
    (stem : Bytes) (q : Int) (tail : Bytes) (hstop : ∀ ctx, startsIndexing isPrint (peekOf tail) ctx = false) :
    wordValueAt isPrint (nestText isPrint outer inner ++ (redirText rs sp ++ ((QuoteAs isPrint stem q).1 ++ tail)))
        ((nestText isPrint outer inner).length + (redirText rs sp).length) =
      some (stem, (nestText isPrint outer inner).length + (redirText rs sp).length +
        (QuoteAs isPrint stem q).1.length) := by
  have hXs : WordStart isPrint (peekOf (frameText isPrint inner ++
      (redirText rs sp ++ ((QuoteAs isPrint stem q).1 ++ tail)))) := by
    refine frameText_start isPrint inner hin _ ?_
    obtain ⟨ps, fs, ws⟩ := inner
    simp only at hws ⊢
    exact lineText_start isPrint ws hws _
  have h := nest_gen_wordValueAt isPrint outer hout stem q
    (frameText isPrint inner ++ (redirText rs sp ++ ((QuoteAs isPrint stem q).1 ++ tail)))
    ((frameText isPrint inner).length + (redirText rs sp).length) hXs
    (fun e he f s sc c hat hc => by
      subst he
      exact inner_redir stem q tail hstop inner hin hws rs hs sp f s sc c hat hc)
  have e1 : outerText isPrint outer ++ (frameText isPrint inner ++
      (redirText rs sp ++ ((QuoteAs isPrint stem q).1 ++ tail))) =
      nestText isPrint outer inner ++ (redirText rs sp ++ ((QuoteAs isPrint stem q).1 ++ tail)) := by
    simp [nestText, outerText]
  have e2 : (outerText isPrint outer).length + ((frameText isPrint inner).length + (redirText rs sp).length) =
      (nestText isPrint outer inner).length + (redirText rs sp).length := by
    simp only [nestText, outerText, List.length_append]; omega
  rw [e1, e2] at h
  exact h

end C43
