/-
C43 helper lemmas, part 11 (round 2): the FULL parse of a completed buffer.

`Words.lean` runs the `Compound` grammar function in place; this file runs the
whole parser (`Chunk → Pipeline → Form → …`) on a buffer of the shape

    w₀ ␣ w₁ ␣ … ␣ wₖ₋₁ ␣ Q tail

(a simple command line: words as `QuoteAs` writes them — barewords, single- or
double-quoted strings — separated by one space; `Q` the inserted candidate;
`tail` any text that does not continue a word) and shows that the tree `Parse`
returns has, at the position of `Q`, exactly the word `Q` was quoted from.

The part of the run up to `Q` is computed; everything after it is arbitrary
(`tail` is any text), so it is only known to return (C01: `Parse` is total) and
to keep the children already added (`Ext`).
-/
import ElvProofs.C43.Files
import ElvProofs.C02.Framework
namespace C43
open Go C01
open Gen.C01Chars

/-! ## the quoted word, at any state -/

/-- `quoteAs_word_rt` for any environment, state and nesting fuel -/
theorem quoteAs_word_at {e : C01.Env} {s : St} (stem : Bytes) (q ctx : Int) (rest : Bytes) (fuel : Nat)
    (hstop : startsIndexing e.isPrint (peekOf rest) ctx = false)
    (hat : At e s ((QuoteAs e.isPrint stem q).1 ++ rest)) :
    parseNT (fuel + 3) (.compound ctx) e s =
      .ok (wordNode ctx s.pos (QuoteAs e.isPrint stem q).1 (QuoteAs e.isPrint stem q).2 stem)
        (adv s (QuoteAs e.isPrint stem q).1.length) := by
  unfold QuoteAs quoteAs at hat ⊢
  by_cases hq : (q == DoubleQuoted) = true
  · simp only [hq, if_true] at hat ⊢
    exact word_double_rt ctx _ hstop hat
  · simp only [hq, Bool.false_eq_true, if_false] at hat ⊢
    by_cases hem : stem.isEmpty = true
    · simp only [hem, if_true] at hat ⊢
      have hs : stem = [] := List.isEmpty_iff.mp hem
      subst hs
      exact word_single_rt (v := []) ctx fuel rfl hstop hat
    · simp only [hem, Bool.false_eq_true, if_false] at hat ⊢
      by_cases hnd : needsDouble e.isPrint stem = true
      · simp only [hnd, if_true] at hat ⊢
        exact word_double_rt ctx _ hstop hat
      · have hnd' : needsDouble e.isPrint stem = false := by simpa using hnd
        simp only [hnd, Bool.false_eq_true, if_false] at hat ⊢
        by_cases hb : (q == Bareword && isBare e.isPrint stem strictExpr) = true
        · simp only [hb, if_true] at hat ⊢
          have hne : stem ≠ [] := fun h0 => hem (by rw [h0]; rfl)
          exact word_bare_rt ctx _ hne hnd' (Bool.and_eq_true_iff.mp hb).2 hstop hat
        · simp only [hb, Bool.false_eq_true, if_false] at hat ⊢
          exact word_single_rt ctx _ (needsDouble_false hnd').1 hstop hat

/-! ## the first rune of a quoted word -/

/-- what a word of these lines can start with: a quote or a rune that is a
bareword rune in every context (the text `QuoteAs` writes), or the `(` / `{` of a
nested command -/
def WordStart (isPrint : Int → Bool) (r : Int) : Prop :=
  r = 34 ∨ r = 39 ∨ allowedInBareword isPrint r strictExpr = true ∨ r = 40 ∨ r = 123

theorem quoteAs_peek (isPrint : Int → Bool) (stem : Bytes) (q : Int) (t : Bytes) :
    WordStart isPrint (peekOf ((QuoteAs isPrint stem q).1 ++ t)) := by
  have hd : peekOf (quoteDouble isPrint stem ++ t) = 34 := by
    have hq : quoteDouble isPrint stem = 34 :: (quoteDoubleLoop isPrint 0 stem ++ [34]) := by simp [quoteDouble]
    rw [hq]
    simp only [List.cons_append]
    rw [peekOf_cons_ascii 34 _ (by decide)]
    decide
  have hs : ∀ v : Bytes, peekOf (quoteSingle v ++ t) = 39 := by
    intro v
    have hq : quoteSingle v = 39 :: (quoteSingleBody v ++ [39]) := by simp [quoteSingle]
    rw [hq]
    simp only [List.cons_append]
    rw [peekOf_cons_ascii 39 _ (by decide)]
    decide
  have hs0 : peekOf (([39, 39] : Bytes) ++ t) = 39 := by
    simp only [List.cons_append]
    rw [peekOf_cons_ascii 39 _ (by decide)]
    decide
  unfold QuoteAs quoteAs
  by_cases hq : (q == DoubleQuoted) = true
  · simp only [hq, if_true]; exact Or.inl hd
  · simp only [hq, Bool.false_eq_true, if_false]
    by_cases hem : stem.isEmpty = true
    · simp only [hem, if_true]; exact Or.inr (Or.inl hs0)
    · simp only [hem, Bool.false_eq_true, if_false]
      by_cases hnd : needsDouble isPrint stem = true
      · simp only [hnd, if_true]; exact Or.inl hd
      · have hnd' : needsDouble isPrint stem = false := by simpa using hnd
        simp only [hnd, Bool.false_eq_true, if_false]
        by_cases hb : (q == Bareword && isBare isPrint stem strictExpr) = true
        · simp only [hb, if_true]
          right; right; left
          obtain ⟨hvalid, _⟩ := needsDouble_false hnd'
          have hw : encodeRunes (toRunes stem) = stem := encodeRunes_toRunes hvalid
          have hbare := (Bool.and_eq_true_iff.mp hb).2
          unfold isBare at hbare
          simp only [Bool.and_eq_true, bne_iff_ne, ne_eq, List.all_eq_true] at hbare
          cases hrs : toRunes stem with
          | nil =>
            rw [hrs] at hw
            have : stem = [] := hw.symm
            exact absurd (by rw [this]; rfl) hem
          | cons r0 rs =>
            have hv : validRune r0 = true := toRunes_validRune stem r0 (by rw [hrs]; exact List.mem_cons_self)
            have hpk : peekOf (stem ++ t) = (r0 : Int) := by
              rw [← hw, hrs]
              have : encodeRunes (r0 :: rs) ++ t = encodeRune r0 ++ (encodeRunes rs ++ t) := by simp [encodeRunes]
              rw [this, peekOf_rune hv]
            rw [hpk]
            exact hbare.2 r0 (by rw [hrs]; exact List.mem_cons_self)
        · simp only [hb, Bool.false_eq_true, if_false]; exact Or.inr (Or.inl (hs stem))

/-- the decisions the parser takes on the first rune of a word -/
theorem WordStart.facts {isPrint : Int → Bool} {r : Int} (h : WordStart isPrint r) :
    IsInlineWhitespace r = false ∧ IsWhitespace r = false ∧ isPipelineSep r = false ∧ (r == 35) = false ∧
      (r == 94) = false ∧ (r == 38) = false ∧ isRedirSign r = false ∧
      (∀ ctx, startsCompound isPrint r ctx = true) ∧ startsPipeline isPrint r = true := by
  have hb : ∀ ctx, startsCompound isPrint r ctx = true := by
    intro ctx
    rcases h with rfl | rfl | h | rfl | rfl
    · simp [startsCompound, startsIndexing, startsPrimary]
    · simp [startsCompound, startsIndexing, startsPrimary]
    · simp [startsCompound, startsIndexing, startsPrimary, allowedInBareword_of_strict isPrint r ctx h]
    · simp [startsCompound, startsIndexing, startsPrimary]
    · simp [startsCompound, startsIndexing, startsPrimary]
  have hne : r ≠ 32 ∧ r ≠ 9 ∧ r ≠ 13 ∧ r ≠ 10 ∧ r ≠ 59 ∧ r ≠ 35 ∧ r ≠ 94 ∧ r ≠ 38 ∧ r ≠ 60 ∧ r ≠ 62 := by
    rcases h with rfl | rfl | h | rfl | rfl
    · decide
    · decide
    · simp only [allowedInBareword, allowedInVariableName, strictExpr, LHSExpr, BracedElemExpr, CmdExpr,
        Bool.or_eq_true, Bool.and_eq_true, decide_eq_true_eq, beq_iff_eq, bne_iff_ne, ne_eq] at h
      omega
    · decide
    · decide
  obtain ⟨h1, h2, h3, h4, h5, h6, h7, h8, h9, h10⟩ := hne
  refine ⟨?_, ?_, ?_, ?_, ?_, ?_, ?_, hb, ?_⟩
  · simp [IsInlineWhitespace, h1, h2]
  · simp [IsWhitespace, IsInlineWhitespace, h1, h2, h3, h4]
  · simp [isPipelineSep, h3, h4, h5]
  · simpa using h6
  · simpa using h7
  · simpa using h8
  · simp [isRedirSign, h9, h10]
  · simp only [startsPipeline, startsForm, hb CmdExpr, Bool.or_true]

theorem WordStart.ne_pipe {isPrint : Int → Bool} {r : Int} (h : WordStart isPrint r) : r ≠ 124 := by
  rcases h with rfl | rfl | h | rfl | rfl
  · decide
  · decide
  · simp only [allowedInBareword, allowedInVariableName, strictExpr, LHSExpr, BracedElemExpr, CmdExpr,
      Bool.or_eq_true, Bool.and_eq_true, decide_eq_true_eq, beq_iff_eq, bne_iff_ne, ne_eq] at h
    omega
  · decide
  · decide

/-! ## what the rest of a run keeps -/

/-- the children added so far stay, in order, at the front -/
def Ext (nb nb' : NB) : Prop := nb'.frm = nb.frm ∧ ∃ l, nb'.children = nb.children ++ l

theorem Ext.refl (nb : NB) : Ext nb nb := ⟨rfl, [], by simp⟩

theorem Ext.trans {a b c : NB} (h1 : Ext a b) (h2 : Ext b c) : Ext a c := by
  obtain ⟨f1, l1, e1⟩ := h1
  obtain ⟨f2, l2, e2⟩ := h2
  exact ⟨f2.trans f1, l1 ++ l2, by rw [e2, e1, List.append_assoc]⟩

theorem Ext.add (nb : NB) (x : Node) : Ext nb (nb.add x) := ⟨rfl, [x], rfl⟩

theorem Ext.of_eq {a b : NB} (hf : b.frm = a.frm) (hc : b.children = a.children) : Ext a b :=
  ⟨hf, [], by simp [hc]⟩

theorem ok_pure_inv {α} {a b : α} {e : C01.Env} {s s' : St} (h : (pure a : M α) e s = .ok b s') : a = b ∧ s = s' := by
  simp only [pure_apply, Out.ok.injEq] at h
  exact h

/-- `addSep` leaves the state alone and appends at most one separator that ends at `pos` -/
theorem addSep_facts {nb nb' : NB} {e : C01.Env} {s s' : St} (h : addSep nb e s = .ok nb' s') :
    s' = s ∧ (nb' = nb ∨ ∃ b t, nb' = nb.add (.mk .sep b s.pos t {} [])) := by
  unfold addSep at h
  rw [bind_of_eq (getPos_eq e s)] at h
  split at h
  · obtain ⟨t, s1, h1, h2⟩ := C02.bind_ok.1 h
    have hs1 := C02.Pure.sliceSrc _ _ e s t s1 h1
    obtain ⟨h3, h4⟩ := ok_pure_inv h2
    subst hs1
    exact ⟨h4.symm, Or.inr ⟨_, t, h3.symm⟩⟩
  · obtain ⟨h3, h4⟩ := ok_pure_inv h
    exact ⟨h4.symm, Or.inl h3.symm⟩

theorem addSep_ext {nb nb' : NB} {e : C01.Env} {s s' : St} (h : addSep nb e s = .ok nb' s') : Ext nb nb' := by
  rcases (addSep_facts h).2 with rfl | ⟨b, t, rfl⟩
  · exact Ext.refl _
  · exact Ext.add _ _

theorem parseSep_ext {nb : NB} {sep : Int} {e : C01.Env} {s s' : St} {r : Bool × NB}
    (h : parseSep nb sep e s = .ok r s') : Ext nb r.2 := by
  unfold parseSep at h
  obtain ⟨x, s1, _, h2⟩ := C02.bind_ok.1 h
  split at h2
  · obtain ⟨_, s2, _, h3⟩ := C02.bind_ok.1 h2
    obtain ⟨nb1, s3, h4, h5⟩ := C02.bind_ok.1 h3
    obtain ⟨h6, _⟩ := ok_pure_inv h5
    rw [← h6]
    exact addSep_ext h4
  · obtain ⟨h6, _⟩ := ok_pure_inv h2
    rw [← h6]
    exact Ext.refl _

theorem parseSpacesInner_ext {nb nb' : NB} {nl : Bool} {e : C01.Env} {s s' : St}
    (h : parseSpacesInner nb nl e s = .ok nb' s') : Ext nb nb' := by
  unfold parseSpacesInner at h
  obtain ⟨k, s1, _, h2⟩ := C02.bind_ok.1 h
  obtain ⟨_, s2, _, h3⟩ := C02.bind_ok.1 h2
  exact addSep_ext h3

theorem parseSpaces_ext {nb nb' : NB} {e : C01.Env} {s s' : St}
    (h : parseSpaces nb e s = .ok nb' s') : Ext nb nb' := parseSpacesInner_ext h

theorem formLoop_ext (rec : NT → M Node) : ∀ (n : Nat) (nb nb' : NB) (e : C01.Env) (s s' : St),
    formLoop rec n nb e s = .ok nb' s' → Ext nb nb'
  | 0, _, _, _, _, _, h => by simp [formLoop, outOfFuel] at h
  | n + 1, nb, nb', e, s, s', h => by
    unfold formLoop at h
    obtain ⟨env, s1, _, h⟩ := C02.bind_ok.1 h
    obtain ⟨r, s2, _, h⟩ := C02.bind_ok.1 h
    split at h
    · obtain ⟨_, s3, _, h⟩ := C02.bind_ok.1 h
      obtain ⟨r2, s4, _, h⟩ := C02.bind_ok.1 h
      obtain ⟨_, s5, _, h⟩ := C02.bind_ok.1 h
      split at h
      · rw [← (ok_pure_inv h).1]; exact Ext.refl _
      · obtain ⟨mp, s6, _, h⟩ := C02.bind_ok.1 h
        obtain ⟨nb1, s7, h7, h⟩ := C02.bind_ok.1 h
        exact (Ext.add nb mp).trans ((parseSpaces_ext h7).trans (formLoop_ext rec n _ _ _ _ _ h))
    · split at h
      · obtain ⟨cn, s3, _, h⟩ := C02.bind_ok.1 h
        obtain ⟨r', s4, _, h⟩ := C02.bind_ok.1 h
        split at h
        · obtain ⟨rd, s5, _, h⟩ := C02.bind_ok.1 h
          obtain ⟨nb1, s6, h6, h⟩ := C02.bind_ok.1 h
          exact (Ext.add nb rd).trans ((parseSpaces_ext h6).trans (formLoop_ext rec n _ _ _ _ _ h))
        · obtain ⟨nb1, s6, h6, h⟩ := C02.bind_ok.1 h
          exact (Ext.add nb cn).trans ((parseSpaces_ext h6).trans (formLoop_ext rec n _ _ _ _ _ h))
      · split at h
        · obtain ⟨rd, s5, _, h⟩ := C02.bind_ok.1 h
          obtain ⟨nb1, s6, h6, h⟩ := C02.bind_ok.1 h
          exact (Ext.add nb rd).trans ((parseSpaces_ext h6).trans (formLoop_ext rec n _ _ _ _ _ h))
        · rw [← (ok_pure_inv h).1]; exact Ext.refl _

theorem pipelineLoop_ext (rec : NT → M Node) : ∀ (n : Nat) (nb : NB) (r : Bool × NB) (e : C01.Env) (s s' : St),
    pipelineLoop rec n nb e s = .ok r s' → Ext nb r.2
  | 0, _, _, _, _, _, h => by simp [pipelineLoop, outOfFuel] at h
  | n + 1, nb, r, e, s, s', h => by
    unfold pipelineLoop at h
    obtain ⟨env, s1, _, h⟩ := C02.bind_ok.1 h
    obtain ⟨x, s2, h2, h⟩ := C02.bind_ok.1 h
    have hx := parseSep_ext h2
    obtain ⟨ok, nb1⟩ := x
    simp only at h hx
    split at h
    · obtain ⟨nb2, s3, h3, h⟩ := C02.bind_ok.1 h
      obtain ⟨r', s4, _, h⟩ := C02.bind_ok.1 h
      split at h
      · obtain ⟨_, s5, _, h⟩ := C02.bind_ok.1 h
        rw [← (ok_pure_inv h).1]
        exact hx.trans (parseSpacesInner_ext h3)
      · obtain ⟨f, s5, _, h⟩ := C02.bind_ok.1 h
        exact hx.trans ((parseSpacesInner_ext h3).trans ((Ext.add nb2 f).trans (pipelineLoop_ext rec n _ _ _ _ _ h)))
    · rw [← (ok_pure_inv h).1]; exact hx

theorem parseSepsLoop_ext : ∀ (n k : Nat) (nb : NB) (r : Nat × NB) (e : C01.Env) (s s' : St),
    parseSepsLoop n k nb e s = .ok r s' → Ext nb r.2
  | 0, _, _, _, _, _, _, h => by simp [parseSepsLoop, outOfFuel] at h
  | n + 1, k, nb, r, e, s, s', h => by
    unfold parseSepsLoop at h
    obtain ⟨c, s1, _, h⟩ := C02.bind_ok.1 h
    split at h
    · obtain ⟨x, s2, h2, h⟩ := C02.bind_ok.1 h
      have hx := parseSep_ext h2
      obtain ⟨ok, nb1⟩ := x
      exact hx.trans (parseSepsLoop_ext n _ _ _ _ _ _ h)
    · split at h
      · obtain ⟨nb1, s2, h2, h⟩ := C02.bind_ok.1 h
        exact (parseSpaces_ext h2).trans (parseSepsLoop_ext n _ _ _ _ _ _ h)
      · rw [← (ok_pure_inv h).1]; exact Ext.refl _

theorem parseSeps_ext {nb : NB} {r : Nat × NB} {e : C01.Env} {s s' : St}
    (h : parseSeps nb e s = .ok r s') : Ext nb r.2 := by
  unfold parseSeps at h
  obtain ⟨k, s1, _, h⟩ := C02.bind_ok.1 h
  exact parseSepsLoop_ext _ _ _ _ _ _ _ h

theorem chunkLoop_ext (rec : NT → M Node) : ∀ (n : Nat) (nb nb' : NB) (e : C01.Env) (s s' : St),
    chunkLoop rec n nb e s = .ok nb' s' → Ext nb nb'
  | 0, _, _, _, _, _, h => by simp [chunkLoop, outOfFuel] at h
  | n + 1, nb, nb', e, s, s', h => by
    unfold chunkLoop at h
    obtain ⟨env, s1, _, h⟩ := C02.bind_ok.1 h
    obtain ⟨r, s2, _, h⟩ := C02.bind_ok.1 h
    split at h
    · obtain ⟨p, s3, _, h⟩ := C02.bind_ok.1 h
      obtain ⟨x, s4, h4, h⟩ := C02.bind_ok.1 h
      have hx := parseSeps_ext h4
      obtain ⟨k, nb1⟩ := x
      simp only at h hx
      split at h
      · rw [← (ok_pure_inv h).1]; exact (Ext.add nb p).trans hx
      · exact (Ext.add nb p).trans (hx.trans (chunkLoop_ext rec n _ _ _ _ _ h))
    · rw [← (ok_pure_inv h).1]; exact Ext.refl _

/-! ## the run up to the inserted word -/

theorem peekOf_space (t : Bytes) : peekOf (32 :: t) = 32 := by
  rw [peekOf_cons_ascii 32 t (by decide)]; decide

/-- one space, then something that is not blank, a comment or a continuation -/
theorem spacesLoop_one {e : C01.Env} {s : St} {rest : Bytes} (k : Nat) (hat : At e s (32 :: rest))
    (h1 : IsInlineWhitespace (peekOf rest) = false) (h2 : (peekOf rest == 35) = false)
    (h3 : (peekOf rest == 94) = false) :
    spacesLoop false (k + 2) e s = .ok () (adv s 1) := by
  have hat0 : At e s (encodeRune 32 ++ rest) := by
    have : encodeRune 32 = [32] := by decide
    rw [this]; exact hat
  obtain ⟨hnx, hat1⟩ := next_rune (r := 32) (by decide) hat0
  have hlen : (encodeRune 32).length = 1 := by decide
  rw [hlen] at hnx hat1
  unfold spacesLoop
  rw [bind_of_eq (peek_at hat), peekOf_space]
  have : IsInlineWhitespace 32 = true := by decide
  simp only [this, if_true]
  rw [bind_of_eq hnx]
  unfold spacesLoop
  rw [bind_of_eq (peek_at hat1)]
  simp only [h1, h2, h3, Bool.false_and, Bool.false_eq_true, if_false]
  rfl

/-- `parseSpaces` over that one space: the state moves one byte on; the builder
gains at most a separator that ends at the new position -/
theorem parseSpaces_one {e : C01.Env} {s s' : St} {rest : Bytes} {nb nb' : NB} (hat : At e s (32 :: rest))
    (h1 : IsInlineWhitespace (peekOf rest) = false) (h2 : (peekOf rest == 35) = false)
    (h3 : (peekOf rest == 94) = false) (h : parseSpaces nb e s = .ok nb' s') :
    s' = adv s 1 ∧ Ext nb nb' ∧ ∀ x ∈ nb'.children, x ∈ nb.children ∨ x.to = s.pos + 1 := by
  have hext := parseSpaces_ext h
  unfold parseSpaces parseSpacesInner at h
  rw [bind_of_eq (loopFuel_eq e s), bind_of_eq (spacesLoop_one _ hat h1 h2 h3)] at h
  obtain ⟨hs, hnb⟩ := addSep_facts h
  refine ⟨hs, hext, ?_⟩
  rcases hnb with rfl | ⟨b, t, rfl⟩
  · intro x hx; exact Or.inl hx
  · intro x hx
    simp only [NB.add, List.mem_append, List.mem_singleton] at hx
    rcases hx with hx | rfl
    · exact Or.inl hx
    · right; rfl

theorem not_redir_of_stops {isPrint : Int → Bool} {r : Int}
    (h : startsIndexing isPrint r CmdExpr = false) : isRedirSign r = false := by
  cases hr : isRedirSign r
  · rfl
  · exfalso
    simp only [isRedirSign, Bool.or_eq_true, beq_iff_eq] at hr
    rcases hr with rfl | rfl <;>
      simp [startsIndexing, startsPrimary, allowedInBareword, CmdExpr] at h

theorem lineText_length (isPrint : Int → Bool) : ∀ ws : List (Bytes × Int), ws.length ≤ (lineText isPrint ws).length
  | [] => Nat.le_refl _
  | w :: ws => by
    have := lineText_length isPrint ws
    simp only [lineText, List.length_cons, List.length_append]
    omega

/-- `formLoop` over the arguments before the inserted word, then the word: the
children of the form are nodes that end at or before the word, the word, and
whatever the rest of the line adds -/
theorem formLoop_line {e : C01.Env} (f : Nat) (stem : Bytes) (q : Int) (tail : Bytes)
    (hstop : ∀ ctx, startsIndexing e.isPrint (peekOf tail) ctx = false) :
    ∀ (ws : List (Bytes × Int)) (N : Nat) (nb nbR : NB) (s sR : St), ws.length < N →
      At e s (lineText e.isPrint ws ++ ((QuoteAs e.isPrint stem q).1 ++ tail)) →
      (∀ x ∈ nb.children, x.to ≤ s.pos) →
      formLoop (fun nt' => parseNT (f + 3) nt') N nb e s = .ok nbR sR →
      ∃ pre l, nbR.children = pre ++
          wordNode NormalExpr (s.pos + (lineText e.isPrint ws).length) (QuoteAs e.isPrint stem q).1
            (QuoteAs e.isPrint stem q).2 stem :: l ∧
        ∀ x ∈ pre, x.to ≤ s.pos + (lineText e.isPrint ws).length := by
  intro ws
  induction ws with
  | nil =>
    intro N nb nbR s sR hN hat hinv h
    obtain ⟨N, rfl⟩ : ∃ N', N = N' + 1 := ⟨N - 1, by omega⟩
    simp only [lineText, List.nil_append] at hat
    obtain ⟨_, _, _, _, _, f38, _, fsc, _⟩ := (quoteAs_peek e.isPrint stem q tail).facts
    have hword := quoteAs_word_at stem q NormalExpr tail f (hstop NormalExpr) hat
    have hat2 := hat.adv
    unfold formLoop at h
    rw [bind_of_eq (getEnv_eq e s), bind_of_eq (peek_at hat)] at h
    simp only [f38, fsc NormalExpr, Bool.false_eq_true, if_false, if_true] at h
    rw [bind_of_eq hword, bind_of_eq (peek_at hat2)] at h
    simp only [not_redir_of_stops (hstop CmdExpr), Bool.false_eq_true, if_false] at h
    obtain ⟨nb1, s1, hsp, h⟩ := C02.bind_ok.1 h
    obtain ⟨_, l, hl⟩ := (parseSpaces_ext hsp).trans (formLoop_ext _ _ _ _ _ _ _ h)
    refine ⟨nb.children, l, ?_, ?_⟩
    · simpa [NB.add, lineText] using hl
    · simpa [lineText] using hinv
  | cons w ws ih =>
    intro N nb nbR s sR hN hat hinv h
    obtain ⟨N, rfl⟩ : ∃ N', N = N' + 1 := ⟨N - 1, by omega⟩
    have hat' : At e s ((QuoteAs e.isPrint w.1 w.2).1 ++
        32 :: (lineText e.isPrint ws ++ ((QuoteAs e.isPrint stem q).1 ++ tail))) := by
      simpa [lineText] using hat
    obtain ⟨_, _, _, _, _, f38, _, fsc, _⟩ := (quoteAs_peek e.isPrint w.1 w.2
      (32 :: (lineText e.isPrint ws ++ ((QuoteAs e.isPrint stem q).1 ++ tail)))).facts
    have hword := quoteAs_word_at w.1 w.2 NormalExpr _ f (stops_space e.isPrint NormalExpr _) hat'
    have hat2 := hat'.adv
    -- what follows the space starts a word
    have hnext : WordStart e.isPrint (peekOf (lineText e.isPrint ws ++ ((QuoteAs e.isPrint stem q).1 ++ tail))) := by
      cases ws with
      | nil => simpa [lineText] using quoteAs_peek e.isPrint stem q tail
      | cons w' ws' =>
        have := quoteAs_peek e.isPrint w'.1 w'.2
          (32 :: (lineText e.isPrint ws' ++ ((QuoteAs e.isPrint stem q).1 ++ tail)))
        simpa [lineText] using this
    obtain ⟨g1, _, _, g35, g94, _, _, _, _⟩ := hnext.facts
    unfold formLoop at h
    rw [bind_of_eq (getEnv_eq e s), bind_of_eq (peek_at hat')] at h
    simp only [f38, fsc NormalExpr, Bool.false_eq_true, if_false, if_true] at h
    rw [bind_of_eq hword, bind_of_eq (peek_at hat2), peekOf_space] at h
    have h32 : isRedirSign 32 = false := by decide
    simp only [h32, Bool.false_eq_true, if_false] at h
    obtain ⟨nb1, s1, hsp, h⟩ := C02.bind_ok.1 h
    obtain ⟨hs1, _, hch⟩ := parseSpaces_one hat2 g1 g35 g94 hsp
    subst hs1
    have hat3 : At e (adv (adv s (QuoteAs e.isPrint w.1 w.2).1.length) 1)
        (lineText e.isPrint ws ++ ((QuoteAs e.isPrint stem q).1 ++ tail)) := by
      have := hat2.adv (a := [32])
      simpa using this
    have hinv1 : ∀ x ∈ nb1.children, x.to ≤ (adv (adv s (QuoteAs e.isPrint w.1 w.2).1.length) 1).pos := by
      intro x hx
      simp only [adv]
      rcases hch x hx with hx | hx
      · simp only [NB.add, List.mem_append, List.mem_singleton] at hx
        rcases hx with hx | rfl
        · have := hinv x hx; omega
        · simp only [wordNode, Node.to]; omega
      · simp only [adv] at hx; omega
    obtain ⟨pre, l, hc, hp⟩ := ih N nb1 nbR _ sR
      (by simp only [List.length_cons] at hN; omega) hat3 hinv1 h
    refine ⟨pre, l, ?_, ?_⟩
    · rw [hc]
      simp only [adv, lineText, List.length_append, List.length_cons]
      congr 3
      omega
    · intro x hx
      have := hp x hx
      simp only [adv, lineText, List.length_append, List.length_cons] at this ⊢
      omega

/-- `(*Form).parse` on `w₀ ␣ … ␣ wₖ₋₁ ␣ Q tail`: the children of the form are
nodes that end at or before `Q`, then the word `Q` (in command context if it is
the head, else as an argument), then whatever `tail` adds -/
theorem formBody_line {e : C01.Env} (f : Nat) (stem : Bytes) (q : Int) (tail : Bytes)
    (hstop : ∀ ctx, startsIndexing e.isPrint (peekOf tail) ctx = false)
    (ws : List (Bytes × Int)) (nb nbR : NB) (s sR : St) (hnb : nb.children = [])
    (hat : At e s (lineText e.isPrint ws ++ ((QuoteAs e.isPrint stem q).1 ++ tail)))
    (h : formBody (fun nt' => parseNT (f + 3) nt') nb e s = .ok nbR sR) :
    ∃ ctx pre l, nbR.children = pre ++
        wordNode ctx (s.pos + (lineText e.isPrint ws).length) (QuoteAs e.isPrint stem q).1
          (QuoteAs e.isPrint stem q).2 stem :: l ∧
      ∀ x ∈ pre, x.to ≤ s.pos + (lineText e.isPrint ws).length := by
  unfold formBody at h
  cases ws with
  | nil =>
    simp only [lineText, List.nil_append] at hat
    have hword := quoteAs_word_at stem q CmdExpr tail f (hstop CmdExpr) hat
    rw [bind_of_eq hword] at h
    obtain ⟨nb1, s1, hsp, h⟩ := C02.bind_ok.1 h
    obtain ⟨k, s2, _, h⟩ := C02.bind_ok.1 h
    obtain ⟨_, l, hl⟩ := (parseSpaces_ext hsp).trans (formLoop_ext _ _ _ _ _ _ _ h)
    refine ⟨CmdExpr, [], l, ?_, by intro x hx; cases hx⟩
    simpa [NB.add, hnb, lineText] using hl
  | cons w ws =>
    have hat' : At e s ((QuoteAs e.isPrint w.1 w.2).1 ++
        32 :: (lineText e.isPrint ws ++ ((QuoteAs e.isPrint stem q).1 ++ tail))) := by
      simpa [lineText] using hat
    have hword := quoteAs_word_at w.1 w.2 CmdExpr _ f (stops_space e.isPrint CmdExpr _) hat'
    have hat2 := hat'.adv
    have hnext : WordStart e.isPrint (peekOf (lineText e.isPrint ws ++ ((QuoteAs e.isPrint stem q).1 ++ tail))) := by
      cases ws with
      | nil => simpa [lineText] using quoteAs_peek e.isPrint stem q tail
      | cons w' ws' =>
        have := quoteAs_peek e.isPrint w'.1 w'.2
          (32 :: (lineText e.isPrint ws' ++ ((QuoteAs e.isPrint stem q).1 ++ tail)))
        simpa [lineText] using this
    obtain ⟨g1, _, _, g35, g94, _, _, _, _⟩ := hnext.facts
    rw [bind_of_eq hword] at h
    obtain ⟨nb1, s1, hsp, h⟩ := C02.bind_ok.1 h
    obtain ⟨hs1, _, hch⟩ := parseSpaces_one hat2 g1 g35 g94 hsp
    subst hs1
    rw [bind_of_eq (loopFuel_eq e _)] at h
    have hat3 : At e (adv (adv s (QuoteAs e.isPrint w.1 w.2).1.length) 1)
        (lineText e.isPrint ws ++ ((QuoteAs e.isPrint stem q).1 ++ tail)) := by
      have := hat2.adv (a := [32])
      simpa using this
    have hinv1 : ∀ x ∈ nb1.children, x.to ≤ (adv (adv s (QuoteAs e.isPrint w.1 w.2).1.length) 1).pos := by
      intro x hx
      simp only [adv]
      rcases hch x hx with hx | hx
      · simp only [NB.add, hnb, List.nil_append, List.mem_singleton] at hx
        subst hx
        simp only [wordNode, Node.to]; omega
      · simp only [adv] at hx; omega
    have hlen := hat3.len
    have hfuel : ws.length < e.src.length + 2 := by
      have := lineText_length e.isPrint ws
      simp only [List.length_append] at hlen
      omega
    obtain ⟨pre, l, hc, hp⟩ := formLoop_line f stem q tail hstop ws _ nb1 nbR _ sR hfuel hat3 hinv1 h
    refine ⟨NormalExpr, pre, l, ?_, ?_⟩
    · rw [hc]
      simp only [adv, lineText, List.length_append, List.length_cons]
      congr 3
      omega
    · intro x hx
      have := hp x hx
      simp only [adv, lineText, List.length_append, List.length_cons] at this ⊢
      omega

/-- what the generic wrapper `parse[N]` returns: the node built from what `n.parse` left -/
theorem wrap_ok {rec : NT → M Node} {nt : NT} {e : C01.Env} {s s' : St} {node : Node}
    (h : wrap rec nt e s = .ok node s') :
    ∃ nb s1 text, body rec nt { frm := s.pos, f := nt.init, children := [] } e s = .ok nb s1 ∧
      node = .mk nt.kind nb.frm s1.pos text nb.f nb.children := by
  unfold wrap at h
  rw [bind_of_eq (getPos_eq e s)] at h
  obtain ⟨nb, s1, h1, h⟩ := C02.bind_ok.1 h
  rw [bind_of_eq (getPos_eq e s1)] at h
  obtain ⟨text, s2, _, h⟩ := C02.bind_ok.1 h
  exact ⟨nb, s1, text, h1, (ok_pure_inv h).1.symm⟩

/-- the `Form` node of the line -/
theorem form_line {e : C01.Env} (f : Nat) (stem : Bytes) (q : Int) (tail : Bytes)
    (hstop : ∀ ctx, startsIndexing e.isPrint (peekOf tail) ctx = false)
    (ws : List (Bytes × Int)) (s sR : St) (F : Node)
    (hat : At e s (lineText e.isPrint ws ++ ((QuoteAs e.isPrint stem q).1 ++ tail)))
    (h : parseNT (f + 4) .form e s = .ok F sR) :
    F.kind = .form ∧ ∃ ctx pre l, F.children = pre ++
        wordNode ctx (s.pos + (lineText e.isPrint ws).length) (QuoteAs e.isPrint stem q).1
          (QuoteAs e.isPrint stem q).2 stem :: l ∧
      ∀ x ∈ pre, x.to ≤ s.pos + (lineText e.isPrint ws).length := by
  simp only [parseNT] at h
  obtain ⟨nb, s1, text, hb, rfl⟩ := wrap_ok h
  simp only [body] at hb
  exact ⟨rfl, formBody_line f stem q tail hstop ws _ nb s s1 rfl hat hb⟩

/-- the `Pipeline` node starts with the `Form` parsed at the same position -/
theorem pipeline_first {e : C01.Env} (f : Nat) (s sR : St) (p : Node)
    (h : parseNT (f + 1) .pipeline e s = .ok p sR) :
    p.kind = .pipeline ∧ ∃ F sF l, parseNT f .form e s = .ok F sF ∧ p.children = F :: l := by
  simp only [parseNT] at h
  obtain ⟨nb, s1, text, hb, rfl⟩ := wrap_ok h
  simp only [body] at hb
  unfold pipelineBody at hb
  obtain ⟨F, sF, hF, hb⟩ := C02.bind_ok.1 hb
  obtain ⟨k, s2, _, hb⟩ := C02.bind_ok.1 hb
  obtain ⟨x, s3, hx, hb⟩ := C02.bind_ok.1 hb
  have hext := pipelineLoop_ext _ _ _ _ _ _ _ hx
  obtain ⟨ret, nb1⟩ := x
  simp only at hb hext
  have hfin : Ext nb1 nb := by
    split at hb
    · rw [← (ok_pure_inv hb).1]; exact Ext.refl _
    · obtain ⟨nb2, s4, h4, hb⟩ := C02.bind_ok.1 hb
      obtain ⟨r, s5, _, hb⟩ := C02.bind_ok.1 hb
      split at hb
      · obtain ⟨_, s6, _, hb⟩ := C02.bind_ok.1 hb
        obtain ⟨nb3, s7, h7, hb⟩ := C02.bind_ok.1 hb
        have h8 := parseSpaces_ext hb
        exact (parseSpaces_ext h4).trans ((addSep_ext h7).trans ((Ext.of_eq rfl rfl).trans h8))
      · rw [← (ok_pure_inv hb).1]; exact parseSpaces_ext h4
  obtain ⟨_, l, hl⟩ := hext.trans hfin
  exact ⟨rfl, F, sF, l, hF, by simpa [NB.add, Node.children] using hl⟩

/-- `parseSeps` before a word: nothing to skip -/
theorem parseSeps_none {e : C01.Env} {s : St} {t : Bytes} (nb : NB) (hat : At e s t)
    (hw : WordStart e.isPrint (peekOf t)) : parseSeps nb e s = .ok (0, nb) s := by
  obtain ⟨g1, _, g3, g35, _, _, _, _, _⟩ := hw.facts
  unfold parseSeps
  rw [bind_of_eq (loopFuel_eq e s)]
  unfold parseSepsLoop
  rw [bind_of_eq (peek_at hat)]
  simp only [g3, g1, g35, Bool.false_eq_true, if_false, Bool.or_self]
  rfl

/-- the `Chunk` node of a text that starts with a word starts with the
`Pipeline` parsed at the same position -/
theorem chunk_first {e : C01.Env} (f : Nat) (s sR : St) (t : Bytes) (c : Node) (hat : At e s t)
    (hw : WordStart e.isPrint (peekOf t)) (h : parseNT (f + 1) .chunk e s = .ok c sR) :
    c.kind = .chunk ∧ ∃ p sp l, parseNT f .pipeline e s = .ok p sp ∧ c.children = p :: l := by
  obtain ⟨g1, _, g3, g35, _, _, _, _, gsp⟩ := hw.facts
  simp only [parseNT] at h
  obtain ⟨nb, s1, text, hb, rfl⟩ := wrap_ok h
  simp only [body] at hb
  unfold chunkBody at hb
  rw [bind_of_eq (parseSeps_none _ hat hw)] at hb
  simp only at hb
  rw [bind_of_eq (loopFuel_eq e s)] at hb
  unfold chunkLoop at hb
  rw [bind_of_eq (getEnv_eq e s), bind_of_eq (peek_at hat)] at hb
  simp only [gsp, if_true] at hb
  obtain ⟨p, sp, hp, hb⟩ := C02.bind_ok.1 hb
  obtain ⟨x, s2, hx, hb⟩ := C02.bind_ok.1 hb
  have hext := parseSeps_ext hx
  obtain ⟨k, nb1⟩ := x
  simp only at hb hext
  have hfin : Ext nb1 nb := by
    split at hb
    · rw [← (ok_pure_inv hb).1]; exact Ext.refl _
    · exact chunkLoop_ext _ _ _ _ _ _ _ hb
  obtain ⟨_, l, hl⟩ := hext.trans hfin
  exact ⟨rfl, p, sp, l, hp, by simpa [NB.add, Node.children] using hl⟩

/-! ## finding the word in the tree -/

theorem lineText_peek (isPrint : Int → Bool) (stem : Bytes) (q : Int) (tail : Bytes) (ws : List (Bytes × Int)) :
    WordStart isPrint (peekOf (lineText isPrint ws ++ ((QuoteAs isPrint stem q).1 ++ tail))) := by
  cases ws with
  | nil => simpa [lineText] using quoteAs_peek isPrint stem q tail
  | cons w' ws' =>
    have := quoteAs_peek isPrint w'.1 w'.2 (32 :: (lineText isPrint ws' ++ ((QuoteAs isPrint stem q).1 ++ tail)))
    simpa [lineText] using this

/-- the text `QuoteAs` writes is never empty -/
theorem quoteAs_ne_nil (isPrint : Int → Bool) (stem : Bytes) (q : Int) : (QuoteAs isPrint stem q).1 ≠ [] := by
  intro h0
  have := quoteAs_peek isPrint stem q []
  rw [h0] at this
  rcases this with h | h | h | h | h
  · revert h; decide
  · revert h; decide
  · have : peekOf ([] ++ []) = eof := rfl
    rw [this] at h
    simp [allowedInBareword, allowedInVariableName, eof, strictExpr] at h
  · revert h; decide
  · revert h; decide

theorem compoundAtL_skip (n : Nat) : ∀ (pre : List Node) (c : Node) (more : List Node),
    (∀ x ∈ pre, x.to ≤ n) → c.frm ≤ n → n < c.to → compoundAtL n (pre ++ c :: more) = compoundAtN n c
  | [], c, more, _, h1, h2 => by simp [compoundAtL, h1, h2]
  | x :: pre, c, more, hp, h1, h2 => by
    have hx := hp x List.mem_cons_self
    have hnot : ¬ (n < x.to) := by omega
    simp only [List.cons_append, compoundAtL, hnot, decide_false, Bool.and_false, Bool.false_eq_true, if_false]
    exact compoundAtL_skip n pre c more (fun y hy => hp y (List.mem_cons_of_mem _ hy)) h1 h2

theorem endOf_append_cons : ∀ (a : Nat) (pre : List Node) (c : Node) (more : List Node),
    endOf a (pre ++ c :: more) = endOf c.to more
  | _, [], _, _ => rfl
  | _, x :: pre, c, more => by simp only [List.cons_append, endOf]; exact endOf_append_cons x.to pre c more

theorem Consec_tail : ∀ (a : Nat) (pre : List Node) (c : Node) (more : List Node),
    Consec a (pre ++ c :: more) → Consec c.to more
  | _, [], _, _, h => h.2
  | _, x :: pre, c, more, h => Consec_tail x.to pre c more h.2

theorem WFs_tail {src : Bytes} : ∀ (pre : List Node) (c : Node) (more : List Node),
    WFs src (pre ++ c :: more) → WF src c ∧ WFs src more
  | [], _, _, h => h
  | _ :: pre, c, more, h => WFs_tail pre c more h.2

/-- a child of a well-formed node is well-formed and ends inside it; the first child starts where it starts -/
theorem wf_child {src : Bytes} {X c : Node} {pre more : List Node} (hw : WF src X)
    (hc : X.children = pre ++ c :: more) : WF src c ∧ c.to ≤ X.to ∧ (pre = [] → c.frm = X.frm) := by
  cases X with
  | mk k a b t f cs =>
    simp only [Node.children] at hc
    subst hc
    simp only [WF] at hw
    obtain ⟨_, _, _, htile, hws⟩ := hw
    obtain ⟨hwc, hwm⟩ := WFs_tail pre c more hws
    rcases htile with h0 | ⟨hcon, hend⟩
    · simp at h0
    · refine ⟨hwc, ?_, ?_⟩
      · simp only [Node.to]
        rw [← hend, endOf_append_cons]
        exact le_endOf hwm (Consec_tail a pre c more hcon)
      · intro hp
        subst hp
        exact hcon.1

/-- the static value of the word -/
theorem wordNode_value (isPrint : Int → Bool) (ctx : Int) (frm : Nat) (w : Bytes) (ty : Int) (stem : Bytes)
    (hty : ty = Bareword ∨ ty = SingleQuoted ∨ ty = DoubleQuoted) :
    purelyEvalPartialCompound (literalEnv isPrint) (wordNode ctx frm w ty stem) (-1) = .ok (some stem) := by
  rcases hty with rfl | rfl | rfl <;>
    simp [purelyEvalPartialCompound, wordNode, quotedNode, Node.childrenOf, Node.children, pepcLoop, headOf,
      Node.kind, Node.ptype, Node.fields, Node.value, Bareword, SingleQuoted, DoubleQuoted, Tilde]

theorem quoteAs_type (isPrint : Int → Bool) (stem : Bytes) (q : Int) :
    (QuoteAs isPrint stem q).2 = Bareword ∨ (QuoteAs isPrint stem q).2 = SingleQuoted ∨
      (QuoteAs isPrint stem q).2 = DoubleQuoted := by
  unfold QuoteAs quoteAs
  split
  · right; right; rfl
  · split
    · right; left; rfl
    · split
      · right; right; rfl
      · split
        · left; rfl
        · right; left; rfl

/-- **The full parse of a completed simple command line.**  `Parse` of
`w₀ ␣ … ␣ wₖ₋₁ ␣ Q tail` returns a tree in which the outermost compound that
starts at the position of `Q` is exactly the word `Q` was quoted from (head of
the command if `k = 0`, else an argument). -/
theorem line_parse (isPrint : Int → Bool) (ws : List (Bytes × Int)) (stem : Bytes) (q : Int) (tail : Bytes)
    (hstop : ∀ ctx, startsIndexing isPrint (peekOf tail) ctx = false) :
    ∃ tree errs ctx, parse isPrint (lineText isPrint ws ++ ((QuoteAs isPrint stem q).1 ++ tail)) = .ok tree errs ∧
      compoundAtN (lineText isPrint ws).length tree =
        some (wordNode ctx (lineText isPrint ws).length (QuoteAs isPrint stem q).1 (QuoteAs isPrint stem q).2 stem) := by
  generalize hB : lineText isPrint ws ++ ((QuoteAs isPrint stem q).1 ++ tail) = B
  obtain ⟨tree, errs, hp, _⟩ := C01_total_lossless isPrint B
  have hgood := parseAsFuel_good isPrint (defaultFuel B) .chunk B (fun l => by simp)
  have hp' := hp
  unfold parse parseAs at hp'
  rw [hp'] at hgood
  obtain ⟨hwf, hfrm0, _, _⟩ := hgood
  -- the run
  let e : C01.Env := { isPrint := isPrint, src := B }
  let st0 : St := { pos := 0, overEOF := 0, errors := [] }
  rw [parseAsFuel_eq] at hp'
  have hrun : ∃ s1, parseNT (defaultFuel B) .chunk e st0 = .ok tree s1 := by
    cases hr : (parseNT (defaultFuel B) .chunk >>= fun n => done >>= fun _ => pure n) e st0 with
    | ok n s =>
      rw [hr] at hp'
      simp only [toResult, ParseResult.ok.injEq] at hp'
      obtain ⟨n', s1, h1, h2⟩ := C02.bind_ok.1 hr
      obtain ⟨_, s2, _, h3⟩ := C02.bind_ok.1 h2
      have := (ok_pure_inv h3).1
      exact ⟨s1, by rw [h1, this, hp'.1]⟩
    | panic w => rw [hr] at hp'; simp [toResult] at hp'
    | fuel => rw [hr] at hp'; simp [toResult] at hp'
  obtain ⟨s1, h1⟩ := hrun
  have hfuel : defaultFuel B = (7 * B.length + 2) + 5 + 1 := by unfold defaultFuel; omega
  rw [hfuel] at h1
  have hat0 : At e st0 (lineText isPrint ws ++ ((QuoteAs isPrint stem q).1 ++ tail)) := by
    rw [hB]; exact ⟨Nat.zero_le _, rfl⟩
  have hw0 := lineText_peek isPrint stem q tail ws
  obtain ⟨hk1, p, sp, l1, hp1, hc1⟩ := chunk_first (e := e) _ st0 s1 _ tree hat0 hw0 h1
  obtain ⟨hk2, F, sF, l2, hF, hc2⟩ := pipeline_first (e := e) _ st0 sp p hp1
  obtain ⟨hk3, ctx, pre, l3, hc3, hpre⟩ := form_line (e := e) (7 * B.length + 2) stem q tail hstop ws st0 sF F hat0 hF
  simp only [st0, Nat.zero_add] at hc3 hpre
  refine ⟨tree, errs, ctx, hp, ?_⟩
  generalize hn : (lineText isPrint ws).length = n at *
  generalize hW : wordNode ctx n (QuoteAs isPrint stem q).1 (QuoteAs isPrint stem q).2 stem = W at *
  have hWfrm : W.frm = n := by rw [← hW]; rfl
  have hWto : n < W.to := by
    rw [← hW]
    have := quoteAs_ne_nil isPrint stem q
    have : 0 < (QuoteAs isPrint stem q).1.length := List.length_pos_iff.mpr this
    simp only [wordNode, Node.to]; omega
  -- ranges, from the tiling of the tree
  obtain ⟨hwp, hpto, hpfrm⟩ := wf_child (pre := []) hwf hc1
  obtain ⟨hwF, hFto, hFfrm⟩ := wf_child (pre := []) hwp hc2
  obtain ⟨_, hWF, _⟩ := wf_child hwF hc3
  have hpf : p.frm = 0 := by rw [hpfrm rfl, hfrm0]
  have hFf : F.frm = 0 := by rw [hFfrm rfl, hpf]
  -- the search
  cases tree with
  | mk kt at' bt tt ft cst =>
    simp only [Node.kind] at hk1
    simp only [Node.children] at hc1
    subst hk1 hc1
    cases p with
    | mk kp ap bp tp fp csp =>
      simp only [Node.kind] at hk2
      simp only [Node.children] at hc2
      subst hk2 hc2
      cases F with
      | mk kF aF bF tF fF csF =>
        simp only [Node.kind] at hk3
        simp only [Node.children] at hc3
        subst hk3 hc3
        have hWF' : W.to ≤ bF := hWF
        simp only [Node.frm, Node.to] at hpf hFf hpto hFto
        have c1 : (0 : Nat) ≤ n := Nat.zero_le _
        have c2 : n < bp := by omega
        have c3 : n < bF := by omega
        subst hpf hFf
        have step1 : compoundAtN n (Node.mk Kind.chunk at' bt tt ft
            (Node.mk Kind.pipeline 0 bp tp fp (Node.mk Kind.form 0 bF tF fF (pre ++ W :: l3) :: l2) :: l1)) =
            compoundAtN n W := by
          simp only [compoundAtN, compoundAtL, Node.frm, Node.to, c1, c2, c3, decide_true, Bool.and_self,
            if_true, show (Kind.chunk == Kind.compound) = false from rfl,
            show (Kind.pipeline == Kind.compound) = false from rfl,
            show (Kind.form == Kind.compound) = false from rfl, Bool.false_and, Bool.false_eq_true, if_false]
          exact compoundAtL_skip n pre W l3 hpre (by omega) hWto
        rw [step1, ← hW]
        have hlen : n < n + (QuoteAs isPrint stem q).1.length := by
          rw [← hW] at hWto; simpa [wordNode, Node.to] using hWto
        simp [wordNode, compoundAtN, hlen]

/-- … hence the whole-buffer reading of the property: the word at the position
of `Q` in the parse of the whole line has the value `stem` and ends where `Q` ends -/
theorem line_wordValueAt (isPrint : Int → Bool) (ws : List (Bytes × Int)) (stem : Bytes) (q : Int) (tail : Bytes)
    (hstop : ∀ ctx, startsIndexing isPrint (peekOf tail) ctx = false) :
    wordValueAt isPrint (lineText isPrint ws ++ ((QuoteAs isPrint stem q).1 ++ tail)) (lineText isPrint ws).length =
      some (stem, (lineText isPrint ws).length + (QuoteAs isPrint stem q).1.length) := by
  obtain ⟨tree, errs, ctx, hp, hs⟩ := line_parse isPrint ws stem q tail hstop
  unfold wordValueAt
  rw [hp]
  simp only [hs, wordNode_value isPrint ctx _ _ _ stem (quoteAs_type isPrint stem q)]
  rfl

/-- … so the outermost compound of that `Form` at the position of `Q` is the word -/
theorem form_line_search {e : C01.Env} (f : Nat) (stem : Bytes) (q : Int) (tail : Bytes)
    (hstop : ∀ ctx, startsIndexing e.isPrint (peekOf tail) ctx = false)
    (ws : List (Bytes × Int)) (s sR : St) (F : Node)
    (hat : At e s (lineText e.isPrint ws ++ ((QuoteAs e.isPrint stem q).1 ++ tail)))
    (h : parseNT (f + 4) .form e s = .ok F sR) :
    ∃ ctx, compoundAtN (s.pos + (lineText e.isPrint ws).length) F =
      some (wordNode ctx (s.pos + (lineText e.isPrint ws).length) (QuoteAs e.isPrint stem q).1
        (QuoteAs e.isPrint stem q).2 stem) := by
  obtain ⟨hk, ctx, pre, l, hc, hpre⟩ := form_line f stem q tail hstop ws s sR F hat h
  refine ⟨ctx, ?_⟩
  cases F with
  | mk k a b t fl cs =>
    simp only [Node.kind] at hk
    simp only [Node.children] at hc
    subst hk hc
    have hne : (QuoteAs e.isPrint stem q).1 ≠ [] := by
      intro h0
      have hp := quoteAs_peek e.isPrint stem q []
      rw [h0] at hp
      rcases hp with h1 | h1 | h1 | h1 | h1
      · revert h1; decide
      · revert h1; decide
      · have : peekOf ([] ++ []) = eof := rfl
        rw [this] at h1
        simp [allowedInBareword, allowedInVariableName, eof, strictExpr] at h1
      · revert h1; decide
      · revert h1; decide
    have hlen : 0 < (QuoteAs e.isPrint stem q).1.length := List.length_pos_iff.mpr hne
    simp only [compoundAtN, show (Kind.form == Kind.compound) = false from rfl, Bool.false_and,
      Bool.false_eq_true, if_false]
    rw [compoundAtL_skip _ pre _ l hpre (by simp [wordNode, Node.frm]) (by simp only [wordNode, Node.to]; omega)]
    simp [wordNode, compoundAtN, hlen]

end C43
