/-
C43 helper lemmas, part 13 (round 2): the full parse of a completed buffer
whose text before the candidate is a SCRIPT of simple commands —

    cd d ; cat f | sort ; ls -l Q tail

(earlier pipelines end with `; `, earlier commands of a pipeline with `| `,
words as `QuoteAs` writes them with one space after each).  `Line.lean` computes
the run of the parser inside one command; here the runs over the complete
earlier commands and pipelines are computed (their end states), and the word is
located in the final tree along a spine `Chunk ∋ Pipeline ∋ Form ∋ word`; the
earlier siblings need not be described, the tiling of the tree (C01) puts them
before the spine child.
-/
import ElvProofs.C43.Line
namespace C43
open Go C01
open Gen.C01Chars

/-! ## a spine down to the word, and the search along it -/

/-- `W` is reached from `X` by going down through children that start at or before `n` -/
inductive Spine (n : Nat) (W : Node) : Node → Prop
  | here : Spine n W W
  | down {X c : Node} : c ∈ X.children → c.frm ≤ n → (X.kind ≠ .compound ∨ X.frm ≠ n) → Spine n W c → Spine n W X

theorem le_frm_of_consec {src : Bytes} : ∀ (a : Nat) (pre : List Node) (c : Node) (more : List Node),
    WFs src (pre ++ c :: more) → Consec a (pre ++ c :: more) → a ≤ c.frm
  | _, [], _, _, _, hc => Nat.le_of_eq hc.1.symm
  | a, y :: pre, c, more, hw, hc => by
    have h1 := le_frm_of_consec y.to pre c more hw.2 hc.2
    have h2 := WF_range hw.1
    have h3 : y.frm = a := hc.1
    omega

theorem consec_pre_le {src : Bytes} : ∀ (a : Nat) (pre : List Node) (c : Node) (more : List Node),
    WFs src (pre ++ c :: more) → Consec a (pre ++ c :: more) → ∀ x ∈ pre, x.to ≤ c.frm
  | _, [], _, _, _, _ => by intro x hx; cases hx
  | a, y :: pre, c, more, hw, hc => by
    intro x hx
    rcases List.mem_cons.1 hx with rfl | hx
    · exact le_frm_of_consec x.to pre c more hw.2 hc.2
    · exact consec_pre_le y.to pre c more hw.2 hc.2 x hx

/-- the outermost compound at `n`, searched from the top of a well-formed tree
with a spine to `W`, is `W` -/
theorem spine_search {src : Bytes} {n : Nat} {W : Node} (hWk : W.kind = .compound) (hWf : W.frm = n) (hWt : n < W.to) :
    ∀ {X : Node}, Spine n W X → WF src X → compoundAtN n X = some W ∧ W.to ≤ X.to := by
  intro X hs
  induction hs with
  | here =>
    intro _
    refine ⟨?_, Nat.le_refl _⟩
    cases W with
    | mk k a b t f cs =>
      simp only [Node.kind] at hWk
      simp only [Node.frm] at hWf
      simp only [Node.to] at hWt
      subst hWk hWf
      simp [compoundAtN, hWt]
  | @down X c hmem hfrm hk _ ih =>
    intro hwf
    obtain ⟨pre, more, hsplit⟩ := List.append_of_mem hmem
    obtain ⟨hwc, hcto, _⟩ := wf_child hwf hsplit
    obtain ⟨hsearch, hWc⟩ := ih hwc
    refine ⟨?_, Nat.le_trans hWc hcto⟩
    cases X with
    | mk k a b t f cs =>
      simp only [Node.children] at hsplit
      subst hsplit
      simp only [WF] at hwf
      obtain ⟨_, _, _, htile, hws⟩ := hwf
      have hcon : Consec a (pre ++ c :: more) := by
        rcases htile with h0 | h1
        · simp at h0
        · exact h1.1
      have hpre : ∀ x ∈ pre, x.to ≤ n := fun x hx => Nat.le_trans (consec_pre_le a pre c more hws hcon x hx) hfrm
      have hcond : (k == Kind.compound && a == n && decide (n < b)) = false := by
        simp only [Node.kind, Node.frm] at hk
        rcases hk with hk | hk
        · have : (k == Kind.compound) = false := by simpa using hk
          simp [this]
        · have : (a == n) = false := by simpa using hk
          simp [this]
      simp only [compoundAtN, hcond, Bool.false_eq_true, if_false]
      rw [compoundAtL_skip n pre c more hpre hfrm (by omega)]
      exact hsearch

/-! ## runs over complete commands -/

/-- first-rune facts of the text after a blank -/
structure NextStart (r : Int) : Prop where
  nb : IsInlineWhitespace r = false
  n35 : (r == 35) = false
  n94 : (r == 94) = false

theorem WordStart.next {isPrint : Int → Bool} {r : Int} (h : WordStart isPrint r) : NextStart r := by
  obtain ⟨g1, _, _, g35, g94, _⟩ := h.facts
  exact ⟨g1, g35, g94⟩

/-- a byte that ends a command: `|`, `;` or a newline -/
def FormEnd (c : UInt8) : Prop := c = 124 ∨ c = 59 ∨ c = 10

theorem FormEnd.peek {c : UInt8} (h : FormEnd c) (t : Bytes) : peekOf (c :: t) = (c.toNat : Int) := by
  rcases h with rfl | rfl | rfl <;> exact peekOf_cons_ascii _ t (by decide)

theorem FormEnd.facts {c : UInt8} (h : FormEnd c) (isPrint : Int → Bool) :
    NextStart (c.toNat : Int) ∧ ((c.toNat : Int) == 38) = false ∧
      startsCompound isPrint (c.toNat : Int) NormalExpr = false ∧ isRedirSign (c.toNat : Int) = false := by
  rcases h with rfl | rfl | rfl
  · have e : (((124 : UInt8).toNat : Nat) : Int) = 124 := by decide
    rw [e]
    refine ⟨⟨by decide, by decide, by decide⟩, by decide, ?_, by decide⟩
    simp [startsCompound, startsIndexing, startsPrimary, allowedInBareword, allowedInVariableName]
  · have e : (((59 : UInt8).toNat : Nat) : Int) = 59 := by decide
    rw [e]
    refine ⟨⟨by decide, by decide, by decide⟩, by decide, ?_, by decide⟩
    simp [startsCompound, startsIndexing, startsPrimary, allowedInBareword, allowedInVariableName]
  · have e : (((10 : UInt8).toNat : Nat) : Int) = 10 := by decide
    rw [e]
    refine ⟨⟨by decide, by decide, by decide⟩, by decide, ?_, by decide⟩
    simp [startsCompound, startsIndexing, startsPrimary, allowedInBareword, allowedInVariableName]

theorem lineText_next (isPrint : Int → Bool) (X : Bytes) (hX : NextStart (peekOf X)) (ws : List (Bytes × Int)) :
    NextStart (peekOf (lineText isPrint ws ++ X)) := by
  cases ws with
  | nil => simpa [lineText] using hX
  | cons w' ws' =>
    have := (quoteAs_peek isPrint w'.1 w'.2 (32 :: (lineText isPrint ws' ++ X))).next
    simpa [lineText] using this

/-- `formLoop` over arguments, each followed by one space: it arrives, with a
builder that kept its children, at the text after them -/
theorem formLoop_walk {e : C01.Env} (f : Nat) (X : Bytes) (hX : NextStart (peekOf X)) :
    ∀ (ws : List (Bytes × Int)) (N : Nat) (nb nbR : NB) (s sR : St), ws.length < N →
      At e s (lineText e.isPrint ws ++ X) →
      formLoop (fun nt' => parseNT (f + 3) nt') N nb e s = .ok nbR sR →
      ∃ nb', Ext nb nb' ∧
        formLoop (fun nt' => parseNT (f + 3) nt') (N - ws.length) nb' e (adv s (lineText e.isPrint ws).length) =
          .ok nbR sR := by
  intro ws
  induction ws with
  | nil =>
    intro N nb nbR s sR _ _ h
    exact ⟨nb, Ext.refl _, by simpa [lineText, adv_zero] using h⟩
  | cons w ws ih =>
    intro N nb nbR s sR hN hat h
    obtain ⟨N, rfl⟩ : ∃ N', N = N' + 1 := ⟨N - 1, by omega⟩
    have hat' : At e s ((QuoteAs e.isPrint w.1 w.2).1 ++ 32 :: (lineText e.isPrint ws ++ X)) := by
      simpa [lineText] using hat
    obtain ⟨_, _, _, _, _, f38, _, fsc, _⟩ := (quoteAs_peek e.isPrint w.1 w.2 (32 :: (lineText e.isPrint ws ++ X))).facts
    have hword := quoteAs_word_at w.1 w.2 NormalExpr _ f (stops_space e.isPrint NormalExpr _) hat'
    have hat2 := hat'.adv
    obtain ⟨g1, g35, g94⟩ := lineText_next e.isPrint X hX ws
    unfold formLoop at h
    rw [bind_of_eq (getEnv_eq e s), bind_of_eq (peek_at hat')] at h
    simp only [f38, fsc NormalExpr, Bool.false_eq_true, if_false, if_true] at h
    rw [bind_of_eq hword, bind_of_eq (peek_at hat2), peekOf_space] at h
    have h32 : isRedirSign 32 = false := by decide
    simp only [h32, Bool.false_eq_true, if_false] at h
    obtain ⟨nb1, s1, hsp, h⟩ := C02.bind_ok.1 h
    obtain ⟨hs1, hext, _⟩ := parseSpaces_one hat2 g1 g35 g94 hsp
    subst hs1
    have hat3 : At e (adv (adv s (QuoteAs e.isPrint w.1 w.2).1.length) 1) (lineText e.isPrint ws ++ X) := by
      have := hat2.adv (a := [32])
      simpa using this
    obtain ⟨nb', hext', h'⟩ := ih N nb1 nbR _ sR (by simp only [List.length_cons] at hN; omega) hat3 h
    refine ⟨nb', (Ext.add nb _).trans (hext.trans hext'), ?_⟩
    have e1 : N + 1 - (w :: ws).length = N - ws.length := by simp
    have e2 : adv (adv (adv s (QuoteAs e.isPrint w.1 w.2).1.length) 1) (lineText e.isPrint ws).length =
        adv s (lineText e.isPrint (w :: ws)).length := by
      simp only [adv, lineText, List.length_append, List.length_cons]
      congr 1
      omega
    rw [e1, ← e2]
    exact h'

/-- `formLoop` at the end of a command -/
theorem formLoop_end {e : C01.Env} (rec : NT → M Node) {c : UInt8} (hc : FormEnd c) {s : St} {rest : Bytes} (N : Nat)
    (nb : NB) (hat : At e s (c :: rest)) : formLoop rec (N + 1) nb e s = .ok nb s := by
  obtain ⟨_, f38, fsc, frd⟩ := hc.facts e.isPrint
  unfold formLoop
  rw [bind_of_eq (getEnv_eq e s), bind_of_eq (peek_at hat), hc.peek]
  simp only [f38, fsc, frd, Bool.false_eq_true, if_false]
  rfl

theorem formBody_ext {rec : NT → M Node} {nb nbR : NB} {e : C01.Env} {s sR : St}
    (h : formBody rec nb e s = .ok nbR sR) : Ext nb nbR := by
  unfold formBody at h
  obtain ⟨hd, s1, _, h⟩ := C02.bind_ok.1 h
  obtain ⟨nb1, s2, h2, h⟩ := C02.bind_ok.1 h
  obtain ⟨k, s3, _, h⟩ := C02.bind_ok.1 h
  exact (Ext.add nb hd).trans ((parseSpaces_ext h2).trans (formLoop_ext _ _ _ _ _ _ _ h))

/-- as `wrap_ok`, and the state the wrapper returns is the one `n.parse` left -/
theorem wrap_ok' {rec : NT → M Node} {nt : NT} {e : C01.Env} {s s' : St} {node : Node}
    (h : wrap rec nt e s = .ok node s') :
    ∃ nb text, body rec nt { frm := s.pos, f := nt.init, children := [] } e s = .ok nb s' ∧
      node = .mk nt.kind nb.frm s'.pos text nb.f nb.children := by
  unfold wrap at h
  rw [bind_of_eq (getPos_eq e s)] at h
  obtain ⟨nb, s1, h1, h⟩ := C02.bind_ok.1 h
  rw [bind_of_eq (getPos_eq e s1)] at h
  obtain ⟨text, s2, h2, h⟩ := C02.bind_ok.1 h
  have e2 := C02.Pure.sliceSrc _ _ e s1 text s2 h2
  obtain ⟨h3, h4⟩ := ok_pure_inv h
  subst e2
  subst h4
  exact ⟨nb, text, h1, h3.symm⟩

theorem parseNT_succ (n : Nat) (nt : NT) : parseNT (n + 1) nt = wrap (fun nt' => parseNT n nt') nt := rfl

/-- a `Form` starts where it was called -/
theorem form_frm {e : C01.Env} {f : Nat} {s sR : St} {F : Node} (h : parseNT (f + 1) .form e s = .ok F sR) :
    F.frm = s.pos ∧ F.kind = .form := by
  rw [parseNT_succ] at h
  obtain ⟨nb, text, hb, rfl⟩ := wrap_ok' h
  simp only [body] at hb
  exact ⟨(formBody_ext hb).1, rfl⟩

/-- **a complete command**: `Form.parse` on `w₀ ␣ … wₖ ␣ c…` (`c` ends the
command) stops right before `c` -/
theorem form_done {e : C01.Env} (f : Nat) (w : Bytes × Int) (ws : List (Bytes × Int)) {c : UInt8} (hc : FormEnd c)
    (rest : Bytes) (s sR : St) (F : Node)
    (hat : At e s (lineText e.isPrint (w :: ws) ++ c :: rest))
    (h : parseNT (f + 4) .form e s = .ok F sR) :
    sR = adv s (lineText e.isPrint (w :: ws)).length := by
  have hX : NextStart (peekOf (c :: rest)) := by rw [hc.peek]; exact (hc.facts e.isPrint).1
  rw [parseNT_succ (f + 3)] at h
  obtain ⟨nbR, text, hb, _⟩ := wrap_ok' h
  simp only [body] at hb
  unfold formBody at hb
  have hat' : At e s ((QuoteAs e.isPrint w.1 w.2).1 ++ 32 :: (lineText e.isPrint ws ++ c :: rest)) := by
    simpa [lineText] using hat
  have hword := quoteAs_word_at w.1 w.2 CmdExpr _ f (stops_space e.isPrint CmdExpr _) hat'
  have hat2 := hat'.adv
  obtain ⟨g1, g35, g94⟩ := lineText_next e.isPrint (c :: rest) hX ws
  rw [bind_of_eq hword] at hb
  obtain ⟨nb1, s1, hsp, hb⟩ := C02.bind_ok.1 hb
  obtain ⟨hs1, _, _⟩ := parseSpaces_one hat2 g1 g35 g94 hsp
  subst hs1
  rw [bind_of_eq (loopFuel_eq e _)] at hb
  have hat3 : At e (adv (adv s (QuoteAs e.isPrint w.1 w.2).1.length) 1) (lineText e.isPrint ws ++ c :: rest) := by
    have := hat2.adv (a := [32])
    simpa using this
  have hlen := hat3.len
  have hfuel : ws.length < e.src.length + 2 := by
    have := lineText_length e.isPrint ws
    simp only [List.length_append] at hlen
    omega
  obtain ⟨nb', _, h'⟩ := formLoop_walk f (c :: rest) hX ws _ nb1 nbR _ sR hfuel hat3 hb
  have hpos : e.src.length + 2 - ws.length = (e.src.length + 1 - ws.length) + 1 := by omega
  rw [hpos, formLoop_end _ hc _ _ hat3.adv] at h'
  simp only [Out.ok.injEq] at h'
  rw [← h'.2]
  simp only [adv, lineText, List.length_append, List.length_cons]
  congr 1
  omega

/-! ## pipelines -/

/-- one blank, with or without newlines allowed -/
theorem spacesLoop_one' {e : C01.Env} {s : St} {rest : Bytes} (nl : Bool) (k : Nat) (hat : At e s (32 :: rest))
    (h1 : NextStart (peekOf rest)) (hws : IsWhitespace (peekOf rest) = false) :
    spacesLoop nl (k + 2) e s = .ok () (adv s 1) := by
  have hat0 : At e s (encodeRune 32 ++ rest) := by
    have : encodeRune 32 = [32] := by decide
    rw [this]; exact hat
  obtain ⟨hnx, hat1⟩ := next_rune (r := 32) (by decide) hat0
  have hlen : (encodeRune 32).length = 1 := by decide
  rw [hlen] at hnx hat1
  unfold spacesLoop
  rw [bind_of_eq (peek_at hat), peekOf_space]
  have : IsInlineWhitespace 32 = true := by decide
  simp only [this, if_true]
  rw [bind_of_eq hnx]
  unfold spacesLoop
  rw [bind_of_eq (peek_at hat1)]
  simp only [h1.nb, h1.n35, h1.n94, hws, Bool.and_false, Bool.false_eq_true, if_false]
  rfl

theorem parseSpacesInner_one {e : C01.Env} {s s' : St} {rest : Bytes} {nb nb' : NB} (nl : Bool) (hat : At e s (32 :: rest))
    (h1 : NextStart (peekOf rest)) (hws : IsWhitespace (peekOf rest) = false)
    (h : parseSpacesInner nb nl e s = .ok nb' s') : s' = adv s 1 ∧ Ext nb nb' := by
  have hext := parseSpacesInner_ext h
  unfold parseSpacesInner at h
  rw [bind_of_eq (loopFuel_eq e s), bind_of_eq (spacesLoop_one' nl _ hat h1 hws)] at h
  exact ⟨(addSep_facts h).1, hext⟩

/-- no blank at all -/
theorem parseSpaces_zero {e : C01.Env} {s s' : St} {t : Bytes} {nb nb' : NB} (hat : At e s t)
    (h1 : NextStart (peekOf t)) (h : parseSpaces nb e s = .ok nb' s') : s' = s ∧ Ext nb nb' := by
  have hext := parseSpaces_ext h
  unfold parseSpaces parseSpacesInner at h
  rw [bind_of_eq (loopFuel_eq e s)] at h
  have hloop : spacesLoop false (e.src.length + 2) e s = .ok () s := by
    have : e.src.length + 2 = (e.src.length + 1) + 1 := rfl
    rw [this]
    unfold spacesLoop
    rw [bind_of_eq (peek_at hat)]
    simp only [h1.nb, h1.n35, h1.n94, Bool.false_and, Bool.false_eq_true, if_false]
    rfl
  rw [bind_of_eq hloop] at h
  exact ⟨(addSep_facts h).1, hext⟩

/-- `parseSep` on the separator itself (an ASCII rune) -/
theorem parseSep_yes {e : C01.Env} {s s' : St} {r : Nat} {rest : Bytes} {nb : NB} {x : Bool × NB}
    (hv : validRune r = true) (hlen : (encodeRune r).length = 1) (hat : At e s (encodeRune r ++ rest))
    (h : parseSep nb (r : Int) e s = .ok x s') : x.1 = true ∧ s' = adv s 1 ∧ Ext nb x.2 := by
  have hext := parseSep_ext h
  unfold parseSep at h
  rw [bind_of_eq (peek_at hat), peekOf_rune hv] at h
  simp only [beq_self_eq_true, if_true] at h
  obtain ⟨hnx, _⟩ := next_rune hv hat
  rw [bind_of_eq hnx, hlen] at h
  obtain ⟨nb1, s1, h1, h⟩ := C02.bind_ok.1 h
  obtain ⟨h2, h3⟩ := ok_pure_inv h
  rw [← h2, ← h3]
  exact ⟨rfl, (addSep_facts h1).1, by rw [← h2] at hext; exact hext⟩

theorem pipeText_cons (isPrint : Int → Bool) (ws : List (Bytes × Int)) (fs : List (List (Bytes × Int))) :
    pipeText isPrint (ws :: fs) = lineText isPrint ws ++ (124 :: 32 :: pipeText isPrint fs) := by
  simp [pipeText]

theorem lineText_start (isPrint : Int → Bool) (ws : List (Bytes × Int)) (hne : ws ≠ []) (X : Bytes) :
    WordStart isPrint (peekOf (lineText isPrint ws ++ X)) := by
  cases ws with
  | nil => exact absurd rfl hne
  | cons w' ws' =>
    have := quoteAs_peek isPrint w'.1 w'.2 (32 :: (lineText isPrint ws' ++ X))
    simpa [lineText] using this

theorem pipeText_start (isPrint : Int → Bool) (fs : List (List (Bytes × Int))) (hfs : ∀ ws ∈ fs, ws ≠ []) (Y : Bytes)
    (hY : WordStart isPrint (peekOf Y)) : WordStart isPrint (peekOf (pipeText isPrint fs ++ Y)) := by
  cases fs with
  | nil => simpa [pipeText] using hY
  | cons ws fs' =>
    rw [pipeText_cons, List.append_assoc]
    exact lineText_start isPrint ws (hfs ws List.mem_cons_self) _

/-- `pipelineLoop` on `| ` before a command: the separator and the blank are
consumed, the next `Form` is parsed -/
theorem pipelineLoop_step {e : C01.Env} (rec : NT → M Node) {s sR : St} {Y : Bytes} (N : Nat) (nb : NB)
    (r : Bool × NB) (hat : At e s (124 :: 32 :: Y)) (hY : WordStart e.isPrint (peekOf Y))
    (h : pipelineLoop rec (N + 1) nb e s = .ok r sR) :
    ∃ nb2, Ext nb nb2 ∧ (rec .form >>= fun f => pipelineLoop rec N (nb2.add f)) e (adv s 2) = .ok r sR := by
  obtain ⟨_, gws, _, _, _, _, _, _, gsp⟩ := hY.facts
  have hat0 : At e s (encodeRune 124 ++ (32 :: Y)) := by
    have : encodeRune 124 = [124] := by decide
    rw [this]; exact hat
  unfold pipelineLoop at h
  rw [bind_of_eq (getEnv_eq e s)] at h
  obtain ⟨x, s1, hx, h⟩ := C02.bind_ok.1 h
  obtain ⟨hx1, hs1, hext1⟩ := parseSep_yes (r := 124) (by decide) (by decide) hat0 hx
  obtain ⟨ok, nb1⟩ := x
  simp only at hx1 hext1 h
  subst hx1 hs1
  simp only [if_true] at h
  obtain ⟨nb2, s2, h2, h⟩ := C02.bind_ok.1 h
  have hat1 : At e (adv s 1) (32 :: Y) := by
    have := hat.adv (a := [124]); simpa using this
  obtain ⟨hs2, hext2⟩ := parseSpacesInner_one true hat1 hY.next gws h2
  subst hs2
  have hat2 : At e (adv (adv s 1) 1) Y := by
    have := hat1.adv (a := [32]); simpa using this
  rw [bind_of_eq (peek_at hat2)] at h
  have hsf : startsForm e.isPrint (peekOf Y) = true := gsp
  simp only [hsf, Bool.not_true, Bool.false_eq_true, if_false] at h
  refine ⟨nb2, hext1.trans hext2, ?_⟩
  rw [adv_adv] at h
  exact h

/-- the commands of a pipeline before the current one -/
theorem pipe_walk {e : C01.Env} (f : Nat) (Y : Bytes) (hY : WordStart e.isPrint (peekOf Y)) :
    ∀ (fs : List (List (Bytes × Int))), (∀ ws ∈ fs, ws ≠ []) → ∀ (N : Nat) (nb : NB) (s sR : St) (r : Bool × NB),
      fs.length < N → At e s (pipeText e.isPrint fs ++ Y) →
      ((fun nt' => parseNT (f + 4) nt') .form >>= fun fm => pipelineLoop (fun nt' => parseNT (f + 4) nt') N (nb.add fm)) e s =
        .ok r sR →
      ∃ nb', Ext nb nb' ∧
        ((fun nt' => parseNT (f + 4) nt') .form >>= fun fm =>
            pipelineLoop (fun nt' => parseNT (f + 4) nt') (N - fs.length) (nb'.add fm)) e
          (adv s (pipeText e.isPrint fs).length) = .ok r sR := by
  intro fs
  induction fs with
  | nil =>
    intro _ N nb s sR r _ _ h
    exact ⟨nb, Ext.refl _, by simpa [pipeText, adv_zero] using h⟩
  | cons ws fs ih =>
    intro hfs N nb s sR r hN hat h
    obtain ⟨N, rfl⟩ : ∃ N', N = N' + 1 := ⟨N - 1, by omega⟩
    have hws : ws ≠ [] := hfs ws List.mem_cons_self
    have hfs' : ∀ ws' ∈ fs, ws' ≠ [] := fun ws' h' => hfs ws' (List.mem_cons_of_mem _ h')
    obtain ⟨w, ws', rfl⟩ : ∃ w ws', ws = w :: ws' := by
      cases ws with
      | nil => exact absurd rfl hws
      | cons w ws' => exact ⟨w, ws', rfl⟩
    have hat' : At e s (lineText e.isPrint (w :: ws') ++ 124 :: (32 :: (pipeText e.isPrint fs ++ Y))) := by
      rw [pipeText_cons] at hat
      simpa using hat
    obtain ⟨F1, s1, hF1, h⟩ := C02.bind_ok.1 h
    have hs1 := form_done f w ws' (Or.inl rfl) _ s s1 F1 hat' hF1
    subst hs1
    have hat2 := hat'.adv
    have hY' := pipeText_start e.isPrint fs hfs' Y hY
    obtain ⟨nb2, hext2, h⟩ := pipelineLoop_step _ N (nb.add F1) r hat2 hY' h
    have hat3 : At e (adv (adv s (lineText e.isPrint (w :: ws')).length) 2) (pipeText e.isPrint fs ++ Y) := by
      have := hat2.adv (a := [124, 32]); simpa using this
    obtain ⟨nb', hext', h'⟩ := ih hfs' N nb2 _ sR r (by simp only [List.length_cons] at hN; omega) hat3 h
    refine ⟨nb', (Ext.add nb F1).trans (hext2.trans hext'), ?_⟩
    have e1 : N + 1 - ((w :: ws') :: fs).length = N - fs.length := by simp
    have e2 : adv (adv (adv s (lineText e.isPrint (w :: ws')).length) 2) (pipeText e.isPrint fs).length =
        adv s (pipeText e.isPrint ((w :: ws') :: fs)).length := by
      rw [pipeText_cons]
      simp only [adv, List.length_append, List.length_cons]
      congr 1
      omega
    rw [e1, ← e2]
    exact h'

/-- the part of `(*Pipeline).parse` after the loop keeps the children -/
theorem pipelineTail_ext {e : C01.Env} {s sR : St} {x : Bool × NB} {nbR : NB}
    (hb : (if x.1 = true then pure x.2 else do
            let nb ← parseSpaces x.2
            let r ← peek
            if (r == 38) = true then do
              let _ ← next
              let nb ← addSep nb
              let nb : NB := { nb with f := { nb.f with flag := true } }
              parseSpaces nb
            else pure nb : M NB) e s = .ok nbR sR) : Ext x.2 nbR := by
  split at hb
  · rw [← (ok_pure_inv hb).1]; exact Ext.refl _
  · obtain ⟨nb2, s4, h4, hb⟩ := C02.bind_ok.1 hb
    obtain ⟨r, s5, _, hb⟩ := C02.bind_ok.1 hb
    split at hb
    · obtain ⟨_, s6, _, hb⟩ := C02.bind_ok.1 hb
      obtain ⟨nb3, s7, h7, hb⟩ := C02.bind_ok.1 hb
      have h8 := parseSpaces_ext hb
      exact (parseSpaces_ext h4).trans ((addSep_ext h7).trans ((Ext.of_eq rfl rfl).trans h8))
    · rw [← (ok_pure_inv hb).1]; exact parseSpaces_ext h4

/-- **the current pipeline**: its `Pipeline` node starts where it was called
and has, among its children, the `Form` parsed at the start of the current command -/
theorem pipeline_target {e : C01.Env} (f : Nat) (fs : List (List (Bytes × Int))) (hfs : ∀ ws ∈ fs, ws ≠ [])
    (Y : Bytes) (hY : WordStart e.isPrint (peekOf Y)) (s sp : St) (p : Node)
    (hat : At e s (pipeText e.isPrint fs ++ Y))
    (h : parseNT (f + 5) .pipeline e s = .ok p sp) :
    p.kind = .pipeline ∧ p.frm = s.pos ∧ ∃ F sF, F ∈ p.children ∧
      parseNT (f + 4) .form e (adv s (pipeText e.isPrint fs).length) = .ok F sF := by
  rw [parseNT_succ (f + 4)] at h
  obtain ⟨nb, text, hb, rfl⟩ := wrap_ok' h
  simp only [body] at hb
  unfold pipelineBody at hb
  obtain ⟨F1, s1, hF1, hb⟩ := C02.bind_ok.1 hb
  rw [bind_of_eq (loopFuel_eq e s1)] at hb
  obtain ⟨x, s3, hx, hb⟩ := C02.bind_ok.1 hb
  have hcomb : ((fun nt' => parseNT (f + 4) nt') .form >>= fun fm =>
      pipelineLoop (fun nt' => parseNT (f + 4) nt') (e.src.length + 2)
        (NB.add { frm := s.pos, f := NT.pipeline.init, children := [] } fm)) e s = .ok x s3 := by
    rw [bind_of_eq hF1]; exact hx
  have hlen := hat.len
  have hfuel : fs.length < e.src.length + 2 := by
    have : fs.length ≤ (pipeText e.isPrint fs).length := by
      clear hat hlen hcomb hfs
      induction fs with
      | nil => simp
      | cons ws fs ih => rw [pipeText_cons]; simp only [List.length_cons, List.length_append]; omega
    simp only [List.length_append] at hlen
    omega
  obtain ⟨nb', hext', h'⟩ := pipe_walk f Y hY fs hfs _ _ s s3 x hfuel hat hcomb
  obtain ⟨F, sF, hF, h'⟩ := C02.bind_ok.1 h'
  have hextL := pipelineLoop_ext _ _ _ _ _ _ _ h'
  obtain ⟨ret, nbx⟩ := x
  have hfin : Ext nbx nb := pipelineTail_ext (x := (ret, nbx)) hb
  have hall : Ext (nb'.add F) nb := hextL.trans hfin
  refine ⟨rfl, ?_, F, sF, ?_, hF⟩
  · show nb.frm = s.pos
    rw [hall.1]
    exact hext'.1
  · show F ∈ nb.children
    obtain ⟨_, l, hl⟩ := hall
    rw [hl]
    simp [NB.add]

/-- a complete earlier pipeline (its last command ends with `;` or a newline)
stops right before that byte -/
theorem pipeline_done {e : C01.Env} (f : Nat) (fs : List (List (Bytes × Int))) (hfs : ∀ ws ∈ fs, ws ≠ [])
    (w : Bytes × Int) (ws : List (Bytes × Int)) {c : UInt8} (hc : c = 59 ∨ c = 10) (rest : Bytes) (s sp : St) (p : Node)
    (hat : At e s (pipeText e.isPrint fs ++ (lineText e.isPrint (w :: ws) ++ c :: rest)))
    (h : parseNT (f + 5) .pipeline e s = .ok p sp) :
    sp = adv s ((pipeText e.isPrint fs).length + (lineText e.isPrint (w :: ws)).length) := by
  have hce : FormEnd c := Or.inr hc
  have hY : WordStart e.isPrint (peekOf (lineText e.isPrint (w :: ws) ++ c :: rest)) :=
    lineText_start e.isPrint (w :: ws) (by simp) _
  rw [parseNT_succ (f + 4)] at h
  obtain ⟨nb, text, hb, _⟩ := wrap_ok' h
  simp only [body] at hb
  unfold pipelineBody at hb
  obtain ⟨F1, s1, hF1, hb⟩ := C02.bind_ok.1 hb
  rw [bind_of_eq (loopFuel_eq e s1)] at hb
  obtain ⟨x, s3, hx, hb⟩ := C02.bind_ok.1 hb
  have hcomb : ((fun nt' => parseNT (f + 4) nt') .form >>= fun fm =>
      pipelineLoop (fun nt' => parseNT (f + 4) nt') (e.src.length + 2)
        (NB.add { frm := s.pos, f := NT.pipeline.init, children := [] } fm)) e s = .ok x s3 := by
    rw [bind_of_eq hF1]; exact hx
  have hlen := hat.len
  have hfuel : fs.length < e.src.length + 2 := by
    have : fs.length ≤ (pipeText e.isPrint fs).length := by
      clear hat hlen hcomb hfs
      induction fs with
      | nil => simp
      | cons ws fs ih => rw [pipeText_cons]; simp only [List.length_cons, List.length_append]; omega
    simp only [List.length_append] at hlen
    omega
  obtain ⟨nb', _, h'⟩ := pipe_walk f _ hY fs hfs _ _ s s3 x hfuel hat hcomb
  obtain ⟨F, sF, hF, h'⟩ := C02.bind_ok.1 h'
  have hat1 := hat.adv
  have hsF := form_done f w ws hce rest _ sF F hat1 hF
  subst hsF
  have hat2 := hat1.adv
  -- the loop sees `c`, not `|`
  have hpos : e.src.length + 2 - fs.length = (e.src.length + 1 - fs.length) + 1 := by omega
  rw [hpos] at h'
  unfold pipelineLoop at h'
  rw [bind_of_eq (getEnv_eq e _)] at h'
  have hno : peekOf (c :: rest) ≠ 124 := by
    rw [hce.peek]
    rcases hc with rfl | rfl <;> decide
  rw [bind_of_eq (parseSep_no _ 124 hat2 hno)] at h'
  simp only [Bool.false_eq_true, if_false] at h'
  obtain ⟨hx', hs3⟩ := ok_pure_inv h'
  subst hs3
  rw [← hx'] at hb
  simp only [Bool.false_eq_true, if_false] at hb
  obtain ⟨nb2, s4, h4, hb⟩ := C02.bind_ok.1 hb
  have hX : NextStart (peekOf (c :: rest)) := by rw [hce.peek]; exact (hce.facts e.isPrint).1
  obtain ⟨hs4, _⟩ := parseSpaces_zero hat2 hX h4
  subst hs4
  rw [bind_of_eq (peek_at hat2), hce.peek] at hb
  simp only [(hce.facts e.isPrint).2.1, Bool.false_eq_true, if_false] at hb
  rw [← (ok_pure_inv hb).2, adv_adv]

/-! ## chunks -/

theorem chunkText_cons (isPrint : Int → Bool) (p : List (List (Bytes × Int)) × List (Bytes × Int))
    (ps : List (List (List (Bytes × Int)) × List (Bytes × Int))) :
    chunkText isPrint (p :: ps) =
      pipeText isPrint p.1 ++ (lineText isPrint p.2 ++ (59 :: 32 :: chunkText isPrint ps)) := by
  simp [chunkText]

theorem chunkText_start (isPrint : Int → Bool) (ps : List (List (List (Bytes × Int)) × List (Bytes × Int)))
    (hps : ScriptOk ps) (Y : Bytes) (hY : WordStart isPrint (peekOf Y)) :
    WordStart isPrint (peekOf (chunkText isPrint ps ++ Y)) := by
  cases ps with
  | nil => simpa [chunkText] using hY
  | cons p ps' =>
    obtain ⟨h2, h1⟩ := hps p List.mem_cons_self
    rw [chunkText_cons, List.append_assoc]
    exact pipeText_start isPrint p.1 h1 _ (by rw [List.append_assoc]; exact lineText_start isPrint p.2 h2 _)

/-- `parseSeps` on `; ` before a command -/
theorem parseSeps_semi {e : C01.Env} {s s' : St} {Y : Bytes} {nb : NB} {x : Nat × NB}
    (hat : At e s (59 :: 32 :: Y)) (hY : WordStart e.isPrint (peekOf Y))
    (h : parseSeps nb e s = .ok x s') : x.1 = 1 ∧ s' = adv s 2 ∧ Ext nb x.2 := by
  obtain ⟨g1, _, g3, g35, _, _, _, _, _⟩ := hY.facts
  have hext := parseSeps_ext h
  have hat0 : At e s (encodeRune 59 ++ (32 :: Y)) := by
    have : encodeRune 59 = [59] := by decide
    rw [this]; exact hat
  have hat1 : At e (adv s 1) (32 :: Y) := by
    have := hat.adv (a := [59]); simpa using this
  have hat2 : At e (adv (adv s 1) 1) Y := by
    have := hat1.adv (a := [32]); simpa using this
  have hlen := hat2.len
  have hYne : Y ≠ [] := by
    intro h0
    rw [h0] at hY
    rcases hY with h | h | h | h | h
    · revert h; decide
    · revert h; decide
    · have : peekOf ([] : Bytes) = eof := rfl
      rw [this] at h
      simp [allowedInBareword, allowedInVariableName, eof, strictExpr] at h
    · revert h; decide
    · revert h; decide
  have hYl : 0 < Y.length := List.length_pos_iff.mpr hYne
  obtain ⟨k, hk⟩ : ∃ k, e.src.length + 2 = k + 3 := ⟨e.src.length - 1, by simp only [adv] at hlen; omega⟩
  unfold parseSeps at h
  rw [bind_of_eq (loopFuel_eq e s), hk] at h
  have e59 : peekOf (59 :: 32 :: Y) = ((59 : Nat) : Int) := by
    rw [peekOf_cons_ascii 59 _ (by decide)]; rfl
  unfold parseSepsLoop at h
  rw [bind_of_eq (peek_at hat), e59] at h
  have hps : isPipelineSep ((59 : Nat) : Int) = true := by decide
  simp only [hps, if_true] at h
  obtain ⟨x1, s1, hx1, h⟩ := C02.bind_ok.1 h
  obtain ⟨_, hs1, _⟩ := parseSep_yes (r := 59) (by decide) (by decide) hat0 hx1
  subst hs1
  obtain ⟨ok1, nb1⟩ := x1
  simp only at h
  unfold parseSepsLoop at h
  rw [bind_of_eq (peek_at hat1), peekOf_space] at h
  have h32a : isPipelineSep 32 = false := by decide
  have h32b : IsInlineWhitespace 32 = true := by decide
  simp only [h32a, h32b, Bool.false_eq_true, if_false, Bool.true_or, if_true] at h
  obtain ⟨nb2, s2, h2, h⟩ := C02.bind_ok.1 h
  obtain ⟨hs2, _, _⟩ := parseSpaces_one hat1 g1 g35 hY.next.n94 h2
  subst hs2
  unfold parseSepsLoop at h
  rw [bind_of_eq (peek_at hat2)] at h
  simp only [g3, g1, g35, Bool.false_eq_true, if_false, Bool.or_self] at h
  obtain ⟨hx, hs'⟩ := ok_pure_inv h
  rw [← hx] at hext ⊢
  exact ⟨rfl, by rw [← hs', adv_adv], hext⟩

/-- the pipelines of a chunk before the current one -/
theorem chunk_walk {e : C01.Env} (f : Nat) (Y : Bytes) (hY : WordStart e.isPrint (peekOf Y)) :
    ∀ (ps : List (List (List (Bytes × Int)) × List (Bytes × Int))), ScriptOk ps →
      ∀ (N : Nat) (nb nbR : NB) (s sR : St), ps.length < N → At e s (chunkText e.isPrint ps ++ Y) →
      chunkLoop (fun nt' => parseNT (f + 5) nt') N nb e s = .ok nbR sR →
      ∃ nb', Ext nb nb' ∧
        chunkLoop (fun nt' => parseNT (f + 5) nt') (N - ps.length) nb' e (adv s (chunkText e.isPrint ps).length) =
          .ok nbR sR := by
  intro ps
  induction ps with
  | nil =>
    intro _ N nb nbR s sR _ _ h
    exact ⟨nb, Ext.refl _, by simpa [chunkText, adv_zero] using h⟩
  | cons p ps ih =>
    intro hps N nb nbR s sR hN hat h
    obtain ⟨N, rfl⟩ : ∃ N', N = N' + 1 := ⟨N - 1, by omega⟩
    obtain ⟨hp2, hp1⟩ := hps p List.mem_cons_self
    have hps' : ScriptOk ps := fun q hq => hps q (List.mem_cons_of_mem _ hq)
    obtain ⟨fs, ws⟩ := p
    simp only at hp1 hp2
    obtain ⟨w, ws', rfl⟩ : ∃ w ws', ws = w :: ws' := by
      cases ws with
      | nil => exact absurd rfl hp2
      | cons w ws' => exact ⟨w, ws', rfl⟩
    have hat' : At e s (pipeText e.isPrint fs ++ (lineText e.isPrint (w :: ws') ++
        59 :: (32 :: (chunkText e.isPrint ps ++ Y)))) := by
      rw [chunkText_cons] at hat
      simpa using hat
    have hstart : WordStart e.isPrint (peekOf (pipeText e.isPrint fs ++ (lineText e.isPrint (w :: ws') ++
        59 :: (32 :: (chunkText e.isPrint ps ++ Y))))) :=
      pipeText_start e.isPrint fs hp1 _ (lineText_start e.isPrint (w :: ws') (by simp) _)
    obtain ⟨_, _, _, _, _, _, _, _, gsp⟩ := hstart.facts
    unfold chunkLoop at h
    rw [bind_of_eq (getEnv_eq e s), bind_of_eq (peek_at hat')] at h
    simp only [gsp, if_true] at h
    obtain ⟨P1, s1, hP1, h⟩ := C02.bind_ok.1 h
    have hs1 := pipeline_done f fs hp1 w ws' (Or.inl rfl) _ s s1 P1 hat' hP1
    subst hs1
    obtain ⟨x, s2, hx, h⟩ := C02.bind_ok.1 h
    have hat1 : At e (adv s ((pipeText e.isPrint fs).length + (lineText e.isPrint (w :: ws')).length))
        (59 :: 32 :: (chunkText e.isPrint ps ++ Y)) := by
      have := hat'.adv.adv
      rw [adv_adv] at this
      exact this
    have hY' := chunkText_start e.isPrint ps hps' Y hY
    obtain ⟨hx1, hs2, hext2⟩ := parseSeps_semi hat1 hY' hx
    subst hs2
    obtain ⟨k, nb2⟩ := x
    simp only at hx1 hext2 h
    subst hx1
    simp only [show ((1 : Nat) == 0) = false from rfl, Bool.false_eq_true, if_false] at h
    have hat3 : At e (adv (adv s ((pipeText e.isPrint fs).length + (lineText e.isPrint (w :: ws')).length)) 2)
        (chunkText e.isPrint ps ++ Y) := by
      have := hat1.adv (a := [59, 32]); simpa using this
    obtain ⟨nb', hext', h'⟩ := ih hps' N nb2 nbR _ sR (by simp only [List.length_cons] at hN; omega) hat3 h
    refine ⟨nb', (Ext.add nb P1).trans (hext2.trans hext'), ?_⟩
    have e1 : N + 1 - ((fs, w :: ws') :: ps).length = N - ps.length := by simp
    have e2 : adv (adv (adv s ((pipeText e.isPrint fs).length + (lineText e.isPrint (w :: ws')).length)) 2)
          (chunkText e.isPrint ps).length =
        adv s (chunkText e.isPrint ((fs, w :: ws') :: ps)).length := by
      rw [chunkText_cons]
      simp only [adv, List.length_append, List.length_cons]
      congr 1
      omega
    rw [e1, ← e2]
    exact h'

/-- **the chunk**: its node starts where it was called and has, among its
children, the `Pipeline` parsed at the start of the current pipeline -/
theorem chunk_target {e : C01.Env} (f : Nat) (ps : List (List (List (Bytes × Int)) × List (Bytes × Int)))
    (hps : ScriptOk ps) (Y : Bytes) (hY : WordStart e.isPrint (peekOf Y)) (s sc : St) (c : Node)
    (hat : At e s (chunkText e.isPrint ps ++ Y))
    (h : parseNT (f + 6) .chunk e s = .ok c sc) :
    c.kind = .chunk ∧ c.frm = s.pos ∧ ∃ p sp, p ∈ c.children ∧
      parseNT (f + 5) .pipeline e (adv s (chunkText e.isPrint ps).length) = .ok p sp := by
  rw [parseNT_succ (f + 5)] at h
  obtain ⟨nb, text, hb, rfl⟩ := wrap_ok' h
  simp only [body] at hb
  have hstart := chunkText_start e.isPrint ps hps Y hY
  unfold chunkBody at hb
  rw [bind_of_eq (parseSeps_none _ hat hstart)] at hb
  simp only at hb
  rw [bind_of_eq (loopFuel_eq e s)] at hb
  have hlen := hat.len
  have hfuel : ps.length < e.src.length + 2 := by
    have : ps.length ≤ (chunkText e.isPrint ps).length := by
      clear hat hlen hstart hps hb
      induction ps with
      | nil => simp
      | cons p ps ih => rw [chunkText_cons]; simp only [List.length_cons, List.length_append]; omega
    simp only [List.length_append] at hlen
    omega
  obtain ⟨nb', hext', h'⟩ := chunk_walk f Y hY ps hps _ _ nb s sc hfuel hat hb
  have hpos : e.src.length + 2 - ps.length = (e.src.length + 1 - ps.length) + 1 := by omega
  rw [hpos] at h'
  have hat1 := hat.adv
  obtain ⟨_, _, _, _, _, _, _, _, gsp⟩ := hY.facts
  unfold chunkLoop at h'
  rw [bind_of_eq (getEnv_eq e _), bind_of_eq (peek_at hat1)] at h'
  simp only [gsp, if_true] at h'
  obtain ⟨p, sp, hp, h'⟩ := C02.bind_ok.1 h'
  obtain ⟨x, s2, hx, h'⟩ := C02.bind_ok.1 h'
  have hextx := parseSeps_ext hx
  obtain ⟨k, nb1⟩ := x
  simp only at h' hextx
  have hfin : Ext nb1 nb := by
    split at h'
    · rw [← (ok_pure_inv h').1]; exact Ext.refl _
    · exact chunkLoop_ext _ _ _ _ _ _ _ h'
  have hall : Ext (nb'.add p) nb := hextx.trans hfin
  refine ⟨rfl, ?_, p, sp, ?_, hp⟩
  · show nb.frm = s.pos
    rw [hall.1]
    exact hext'.1
  · show p ∈ nb.children
    obtain ⟨_, l, hl⟩ := hall
    rw [hl]
    simp [NB.add]

/-! ## the full parse of a completed script -/

/-- **The full parse of a completed script of simple commands.**  `Parse` of
`chunkText ps ++ pipeText fs ++ lineText ws ++ Q ++ tail` returns a tree in which
the outermost compound that starts at the position of `Q` is exactly the word
`Q` was quoted from. -/
theorem script_parse (isPrint : Int → Bool) (ps : List (List (List (Bytes × Int)) × List (Bytes × Int)))
    (hps : ScriptOk ps) (fs : List (List (Bytes × Int))) (hfs : ∀ ws ∈ fs, ws ≠ []) (ws : List (Bytes × Int))
    (stem : Bytes) (q : Int) (tail : Bytes) (hstop : ∀ ctx, startsIndexing isPrint (peekOf tail) ctx = false) :
    ∃ tree errs ctx,
      parse isPrint (chunkText isPrint ps ++ (pipeText isPrint fs ++
        (lineText isPrint ws ++ ((QuoteAs isPrint stem q).1 ++ tail)))) = .ok tree errs ∧
      compoundAtN ((chunkText isPrint ps).length + (pipeText isPrint fs).length + (lineText isPrint ws).length) tree =
        some (wordNode ctx ((chunkText isPrint ps).length + (pipeText isPrint fs).length + (lineText isPrint ws).length)
          (QuoteAs isPrint stem q).1 (QuoteAs isPrint stem q).2 stem) := by
  generalize hB : chunkText isPrint ps ++ (pipeText isPrint fs ++
    (lineText isPrint ws ++ ((QuoteAs isPrint stem q).1 ++ tail))) = B
  obtain ⟨tree, errs, hp, _⟩ := C01_total_lossless isPrint B
  have hgood := parseAsFuel_good isPrint (defaultFuel B) .chunk B (fun l => by simp)
  have hp' := hp
  unfold parse parseAs at hp'
  rw [hp'] at hgood
  obtain ⟨hwf, hfrm0, _, _⟩ := hgood
  let e : C01.Env := { isPrint := isPrint, src := B }
  let st0 : St := { pos := 0, overEOF := 0, errors := [] }
  rw [parseAsFuel_eq] at hp'
  have hrun : ∃ s1, parseNT (defaultFuel B) .chunk e st0 = .ok tree s1 := by
    cases hr : (parseNT (defaultFuel B) .chunk >>= fun n => done >>= fun _ => pure n) e st0 with
    | ok n s =>
      rw [hr] at hp'
      simp only [toResult, ParseResult.ok.injEq] at hp'
      obtain ⟨n', s1, h1, h2⟩ := C02.bind_ok.1 hr
      obtain ⟨_, s2, _, h3⟩ := C02.bind_ok.1 h2
      have := (ok_pure_inv h3).1
      exact ⟨s1, by rw [h1, this, hp'.1]⟩
    | panic w => rw [hr] at hp'; simp [toResult] at hp'
    | fuel => rw [hr] at hp'; simp [toResult] at hp'
  obtain ⟨s1, h1⟩ := hrun
  have hfuel : defaultFuel B = (7 * B.length + 2) + 6 := by unfold defaultFuel; omega
  rw [hfuel] at h1
  have hat0 : At e st0 (chunkText isPrint ps ++ (pipeText isPrint fs ++
      (lineText isPrint ws ++ ((QuoteAs isPrint stem q).1 ++ tail)))) := by
    rw [hB]; exact ⟨Nat.zero_le _, rfl⟩
  have hwl := lineText_peek isPrint stem q tail ws
  have hwp := pipeText_start isPrint fs hfs _ hwl
  obtain ⟨hk1, hf1, p, sp, hpm, hp1⟩ := chunk_target (e := e) (7 * B.length + 2) ps hps _ hwp st0 s1 tree hat0 h1
  have hat1 := hat0.adv
  obtain ⟨hk2, hf2, F, sF, hFm, hF1⟩ := pipeline_target (e := e) (7 * B.length + 2) fs hfs _ hwl _ sp p hat1 hp1
  have hat2 := hat1.adv
  obtain ⟨hk3, ctx, pre, l3, hc3, _⟩ := form_line (e := e) (7 * B.length + 2) stem q tail hstop ws _ sF F hat2 hF1
  obtain ⟨hf3, _⟩ := form_frm hF1
  refine ⟨tree, errs, ctx, hp, ?_⟩
  have he : e.isPrint = isPrint := rfl
  simp only [adv, st0, Nat.zero_add, he] at hc3 hf2 hf3
  generalize hn : (chunkText isPrint ps).length + (pipeText isPrint fs).length + (lineText isPrint ws).length = n at *
  generalize hW : wordNode ctx n (QuoteAs isPrint stem q).1 (QuoteAs isPrint stem q).2 stem = W at *
  have hWk : W.kind = .compound := by rw [← hW]; rfl
  have hWf : W.frm = n := by rw [← hW]; rfl
  have hWt : n < W.to := by
    rw [← hW]
    have : 0 < (QuoteAs isPrint stem q).1.length := List.length_pos_iff.mpr (quoteAs_ne_nil isPrint stem q)
    simp only [wordNode, Node.to]; omega
  have hsp : Spine n W tree := by
    refine .down hpm (by rw [hf2, ← hn]; omega) (Or.inl (by rw [hk1]; decide)) ?_
    refine .down hFm (by rw [hf3, ← hn]; omega) (Or.inl (by rw [hk2]; decide)) ?_
    refine .down (c := W) (by rw [hc3]; simp) (by rw [hWf]; exact Nat.le_refl _) (Or.inl (by rw [hk3]; decide)) .here
  exact (spine_search hWk hWf hWt hsp hwf).1

theorem script_wordValueAt (isPrint : Int → Bool) (ps : List (List (List (Bytes × Int)) × List (Bytes × Int)))
    (hps : ScriptOk ps) (fs : List (List (Bytes × Int))) (hfs : ∀ ws ∈ fs, ws ≠ []) (ws : List (Bytes × Int))
    (stem : Bytes) (q : Int) (tail : Bytes) (hstop : ∀ ctx, startsIndexing isPrint (peekOf tail) ctx = false) :
    wordValueAt isPrint (chunkText isPrint ps ++ (pipeText isPrint fs ++
        (lineText isPrint ws ++ ((QuoteAs isPrint stem q).1 ++ tail))))
      ((chunkText isPrint ps).length + (pipeText isPrint fs).length + (lineText isPrint ws).length) =
      some (stem, (chunkText isPrint ps).length + (pipeText isPrint fs).length + (lineText isPrint ws).length +
        (QuoteAs isPrint stem q).1.length) := by
  obtain ⟨tree, errs, ctx, hp, hs⟩ := script_parse isPrint ps hps fs hfs ws stem q tail hstop
  unfold wordValueAt
  rw [hp]
  simp only [hs, wordNode_value isPrint ctx _ _ _ stem (quoteAs_type isPrint stem q)]
  rfl

end C43
