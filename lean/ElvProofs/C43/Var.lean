/-
C43 helper lemmas, part 12 (round 2): variable-name candidates.  They are
inserted verbatim (`noQuoteItem`) after `$`, the sigil and the namespace; this
file runs `(*Primary).variable` of the C01 parser in place on `$` followed by a
name made of variable-name runes.
-/
import ElvProofs.C43.Words
namespace C43
open Go C01
open Gen.C01Chars

/-- the node `parse(ps, &Primary{ExprCtx: ctx})` returns for `$name` -/
def varNode (ctx : Int) (frm : Nat) (name : Bytes) : Node :=
  .mk .primary frm (frm + (1 + name.length)) (36 :: name) { ctx := ctx, ptype := Variable, value := name } []

theorem encodeRune_36 : encodeRune 36 = [36] := by decide

theorem allowedInBareword_36 (isPrint : Int → Bool) (ctx : Int) : allowedInBareword isPrint 36 ctx = false := by
  simp [allowedInBareword, allowedInVariableName]

theorem startsPrimary_36 (isPrint : Int → Bool) (ctx : Int) : startsPrimary isPrint 36 ctx = true := by
  simp [startsPrimary]

/-- `$` + a name whose first rune is a variable-name rune or `@` and whose other
runes are variable-name runes, followed by a rune that is not one: one
`Variable` primary with exactly that name, no error -/
theorem primary_variable_rt {e : C01.Env} {s : St} {r0 : Nat} {rs : List Nat} {rest : Bytes} (ctx : Int) (fuel : Nat)
    (hv0 : validRune r0 = true) (h0 : allowedInVariableName e.isPrint (r0 : Int) = true ∨ r0 = 64)
    (hall : ∀ r ∈ rs, validRune r = true ∧ allowedInVariableName e.isPrint (r : Int) = true)
    (hstop : allowedInVariableName e.isPrint (peekOf rest) = false)
    (hat : At e s (36 :: (encodeRunes (r0 :: rs) ++ rest))) :
    parseNT (fuel + 1) (.primary ctx) e s =
      .ok (varNode ctx s.pos (encodeRunes (r0 :: rs))) (adv s (1 + (encodeRunes (r0 :: rs)).length)) := by
  have hpeek : peekOf (36 :: (encodeRunes (r0 :: rs) ++ rest)) = 36 := by
    rw [peekOf_cons_ascii 36 _ (by decide)]; decide
  have hat0 : At e s (encodeRune 36 ++ (encodeRune r0 ++ (encodeRunes rs ++ rest))) := by
    rw [encodeRune_36]; simpa [encodeRunes] using hat
  obtain ⟨hnx, hat1⟩ := next_rune (r := 36) (by decide) hat0
  obtain ⟨hnx0, hat2⟩ := next_rune hv0 hat1
  have hlen := hat.len
  have hfuel : rs.length < e.src.length + 2 := by
    have := length_le_encodeRunes rs
    simp only [List.length_cons, List.length_append, encodeRunes, List.flatMap_cons] at hlen
    simp only [encodeRunes] at this
    omega
  have hskip := skipWhile_run (e := e) (allowedInVariableName e.isPrint) rs (e.src.length + 2) _ rest hall hstop hfuel hat2
  have hne_eof : ((r0 : Int) == eof) = false := by
    simp only [eof, beq_eq_false_iff_ne, ne_eq]; omega
  have hne39 : ((r0 : Int) == 39) = false := by
    rcases h0 with h | h
    · cases h39 : ((r0 : Int) == 39)
      · rfl
      · have : (r0 : Int) = 39 := by simpa using h39
        rw [this] at h
        simp [allowedInVariableName] at h
    · subst h; decide
  have hne34 : ((r0 : Int) == 34) = false := by
    rcases h0 with h | h
    · cases h34 : ((r0 : Int) == 34)
      · rfl
      · have : (r0 : Int) = 34 := by simpa using h34
        rw [this] at h
        simp [allowedInVariableName] at h
    · subst h; decide
  have hok : (!allowedInVariableName e.isPrint (r0 : Int) && (r0 : Int) != 64) = false := by
    rcases h0 with h | h
    · simp [h]
    · subst h; simp
  have hbody : primaryBody (fun nt' => parseNT fuel nt') { frm := s.pos, f := { ctx := ctx }, children := [] } e s =
      .ok ((NB.setType { frm := s.pos, f := { ctx := ctx }, children := [] } Variable).setValue (encodeRunes (r0 :: rs)))
        (adv s (1 + (encodeRunes (r0 :: rs)).length)) := by
    simp only [primaryBody]
    rw [bind_of_eq (getEnv_eq e s), bind_of_eq (peek_at hat), hpeek]
    have h39 : ((36 : Int) == 39) = false := by decide
    have h34 : ((36 : Int) == 34) = false := by decide
    have h36 : ((36 : Int) == 36) = true := by decide
    simp only [startsPrimary_36, allowedInBareword_36, Bool.not_true, Bool.false_eq_true, if_false, h39, h34, h36,
      if_true]
    unfold variableP
    rw [bind_of_eq (getEnv_eq e s), bind_of_eq hnx, bind_of_eq hnx0]
    simp only [hne_eof, hne39, hne34, Bool.false_eq_true, if_false, hok]
    rw [bind_of_eq (pure_apply () e _), bind_of_eq (loopFuel_eq e _), bind_of_eq hskip, bind_of_eq (getPos_eq e _)]
    have hlen36 : (encodeRune 36).length = 1 := by decide
    simp only [adv_adv, hlen36, NB.setType]
    have hb : (adv s (1 + (encodeRune r0).length + (encodeRunes rs).length)).pos ≤ e.src.length := by
      simp only [List.length_cons, List.length_append, encodeRunes, List.flatMap_cons] at hlen
      simp only [adv, encodeRunes]; omega
    rw [bind_of_eq (sliceSrc_at (a := s.pos + 1) (b := (adv s (1 + (encodeRune r0).length + (encodeRunes rs).length)).pos)
      (by simp only [adv]; omega) hb)]
    have htake : (e.src.drop (s.pos + 1)).take ((adv s (1 + (encodeRune r0).length + (encodeRunes rs).length)).pos - (s.pos + 1)) =
        encodeRunes (r0 :: rs) := by
      have h1 : e.src.drop (s.pos + 1) = encodeRunes (r0 :: rs) ++ rest := by
        rw [← List.drop_drop, hat.2]; rfl
      rw [h1]
      have : (adv s (1 + (encodeRune r0).length + (encodeRunes rs).length)).pos - (s.pos + 1) = (encodeRunes (r0 :: rs)).length := by
        simp only [adv, encodeRunes, List.flatMap_cons, List.length_append]; omega
      rw [this, List.take_left]
    rw [htake]
    have : 1 + (encodeRune r0).length + (encodeRunes rs).length = 1 + (encodeRunes (r0 :: rs)).length := by
      simp only [encodeRunes, List.flatMap_cons, List.length_append]; omega
    rw [this]
    rfl
  simp only [parseNT, wrap]
  rw [bind_of_eq (getPos_eq e s)]
  simp only [body, NT.init]
  rw [bind_of_eq hbody, bind_of_eq (getPos_eq e _)]
  simp only [NB.setType, NB.setValue]
  have hb : (adv s (1 + (encodeRunes (r0 :: rs)).length)).pos ≤ e.src.length := by
    simp only [List.length_cons, List.length_append] at hlen
    simp only [adv]; omega
  rw [bind_of_eq (sliceSrc_at (a := s.pos) (b := (adv s (1 + (encodeRunes (r0 :: rs)).length)).pos)
    (by simp [adv]) hb)]
  have htake : (e.src.drop s.pos).take ((adv s (1 + (encodeRunes (r0 :: rs)).length)).pos - s.pos) =
      36 :: encodeRunes (r0 :: rs) := by
    rw [hat.2]
    have : (adv s (1 + (encodeRunes (r0 :: rs)).length)).pos - s.pos = (36 :: encodeRunes (r0 :: rs)).length := by
      simp only [adv, List.length_cons]; omega
    rw [this]
    have : (36 : UInt8) :: (encodeRunes (r0 :: rs) ++ rest) = (36 :: encodeRunes (r0 :: rs)) ++ rest := rfl
    rw [this, List.take_left]
  rw [htake]
  rfl

/-- a plain variable name: valid UTF-8, not empty, first rune a variable-name
rune or `@`, every other rune a variable-name rune -/
def PlainVarName (isPrint : Int → Bool) (name : Bytes) : Prop :=
  validUtf8 name = true ∧ ∃ r0 rs, toRunes name = r0 :: rs ∧
    (allowedInVariableName isPrint (r0 : Int) = true ∨ r0 = 64) ∧
    ∀ r ∈ rs, allowedInVariableName isPrint (r : Int) = true

/-- **A variable use, in place.**  `$name` for a plain variable name, after any
text and before a rune that is not a variable-name rune, is read by the
`Primary` grammar function in every expression context as one `Variable`
primary with the value `name` spanning exactly `$name`; no error. -/
theorem variable_rt (isPrint : Int → Bool) (name : Bytes) (ctx : Int) (pre rest : Bytes) (k : Nat) (errs : List PErr)
    (hname : PlainVarName isPrint name) (hstop : allowedInVariableName isPrint (peekOf rest) = false) :
    parsePrimary isPrint (pre ++ (36 :: name) ++ rest) ctx { pos := pre.length, overEOF := k, errors := errs } =
      .ok (varNode ctx pre.length name) { pos := pre.length + (1 + name.length), overEOF := k, errors := errs } := by
  obtain ⟨hvalid, r0, rs, hrs, h0, hall⟩ := hname
  have hw : encodeRunes (toRunes name) = name := encodeRunes_toRunes hvalid
  generalize hsrc : pre ++ (36 :: name) ++ rest = src
  have hfuel : defaultFuel src = (7 * src.length + 7) + 1 := by unfold defaultFuel; omega
  unfold parsePrimary runNT
  rw [hfuel]
  have hat : At { isPrint := isPrint, src := src } { pos := pre.length, overEOF := k, errors := errs }
      (36 :: (encodeRunes (r0 :: rs) ++ rest)) := by
    refine ⟨?_, ?_⟩
    · simp only []; rw [← hsrc]; simp
    · simp only []; rw [← hsrc, List.append_assoc, List.drop_left, ← hrs, hw]; rfl
  have hv : ∀ r ∈ r0 :: rs, validRune r = true := fun r hr => toRunes_validRune name r (by rw [hrs]; exact hr)
  have := primary_variable_rt (e := { isPrint := isPrint, src := src })
    (s := { pos := pre.length, overEOF := k, errors := errs }) (rest := rest) ctx (7 * src.length + 7)
    (hv r0 List.mem_cons_self) h0
    (fun r hr => ⟨hv r (List.mem_cons_of_mem _ hr), hall r hr⟩) hstop hat
  rw [← hrs, hw] at this
  exact this

end C43
