/-
C43 helper lemmas, part 14 (round 2): nesting.  The command being completed may
sit inside output captures — `echo (cat (ls fo` — each frame a script of simple
commands followed by `(`.  The `Form` lemma of `Line.lean` is generalised from
"the target is the quoted word" to "the target is a compound that has a spine
to the word"; the chain `Compound ∋ Indexing ∋ Primary(…) ∋ Chunk` supplies such
a compound from the chunk inside the parentheses.
-/
import ElvProofs.C43.Reach
namespace C43
open Go C01
open Gen.C01Chars

/-! ## what the rest of the nested functions keeps -/

theorem compoundLoop_ext (rec : NT → M Node) (ctx : Int) : ∀ (n : Nat) (nb nb' : NB) (e : C01.Env) (s s' : St),
    compoundLoop rec ctx n nb e s = .ok nb' s' → Ext nb nb'
  | 0, _, _, _, _, _, h => by simp [compoundLoop, outOfFuel] at h
  | n + 1, nb, nb', e, s, s', h => by
    unfold compoundLoop at h
    obtain ⟨env, s1, _, h⟩ := C02.bind_ok.1 h
    obtain ⟨r, s2, _, h⟩ := C02.bind_ok.1 h
    split at h
    · obtain ⟨i, s3, _, h⟩ := C02.bind_ok.1 h
      exact (Ext.add nb i).trans (compoundLoop_ext rec ctx n _ _ _ _ _ h)
    · rw [← (ok_pure_inv h).1]; exact Ext.refl _

theorem indexingLoop_ext (rec : NT → M Node) : ∀ (n : Nat) (nb nb' : NB) (e : C01.Env) (s s' : St),
    indexingLoop rec n nb e s = .ok nb' s' → Ext nb nb'
  | 0, _, _, _, _, _, h => by simp [indexingLoop, outOfFuel] at h
  | n + 1, nb, nb', e, s, s', h => by
    unfold indexingLoop at h
    obtain ⟨env, s1, _, h⟩ := C02.bind_ok.1 h
    obtain ⟨x, s2, hx, h⟩ := C02.bind_ok.1 h
    have hx' := parseSep_ext hx
    obtain ⟨ok, nb1⟩ := x
    simp only at h hx'
    split at h
    · obtain ⟨r, s3, _, h⟩ := C02.bind_ok.1 h
      obtain ⟨_, s4, _, h⟩ := C02.bind_ok.1 h
      obtain ⟨a, s5, _, h⟩ := C02.bind_ok.1 h
      obtain ⟨y, s6, hy, h⟩ := C02.bind_ok.1 h
      have hy' := parseSep_ext hy
      obtain ⟨ok2, nb2⟩ := y
      simp only at h hy'
      split at h
      · obtain ⟨_, s7, _, h⟩ := C02.bind_ok.1 h
        rw [← (ok_pure_inv h).1]
        exact hx'.trans ((Ext.add nb1 a).trans hy')
      · exact hx'.trans ((Ext.add nb1 a).trans (hy'.trans (indexingLoop_ext rec n _ _ _ _ _ h)))
    · rw [← (ok_pure_inv h).1]; exact hx'

theorem setMode_ext {nb nb' : NB} {sign : Bytes} {e : C01.Env} {s s' : St}
    (h : setMode nb sign e s = .ok nb' s') : Ext nb nb' := by
  unfold setMode at h
  cases hm : redirMode sign with
  | some m =>
    rw [hm] at h
    simp only at h
    rw [← (ok_pure_inv h).1]; exact Ext.of_eq rfl rfl
  | none =>
    rw [hm] at h
    simp only at h
    obtain ⟨_, s1, _, h⟩ := C02.bind_ok.1 h
    rw [← (ok_pure_inv h).1]; exact Ext.refl _

theorem redirRest_ext {rec : NT → M Node} {nb nb' : NB} {e : C01.Env} {s s' : St}
    (h : redirRest rec nb e s = .ok nb' s') : Ext nb nb' := by
  unfold redirRest at h
  obtain ⟨b, s1, _, h⟩ := C02.bind_ok.1 h
  obtain ⟨k, s2, _, h⟩ := C02.bind_ok.1 h
  obtain ⟨_, s3, _, h⟩ := C02.bind_ok.1 h
  obtain ⟨pos, s4, _, h⟩ := C02.bind_ok.1 h
  obtain ⟨sign, s5, _, h⟩ := C02.bind_ok.1 h
  obtain ⟨nb1, s6, h1, h⟩ := C02.bind_ok.1 h
  obtain ⟨nb2, s7, h2, h⟩ := C02.bind_ok.1 h
  obtain ⟨nb3, s8, h3, h⟩ := C02.bind_ok.1 h
  obtain ⟨x, s9, hx, h⟩ := C02.bind_ok.1 h
  have hx' := parseSep_ext hx
  obtain ⟨isFd, nb4⟩ := x
  simp only at h hx'
  obtain ⟨right, s10, _, h⟩ := C02.bind_ok.1 h
  have hpre : Ext nb nb4 := (setMode_ext h1).trans ((addSep_ext h2).trans ((parseSpaces_ext h3).trans hx'))
  have hfd : Ext nb4 (if isFd = true then { nb4 with f := { nb4.f with flag := true } } else nb4) := by
    split
    · exact Ext.of_eq rfl rfl
    · exact Ext.refl _
  split at h
  · obtain ⟨_, s11, _, h⟩ := C02.bind_ok.1 h
    rw [← (ok_pure_inv h).1]
    exact hpre.trans (hfd.trans (Ext.add _ right))
  · rw [← (ok_pure_inv h).1]
    exact hpre.trans (hfd.trans (Ext.add _ right))

/-- a `Redir` with a left operand starts at the operand and has it as a child -/
theorem redir_left {e : C01.Env} {f : Nat} {s s' : St} {cn rd : Node}
    (h : parseNT (f + 1) (.redir (some cn)) e s = .ok rd s') :
    rd.kind = .redir ∧ rd.frm = cn.frm ∧ cn ∈ rd.children := by
  rw [parseNT_succ] at h
  obtain ⟨nb, text, hb, rfl⟩ := wrap_ok' h
  simp only [body, redirBody, attachLeft] at hb
  obtain ⟨hf, l, hl⟩ := redirRest_ext hb
  refine ⟨rfl, hf, ?_⟩
  show cn ∈ nb.children
  rw [hl]
  simp [NB.add]

/-! ## `Compound ∋ Indexing ∋ Primary( … ) ∋ Chunk` -/

theorem peekOf_paren (t : Bytes) : peekOf (40 :: t) = 40 := by
  rw [peekOf_cons_ascii 40 t (by decide)]; decide

/-- `(`: an output capture; its children contain the `Chunk` parsed right after the parenthesis -/
theorem primary_paren {e : C01.Env} (f : Nat) (ctx : Int) {s s' : St} {S : Bytes} {pn : Node} (hat : At e s (40 :: S))
    (h : parseNT (f + 1) (.primary ctx) e s = .ok pn s') :
    pn.kind = .primary ∧ pn.frm = s.pos ∧ ∃ c sc, c ∈ pn.children ∧ parseNT f .chunk e (adv s 1) = .ok c sc := by
  rw [parseNT_succ] at h
  obtain ⟨nb, text, hb, rfl⟩ := wrap_ok' h
  simp only [body, NT.init] at hb
  unfold primaryBody at hb
  rw [bind_of_eq (getEnv_eq e s), bind_of_eq (peek_at hat), peekOf_paren] at hb
  have hsp : startsPrimary e.isPrint 40 ctx = true := by simp [startsPrimary]
  have hbw : allowedInBareword e.isPrint 40 ctx = false := by simp [allowedInBareword, allowedInVariableName]
  simp only [hsp, hbw, Bool.not_true, Bool.false_eq_true, if_false,
    show ((40 : Int) == 39) = false by decide, show ((40 : Int) == 34) = false by decide,
    show ((40 : Int) == 36) = false by decide, show ((40 : Int) == 42) = false by decide,
    show ((40 : Int) == 63) = false by decide, show ((40 : Int) == 40) = true by decide, if_true] at hb
  unfold outputCapture at hb
  obtain ⟨x, s1, hx, hb⟩ := C02.bind_ok.1 hb
  have hat0 : At e s (encodeRune 40 ++ S) := by
    have : encodeRune 40 = [40] := by decide
    rw [this]; exact hat
  obtain ⟨_, hs1, hext1⟩ := parseSep_yes (r := 40) (by decide) (by decide) hat0 hx
  subst hs1
  obtain ⟨ok1, nb1⟩ := x
  simp only at hb hext1
  obtain ⟨c, sc, hc, hb⟩ := C02.bind_ok.1 hb
  obtain ⟨y, s2, hy, hb⟩ := C02.bind_ok.1 hb
  have hext2 := parseSep_ext hy
  obtain ⟨ok2, nb2⟩ := y
  simp only at hb hext2
  have hfin : nb = nb2 := by
    split at hb
    · obtain ⟨_, s3, _, hb⟩ := C02.bind_ok.1 hb
      exact (ok_pure_inv hb).1.symm
    · exact (ok_pure_inv hb).1.symm
  subst hfin
  have hall : Ext (nb1.add c) nb := hext2
  refine ⟨rfl, ?_, c, sc, ?_, hc⟩
  · show nb.frm = s.pos
    rw [hall.1]
    exact hext1.1
  · show c ∈ nb.children
    obtain ⟨_, l, hl⟩ := hall
    rw [hl]
    simp [NB.add]

/-- an `Indexing` has, among its children, the `Primary` parsed at its start -/
theorem indexing_head {e : C01.Env} (f : Nat) (ctx : Int) {s s' : St} {inn : Node}
    (h : parseNT (f + 1) (.indexing ctx) e s = .ok inn s') :
    inn.kind = .indexing ∧ inn.frm = s.pos ∧ ∃ pn sp, pn ∈ inn.children ∧ parseNT f (.primary ctx) e s = .ok pn sp := by
  rw [parseNT_succ] at h
  obtain ⟨nb, text, hb, rfl⟩ := wrap_ok' h
  simp only [body, NT.init] at hb
  unfold indexingBody at hb
  obtain ⟨pn, sp, hpn, hb⟩ := C02.bind_ok.1 hb
  obtain ⟨k, s2, _, hb⟩ := C02.bind_ok.1 hb
  have hall := indexingLoop_ext _ _ _ _ _ _ _ hb
  refine ⟨rfl, hall.1, pn, sp, ?_, hpn⟩
  show pn ∈ nb.children
  obtain ⟨_, l, hl⟩ := hall
  rw [hl]
  simp [NB.add]

/-- a `Compound` that starts with `(` has, among its children, the `Indexing` parsed at its start -/
theorem compound_paren {e : C01.Env} (f : Nat) (ctx : Int) {s s' : St} {S : Bytes} {cn : Node} (hat : At e s (40 :: S))
    (h : parseNT (f + 1) (.compound ctx) e s = .ok cn s') :
    cn.kind = .compound ∧ cn.frm = s.pos ∧ ∃ inn si, inn ∈ cn.children ∧ parseNT f (.indexing ctx) e s = .ok inn si := by
  rw [parseNT_succ] at h
  obtain ⟨nb, text, hb, rfl⟩ := wrap_ok' h
  simp only [body, NT.init] at hb
  unfold compoundBody at hb
  have htil : tilde { frm := s.pos, f := { ctx := ctx }, children := [] } e s =
      .ok { frm := s.pos, f := { ctx := ctx }, children := [] } s := by
    simp only [tilde]
    rw [bind_of_eq (peek_at hat), peekOf_paren]
    simp
  rw [bind_of_eq htil, bind_of_eq (loopFuel_eq e s)] at hb
  have hk : e.src.length + 2 = (e.src.length + 1) + 1 := rfl
  rw [hk] at hb
  unfold compoundLoop at hb
  rw [bind_of_eq (getEnv_eq e s), bind_of_eq (peek_at hat), peekOf_paren] at hb
  have hsi : startsIndexing e.isPrint 40 ctx = true := by simp [startsIndexing, startsPrimary]
  simp only [hsi, if_true] at hb
  obtain ⟨inn, si, hinn, hb⟩ := C02.bind_ok.1 hb
  have hall := compoundLoop_ext _ _ _ _ _ _ _ _ hb
  refine ⟨rfl, hall.1, inn, si, ?_, hinn⟩
  show inn ∈ nb.children
  obtain ⟨_, l, hl⟩ := hall
  rw [hl]
  simp [NB.add]

/-! ## a command whose target is a compound that reaches the word -/

/-- the word of some context at `n` is reached from `X` -/
def Reaches (n : Nat) (Q : Bytes) (ty : Int) (stem : Bytes) (X : Node) : Prop :=
  ∃ ctx, Spine n (wordNode ctx n Q ty stem) X

theorem Reaches.down {n : Nat} {Q : Bytes} {ty : Int} {stem : Bytes} {X c : Node} (hm : c ∈ X.children) (hf : c.frm ≤ n)
    (hk : X.kind ≠ .compound ∨ X.frm ≠ n) (h : Reaches n Q ty stem c) : Reaches n Q ty stem X := by
  obtain ⟨ctx, hs⟩ := h
  exact ⟨ctx, .down hm hf hk hs⟩

/-- the `Compound` function, run at the target text `T`, returns a node that
starts there and reaches the word -/
def CReach (e : C01.Env) (f n : Nat) (Q : Bytes) (ty : Int) (stem : Bytes) (T : Bytes) : Prop :=
  ∀ (ctx : Int) (s s' : St) (node : Node), At e s T → parseNT (f + 3) (.compound ctx) e s = .ok node s' →
    node.frm = s.pos ∧ Reaches n Q ty stem node

theorem lineText_start' (isPrint : Int → Bool) (ws : List (Bytes × Int)) (T : Bytes) (hT : WordStart isPrint (peekOf T)) :
    WordStart isPrint (peekOf (lineText isPrint ws ++ T)) := by
  cases ws with
  | nil => simpa [lineText] using hT
  | cons w ws' => exact lineText_start isPrint (w :: ws') (by simp) T

/-- one iteration of `formLoop` at the target -/
theorem formLoop_target {e : C01.Env} (f n : Nat) (Q : Bytes) (ty : Int) (stem : Bytes) (T : Bytes)
    (hT : WordStart e.isPrint (peekOf T)) (hn : ∀ s : St, At e s T → s.pos ≤ n) (hreach : CReach e f n Q ty stem T)
    (M : Nat) (nb nbR : NB) (s sR : St) (hat : At e s T)
    (h : formLoop (fun nt' => parseNT (f + 3) nt') (M + 1) nb e s = .ok nbR sR) :
    ∃ c, c ∈ nbR.children ∧ c.frm ≤ n ∧ Reaches n Q ty stem c := by
  obtain ⟨_, _, _, _, _, f38, _, fsc, _⟩ := hT.facts
  unfold formLoop at h
  rw [bind_of_eq (getEnv_eq e s), bind_of_eq (peek_at hat)] at h
  simp only [f38, fsc NormalExpr, Bool.false_eq_true, if_false, if_true] at h
  obtain ⟨cn, s1, hcn, h⟩ := C02.bind_ok.1 h
  obtain ⟨hcf, hcr⟩ := hreach NormalExpr s s1 cn hat hcn
  have hcf' : cn.frm ≤ n := by rw [hcf]; exact hn s hat
  obtain ⟨r, s2, _, h⟩ := C02.bind_ok.1 h
  split at h
  · obtain ⟨rd, s3, hrd, h⟩ := C02.bind_ok.1 h
    obtain ⟨hrk, hrf, hrm⟩ := redir_left (f := f + 2) hrd
    obtain ⟨nb1, s4, h4, h⟩ := C02.bind_ok.1 h
    obtain ⟨_, l, hl⟩ := (parseSpaces_ext h4).trans (formLoop_ext _ _ _ _ _ _ _ h)
    refine ⟨rd, by rw [hl]; simp [NB.add], by rw [hrf]; exact hcf', ?_⟩
    exact hcr.down hrm hcf' (Or.inl (by rw [hrk]; decide))
  · obtain ⟨nb1, s4, h4, h⟩ := C02.bind_ok.1 h
    obtain ⟨_, l, hl⟩ := (parseSpaces_ext h4).trans (formLoop_ext _ _ _ _ _ _ _ h)
    exact ⟨cn, by rw [hl]; simp [NB.add], hcf', hcr⟩

/-- **`Form.parse` on `w₀ ␣ … ␣ wₖ₋₁ ␣ T`** where the compound at `T` reaches the word -/
theorem form_reach {e : C01.Env} (f n : Nat) (Q : Bytes) (ty : Int) (stem : Bytes) (T : Bytes)
    (hT : WordStart e.isPrint (peekOf T)) (hn : ∀ s : St, At e s T → s.pos ≤ n) (hreach : CReach e f n Q ty stem T)
    (ws : List (Bytes × Int)) (s sR : St) (F : Node) (hat : At e s (lineText e.isPrint ws ++ T))
    (h : parseNT (f + 4) .form e s = .ok F sR) :
    F.kind = .form ∧ F.frm = s.pos ∧ Reaches n Q ty stem F := by
  obtain ⟨hff, hfk⟩ := form_frm h
  refine ⟨hfk, hff, ?_⟩
  rw [parseNT_succ (f + 3)] at h
  obtain ⟨nbR, text, hb, rfl⟩ := wrap_ok' h
  simp only [body] at hb
  suffices hc : ∃ c, c ∈ nbR.children ∧ c.frm ≤ n ∧ Reaches n Q ty stem c by
    obtain ⟨c, hm, hf, hr⟩ := hc
    exact hr.down (X := Node.mk NT.form.kind nbR.frm sR.pos text nbR.f nbR.children) hm hf
      (Or.inl (by simp [Node.kind, NT.kind]))
  unfold formBody at hb
  cases ws with
  | nil =>
    simp only [lineText, List.nil_append] at hat
    obtain ⟨hd, s1, hhd, hb⟩ := C02.bind_ok.1 hb
    obtain ⟨hdf0, hdr⟩ := hreach CmdExpr s s1 hd hat hhd
    have hdf : hd.frm ≤ n := by rw [hdf0]; exact hn s hat
    obtain ⟨nb1, s2, h2, hb⟩ := C02.bind_ok.1 hb
    obtain ⟨k, s3, _, hb⟩ := C02.bind_ok.1 hb
    obtain ⟨_, l, hl⟩ := (parseSpaces_ext h2).trans (formLoop_ext _ _ _ _ _ _ _ hb)
    exact ⟨hd, by rw [hl]; simp [NB.add], hdf, hdr⟩
  | cons w ws' =>
    have hX : NextStart (peekOf T) := hT.next
    have hat' : At e s ((QuoteAs e.isPrint w.1 w.2).1 ++ 32 :: (lineText e.isPrint ws' ++ T)) := by
      simpa [lineText] using hat
    have hword := quoteAs_word_at w.1 w.2 CmdExpr _ f (stops_space e.isPrint CmdExpr _) hat'
    have hat2 := hat'.adv
    obtain ⟨g1, g35, g94⟩ := lineText_next e.isPrint T hX ws'
    rw [bind_of_eq hword] at hb
    obtain ⟨nb1, s1, hsp, hb⟩ := C02.bind_ok.1 hb
    obtain ⟨hs1, _, _⟩ := parseSpaces_one hat2 g1 g35 g94 hsp
    subst hs1
    rw [bind_of_eq (loopFuel_eq e _)] at hb
    have hat3 : At e (adv (adv s (QuoteAs e.isPrint w.1 w.2).1.length) 1) (lineText e.isPrint ws' ++ T) := by
      have := hat2.adv (a := [32])
      simpa using this
    have hlen := hat3.len
    have hfuel : ws'.length < e.src.length + 2 := by
      have := lineText_length e.isPrint ws'
      simp only [List.length_append] at hlen
      omega
    obtain ⟨nb', _, h'⟩ := formLoop_walk f T hX ws' _ nb1 nbR _ sR hfuel hat3 hb
    have hpos : e.src.length + 2 - ws'.length = (e.src.length + 1 - ws'.length) + 1 := by omega
    rw [hpos] at h'
    exact formLoop_target f n Q ty stem T hT hn hreach _ nb' nbR _ sR hat3.adv h'

/-- the quoted word itself is such a target -/
theorem creach_word {e : C01.Env} (f n : Nat) (stem : Bytes) (q : Int) (tail : Bytes)
    (hstop : ∀ ctx, startsIndexing e.isPrint (peekOf tail) ctx = false)
    (hn : ∀ s : St, At e s ((QuoteAs e.isPrint stem q).1 ++ tail) → s.pos = n) :
    CReach e f n (QuoteAs e.isPrint stem q).1 (QuoteAs e.isPrint stem q).2 stem ((QuoteAs e.isPrint stem q).1 ++ tail) := by
  intro ctx s s' node hat h
  rw [quoteAs_word_at stem q ctx tail f (hstop ctx) hat] at h
  simp only [Out.ok.injEq] at h
  rw [← h.1]
  refine ⟨rfl, ctx, ?_⟩
  rw [hn s hat]
  exact .here

/-- `(` followed by a text whose `Chunk` reaches the word is such a target -/
theorem creach_paren {e : C01.Env} (f n : Nat) (Q : Bytes) (ty : Int) (stem : Bytes) (S : Bytes)
    (hle : ∀ s : St, At e s S → s.pos ≤ n)
    (hchunk : ∀ (s sc : St) (c : Node), At e s S → parseNT f .chunk e s = .ok c sc →
      c.kind = .chunk ∧ c.frm = s.pos ∧ Reaches n Q ty stem c) :
    CReach e f n Q ty stem (40 :: S) := by
  intro ctx s s' cn hat h
  obtain ⟨hck, hcf, inn, si, him, hinn⟩ := compound_paren (f + 2) ctx hat h
  obtain ⟨hik, hif, pn, sp, hpm, hpn⟩ := indexing_head (f + 1) ctx hinn
  obtain ⟨hpk, hpf, c, sc, hcm, hc⟩ := primary_paren f ctx hat hpn
  have hatS : At e (adv s 1) S := by
    have := hat.adv (a := [40]); simpa using this
  obtain ⟨hkk, hkf, hr⟩ := hchunk _ sc c hatS hc
  have hpos := hle _ hatS
  simp only [adv] at hpos hkf
  refine ⟨hcf, ?_⟩
  refine Reaches.down him (by rw [hif]; omega) (Or.inr (by rw [hcf]; omega)) ?_
  refine Reaches.down hpm (by rw [hpf]; omega) (Or.inl (by rw [hik]; decide)) ?_
  exact Reaches.down hcm (by rw [hkf]; omega) (Or.inl (by rw [hpk]; decide)) hr

/-- **one nesting level**: a script of simple commands, then a target whose compound reaches the word -/
theorem frame_reach {e : C01.Env} (f n : Nat) (Q : Bytes) (ty : Int) (stem : Bytes) (T : Bytes)
    (hT : WordStart e.isPrint (peekOf T)) (hn : ∀ s : St, At e s T → s.pos ≤ n) (hreach : CReach e f n Q ty stem T)
    (fr : Frame) (hok : FrameOk fr) (s sc : St) (c : Node) (hat : At e s (frameText e.isPrint fr ++ T))
    (h : parseNT (f + 6) .chunk e s = .ok c sc) :
    c.kind = .chunk ∧ c.frm = s.pos ∧ Reaches n Q ty stem c := by
  obtain ⟨ps, fs, ws⟩ := fr
  obtain ⟨hps, hfs⟩ := hok
  simp only at hps hfs
  have hat' : At e s (chunkText e.isPrint ps ++ (pipeText e.isPrint fs ++ (lineText e.isPrint ws ++ T))) := by
    simpa [frameText] using hat
  have hwl := lineText_start' e.isPrint ws T hT
  have hwp := pipeText_start e.isPrint fs hfs _ hwl
  obtain ⟨hk1, hf1, p, sp, hpm, hp1⟩ := chunk_target f ps hps _ hwp s sc c hat' h
  have hat1 := hat'.adv
  obtain ⟨hk2, hf2, F, sF, hFm, hF1⟩ := pipeline_target f fs hfs _ hwl _ sp p hat1 hp1
  have hat2 := hat1.adv
  obtain ⟨hk3, hf3, hr⟩ := form_reach f n Q ty stem T hT hn hreach ws _ sF F hat2 hF1
  have hnT := hn _ hat2.adv
  simp only [adv] at hnT hf2 hf3
  refine ⟨hk1, hf1, ?_⟩
  refine Reaches.down hpm (by rw [hf2]; omega) (Or.inl (by rw [hk1]; decide)) ?_
  exact Reaches.down hFm (by rw [hf3]; omega) (Or.inl (by rw [hk2]; decide)) hr

end C43
