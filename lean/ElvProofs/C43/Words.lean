/-
C43 helper lemmas, part 7: a word produced by `QuoteAs` parses back, in situ,
to one compound with one primary whose value is the quoted string.
-/
import ElvProofs.C43.Double
namespace C43
open Go C01
open Gen.C01Chars

/-- the tree `Compound[Indexing[Primary ty val]]` over the text `w` at `frm` -/
def wordNode (ctx : Int) (frm : Nat) (w : Bytes) (ty : Int) (val : Bytes) : Node :=
  .mk .compound frm (frm + w.length) w { ctx := ctx }
    [.mk .indexing frm (frm + w.length) w { ctx := ctx } [quotedNode ctx ty frm w val]]

theorem validUtf8_of_no_error : ∀ s : Bytes, (∀ r ∈ toRunes s, r ≠ RuneError) → validUtf8 s = true := by
  intro s
  induction s using runes_induction with
  | nil => intro _; rfl
  | step s hs ih =>
    intro h
    rw [toRunes_of_ne_nil hs] at h
    rw [validUtf8_of_ne_nil hs, ih (fun r hr => h r (List.mem_cons_of_mem _ hr))]
    have := h _ List.mem_cons_self
    simp [this]

theorem needsDouble_false {isPrint : Int → Bool} {s : Bytes} (h : needsDouble isPrint s = false) :
    validUtf8 s = true ∧ ∀ r ∈ toRunes s, r ≠ RuneError ∧ isPrint (r : Int) = true := by
  unfold needsDouble at h
  have h' : ∀ r ∈ toRunes s, r ≠ RuneError ∧ isPrint (r : Int) = true := by
    intro r hr
    have := List.any_eq_false.mp h r hr
    simpa using this
  exact ⟨validUtf8_of_no_error s (fun r hr => (h' r hr).1), h'⟩

/-- a bareword rune of the strict context is a bareword rune of every context -/
theorem allowedInBareword_of_strict (isPrint : Int → Bool) (r : Int) (ctx : Int)
    (h : allowedInBareword isPrint r strictExpr = true) : allowedInBareword isPrint r ctx = true := by
  simp only [allowedInBareword, strictExpr, LHSExpr, BracedElemExpr, CmdExpr] at h ⊢
  simp only [Bool.or_eq_true, Bool.and_eq_true, bne_iff_ne, ne_eq, beq_iff_eq] at h ⊢
  have h4 : ¬ ((4 : Int) = 1) := by decide
  simp only [not_true_eq_false, false_and, and_false, or_false, h4] at h
  left; left; left; exact h

theorem startsIndexing_of_bare (isPrint : Int → Bool) (r : Int) (ctx : Int)
    (h : allowedInBareword isPrint r ctx = true) : startsIndexing isPrint r ctx = true := by
  simp [startsIndexing, startsPrimary, h]

theorem not_bare_of_not_starts (isPrint : Int → Bool) (r : Int) (ctx : Int)
    (h : startsIndexing isPrint r ctx = false) : allowedInBareword isPrint r ctx = false := by
  cases hb : allowedInBareword isPrint r ctx
  · rfl
  · rw [startsIndexing_of_bare isPrint r ctx hb] at h; cases h

theorem ne_of_not_starts (isPrint : Int → Bool) (r : Int) (ctx : Int)
    (h : startsIndexing isPrint r ctx = false) : r ≠ 91 ∧ r ≠ 39 ∧ r ≠ 34 := by
  refine ⟨?_, ?_, ?_⟩ <;> (intro hr; subst hr; simp [startsIndexing, startsPrimary] at h)

/-- a bareword (as `QuoteAs` returns it) parses back -/
theorem word_bare_rt {e : C01.Env} {s : St} {w rest : Bytes} (ctx : Int) (fuel : Nat)
    (hne : w ≠ []) (hnd : needsDouble e.isPrint w = false) (hbare : isBare e.isPrint w strictExpr = true)
    (hstop : startsIndexing e.isPrint (peekOf rest) ctx = false) (hat : At e s (w ++ rest)) :
    parseNT (fuel + 3) (.compound ctx) e s = .ok (wordNode ctx s.pos w Bareword w) (adv s w.length) := by
  obtain ⟨hvalid, hrunes⟩ := needsDouble_false hnd
  have hw : encodeRunes (toRunes w) = w := encodeRunes_toRunes hvalid
  unfold isBare at hbare
  simp only [Bool.and_eq_true, bne_iff_ne, ne_eq, List.all_eq_true] at hbare
  obtain ⟨htil, hballowed⟩ := hbare
  cases hrs : toRunes w with
  | nil =>
    rw [hrs] at hw
    exact absurd hw.symm hne
  | cons r0 rs =>
    rw [hrs] at hw hrunes hballowed
    have hall : ∀ r ∈ r0 :: rs, validRune r = true ∧ allowedInBareword e.isPrint (r : Int) ctx = true := by
      intro r hr
      refine ⟨?_, allowedInBareword_of_strict _ _ _ (hballowed r hr)⟩
      have := toRunes_validRune w r (by rw [hrs]; exact hr)
      exact this
    have hat' : At e s (encodeRunes (r0 :: rs) ++ rest) := by rw [hw]; exact hat
    have hprim := primary_bare_rt (e := e) (s := s) (r0 := r0) (rs := rs) (rest := rest) ctx fuel hall
      (not_bare_of_not_starts _ _ _ hstop) hat'
    rw [hw] at hprim
    have hidx := indexing_rt (e := e) (s := s) (w := w) (rest := rest) ctx (fuel + 1) hprim rfl hat
      (ne_of_not_starts _ _ _ hstop).1
    have hpk : peekOf (w ++ rest) = (r0 : Int) := by
      rw [← hw]
      have : encodeRunes (r0 :: rs) ++ rest = encodeRune r0 ++ (encodeRunes rs ++ rest) := by simp [encodeRunes]
      rw [this, peekOf_rune (hall r0 List.mem_cons_self).1]
    have hcomp := compound_rt (e := e) (s := s) (w := w) (rest := rest) ctx (fuel + 2) hidx rfl hat
      (by rw [hpk]; exact startsIndexing_of_bare _ _ _ (hall r0 List.mem_cons_self).2)
      (by
        rw [hpk]
        intro h126
        apply htil
        rw [← hw]
        have : r0 = 126 := by exact_mod_cast h126
        subst this
        have h126e : encodeRune 126 = [126] := by decide
        simp [encodeRunes, h126e])
      hstop
    exact hcomp

theorem sqBody_eq (s : Bytes) : quoteSingleBody s = sqBody (toRunes s) := rfl

/-- a single-quoted string (as `QuoteAs` returns it) parses back -/
theorem word_single_rt {e : C01.Env} {s : St} {v rest : Bytes} (ctx : Int) (fuel : Nat)
    (hvalid : validUtf8 v = true)
    (hstop : startsIndexing e.isPrint (peekOf rest) ctx = false) (hat : At e s (quoteSingle v ++ rest)) :
    parseNT (fuel + 3) (.compound ctx) e s =
      .ok (wordNode ctx s.pos (quoteSingle v) SingleQuoted v) (adv s (quoteSingle v).length) := by
  have hv : encodeRunes (toRunes v) = v := encodeRunes_toRunes hvalid
  have hq : quoteSingle v = [39] ++ sqBody (toRunes v) ++ [39] := rfl
  have hprim := primary_single_rt (e := e) (s := s) (rs := toRunes v) (rest := rest) ctx fuel
    (toRunes_validRune v) (ne_of_not_starts _ _ _ hstop).2.1 (by rw [← hq]; exact hat)
  rw [← hq, hv] at hprim
  have hidx := indexing_rt (e := e) (s := s) (w := quoteSingle v) (rest := rest) ctx (fuel + 1) hprim rfl hat
    (ne_of_not_starts _ _ _ hstop).1
  have hpk : peekOf (quoteSingle v ++ rest) = 39 := by
    rw [hq]
    simp only [List.cons_append, List.nil_append]
    rw [peekOf_cons_ascii 39 _ (by decide)]
    decide
  exact compound_rt (e := e) (s := s) (w := quoteSingle v) (rest := rest) ctx (fuel + 2) hidx rfl hat
    (by rw [hpk]; simp [startsIndexing, startsPrimary]) (by rw [hpk]; decide) hstop

/-- a double-quoted string (as `QuoteAs` returns it) parses back: any bytes -/
theorem word_double_rt {e : C01.Env} {s : St} {v rest : Bytes} (ctx : Int) (fuel : Nat)
    (hstop : startsIndexing e.isPrint (peekOf rest) ctx = false)
    (hat : At e s (quoteDouble e.isPrint v ++ rest)) :
    parseNT (fuel + 3) (.compound ctx) e s =
      .ok (wordNode ctx s.pos (quoteDouble e.isPrint v) DoubleQuoted v) (adv s (quoteDouble e.isPrint v).length) := by
  have hprim := primary_double_rt (e := e) (s := s) (v := v) (rest := rest) ctx fuel hat
  have hidx := indexing_rt (e := e) (s := s) (w := quoteDouble e.isPrint v) (rest := rest) ctx (fuel + 1) hprim rfl hat
    (ne_of_not_starts _ _ _ hstop).1
  have hpk : peekOf (quoteDouble e.isPrint v ++ rest) = 34 := by
    have hq : quoteDouble e.isPrint v = 34 :: (quoteDoubleLoop e.isPrint 0 v ++ [34]) := by simp [quoteDouble]
    rw [hq]
    simp only [List.cons_append]
    rw [peekOf_cons_ascii 34 _ (by decide)]
    decide
  exact compound_rt (e := e) (s := s) (w := quoteDouble e.isPrint v) (rest := rest) ctx (fuel + 2) hidx rfl hat
    (by rw [hpk]; simp [startsIndexing, startsPrimary]) (by rw [hpk]; decide) hstop

/-- **Quoting round trip in place.**  The text `QuoteAs` produces for `stem`,
put anywhere in a buffer (after any `pre`, before any `rest` that does not
continue a word), is parsed by the `Compound` grammar function — in any
expression context — as exactly one word: one indexing without indices whose
head is a primary of the quoting `QuoteAs` reports, with value `stem`; the
parser stops right after the text and records no error. -/
theorem quoteAs_word_rt (isPrint : Int → Bool) (stem : Bytes) (q ctx : Int) (pre rest : Bytes)
    (k : Nat) (errs : List PErr)
    (hstop : startsIndexing isPrint (peekOf rest) ctx = false) :
    parseCompound isPrint (pre ++ (QuoteAs isPrint stem q).1 ++ rest) ctx
        { pos := pre.length, overEOF := k, errors := errs } =
      .ok (wordNode ctx pre.length (QuoteAs isPrint stem q).1 (QuoteAs isPrint stem q).2 stem)
        { pos := pre.length + (QuoteAs isPrint stem q).1.length, overEOF := k, errors := errs } := by
  generalize hsrc : pre ++ (QuoteAs isPrint stem q).1 ++ rest = src
  have hfuel : defaultFuel src = (7 * src.length + 5) + 3 := by unfold defaultFuel; omega
  unfold parseCompound runNT
  rw [hfuel]
  have hat : ∀ w, pre ++ w ++ rest = src →
      At { isPrint := isPrint, src := src } { pos := pre.length, overEOF := k, errors := errs } (w ++ rest) := by
    intro w hw
    refine ⟨?_, ?_⟩
    · simp only []; rw [← hw]; simp
    · simp only []; rw [← hw, List.append_assoc, List.drop_left]
  unfold QuoteAs quoteAs at hsrc ⊢
  by_cases hq : (q == DoubleQuoted) = true
  · simp only [hq, if_true] at hsrc ⊢
    exact word_double_rt (e := { isPrint := isPrint, src := src }) ctx _ hstop (hat _ hsrc)
  · simp only [hq, Bool.false_eq_true, if_false] at hsrc ⊢
    by_cases hem : stem.isEmpty = true
    · simp only [hem, if_true] at hsrc ⊢
      have hs : stem = [] := List.isEmpty_iff.mp hem
      subst hs
      have := word_single_rt (e := { isPrint := isPrint, src := src }) (v := []) ctx (7 * src.length + 5)
        (s := { pos := pre.length, overEOF := k, errors := errs }) (rest := rest) rfl hstop (hat _ hsrc)
      exact this
    · simp only [hem, Bool.false_eq_true, if_false] at hsrc ⊢
      by_cases hnd : needsDouble isPrint stem = true
      · simp only [hnd, if_true] at hsrc ⊢
        exact word_double_rt (e := { isPrint := isPrint, src := src }) ctx _ hstop (hat _ hsrc)
      · have hnd' : needsDouble isPrint stem = false := by simpa using hnd
        simp only [hnd, Bool.false_eq_true, if_false] at hsrc ⊢
        by_cases hb : (q == Bareword && isBare isPrint stem strictExpr) = true
        · simp only [hb, if_true] at hsrc ⊢
          have hne : stem ≠ [] := fun h0 => hem (by rw [h0]; rfl)
          exact word_bare_rt (e := { isPrint := isPrint, src := src }) ctx _ hne hnd'
            (Bool.and_eq_true_iff.mp hb).2 hstop (hat _ hsrc)
        · simp only [hb, Bool.false_eq_true, if_false] at hsrc ⊢
          exact word_single_rt (e := { isPrint := isPrint, src := src }) ctx _
            (needsDouble_false hnd').1 hstop (hat _ hsrc)

end C43
