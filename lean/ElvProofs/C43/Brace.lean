/-
C43 helper lemmas, part 16 (round 2): a lambda `{ ` as a nesting level —
`if $c { ls fo`, `each { put fo`.  `(*Primary).lbrace` sees a blank after the
brace, so it is a lambda (not a braced list): `parseSpacesAndNewlines`, no `|`
(no parameter list), then a `Chunk`.
-/
import ElvProofs.C43.Nest
namespace C43
open Go C01
open Gen.C01Chars

theorem peekOf_brace (t : Bytes) : peekOf (123 :: t) = 123 := by
  rw [peekOf_cons_ascii 123 t (by decide)]; decide

/-- `{ `: a lambda; its children contain the `Chunk` parsed after the brace and the blank -/
theorem primary_brace {e : C01.Env} (f : Nat) (ctx : Int) {s s' : St} {S : Bytes} {pn : Node}
    (hat : At e s (123 :: 32 :: S)) (hS : WordStart e.isPrint (peekOf S))
    (h : parseNT (f + 1) (.primary ctx) e s = .ok pn s') :
    pn.kind = .primary ∧ pn.frm = s.pos ∧ ∃ c sc, c ∈ pn.children ∧ parseNT f .chunk e (adv s 2) = .ok c sc := by
  obtain ⟨_, gws, _, _, _, _, _, _, _⟩ := hS.facts
  rw [parseNT_succ] at h
  obtain ⟨nb, text, hb, rfl⟩ := wrap_ok' h
  simp only [body, NT.init] at hb
  unfold primaryBody at hb
  rw [bind_of_eq (getEnv_eq e s), bind_of_eq (peek_at hat), peekOf_brace] at hb
  have hsp : startsPrimary e.isPrint 123 ctx = true := by simp [startsPrimary]
  have hbw : allowedInBareword e.isPrint 123 ctx = false := by simp [allowedInBareword, allowedInVariableName]
  simp only [hsp, hbw, Bool.not_true, Bool.false_eq_true, if_false,
    show ((123 : Int) == 39) = false by decide, show ((123 : Int) == 34) = false by decide,
    show ((123 : Int) == 36) = false by decide, show ((123 : Int) == 42) = false by decide,
    show ((123 : Int) == 63) = false by decide, show ((123 : Int) == 40) = false by decide,
    show ((123 : Int) == 91) = false by decide, show ((123 : Int) == 123) = true by decide, if_true] at hb
  unfold lbrace at hb
  obtain ⟨x, s1, hx, hb1⟩ := C02.bind_ok.1 hb
  have hat0 : At e s (encodeRune 123 ++ (32 :: S)) := by
    have : encodeRune 123 = [123] := by decide
    rw [this]; exact hat
  obtain ⟨_, hs1, hext1⟩ := parseSep_yes (r := 123) (by decide) (by decide) hat0 hx
  obtain ⟨ok1, nb1⟩ := x
  simp only at hb1 hext1
  rw [hs1] at hb1
  have hat1 : At e (adv s 1) (32 :: S) := by
    have := hat.adv (a := [123]); simpa using this
  rw [bind_of_eq (peek_at hat1), peekOf_space] at hb1
  have hcond : ((32 : Int) == 59 || (32 : Int) == 13 || (32 : Int) == 10 || (32 : Int) == 124 ||
      IsInlineWhitespace 32) = true := by decide
  simp only [hcond, if_true] at hb1
  unfold lambda at hb1
  obtain ⟨nb2, s2, h2, hb2⟩ := C02.bind_ok.1 hb1
  obtain ⟨hs2, hext2⟩ := parseSpacesInner_one true hat1 hS.next gws h2
  rw [hs2] at hb2
  have hat2 : At e (adv (adv s 1) 1) S := by
    have := hat1.adv (a := [32]); simpa using this
  have hno : peekOf S ≠ 124 := hS.ne_pipe
  rw [bind_of_eq (parseSep_no _ 124 hat2 hno)] at hb2
  simp only [Bool.false_eq_true, if_false] at hb2
  rw [bind_of_eq (pure_apply _ e _)] at hb2
  obtain ⟨c, sc, hc, hb3⟩ := C02.bind_ok.1 hb2
  obtain ⟨y, s3, hy, hb4⟩ := C02.bind_ok.1 hb3
  have hext3 := parseSep_ext hy
  obtain ⟨ok2, nb3⟩ := y
  simp only at hb4 hext3
  have hfin : nb = nb3 := by
    split at hb4
    · obtain ⟨_, s4, _, hb5⟩ := C02.bind_ok.1 hb4
      exact (ok_pure_inv hb5).1.symm
    · exact (ok_pure_inv hb4).1.symm
  rw [hfin]
  have hall : Ext (nb2.add c) nb3 := hext3
  have hpre : Ext { frm := s.pos, f := { ctx := ctx }, children := [] } nb2 :=
    hext1.trans ((Ext.of_eq rfl rfl).trans hext2)
  rw [adv_adv] at hc
  refine ⟨rfl, ?_, c, sc, ?_, hc⟩
  · show nb3.frm = s.pos
    rw [hall.1]
    exact hpre.1
  · show c ∈ nb3.children
    obtain ⟨_, l, hl⟩ := hall
    rw [hl]
    simp [NB.add]

/-- a `Compound` that starts with `{` has, among its children, the `Indexing` parsed at its start -/
theorem compound_brace {e : C01.Env} (f : Nat) (ctx : Int) {s s' : St} {S : Bytes} {cn : Node} (hat : At e s (123 :: S))
    (h : parseNT (f + 1) (.compound ctx) e s = .ok cn s') :
    cn.kind = .compound ∧ cn.frm = s.pos ∧ ∃ inn si, inn ∈ cn.children ∧ parseNT f (.indexing ctx) e s = .ok inn si := by
  rw [parseNT_succ] at h
  obtain ⟨nb, text, hb, rfl⟩ := wrap_ok' h
  simp only [body, NT.init] at hb
  unfold compoundBody at hb
  have htil : tilde { frm := s.pos, f := { ctx := ctx }, children := [] } e s =
      .ok { frm := s.pos, f := { ctx := ctx }, children := [] } s := by
    simp only [tilde]
    rw [bind_of_eq (peek_at hat), peekOf_brace]
    simp
  rw [bind_of_eq htil, bind_of_eq (loopFuel_eq e s)] at hb
  have hk : e.src.length + 2 = (e.src.length + 1) + 1 := rfl
  rw [hk] at hb
  unfold compoundLoop at hb
  rw [bind_of_eq (getEnv_eq e s), bind_of_eq (peek_at hat), peekOf_brace] at hb
  have hsi : startsIndexing e.isPrint 123 ctx = true := by simp [startsIndexing, startsPrimary]
  simp only [hsi, if_true] at hb
  obtain ⟨inn, si, hinn, hb1⟩ := C02.bind_ok.1 hb
  have hall := compoundLoop_ext _ _ _ _ _ _ _ _ hb1
  refine ⟨rfl, hall.1, inn, si, ?_, hinn⟩
  show inn ∈ nb.children
  obtain ⟨_, l, hl⟩ := hall
  rw [hl]
  simp [NB.add]

/-- `{ ` followed by a text whose `Chunk` reaches the word is a target for `Form.parse` -/
theorem creach_brace {e : C01.Env} (f n : Nat) (Q : Bytes) (ty : Int) (stem : Bytes) (S : Bytes)
    (hS : WordStart e.isPrint (peekOf S)) (hle : ∀ s : St, At e s S → s.pos ≤ n)
    (hchunk : ∀ (s sc : St) (c : Node), At e s S → parseNT f .chunk e s = .ok c sc →
      c.kind = .chunk ∧ c.frm = s.pos ∧ Reaches n Q ty stem c) :
    CReach e f n Q ty stem (123 :: 32 :: S) := by
  intro ctx s s' cn hat h
  obtain ⟨hck, hcf, inn, si, him, hinn⟩ := compound_brace (f + 2) ctx hat h
  obtain ⟨hik, hif, pn, sp, hpm, hpn⟩ := indexing_head (f + 1) ctx hinn
  obtain ⟨hpk, hpf, c, sc, hcm, hc⟩ := primary_brace f ctx hat hS hpn
  have hatS : At e (adv s 2) S := by
    have := hat.adv (a := [123, 32]); simpa using this
  obtain ⟨hkk, hkf, hr⟩ := hchunk _ sc c hatS hc
  have hpos := hle _ hatS
  simp only [adv] at hpos hkf
  refine ⟨hcf, ?_⟩
  refine Reaches.down him (by rw [hif]; omega) (Or.inr (by rw [hcf]; omega)) ?_
  refine Reaches.down hpm (by rw [hpf]; omega) (Or.inl (by rw [hik]; decide)) ?_
  exact Reaches.down hcm (by rw [hkf]; omega) (Or.inl (by rw [hpk]; decide)) hr

end C43
