/-
C43 helper lemmas, part 8: hexadecimal escapes — `rtohex` against `hexLoop`.
-/
import ElvProofs.C43.Single
namespace C43
open Go C01
open Gen.C01Chars

theorem hexLower_lt (d : Nat) (h : d < 16) : (hexLower d).toNat < 128 := by
  unfold hexLower
  split
  · rw [toNat_ofNat_of_lt (by omega)]; omega
  · rw [toNat_ofNat_of_lt (by omega)]; omega

theorem hexToDigit_hexLower : ∀ d : Fin 16, hexToDigit ((hexLower d.val).toNat : Int) = ((d.val : Int), true) := by
  decide

theorem hexToDigit_hexLower' (d : Nat) (h : d < 16) : hexToDigit ((hexLower d).toNat : Int) = ((d : Int), true) :=
  hexToDigit_hexLower ⟨d, h⟩

/-- most significant digit first -/
theorem rtohex_succ : ∀ (k r : Nat), rtohex r (k + 1) = hexLower (r / 16 ^ k % 16) :: rtohex r k
  | 0, r => by simp [rtohex]
  | k + 1, r => by
    have ih := rtohex_succ k (r / 16)
    show rtohex (r / 16) (k + 1) ++ [hexLower (r % 16)] = _
    rw [ih]
    have : r / 16 / 16 ^ k = r / 16 ^ (k + 1) := by
      rw [Nat.div_div_eq_div_mul, Nat.pow_succ, Nat.mul_comm]
    rw [this]
    rfl

theorem rtohex_length : ∀ (k r : Nat), (rtohex r k).length = k
  | 0, _ => rfl
  | k + 1, r => by simp [rtohex, rtohex_length k]

theorem wrap32_small (x : Int) (h0 : 0 ≤ x) (h1 : x < 2147483648) : wrap32 x = x := by
  unfold wrap32; omega

/-- `next` over one ASCII byte -/
theorem next_ascii {e : C01.Env} {s : St} {b : UInt8} {t : Bytes} (hb : b.toNat < 128) (h : At e s (b :: t)) :
    next e s = .ok (b.toNat : Int) (adv s 1) ∧ At e (adv s 1) t := by
  have hne : b :: t ≠ [] := by simp
  rw [next_at h hne, decodeRune_one b t hb]
  exact ⟨rfl, At.adv (a := [b]) (b := t) h⟩

/-- `hexLoop` over the `k` low hex digits of `r` -/
theorem hexLoop_run {e : C01.Env} : ∀ (k : Nat) (r : Nat) (acc : Nat) (s : St) (t : Bytes),
    acc * 16 ^ k + r % 16 ^ k < 2147483648 → At e s (rtohex r k ++ t) →
    hexLoop k (acc : Int) e s = .ok ((acc * 16 ^ k + r % 16 ^ k : Nat) : Int) (adv s k)
  | 0, r, acc, s, t, _, _ => by
    simp [hexLoop, adv_zero, Nat.mod_one]
  | k + 1, r, acc, s, t, hsmall, hat => by
    rw [rtohex_succ, List.cons_append] at hat
    have hd : r / 16 ^ k % 16 < 16 := Nat.mod_lt _ (by decide)
    obtain ⟨hnx, hat'⟩ := next_ascii (hexLower_lt _ hd) hat
    unfold hexLoop
    rw [bind_of_eq hnx]
    simp only [hexToDigit_hexLower' _ hd, Bool.not_true, Bool.false_eq_true, if_false]
    -- the accumulator after this digit
    have hmod : r % 16 ^ (k + 1) = (r / 16 ^ k % 16) * 16 ^ k + r % 16 ^ k := by
      rw [Nat.pow_succ, Nat.mod_mul, Nat.add_comm, Nat.mul_comm]
    have hpos : 0 < 16 ^ k := Nat.pow_pos (by decide)
    have hacc : (acc * 16 + r / 16 ^ k % 16) * 16 ^ k + r % 16 ^ k = acc * 16 ^ (k + 1) + r % 16 ^ (k + 1) := by
      rw [hmod, Nat.pow_succ, Nat.add_mul, Nat.mul_assoc, Nat.mul_comm 16 (16 ^ k), Nat.add_assoc]
    generalize hdig : r / 16 ^ k % 16 = dig at *
    have hsm : acc * 16 + dig < 2147483648 := by
      have h1 : (acc * 16 + dig) * 1 ≤ (acc * 16 + dig) * 16 ^ k := Nat.mul_le_mul_left _ hpos
      have h2 : (acc * 16 + dig) * 16 ^ k + r % 16 ^ k < 2147483648 := by rw [hacc]; exact hsmall
      generalize (acc * 16 + dig) * 16 ^ k = big at *
      omega
    have hw : wrap32 ((acc : Int) * 16 + (dig : Int)) = ((acc * 16 + dig : Nat) : Int) := by
      rw [wrap32_small _ (by omega) (by omega)]
      simp
    rw [hw, hexLoop_run k r (acc * 16 + dig) _ t (by rw [hacc]; exact hsmall) hat', hacc, adv_adv, Nat.add_comm 1 k]

end C43
