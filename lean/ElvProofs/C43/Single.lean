/-
C43 helper lemmas, part 6: a single-quoted word parses back to its value, in
situ (`quoteSingle` against `singleQuoted` / `singleQuotedLoop`).
-/
import ElvProofs.C43.Word
namespace C43
open Go C01
open Gen.C01Chars

/-- body of `quoteSingle` over the runes -/
def sqBody (rs : List Nat) : Bytes := rs.flatMap fun r => encodeRune r ++ (if r == 39 then [39] else [])

theorem sqBody_cons (r : Nat) (rs : List Nat) :
    sqBody (r :: rs) = encodeRune r ++ (if r == 39 then [39] else []) ++ sqBody rs := by
  simp [sqBody]

theorem length_le_sqBody : ∀ rs : List Nat, rs.length ≤ (sqBody rs).length
  | [] => Nat.le_refl _
  | r :: rs => by
    have h1 := encodeRune_length_pos r
    have h2 := length_le_sqBody rs
    rw [sqBody_cons]
    simp only [List.length_append, List.length_cons]
    omega

theorem writeRune_nat (r : Nat) : C01.writeRune (r : Int) = encodeRune r := by
  unfold C01.writeRune
  have : ¬ ((r : Int) < 0) := by omega
  simp [this]

theorem peekOf_cons_ascii (b : UInt8) (t : Bytes) (h : b.toNat < 128) : peekOf (b :: t) = (b.toNat : Int) := by
  unfold peekOf
  simp [decodeRune_one b t h]

theorem encodeRune_39 : encodeRune 39 = [39] := by decide

/-- `singleQuotedLoop` over the body of a single-quoted string up to and
including the closing quote -/
theorem singleQuotedLoop_run {e : C01.Env} : ∀ (rs : List Nat) (n : Nat) (s : St) (buf rest : Bytes),
    (∀ r ∈ rs, validRune r = true) → peekOf rest ≠ 39 → rs.length < n →
    At e s (sqBody rs ++ ([39] ++ rest)) →
    singleQuotedLoop n buf e s = .ok (buf ++ encodeRunes rs) (adv s ((sqBody rs).length + 1))
  | [], n + 1, s, buf, rest, _, hstop, _, hat => by
    simp only [sqBody, List.flatMap_nil, List.nil_append] at hat
    have hat1 : At e s (encodeRune 39 ++ rest) := by rw [encodeRune_39]; exact hat
    obtain ⟨hnx, hat'⟩ := next_rune (r := 39) (by decide) hat1
    unfold singleQuotedLoop
    rw [bind_of_eq hnx]
    have h1 : (((39 : Nat) : Int) == eof) = false := by decide
    simp only [h1, Bool.false_eq_true, if_false]
    have h2 : (((39 : Nat) : Int) == 39) = true := by decide
    simp only [h2, if_true]
    rw [bind_of_eq (peek_at hat')]
    have : (peekOf rest == 39) = false := by simpa using hstop
    simp [this, encodeRunes, sqBody, encodeRune_39]
  | r :: rs, n + 1, s, buf, rest, hall, hstop, hn, hat => by
    have hr := hall r List.mem_cons_self
    have hall' : ∀ x ∈ rs, validRune x = true := fun x hx => hall x (List.mem_cons_of_mem _ hx)
    have hn' : rs.length < n := by simp only [List.length_cons] at hn; omega
    rw [sqBody_cons, List.append_assoc, List.append_assoc] at hat
    obtain ⟨hnx, hat'⟩ := next_rune hr hat
    unfold singleQuotedLoop
    rw [bind_of_eq hnx]
    have h1 : ((r : Int) == eof) = false := by
      simp only [eof, beq_eq_false_iff_ne, ne_eq]; omega
    simp only [h1, Bool.false_eq_true, if_false]
    by_cases h39 : r = 39
    · subst h39
      simp only [beq_self_eq_true, if_true, List.singleton_append] at hat' ⊢
      have h2 : (((39 : Nat) : Int) == 39) = true := by decide
      simp only [h2, if_true]
      rw [bind_of_eq (peek_at hat'), peekOf_cons_ascii 39 _ (by decide)]
      have h3 : (((39 : UInt8).toNat : Int) == 39) = true := by decide
      simp only [h3, if_true]
      have hat'' : At e (adv s (encodeRune 39).length) (encodeRune 39 ++ (sqBody rs ++ ([39] ++ rest))) := by
        rw [encodeRune_39]; exact hat'
      obtain ⟨hnx2, hat3⟩ := next_rune (r := 39) (by decide) hat''
      rw [bind_of_eq hnx2]
      rw [singleQuotedLoop_run rs n _ (buf ++ [39]) rest hall' hstop hn' hat3]
      simp only [adv_adv, sqBody_cons, encodeRunes, List.flatMap_cons, encodeRune_39, List.length_append,
        List.length_cons, List.length_nil, beq_self_eq_true, if_true, List.append_assoc]
      congr 2
      omega
    · have h2 : ((r : Int) == 39) = false := by
        simp only [beq_eq_false_iff_ne, ne_eq]; omega
      have h3 : (r == 39) = false := by simpa using h39
      simp only [h2, Bool.false_eq_true, if_false]
      simp only [h3, Bool.false_eq_true, if_false, List.nil_append] at hat'
      rw [writeRune_nat]
      rw [singleQuotedLoop_run rs n _ (buf ++ encodeRune r) rest hall' hstop hn' hat']
      simp only [adv_adv, sqBody_cons, encodeRunes, List.flatMap_cons, h3, List.length_append,
        Bool.false_eq_true, if_false, List.append_nil, List.append_assoc]
      congr 2

/-- the node `parse(ps, &Primary{ExprCtx: ctx})` returns for a quoted string -/
def quotedNode (ctx : Int) (ty : Int) (frm : Nat) (w val : Bytes) : Node :=
  .mk .primary frm (frm + w.length) w { ctx := ctx, ptype := ty, value := val } []

theorem allowedInBareword_39 (isPrint : Int → Bool) (ctx : Int) : allowedInBareword isPrint 39 ctx = false := by
  simp [allowedInBareword, allowedInVariableName]

theorem startsPrimary_39 (isPrint : Int → Bool) (ctx : Int) : startsPrimary isPrint 39 ctx = true := by
  simp [startsPrimary]

/-- a single-quoted string parses back to its value -/
theorem primary_single_rt {e : C01.Env} {s : St} {rs : List Nat} {rest : Bytes} (ctx : Int) (fuel : Nat)
    (hall : ∀ r ∈ rs, validRune r = true) (hstop : peekOf rest ≠ 39)
    (hat : At e s (([39] ++ sqBody rs ++ [39]) ++ rest)) :
    parseNT (fuel + 1) (.primary ctx) e s =
      .ok (quotedNode ctx SingleQuoted s.pos ([39] ++ sqBody rs ++ [39]) (encodeRunes rs))
        (adv s ([39] ++ sqBody rs ++ [39]).length) := by
  have hat0 : At e s (encodeRune 39 ++ (sqBody rs ++ ([39] ++ rest))) := by
    rw [encodeRune_39]; simpa using hat
  have hpeek : peekOf (([39] ++ sqBody rs ++ [39]) ++ rest) = 39 := by
    simp only [List.cons_append, List.nil_append]
    rw [peekOf_cons_ascii 39 _ (by decide)]
    decide
  obtain ⟨hnx, hat1⟩ := next_rune (r := 39) (by decide) hat0
  have hlen := hat.len
  have hfuel : rs.length < e.src.length + 2 := by
    have := length_le_sqBody rs
    simp only [List.length_append, List.length_cons, List.length_nil] at hlen
    omega
  have hinner : singleQuotedInner e (adv s (encodeRune 39).length) =
      .ok (encodeRunes rs) (adv (adv s (encodeRune 39).length) ((sqBody rs).length + 1)) := by
    unfold singleQuotedInner
    rw [bind_of_eq (loopFuel_eq e _)]
    have := singleQuotedLoop_run rs (e.src.length + 2) _ [] rest hall hstop hfuel hat1
    simpa using this
  have hbody : primaryBody (fun nt' => parseNT fuel nt') { frm := s.pos, f := { ctx := ctx }, children := [] } e s =
      .ok ((NB.setType { frm := s.pos, f := { ctx := ctx }, children := [] } SingleQuoted).setValue (encodeRunes rs))
        (adv s ([39] ++ sqBody rs ++ [39]).length) := by
    simp only [primaryBody]
    rw [bind_of_eq (getEnv_eq e s), bind_of_eq (peek_at hat), hpeek]
    simp only [startsPrimary_39, allowedInBareword_39, Bool.not_true, Bool.false_eq_true, if_false]
    have h39 : ((39 : Int) == 39) = true := by decide
    simp only [h39, if_true]
    unfold singleQuoted
    rw [bind_of_eq hnx, bind_of_eq hinner]
    simp only [adv_adv, encodeRune_39, List.length_append, List.length_cons, List.length_nil]
    have : 0 + 1 + ((sqBody rs).length + 1) = 0 + 1 + (sqBody rs).length + (0 + 1) := by omega
    rw [this]
    rfl
  simp only [parseNT, wrap]
  rw [bind_of_eq (getPos_eq e s)]
  simp only [body, NT.init]
  rw [bind_of_eq hbody, bind_of_eq (getPos_eq e _)]
  simp only [NB.setType, NB.setValue]
  generalize hw : ([39] ++ sqBody rs ++ [39] : Bytes) = w at *
  simp only [List.length_append] at hlen
  rw [bind_of_eq (sliceSrc_at (s := adv s w.length) (a := s.pos) (b := (adv s w.length).pos)
    (by simp [adv]) (by simp only [adv]; omega))]
  simp only [adv, Nat.add_sub_cancel_left, hat.take]
  rfl

end C43
